INIT Init
NEXT Next
CONSTANTS
  Part = "matrix"
  Tier = "quick"
INVARIANT LawCall
INVARIANT LawMatrix
INVARIANT LawOverride
