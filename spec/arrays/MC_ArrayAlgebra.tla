--------------------------- MODULE MC_ArrayAlgebra ---------------------------
(* Model instance for C14.  TLC enumerates every case inside the bounds, evaluates the outcome ArrayAlgebra allows
   and checks the laws; the dump is replayed into MathArray operators, evaluator() and MatrixGrader.
   Parts:  bin    every operator on every ordered pair of operands (all shapes x value variants, scalars pool)
           pow    every 2 x 2 matrix over a small entry set x exponent pool x negative powers enabled / disabled
           chain  product chains of 2..4 operands (scalars, vectors, square matrices), '*' and '/', one optional group
           lit    array literals as bracket trees (rectangular / ragged), behind the property: how operands are built
           scaled rank-deficient and regular base matrices multiplied by large / small / complex scalars, negative powers
           src    a scalar operand obtained from a function call, a negated call, a product ... on either side of an array
           near   exponents at distance 1e-3 .. 1e-9 (and 0) from an integer, written as a decimal, a sum, a 0-dim array
           scope  call histories: graders with negative powers disabled / enabled interleaved with direct operations
   Operands are carried in compact form  [sh |-> shape, e |-> << <<a, b, d>>, ... >>]  meaning (a + b i) / d. *)
EXTENDS ArrayAlgebra
CONSTANTS Part, MaxDim, NReal, NCplx, Big

\* ---- value streams: an operand of shape sh and variant t takes the first SizeOf(sh) entries of stream t
RealStreams == <<
  <<2, 1, 0, 1,   1, 3, 1, 0,   -1, 1, 2, 1,   0, 1, -1, 2>>,
  <<1, 2, 3, 4,   -1, 0, 2, 1,   3, -2, 1, 0,   2, 2, -1, 1>>,
  <<1, 1, 1, 1,   1, 1, 1, 1,   1, 1, 1, 1,   1, 1, 1, 1>>,             \* every matrix singular
  <<0, 0, 0, 0,   0, 0, 0, 0,   0, 0, 0, 0,   0, 0, 0, 0>>,             \* zero arrays are not the number 0
  <<1, -1, 0, 2,   2, 0, 1, -1,   0, 3, 1, 1,   -2, 1, 0, 1>>,
  <<0, 1, 1, 0,   2, 1, 1, 1,   0, 2, 0, 1,   1, 0, 0, 3>>,
  <<2, 1, 3, 1,   0, 1, 3, 1,   4, 1, 1, 2,   0, 2, 1, 1>> >>          \* 3 x 3 prefix: third row = first + second
CplxStreams == <<
  << <<1, 1>>, <<0, 1>>, <<2, 0>>, <<1, -1>>,   <<0, 0>>, <<1, 0>>, <<0, -1>>, <<1, 0>>,
     <<2, 1>>, <<0, 0>>, <<1, 0>>, <<0, 1>>,   <<1, 0>>, <<-1, 0>>, <<0, 2>>, <<1, 1>> >>,
  << <<0, 1>>, <<1, 0>>, <<1, 0>>, <<0, -1>>,   <<0, 1>>, <<1, 0>>, <<1, 0>>, <<0, -1>>,      \* 2 x 2 prefix singular
     <<0, 1>>, <<1, 0>>, <<1, 0>>, <<0, -1>>,   <<0, 1>>, <<1, 0>>, <<1, 0>>, <<0, -1>> >>,
  << <<1, 0>>, <<0, 1>>, <<0, 1>>, <<1, 0>>,   <<1, 1>>, <<0, 0>>, <<2, 0>>, <<0, -1>>,
     <<0, 0>>, <<1, 0>>, <<1, -1>>, <<0, 1>>,   <<0, 1>>, <<2, 0>>, <<0, 0>>, <<1, 0>> >> >>
Stream(t) == IF t <= NReal THEN [i \in 1..16 |-> <<RealStreams[t][i], 0, 1>>]
             ELSE [i \in 1..16 |-> <<CplxStreams[t - NReal][i][1], CplxStreams[t - NReal][i][2], 1>>]
Variants == 1..(NReal + NCplx)
Arr(sh, t) == [sh |-> sh, e |-> SubSeq(Stream(t), 1, SizeOf(sh))]

VecShapes == {<<n>> : n \in 2..4}
MatShapes == {<<m, n>> : m, n \in 1..MaxDim} \ {<<1, 1>>}
TensorShapes == IF Big THEN {<<2, 2, 2>>, <<2, 1, 2>>} ELSE {<<2, 2, 2>>}
ArrayShapes == VecShapes \cup MatShapes \cup TensorShapes
Shapes == {<<>>} \cup ArrayShapes

Sc(a, b, d) == [sh |-> <<>>, e |-> << <<a, b, d>> >>]
ScalarPool == {Sc(0, 0, 1), Sc(1, 0, 1), Sc(2, 0, 1), Sc(3, 0, 1), Sc(-1, 0, 1), Sc(-2, 0, 1),
               Sc(1, 0, 2), Sc(5, 0, 2), Sc(0, 1, 1), Sc(1, 1, 1)}
              \cup (IF Big THEN {Sc(-3, 0, 1), Sc(-1, 0, 2), Sc(2, -1, 1), Sc(4, 0, 1)} ELSE {})
OperandsOf(sh) == IF sh = <<>> THEN ScalarPool ELSE {Arr(sh, t) : t \in Variants}
AllOperands == UNION {OperandsOf(sh) : sh \in Shapes}

\* compact form -> exact arrays
GQ(q) == <<Q(q[1], q[3]), Q(q[2], q[3])>>
Ex(a) == [sh |-> a.sh, e |-> Tup([i \in 1..Len(a.e) |-> GQ(a.e[i])], Len(a.e))]

\* ---- part pow: all 2 x 2 matrices over a small entry set
RealEntries == IF Big THEN {<<-2, 0, 1>>, <<-1, 0, 1>>, <<0, 0, 1>>, <<1, 0, 1>>, <<2, 0, 1>>}
               ELSE {<<-1, 0, 1>>, <<0, 0, 1>>, <<1, 0, 1>>, <<2, 0, 1>>}
CplxEntries == IF Big THEN {<<0, 0, 1>>, <<1, 0, 1>>, <<0, 1, 1>>, <<1, 1, 1>>, <<0, -1, 1>>}
               ELSE {<<0, 0, 1>>, <<1, 0, 1>>, <<0, 1, 1>>}
PowRow == {<<p, q>> : p, q \in RealEntries} \cup {<<p, q>> : p, q \in CplxEntries}
Exponents == {Sc(-2, 0, 1), Sc(-1, 0, 1), Sc(0, 0, 1), Sc(1, 0, 1), Sc(2, 0, 1), Sc(3, 0, 1), Sc(1, 0, 2), Sc(0, 1, 1)}
             \cup (IF Big THEN {Sc(-3, 0, 1), Sc(4, 0, 1), Sc(5, 0, 2), Sc(-1, 0, 2)} ELSE {})
SameField(r1, r2) == (\A i \in 1..2 : r1[i] \in RealEntries /\ r2[i] \in RealEntries)
                     \/ (\A i \in 1..2 : r1[i] \in CplxEntries /\ r2[i] \in CplxEntries)

\* ---- part chain
ChainDims == IF Big THEN {2, 3} ELSE {2}
ChainOperands(n) ==
  {Sc(2, 0, 1), Arr(<<n>>, 1), Arr(<<n>>, 2), Arr(<<n, n>>, 1), Arr(<<n, n>>, NReal + 1)}
  \cup (IF Big THEN {Sc(1, 1, 2), Arr(<<n>>, NReal + 1), Arr(<<5 - n>>, 1)} ELSE {})
OpPatterns(L) == {[i \in 1..(L - 1) |-> "*"]} \cup {[i \in 1..(L - 1) |-> IF i = p THEN "/" ELSE "*"] : p \in 1..(L - 1)}
Groups(L) == {<<0, 0>>} \cup {<<p, q>> \in (1..L) \X (1..L) : p < q /\ q - p < L - 1 /\ (Big \/ q = p + 1)}

\* ---- part scope: histories of calls
(* call kinds:  gd_neg  MatrixGrader(negative_powers=False) given A^-1      gd_pos  the same grader given A^2
               gd_shape the same grader given an input with a shape error   ge_neg  default MatrixGrader given A^-1
               gdd_neg / gdd_pos / ged_neg  the same with a dependent (computed) variable in the grader's sample_from
               op_neg  direct A ** -1                                        op_pos  direct A ** 2
   The switch is process-wide state: "flag" is its value.  A grader call sets it on entry to the configured value,
   keeps it there for the whole evaluation of the student's input -- whatever else happens inside the call, e.g. the
   computation of dependent variables, which may run a nested block that sets the switch for its own purposes and
   has to leave it as it found it -- and restores the default on every exit (normal or exceptional).  *)
CallKinds == {"gd_neg", "gd_pos", "gd_shape", "ge_neg", "gdd_neg", "gdd_pos", "ged_neg", "op_neg", "op_pos"}
MaxHist == IF Big THEN 4 ELSE 3
IsGraderCall(call) == call \notin {"op_neg", "op_pos"}
HasDependent(call) == call \in {"gdd_neg", "gdd_pos", "ged_neg"}
Configured(call) == call \in {"ge_neg", "ged_neg"}              \* negative_powers of the grader behind the call
AllowedFor(call, flagInside) ==
  IF call \in {"gd_pos", "gdd_pos", "op_pos"} THEN "value"
  ELSE IF call = "gd_shape" THEN "error"
  ELSE IF flagInside THEN "value" ELSE "error"

\* ---- part lit: array literals as bracket trees, rectangular and ragged
Num == [k |-> "num"]
ArrOver(S, maxn) == {[k |-> "arr", xs |-> s] : s \in UNION {[1..n -> S] : n \in 1..maxn}}
Lit1 == ArrOver({Num}, 3)
Lit2 == ArrOver({Num} \cup Lit1, IF Big THEN 3 ELSE 2)
Lit3 == ArrOver({Num} \cup {t \in Lit1 : Len(t.xs) <= 2} \cup {t \in Lit2 : Len(t.xs) <= 2}, 2)

\* ---- part scaled: base matrices x scalar factors x exponents (a determinant threshold cannot decide singularity)
RealArr(sh, ents) == [sh |-> sh, e |-> [i \in 1..Len(ents) |-> <<ents[i], 0, 1>>]]
ScaleC(s, a) == [sh |-> a.sh, e |-> [i \in 1..Len(a.e) |->
                   <<a.e[i][1] * s[1] - a.e[i][2] * s[2], a.e[i][1] * s[2] + a.e[i][2] * s[1], a.e[i][3] * s[3]>>]]
AP3 == RealArr(<<3, 3>>, <<1, 2, 3, 4, 5, 6, 7, 8, 9>>)                                  \* rank 2
AP4 == RealArr(<<4, 4>>, <<1, 2, 3, 4, 5, 6, 7, 8, 9, 10, 11, 12, 13, 14, 15, 16>>)      \* rank 2
S3 == RealArr(<<3, 3>>, <<2, 1, 3, 1, 0, 1, 3, 1, 4>>)                                   \* row 3 = row 1 + row 2
L4 == RealArr(<<4, 4>>, <<1, 2, 0, 1, 0, 1, 3, 1, 1, 3, 3, 2, 1, 1, -3, 0>>)             \* rows 3, 4 = row 1 +- row 2
Z2 == RealArr(<<2, 2>>, <<1, 2, 3, 6>>)
C2 == [sh |-> <<2, 2>>, e |-> << <<-3, 1, 1>>, <<0, 2, 1>>, <<-6, 2, 1>>, <<0, 4, 1>> >>]  \* row 2 = 2 * row 1
C3 == [sh |-> <<3, 3>>, e |-> << <<1, 1, 1>>, <<2, 0, 1>>, <<0, 1, 1>>, <<0, 1, 1>>, <<1, -1, 1>>, <<3, 0, 1>>,
                                 <<1, 2, 1>>, <<3, -1, 1>>, <<3, 1, 1>> >>]                \* row 3 = row 1 + row 2
N2 == RealArr(<<2, 2>>, <<1, 2, 3, 4>>)                                                  \* det -2
N3 == RealArr(<<3, 3>>, <<1, 2, 3, 4, 5, 6, 7, 8, 10>>)                                  \* det -3, next to AP3
M3 == RealArr(<<3, 3>>, <<2, 1, 0, 1, 1, 3, 1, 0, -1>>)                                  \* det 2
NC2 == [sh |-> <<2, 2>>, e |-> << <<1, 0, 1>>, <<0, 1, 1>>, <<0, 1, 1>>, <<1, 0, 1>> >>]  \* det 2
N4 == RealArr(<<4, 4>>, <<0, 1, 1, 0, 2, 1, 1, 1, 0, 2, 0, 1, 1, 0, 0, 3>>)              \* det 10
\* factor sets are limited per base only by TLC's 32-bit integers (determinants grow like factor^n)
ScaledFamilies == {
  [b |-> AP3, ss |-> {<<1, 0, 1>>, <<7, 0, 1>>, <<10, 0, 1>>, <<13, 0, 1>>, <<100, 0, 1>>, <<10, 10, 1>>, <<3, -4, 1>>,
                      <<1, 0, 10>>, <<1, 0, 100>>}, ks |-> {-3, -2, -1, 2}],
  [b |-> AP4, ss |-> {<<1, 0, 1>>, <<7, 0, 1>>, <<10, 0, 1>>, <<13, 0, 1>>, <<10, 10, 1>>, <<1, 0, 10>>}, ks |-> {-2, -1}],
  [b |-> S3, ss |-> {<<1, 0, 1>>, <<7, 0, 1>>, <<10, 0, 1>>, <<100, 0, 1>>, <<10, 10, 1>>, <<1, 0, 100>>}, ks |-> {-2, -1}],
  [b |-> L4, ss |-> {<<1, 0, 1>>, <<10, 0, 1>>, <<13, 0, 1>>, <<0, 7, 1>>}, ks |-> {-3, -1}],
  [b |-> Z2, ss |-> {<<1, 0, 1>>, <<10, 0, 1>>, <<1000, 0, 1>>, <<10, 10, 1>>, <<1, 0, 1000>>}, ks |-> {-2, -1}],
  [b |-> C2, ss |-> {<<1, 0, 1>>, <<10, 0, 1>>, <<100, 0, 1>>, <<1, 1, 1>>, <<1, 0, 10>>}, ks |-> {-2, -1}],
  [b |-> C3, ss |-> {<<1, 0, 1>>, <<10, 0, 1>>, <<7, 7, 1>>, <<30, 0, 1>>}, ks |-> {-2, -1}],
  [b |-> N2, ss |-> {<<1, 0, 1>>, <<10, 0, 1>>, <<1000, 0, 1>>, <<1, 0, 1000>>, <<10, 10, 1>>, <<1, 0, 10>>}, ks |-> {-1}],
  [b |-> N2, ss |-> {<<10, 0, 1>>, <<1, 0, 10>>, <<1, 1, 1>>}, ks |-> {-3, -2}],
  [b |-> N3, ss |-> {<<1, 0, 1>>, <<10, 0, 1>>, <<100, 0, 1>>, <<1, 0, 10>>, <<1, 0, 100>>, <<1, 0, 1000>>, <<10, 10, 1>>},
   ks |-> {-1}],
  [b |-> N3, ss |-> {<<1, 0, 1>>, <<10, 0, 1>>, <<1, 0, 10>>}, ks |-> {-2}],
  [b |-> M3, ss |-> {<<1, 0, 1>>, <<7, 0, 1>>, <<10, 0, 1>>, <<1, 0, 10>>}, ks |-> {-2, -1}],
  [b |-> NC2, ss |-> {<<1, 0, 1>>, <<10, 0, 1>>, <<1, 0, 10>>, <<1, 1, 1>>}, ks |-> {-2, -1}],
  [b |-> NC2, ss |-> {<<1, 0, 1000>>, <<100, 0, 1>>}, ks |-> {-1}],
  [b |-> N4, ss |-> {<<1, 0, 1>>, <<7, 0, 1>>, <<10, 0, 1>>, <<1, 0, 10>>}, ks |-> {-1}] }

\* ---- part src: where a scalar operand comes from (the outcome must not depend on it)
(* paren (s)   det det([[s,0],[0,1]])   trace trace([[s,0],[0,0]])   negdet -det([[-s,0],[0,1]])   conj conj(conjugate of s)
   re re(s+i)   abs abs(-s)   negabs -abs(s)   sqrt sqrt(s^2)   norm norm([s,0])   dot [s,0]*[1,0]                *)
Sources == {"paren", "det", "trace", "negdet", "conj", "re", "abs", "negabs", "sqrt", "norm", "dot"}
\* (numpy's det([[3,0],[0,1]]) is 3.0000000000000004: a determinant is not used where an exponent must be an exact integer)
SrcApplies(src, q, op, side) ==
                      IF src \in {"det", "negdet"} /\ op = "^" /\ side = "right" THEN FALSE
                      ELSE IF src \in {"paren", "det", "trace", "negdet", "conj", "dot"} THEN TRUE
                      ELSE IF q[2] # 0 THEN FALSE
                      ELSE IF src = "re" THEN TRUE
                      ELSE IF src = "negabs" THEN q[1] < 0
                      ELSE q[1] >= 0
SrcArrays == {Arr(sh, 1) : sh \in ArrayShapes}
             \cup {Arr(sh, NReal + 1) : sh \in (IF Big THEN ArrayShapes ELSE {<<2>>, <<2, 2>>})}

\* ---- part near: square matrices to exponents next to integers
RECURSIVE Ten(_)
Ten(n) == IF n = 0 THEN 1 ELSE 10 * Ten(n - 1)
NearBases == {-2, -1, 0, 1, 2, 3, 5}
NearMatrices == {N2, NC2, M3}
Writings == {"decimal", "sum", "array0"}       \* 2.00001   (2+0.00001)   a zero-dimensional array holding 2.00001
NearExp(b, d, p) == Sc(b * Ten(p) + d, 0, Ten(p))

VARIABLES c, out

Seeds ==
  IF Part = "bin" THEN {s \in [kind : {"seed"}, op : Ops, xsh : Shapes, neg : BOOLEAN] : s.neg \/ s.op = "^"}
  ELSE IF Part = "pow" THEN {[kind |-> "seed", r1 |-> r, neg |-> ng] : r \in PowRow, ng \in BOOLEAN}
  ELSE IF Part = "chain" THEN {[kind |-> "seed", n |-> n, ops |-> ops] : n \in ChainDims, ops \in UNION {OpPatterns(L) : L \in 2..4}}
  ELSE IF Part = "lit" THEN {[kind |-> "seed", lvl |-> i] : i \in 1..3}
  ELSE IF Part = "near" THEN {[kind |-> "seed", m |-> m, neg |-> ng, wr |-> w] : m \in NearMatrices, ng \in BOOLEAN, w \in Writings}
  ELSE IF Part = "scaled" THEN {[kind |-> "seed", fam |-> f] : f \in ScaledFamilies}
  ELSE IF Part = "src" THEN {[kind |-> "seed", op |-> op, side |-> sd, src |-> sr] : op \in Ops, sd \in {"left", "right"}, sr \in Sources}
  ELSE {[kind |-> "scope", flag |-> TRUE, inside |-> "none", phase |-> "idle", saved |-> TRUE, hist |-> <<>>]}

Init == c \in Seeds /\ out = (IF Part = "scope" THEN <<>> ELSE [k |-> "seed"])

NextBin == /\ c' \in [kind : {"bin"}, op : {c.op}, neg : {c.neg}, x : OperandsOf(c.xsh), y : AllOperands]
           /\ out' = Op(c'.op, Ex(c'.x), Ex(c'.y), c'.neg)
NextPow == /\ c' \in [kind : {"pow"}, neg : {c.neg}, r1 : {c.r1}, r2 : {r \in PowRow : SameField(c.r1, r)}, y : Exponents]
           /\ out' = Op("^", Ex([sh |-> <<2, 2>>, e |-> c'.r1 \o c'.r2]), Ex(c'.y), c'.neg)
NextChain == /\ c' \in [kind : {"chain"}, n : {c.n}, ops : {c.ops}, xs : [1..(Len(c.ops) + 1) -> ChainOperands(c.n)],
                        grp : Groups(Len(c.ops) + 1)]
             /\ out' = GroupedChain(Tup([i \in 1..Len(c'.xs) |-> Ex(c'.xs[i])], Len(c'.xs)), c'.ops, c'.grp, TRUE)
NextScaled == /\ \E sc \in c.fam.ss, k \in c.fam.ks :
                   c' = [kind |-> "scaled", op |-> "^", neg |-> TRUE, base |-> c.fam.b, s |-> sc,
                         x |-> ScaleC(sc, c.fam.b), y |-> Sc(k, 0, 1)]
              /\ out' = Op("^", Ex(c'.x), Ex(c'.y), TRUE)
NextSrc == /\ c' \in {r \in [kind : {"src"}, op : {c.op}, side : {c.side}, src : {c.src}, neg : {TRUE},
                               s : ScalarPool, a : SrcArrays] : SrcApplies(r.src, r.s.e[1], r.op, r.side)}
           /\ out' = IF c'.side = "left" THEN Op(c'.op, Ex(c'.s), Ex(c'.a), TRUE) ELSE Op(c'.op, Ex(c'.a), Ex(c'.s), TRUE)
(* scope machine.  A direct operation is one step.  A grader call is  enter (switch := configured value) ;
   [sampling of dependent variables: optionally a nested block  save ; switch := TRUE ; ... ; switch := saved] ;
   evaluation of the student's input ; exit (switch := default) -- the exit is taken on every path. *)
NextScope ==
  \/ /\ c.inside = "none" /\ Len(c.hist) < MaxHist
     /\ \E call \in CallKinds :
          IF IsGraderCall(call)
          THEN /\ c' = [c EXCEPT !.inside = call, !.flag = Configured(call),
                                 !.phase = IF HasDependent(call) THEN "sampling" ELSE "student"]
               /\ out' = out
          ELSE /\ c' = [c EXCEPT !.hist = Append(c.hist, call)]
               /\ out' = Append(out, AllowedFor(call, c.flag))
  \/ /\ c.phase = "sampling"                       \* dependent variables computed without touching the switch ...
     /\ c' = [c EXCEPT !.phase = "student"]
     /\ out' = out
  \/ /\ c.phase = "sampling"                       \* ... or inside a nested block that borrows the switch
     /\ c' = [c EXCEPT !.phase = "nested", !.saved = c.flag, !.flag = TRUE]
     /\ out' = out
  \/ /\ c.phase = "nested"                         \* the nested block ends: the switch is left as it was found
     /\ c' = [c EXCEPT !.phase = "student", !.flag = c.saved, !.saved = TRUE]
     /\ out' = out
  \/ /\ c.phase = "student"                        \* the student's input is evaluated, then exit on every path
     /\ c' = [c EXCEPT !.inside = "none", !.phase = "idle", !.flag = TRUE, !.hist = Append(c.hist, c.inside)]
     /\ out' = Append(out, AllowedFor(c.inside, c.flag))
NextNear == /\ \E b \in NearBases, d \in {-1, 0, 1}, p \in 3..9 :
                 /\ (p = 9 => (b \in -2..2))                        \* 32-bit integers
                 /\ (d = 0 => p = 3)
                 /\ c' = [kind |-> "near", m |-> c.m, neg |-> c.neg, wr |-> c.wr, base |-> b, d |-> d, p |-> p,
                          y |-> NearExp(b, d, p)]
            /\ out' = Op("^", Ex(c'.m), Ex(c'.y), c'.neg)
NextLit == /\ c' \in [kind : {"lit"}, t : IF c.lvl = 1 THEN Lit1 ELSE IF c.lvl = 2 THEN Lit2 ELSE Lit3]
           /\ out' = LitShape(c'.t)
Next == IF Part = "scope" THEN NextScope
        ELSE /\ c.kind = "seed"
             /\ IF Part = "bin" THEN NextBin ELSE IF Part = "pow" THEN NextPow
                ELSE IF Part = "chain" THEN NextChain ELSE IF Part = "scaled" THEN NextScaled
                ELSE IF Part = "src" THEN NextSrc ELSE IF Part = "near" THEN NextNear ELSE NextLit

IsBin == c.kind = "bin"
X == Ex(c.x)
Y == Ex(c.y)
PowX == Ex([sh |-> <<2, 2>>, e |-> c.r1 \o c.r2])

\* ---- laws, one INVARIANT each
InvOutcomeDomain == (c.kind \in {"bin", "pow", "chain"}) => out.k \in {"val", "err", "nopred"}
InvNear == (c.kind = "near") => /\ LawNearInteger(Ex(c.m), c.base, c.d, c.p, c.neg)
                                /\ Ex(c.y) = NearInteger(c.base, c.d, c.p)
                                /\ (c.d # 0 => out.k = "err")
InvScaled == (c.kind = "scaled") => (out.k \in {"val", "err"} /\ LawScaleInvariance(Ex(c.base), GQ(c.s), Ex(c.y), TRUE))
\* the source of a scalar is not an argument of Op: the same scalar from any source gives the literal's outcome
InvSrc == (c.kind = "src") => /\ out.k \in {"val", "err"}
                              /\ LawShape(c.op, IF c.side = "left" THEN Ex(c.s) ELSE Ex(c.a),
                                           IF c.side = "left" THEN Ex(c.a) ELSE Ex(c.s), TRUE)
                              /\ (c.side = "left" /\ c.op \in {"/", "^"}) => out.k = "err"
                              /\ (c.op \in {"+", "-"} /\ ~GIsZero(GQ(c.s.e[1]))) => out.k = "err"
InvNoPredOnlyScalarPow == (c.kind \in {"bin", "pow", "chain"} /\ out.k = "nopred") =>
                             (c.kind = "bin" /\ c.op = "^" /\ c.x.sh = <<>> /\ c.y.sh = <<>>)
InvShape == IsBin => LawShape(c.op, X, Y, c.neg)
InvAddStrict == IsBin => LawAddStrict(c.op, X, Y, c.neg)
InvAddCommutes == (IsBin /\ c.op = "+") => LawAddCommutes(X, Y)
InvSubAnti == (IsBin /\ c.op = "-") => (LawSubAnti(X, Y) /\ LawSubAdd(X, Y))
InvMulTranspose == (IsBin /\ c.op = "*") => (LawMulTranspose(X, Y) /\ LawScale(X, Y) /\ LawDetMul(X, Y))
InvDiv == (IsBin /\ c.op = "/") => (LawDivMul(X, Y) /\ LawDivArray(X, Y))
InvPow == (IsBin /\ c.op = "^" /\ ~(c.x.sh = <<>> /\ c.y.sh = <<>>)) => LawPow(X, Y, c.neg)
InvPow2 == (c.kind = "pow") => LawPow(PowX, Ex(c.y), c.neg)
InvChain == (c.kind = "chain") => LawChain(Tup([i \in 1..Len(c.xs) |-> Ex(c.xs[i])], Len(c.xs)), c.ops, TRUE)
InvGroupFlat == (c.kind = "chain" /\ c.grp = <<0, 0>>) =>
                   SameOutcome(out, ChainProduct(Tup([i \in 1..Len(c.xs) |-> Val(Ex(c.xs[i]))], Len(c.xs)), c.ops, TRUE))
InvLiteral == (c.kind = "lit") => (LawLiteral(c.t) /\ out.k \in {"sh", "ragged"})
\* scope: between calls the switch is always at its default, whatever happened inside the calls; while the student's
\* input is evaluated it is at the grader's configured value, whatever the sampling phase did; every recorded outcome
\* is the one the call's own configuration demands (no influence of earlier calls or of dependent variables)
InvScopeDefault == (c.kind = "scope" /\ c.inside = "none") => (c.flag = TRUE /\ Len(out) = Len(c.hist))
InvScopeConfigured == (c.kind = "scope" /\ c.phase = "student") => c.flag = Configured(c.inside)
InvScopeLocal == (c.kind = "scope") =>
                    \A i \in 1..Len(c.hist) : out[i] = AllowedFor(c.hist[i], IF IsGraderCall(c.hist[i]) THEN Configured(c.hist[i]) ELSE TRUE)
=============================================================================
