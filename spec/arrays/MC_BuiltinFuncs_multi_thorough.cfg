INIT Init
NEXT Next
CONSTANTS
  Part = "multi"
  Tier = "thorough"
INVARIANT LawCall
INVARIANT LawMulti
INVARIANT LawOverride
