INIT Init
NEXT Next
CONSTANTS
  Part = "ctx"
  Tier = "thorough"
INVARIANT LawCtx
