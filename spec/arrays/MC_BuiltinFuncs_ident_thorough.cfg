INIT Init
NEXT Next
CONSTANTS
  Part = "ident"
  Tier = "thorough"
INVARIANT LawIdent
INVARIANT LawRoundTripStatus
INVARIANT LawOverride
INVARIANT LawMatrixSame
