----------------------------- MODULE Tolerance -----------------------------
(* Property-level specification for C04: when does a sampled formula comparison count as correct.

   Written from the documentation of FormulaGrader / NumericalGrader / MatrixGrader (options tolerance, samples,
   failable_evals) and from the property statement, not from the code:

     * a sample agrees when |expected - student| <= tolerance; an absolute tolerance is the number itself, a
       percentage tolerance p% is p/100 of |expected| (the author's value); arrays use the Frobenius norm;
       an infinite value agrees only with the same infinity, whatever the tolerance;
     * the submission earns the answer's credit iff the number of disagreeing samples does not exceed
       failable_evals; a grader with a single sample tolerates no failure.

   Numbers are exact: entries are Gaussian rationals <<re, im>> with re, im normalised rationals <<n, d>> (Rat.tla);
   norms are compared through their squares, so everything stays rational.  All comparisons of possibly large
   fractions go through CmpFrac (continued-fraction comparison), sums and products through QAdd / QMul (reduce
   before multiplying), so that TLC's 32-bit integers are not exceeded by cross-multiplication.

   The module also contains: the student "forms" used by the model instance (answer+delta, answer*(1+eps),
   branch variants abs / neg / sq / conj / re / trans, ...), a guard-band classification of every sample
   (in / out / edge / near), small expression trees with value-preserving rewrite rules, and the laws TLC checks. *)
EXTENDS Integers, Sequences, FiniteSets, TLC, Rat

(* ------------------------------------------------------------------ overflow-aware rational arithmetic *)
RECURSIVE CmpFrac(_, _, _, _)
\* sign of a/b - c/d  for a, c >= 0 and b, d > 0, without multiplying numerators by denominators
CmpFrac(a, b, c, d) ==
  LET qa == a \div b   qc == c \div d   ra == a % b   rc == c % d IN
  IF qa < qc THEN -1 ELSE IF qa > qc THEN 1
  ELSE IF ra = 0 /\ rc = 0 THEN 0
  ELSE IF ra = 0 THEN -1
  ELSE IF rc = 0 THEN 1
  ELSE 0 - CmpFrac(b, ra, d, rc)

QAdd(a, b) == LET g == GCD(a[2], b[2]) IN Norm(a[1] * (b[2] \div g) + b[1] * (a[2] \div g), (a[2] \div g) * b[2])
QSub(a, b) == QAdd(a, Neg(b))
QMul(a, b) == IF a[1] = 0 \/ b[1] = 0 THEN Zero
              ELSE LET g1 == GCD(Abs(a[1]), b[2])   g2 == GCD(Abs(b[1]), a[2])
                   IN <<(a[1] \div g1) * (b[1] \div g2), (a[2] \div g2) * (b[2] \div g1)>>
QSign(a) == IF a[1] > 0 THEN 1 ELSE IF a[1] < 0 THEN -1 ELSE 0
QCmp(a, b) == CmpFrac(a[1], a[2], b[1], b[2])                 \* a, b >= 0
Hundred == <<100, 1>>

(* ------------------------------------------------------------------ Gaussian rationals <<re, im>> *)
CZero == <<Zero, Zero>>
CRe(q) == <<q, Zero>>
CAdd(z, w) == <<QAdd(z[1], w[1]), QAdd(z[2], w[2])>>
CNeg(z) == <<Neg(z[1]), Neg(z[2])>>
CSub(z, w) == CAdd(z, CNeg(w))
CMul(z, w) == <<QSub(QMul(z[1], w[1]), QMul(z[2], w[2])), QAdd(QMul(z[1], w[2]), QMul(z[2], w[1]))>>
CScale(q, z) == <<QMul(q, z[1]), QMul(q, z[2])>>
CConj(z) == <<z[1], Neg(z[2])>>
CAbs2(z) == QAdd(QMul(z[1], z[1]), QMul(z[2], z[2]))
CIsReal(z) == z[2][1] = 0

(* ------------------------------------------------------------------ values
   [shape |-> <<>> (scalar) | <<n>> (vector) | <<r, c>> (matrix), ent |-> row-major entries, inf |-> 0]
   [shape |-> <<>>, ent |-> <<>>, inf |-> 1 | -1]         the two infinities (scalars only)               *)
Fin(shape, ent) == [shape |-> shape, ent |-> ent, inf |-> 0]
Scalar(z) == Fin(<<>>, <<z>>)
Real(q) == Scalar(CRe(q))
Inf(sgn) == [shape |-> <<>>, ent |-> <<>>, inf |-> sgn]
IsInf(v) == v.inf # 0
IsScalar(v) == v.shape = <<>>
IsRealScalar(v) == IsScalar(v) /\ (IsInf(v) \/ CIsReal(v.ent[1]))
IsRealValue(v) == IsInf(v) \/ \A k \in DOMAIN v.ent : CIsReal(v.ent[k])
RealPart(v) == v.ent[1][1]                                       \* of a finite real scalar

MapEnt(F(_), v) == [v EXCEPT !.ent = [k \in DOMAIN v.ent |-> F(v.ent[k])]]
VSub(a, b) == [a EXCEPT !.ent = [k \in DOMAIN a.ent |-> CSub(a.ent[k], b.ent[k])]]      \* finite, same shape
VAdd(a, b) == IF IsInf(a) THEN a ELSE IF IsInf(b) THEN b
              ELSE [a EXCEPT !.ent = [k \in DOMAIN a.ent |-> CAdd(a.ent[k], b.ent[k])]]
VScale(q, a) == IF IsInf(a) THEN Inf(a.inf * QSign(q)) ELSE MapEnt(LAMBDA z : CScale(q, z), a)
VNeg(a) == IF IsInf(a) THEN Inf(-a.inf) ELSE MapEnt(CNeg, a)
VConj(a) == IF IsInf(a) THEN a ELSE MapEnt(CConj, a)
VRe(a) == IF IsInf(a) THEN a ELSE MapEnt(LAMBDA z : CRe(z[1]), a)
VAbsReal(a) == IF IsInf(a) THEN Inf(1) ELSE Real(RAbs(RealPart(a)))                     \* real scalars
VSq(a) == IF IsInf(a) THEN Inf(1) ELSE Scalar(CMul(a.ent[1], a.ent[1]))                \* scalars
VTrans(a) == LET r == a.shape[1]  c == a.shape[2] IN                                   \* matrices
             [shape |-> <<c, r>>, inf |-> 0,
              ent |-> [k \in 1..(r * c) |-> a.ent[((k - 1) % r) * c + ((k - 1) \div r) + 1]]]

RECURSIVE SumAbs2(_), MaxAbs2(_)
SumAbs2(ent) == IF ent = <<>> THEN Zero ELSE QAdd(CAbs2(Head(ent)), SumAbs2(Tail(ent)))
MaxAbs2(ent) == IF ent = <<>> THEN Zero
                ELSE LET h == CAbs2(Head(ent))  t == MaxAbs2(Tail(ent)) IN IF QCmp(h, t) >= 0 THEN h ELSE t
Norm2(v) == SumAbs2(v.ent)                    \* squared Frobenius norm (= |z|^2 for a scalar), finite values
Dist2(e, s) == Norm2(VSub(e, s))

(* ------------------------------------------------------------------ tolerances
   [kind |-> "abs", v |-> t]   |e - s| <= t            [kind |-> "pct", v |-> p]   |e - s| <= (p/100) |e|      *)
AbsTol(t) == [kind |-> "abs", v |-> t]
PctTol(p) == [kind |-> "pct", v |-> p]
PctFactor(tol) == QMul(tol.v, <<1, 100>>)

TolK(tol) == IF tol.kind = "abs" THEN tol.v ELSE PctFactor(tol)
\* sign of  (a/b) * fd - (c/d) * fn  for small fn, fd: the factor goes where it cannot leave the 32-bit range
CmpScaled(a, b, c, d, fn, fd) == IF a <= 10000000 THEN CmpFrac(a * fd, b, c * fn, d) ELSE CmpFrac(a, b * 1, c * fn, d * fd)
\* sign of  D - (fn/fd) * T  where T = K (absolute) or K * E (percentage); D, E, K >= 0
CmpN(D, E, K, kind, fn, fd) ==
  IF kind = "abs" THEN CmpScaled(D[1], D[2], K[1], K[2], fn, fd)
  ELSE IF E[1] = 0 \/ K[1] = 0 THEN (IF D[1] = 0 THEN 0 ELSE 1)
  ELSE LET rho == QMul(D, Inv(E)) IN CmpScaled(rho[1], rho[2], K[1], K[2], fn, fd)

(* What is measured at a sample (finite values).  Real scalars: D = |e - s|, E = |e|, K = t or p/100 (no squaring, so
   tiny deviations such as 1e-5 stay inside 32-bit integers).  Complex numbers and arrays: the same three quantities
   squared (D = |e-s|^2 Frobenius, E = |e|^2, K = t^2 or (p/100)^2), which keeps everything rational. *)
Linear(e, s) == IsRealScalar(e) /\ IsRealScalar(s)
MeasLin(e, s, tol) == [lin |-> TRUE, D |-> RAbs(QSub(RealPart(e), RealPart(s))),
                       E |-> IF tol.kind = "pct" THEN RAbs(RealPart(e)) ELSE Zero, K |-> TolK(tol)]
MeasSq(e, s, tol) == [lin |-> FALSE, D |-> Dist2(e, s), E |-> IF tol.kind = "pct" THEN Norm2(e) ELSE Zero,
                      K |-> QMul(TolK(tol), TolK(tol))]
Meas(e, s, tol) == IF Linear(e, s) THEN MeasLin(e, s, tol) ELSE MeasSq(e, s, tol)
CmpM(m, kind, fn, fd) == CmpN(m.D, m.E, m.K, kind, fn, fd)

\* THE comparison of the property: expected e, student s (same shape)
Within(e, s, tol) == IF IsInf(e) \/ IsInf(s) THEN e.inf = s.inf ELSE CmpM(Meas(e, s, tol), tol.kind, 1, 1) <= 0
\* the same through squared norms for every kind of value (the definition for arrays applied to scalars)
WithinSq(e, s, tol) == IF IsInf(e) \/ IsInf(s) THEN e.inf = s.inf ELSE CmpM(MeasSq(e, s, tol), tol.kind, 1, 1) <= 0

(* Guard band.  A sample is
     "in"    strictly inside  (|e-s| < 0.995 T, resp. |e-s|^2 < 0.99 T^2)
     "out"   strictly outside (|e-s| > 1.005 T, resp. |e-s|^2 > 1.01 T^2)
     "edge0" e = s and T = 0  (identical values, zero tolerance)
     "edge"  |e-s| = T > 0    (decided by <= ; replayed only where binary floating point is exact)
     "near"  anything else    (closer than ~0.5 % to the boundary: no prediction, never replayed)            *)
MarginM(m, kind) ==
  LET c == CmpM(m, kind, 1, 1) IN
  IF c = 0 THEN (IF m.D[1] = 0 THEN "edge0" ELSE "edge")
  ELSE IF c < 0 THEN (IF CmpM(m, kind, IF m.lin THEN 199 ELSE 99, IF m.lin THEN 200 ELSE 100) < 0 THEN "in" ELSE "near")
  ELSE (IF CmpM(m, kind, IF m.lin THEN 201 ELSE 101, IF m.lin THEN 200 ELSE 100) > 0 THEN "out" ELSE "near")
Margin(e, s, tol) ==
  IF IsInf(e) \/ IsInf(s) THEN (IF e.inf = s.inf THEN "in" ELSE "out")
  ELSE LET m == Meas(e, s, tol) IN MarginM(m, tol.kind)
Agrees(m) == m \in {"in", "edge0", "edge"}

(* ------------------------------------------------------------------ verdict over the samples *)
Verdict(fails, n, failable) == IF n = 1 THEN fails = 0 ELSE fails <= failable
(* The count rule of the statement decides alone: "exactly when ... the number of samples at which the student's value
   differs ... does not exceed failable_evals (a single-sample grader tolerates no failure)".  In particular an author
   who configures failable_evals >= samples >= 2 forgives a miss at every sample; the statement's closing sentence
   ("consequently ... formulas that miss at every sample never earn any") is a consequence for failable_evals < samples,
   not a second rule.  Generous(...) names that corner. *)
Generous(fails, n, failable) == n >= 2 /\ failable >= n /\ fails = n
AllowedSet(fails, n, failable) == IF Verdict(fails, n, failable) THEN {"accept"} ELSE {"reject"}
GradeOf(outcome, credit) == IF outcome = "accept" THEN credit ELSE Zero

\* marg : the margin class of each of the n samples.  The verdict counts the disagreeing samples among ALL n
\* configured samples, whatever their order and whether or not the author's value varies from sample to sample.
JudgeM(marg, n, failable, credit) ==
  LET fails == Cardinality({i \in 1..n : ~Agrees(marg[i])})
      allowed == AllowedSet(fails, n, failable)
  IN [allowed |-> allowed, fails |-> fails, marg |-> marg,
      grades |-> {GradeOf(o, credit) : o \in allowed},
      robust |-> \A i \in 1..n : marg[i] # "near",
      edges |-> \E i \in 1..n : marg[i] = "edge"]
\* es, ss : sequences (length n) of expected / student values at the n samples
Judge(es, ss, tol, n, failable, credit) == JudgeM([i \in 1..n |-> Margin(es[i], ss[i], tol)], n, failable, credit)

(* ------------------------------------------------------------------ student forms (x = author's value at the sample)
   "same" x        "add" x + p (literal p)      "addvar" x + p (p a second sampled variable)
   "mul"  x * (1 + p)   (p a real scalar)       "const"  p (ignores x)
   "neg" -x    "abs" |x| (real scalars)    "sq" x^2 (scalars)    "conj"    "re"    "trans" (matrices)
   "sgn"  p * |x| / x  (p where x > 0, -p where x < 0; real scalar x # 0)     "times"  p * x  (p a real scalar)
   "plus0"  p + 0 * x  (always p, but written with the variable)                                            *)
Forms == {"same", "add", "addvar", "mul", "const", "neg", "abs", "sq", "conj", "re", "trans", "sgn", "times", "plus0"}
Student(form, x, p) ==
  CASE form = "same" -> x
    [] form \in {"add", "addvar"} -> VAdd(x, p)
    [] form = "mul" -> VScale(QAdd(One, RealPart(p)), x)
    [] form = "const" -> p
    [] form = "neg" -> VNeg(x)
    [] form = "abs" -> VAbsReal(x)
    [] form = "sq" -> VSq(x)
    [] form = "conj" -> VConj(x)
    [] form = "re" -> VRe(x)
    [] form = "trans" -> VTrans(x)
    [] form = "sgn" -> VScale(<<QSign(RealPart(x)), 1>>, p)
    [] form = "times" -> VScale(RealPart(p), x)
    [] form = "plus0" -> p
\* the form is meaningful for this value (no NaN, right type and shape)
Defined(form, x, p) ==
  CASE form = "same" -> TRUE
    [] form \in {"add", "addvar"} -> p.shape = x.shape /\ ~(IsInf(x) /\ IsInf(p) /\ x.inf # p.inf)
                                     /\ (IsInf(p) => form = "add")
    [] form = "mul" -> IsRealScalar(p) /\ ~IsInf(p) /\ ~(IsInf(x) /\ QAdd(One, RealPart(p))[1] = 0)
    [] form = "const" -> p.shape = x.shape
    [] form = "neg" -> TRUE
    [] form = "abs" -> IsRealScalar(x)
    [] form = "sq" -> IsScalar(x)
    [] form \in {"conj", "re"} -> TRUE
    [] form = "trans" -> Len(x.shape) = 2 /\ x.shape[1] = x.shape[2]
    [] form = "sgn" -> IsRealScalar(x) /\ ~IsInf(x) /\ RealPart(x)[1] # 0 /\ ~IsInf(p)
    [] form = "times" -> IsRealScalar(p) /\ ~IsInf(p) /\ ~(IsInf(x) /\ RealPart(p)[1] = 0)
    [] form = "plus0" -> ~IsInf(x) /\ ~IsInf(p)

(* The author's answer as a function of the sampled variable x:
     [form |-> "id"]              the answer is the variable itself ('x')
     [form |-> "idf"]             the same sampled value, but it reaches the formulas through a user function that is
                                  drawn anew at every sample (f_i(t) = v_i * t, answer 'f(1)'): neither the answer
                                  nor the student's formula needs to mention a variable
     [form |-> "idn"]             ... through an instance of a numbered variable (numbered_vars ['a'], answer 'a_{1}')
     [form |-> "idd"]             ... through a dependent variable (y = 1*x computed from the sampled x, answer 'y')
     [form |-> "idm"]             ... through a mix of a user constant and the variable (one = 1, answer 'one*x')
     [form |-> "const", k |-> v]  the answer is a constant expression (a number, 2*pi/pi, ...): the same value v at
                                  every sample, while the student's formula may still use the variable           *)
IdAns == [form |-> "id", k |-> Real(Zero), sp |-> "lit"]
ConstAns(v, sp) == [form |-> "const", k |-> v, sp |-> sp]
Carriers == {"id", "idf", "idn", "idd", "idm"}
CarrierAns(f) == [form |-> f, k |-> Real(Zero), sp |-> "lit"]
IdfAns == CarrierAns("idf")
Expected(ans, x) == IF ans.form \in Carriers THEN x ELSE ans.k
DefinedAns(ans, form, x, p) == Defined(form, x, p) /\ Student(form, x, p).shape = Expected(ans, x).shape
                               /\ (ans.form = "const" => ~IsInf(x))

(* x * (1 + eps) against x under a percentage tolerance: |e - s| / |e| = |eps| whatever x # 0 is (scale invariance),
   so the sample is classified on the pair (1, 1 + eps).  This keeps percentages such as 0.004 % usable for complex
   numbers and arrays, whose squared norms would otherwise leave TLC's integer range. *)
MarginMulPct(x, eps, tol) == IF Norm2(x)[1] = 0 THEN "edge0" ELSE Margin(Real(One), Real(QAdd(One, eps)), tol)
SampleMargin(ans, form, x, p, tol) ==
  IF ans.form \in Carriers /\ form = "mul" /\ tol.kind = "pct" /\ ~IsInf(x) /\ ~IsRealScalar(x)
  THEN MarginMulPct(x, RealPart(p), tol)
  ELSE Margin(Expected(ans, x), Student(form, x, p), tol)

\* a whole case: author's answer ans, n sampled values xs, student form with per-sample parameters ps
JudgeAns(ans, xs, form, ps, tol, n, failable, credit) ==
  JudgeM([i \in 1..n |-> SampleMargin(ans, form, xs[i], ps[i], tol)], n, failable, credit)
\* the same with the answer 'x'
JudgeForm(xs, form, ps, tol, n, failable, credit) == JudgeAns(IdAns, xs, form, ps, tol, n, failable, credit)

(* ------------------------------------------------------------------ expression trees and rewrites
   [op |-> "var", name |-> "x"]   [op |-> "num", v |-> q]   [op |-> "add" | "sub" | "mul", a, b]
   [op |-> "neg" | "sq", a]                                                                          *)
Var(nm) == [op |-> "var", name |-> nm]
Num(q) == [op |-> "num", v |-> q]
Bin(o, a, b) == [op |-> o, a |-> a, b |-> b]
Un(o, a) == [op |-> o, a |-> a]
IsBin(t) == t.op \in {"add", "sub", "mul"}
IsUn(t) == t.op \in {"neg", "sq"}

RECURSIVE Eval(_, _), Size(_)
Eval(t, env) ==
  CASE t.op = "var" -> env[t.name]
    [] t.op = "num" -> t.v
    [] t.op = "add" -> QAdd(Eval(t.a, env), Eval(t.b, env))
    [] t.op = "sub" -> QSub(Eval(t.a, env), Eval(t.b, env))
    [] t.op = "mul" -> QMul(Eval(t.a, env), Eval(t.b, env))
    [] t.op = "neg" -> Neg(Eval(t.a, env))
    [] t.op = "sq" -> LET v == Eval(t.a, env) IN QMul(v, v)
Size(t) == IF IsBin(t) THEN 1 + Size(t.a) + Size(t.b) ELSE IF IsUn(t) THEN 1 + Size(t.a) ELSE 1

Rules == {"commute", "distL", "distR", "addzeroR", "addzeroL", "muloneR", "muloneL", "assoc", "subneg", "dneg",
          "sqmul", "factorL"}
Applicable(rule, t) ==
  CASE rule = "commute" -> t.op \in {"add", "mul"}
    [] rule = "distL" -> t.op = "mul" /\ t.b.op \in {"add", "sub"}            \* a*(b+c) -> a*b + a*c
    [] rule = "distR" -> t.op = "mul" /\ t.a.op \in {"add", "sub"}            \* (a+b)*c -> a*c + b*c
    [] rule = "factorL" -> t.op \in {"add", "sub"} /\ t.a.op = "mul" /\ t.b.op = "mul" /\ t.a.a = t.b.a
    [] rule \in {"addzeroR", "addzeroL", "muloneR", "muloneL", "dneg"} -> TRUE
    [] rule = "assoc" -> t.op \in {"add", "mul"} /\ t.a.op = t.op             \* (a+b)+c -> a+(b+c)
    [] rule = "subneg" -> t.op = "sub"                                        \* a-b -> a+(-b)
    [] rule = "sqmul" -> t.op = "sq"                                          \* a^2 -> a*a
Apply(rule, t) ==
  CASE rule = "commute" -> Bin(t.op, t.b, t.a)
    [] rule = "distL" -> Bin(t.b.op, Bin("mul", t.a, t.b.a), Bin("mul", t.a, t.b.b))
    [] rule = "distR" -> Bin(t.a.op, Bin("mul", t.a.a, t.b), Bin("mul", t.a.b, t.b))
    [] rule = "factorL" -> Bin("mul", t.a.a, Bin(t.op, t.a.b, t.b.b))
    [] rule = "addzeroR" -> Bin("add", t, Num(Zero))
    [] rule = "addzeroL" -> Bin("add", Num(Zero), t)
    [] rule = "muloneR" -> Bin("mul", t, Num(One))
    [] rule = "muloneL" -> Bin("mul", Num(One), t)
    [] rule = "dneg" -> Un("neg", Un("neg", t))
    [] rule = "assoc" -> Bin(t.op, t.a.a, Bin(t.op, t.a.b, t.b))
    [] rule = "subneg" -> Bin("add", t.a, Un("neg", t.b))
    [] rule = "sqmul" -> Bin("mul", t.a, t.a)
\* positions: "root", "a", "b" (one level down)
ApplicableAt(rule, pos, t) ==
  CASE pos = "root" -> Applicable(rule, t)
    [] pos = "a" -> (IsBin(t) \/ IsUn(t)) /\ Applicable(rule, t.a)
    [] pos = "b" -> IsBin(t) /\ Applicable(rule, t.b)
ApplyAt(rule, pos, t) ==
  CASE pos = "root" -> Apply(rule, t)
    [] pos = "a" -> [t EXCEPT !.a = Apply(rule, t.a)]
    [] pos = "b" -> [t EXCEPT !.b = Apply(rule, t.b)]

\* two trees denote the same function if they agree on a grid that is large enough for their degree
Equivalent(t1, t2, names, grid) ==
  \A env \in [names -> grid] : Eval(t1, env) = Eval(t2, env)

(* ------------------------------------------------------------------ laws (instantiated by the model instance) *)
\* identical values agree under every tolerance
LawZeroDeviation(e, tol) == Within(e, e, tol) /\ Margin(e, e, tol) \in {"in", "edge0"}
\* widening the tolerance never turns agreement into disagreement
LawTolMonotone(e, s, tol) == Within(e, s, tol) => Within(e, s, [tol EXCEPT !.v = QMul(@, <<2, 1>>)])
                                                /\ Within(e, s, [tol EXCEPT !.v = QAdd(@, One)])
\* for real scalars the textbook |e - s| <= T and the squared-norm definition used for arrays coincide
LawRealAgrees(e, s, tol) == Linear(e, s) => (Within(e, s, tol) <=> WithinSq(e, s, tol))
\* an absolute tolerance is symmetric in its arguments and translation invariant
LawAbsSymmetric(e, s, tol) == tol.kind = "abs" => (Within(e, s, tol) <=> Within(s, e, tol))
LawAbsTranslation(e, s, tol, sh) == tol.kind = "abs" /\ ~IsInf(e) /\ ~IsInf(s)
                                      => (Within(e, s, tol) <=> Within(VAdd(e, sh), VAdd(s, sh), tol))
\* a percentage tolerance is scale invariant
LawPctScale(e, s, tol, q) == tol.kind = "pct" /\ q[1] # 0 => (Within(e, s, tol) <=> Within(VScale(q, e), VScale(q, s), tol))
\* infinities ignore the tolerance
LawInfinity(e, s, tol) == IsInf(e) \/ IsInf(s) => (Within(e, s, tol) <=> (e.inf = s.inf))
\* the norm is the Frobenius norm: it dominates the largest entry and is dominated by (#entries) * largest entry
LawNormBounds(v) == ~IsInf(v) => /\ QCmp(MaxAbs2(v.ent), Norm2(v)) <= 0
                                  /\ QCmp(Norm2(v), QMul(<<Len(v.ent), 1>>, MaxAbs2(v.ent))) <= 0
\* margin and Within tell the same story
LawMarginConsistent(e, s, tol) == LET m == Margin(e, s, tol) IN
                                  /\ m \in {"in", "edge0", "edge"} => Within(e, s, tol)
                                  /\ m = "out" => ~Within(e, s, tol)
\* verdict: more failable evaluations never hurt; all-miss is rejected whenever failable < n; single sample strict
LawFailableMonotone(fails, n, failable) == "accept" \in AllowedSet(fails, n, failable) => "accept" \in AllowedSet(fails, n, failable + 1)
LawAllMiss(n, failable) == failable < n => AllowedSet(n, n, failable) = {"reject"}
\* ... and, with two or more samples, accepted as soon as the count does not exceed failable_evals, even if all miss
LawCountRule(fails, n, failable) == n >= 2 => (AllowedSet(fails, n, failable) = {"accept"} <=> fails <= failable)
LawNoMiss(n, failable) == AllowedSet(0, n, failable) = {"accept"}
LawSingleSample(fails, failable) == AllowedSet(fails, 1, failable) = (IF fails = 0 THEN {"accept"} ELSE {"reject"})
\* the order of the samples is irrelevant: judging the reversed sequences gives the same verdict and failure count
Rev(sq) == [i \in 1..Len(sq) |-> sq[Len(sq) + 1 - i]]
LawOrderIrrelevant(marg, n, failable, credit) ==
  LET a == JudgeM(marg, n, failable, credit)  b == JudgeM(Rev(marg), n, failable, credit)
  IN a.allowed = b.allowed /\ a.fails = b.fails /\ a.grades = b.grades
\* how the sampled value is carried (a sampled variable or a sampled function) is irrelevant to the verdict
LawCarrierIrrelevant(xs, form, ps, tol, n, failable, credit) ==
  \A f \in Carriers : JudgeAns(CarrierAns(f), xs, form, ps, tol, n, failable, credit)
                        = JudgeAns(IdAns, xs, form, ps, tol, n, failable, credit)
\* the scale-invariance shortcut classifies like the general definition (where the general one is computable)
LawMulShortcut(x, eps, tol) == tol.kind = "pct" /\ ~IsInf(x)
                                 => LET a == MarginMulPct(x, eps, tol)  b == Margin(x, VScale(QAdd(One, eps), x), tol)
                                    IN a = b \/ "near" \in {a, b}     \* (the two guard bands differ by 1e-5)
\* safe arithmetic is arithmetic
LawSafeArith(a, b) == /\ QAdd(a, b) = Add(a, b) /\ QMul(a, b) = Mul(a, b)
                      /\ (a[1] >= 0 /\ b[1] >= 0 => ((QCmp(a, b) <= 0) <=> Leq(a, b)) /\ ((QCmp(a, b) < 0) <=> Lt(a, b)))
\* a rewrite keeps the value
LawRewriteKeepsValue(rule, pos, t, env) == ApplicableAt(rule, pos, t) => Eval(ApplyAt(rule, pos, t), env) = Eval(t, env)

(* unit tests of the specification: the examples in the documentation of the tolerance comparison *)
RQ(n, d) == Real(Q(n, d))
ASSUME Within(RQ(10, 1), RQ(901, 100), AbsTol(Q(1, 1)))
ASSUME ~Within(RQ(10, 1), RQ(901, 100), AbsTol(Q(1, 2)))
ASSUME Within(RQ(10, 1), RQ(901, 100), PctTol(Q(10, 1)))
ASSUME ~Within(RQ(901, 100), RQ(10, 1), PctTol(Q(10, 1)))                   \* relative to the first (expected) value
ASSUME LET A == Fin(<<2, 2>>, <<CRe(Q(1, 1)), CRe(Q(2, 1)), CRe(Q(-3, 1)), CRe(Q(1, 1))>>)
           B == Fin(<<2, 2>>, <<CRe(Q(11, 10)), CRe(Q(2, 1)), CRe(Q(-28, 10)), CRe(Q(1, 1))>>)
       IN Within(A, B, AbsTol(Q(1, 4))) /\ ~Within(A, B, AbsTol(Q(1, 5))) /\ Dist2(A, B) = Q(5, 100)
ASSUME Within(Inf(1), Inf(1), AbsTol(Zero)) /\ Within(Inf(-1), Inf(-1), AbsTol(Zero)) /\ ~Within(Inf(1), Inf(-1), AbsTol(Zero))
ASSUME ~Within(RQ(1, 1), Inf(1), PctTol(Q(100, 1))) /\ ~Within(Inf(1), RQ(1, 1), PctTol(Q(100, 1)))
ASSUME VTrans(Fin(<<2, 2>>, <<CRe(Q(1, 1)), CRe(Q(2, 1)), CRe(Q(3, 1)), CRe(Q(4, 1))>>))
         = Fin(<<2, 2>>, <<CRe(Q(1, 1)), CRe(Q(3, 1)), CRe(Q(2, 1)), CRe(Q(4, 1))>>)
ASSUME CmpFrac(1, 3, 2, 6) = 0 /\ CmpFrac(1, 3, 1, 2) = -1 /\ CmpFrac(7, 2, 10, 3) = 1 /\ CmpFrac(0, 1, 0, 5) = 0
=============================================================================
