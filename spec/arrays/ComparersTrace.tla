--------------------------- MODULE ComparersTrace ---------------------------
(* Code -> spec binding for C16.  Every record is one real grader call (FormulaGrader / NumericalGrader / MatrixGrader
   configured with one of the comparers) on a randomly generated case that is larger than the exhaustive model:
     kind, tol, jit, policy, evalerr, typed, mode, cfg      as in Comparers!Allowed
     P   per sample: the evaluated comparer parameters     [shape, ent (Gaussian integers), den]
     S   per sample: the evaluated submission
     obs what the code did: [k, g, ok, lvl, cls, sf]       (see Comparers, section "outcomes")
   The values are the exact lattice values the driver generated (never rounded observations).  A record is
     MALFORMED  if it is not a case of the specification               (machinery: the driver is wrong)
     UNGUARDED  if some sample is neither in the class nor 1000 tolerances away from it   (skipped, counted)
     rejected   if the observation matches none of the outcomes Comparers!Allowed permits (a violation); the clause
                names the allowed outcomes and, when the observation is what the implementation-shaped model
                predicts, the deviation class that explains it.                                                   *)
EXTENDS Comparers, Json, IOUtils
Trace == ndJsonDeserialize(IOEnv.TRACE_FILE)
VARIABLE l
CaseOf(r) == [kind |-> r.kind, tol |-> r.tol, jit |-> r.jit, policy |-> r.policy, evalerr |-> r.evalerr, typed |-> r.typed,
              P |-> r.P, S |-> r.S, mode |-> r.mode, cfg |-> r.cfg]
RECURSIVE Join(_)
Join(ss) == IF Len(ss) = 0 THEN "" ELSE Head(ss) \o (IF Len(ss) > 1 THEN " or " ELSE "") \o Join(Tail(ss))
TokenText(a) == IF a.k = "grade" THEN "grade " \o ToString(a.g[1]) \o "/" \o ToString(a.g[2])
                ELSE IF a.k = "sferror" THEN "student-facing error"
                ELSE a.k \o " " \o a.how \o " " \o a.lvl
RECURSIVE SetToSeq(_)
SetToSeq(S) == IF S = {} THEN <<>> ELSE LET x == CHOOSE y \in S : TRUE IN <<x>> \o SetToSeq(S \ {x})
Summary(A) == Join([i \in 1..Cardinality(A) |-> TokenText(SetToSeq(A)[i])])
Verdict(i) == LET r == Trace[i]   k == CaseOf(r) IN
              IF ~WellFormedCase(k) THEN PrintT(<<"REJECT", r.id, "MALFORMED">>)
              ELSE IF ~GuardOK(k) THEN PrintT(<<"REJECT", r.id, "UNGUARDED">>)
              ELSE IF \E a \in Allowed(k) : Matches(r.obs, a) THEN TRUE
              ELSE PrintT(<<"REJECT", r.id, Summary(Allowed(k)) \o " | " \o
                                            (IF Matches(r.obs, ImplOutcome(k, {})) THEN DeviationClass(k, {}) ELSE "none")>>)
Init == l = 0
Next == /\ l < Len(Trace)
        /\ l' = l + 1
        /\ Verdict(l + 1)
        /\ (l + 1 = Len(Trace)) => PrintT(<<"DONE", Len(Trace)>>)
=============================================================================
