INIT Init
NEXT Next
CONSTANTS
  Part = "cong"
  Flaws = {"OriginalCongruenceLinear"}
  Thorough = FALSE
INVARIANT ImplRefines_
