INIT Init
NEXT Next
CONSTANTS
  Part = "unary"
  Tier = "quick"
INVARIANT LawCall
INVARIANT LawUnary
INVARIANT LawOverride
