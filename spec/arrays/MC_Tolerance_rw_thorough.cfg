INIT Init
NEXT Next
CONSTANTS
  Parts = {"rw"}
  Level = 2
INVARIANT LawOutDomain
INVARIANT InvZeroDeviation
INVARIANT InvSameAccepted
INVARIANT InvTolMonotone
INVARIANT InvRealAgrees
INVARIANT InvAbsSymmetric
INVARIANT InvAbsTranslation
INVARIANT InvPctScale
INVARIANT InvInfinity
INVARIANT InvNormBounds
INVARIANT InvMarginConsistent
INVARIANT InvOrderIrrelevant
INVARIANT InvConstAnswerAllSamples
INVARIANT InvMulShortcut
INVARIANT InvCarrierIrrelevant
INVARIANT InvFailableMonotone
INVARIANT InvAllMiss
INVARIANT InvAllMissRejected
INVARIANT InvVerdictCounts
INVARIANT InvGenerousAccepted
INVARIANT InvSafeArith
INVARIANT InvRewriteKeepsValue
INVARIANT InvRewriteSameAccepted
