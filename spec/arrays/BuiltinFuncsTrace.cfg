INIT Init
NEXT Next
