INIT Init
NEXT Next
