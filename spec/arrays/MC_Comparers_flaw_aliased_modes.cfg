INIT Init
NEXT Next
CONSTANTS
  Part = "history"
  Flaws = {"AliasedModeFilter"}
  Thorough = FALSE
INVARIANT ImplRefines_
