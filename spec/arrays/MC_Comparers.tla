---------------------------- MODULE MC_Comparers ----------------------------
(* Model instance for C16.  One part per comparer (constant Part) plus the part "shape" for the mismatch policy.
   Seeds fix the target (parameters of the comparer); one Next step per case picks the parameters of the defining
   transformation (shift k*m, scaling, complex combination, phase, a*x+b map, entry subset), an optional lattice
   step away from the class, the typing of the submission, the tolerance kind and the partial-credit setting.
   c   = the abstract parameters (small; also carries rendering hints for the adapter: form, grader, via)
   out = [case |-> concrete case (Comparers!Allowed's argument), allowed |-> the allowed outcome tokens, rel |-> class,
          impl |-> what the implementation-shaped model predicts, why |-> Comparers!DeviationClass,
          msg |-> the documented wording of a shape-mismatch message (compared as drift only)]
   The dump is replayed into real FormulaGrader / NumericalGrader / MatrixGrader objects.                         *)
EXTENDS Comparers
CONSTANTS Part, Thorough, Flaws          \* Flaws \subseteq Comparers!FlawNames: {} = the current code
ASSUME Flaws \subseteq FlawNames
VARIABLES c, out

DefaultCfg == [equals |-> One, proportional |-> <<1, 2>>, offset |-> None, linear |-> None]
Case(kind, tol, jit, policy, evalerr, P, S, mode, cfg) ==
  [kind |-> kind, tol |-> tol, jit |-> jit, policy |-> policy, evalerr |-> evalerr, typed |-> FALSE, P |-> P, S |-> S, mode |-> mode, cfg |-> cfg]
Typed(k, form) == [k EXCEPT !.typed = form \in {"cplx0", "isq"}]
Simple(kind, tol, jit, P, S) == Case(kind, tol, jit, DefaultPolicy, FALSE, P, S, Flat(Zero), DefaultCfg)
I == <<0, 1>>
UnitVec(n, j, z) == TLCEval([k \in 1..n |-> IF k = j THEN z ELSE GZ])

(* ------------------------------------------------------------------ congruence *)
CongSeeds == {[kind |-> "seed", t |-> t, m |-> m, den |-> d] :
                t \in (IF Thorough THEN -3..4 ELSE -2..3), m \in (IF Thorough THEN {2, 3, 4, 5, 7, -3, -4} ELSE {2, 3, 5, -3}),
                d \in {1, 2} \cup (IF Thorough THEN {5} ELSE {})}
CongCases(s) == {x \in [kind : {"cong"}, t : {s.t}, m : {s.m}, den : {s.den}, k : (IF Thorough THEN -3..3 ELSE {-2, 0, 1}),
                        step : {-1, 0, 1}, form : {"plain", "cplx0", "isq", "imag"}, jit : {-1, 0, 1},
                        tol : {"abs", "pct", "zero"}, grader : {"formula", "numerical"}] :
                   /\ x.jit # 0 => (x.tol = "abs" /\ x.form = "plain" /\ x.step = 0)
                   \* radius 0 (tolerance 0, or a percentage of the reduced target 0): exact binary arithmetic only
                   /\ (x.tol = "zero" \/ (x.tol = "pct" /\ x.t % Abs(x.m) = 0)) => IsPow2(x.den)}
CongX(x) == x.t + x.k * x.m + x.step
BuildCong(x) == Typed(Simple("cong", x.tol, x.jit, << <<ScQ(G(x.t), x.den), ScQ(G(x.m), x.den)>> >>,
                             << ScQ(<<CongX(x), IF x.form = "imag" THEN 1 ELSE 0>>, x.den) >>), x.form)

(* ------------------------------------------------------------------ between *)
BetweenSeeds == {[kind |-> "seed", a |-> a, w |-> w, den |-> d] : a \in -2..2, w \in (IF Thorough THEN -2..4 ELSE -1..3), d \in {1, 2}}
BetweenCases(s) == {x \in [kind : {"between"}, a : {s.a}, w : {s.w}, den : {s.den}, x : (s.a - 2)..(s.a + s.w + 2),
                           form : {"plain", "cplx0", "isq", "imag"}, jit : {-1, 0, 1}, tol : {"abs", "pct"},
                           grader : {"formula", "numerical"}] :
                      x.jit # 0 => (x.tol = "abs" /\ x.form = "plain" /\ x.a < x.x /\ x.x < x.a + x.w)}
BuildBetween(x) == Typed(Simple("between", x.tol, x.jit, << <<ScQ(G(x.a), x.den), ScQ(G(x.a + x.w), x.den)>> >>,
                                << ScQ(<<x.x, IF x.form = "imag" THEN 1 ELSE 0>>, x.den) >>), x.form)

(* ------------------------------------------------------------------ eigenvectors *)
EigMats == <<
  [M |-> Mt(2, 2, <<G(2), G(1), G(1), G(2)>>), lams |-> <<Sc(G(1)), Sc(G(3)), Sc(G(2))>>],             \* symmetric; 2 is no eigenvalue
  [M |-> Mt(2, 2, <<GZ, G(-1), G(1), GZ>>), lams |-> <<Sc(I), Sc(GNeg(I))>>],                           \* rotation: +-i
  [M |-> Mt(2, 2, <<G(2), GZ, GZ, G(2)>>), lams |-> <<Sc(G(2))>>],                                     \* every vector
  [M |-> Mt(2, 2, <<G(1), G(1), GZ, G(1)>>), lams |-> <<Sc(G(1))>>],                                   \* defective
  [M |-> Mt(2, 2, <<G(1), I, GNeg(I), G(1)>>), lams |-> <<Sc(GZ), Sc(G(2))>>],                         \* Hermitian, eigenvalue 0
  [M |-> V(<<2, 2>>, <<G(1), G(3), G(3), G(1)>>, 2), lams |-> <<Sc(G(2)), Sc(G(-1)), ScQ(G(1), 2)>>],  \* half-integer matrix
  [M |-> Mt(3, 3, <<G(1), G(1), GZ, G(1), G(1), GZ, GZ, GZ, G(2)>>), lams |-> <<Sc(G(2)), Sc(GZ)>>],   \* two-dimensional eigenspace
  [M |-> Mt(3, 3, <<G(2), GZ, GZ, GZ, G(3), G(1), GZ, GZ, G(3)>>), lams |-> <<Sc(G(2)), Sc(G(3))>>] >> \* Jordan block
EigSeeds == {[kind |-> "seed", mi |-> mi, li |-> li] : mi \in 1..Len(EigMats), li \in 1..3}      \* li beyond the table: no case
Ent2 == {GZ, G(1), G(-1), G(2), I, GNeg(I), <<1, 1>>} \cup (IF Thorough THEN {G(-2), <<1, -1>>, <<2, 1>>} ELSE {})
Ent3 == {GZ, G(1), G(-1)}
Box(n) == IF n = 2 THEN {<<a, b>> : a \in Ent2, b \in Ent2}
          ELSE {<<a, b, d>> : a \in Ent3, b \in Ent3, d \in Ent3} \cup {<<G(1), I, GZ>>, <<I, I, G(2)>>, <<G(1), G(1), I>>, <<G(2), G(2), G(1)>>}
Scales == {[z |-> G(1), d |-> 1], [z |-> G(-1), d |-> 1], [z |-> I, d |-> 1], [z |-> G(2), d |-> 1], [z |-> <<1, 1>>, d |-> 1],
           [z |-> G(1), d |-> 2], [z |-> <<3, 4>>, d |-> 5]}
QuickScales == {[z |-> G(1), d |-> 1], [z |-> I, d |-> 1], [z |-> <<1, 1>>, d |-> 1], [z |-> G(1), d |-> 2], [z |-> <<3, 4>>, d |-> 5]}
EigM(x) == EigMats[x.mi].M
EigLam(x) == EigMats[x.mi].lams[x.li]
EigCases(s) == IF s.li > Len(EigMats[s.mi].lams) THEN {}
               ELSE {x \in [kind : {"eigen"}, mi : {s.mi}, li : {s.li}, b : Box(EigMats[s.mi].M.shape[1]), scale : Scales,
                            jit : {0, 1}, tol : {"abs", "pct", "zero"}] :
                       /\ (x.tol = "zero" \/ (x.tol = "pct" /\ VIsZero(EigLam(x)))) => IsPow2(x.scale.d)
                       /\ ~Thorough => x.scale \in QuickScales
                       /\ x.jit # 0 => (x.tol # "zero" /\ Eigen(EigM(x), EigLam(x), Vc(x.b)))}
BuildEig(x) == Simple("eigen", x.tol, x.jit, << <<EigM(x), EigLam(x)>> >>, << VReduce(VMul(x.scale.z, x.scale.d, Vc(x.b))) >>)

(* ------------------------------------------------------------------ span *)
SpanSets == <<
  << <<G(1), G(2)>> >>,                                                        \* 1  one real vector, n = 2
  << <<G(3), G(1), <<1, 1>>>> >>,                                              \* 2  one complex vector, n = 3
  << <<G(1), G(1), GZ>>, <<GZ, G(1), G(2)>> >>,                                \* 3  independent pair (documentation example)
  << <<G(1), G(1), GZ>>, <<G(2), G(2), GZ>> >>,                                \* 4  dependent pair
  << <<G(1), GZ>>, <<GZ, G(1)>> >>,                                            \* 5  as many vectors as dimensions, full rank
  << <<G(1), G(2)>>, <<G(2), G(4)>> >>,                                        \* 6  as many vectors as dimensions, rank 1
  << <<G(1), G(1), GZ>>, <<GZ, G(1), G(1)>>, <<G(1), G(2), G(1)>> >>,          \* 7  three vectors of rank 2 in dimension 3
  << <<G(1), GZ>>, <<G(1), G(1)>>, <<GZ, G(1)>> >>,                            \* 8  more vectors than dimensions
  << <<G(1), I, GZ>>, <<GZ, G(1), I>> >>,                                      \* 9  complex independent pair
  << <<G(1), G(1), GZ>>, <<I, I, GZ>> >>,                                      \* 10 dependent over the complex numbers only
  << <<G(1), GZ, G(1), GZ>>, <<GZ, G(1), GZ, G(1)>> >>,                        \* 11 n = 4
  << <<G(1), G(2), G(3), G(4)>> >> >>                                          \* 12 n = 4, one vector
SpanSeeds == {[kind |-> "seed", si |-> i] : i \in 1..(IF Thorough THEN 12 ELSE 10)}
Coefs == IF Thorough THEN {GZ, G(1), G(-1), G(2), I, <<1, 1>>, <<1, -2>>} ELSE {GZ, G(1), G(-1), I, <<1, 1>>}
RECURSIVE Combine(_, _, _)
Combine(co, vs, k) == IF k = 0 THEN TLCEval([j \in 1..Len(vs[1]) |-> GZ]) ELSE SeqAdd(Combine(co, vs, k - 1), SeqScale(co[k], vs[k]))
SpanVec(x) == LET vs == SpanSets[x.si]  n == Len(vs[1]) IN
              SeqAdd(Combine(x.co, vs, Len(vs)), IF x.step = 0 THEN UnitVec(n, 1, GZ) ELSE UnitVec(n, x.step, x.stepz))
SpanCases(s) == LET vs == SpanSets[s.si] IN
                {x \in [kind : {"span"}, si : {s.si}, co : [1..Len(vs) -> Coefs], step : 0..Len(vs[1]), stepz : {G(1), I},
                        sden : {1, 2}, jit : {0, 1}, tol : {"abs", "pct"}] :
                   /\ x.step = 0 => x.stepz = G(1)
                   /\ (~Thorough /\ x.step # 0) => x.sden = 1
                   /\ x.jit # 0 => (x.step = 0 /\ x.sden = 1 /\ ~SeqIsZero(SpanVec(x)))}
SpanParams(si) == [i \in 1..Len(SpanSets[si]) |-> Vc(SpanSets[si][i])]
BuildSpan(x) == Simple("span", x.tol, x.jit, << SpanParams(x.si) >>, << VReduce(VcQ(SpanVec(x), x.sden)) >>)

(* ------------------------------------------------------------------ phase *)
PhaseTargets == << <<G(1), I>>, <<G(1), G(2), G(2)>>, <<<<1, 2>>, <<2, -1>>>>, <<GZ, G(1)>>, <<G(3), G(4)>>, <<G(1), GZ, I, <<1, 1>>>>,
                   <<<<2, -1>>, <<1, 1>>, G(3)>>, <<G(-2), I>>, <<<<1, 1>>, <<1, -1>>, GZ, G(2)>>, <<G(2), G(-1), G(2)>> >>
Units == {[z |-> G(1), d |-> 1], [z |-> G(-1), d |-> 1], [z |-> I, d |-> 1], [z |-> GNeg(I), d |-> 1],
          [z |-> <<3, 4>>, d |-> 5], [z |-> <<4, 3>>, d |-> 5], [z |-> <<-3, 4>>, d |-> 5], [z |-> <<3, -4>>, d |-> 5],
          [z |-> <<-4, -3>>, d |-> 5], [z |-> <<5, 12>>, d |-> 13]}
PhaseVariants == {"none", "step", "stepi", "scale2", "half", "conj", "zero", "negfirst", "swap"}
PhaseSeeds == {[kind |-> "seed", ti |-> i] : i \in 1..(IF Thorough THEN Len(PhaseTargets) ELSE 6)}
PhaseCases(s) == {x \in [kind : {"phase"}, ti : {s.ti}, unit : Units, var : PhaseVariants, pos : 1..Len(PhaseTargets[s.ti]),
                         jit : {0, 1}, tol : {"abs", "pct"}] :
                    /\ x.var \notin {"step", "stepi", "negfirst"} => x.pos = 1
                    /\ x.jit # 0 => x.var = "none"}
PhaseVec(x) == LET t == PhaseTargets[x.ti]   n == Len(t)   u == x.unit   ut == SeqScale(u.z, t) IN
  CASE x.var = "none" -> VcQ(ut, u.d)
    [] x.var = "step" -> VcQ(SeqAdd(ut, UnitVec(n, x.pos, G(u.d))), u.d)
    [] x.var = "stepi" -> VcQ(SeqAdd(ut, UnitVec(n, x.pos, GScale(u.d, I))), u.d)
    [] x.var = "scale2" -> VcQ(SeqScale(G(2), ut), u.d)
    [] x.var = "half" -> VcQ(ut, 2 * u.d)
    [] x.var = "conj" -> VcQ([k \in 1..n |-> GConj(ut[k])], u.d)
    [] x.var = "zero" -> VcQ([k \in 1..n |-> GZ], 1)
    [] x.var = "negfirst" -> VcQ([k \in 1..n |-> IF k = x.pos THEN GNeg(ut[k]) ELSE ut[k]], u.d)
    [] x.var = "swap" -> VcQ([k \in 1..n |-> IF k = 1 THEN ut[2] ELSE IF k = 2 THEN ut[1] ELSE ut[k]], u.d)
BuildPhase(x) == Simple("phase", x.tol, x.jit, << <<Vc(PhaseTargets[x.ti])>> >>, << VReduce(PhaseVec(x)) >>)

(* ------------------------------------------------------------------ MatrixEntryComparer *)
EntryTargets == << V(<<2>>, <<G(1), G(2)>>, 1), V(<<3>>, <<G(1), GZ, G(-2)>>, 1), V(<<4>>, <<G(2), G(-1), GZ, G(3)>>, 1),
                   V(<<2, 2>>, <<G(1), G(2), G(3), GZ>>, 1), V(<<2, 3>>, <<G(1), GZ, G(-1), G(2), I, G(4)>>, 1),
                   V(<<2>>, <<G(3), G(-1)>>, 2), V(<<3, 3>>, <<G(1), G(2), G(3), G(4), G(5), G(6), G(7), G(8), GZ>>, 1),
                   \* entries of very different magnitude and exact zeros: under a percentage tolerance every entry is judged
                   \* against ITS OWN size -- a wrong small (or zero) entry is invisible in the norm of the whole array
                   V(<<3>>, <<G(300000), GZ, G(5)>>, 1), V(<<2, 2>>, <<G(2), G(-200000), GZ, G(1)>>, 1) >>
\* (the huge entries are never the wrong ones: their squares would leave TLC's integers, and they are not the point)
Huge(z) == Abs(z[1]) >= 1000 \/ Abs(z[2]) >= 1000
EntryModes == {Flat(Zero), Flat(<<1, 2>>), Flat(One), Proportional} \cup (IF Thorough THEN {Flat(<<1, 4>>), Flat(<<3, 10>>)} ELSE {})
EntrySeeds == {[kind |-> "seed", ti |-> i, smode |-> sm] : i \in 1..Len(EntryTargets), sm \in {"const", "varall", "varsome"}}
EntryCases(s) == LET n == Len(EntryTargets[s.ti].ent) IN
                 {x \in [kind : {"entry"}, ti : {s.ti}, smode : {s.smode}, wrong : SUBSET (1..n), mode : EntryModes,
                         via : {"option", "explicit"}, jit : {0, 1}, tol : {"abs", "pct", "zero"}] :
                    /\ (n > 6 /\ ~Thorough) => (Cardinality(x.wrong) <= 1 \/ Cardinality(x.wrong) >= n - 1)
                    /\ (~Thorough /\ x.smode # "const") => x.via = "explicit"
                    /\ \A k \in x.wrong : ~Huge(EntryTargets[s.ti].ent[k])
                    /\ x.jit # 0 => (x.tol = "abs" /\ x.smode = "const")}
Xs == <<1, 2, 3>>
EntryP(x) == LET T == EntryTargets[x.ti] IN
             IF x.smode = "const" THEN << <<T>> >> ELSE [s \in 1..3 |-> <<VMul(G(Xs[s]), 1, T)>>]
EntryS(x) == LET T == EntryTargets[x.ti]
                 pert(s) == IF x.smode = "varsome" THEN Xs[s] - 1 ELSE 1
                 sub(s, base) == V(T.shape, [k \in 1..Len(T.ent) |-> IF k \in x.wrong THEN GAdd(base.ent[k], G(pert(s) * T.den)) ELSE base.ent[k]], T.den)
             IN IF x.smode = "const" THEN << sub(1, T) >> ELSE [s \in 1..3 |-> sub(s, VMul(G(Xs[s]), 1, T))]
BuildEntry(x) == Case("entry", x.tol, x.jit, DefaultPolicy, FALSE, EntryP(x), EntryS(x), x.mode, DefaultCfg)

(* ------------------------------------------------------------------ LinearComparer *)
Cfg(e, p, o, l) == [equals |-> e, proportional |-> p, offset |-> o, linear |-> l]
LinCfgs == IF Thorough
           THEN ({Cfg(e, p, o, l) : e \in {One, None}, p \in {None, Zero, <<1, 2>>}, o \in {None, <<3, 10>>}, l \in {None, <<1, 5>>, One}}
                 \ {Cfg(None, None, None, None)}) \cup {Cfg(<<1, 2>>, One, None, None)}
           ELSE {DefaultCfg, Cfg(One, None, None, One), Cfg(One, <<1, 2>>, <<3, 10>>, <<1, 5>>), Cfg(One, Zero, None, <<1, 10>>),
                 Cfg(<<1, 2>>, One, None, None), Cfg(None, <<1, 2>>, <<1, 4>>, None), Cfg(None, <<1, 2>>, None, None)}
LinSamples == << <<G(1), G(2), G(4)>>, <<G(2), G(5), G(8), G(-1)>>, <<G(3), G(3), G(3)>>, <<GZ, GZ, GZ>>, <<G(1), GZ, G(-1)>>,
                 <<<<1, 1>>, G(2), <<3, -1>>>>, <<G(1), I, GZ>>, <<G(-2), G(-1), GZ, G(1), G(2)>>, <<<<0, 2>>, G(1), <<-1, 1>>, G(3)>> >>
LinAs == {[z |-> G(1), d |-> 1], [z |-> G(2), d |-> 1], [z |-> G(-1), d |-> 1], [z |-> G(1), d |-> 2], [z |-> GZ, d |-> 1], [z |-> I, d |-> 1]}
LinBs == {[z |-> GZ, d |-> 1], [z |-> G(1), d |-> 1], [z |-> G(-2), d |-> 1]} \cup (IF Thorough THEN {[z |-> G(1), d |-> 2], [z |-> I, d |-> 1]} ELSE {})
LinSeeds == {s \in {[kind |-> "seed", cfg |-> g, xi |-> i, vec |-> v] : g \in LinCfgs, i \in 1..(IF Thorough THEN 9 ELSE 7), v \in BOOLEAN} :
               s.vec => s.xi <= 5}
LinExpEnt(x, s) == LET e == LinSamples[x.xi][s] IN IF x.vec THEN <<e, GAdd(GScale(2, e), G(-1))>> ELSE <<e>>
LinShape(x) == IF x.vec THEN <<2>> ELSE <<>>
LinStudentEnt(x, s) == LET e == LinExpEnt(x, s) IN
                       IF x.nl = "sq" THEN [k \in 1..Len(e) |-> GMul(e[k], e[k])]
                       ELSE [k \in 1..Len(e) |-> GAdd(GScale(x.b.d, GMul(x.a.z, e[k])), GScale(x.a.d, x.b.z))]
LinDen(x) == IF x.nl = "sq" THEN 1 ELSE x.a.d * x.b.d
BuildLin(x) == LET n == Len(LinSamples[x.xi]) IN
               Case("linear", x.tol, x.jit, DefaultPolicy, FALSE,
                    [s \in 1..n |-> <<V(LinShape(x), LinExpEnt(x, s), 1)>>],
                    [s \in 1..n |-> V(LinShape(x), LinStudentEnt(x, s), LinDen(x))], Flat(Zero), x.cfg)

LinCases(s) == {x \in [kind : {"linear"}, cfg : {s.cfg}, xi : {s.xi}, vec : {s.vec}, a : LinAs, b : LinBs, nl : {"none", "sq"},
                       jit : {0, 1}, tol : {"abs", "pct"}] :
                  /\ x.nl = "sq" => (x.a = [z |-> G(1), d |-> 1] /\ x.b = [z |-> GZ, d |-> 1])
                  /\ x.jit # 0 => (x.tol = "abs" /\ x.nl = "none")
                  /\ GuardOK(BuildLin(x))}              \* drops the few maps whose samples are nearly (but not) proportional

(* ------------------------------------------------------------------ mismatch policy *)
Mat22 == Mt(2, 2, <<G(2), G(1), G(1), G(2)>>)
ShapeTargets == <<
  [kind |-> "equal", P |-> << <<Vc(<<G(1), G(1), GZ>>)>> >>],
  [kind |-> "equal", P |-> << <<Mat22>> >>],
  [kind |-> "equal", P |-> << <<Sc(G(3))>> >>],
  [kind |-> "entry", P |-> << <<Vc(<<G(1), G(1), GZ>>)>> >>],
  [kind |-> "entry", P |-> << <<Mat22>> >>],
  [kind |-> "eigen", P |-> << <<Mat22, Sc(G(3))>> >>],
  [kind |-> "span", P |-> << <<Vc(<<G(1), G(1), GZ>>), Vc(<<GZ, G(1), G(2)>>)>> >>],
  [kind |-> "phase", P |-> << <<Vc(<<G(1), G(1)>>)>> >>],
  [kind |-> "linear", P |-> << <<Vc(<<G(1), G(1)>>)>>, <<Vc(<<G(2), G(3)>>)>>, <<Vc(<<G(4), G(7)>>)>> >>] >>
Submitted == << Sc(G(3)), Vc(<<G(1), G(1)>>), Vc(<<G(1), G(1), GZ>>), Vc(<<G(1), G(1), GZ, G(2)>>), Mat22,
                Mt(2, 3, <<G(1), G(2), G(3), G(4), G(5), G(6)>>), Mt(3, 2, <<G(1), G(2), G(3), G(4), G(5), G(6)>>),
                \* wrongly shaped submissions that are ZERO: still a shape mismatch, not "a zero vector is wrong"
                Sc(GZ), Vc(<<GZ, GZ>>), Vc(<<GZ, GZ, GZ>>), Vc(<<GZ, GZ, GZ, GZ>>), Mt(2, 2, <<GZ, GZ, GZ, GZ>>) >>
Policies == [raised : BOOLEAN, detail : {"none", "type", "shape"}, suppress : BOOLEAN, shapeErrors : BOOLEAN]
ShapeSeeds == {[kind |-> "seed", ti |-> i] : i \in 1..Len(ShapeTargets)}
ShapeCases(s) == [kind : {"shape"}, ti : {s.ti}, gi : 0..Len(Submitted), policy : Policies, tol : {"abs"}]
BuildShape(x) == LET T == ShapeTargets[x.ti]   n == Len(T.P)   got == Submitted[IF x.gi = 0 THEN 1 ELSE x.gi] IN
                 Case(T.kind, x.tol, 0, x.policy, x.gi = 0, T.P, [s \in 1..n |-> got], Flat(<<1, 2>>), Cfg(One, <<1, 2>>, <<3, 10>>, <<1, 5>>))

(* ------------------------------------------------------------------ histories on one comparer object (Part = "history")
   One LinearComparer (or MatrixEntryComparer) object is shared by several graders -- passed explicitly in their answers
   (share = "explicit") or installed with set_default_comparer (share = "default") -- and asked a sequence of calls.
   The graders sharing it DIFFER in their configuration (tolerance kind and size, mismatch policy); what is allowed for
   a call is Comparers!Allowed of that call under the calling grader's own configuration, whatever came before.
     linear   graders  A: expected x (scalar), tolerance abs       B: expected [x, 2x - 1], tolerance tiny, mismatch
                       rejected with shape detail                  Z: expected 0, percentage tolerance     (x = 1, 2, 4)
              submissions  zero | prop (2 e) | offset (e + 1) | linear (2 e + 1) | equal | sq (e^2)
                           | eqshift (e with the first sample shifted by 1e-7: equal for A, nothing for B)
                           | shape (B only: a scalar)
     entry    graders  V: vector target, tolerance abs, default policy     M: 2 x 2 target, tolerance zero, mismatch
                       rejected with shape detail     W: another vector target, tolerance tiny, messages suppressed
              submissions  right | one entry wrong | all wrong | shift (right, first entry shifted by 1e-7: matches
                           for V, a wrong entry for M and W) | shape (a vector of another length / a scalar)
   Every state is one history (c.hist); out.calls lists, call by call, the concrete case, the allowed outcomes and the
   outcome of the implementation-shaped object model; out.obj is the object state of that model.  The adapter replays
   the whole history on ONE comparer object and one grader object per grader name, and compares call by call.   *)
MaxHist == 3
HistCfgs == {Cfg(One, <<1, 2>>, <<3, 10>>, <<1, 5>>), DefaultCfg} \cup (IF Thorough THEN {Cfg(One, None, None, One)} ELSE {})
HistSeeds == {s \in {[kind |-> "seed", obj |-> "linear", cfg |-> g, mode |-> Flat(Zero), share |-> sh] : g \in HistCfgs, sh \in {"explicit", "default"}} :
                ~Thorough => (s.share = "explicit" \/ s.cfg = DefaultCfg)}
             \cup {s \in {[kind |-> "seed", obj |-> "entry", cfg |-> DefaultCfg, mode |-> m, share |-> sh] : m \in {Proportional, Flat(<<1, 2>>)}, sh \in {"explicit", "default"}} :
                     (~Thorough /\ s.share = "default") => s.mode = Proportional}
RejectShape == [raised |-> FALSE, detail |-> "shape", suppress |-> FALSE, shapeErrors |-> TRUE]
Suppressed == [raised |-> TRUE, detail |-> "type", suppress |-> TRUE, shapeErrors |-> FALSE]
HistGrader(g) == CASE g = "A" -> [tol |-> "abs", policy |-> DefaultPolicy]
                   [] g = "B" -> [tol |-> "tiny", policy |-> RejectShape]
                   [] g = "Z" -> [tol |-> "pct", policy |-> DefaultPolicy]
                   [] g = "V" -> [tol |-> "abs", policy |-> DefaultPolicy]
                   [] g = "M" -> [tol |-> "zero", policy |-> RejectShape]
                   [] g = "W" -> [tol |-> "tiny", policy |-> Suppressed]
HistLinSubs == {"zero", "prop", "linear"} \cup (IF Thorough THEN {"offset", "equal", "sq"} ELSE {})
HistEntrySubs == {"right", "one", "shift", "shape"} \cup (IF Thorough THEN {"all"} ELSE {})
HistCallsFor(obj) == IF obj = "linear"
                     THEN [g : {"A", "B", "Z"}, sub : HistLinSubs] \cup [g : {"A", "B"}, sub : {"eqshift"}] \cup [g : {"B"}, sub : {"shape"}]
                     ELSE [g : {"V", "M", "W"}, sub : HistEntrySubs]
HistA(sub) == IF sub \in {"prop", "linear"} THEN [z |-> G(2), d |-> 1] ELSE IF sub = "zero" THEN [z |-> GZ, d |-> 1] ELSE [z |-> G(1), d |-> 1]
HistB(sub) == IF sub \in {"offset", "linear"} THEN [z |-> G(1), d |-> 1] ELSE [z |-> GZ, d |-> 1]
HistEntryTarget(g) == IF g = "V" THEN 2 ELSE IF g = "M" THEN 4 ELSE 3
HistCase(seed, call) ==
  LET cfgG == HistGrader(call.g) IN
  IF seed.obj = "linear"
  THEN LET k == BuildLin([cfg |-> seed.cfg, xi |-> IF call.g = "Z" THEN 4 ELSE 1, vec |-> call.g = "B", a |-> HistA(call.sub), b |-> HistB(call.sub),
                          nl |-> IF call.sub = "sq" THEN "sq" ELSE "none", jit |-> IF call.sub = "eqshift" THEN 1 ELSE 0, tol |-> cfgG.tol])
       IN IF call.sub = "shape" THEN [k EXCEPT !.policy = cfgG.policy, !.S = [s \in 1..Len(k.S) |-> Sc(G(3))]]
          ELSE [k EXCEPT !.policy = cfgG.policy]
  ELSE LET ti == HistEntryTarget(call.g)   n == Len(EntryTargets[ti].ent)
           k == BuildEntry([ti |-> ti, smode |-> "const", wrong |-> IF call.sub = "one" THEN {n} ELSE IF call.sub = "all" THEN 1..n ELSE {},
                            mode |-> seed.mode, jit |-> IF call.sub = "shift" THEN 1 ELSE 0, tol |-> cfgG.tol])
       IN IF call.sub = "shape" THEN [k EXCEPT !.policy = cfgG.policy, !.S = <<(IF call.g = "M" THEN Sc(G(3)) ELSE Vc(<<G(1), G(1), GZ, G(2), G(5)>>))>>]
          ELSE [k EXCEPT !.policy = cfgG.policy]

(* ------------------------------------------------------------------ two-level enumeration *)
Seeds == CASE Part = "cong" -> CongSeeds [] Part = "between" -> BetweenSeeds [] Part = "eigen" -> EigSeeds
           [] Part = "span" -> SpanSeeds [] Part = "phase" -> PhaseSeeds [] Part = "entry" -> EntrySeeds
           [] Part = "linear" -> LinSeeds [] Part = "shape" -> ShapeSeeds [] Part = "history" -> HistSeeds
CasesFor(s) == CASE Part = "cong" -> CongCases(s) [] Part = "between" -> BetweenCases(s) [] Part = "eigen" -> EigCases(s)
                 [] Part = "span" -> SpanCases(s) [] Part = "phase" -> PhaseCases(s) [] Part = "entry" -> EntryCases(s)
                 [] Part = "linear" -> LinCases(s) [] Part = "shape" -> ShapeCases(s)
Build(x) == CASE x.kind = "cong" -> BuildCong(x) [] x.kind = "between" -> BuildBetween(x) [] x.kind = "eigen" -> BuildEig(x)
              [] x.kind = "span" -> BuildSpan(x) [] x.kind = "phase" -> BuildPhase(x) [] x.kind = "entry" -> BuildEntry(x)
              [] x.kind = "linear" -> BuildLin(x) [] x.kind = "shape" -> BuildShape(x)
Init == c \in Seeds /\ out = "seed"
NextHist == /\ c.kind = "seed" \/ (c.kind = "history" /\ Len(c.hist) < MaxHist)
            /\ \E call \in HistCallsFor(c.obj) :
                 LET k == HistCase(c, call)
                     prev == IF c.kind = "seed" THEN [calls |-> <<>>, obj |-> ObjInit(c.cfg)] ELSE out
                 IN /\ c' = [kind |-> "history", obj |-> c.obj, cfg |-> c.cfg, mode |-> c.mode, share |-> c.share,
                             hist |-> Append(IF c.kind = "seed" THEN <<>> ELSE c.hist, call)]
                    /\ out' = [calls |-> Append(prev.calls, [case |-> k, allowed |-> Allowed(k),
                                                            impl |-> ImplOutcomeOnObject(k, prev.obj, Flaws)]),
                               obj |-> ObjNext(prev.obj, k, Flaws)]
Next == IF Part = "history" THEN NextHist ELSE
        /\ c.kind = "seed"
        /\ c' \in CasesFor(c)
        /\ out' = LET k == Build(c')   al == Allowed(k)
                  IN [case |-> k, allowed |-> al, rel |-> RelationOf(k, al), impl |-> ImplOutcome(k, Flaws), why |-> DeviationClass(k, Flaws),
                      msg |-> IF WrongShape(k) THEN MessageModel(k.policy, ExpShape(k), k.S[1].shape)
                              ELSE [form |-> "empty", exp |-> <<>>, got |-> <<>>, same |-> FALSE]]
IsCase == c.kind \notin {"seed", "history"}
K == out.case
IsHist == c.kind = "history"
Last == out.calls[Len(out.calls)]

(* ------------------------------------------------------------------ laws, one INVARIANT each *)
LawWellFormed == IsCase => WellFormedCase(K) /\ LawOutcomeWellFormed(K, out.allowed)
LawGuard == IsCase /\ c.kind # "linear" => GuardOK(K)            \* (linear cases are filtered by GuardOK when they are generated)
LawShapePolicy == IsCase => LawWrongShapeNeverGraded(K, out.allowed) /\ LawSuppressSilent(K, out.allowed)
                            /\ (c.kind = "shape" => ((WrongShape(K) \/ K.evalerr) <=> out.rel \in {"wrongshape", "evalerr"}))
\* what the defining transformation generates is in the class; a lattice step leaves it exactly when the spec says so
LawGenerator == IsCase =>
  CASE c.kind = "cong" -> (c.form # "imag" => (AllMember(K) <=> c.step = 0)) /\ (c.form = "imag" => out.rel = "silent")
    [] c.kind = "between" -> c.form # "imag" => (AllMember(K) <=> (c.a <= c.x /\ c.x <= c.a + c.w))
    [] c.kind = "eigen" -> out.rel \in {"member", "nonmember"}
    [] c.kind = "span" -> (c.step = 0 /\ ~VIsZero(K.S[1])) => AllMember(K)
    [] c.kind = "phase" -> /\ c.var = "none" => AllMember(K)
                           /\ c.var \in {"scale2", "half", "zero"} => ~AllMember(K)
    [] c.kind = "entry" -> Cardinality(MatchingEntries([s \in 1..NSamples(K) |-> K.P[s][1]], K.S)) = Len(K.S[1].ent) - Cardinality(c.wrong)
    [] c.kind = "linear" -> c.nl = "none" => LawGeneratedRelations(LinE(K), K.P[1][1].den, LinS(K), K.S[1].den, c.a.z, c.a.d, c.b.z)
    [] OTHER -> TRUE
\* the implementation-shaped model (current code for Flaws = {}) leaves the documented classes only in the circumscribed
\* situations of DeviationClass ...
LawImplDeviatesOnlyThere_ == IsCase => out.impl \in out.allowed \/ out.why # "none"
\* ... and there it really does: NOT an invariant.  The *_flaw_*.cfg instances switch one repaired code block back to its
\* original form (Flaws = {"Original..."}) and check ImplRefines_: TLC must report a violation, the counterexample is the
\* design-level defect that was repaired (vacuity guard of the refinement check).  MC_Comparers_eigen_impl.cfg does the
\* same for the current code, where the eigenvalue-0 deviation is still present.
ImplRefines_ == (IsCase => out.impl \in out.allowed) /\ (IsHist => Last.impl \in Last.allowed)
\* histories: every call is a guarded case of the specification; what is allowed for a call does not depend on the calls
\* before it (equal calls, equal allowed sets); the object model of the current code never changes its state, agrees
\* with the stateless model and stays inside the allowed set (the variants "AliasedModeFilter" / "StickyEntryTolerance" do not: *_flaw_aliased_modes.cfg, *_flaw_sticky_tolerance.cfg)
LawHistory == IsHist =>
  /\ Len(out.calls) = Len(c.hist) /\ Len(c.hist) <= MaxHist
  /\ WellFormedCase(Last.case) /\ GuardOK(Last.case) /\ LawOutcomeWellFormed(Last.case, Last.allowed)
  \* the allowed outcome is a function of the call and of the calling grader's own configuration
  /\ Last.allowed = Allowed(HistCase(c, c.hist[Len(c.hist)]))
  /\ Last.case.tol = HistGrader(c.hist[Len(c.hist)].g).tol /\ Last.case.policy = HistGrader(c.hist[Len(c.hist)].g).policy
  /\ \A i \in 1..Len(c.hist) : c.hist[i] = c.hist[Len(c.hist)] => out.calls[i].allowed = Last.allowed
  /\ LawFreshObject(Last.case, Flaws)
  /\ Flaws \cap {"AliasedModeFilter", "StickyEntryTolerance"} = {} => /\ out.obj = ObjInit(c.cfg)
                                                                       /\ Last.impl = ImplOutcome(Last.case, Flaws)
                                                                       /\ Last.impl \in Last.allowed
LawKind == IsCase =>
  CASE c.kind = "cong" -> LawCongruence(K.S[1], K.P[1][1], K.P[1][2])
    [] c.kind = "between" -> LawBetween(K.S[1], K.P[1][1], K.P[1][2])
    [] c.kind = "eigen" -> /\ \A sc \in Scales : LawEigenScaling(K.P[1][1], K.P[1][2], K.S[1], sc.z, sc.d)
                           /\ LawEigenCharacteristic(K.P[1][1], K.P[1][2], K.S[1])
    [] c.kind = "span" -> LET v == K.S[1].ent   vs == Ents(K.P[1]) IN
                          /\ LawSpanDistance(v, vs) /\ LawSpanPresentation(v, vs) /\ LawSpanFullRank(v, vs)
                          /\ LawSpanScaling(v, vs, <<1, 1>>) /\ LawSpanScaling(v, vs, G(-2))
    [] c.kind = "phase" -> /\ LawPhaseCharacterisation(K.S[1], K.P[1][1]) /\ LawPhaseSymmetric(K.S[1], K.P[1][1])
                           /\ \A u \in Units : LawPhaseClosed(K.S[1], K.P[1][1], u.z, u.d)
    [] c.kind = "entry" -> LawEntryCredit(Len(K.S[1].ent), K.mode)
    [] c.kind = "linear" -> LET E == LinE(K)  dE == K.P[1][1].den  S == LinS(K)  dS == K.S[1].den   t == RelTable(E, dE, S, dS) IN
                            /\ LawRelationHierarchy(E, dE, S, dS) /\ LawLinearCreditConfigured(K.cfg, t, E, S)
                            /\ \A m \in Modes : \A q \in {<<1, 2>>, One} : LawMoreModesNeverLower(K.cfg, t, E, S, m, q)
    [] OTHER -> TRUE
=============================================================================
