INIT Init
NEXT Next
CONSTANTS
  Part = "eigen"
  Flaws = {}
  Thorough = FALSE
INVARIANT ImplRefines_
