INIT Init
NEXT Next
CONSTANTS
  Part = "ident"
  Tier = "quick"
INVARIANT LawIdent
INVARIANT LawRoundTripStatus
INVARIANT LawOverride
INVARIANT LawMatrixSame
