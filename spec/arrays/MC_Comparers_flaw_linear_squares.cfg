INIT Init
NEXT Next
CONSTANTS
  Part = "linear"
  Flaws = {"OriginalLinearSquares"}
  Thorough = FALSE
INVARIANT ImplRefines_
