INIT Init
NEXT Next
CONSTANTS
  Part = "linear"
  Thorough = FALSE
INVARIANT ImplRefines_
