INIT Init
NEXT Next
CONSTANTS
  Part = "cong"
  Flaws = {}
  Thorough = FALSE
INVARIANT LawWellFormed
INVARIANT LawGuard
INVARIANT LawShapePolicy
INVARIANT LawGenerator
INVARIANT LawKind
INVARIANT LawImplDeviatesOnlyThere_
