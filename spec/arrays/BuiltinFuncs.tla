---------------------------- MODULE BuiltinFuncs ----------------------------
(* Property-level specification of the built-in functions and constants offered to students (C15).
   Written from docs/grading_math/functions_and_constants.md and the property statement, not from the code.

   TLA+ cannot evaluate transcendental functions, so the specification has three layers:

   (a) SIGNATURES  -- for the Formula/Numerical table and for the Matrix table: which names exist, how many arguments
       of which shape class each takes; Outcome(table, f, args) is total and says, for any call, whether a value is
       required, an error is required, or both are tolerated (where the documentation is silent).
   (b) EXACT LAYER -- functions that stay inside the Gaussian rationals are computed here, by TLC: abs (as the square
       root of an exact rational), floor, ceil, min, max, re, im, conj, kronecker, arctan2 (exact on the axes and
       diagonals, an octant elsewhere), trans, ctrans, adj, det, trace, cross, norm (square), i, j.
   (c) IDENTITIES  -- the transcendental functions are pinned down by their definitions, written as data (pairs of
       terms with holes Z, W and a relation).  Terms are instantiated over grids of Gaussian rationals; a symbolic walk
       over the instantiated term (Ev) computes exactly which sub-terms sit on a pole (an error is required), outside
       the real domain of an inverse function (value of the complex continuation or an error) or inside the domain (a
       value is required), and evaluates every exactly computable sub-term.  Both sides of an identity are evaluated by
       the implementation; the relation between them comes from here.

   Numbers are Gaussian rationals <<re, im>> of normalised rationals <<n, d>> (Rat.tla); arrays are the records
   [sh |-> shape, e |-> row-major entries] of ArrayAlgebra.tla (C14), whose determinant and transpose are reused.
   Terms are parse trees in the format of ExprGrammar.tla (C03); Render writes a term with the fewest parentheses the
   documented precedences allow, and the law LawRenderParses checks it against that grammar. *)
EXTENDS Rat, TLC, FiniteSets
A == INSTANCE ArrayAlgebra
E == INSTANCE ExprGrammar

\* ------------------------------------------------------------------ Gaussian rationals (short names)
GR(q) == <<q, Zero>>
GI(n) == <<FromInt(n), Zero>>
GQ(a, b, c, d) == <<Q(a, b), Q(c, d)>>
II == <<Zero, One>>
GZ == <<Zero, Zero>>
IsRe(z) == z[2][1] = 0
IsIm(z) == z[1][1] = 0                      \* on the imaginary axis (0 included)
GIs0(z) == z[1][1] = 0 /\ z[2][1] = 0
SgnQ(q) == IF q[1] > 0 THEN 1 ELSE IF q[1] < 0 THEN -1 ELSE 0
\* small enough for exact products in 32-bit integers
SmallQ(q) == Abs(q[1]) <= 2000 /\ q[2] <= 2000
SmallG(z) == SmallQ(z[1]) /\ SmallQ(z[2])
UnitQ(q) == q[2] = 1 /\ Abs(q[1]) <= 1
UnitG(z) == UnitQ(z[1]) /\ UnitQ(z[2])                      \* 0, 1, -1, i, -i, 1 + i, ...
IsIntG(z) == IsRe(z) /\ z[1][2] = 1
\* products / quotients that stay inside 32 bits: small operands, a unit, or a quotient of two integers
SafeMul(a, b) == (SmallG(a) /\ SmallG(b)) \/ UnitG(a) \/ UnitG(b)
SafeDiv(a, b) == (SmallG(a) /\ SmallG(b)) \/ (UnitG(b) /\ (IsRe(b) \/ IsIm(b))) \/ (IsIntG(a) /\ IsIntG(b))
\* 1/z without forming |z|^2 on the axes (keeps 10^6 and 10^-6 inside 32 bits)
GInvS(z) == IF IsRe(z) THEN <<Inv(z[1]), Zero>>
            ELSE IF IsIm(z) THEN <<Zero, Neg(Inv(z[2]))>>
            ELSE A!GInv(z)
GDivS(a, b) == IF IsIntG(a) /\ IsIntG(b) THEN GR(Q(a[1][1], b[1][1])) ELSE A!GMul(a, GInvS(b))
Tup(f, n) == SubSeq(f, 1, n)
Sc(z) == A!Scalar(z)

\* ------------------------------------------------------------------ (a) signatures
ScalarFns == {"sin", "cos", "tan", "sec", "csc", "cot", "sqrt", "log10", "log2", "ln", "exp",
              "arccos", "arcsin", "arctan", "arcsec", "arccsc", "arccot", "abs",
              "sinh", "cosh", "tanh", "sech", "csch", "coth",
              "arcsinh", "arccosh", "arctanh", "arcsech", "arccsch", "arccoth", "floor", "ceil"}
\* n = number of arguments (atLeast: n or more);  p = shape class every argument must have:
\*   "scalar"; "any" (number or array, taken entry by entry); "array" (vector or matrix; the documentation is silent
\*   about numbers, except for norm); "scalvec" (number or vector); "square" (square matrix); "vec3"
Sg(n, atLeast, p) == [n |-> n, atLeast |-> atLeast, p |-> p]
FormulaSig == [f \in ScalarFns |-> Sg(1, FALSE, "scalar")]
              @@ [f \in {"arctan2", "kronecker"} |-> Sg(2, FALSE, "scalar")]
              @@ [f \in {"min", "max"} |-> Sg(2, TRUE, "scalar")]
              @@ [f \in {"re", "im", "conj"} |-> Sg(1, FALSE, "any")]
MatrixOnly == [f \in {"trans", "ctrans", "adj", "norm"} |-> Sg(1, FALSE, "array")]
              @@ [f \in {"det", "trace"} |-> Sg(1, FALSE, "square")]
              @@ ("abs" :> Sg(1, FALSE, "scalvec")) @@ ("cross" :> Sg(2, FALSE, "vec3"))
MatrixSig == MatrixOnly @@ FormulaSig              \* @@ prefers its left operand: abs is redefined
Tables == {"formula", "matrix"}
SigOf(tb) == IF tb = "matrix" THEN MatrixSig ELSE FormulaSig
\* the documentation lists these 39 names (and factorial / fact, left out here) for formulas and 8 for matrices (abs again)
ASSUME Cardinality(DOMAIN FormulaSig) = 39
ASSUME Cardinality(DOMAIN MatrixSig) = 46
ASSUME DOMAIN FormulaSig \subseteq DOMAIN MatrixSig
ASSUME \A f \in DOMAIN FormulaSig \ {"abs"} : MatrixSig[f] = FormulaSig[f]

CountOK(s, k) == IF s.atLeast THEN k >= s.n ELSE k = s.n
ShapeOK(p, a) == CASE p = "scalar" -> A!IsScalar(a)
                   [] p = "any" -> TRUE
                   [] p = "array" -> TRUE
                   [] p = "scalvec" -> A!Rank(a) <= 1
                   [] p = "square" -> A!IsSquare(a)
                   [] p = "vec3" -> a.sh = <<3>>

(* A third scope, "override": a course author may replace any default function by a function of his own
   (user_functions with suppress_warnings).  In this scope every name of the tables is bound to a user function that
   accepts any arguments and returns a number of its own, Marker(name), recognisably different from every textbook value
   on the grids.  It exists to state -- and to let the adapter check -- that what a text evaluates to is decided by the
   scope handed in and by nothing else (see "history independence" below). *)
Scopes == {"formula", "matrix", "override"}
NameSeq == <<"abs", "adj", "arccos", "arccosh", "arccot", "arccoth", "arccsc", "arccsch", "arcsec", "arcsech", "arcsin",
             "arcsinh", "arctan", "arctan2", "arctanh", "ceil", "conj", "cos", "cosh", "cot", "coth", "cross", "csc", "csch",
             "ctrans", "det", "exp", "floor", "im", "kronecker", "ln", "log10", "log2", "max", "min", "norm", "re", "sec",
             "sech", "sin", "sinh", "sqrt", "tan", "tanh", "trace", "trans">>
ASSUME {NameSeq[i] : i \in 1..Len(NameSeq)} = DOMAIN MatrixSig /\ Len(NameSeq) = Cardinality(DOMAIN MatrixSig)
Marker(f) == 10 + (CHOOSE i \in 1..Len(NameSeq) : NameSeq[i] = f)
Markers == [f \in DOMAIN MatrixSig |-> Marker(f)]
Known(tb, f) == IF tb = "override" THEN f \in DOMAIN MatrixSig ELSE f \in DOMAIN SigOf(tb)
CountFits(tb, f, n) == tb = "override" \/ CountOK(SigOf(tb)[f], n)

\* ------------------------------------------------------------------ outcomes
(* k = "exact"     a value is required and equals v (an array record; numbers are rank 0)
       "sqrtof"    a value is required: the non-negative real whose square is the rational q
       "angle"     a value is required: a real angle t with lo*pi <= t <= hi*pi  (lo = hi on the axes and diagonals)
       "defined"   a (finite, scalar) value is required; real = it must be real; sign / ranges narrow it further
       "err"       a student-facing error is required (why: undefined name, argument count, argument shape, pole,
                   outside the domain, value not representable); never nan, inf, a warning or a value
       "offreal"   real argument outside the real domain of an inverse function: the complex continuation or an error
       "underflow" the value is smaller than every float because an intermediate quantity is not representable:
                   a value within tolerance of 0 or an error
       "silent"    the documentation does not say: v or an error *)
X(v) == [k |-> "exact", v |-> v]
XS(z) == X(Sc(z))
SqrtOf(q) == [k |-> "sqrtof", q |-> q]
Angle(lo, hi) == [k |-> "angle", lo |-> lo, hi |-> hi]
Defined(real, sign, ranges) == [k |-> "defined", real |-> real, sign |-> sign, ranges |-> ranges]
MustErr(why) == [k |-> "err", why |-> why]
Offreal == [k |-> "offreal"]
Underflow == [k |-> "underflow"]
Silent(v) == [k |-> "silent", v |-> v]
\*     "silentsqrt" the documentation does not say (norm of an array with three or more axes): the root of q, or an error
\*     "numberlike" an array with exactly one entry where a number is expected: the library may read it as that number
\*                  (its "number-like" arrays) or refuse it; the statement does not say, so any finite value or an error
SilentSqrt(q) == [k |-> "silentsqrt", q |-> q]
NumberLike == [k |-> "numberlike"]
OutcomeKinds == {"exact", "sqrtof", "angle", "defined", "err", "offreal", "underflow", "silent", "silentsqrt", "numberlike"}
Allowed(o) == IF o.k = "err" THEN "err"
              ELSE IF o.k \in {"offreal", "underflow", "silent", "silentsqrt", "numberlike"} THEN "valOrErr" ELSE "val"

\* ------------------------------------------------------------------ domains of the scalar functions (exact predicates)
(* "in" inside the domain; "pole" no value exists; "offreal" (see above); "offdomain" real-only function given a
   non-real number; "overflow" |value| exceeds every float (exp 711 > 1.7e308); "underflow" (see above).
   Poles at irrational points (tan at pi/2, ...) cannot be hit by a rational argument. *)
Big == FromInt(711)
Huge(q) == Leq(Big, RAbs(q))
Dom(f, z) ==
  LET x == z[1]  y == z[2]  re == IsRe(z) IN
  CASE f = "exp" -> IF Leq(Big, x) THEN "overflow" ELSE "in"
    [] f \in {"sinh", "cosh"} -> IF Huge(x) THEN "overflow" ELSE "in"
    [] f \in {"sin", "cos"} -> IF Huge(y) THEN "overflow" ELSE "in"
    [] f = "sech" -> IF Huge(x) THEN "underflow" ELSE "in"
    [] f = "csch" -> IF GIs0(z) THEN "pole" ELSE IF Huge(x) THEN "underflow" ELSE "in"
    [] f = "sec" -> IF Huge(y) THEN "underflow" ELSE "in"
    [] f = "csc" -> IF GIs0(z) THEN "pole" ELSE IF Huge(y) THEN "underflow" ELSE "in"
    [] f \in {"tan", "tanh", "sqrt", "arcsinh", "abs"} -> "in"
    [] f \in {"cot", "coth", "ln", "log10", "log2", "arccsch"} -> IF GIs0(z) THEN "pole" ELSE "in"
    [] f \in {"arcsin", "arccos"} -> IF re /\ Lt(One, RAbs(x)) THEN "offreal" ELSE "in"
    [] f \in {"arctan", "arccot"} -> IF IsIm(z) /\ RAbs(y) = One THEN "pole" ELSE "in"
    [] f \in {"arcsec", "arccsc"} -> IF GIs0(z) THEN "pole" ELSE IF re /\ Lt(RAbs(x), One) THEN "offreal" ELSE "in"
    [] f = "arccosh" -> IF re /\ Lt(x, One) THEN "offreal" ELSE "in"
    [] f = "arctanh" -> IF re /\ RAbs(x) = One THEN "pole" ELSE IF re /\ Lt(One, RAbs(x)) THEN "offreal" ELSE "in"
    [] f = "arccoth" -> IF re /\ RAbs(x) = One THEN "pole" ELSE IF re /\ Lt(RAbs(x), One) THEN "offreal" ELSE "in"
    [] f = "arcsech" -> IF GIs0(z) THEN "pole" ELSE IF re /\ (x[1] < 0 \/ Lt(One, x)) THEN "offreal" ELSE "in"
    [] f \in {"floor", "ceil"} -> IF re THEN "in" ELSE "offdomain"

\* real arguments at which the value is real
RealDom(f, x) ==
  CASE f \in {"sin", "cos", "tan", "sec", "exp", "sinh", "cosh", "tanh", "sech", "arctan", "arccot", "arcsinh",
              "abs", "floor", "ceil"} -> TRUE
    [] f \in {"csc", "cot", "csch", "coth", "arccsch"} -> x[1] # 0
    [] f = "sqrt" -> x[1] >= 0
    [] f \in {"ln", "log10", "log2"} -> x[1] > 0
    [] f \in {"arcsin", "arccos"} -> Leq(RAbs(x), One)
    [] f \in {"arcsec", "arccsc"} -> Leq(One, RAbs(x))
    [] f = "arccosh" -> Leq(One, x)
    [] f = "arctanh" -> Lt(RAbs(x), One)
    [] f = "arccoth" -> Lt(One, RAbs(x))
    [] f = "arcsech" -> x[1] > 0 /\ Leq(x, One)
\* functions whose values on the reals outside RealDom are *required* (the statement: "with complex continuation")
Continued == {"sqrt", "ln", "log10", "log2"}

\* sign of the (real) value on the real domain: "pos" "neg" "zero" "any"
SignName(s) == IF s > 0 THEN "pos" ELSE IF s < 0 THEN "neg" ELSE "zero"
SignOf(f, x) ==
  CASE f \in {"exp", "cosh", "sech"} -> "pos"
    [] f \in {"sqrt", "abs"} -> SignName(IF x[1] = 0 THEN 0 ELSE 1)
    [] f \in {"ln", "log10", "log2", "arccosh"} -> SignName(SgnQ(Sub(x, One)))
    [] f \in {"sinh", "tanh", "arcsinh", "arctan", "arcsin", "arctanh", "csch", "coth", "arccsch", "arccoth"} -> SignName(SgnQ(x))
    [] f = "arccsc" -> IF x[1] > 0 THEN "pos" ELSE "any"              \* negative x: (-pi/2, 0) or (pi, 3pi/2)
    [] f \in {"arccos", "arcsec", "arcsech"} -> IF x = One THEN "zero" ELSE "pos"
    [] f = "arccot" -> IF x[1] >= 0 THEN "pos" ELSE "any"
    [] OTHER -> "any"

(* principal ranges on the reals, in units of pi, as a set of closed intervals <<lo, hi>>; the value has to lie in one
   of them.  Where textbooks differ (arcsec / arccsc of negative numbers: second quadrant or third quadrant; arccot of
   negative numbers: (-pi/2, 0) or (pi/2, pi)) every convention in print is admitted. *)
H == Q(1, 2)
Ranges(f, x) ==
  LET s == SgnQ(x) IN
  CASE f \in {"arcsin", "arctan"} -> IF s > 0 THEN {<<Zero, H>>} ELSE IF s < 0 THEN {<<Neg(H), Zero>>} ELSE {<<Zero, Zero>>}
    [] f = "arccos" -> IF s > 0 THEN {<<Zero, H>>} ELSE IF s < 0 THEN {<<H, One>>} ELSE {<<H, H>>}
    [] f = "arcsec" -> IF s > 0 THEN {<<Zero, H>>} ELSE {<<H, One>>, <<One, Q(3, 2)>>}
    [] f = "arccsc" -> IF s > 0 THEN {<<Zero, H>>} ELSE {<<Neg(H), Zero>>, <<One, Q(3, 2)>>}
    [] f = "arccot" -> IF s > 0 THEN {<<Zero, H>>} ELSE IF s = 0 THEN {<<H, H>>} ELSE {<<Neg(H), Zero>>, <<H, One>>}
    [] OTHER -> {}

FloorQ(q) == FromInt(Floor(q))
CeilQ(q) == FromInt(-Floor(Neg(q)))

\* one scalar function at one Gaussian rational
ScalarApply(f, z) ==
  LET d == Dom(f, z) IN
  IF d \in {"pole", "offdomain", "overflow"} THEN MustErr(d)
  ELSE IF d = "underflow" THEN Underflow
  ELSE IF d = "offreal" THEN Offreal
  ELSE IF f = "floor" THEN XS(GR(FloorQ(z[1])))
  ELSE IF f = "ceil" THEN XS(GR(CeilQ(z[1])))
  ELSE IF f = "abs" THEN (IF IsRe(z) THEN XS(GR(RAbs(z[1]))) ELSE IF IsIm(z) THEN XS(GR(RAbs(z[2])))
                          ELSE SqrtOf(A!GAbs2(z)))
  ELSE IF IsRe(z) /\ RealDom(f, z[1]) THEN Defined(TRUE, SignOf(f, z[1]), Ranges(f, z[1]))
  ELSE Defined(FALSE, "any", {})

\* ------------------------------------------------------------------ (b) exact layer: several arguments, arrays
(* arctan2(x, y): "the angle in (-pi, pi] whose tangent is y/x, taking into account the quadrant (x, y) is in".
   In units of pi the angle is exact on the axes and diagonals and confined to an open octant elsewhere. *)
Oct1(ax, ay) == IF ay[1] = 0 THEN <<Zero, Zero>> ELSE IF ax[1] = 0 THEN <<H, H>>
                ELSE IF ax = ay THEN <<Q(1, 4), Q(1, 4)>> ELSE IF Lt(ay, ax) THEN <<Zero, Q(1, 4)>> ELSE <<Q(1, 4), H>>
AngleOf(x, y) ==
  LET o == Oct1(RAbs(x), RAbs(y))  lo == o[1]  hi == o[2] IN
  IF x[1] >= 0 /\ y[1] >= 0 THEN <<lo, hi>>
  ELSE IF y[1] >= 0 THEN <<Sub(One, hi), Sub(One, lo)>>         \* second quadrant and the negative x axis: pi, not -pi
  ELSE IF x[1] < 0 THEN <<Sub(lo, One), Sub(hi, One)>>
  ELSE <<Neg(hi), Neg(lo)>>

RECURSIVE MinOf(_), MaxOf(_)
MinOf(s) == IF Len(s) = 1 THEN s[1] ELSE RMin(Head(s), MinOf(Tail(s)))
MaxOf(s) == IF Len(s) = 1 THEN s[1] ELSE RMax(Head(s), MaxOf(Tail(s)))

Norm2(a) == LET RECURSIVE S(_)
                S(n) == IF n = 0 THEN Zero ELSE A!RAdd(S(n - 1), A!GAbs2(a.e[n]))
            IN S(Len(a.e))
ConjArr(a) == A!Map1(a, A!GConj)
TraceOf(a) == A!GSumSeq(Tup([i \in 1..a.sh[1] |-> A!At(a, i, i)], a.sh[1]))
CrossOf(u, v) == LET m(i, j) == A!GSub(A!GMul(u.e[i], v.e[j]), A!GMul(v.e[i], u.e[j])) IN
                 [sh |-> <<3>>, e |-> <<m(2, 3), m(3, 1), m(1, 2)>>]
DotOf(u, v) == A!GSumSeq(Tup([i \in 1..Len(u.e) |-> A!GMul(u.e[i], v.e[i])], Len(u.e)))
AbsLike(a) == IF A!IsScalar(a) THEN ScalarApply("abs", a.e[1])
              ELSE IF A!Rank(a) <= 2 THEN SqrtOf(Norm2(a)) ELSE SilentSqrt(Norm2(a))
(* arrays with three axes: "transpose" has no textbook meaning there; the only candidate value is the array with its
   axes in reverse order (what the transpose of a matrix is, and what numpy returns) -- that or an error.
   det, trace (square MATRIX), cross (3-vectors) and the Matrix table's abs (number or vector) must refuse them. *)
RevAxes3(a) == LET p == a.sh[1]  q == a.sh[2]  r == a.sh[3] IN
               [sh |-> <<r, q, p>>,
                e |-> Tup([n \in 1..(p * q * r) |->
                             LET k == (n - 1) \div (q * p)
                                 j == ((n - 1) \div p) % q
                                 i == (n - 1) % p
                             IN
                             a.e[i * q * r + j * r + k + 1]], p * q * r)]
TransLike(a) == IF A!IsMatrix(a) THEN X(A!Transpose(a)) ELSE IF A!Rank(a) = 3 THEN Silent(RevAxes3(a)) ELSE Silent(a)
CTransLike(a) == IF A!IsMatrix(a) THEN X(ConjArr(A!Transpose(a)))
                 ELSE IF A!Rank(a) = 3 THEN Silent(ConjArr(RevAxes3(a))) ELSE Silent(ConjArr(a))

\* a call whose argument count and shapes are right
Apply(tb, f, args) ==
  LET a == args[1] IN
  CASE f = "abs" /\ tb = "matrix" -> AbsLike(a)
    [] f \in ScalarFns -> ScalarApply(f, a.e[1])
    [] f = "arctan2" ->
         LET x == a.e[1]  y == args[2].e[1] IN
         IF ~(IsRe(x) /\ IsRe(y)) THEN MustErr("offdomain")
         ELSE IF GIs0(x) /\ GIs0(y) THEN MustErr("pole")
         ELSE LET r == AngleOf(x[1], y[1]) IN Angle(r[1], r[2])
    [] f = "kronecker" -> XS(IF a.e[1] = args[2].e[1] THEN GI(1) ELSE GI(0))
    [] f \in {"min", "max"} ->
         IF \E i \in 1..Len(args) : ~IsRe(args[i].e[1]) THEN MustErr("offdomain")
         ELSE LET xs == Tup([i \in 1..Len(args) |-> args[i].e[1][1]], Len(args)) IN
              XS(GR(IF f = "min" THEN MinOf(xs) ELSE MaxOf(xs)))
    [] f \in {"re", "im", "conj"} ->
         LET v == IF f = "re" THEN A!Map1(a, LAMBDA g : GR(g[1]))
                  ELSE IF f = "im" THEN A!Map1(a, LAMBDA g : GR(g[2])) ELSE ConjArr(a) IN
         IF A!IsScalar(a) THEN X(v) ELSE Silent(v)
    [] f = "norm" -> AbsLike(a)
    [] f = "trans" -> TransLike(a)
    [] f \in {"ctrans", "adj"} -> CTransLike(a)
    [] f = "det" -> XS(A!Det(a))
    [] f = "trace" -> XS(TraceOf(a))
    [] f = "cross" -> X(CrossOf(a, args[2]))

\* any call: total over names, counts and shapes
Outcome(tb, f, args) ==
  IF ~Known(tb, f) THEN MustErr("undefined")
  ELSE IF tb = "override" THEN XS(GI(Marker(f)))             \* the author's function, whatever the arguments
  ELSE LET s == SigOf(tb)[f] IN
       IF ~CountOK(s, Len(args)) THEN MustErr("argcount")
       ELSE IF s.p = "scalar" /\ (\E i \in 1..Len(args) : ~A!IsScalar(args[i]))
                           /\ (\A i \in 1..Len(args) : Len(args[i].e) = 1) THEN NumberLike
       ELSE IF \E i \in 1..Len(args) : ~ShapeOK(s.p, args[i]) THEN MustErr("argshape")
       ELSE Apply(tb, f, args)

\* constants: i and j exactly; e and pi by rational enclosures (continued-fraction convergents, 1e-9 wide) and as
\* integers in units of 1e-8 for trace records
ConstExact == ("i" :> II @@ "j" :> II)
ConstBounds == ("pi" :> <<Q(103993, 33102), Q(104348, 33215)>> @@ "e" :> <<Q(25946, 9545), Q(49171, 18089)>>)
ConstNano == ("pi" :> 314159265 @@ "e" :> 271828183)
\* (the enclosures are 9e-10 and 6e-9 wide; 32-bit integers only allow TLC to confirm that both ends of an enclosure
\*  and the scaled integer agree in their leading five digits, and the classical coarse bounds)
ASSUME \A c \in DOMAIN ConstBounds : LET b == ConstBounds[c]  k == ConstNano[c] \div 10000 IN
         /\ Lt(Q(k, 10000), b[1]) /\ Lt(b[1], Q(k + 1, 10000))
         /\ Lt(Q(k, 10000), b[2]) /\ Lt(b[2], Q(k + 1, 10000))
ASSUME Lt(FromInt(3), ConstBounds["pi"][1]) /\ Lt(ConstBounds["pi"][2], Q(22, 7))
ASSUME Lt(Q(19, 7), ConstBounds["e"][1]) /\ Lt(ConstBounds["e"][2], Q(87, 32))

\* ------------------------------------------------------------------ terms (ExprGrammar trees) and their rendering
NatT(n) == [t |-> "num", v |-> <<n, 1>>, suf |-> ""]
Vr(s) == [t |-> "var", n |-> s]
Fn(f, args) == [t |-> "call", n |-> f, args |-> args]
F1(f, a) == Fn(f, <<a>>)
F2(f, a, b) == Fn(f, <<a, b>>)
Bin(op, a, b) == [t |-> op, a |-> a, b |-> b]
AddT(a, b) == Bin("add", a, b)
SubT(a, b) == Bin("sub", a, b)
MulT(a, b) == Bin("mul", a, b)
DivT(a, b) == Bin("div", a, b)
NegT(a) == [t |-> "neg", a |-> a]
PowT(a, b) == [t |-> "pow", a |-> a, neg |-> FALSE, b |-> b]
ArrT(es) == [t |-> "arr", elems |-> es]
ZZ == Vr("Z")
WW == Vr("W")
Ivar == Vr("i")
PiT == Vr("pi")
ET == Vr("e")

RatT(q) == IF q[2] = 1 THEN (IF q[1] >= 0 THEN NatT(q[1]) ELSE NegT(NatT(-q[1])))
           ELSE IF q[1] >= 0 THEN DivT(NatT(q[1]), NatT(q[2])) ELSE DivT(NegT(NatT(-q[1])), NatT(q[2]))
GaussT(z) == IF IsRe(z) THEN RatT(z[1])
             ELSE LET im == IF z[2] = One THEN Ivar ELSE IF z[2] = Neg(One) THEN NegT(Ivar) ELSE MulT(RatT(z[2]), Ivar) IN
                  IF z[1][1] = 0 THEN im ELSE AddT(RatT(z[1]), im)
NegZeroT == NegT(NatT(0))                  \* the number 0 written as -0
\* a nested literal, one bracket level per axis
RECURSIVE ArrayT(_)
ArrayT(a) == IF A!IsScalar(a) THEN GaussT(a.e[1])
             ELSE LET m == Len(a.e) \div a.sh[1] IN
                  ArrT(Tup([i \in 1..a.sh[1] |-> ArrayT([sh |-> Tail(a.sh), e |-> SubSeq(a.e, (i - 1) * m + 1, i * m)])],
                           a.sh[1]))

\* names spelt with letters only (such a name directly after a number would be read as a suffix; Render never does that)
AlphaName(s) == s \notin {"arctan2", "log10", "log2"}
Lvl(t) == CASE t.t \in {"add", "sub"} -> 1 [] t.t \in {"mul", "div"} -> 2 [] t.t = "neg" -> 4 [] t.t = "pow" -> 5
            [] OTHER -> 6
RECURSIVE Rn(_, _), RnList(_, _)
RnList(sq, i) == IF i > Len(sq) THEN <<>>
                 ELSE (IF i > 1 THEN <<E!Op(",")>> ELSE <<>>) \o Rn(sq[i], 1) \o RnList(sq, i + 1)
Rn(t, m) ==
  LET body ==
        CASE t.t = "num" -> <<E!Num(t.v[1], t.v[2])>>
          [] t.t = "var" -> <<E!Name(t.n, AlphaName(t.n))>>
          [] t.t = "call" -> <<E!Name(t.n, AlphaName(t.n)), E!Op("(")>> \o RnList(t.args, 1) \o <<E!Op(")")>>
          [] t.t = "arr" -> <<E!Op("[")>> \o RnList(t.elems, 1) \o <<E!Op("]")>>
          [] t.t = "neg" -> <<E!Op("-")>> \o Rn(t.a, 5)
          [] t.t = "pow" -> Rn(t.a, 6) \o <<E!Op("^")>> \o (IF t.neg THEN <<E!Op("-")>> ELSE <<>>) \o Rn(t.b, 5)
          [] t.t \in {"add", "sub"} -> Rn(t.a, 1) \o <<E!Op(IF t.t = "add" THEN "+" ELSE "-")>> \o Rn(t.b, 2)
          [] t.t \in {"mul", "div"} -> Rn(t.a, 2) \o <<E!Op(IF t.t = "mul" THEN "*" ELSE "/")>> \o Rn(t.b, 4)
  IN IF Lvl(t) < m THEN <<E!Op("(")>> \o body \o <<E!Op(")")>> ELSE body
Render(t) == Rn(t, 1)
\* what the adapter joins with TABs; "[" and "]" travel as LB / RB
Spell(tok) == IF tok.k = "num" THEN ToString(tok.q[1]) ELSE IF tok.s = "[" THEN "LB" ELSE IF tok.s = "]" THEN "RB" ELSE tok.s
Spelling(t) == LET r == Render(t) IN Tup([i \in 1..Len(r) |-> Spell(r[i])], Len(r))
LawRenderParses(t) == E!Parse(Render(t)) = [c |-> "tree", t |-> t]
LawOnlyNaturalLiterals(t) == \A tok \in {Render(t)[i] : i \in 1..Len(Render(t))} : tok.k = "num" => (tok.q[2] = 1 /\ tok.q[1] >= 0)

\* substitution of terms for holes
RECURSIVE Subst(_, _)
Subst(t, env) ==
  CASE t.t = "var" -> IF t.n \in DOMAIN env THEN env[t.n] ELSE t
    [] t.t = "num" -> t
    [] t.t = "neg" -> [t EXCEPT !.a = Subst(t.a, env)]
    [] t.t = "call" -> [t EXCEPT !.args = Tup([i \in 1..Len(t.args) |-> Subst(t.args[i], env)], Len(t.args))]
    [] t.t = "arr" -> [t EXCEPT !.elems = Tup([i \in 1..Len(t.elems) |-> Subst(t.elems[i], env)], Len(t.elems))]
    [] OTHER -> [t EXCEPT !.a = Subst(t.a, env), !.b = Subst(t.b, env)]

\* ------------------------------------------------------------------ symbolic walk: status and exact value of a term
(* Ev(t, tb) = [s, ex, v]:  s = "val" (a value is required), "valOrErr", "err" (an error is required: some sub-term
   must raise);  ex = the value is a Gaussian rational known exactly, namely v.  An argument that is not known exactly
   (a transcendental value) is taken to be inside the domain of the function applied to it. *)
Worse(a, b) == IF a = "err" \/ b = "err" THEN "err" ELSE IF a = "valOrErr" \/ b = "valOrErr" THEN "valOrErr" ELSE "val"
RX(s, v) == [s |-> s, ex |-> TRUE, v |-> v]
RI(s) == [s |-> s, ex |-> FALSE, v |-> GZ]
IsSmallInt(z) == IsRe(z) /\ z[1][2] = 1 /\ Abs(z[1][1]) <= 8
RECURSIVE Ev(_, _)
Ev(t, tb) ==
  CASE t.t = "num" -> RX("val", GR(t.v))
    [] t.t = "var" -> IF t.n \in DOMAIN ConstExact THEN RX("val", ConstExact[t.n]) ELSE RI("val")
    [] t.t = "neg" -> LET a == Ev(t.a, tb) IN IF a.ex THEN RX(a.s, A!GNeg(a.v)) ELSE a
    [] t.t \in {"add", "sub"} ->
         LET a == Ev(t.a, tb)  b == Ev(t.b, tb)  s == Worse(a.s, b.s) IN
         IF a.ex /\ b.ex /\ s # "err" THEN RX(s, IF t.t = "add" THEN A!GAdd(a.v, b.v) ELSE A!GSub(a.v, b.v)) ELSE RI(s)
    [] t.t = "mul" ->
         LET a == Ev(t.a, tb)  b == Ev(t.b, tb)  s == Worse(a.s, b.s) IN
         IF a.ex /\ b.ex /\ s # "err" /\ SafeMul(a.v, b.v) THEN RX(s, A!GMul(a.v, b.v)) ELSE RI(s)
    [] t.t = "div" ->
         LET a == Ev(t.a, tb)  b == Ev(t.b, tb)  s == Worse(a.s, b.s) IN
         IF b.ex /\ GIs0(b.v) THEN RI("err")
         ELSE IF a.ex /\ b.ex /\ s # "err" /\ SafeDiv(a.v, b.v) THEN RX(s, GDivS(a.v, b.v)) ELSE RI(s)
    [] t.t = "pow" ->
         LET a == Ev(t.a, tb)  b == Ev(t.b, tb)  s == Worse(a.s, b.s) IN
         IF a.ex /\ b.ex /\ s # "err" /\ IsSmallInt(b.v) /\ SmallG(a.v) THEN
            LET k == IF t.neg THEN -b.v[1][1] ELSE b.v[1][1] IN
            IF k >= 0 THEN RX(s, A!GIPow(a.v, k))
            ELSE IF GIs0(a.v) THEN RI("err")
            ELSE RX(s, GInvS(A!GIPow(a.v, -k)))
         ELSE RI(s)
    [] t.t = "call" ->
         LET n == Len(t.args)
             as == Tup([i \in 1..n |-> Ev(t.args[i], tb)], n)
             RECURSIVE W(_)
             W(i) == IF i = 0 THEN "val" ELSE Worse(W(i - 1), as[i].s)
             s0 == W(n) IN
         IF s0 = "err" THEN RI("err")
         ELSE IF \A i \in 1..n : as[i].ex THEN
            LET o == Outcome(tb, t.n, Tup([i \in 1..n |-> Sc(as[i].v)], n))
                s == Worse(s0, Allowed(o)) IN
            IF o.k = "exact" /\ A!IsScalar(o.v) THEN RX(s, o.v.e[1]) ELSE RI(s)
         ELSE IF ~Known(tb, t.n) \/ ~CountFits(tb, t.n, n) THEN RI("err")
         ELSE IF tb = "override" THEN RX(s0, GI(Marker(t.n)))
         ELSE RI(s0)
    [] OTHER -> RI("val")                        \* array literals do not occur inside identities

\* every call in a term names a function of the table with an acceptable number of arguments
RECURSIVE WellSorted(_, _)
WellSorted(t, tb) ==
  CASE t.t \in {"num", "var"} -> TRUE
    [] t.t = "neg" -> WellSorted(t.a, tb)
    [] t.t = "call" -> /\ Known(tb, t.n) /\ CountFits(tb, t.n, Len(t.args))
                       /\ \A i \in 1..Len(t.args) : WellSorted(t.args[i], tb)
    [] t.t = "arr" -> \A i \in 1..Len(t.elems) : WellSorted(t.elems[i], tb)
    [] OTHER -> WellSorted(t.a, tb) /\ WellSorted(t.b, tb)
FuncsIn(t) == E!UFuncs(t)

\* ------------------------------------------------------------------ (c) identities as data
(* [id, l, r, rel, nv, g]:  l, r terms with holes Z (and W when nv = 2);
   rel  "eq"      l = r                                   (1e-9 relative, measured in the adapter)
        "rege0"   Re(l) >= 0                              (r unused)
        "imrange" -pi < Im(l) <= pi                       (r unused)
   g = guard on the point: which points of the grid the identity is instantiated at (see Guard); guards keep an
       identity away from points where it holds only on one branch (left inverses) or where the two sides cancel
       catastrophically in floating point (differences of squares next to a pole). *)
Id(id, l, r, g) == [id |-> id, l |-> l, r |-> r, rel |-> "eq", nv |-> 1, g |-> g]
Id2(id, l, r, g) == [id |-> id, l |-> l, r |-> r, rel |-> "eq", nv |-> 2, g |-> g]
Rel(id, l, rel, g) == [id |-> id, l |-> l, r |-> NatT(0), rel |-> rel, nv |-> 1, g |-> g]
Sp(id, l, r) == [id |-> id, l |-> l, r |-> r, rel |-> "eq", nv |-> 0, g |-> "any"]
fz(f) == F1(f, ZZ)
Sq(t) == PowT(t, NatT(2))
N1 == NatT(1)
N2 == NatT(2)
RoundTrips == ("arcsin" :> "sin" @@ "arccos" :> "cos" @@ "arctan" :> "tan" @@ "arcsec" :> "sec" @@ "arccsc" :> "csc"
               @@ "arccot" :> "cot" @@ "arcsinh" :> "sinh" @@ "arccosh" :> "cosh" @@ "arctanh" :> "tanh"
               @@ "arcsech" :> "sech" @@ "arccsch" :> "csch" @@ "arccoth" :> "coth")
Inverses == DOMAIN RoundTrips
InvSeq == <<"arcsin", "arccos", "arctan", "arcsec", "arccsc", "arccot",
            "arcsinh", "arccosh", "arctanh", "arcsech", "arccsch", "arccoth">>
\* where the left inverse g(f(x)) = x holds on the reals under every textbook convention
LeftInvGuard == ("arcsin" :> "abs_le_3_2" @@ "arccos" :> "real_0_3" @@ "arctan" :> "abs_le_3_2" @@ "arcsec" :> "real_0_3_2"
                 @@ "arccsc" :> "real_pos_3_2" @@ "arccot" :> "real_pos_3_2" @@ "arcsinh" :> "real_mod"
                 @@ "arccosh" :> "real_nonneg_mod" @@ "arctanh" :> "real_mod" @@ "arcsech" :> "real_nonneg_mod"
                 @@ "arccsch" :> "real_mod" @@ "arccoth" :> "real_mod")

Definitional == <<
  \* reciprocal definitions
  Id("recip_sec", MulT(fz("sec"), fz("cos")), N1, "any"),
  Id("recip_csc", MulT(fz("csc"), fz("sin")), N1, "any"),
  Id("recip_cot", MulT(fz("cot"), fz("tan")), N1, "any"),
  Id("recip_sech", MulT(fz("sech"), fz("cosh")), N1, "any"),
  Id("recip_csch", MulT(fz("csch"), fz("sinh")), N1, "any"),
  Id("recip_coth", MulT(fz("coth"), fz("tanh")), N1, "any"),
  \* quotient definitions
  Id("quot_tan", MulT(fz("tan"), fz("cos")), fz("sin"), "any"),
  Id("quot_cot", MulT(fz("cot"), fz("sin")), fz("cos"), "any"),
  Id("quot_tanh", MulT(fz("tanh"), fz("cosh")), fz("sinh"), "any"),
  Id("quot_coth", MulT(fz("coth"), fz("sinh")), fz("cosh"), "any"),
  \* Pythagorean identities (moderate points: the two squares cancel)
  Id("pyth_sin", AddT(Sq(fz("sin")), Sq(fz("cos"))), N1, "mod"),
  Id("pyth_sec", SubT(Sq(fz("sec")), Sq(fz("tan"))), N1, "mod"),
  Id("pyth_csc", SubT(Sq(fz("csc")), Sq(fz("cot"))), N1, "mod_nt"),
  Id("pyth_cosh", SubT(Sq(fz("cosh")), Sq(fz("sinh"))), N1, "mod"),
  Id("pyth_sech", AddT(Sq(fz("sech")), Sq(fz("tanh"))), N1, "mod"),
  Id("pyth_csch", SubT(Sq(fz("coth")), Sq(fz("csch"))), N1, "mod_nt"),
  \* exponential definitions of the circular and hyperbolic functions
  Id("euler", F1("exp", MulT(Ivar, ZZ)), AddT(fz("cos"), MulT(Ivar, fz("sin"))), "mod"),
  Id("cosh_def", MulT(N2, fz("cosh")), AddT(fz("exp"), F1("exp", NegT(ZZ))), "mod"),
  Id("sinh_def", MulT(N2, fz("sinh")), SubT(fz("exp"), F1("exp", NegT(ZZ))), "mod"),
  Id("cos_cosh", F1("cos", MulT(Ivar, ZZ)), fz("cosh"), "mod"),
  Id("sin_sinh", F1("sin", MulT(Ivar, ZZ)), MulT(Ivar, fz("sinh")), "mod"),
  Id("odd_sin", F1("sin", NegT(ZZ)), NegT(fz("sin")), "any"),
  Id("even_cos", F1("cos", NegT(ZZ)), fz("cos"), "any"),
  \* exponential, logarithms, powers, square root
  Id2("exp_add", F1("exp", AddT(ZZ, WW)), MulT(fz("exp"), F1("exp", WW)), "mod"),
  Id("exp_ln", F1("exp", fz("ln")), ZZ, "any"),
  Id("ln_exp", F1("ln", fz("exp")), ZZ, "strip"),
  Rel("ln_branch", fz("ln"), "imrange", "any"),
  Id("log10_def", MulT(fz("log10"), F1("ln", NatT(10))), fz("ln"), "any"),
  Id("log2_def", MulT(fz("log2"), F1("ln", N2)), fz("ln"), "any"),
  Id("pow10_log10", PowT(NatT(10), fz("log10")), ZZ, "any"),
  Id("pow2_log2", PowT(N2, fz("log2")), ZZ, "any"),
  Id("log10_pow", F1("log10", PowT(NatT(10), ZZ)), ZZ, "int6"),
  Id("log2_pow", F1("log2", PowT(N2, ZZ)), ZZ, "int6"),
  Id("exp_pow", PowT(ET, ZZ), fz("exp"), "mod"),
  Id2("ln_mul", F1("ln", MulT(ZZ, WW)), AddT(fz("ln"), F1("ln", WW)), "realpos2"),
  Id("sqrt_sq", Sq(fz("sqrt")), ZZ, "any"),
  Rel("sqrt_branch", fz("sqrt"), "rege0", "any"),
  Id("sqrt_of_sq", F1("sqrt", Sq(ZZ)), ZZ, "real_nonneg_mod"),
  Id2("sqrt_mul", MulT(fz("sqrt"), F1("sqrt", WW)), F1("sqrt", MulT(ZZ, WW)), "realpos2"),
  Id("abs_sq", Sq(fz("abs")), MulT(ZZ, F1("conj", ZZ)), "mod"),
  Id("re_im", AddT(F1("re", ZZ), MulT(Ivar, F1("im", ZZ))), ZZ, "any"),
  \* arctan2 through its definition: the point (x, y) is r (cos t, sin t)
  Id2("at2_cos", MulT(F1("cos", F2("arctan2", ZZ, WW)), F1("sqrt", AddT(Sq(ZZ), Sq(WW)))), ZZ, "real2"),
  Id2("at2_sin", MulT(F1("sin", F2("arctan2", ZZ, WW)), F1("sqrt", AddT(Sq(ZZ), Sq(WW)))), WW, "real2"),
  Id2("at2_tan", MulT(F1("tan", F2("arctan2", ZZ, WW)), ZZ), WW, "real2_xnz")
>>
RoundTripIds == Tup([k \in 1..12 |-> Id("rt_" \o InvSeq[k], F1(RoundTrips[InvSeq[k]], fz(InvSeq[k])), ZZ, "any")], 12)
LeftInvIds == Tup([k \in 1..12 |-> Id("li_" \o InvSeq[k], F1(InvSeq[k], fz(RoundTrips[InvSeq[k]])),
                                     ZZ, LeftInvGuard[InvSeq[k]])], 12)

PiOver(n) == DivT(PiT, NatT(n))
Half == DivT(N1, N2)
N0 == NatT(0)
SpecialValues == <<
  Sp("sin_0", F1("sin", N0), N0), Sp("cos_0", F1("cos", N0), N1), Sp("tan_0", F1("tan", N0), N0),
  Sp("sec_0", F1("sec", N0), N1), Sp("exp_0", F1("exp", N0), N1), Sp("sinh_0", F1("sinh", N0), N0),
  Sp("cosh_0", F1("cosh", N0), N1), Sp("tanh_0", F1("tanh", N0), N0), Sp("sech_0", F1("sech", N0), N1),
  Sp("ln_1", F1("ln", N1), N0), Sp("log10_1", F1("log10", N1), N0), Sp("log2_1", F1("log2", N1), N0),
  Sp("sqrt_0", F1("sqrt", N0), N0), Sp("sqrt_1", F1("sqrt", N1), N1), Sp("sqrt_4", F1("sqrt", NatT(4)), N2),
  Sp("sqrt_m1", F1("sqrt", NegT(N1)), Ivar), Sp("sqrt_m4", F1("sqrt", NegT(NatT(4))), MulT(N2, Ivar)),
  Sp("ln_m1", F1("ln", NegT(N1)), MulT(Ivar, PiT)), Sp("ln_e", F1("ln", ET), N1), Sp("exp_1", F1("exp", N1), ET),
  Sp("exp_ipi", F1("exp", MulT(Ivar, PiT)), NegT(N1)), Sp("exp_ipi2", F1("exp", MulT(Ivar, PiOver(2))), Ivar),
  Sp("log10_1000", F1("log10", NatT(1000)), NatT(3)), Sp("log2_8", F1("log2", NatT(8)), NatT(3)),
  Sp("log10_tenth", F1("log10", DivT(N1, NatT(10))), NegT(N1)),
  Sp("sin_pi2", F1("sin", PiOver(2)), N1), Sp("sin_pi6", F1("sin", PiOver(6)), Half), Sp("cos_pi3", F1("cos", PiOver(3)), Half),
  Sp("cos_pi", F1("cos", PiT), NegT(N1)), Sp("sin_pi", F1("sin", PiT), N0), Sp("tan_pi4", F1("tan", PiOver(4)), N1),
  Sp("cot_pi4", F1("cot", PiOver(4)), N1), Sp("sec_pi3", F1("sec", PiOver(3)), N2), Sp("csc_pi6", F1("csc", PiOver(6)), N2),
  Sp("cot_pi2", F1("cot", PiOver(2)), N0), Sp("csc_pi2", F1("csc", PiOver(2)), N1),
  Sp("arcsin_0", F1("arcsin", N0), N0), Sp("arcsin_1", F1("arcsin", N1), PiOver(2)),
  Sp("arcsin_m1", F1("arcsin", NegT(N1)), NegT(PiOver(2))), Sp("arcsin_half", F1("arcsin", Half), PiOver(6)),
  Sp("arccos_1", F1("arccos", N1), N0), Sp("arccos_0", F1("arccos", N0), PiOver(2)),
  Sp("arccos_m1", F1("arccos", NegT(N1)), PiT), Sp("arccos_half", F1("arccos", Half), PiOver(3)),
  Sp("arctan_0", F1("arctan", N0), N0), Sp("arctan_1", F1("arctan", N1), PiOver(4)),
  Sp("arctan_m1", F1("arctan", NegT(N1)), NegT(PiOver(4))),
  Sp("arcsec_1", F1("arcsec", N1), N0), Sp("arcsec_2", F1("arcsec", N2), PiOver(3)),
  Sp("arccsc_1", F1("arccsc", N1), PiOver(2)), Sp("arccsc_2", F1("arccsc", N2), PiOver(6)),
  Sp("arccot_1", F1("arccot", N1), PiOver(4)), Sp("arccot_0", F1("arccot", N0), PiOver(2)),
  Sp("arcsinh_0", F1("arcsinh", N0), N0), Sp("arccosh_1", F1("arccosh", N1), N0), Sp("arctanh_0", F1("arctanh", N0), N0),
  Sp("arcsech_1", F1("arcsech", N1), N0),
  Sp("arcsinh_def", F1("arcsinh", N1), F1("ln", AddT(N1, F1("sqrt", N2)))),
  Sp("arccosh_def", F1("arccosh", N2), F1("ln", AddT(N2, F1("sqrt", NatT(3))))),
  Sp("arctanh_def", MulT(N2, F1("arctanh", Half)), F1("ln", NatT(3))),
  Sp("arccoth_def", MulT(N2, F1("arccoth", N2)), F1("ln", NatT(3))),
  Sp("arccsch_def", F1("arccsch", N1), F1("ln", AddT(N1, F1("sqrt", N2)))),
  Sp("arcsech_def", F1("arcsech", Half), F1("ln", AddT(N2, F1("sqrt", NatT(3))))),
  Sp("i_sq", MulT(Ivar, Ivar), NegT(N1)), Sp("j_sq", MulT(Vr("j"), Vr("j")), NegT(N1)), Sp("i_is_j", Ivar, Vr("j")),
  Sp("i_pow", PowT(Ivar, NatT(3)), NegT(Ivar)),
  Sp("abs_m3", F1("abs", NegT(NatT(3))), NatT(3)), Sp("abs_3_4i", F1("abs", AddT(NatT(3), MulT(NatT(4), Ivar))), NatT(5)),
  Sp("floor_e", F1("floor", ET), N2), Sp("ceil_pi", F1("ceil", PiT), NatT(4)), Sp("floor_mpi", F1("floor", NegT(PiT)), NegT(NatT(4))),
  Sp("max_e_pi", Fn("max", <<ET, PiT, NatT(3)>>), PiT), Sp("min_e_pi", Fn("min", <<ET, PiT, NatT(3)>>), ET),
  Sp("at2_diag", F2("arctan2", N1, N1), PiOver(4)), Sp("at2_up", F2("arctan2", N0, N1), PiOver(2)),
  Sp("at2_left", F2("arctan2", NegT(N1), N0), PiT), Sp("at2_down", F2("arctan2", N0, NegT(N1)), NegT(PiOver(2))),
  Sp("at2_q3", F2("arctan2", NegT(N1), NegT(N1)), NegT(MulT(NatT(3), PiOver(4)))),
  Sp("at2_sqrt3", F2("arctan2", N1, F1("sqrt", NatT(3))), PiOver(3)),
  Sp("kron_pi", F2("kronecker", PiT, PiT), N1), Sp("kron_e_pi", F2("kronecker", ET, PiT), N0)
>>
Identities == Definitional \o RoundTripIds \o LeftInvIds \o SpecialValues
IdIndex(id) == CHOOSE k \in 1..Len(Identities) : Identities[k].id = id
ASSUME \A a, b \in 1..Len(Identities) : Identities[a].id = Identities[b].id => a = b

\* guards: which points an identity is instantiated at
Mod3(q) == Leq(RAbs(q), FromInt(3))
Guard(g, z, w) ==
  LET x == z[1] IN
  CASE g = "any" -> TRUE
    [] g = "mod" -> Mod3(z[1]) /\ Mod3(z[2]) /\ Mod3(w[1]) /\ Mod3(w[2])
    \* moderate and not tiny: the difference of two squares of size 1/|z|^2 loses 2 log10(1/|z|) digits
    [] g = "mod_nt" -> Mod3(z[1]) /\ Mod3(z[2]) /\ (GIs0(z) \/ Leq(Q(1, 100), RAbs(z[1])) \/ Leq(Q(1, 100), RAbs(z[2])))
    [] g = "strip" -> Mod3(z[1]) /\ Mod3(z[2])                              \* |Im z| <= 3 < pi and no overflow
    [] g = "int6" -> IsRe(z) /\ x[2] = 1 /\ Abs(x[1]) <= 6
    [] g = "real_mod" -> IsRe(z) /\ Mod3(x)
    [] g = "real_nonneg_mod" -> IsRe(z) /\ Mod3(x) /\ x[1] >= 0
    [] g = "abs_le_3_2" -> IsRe(z) /\ Leq(RAbs(x), Q(3, 2))
    [] g = "real_0_3" -> IsRe(z) /\ x[1] >= 0 /\ Leq(x, FromInt(3))
    [] g = "real_0_3_2" -> IsRe(z) /\ x[1] >= 0 /\ Leq(x, Q(3, 2))
    [] g = "real_pos_3_2" -> IsRe(z) /\ x[1] > 0 /\ Leq(x, Q(3, 2))
    [] g = "realpos2" -> IsRe(z) /\ IsRe(w) /\ x[1] > 0 /\ w[1][1] > 0 /\ Mod3(x) /\ Mod3(w[1])
    [] g = "real2" -> IsRe(z) /\ IsRe(w) /\ Mod3(x) /\ Mod3(w[1])
    [] g = "real2_xnz" -> IsRe(z) /\ IsRe(w) /\ Mod3(x) /\ Mod3(w[1]) /\ x[1] # 0

(* one identity at one point: both sides as terms, their statuses, whether the relation is to be checked, and (where
   both sides are exactly computable) whether the exact layer confirms the relation *)
Instance(k, z, w, tb) ==
  LET d == Identities[k]
      env == ("Z" :> GaussT(z) @@ "W" :> GaussT(w))
      l == Subst(d.l, env)
      r == Subst(d.r, env)
      el == Ev(l, tb)
      er == IF d.rel = "eq" THEN Ev(r, tb) ELSE RX("val", GZ) IN
  [id |-> d.id, rel |-> d.rel, l |-> l, r |-> r, sl |-> el.s, sr |-> er.s,
   lx |-> [ex |-> el.ex /\ el.s = "val", v |-> el.v], rx |-> [ex |-> d.rel = "eq" /\ er.ex /\ er.s = "val", v |-> er.v],
   holds |-> tb # "override",          \* the relation is a fact about the textbook functions, not about an author's
   exact |-> el.ex /\ er.ex /\ el.s = "val" /\ er.s = "val",
   exactHolds |-> IF tb # "override" /\ el.ex /\ er.ex /\ el.s = "val" /\ er.s = "val"
                  THEN (CASE d.rel = "eq" -> el.v = er.v
                          [] d.rel = "rege0" -> el.v[1][1] >= 0
                          [] OTHER -> TRUE)
                  ELSE TRUE]

\* ------------------------------------------------------------------ what an observation must look like (trace records)
(* obs for a call:  [k |-> "val" | "err" | "bad", sf (error is student-facing), sh (shape of the value), fin (all entries
   finite), warn (a numpy warning was emitted), real, sgn (-1, 0, 1: sign of the real part beyond 1e-9),
   q (entries as exact Gaussian rationals <<<<n, d>>, <<n, d>>>>, or <<>> when some entry is not within 1e-9 of a fraction
   with a small denominator), sq (the square of a real value as <<n, d>>, or <<>>), mu (value / pi in units of 1e-6)] *)
GoodErr(o) == o.k = "err" /\ o.sf /\ ~o.warn
GoodVal(o) == o.k = "val" /\ o.fin /\ ~o.warn
\* (sgn is taken with a band of 1e-9 around 0: exp(-1000) = 0.0 is a positive number as far as floats can tell)
SignFits(want, sgn) == CASE want = "pos" -> sgn >= 0 [] want = "neg" -> sgn <= 0 [] want = "zero" -> sgn = 0
                         [] OTHER -> TRUE
MicroIn(mu, iv) == Leq(Mul(iv[1], FromInt(1000000)), FromInt(mu + 1)) /\ Leq(FromInt(mu - 1), Mul(iv[2], FromInt(1000000)))
ValueFits(e, o) ==
  CASE e.k \in {"exact", "silent"} -> o.sh = e.v.sh /\ o.q = e.v.e
    [] e.k = "sqrtof" -> o.sh = <<>> /\ o.real /\ o.sgn >= 0 /\ o.sq = <<e.q>>
    [] e.k = "angle" -> o.sh = <<>> /\ o.real /\ MicroIn(o.mu, <<e.lo, e.hi>>)
    [] e.k = "defined" -> /\ o.sh = <<>>
                          /\ e.real => (o.real /\ SignFits(e.sign, o.sgn)
                                        /\ (e.ranges # {} => \E iv \in e.ranges : MicroIn(o.mu, iv)))
    [] e.k = "offreal" -> o.sh = <<>>
    [] e.k = "underflow" -> o.sh = <<>> /\ o.sgn = 0
    [] e.k = "silentsqrt" -> o.sh = <<>> /\ o.real /\ o.sgn >= 0 /\ o.sq = <<e.q>>
    [] e.k = "numberlike" -> TRUE
    [] OTHER -> FALSE
Accepts(e, o) ==
  CASE Allowed(e) = "err" -> GoodErr(o)
    [] Allowed(e) = "val" -> GoodVal(o) /\ ValueFits(e, o)
    [] OTHER -> GoodErr(o) \/ (GoodVal(o) /\ ValueFits(e, o))

(* obs for an identity:  [l, r: "val" | "err" | "bad" per side (bad: nan, inf, warning, non-scalar, not student-facing),
   close (the two values agree to the tolerance), rege0, imin (-pi < Im <= pi)] *)
SideFits(s, o) == CASE s = "err" -> o = "err" [] s = "val" -> o = "val" [] OTHER -> o \in {"val", "err"}
\* lq, rq: the value of a side as an exact Gaussian rational <<g>> (<<>> when it is not within 1e-9 of a small fraction)
AcceptsIdent(inst, o) ==
  /\ SideFits(inst.sl, o.l)
  /\ (inst.rel = "eq") => SideFits(inst.sr, o.r)
  /\ (inst.holds /\ inst.rel = "eq" /\ o.l = "val" /\ o.r = "val") => o.close
  /\ (inst.holds /\ inst.rel = "rege0" /\ o.l = "val") => o.rege0
  /\ (inst.holds /\ inst.rel = "imrange" /\ o.l = "val") => o.imin
  /\ (~inst.holds /\ inst.lx.ex /\ o.l = "val") => o.lq = <<inst.lx.v>>
  /\ (~inst.holds /\ inst.rx.ex /\ o.r = "val") => o.rq = <<inst.rx.v>>

\* ------------------------------------------------------------------ evaluation contexts
(* A student's text does not reach the function tables by one road only.  The CONTEXT is a dimension of the model:
     "eval" / "eval_inf"     evaluator(...) with allow_inf False / True
     "fg" "ng"               FormulaGrader / NumericalGrader with default options
     "fg_inf" "ng_inf"       the same with allow_inf=True
     "mg" "mg_supp" "mg_nomis"  MatrixGrader: default, suppress_matrix_messages=True, answer_shape_mismatch not raised
     "interval"              an endpoint of an IntervalGrader answer (default subgrader: NumericalGrader(allow_inf=True))
     "sumlimit"              a limit of a SumGrader answer (evaluated with allow_inf=True)
   The verdict for a call of a SCALAR built-in with numbers as arguments does not depend on the context:
   outside the domain, on a pole, with the wrong number of arguments or an unknown name a student-facing error is
   required everywhere ("err"); inside the domain the context has to come to a result ("val": a value from evaluator,
   a grading result from a grader); where a value or an error is tolerated anything but a foreign exception ("any").
   Decision on allow_inf (docs/grading_math/formula_grader.md: it "allows expressions to evaluate to infinity (or
   negative infinity), and also makes the constant infty available"): with allow_inf a quantity that IS infinite as far
   as floats can tell -- the constant infty, an overflow such as exp(1000) -- may be delivered as inf or still be
   refused ("any"); a pole of a function (ln 0, cot 0, arctanh 1, ...) has no value, not even an infinite one with a
   definite sign, and stays an error.  (suppress_matrix_messages is documented to silence messages about matrices;
   calls with array arguments are therefore not part of this dimension.) *)
Contexts == {"eval", "eval_inf", "fg", "ng", "fg_inf", "ng_inf", "mg", "mg_supp", "mg_nomis", "interval", "sumlimit"}
CtxTable(x) == IF x \in {"mg", "mg_supp", "mg_nomis"} THEN "matrix" ELSE "formula"
CtxAllowsInf(x) == x \in {"eval_inf", "fg_inf", "ng_inf", "interval", "sumlimit"}
CtxOneArgOnly(x) == x \in {"interval", "sumlimit"}         \* the text is one item of a comma-separated input
CtxVerdict(x, f, args) ==
  LET o == Outcome(CtxTable(x), f, args) IN
  IF Allowed(o) = "val" THEN (IF x = "sumlimit" THEN "any" ELSE "val")    \* (a limit also has to be an integer)
  ELSE IF Allowed(o) = "valOrErr" THEN "any"
  ELSE IF o.why = "overflow" /\ CtxAllowsInf(x) THEN "any"
  ELSE "err"
\* obs: "err" a student-facing error was raised; "val" evaluator returned a finite scalar; "graded" a grader returned a
\* result; "inf" evaluator returned an infinite value; "bad" anything else (foreign exception, nan, warning)
AcceptsCtx(v, obs) == CASE v = "err" -> obs = "err" [] v = "val" -> obs \in {"val", "graded"} [] OTHER -> obs # "bad"
\* error-ness is a property of the call, not of the road it travels
LawContext(f, args) ==
  LET allScalar == \A i \in 1..Len(args) : A!IsScalar(args[i]) IN
  (allScalar /\ (f \in DOMAIN FormulaSig \/ f \notin DOMAIN MatrixSig)) =>
     /\ \A x \in Contexts : CtxVerdict(x, f, args) \in {"err", "val", "any"}
     /\ \A x, y \in Contexts : (CtxVerdict(x, f, args) = "err" /\ CtxVerdict(y, f, args) # "err") =>
                                  (CtxAllowsInf(y) /\ Outcome("formula", f, args) = MustErr("overflow"))
     /\ \A x \in Contexts : (~CtxAllowsInf(x)) => (CtxVerdict(x, f, args) = "err" <=> Allowed(Outcome("formula", f, args)) = "err")
     \* wrapping the call in a total function does not turn an error into a value: the symbolic walk agrees
     /\ \A tb \in Tables : (Allowed(Outcome(tb, f, args)) = "err") =>
           Ev(F1("arctan", Fn(f, Tup([i \in 1..Len(args) |-> ArrayT(args[i])], Len(args)))), tb).s = "err"

\* ------------------------------------------------------------------ history independence
(* The outcome of evaluating a text depends on the text and on the scope handed in, not on which scope evaluated that
   text before.  Reference: a history is a sequence of scopes in which one and the same text is evaluated; the allowed
   outcome of step i is per[h[i]] (per = the outcome of the text under each scope), whatever came before.
   An implementation may remember results.  MemoRun models the three ways of doing so: "none"; "scope" (remember per
   text and scope); "text" (remember per text only -- the first scope to evaluate a text fixes its value for all later
   ones).  TLC checks that "none" and "scope" refine the reference on every history and that "text" does not (vacuity
   guard: MC_BuiltinFuncs_order_flaw.cfg has to violate LawMemoRefines). *)
RefRun(h, per) == Tup([i \in 1..Len(h) |-> per[h[i]]], Len(h))
RECURSIVE MemoSteps(_, _, _, _, _)
MemoSteps(h, per, policy, i, memo) ==          \* memo: function from the keys remembered so far to outcomes
  IF i > Len(h) THEN <<>>
  ELSE LET key == IF policy = "text" THEN "t" ELSE h[i]
           hit == policy # "none" /\ key \in DOMAIN memo
           res == IF hit THEN memo[key] ELSE per[h[i]] IN
       <<res>> \o MemoSteps(h, per, policy, i + 1, IF hit \/ policy = "none" THEN memo ELSE (key :> res) @@ memo)
MemoRun(h, per, policy) == MemoSteps(h, per, policy, 1, <<>>)
LawMemoRefines(h, per, policy) == MemoRun(h, per, policy) = RefRun(h, per)
\* the reference itself: equal scopes get equal outcomes at any two positions of any two histories, and a history of
\* length one is the fresh evaluation
LawHistoryIndependent(h1, h2, per) ==
  /\ \A i \in 1..Len(h1), j \in 1..Len(h2) : h1[i] = h2[j] => RefRun(h1, per)[i] = RefRun(h2, per)[j]
  /\ \A i \in 1..Len(h1) : RefRun(h1, per)[i] = RefRun(<<h1[i]>>, per)[1]

\* ------------------------------------------------------------------ laws about the specification itself
\* exact layer, scalars
LawFloorCeil(q) == LET f == FloorQ(q)  c == CeilQ(q) IN
  /\ Leq(f, q) /\ Lt(q, Add(f, One)) /\ Leq(q, c) /\ Lt(Sub(c, One), q)
  /\ c = Neg(FloorQ(Neg(q)))
  /\ (q[2] = 1) <=> (f = c)
LawMinMax(xs) == LET lo == MinOf(xs)  hi == MaxOf(xs) IN
  /\ \A i \in 1..Len(xs) : Leq(lo, xs[i]) /\ Leq(xs[i], hi)
  /\ \E i \in 1..Len(xs) : xs[i] = lo
  /\ \E i \in 1..Len(xs) : xs[i] = hi
  /\ Len(xs) = 2 => Add(lo, hi) = Add(xs[1], xs[2])
  /\ MinOf(xs) = Neg(MaxOf(Tup([i \in 1..Len(xs) |-> Neg(xs[i])], Len(xs))))
LawConj(z) == LET c == A!GConj(z) IN
  /\ A!GConj(c) = z
  /\ A!GAdd(z, c) = GR(Mul(FromInt(2), z[1]))
  /\ A!GSub(z, c) = <<Zero, Mul(FromInt(2), z[2])>>
  /\ A!GMul(z, c) = GR(A!GAbs2(z))
LawAbsMultiplicative(z, w) == A!GAbs2(A!GMul(z, w)) = Mul(A!GAbs2(z), A!GAbs2(w))
LawUnit == A!GMul(II, II) = GI(-1) /\ A!GIPow(II, 4) = GI(1)
ASSUME LawUnit
\* arctan2: symmetries of the octant table, and the exact angles have the right tangent / are on the right axis
NegIv(iv) == <<Neg(iv[2]), Neg(iv[1])>>
LawAngle(x, y) == (x[1] # 0 \/ y[1] # 0) =>
  LET a == AngleOf(x, y) IN
  /\ Leq(a[1], a[2]) /\ Leq(Neg(One), a[1]) /\ Leq(a[2], One)                      \* inside (-pi, pi]:
  /\ (a[1] = a[2]) => a[1] # Neg(One)                                               \* -pi itself is never the answer
  /\ Leq(Sub(a[2], a[1]), Q(1, 4))
  /\ (y[1] # 0 \/ x[1] > 0) => AngleOf(x, Neg(y)) = NegIv(a)                       \* mirror in the x axis
  /\ (x[1] > 0 /\ y[1] > 0) => AngleOf(y, x) = <<Sub(H, a[2]), Sub(H, a[1])>>      \* swapping the arguments mirrors in the diagonal
  /\ (y[1] > 0) => AngleOf(Neg(x), y) = <<Sub(One, a[2]), Sub(One, a[1])>>         \* mirror in the y axis
  /\ (a[1] = a[2]) <=> (x[1] = 0 \/ y[1] = 0 \/ RAbs(x) = RAbs(y))
  /\ (a[1] = a[2] /\ a[1] \in {Q(1, 4), Q(-3, 4)}) => y = x                        \* tan = 1
  /\ (a[1] = a[2] /\ a[1] \in {Q(-1, 4), Q(3, 4)}) => y = Neg(x)                   \* tan = -1
  /\ (a[1] = a[2] /\ a[1] \in {Zero, One}) => (y[1] = 0 /\ (a[1] = Zero <=> x[1] > 0))
  /\ (a[1] = a[2] /\ a[1] \in {H, Neg(H)}) => (x[1] = 0 /\ (a[1] = H <=> y[1] > 0))
  /\ (y[1] > 0 => Lt(Zero, a[2]) /\ Leq(Zero, a[1])) /\ (y[1] < 0 => Lt(a[1], Zero) /\ Leq(a[2], Zero))
  /\ (x[1] > 0 => Leq(RAbs(a[1]), H) /\ Leq(RAbs(a[2]), H)) /\ (x[1] < 0 => Leq(H, RAbs(a[1])) /\ Leq(H, RAbs(a[2])))
LawKronecker(z, w) == LET k(a, b) == Apply("formula", "kronecker", <<Sc(a), Sc(b)>>).v.e[1] IN
  /\ k(z, w) = k(w, z) /\ k(z, z) = GI(1) /\ k(z, w) \in {GI(0), GI(1)} /\ (k(z, w) = GI(1) <=> z = w)
\* exact layer, arrays
LawRevAxes(t) == /\ RevAxes3(RevAxes3(t)) = t /\ Norm2(RevAxes3(t)) = Norm2(t) /\ A!WellFormed(RevAxes3(t))
                 \* entry (i, j, k) of t is entry (k, j, i) of the reversed array
                 /\ \A i \in 1..t.sh[1], j \in 1..t.sh[2], k \in 1..t.sh[3] :
                       t.e[(i - 1) * t.sh[2] * t.sh[3] + (j - 1) * t.sh[3] + k]
                       = RevAxes3(t).e[(k - 1) * t.sh[2] * t.sh[1] + (j - 1) * t.sh[1] + i]
LawTranspose(m) == /\ A!Transpose(A!Transpose(m)) = m
                   /\ ConjArr(A!Transpose(m)) = A!Transpose(ConjArr(m))
                   /\ Norm2(A!Transpose(m)) = Norm2(m)
Det2(m) == A!GSub(A!GMul(A!At(m, 1, 1), A!At(m, 2, 2)), A!GMul(A!At(m, 1, 2), A!At(m, 2, 1)))
\* rule of Sarrus, an independent formulation of the 3 x 3 determinant
Det3(m) == LET p(a, b, c) == A!GMul(A!GMul(A!At(m, 1, a), A!At(m, 2, b)), A!At(m, 3, c)) IN
           A!GSub(A!GAdd(A!GAdd(p(1, 2, 3), p(2, 3, 1)), p(3, 1, 2)), A!GAdd(A!GAdd(p(3, 2, 1), p(2, 1, 3)), p(1, 3, 2)))
LawSquare(m) == A!IsSquare(m) =>
  /\ A!Det(A!Transpose(m)) = A!Det(m)
  /\ A!Det(ConjArr(A!Transpose(m))) = A!GConj(A!Det(m))
  /\ TraceOf(A!Transpose(m)) = TraceOf(m)
  /\ m.sh[1] = 2 => A!Det(m) = Det2(m)
  /\ m.sh[1] = 3 => A!Det(m) = Det3(m)
  /\ Norm2(m) = TraceOf(A!MatMul(ConjArr(A!Transpose(m)), m))[1]                   \* Frobenius norm
  /\ TraceOf(A!MatMul(ConjArr(A!Transpose(m)), m))[2] = Zero
LawCross(u, v) == LET c == CrossOf(u, v) IN
  /\ CrossOf(v, u) = A!Negate(c)
  /\ GIs0(DotOf(c, u)) /\ GIs0(DotOf(c, v))
  /\ CrossOf(u, u) = [sh |-> <<3>>, e |-> <<GZ, GZ, GZ>>]
  \* Lagrange: |u x v|^2 = |u|^2 |v|^2 - (u.v)^2 for real vectors
  /\ ((\A i \in 1..3 : IsRe(u.e[i]) /\ IsRe(v.e[i])) =>
        Norm2(c) = Sub(Mul(Norm2(u), Norm2(v)), A!GAbs2(DotOf(u, v))))
\* signatures
LawOutcomeTotal(tb, f, args) == LET o == Outcome(tb, f, args) IN
  /\ o.k \in OutcomeKinds
  /\ (~Known(tb, f)) => Allowed(o) = "err"
  /\ (Known(tb, f) /\ ~CountFits(tb, f, Len(args))) => (o.k = "err" /\ o.why = "argcount")
  /\ (tb = "override" /\ Known(tb, f)) => o = XS(GI(Marker(f)))
  /\ (o.k = "exact" /\ f \in ScalarFns \cup {"arctan2", "kronecker", "min", "max", "det", "trace"}) => A!IsScalar(o.v)
  /\ (o.k \in {"exact", "silent"}) => A!WellFormed(o.v)
  \* the matrix table only adds: a call of a function of the formula table other than abs has the same outcome
  /\ (f \in DOMAIN FormulaSig \ {"abs"}) => Outcome("matrix", f, args) = Outcome("formula", f, args)
  \* on numbers the two versions of abs coincide
  /\ (f = "abs" /\ Len(args) = 1 /\ A!IsScalar(args[1])) => Outcome("matrix", f, args) = Outcome("formula", f, args)
\* domains
LawDomain(f, z) == f \in ScalarFns =>
  LET d == Dom(f, z) IN
  /\ d \in {"in", "pole", "offreal", "offdomain", "overflow", "underflow"}
  /\ d = "offreal" => (IsRe(z) /\ f \in Inverses)                     \* only inverse functions, only on the real line
  /\ (IsRe(z) /\ RealDom(f, z[1])) => d \in {"in", "overflow", "underflow"}
  /\ (IsRe(z) /\ d = "in" /\ ~RealDom(f, z[1])) => f \in Continued    \* required complex continuation: exactly these
  /\ (f \in {"floor", "ceil"}) => (d = "in" <=> IsRe(z))
  \* odd and even functions have symmetric domains
  /\ (f \notin {"exp", "sqrt", "ln", "log10", "log2", "arccosh", "arcsech"}) => Dom(f, A!GNeg(z)) = d
  /\ Dom(f, A!GConj(z)) = d
\* the inverse reciprocal functions are the inverse functions of the reciprocal: same status at z and 1/z
RecipOf == ("arcsec" :> "arccos" @@ "arccsc" :> "arcsin" @@ "arccot" :> "arctan" @@ "arcsech" :> "arccosh"
            @@ "arccsch" :> "arcsinh" @@ "arccoth" :> "arctanh")
LawReciprocalDomain(f, z) == (f \in DOMAIN RecipOf /\ ~GIs0(z) /\ SmallG(z)) => Dom(f, z) = Dom(RecipOf[f], GInvS(z))
LawRanges(f, x) == (f \in ScalarFns /\ RealDom(f, x)) =>
  LET rs == Ranges(f, x) IN
  /\ \A iv \in rs : Leq(iv[1], iv[2])
  /\ (SignOf(f, x) = "pos" /\ rs # {}) => \E iv \in rs : iv[2][1] > 0
  /\ (SignOf(f, x) = "neg" /\ rs # {}) => \E iv \in rs : iv[1][1] < 0
  /\ (SignOf(f, x) = "zero" /\ rs # {}) => \E iv \in rs : iv[1][1] <= 0 /\ iv[2][1] >= 0
  /\ (rs # {}) <=> f \in {"arcsin", "arccos", "arctan", "arcsec", "arccsc", "arccot"}
\* terms
\* every point of a grid is recovered exactly from its term (otherwise domains would silently go unexamined: this law
\* found that 1/1000000 was at first treated as "not exactly known")
LawGaussTerm(z, tb) == Ev(GaussT(z), tb) = RX("val", z)
LawTerm(t, tb) == LawRenderParses(t) /\ LawOnlyNaturalLiterals(t) /\ WellSorted(t, tb)
\* identities: rendering, sorts, statuses, and agreement with the exact layer wherever both sides are exact
LawInstance(inst, tb) ==
  /\ LawTerm(inst.l, tb) /\ (inst.rel = "eq" => LawTerm(inst.r, tb))
  /\ inst.sl \in {"val", "valOrErr", "err"} /\ inst.sr \in {"val", "valOrErr", "err"}
  /\ inst.exactHolds
\* every function of the formula table occurs in some identity, every inverse in a round trip and a left inverse
ASSUME (UNION {FuncsIn(Identities[k].l) \cup FuncsIn(Identities[k].r) : k \in 1..Len(Identities)}) = DOMAIN FormulaSig
ASSUME \A k \in 1..Len(Identities) : WellSorted(Identities[k].l, "formula") /\ WellSorted(Identities[k].r, "formula")
ASSUME \A k \in 1..Len(Identities) : WellSorted(Identities[k].l, "matrix") /\ WellSorted(Identities[k].l, "override")
=============================================================================
