-------------------------- MODULE ArrayAlgebraTrace --------------------------
(* Code -> spec binding for C14.  Every record is one observation of the real library:
     kind "bin"    one operator applied to two operands        fields  op, x, y, neg, form, obs
     kind "chain"  a product chain given as a formula string   fields  xs, ops, grp, neg, form, obs
   Operands are in compact form  [sh |-> shape, e |-> << <<a, b, d>>, .. >>]  = (a + b i) / d.
   obs is what the code did:  [k |-> "err"]  (a student-facing error),  [k |-> "val", v |-> [sh, e]]  with exact
   Gaussian rationals (the adapter maps every observed float to the nearest fraction of small denominator and checks
   that it is within 1e-9; one-element results are delivered as scalars), or  [k |-> "other"]  for anything else.
   A record is accepted iff obs is exactly the outcome ArrayAlgebra allows. *)
EXTENDS ArrayAlgebra, Json, IOUtils
Trace == ndJsonDeserialize(IOEnv.TRACE_FILE)
VARIABLE l
GQ(q) == <<Q(q[1], q[3]), Q(q[2], q[3])>>
Ex(a) == [sh |-> a.sh, e |-> Tup([i \in 1..Len(a.e) |-> GQ(a.e[i])], Len(a.e))]
Expected(r) == IF r.kind = "bin" THEN Op(r.op, Ex(r.x), Ex(r.y), r.neg)
               ELSE GroupedChain(Tup([i \in 1..Len(r.xs) |-> Ex(r.xs[i])], Len(r.xs)), r.ops, r.grp, r.neg)
Agrees(o, e) == /\ o.k = e.k
                /\ (e.k = "val") => (o.v.sh = e.v.sh /\ o.v.e = e.v.e)
Summary(e) == IF e.k = "err" THEN "err:" \o e.why ELSE e.k       \* one short line (the engine reads it back)
Verdict(i) == LET r == Trace[i]  e == Expected(r) IN
              IF Agrees(r.obs, e) THEN TRUE ELSE PrintT(<<"REJECT", r.id, Summary(e)>>)
Init == l = 0
Next == /\ l < Len(Trace)
        /\ l' = l + 1
        /\ Verdict(l + 1)
        /\ (l + 1 = Len(Trace)) => PrintT(<<"DONE", Len(Trace)>>)
=============================================================================
