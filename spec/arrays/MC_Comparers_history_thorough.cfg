INIT Init
NEXT Next
CONSTANTS
  Part = "history"
  Flaws = {}
  Thorough = TRUE
INVARIANT LawHistory
INVARIANT LawWellFormed
INVARIANT LawImplDeviatesOnlyThere_
