INIT Init
NEXT Next
