-------------------------- MODULE BuiltinFuncsTrace --------------------------
(* Code -> spec binding for C15.  Every record is one observation of the real evaluator with a real function table:
     ev "meta"   the exception classes introspected from the code               fields  tree (class -> list of bases)
     ev "call"   one function applied to exact arguments                         fields  tb, f, args, obs
     ev "ident"  both sides of identity `name` evaluated at the point (z, w)     fields  tb, name, z, w, obs
     ev "ctx"    a call of a scalar built-in on numbers sent down the road x (BuiltinFuncs!Contexts)  fields  x, f, args, obs
     ev "const"  one of the constants i, j, e, pi                                fields  tb, name, obs
   tb is the scope the text was evaluated in: "formula", "matrix" or "override" (every default name bound to an author's
   function returning BuiltinFuncs!Marker); every generated text is evaluated under all three, in a drawn order, within
   one process, and each evaluation is a record of its own, judged against the outcome of ITS scope.
   Arguments are arrays [sh, e] whose entries are Gaussian rationals <<<<n, d>>, <<n, d>>>> taken from the generated
   case; observed floats never reach TLC: the adapter reduces them to the discrete facts described at Accepts /
   AcceptsIdent in BuiltinFuncs (exact fractions of small denominator where the float is within 1e-9 of one, signs,
   micro-units of pi, "the two sides agree").  A record is accepted iff BuiltinFuncs allows the observation. *)
EXTENDS BuiltinFuncs, Json, IOUtils
Trace == ndJsonDeserialize(IOEnv.TRACE_FILE)
VARIABLE l
NQ(q) == Q(q[1], q[2])
NG(g) == <<NQ(g[1]), NQ(g[2])>>
Arr(a) == [sh |-> a.sh, e |-> Tup([i \in 1..Len(a.e) |-> NG(a.e[i])], Len(a.e))]
Args(r) == Tup([i \in 1..Len(r.args) |-> Arr(r.args[i])], Len(r.args))

\* implementation-shaped detail (not part of the property): where the error classes hang in the class tree
ErrParents == ("ArgumentError" :> "DomainError" @@ "ArgumentShapeError" :> "DomainError" @@ "DomainError" :> "CalcError"
               @@ "FunctionEvalError" :> "CalcError" @@ "CalcZeroDivisionError" :> "CalcError"
               @@ "CalcOverflowError" :> "CalcError" @@ "UndefinedFunction" :> "CalcError"
               @@ "CalcError" :> "StudentFacingError" @@ "StudentFacingError" :> "MITxError")
MetaOK(r) == \A cls \in DOMAIN ErrParents : cls \in DOMAIN r.tree /\ r.tree[cls] = <<ErrParents[cls]>>

ConstOK(r) == IF r.name \in DOMAIN ConstExact
              THEN r.obs.k = "val" /\ r.obs.sh = <<>> /\ r.obs.q = <<ConstExact[r.name]>>
              ELSE r.obs.k = "val" /\ r.obs.sh = <<>> /\ r.obs.real /\ r.obs.nano = ConstNano[r.name]

Inst(r) == Instance(IdIndex(r.name), NG(r.z), NG(r.w), r.tb)
Check(r) ==
  CASE r.ev = "meta" -> IF MetaOK(r) THEN "" ELSE "class-tree"
    [] r.ev = "call" -> LET e == Outcome(r.tb, r.f, Args(r)) IN
                        IF Accepts(e, r.obs) THEN "" ELSE Allowed(e) \o ":" \o e.k
    [] r.ev = "ctx" -> IF CtxOneArgOnly(r.x) /\ Len(r.args) # 1 THEN "guard"
                       ELSE LET v == CtxVerdict(r.x, r.f, Args(r)) IN
                            IF AcceptsCtx(v, r.obs) THEN "" ELSE "context:" \o v
    [] r.ev = "const" -> IF ConstOK(r) THEN "" ELSE "const"
    [] r.ev = "ident" -> LET inst == Inst(r) IN
                         IF ~Guard(Identities[IdIndex(r.name)].g, NG(r.z), NG(r.w)) THEN "guard"
                         ELSE IF AcceptsIdent(inst, r.obs) THEN "" ELSE inst.sl \o "/" \o inst.sr \o ":" \o inst.rel
Verdict(i) == LET r == Trace[i]  v == Check(r) IN
              IF v = "" THEN TRUE ELSE PrintT(<<"REJECT", r.id, v>>)
Init == l = 0
Next == /\ l < Len(Trace)
        /\ l' = l + 1
        /\ Verdict(l + 1)
        /\ (l + 1 = Len(Trace)) => PrintT(<<"DONE", Len(Trace)>>)
=============================================================================
