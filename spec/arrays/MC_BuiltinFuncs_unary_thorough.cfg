INIT Init
NEXT Next
CONSTANTS
  Part = "unary"
  Tier = "thorough"
INVARIANT LawCall
INVARIANT LawUnary
INVARIANT LawOverride
