INIT Init
NEXT Next
CONSTANTS
  Part = "phase"
  Flaws = {}
  Thorough = TRUE
INVARIANT LawWellFormed
INVARIANT LawGuard
INVARIANT LawShapePolicy
INVARIANT LawGenerator
INVARIANT LawKind
INVARIANT LawImplDeviatesOnlyThere_
