INIT Init
NEXT Next
CONSTANTS
  Part = "phase"
  Flaws = {}
  Thorough = FALSE
INVARIANT LawWellFormed
INVARIANT LawGuard
INVARIANT LawShapePolicy
INVARIANT LawGenerator
INVARIANT LawKind
INVARIANT LawImplDeviatesOnlyThere_
