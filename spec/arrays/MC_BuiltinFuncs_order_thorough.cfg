INIT Init
NEXT Next
CONSTANTS
  Part = "order"
  Tier = "thorough"
INVARIANT LawOrder
