INIT Init
NEXT Next
CONSTANTS
  Part = "cong"
  Thorough = FALSE
INVARIANT ImplRefines_
