INIT Init
NEXT Next
