INIT Init
NEXT Next
CONSTANTS
  Part = "matrix"
  Tier = "thorough"
INVARIANT LawCall
INVARIANT LawMatrix
INVARIANT LawOverride
