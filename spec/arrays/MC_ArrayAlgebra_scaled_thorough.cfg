INIT Init
NEXT Next
CONSTANTS
  Part = "scaled"
  MaxDim = 4
  NReal = 7
  NCplx = 3
  Big = TRUE
INVARIANT InvOutcomeDomain
INVARIANT InvNoPredOnlyScalarPow
INVARIANT InvShape
INVARIANT InvAddStrict
INVARIANT InvAddCommutes
INVARIANT InvSubAnti
INVARIANT InvMulTranspose
INVARIANT InvDiv
INVARIANT InvPow
INVARIANT InvPow2
INVARIANT InvChain
INVARIANT InvGroupFlat
INVARIANT InvNear
INVARIANT InvScaled
INVARIANT InvSrc
INVARIANT InvScopeConfigured
INVARIANT InvLiteral
INVARIANT InvScopeDefault
INVARIANT InvScopeLocal
