--------------------------- MODULE MC_BuiltinFuncs ---------------------------
(* Model instance for C15.  TLC enumerates, per part,
     sig     every name x table x tuple of argument shapes (1..3 arguments)        -> Outcome (count / shape / value)
     unary   every scalar function (and re, im, conj) x table x point of the grid   -> Outcome (domain, exact value,
                                                                                        sign, principal range)
     multi   arctan2, kronecker, min, max over pairs / triples / quadruples          -> Outcome (exact)
     matrix  the matrix functions (and re, im, conj, abs) over vectors and matrices  -> Outcome (exact)
     ident   every identity x table x point(s) of the grid admitted by its guard     -> both sides, statuses, relation
   and checks the laws of BuiltinFuncs on every generated case.  The dump (term spelling + outcome) is replayed into
   the real evaluator with the real function tables. *)
EXTENDS BuiltinFuncs
CONSTANTS Part, Tier
VARIABLES c, out
Quick == Tier = "quick"

\* ------------------------------------------------------------------ grids of Gaussian rationals
QS(S) == {Q(p[1], p[2]) : p \in S}
AxQ == QS({<<-2, 1>>, <<-1, 1>>, <<-1, 2>>, <<0, 1>>, <<1, 2>>, <<1, 1>>, <<2, 1>>})
AxT == AxQ \cup QS({<<-3, 1>>, <<-3, 2>>, <<-3, 4>>, <<-1, 4>>, <<1, 4>>, <<3, 4>>, <<3, 2>>, <<3, 1>>})
Ax == IF Quick THEN AxQ ELSE AxT
CGrid == {<<a, b>> : a \in Ax, b \in Ax}
Eps == Q(1, 1000)
PM(S) == S \cup {Neg(q) : q \in S}
CutAt == QS({<<-2, 1>>, <<-1, 2>>, <<1, 2>>, <<2, 1>>})
NearCut == {<<a, s>> : a \in CutAt, s \in PM({Eps})} \cup {<<s, a>> : a \in CutAt, s \in PM({Eps})}
OnAxes(S) == {GR(q) : q \in S} \cup {<<Zero, q>> : q \in S}
NearPole == OnAxes(PM({Eps, Add(One, Eps), Sub(One, Eps)}))
Extreme == OnAxes(PM({FromInt(1000), FromInt(1000000), Q(1, 1000000)}))
           \cup {GR(q) : q \in PM({FromInt(709), FromInt(711)})} \cup {<<Zero, q>> : q \in PM({FromInt(711)})}
RealMore == {GR(q) : q \in PM(QS({<<1, 4>>, <<3, 4>>, <<3, 2>>, <<3, 1>>, <<5, 1>>, <<10, 1>>, <<1, 3>>, <<7, 3>>}))}
Pts == CGrid \cup NearCut \cup NearPole \cup Extreme \cup RealMore
\* pairs: a smaller complex grid and the real line
AxS == IF Quick THEN QS({<<-1, 1>>, <<0, 1>>, <<1, 2>>, <<2, 1>>}) ELSE QS({<<-2, 1>>, <<-1, 2>>, <<0, 1>>, <<1, 2>>, <<1, 1>>, <<3, 1>>})
Reals2 == {GR(q) : q \in Ax \cup PM(QS({<<1, 4>>, <<3, 2>>, <<3, 1>>}))}
PairPts == {<<a, b>> : a \in AxS, b \in AxS} \cup Reals2
IntPts == {GI(k) : k \in -6..6}

\* ------------------------------------------------------------------ arrays
G0(a, b) == <<FromInt(a), FromInt(b)>>
Ent == IF Quick THEN {G0(-1, 0), G0(0, 0), G0(2, 0), G0(0, 1)} ELSE {G0(-1, 0), G0(0, 0), G0(1, 0), G0(2, 0), G0(1, -1)}
EntFrac == {GQ(1, 2, 0, 1), GQ(-3, 2, 1, 2)}
Vec(es) == [sh |-> <<Len(es)>>, e |-> es]
Mat(m, n, es) == [sh |-> <<m, n>>, e |-> es]
Vec2s == {Vec(<<a, b>>) : a \in Ent, b \in Ent}
Ent3 == IF Quick THEN {G0(-1, 0), G0(0, 0), G0(2, 0)} ELSE {G0(-1, 0), G0(0, 0), G0(2, 0), G0(0, 1)}
Vec3s == {Vec(<<a, b, d>>) : a \in Ent3, b \in Ent3, d \in Ent3} \cup {Vec(<<G0(1, 1), G0(0, -2), GQ(1, 2, 0, 1)>>), Vec(<<G0(0, 1), G0(3, 0), G0(-1, 2)>>)}
Mat22s == {Mat(2, 2, <<a, b, d, e>>) : a \in Ent, b \in Ent, d \in Ent, e \in Ent}
          \cup {Mat(2, 2, <<a, G0(1, 0), G0(0, 2), b>>) : a \in EntFrac, b \in EntFrac}
Rows3 == {<<G0(1, 0), G0(2, 0), G0(3, 0)>>, <<G0(0, 0), G0(1, 0), G0(0, 1)>>, <<G0(-1, 0), G0(0, 0), G0(2, 0)>>,
          <<G0(2, 0), G0(-1, 1), G0(0, 0)>>, <<G0(4, 0), G0(5, 0), G0(6, 0)>>} \cup
         (IF Quick THEN {} ELSE {<<G0(0, 0), G0(0, 0), G0(1, 0)>>, <<GQ(1, 2, 0, 1), G0(1, 0), G0(-2, 0)>>})
Mat33s == {Mat(3, 3, r1 \o r2 \o r3) : r1 \in Rows3, r2 \in Rows3, r3 \in Rows3}
Mat23s == {Mat(2, 3, r1 \o r2) : r1 \in Rows3, r2 \in Rows3}
Mat32s == {A!Transpose(m) : m \in Mat23s}
ScalarsM == {Sc(z) : z \in {G0(5, 0), G0(-3, 0), G0(2, 1), GQ(1, 2, -1, 3), G0(0, 0)}}
MatArgs == ScalarsM \cup Vec2s \cup Vec3s \cup Mat22s \cup Mat33s \cup Mat23s \cup Mat32s
MatFns == {"trans", "ctrans", "adj", "det", "trace", "norm", "abs", "re", "im", "conj"}

\* ------------------------------------------------------------------ shape exemplars for the signature part
Exemplars == (IF Quick THEN {} ELSE {[sh |-> <<2, 2, 2>>, e |-> Tup([n \in 1..8 |-> G0(n, 0)], 8)], Vec(<<G0(1, 0), G0(2, 0)>>), Mat(3, 3, <<G0(1, 0), G0(0, 0), G0(2, 0), G0(0, 0), G0(1, 0), G0(0, 0), G0(0, 1), G0(0, 0), G0(1, 0)>>)})
             \cup {Sc(G0(2, 0)), Sc(GQ(1, 2, 1, 1)), Vec(<<G0(0, 0), G0(1, 0), G0(0, 1)>>),
                   Mat(2, 2, <<G0(1, 0), G0(2, 0), G0(3, 0), G0(4, 0)>>),
                   Mat(2, 3, <<G0(1, 0), G0(2, 0), G0(3, 0), G0(4, 0), G0(5, 0), G0(6, 0)>>)}
SigNames == DOMAIN MatrixSig \cup {"sinc", "Sin", "transpose"}
ArgTuples == {<<a>> : a \in Exemplars} \cup {<<a, b>> : a \in Exemplars, b \in Exemplars}
             \cup {<<a, b, d>> : a \in Exemplars, b \in Exemplars, d \in Exemplars}

\* ------------------------------------------------------------------ cases
(* A case is a text (a call, or the two sides of an identity instance); it carries no scope.  out holds what the
   specification allows under EACH scope -- the Formula table, the Matrix table and the overriding scope -- and the
   adapter evaluates the same text under all of them, in the orders enumerated by part "order", within one process. *)
NoNz(n) == Tup([i \in 1..n |-> FALSE], n)
CallTerm(f, args, nz) == Fn(f, Tup([i \in 1..Len(args) |-> IF nz[i] THEN NegZeroT ELSE ArrayT(args[i])], Len(args)))
Per(f, args) == [formula |-> Outcome("formula", f, args), matrix |-> Outcome("matrix", f, args),
                 override |-> Outcome("override", f, args)]
CallOut(f, args, nz) == [toks |-> Spelling(CallTerm(f, args, nz)), o |-> Per(f, args)]

UnaryFns == ScalarFns \cup {"re", "im", "conj"}
UnaryCases(f) == [kind : {"unary"}, f : {f}, args : {<<Sc(z)>> : z \in Pts}, nz : {<<FALSE>>}]
                 \cup [kind : {"unary"}, f : {f}, args : {<<Sc(GZ)>>}, nz : {<<TRUE>>}]
RealPairs == {<<Sc(x), Sc(y)>> : x \in Reals2, y \in Reals2}
MixedPairs == {<<Sc(x), Sc(y)>> : x \in PairPts, y \in {GQ(1, 2, 1, 1), G0(0, 1), G0(2, 0), G0(0, 0)}}
AxM == QS({<<-1, 1>>, <<0, 1>>, <<1, 2>>, <<2, 1>>, <<-3, 2>>})
Triples == {<<Sc(GR(x)), Sc(GR(y)), Sc(GR(w))>> : x \in AxM, y \in AxM, w \in AxM}
Quads == {<<Sc(GR(x)), Sc(GR(y)), Sc(GR(w)), Sc(GR(v))>> : x \in {Q(-1, 1), Q(2, 1), Q(1, 2)}, y \in {Q(-1, 1), Q(2, 1), Q(1, 2)},
                                                           w \in {Q(-1, 1), Q(2, 1), Q(1, 2)}, v \in {Q(-1, 1), Q(2, 1), Q(1, 2)}}
ZeroFlags(args) == {nz \in [1..Len(args) -> BOOLEAN] : \A i \in 1..Len(args) : nz[i] => GIs0(args[i].e[1])}
\* (families only split the work between TLC workers: one seed per (function, family))
\* kronecker is exact equality: distinct numbers that are relatively (or absolutely) close, and equal controls of the same size
ClosePairs == {<<Q(100000, 1), Q(100001, 1)>>, <<Q(1000000, 1), Q(1000001, 1)>>, <<Q(100000000, 1), Q(100000001, 1)>>,
               <<Q(1000000000, 1), Q(1000000001, 1)>>, <<Q(-100000, 1), Q(-100001, 1)>>,
               <<Q(1, 1000000000), Q(2, 1000000000)>>, <<Zero, Q(5, 1000000000)>>, <<Q(-1, 1000000000), Q(1, 1000000000)>>,
               <<One, Q(10000001, 10000000)>>, <<Q(3, 1), Q(30000003, 10000000)>>, <<Q(1, 2), Q(5000001, 10000000)>>,
               <<Q(1000, 1), Q(1000000001, 1000000)>>}
CloseArgs == UNION {{<<Sc(GR(p[1])), Sc(GR(p[2]))>>, <<Sc(GR(p[2])), Sc(GR(p[1]))>>, <<Sc(GR(p[1])), Sc(GR(p[1]))>>,
                     <<Sc(GR(p[2])), Sc(GR(p[2]))>>, <<Sc(<<Zero, p[1]>>), Sc(<<Zero, p[2]>>)>>,
                     <<Sc(<<p[1], p[2]>>), Sc(<<p[1], p[1]>>)>>, <<Sc(<<p[1], p[2]>>), Sc(<<p[1], p[2]>>)>>} : p \in ClosePairs}
MultiFams == {"realpairs", "mixed", "triples", "quads", "allpairs", "close"}
MultiArgs(f, fam) == CASE fam = "realpairs" -> IF f = "kronecker" THEN {} ELSE RealPairs
                       [] fam = "mixed" -> IF f = "kronecker" THEN {} ELSE MixedPairs
                       [] fam = "triples" -> IF f \in {"min", "max"} THEN Triples ELSE {}
                       [] fam = "quads" -> IF f \in {"min", "max"} THEN Quads ELSE {}
                       [] fam = "close" -> IF f = "kronecker" THEN CloseArgs ELSE {}
                       [] fam = "allpairs" -> IF f = "kronecker" THEN {<<Sc(x), Sc(y)>> : x \in PairPts, y \in PairPts} ELSE {}
MultiCases(f, fam) == UNION {[kind : {"multi"}, f : {f}, args : {args},
                              nz : {Tup(nz, Len(args)) : nz \in (IF f = "arctan2" THEN ZeroFlags(args) ELSE {NoNz(Len(args))})}]
                             : args \in MultiArgs(f, fam)}
\* arrays with three axes: 2x2x2, 2x2x3, 3x2x2, 3x3x3 (first two / last two / all axes equal), 1x1x1 (one entry)
Ten(p, q, r, F(_)) == [sh |-> <<p, q, r>>, e |-> Tup([n \in 1..(p * q * r) |-> F(n)], p * q * r)]
Tensors == {Ten(2, 2, 2, LAMBDA n : G0(n, 0)), Ten(2, 2, 2, LAMBDA n : G0((n % 3) - 1, n % 2)),
            Ten(2, 2, 3, LAMBDA n : G0(n - 4, 0)), Ten(3, 2, 2, LAMBDA n : G0(7 - n, IF n = 5 THEN 2 ELSE 0)),
            Ten(3, 3, 3, LAMBDA n : G0(((n * n) % 7) - 2, 0)), Ten(1, 1, 1, LAMBDA n : G0(5, 0)),
            Ten(1, 1, 1, LAMBDA n : G0(0, 0)), Ten(2, 3, 2, LAMBDA n : GQ(n, 2, 0, 1))}
MatFams == {"scalars", "vec2", "vec3", "mat22", "mat33", "mat23", "mat32", "tensor"}
MatFam(fam) == CASE fam = "scalars" -> ScalarsM [] fam = "vec2" -> Vec2s [] fam = "vec3" -> Vec3s [] fam = "mat22" -> Mat22s
                 [] fam = "mat33" -> Mat33s [] fam = "mat23" -> Mat23s [] fam = "mat32" -> Mat32s [] fam = "tensor" -> Tensors
MatrixCases(f, fam) == IF f = "cross"
                       THEN [kind : {"matrix"}, f : {f}, args : {<<u, v>> : u \in MatFam(fam), v \in Vec3s}, nz : {NoNz(2)}]
                       ELSE IF f \in {"min", "kronecker"}
                       THEN [kind : {"matrix"}, f : {f}, args : {<<u, Sc(G0(2, 0))>> : u \in MatFam(fam)} \cup {<<u, u>> : u \in MatFam(fam)}, nz : {NoNz(2)}]
                       ELSE [kind : {"matrix"}, f : {f}, args : {<<a>> : a \in MatFam(fam)}, nz : {NoNz(1)}]
SigCases(f) == UNION {[kind : {"sig"}, f : {f}, args : {args}, nz : {NoNz(Len(args))}] : args \in ArgTuples}

IdentPts(d) == IF d.nv = 0 THEN {<<GZ, GZ>>}
               ELSE IF d.nv = 1 THEN {<<z, GZ>> : z \in {p \in (IF d.g = "int6" THEN IntPts ELSE Pts) : Guard(d.g, p, GZ)}}
               ELSE {pr \in {<<z, w>> : z \in PairPts, w \in PairPts} : Guard(d.g, pr[1], pr[2])}
IdentCases(k) == [kind : {"ident"}, k : {k}, id : {Identities[k].id}, pt : IdentPts(Identities[k])]
\* what is allowed for one scope: statuses of the two sides, whether the relation is claimed, exact values of the sides
PerScope(inst) == [sl |-> inst.sl, sr |-> inst.sr, holds |-> inst.holds, lx |-> inst.lx, rx |-> inst.rx]
UsesAbs(k) == "abs" \in FuncsIn(Identities[k].l) \cup FuncsIn(Identities[k].r)
IdentOut(cc) == LET fi == Instance(cc.k, cc.pt[1], cc.pt[2], "formula")
                    mi == IF UsesAbs(cc.k) THEN Instance(cc.k, cc.pt[1], cc.pt[2], "matrix") ELSE fi   \* (LawMatrixSame)
                    oi == Instance(cc.k, cc.pt[1], cc.pt[2], "override") IN
                [ltoks |-> Spelling(fi.l), rtoks |-> IF fi.rel = "eq" THEN Spelling(fi.r) ELSE <<>>, rel |-> fi.rel,
                 per |-> [formula |-> PerScope(fi), matrix |-> PerScope(mi), override |-> PerScope(oi)]]

ConstCases == [kind : {"const"}, name : {"i", "j", "e", "pi"}]
ConstOutcome(nm) == IF nm \in DOMAIN ConstExact THEN XS(ConstExact[nm])
                    ELSE [k |-> "between", lo |-> ConstBounds[nm][1], hi |-> ConstBounds[nm][2], nano |-> ConstNano[nm]]

\* ------------------------------------------------------------------ histories (part "order")
(* one text evaluated under a sequence of scopes.  The texts are calls whose outcome differs between scopes in every
   possible way (value / other value, value / error, error / value).  Policy "text" (part "order_flaw") is the
   vacuity guard: a memo keyed by the text alone must be refuted by TLC. *)
RECURSIVE SeqsOver(_, _)
SeqsOver(S, n) == IF n = 0 THEN {<<>>} ELSE {Append(h, x) : h \in SeqsOver(S, n - 1), x \in S}
Histories == UNION {SeqsOver(Scopes, n) : n \in 1..(IF Quick THEN 3 ELSE 4)}
OrderTexts == <<[f |-> "abs", args |-> <<Vec(<<G0(3, 0), G0(4, 0)>>)>>],
                [f |-> "sin", args |-> <<Sc(G0(1, 0))>>],
                [f |-> "arctan2", args |-> <<Sc(G0(1, 0)), Sc(G0(2, 0))>>],
                [f |-> "norm", args |-> <<Vec(<<G0(3, 0), G0(4, 0)>>)>>],
                [f |-> "min", args |-> <<Sc(G0(1, 0))>>],
                [f |-> "floor", args |-> <<Sc(GQ(5, 2, 0, 1))>>],
                [f |-> "sinc", args |-> <<Sc(G0(1, 0))>>]>>
OrderCases == [kind : {"order"}, t : 1..Len(OrderTexts), h : Histories]
OrderOut(cc) == LET x == OrderTexts[cc.t] IN
                [toks |-> Spelling(CallTerm(x.f, x.args, NoNz(Len(x.args)))), run |-> RefRun(cc.h, Per(x.f, x.args))]

\* ------------------------------------------------------------------ contexts (part "ctx")
(* calls of scalar built-ins on numbers: every (function, point) of a small grid whose outcome is an error (poles,
   real-only functions off the real line, overflow), calls with several / too many / too few arguments and unknown
   names, plus in-domain controls; bare and wrapped in arctan(...) (a pole that no longer raises yields a finite value
   there).  out.v is the verdict under every context; the adapter sends the text down every road. *)
CtxPts == {GZ, GI(1), GI(-1), II, A!GNeg(II), GQ(1, 2, 0, 1), GI(2), GI(-2), GQ(1, 2, 1, 1), GI(711), GI(-1000), <<Zero, FromInt(1000)>>}
CtxControls == {"cos", "exp", "arctan", "floor", "sqrt"}
CtxMulti == {[f |-> "arctan2", args |-> <<Sc(GZ), Sc(GZ)>>], [f |-> "arctan2", args |-> <<Sc(GI(1)), Sc(II)>>],
             [f |-> "arctan2", args |-> <<Sc(GI(1)), Sc(GI(1))>>], [f |-> "arctan2", args |-> <<Sc(GI(1))>>],
             [f |-> "min", args |-> <<Sc(II), Sc(GI(1))>>], [f |-> "max", args |-> <<Sc(GI(1)), Sc(GQ(2, 1, 1, 1))>>],
             [f |-> "min", args |-> <<Sc(GI(1)), Sc(GI(2))>>], [f |-> "max", args |-> <<Sc(GI(3)), Sc(GI(2)), Sc(GI(1))>>],
             [f |-> "min", args |-> <<Sc(GI(1))>>], [f |-> "sin", args |-> <<Sc(GI(1)), Sc(GI(2))>>],
             [f |-> "kronecker", args |-> <<Sc(GI(1))>>], [f |-> "kronecker", args |-> <<Sc(GI(1)), Sc(GI(1))>>],
             [f |-> "sinc", args |-> <<Sc(GI(1))>>], [f |-> "Sin", args |-> <<Sc(GI(1))>>],
             [f |-> "floor", args |-> <<Sc(GI(1)), Sc(GI(1))>>], [f |-> "ln", args |-> <<Sc(GZ), Sc(GI(1))>>]}
CtxCalls(f) == IF f = "multi" THEN CtxMulti
               ELSE {[f |-> f, args |-> <<Sc(z)>>] : z \in {p \in CtxPts : Allowed(Outcome("formula", f, <<Sc(p)>>)) = "err"
                                                                          \/ (f \in CtxControls /\ p = GQ(1, 2, 0, 1))}}
CtxCases(f) == {[kind |-> "ctx", f |-> x.f, args |-> x.args, wrap |-> w] : x \in CtxCalls(f), w \in {"none", "arctan"}}
CtxTerm(cc) == LET t == CallTerm(cc.f, cc.args, NoNz(Len(cc.args))) IN IF cc.wrap = "none" THEN t ELSE F1(cc.wrap, t)
CtxOut(cc) == [toks |-> Spelling(CtxTerm(cc)), v |-> [x \in Contexts |-> CtxVerdict(x, cc.f, cc.args)],
               onearg |-> Len(cc.args) = 1]

\* ------------------------------------------------------------------ two-level enumeration
Seeds == CASE Part = "sig" -> {[kind |-> "seed", f |-> f] : f \in SigNames}
           [] Part = "unary" -> {[kind |-> "seed", f |-> f] : f \in UnaryFns}
           [] Part = "multi" -> {[kind |-> "seed", f |-> f, fam |-> fam] : f \in {"arctan2", "kronecker", "min", "max"}, fam \in MultiFams}
           [] Part = "matrix" -> {[kind |-> "seed", f |-> f, fam |-> fam] : f \in MatFns, fam \in MatFams}
                                 \cup {[kind |-> "seed", f |-> "cross", fam |-> fam] : fam \in {"vec3", "vec2", "scalars", "tensor"}}
                                 \cup {[kind |-> "seed", f |-> f, fam |-> "tensor"] : f \in {"sin", "sqrt", "floor", "min", "kronecker"}}
           [] Part = "tmpl" -> {[kind |-> "tmpl", k |-> k] : k \in 1..Len(Identities)} \cup {[kind |-> "markers", k |-> 0]}
           [] Part = "ident" -> {[kind |-> "seed", k |-> k] : k \in 1..Len(Identities)} \cup {[kind |-> "seedconst"]}
           [] Part = "ctx" -> {[kind |-> "seedctx", f |-> f] : f \in ScalarFns \cup {"multi"}}
           [] Part \in {"order", "order_flaw"} -> {[kind |-> "seedorder", t |-> t] : t \in 1..Len(OrderTexts)}
\* identity templates (holes Z, W left in place) and the markers of the overriding scope, for the drivers of the adapter
TmplOut(k) == IF k = 0 THEN [markers |-> Markers]
              ELSE LET d == Identities[k] IN
                   [id |-> d.id, ltoks |-> Spelling(d.l), rtoks |-> Spelling(d.r), rel |-> d.rel, nv |-> d.nv, g |-> d.g]
Init == c \in Seeds /\ out = (IF Part = "tmpl" THEN TmplOut(c.k) ELSE [k |-> "seed"])
Next == \/ /\ c.kind = "seed" /\ Part = "sig"
           /\ c' \in SigCases(c.f) /\ out' = CallOut(c'.f, c'.args, c'.nz)
        \/ /\ c.kind = "seed" /\ Part = "unary"
           /\ c' \in UnaryCases(c.f) /\ out' = CallOut(c'.f, c'.args, c'.nz)
        \/ /\ c.kind = "seed" /\ Part = "multi"
           /\ c' \in MultiCases(c.f, c.fam) /\ out' = CallOut(c'.f, c'.args, c'.nz)
        \/ /\ c.kind = "seed" /\ Part = "matrix"
           /\ c' \in MatrixCases(c.f, c.fam) /\ out' = CallOut(c'.f, c'.args, c'.nz)
        \/ /\ c.kind = "seed" /\ Part = "ident"
           /\ c' \in IdentCases(c.k) /\ out' = IdentOut(c')
        \/ /\ c.kind = "seedconst"
           /\ c' \in ConstCases
           /\ out' = [toks |-> <<c'.name>>, o |-> [s \in Scopes |-> ConstOutcome(c'.name)]]
        \/ /\ c.kind = "seedctx"
           /\ c' \in CtxCases(c.f) /\ out' = CtxOut(c')
        \/ /\ c.kind = "seedorder"
           /\ c' \in {x \in OrderCases : x.t = c.t} /\ out' = OrderOut(c')
IsCall == c.kind \in {"sig", "unary", "multi", "matrix"}

\* ------------------------------------------------------------------ laws, one INVARIANT each
Z1 == c.args[1].e[1]
LawCall == IsCall => /\ \A tb \in Scopes : LawOutcomeTotal(tb, c.f, c.args)
                     /\ LawRenderParses(CallTerm(c.f, c.args, c.nz))
                     /\ LawOnlyNaturalLiterals(CallTerm(c.f, c.args, c.nz))
\* wrong counts and shapes never get a value; right ones never get a count / shape error
LawSigPrecedence == c.kind = "sig" => \A tb \in Tables : (c.f \in DOMAIN SigOf(tb)) =>
   LET s == SigOf(tb)[c.f]
       okc == CountOK(s, Len(c.args))
       oks == \A i \in 1..Len(c.args) : ShapeOK(s.p, c.args[i]) IN
   /\ (~okc \/ ~oks) => Allowed(out.o[tb]) = "err"
   /\ (okc /\ oks) => ~(out.o[tb].k = "err" /\ out.o[tb].why \in {"argcount", "argshape", "undefined"})
LawUnary == c.kind = "unary" =>
   /\ LawDomain(c.f, Z1) /\ LawReciprocalDomain(c.f, Z1)
   /\ \A tb \in Scopes : LawGaussTerm(Z1, tb)
   /\ IsRe(Z1) => (LawRanges(c.f, Z1[1]) /\ LawFloorCeil(Z1[1]))
   /\ SmallG(Z1) => LawConj(Z1)
   /\ \A tb \in Scopes : WellSorted(CallTerm(c.f, c.args, c.nz), tb)
   \* a value is required exactly inside the domain
   /\ c.f \in ScalarFns => ((Allowed(out.o.formula) = "val") <=> (Dom(c.f, Z1) = "in"))
   /\ c.f \in ScalarFns => ((Allowed(out.o.formula) = "err") <=> (Dom(c.f, Z1) \in {"pole", "offdomain", "overflow"}))
LawMulti == c.kind = "multi" =>
   LET x == c.args[1].e[1]  y == c.args[2].e[1]  o == out.o.formula IN
   /\ (c.f = "arctan2" /\ IsRe(x) /\ IsRe(y)) => LawAngle(x[1], y[1])
   /\ (c.f = "arctan2") => ((o.k = "err") <=> (~IsRe(x) \/ ~IsRe(y) \/ (GIs0(x) /\ GIs0(y))))
   /\ (c.f = "kronecker") => (LawKronecker(x, y) /\ ((\A q \in {x[1], x[2], y[1], y[2]} : Abs(q[1]) <= 100 /\ q[2] <= 100) => LawAbsMultiplicative(x, y)))
   /\ (c.f = "kronecker") => (o = XS(IF x = y THEN GI(1) ELSE GI(0)))
   /\ (c.f \in {"min", "max"} /\ o.k = "exact") =>
        LawMinMax(Tup([i \in 1..Len(c.args) |-> c.args[i].e[1][1]], Len(c.args)))
   \* min and max are symmetric in their arguments
   /\ (c.f \in {"min", "max"} /\ Len(c.args) = 2) => Outcome("formula", c.f, <<c.args[2], c.args[1]>>) = o
LawMatrix == c.kind = "matrix" =>
   LET o == out.o.matrix IN
   /\ (c.f # "cross" /\ A!IsMatrix(c.args[1])) => (LawTranspose(c.args[1]) /\ LawSquare(c.args[1]))
   /\ (c.f = "cross" /\ c.args[1].sh = <<3>> /\ c.args[2].sh = <<3>>) => LawCross(c.args[1], c.args[2])
   /\ (c.f = "cross") => ((o.k = "exact") <=> (c.args[1].sh = <<3>> /\ c.args[2].sh = <<3>>))
   \* adj and ctrans are the same function
   /\ (c.f = "adj") => Outcome("matrix", "ctrans", c.args) = o
   /\ (c.f = "norm" /\ o.k = "sqrtof") => o.q[1] >= 0
   /\ (c.f \in {"det", "trace"}) => ((o.k = "exact") <=> A!IsSquare(c.args[1]))
   \* three axes: det, trace, cross and abs must refuse; transposes and norm may answer in one way only
   /\ (A!Rank(c.args[1]) = 3) =>
        /\ LawRevAxes(c.args[1])
        /\ (c.f \in {"det", "trace", "cross", "abs"}) => o = MustErr("argshape")
        /\ (c.f \in {"trans", "ctrans", "adj", "norm", "re", "im", "conj"}) => Allowed(o) = "valOrErr"
        /\ (c.f = "trans") => o.v.sh = <<c.args[1].sh[3], c.args[1].sh[2], c.args[1].sh[1]>>
   /\ (c.f \notin DOMAIN FormulaSig) => out.o.formula = MustErr("undefined")
LawIdent == c.kind = "ident" => \A tb \in (IF Quick THEN {"formula", "override"} ELSE Scopes) :
                                   LawInstance(Instance(c.k, c.pt[1], c.pt[2], tb), tb)
\* an identity that does not mention abs reads the same in the two tables (IdentOut relies on it); thorough tier only
LawMatrixSame == (c.kind = "ident" /\ ~Quick /\ ~UsesAbs(c.k)) =>
                    PerScope(Instance(c.k, c.pt[1], c.pt[2], "matrix")) = out.per.formula
\* under the overriding scope every side has a value, and wherever it is exactly computable it is made of markers only
LawOverride == /\ IsCall => (out.o.override = IF c.f \in DOMAIN MatrixSig THEN XS(GI(Marker(c.f))) ELSE MustErr("undefined"))
               /\ c.kind = "ident" => (out.per.override.sl = "val" /\ out.per.override.sr = "val" /\ ~out.per.override.holds)
\* statuses: an identity must raise on the left exactly when some function is applied at one of its poles (or beyond
\* the floats); spot-checked for the round trips, where the only function applied to the point is the inverse
LawRoundTripStatus == (c.kind = "ident" /\ c.k \in {IdIndex("rt_" \o InvSeq[j]) : j \in 1..12}) =>
   LET f == CHOOSE g \in Inverses : "rt_" \o g = c.id
       d == Dom(f, c.pt[1]) IN
   /\ (d = "pole") <=> (out.per.formula.sl = "err")
   /\ (d = "offreal") <=> (out.per.formula.sl = "valOrErr")
   /\ out.per.formula.sr = "val"
\* history independence (part "order"): the reference is memoryless, remembering per (text, scope) or not at all refines
\* it; part "order_flaw" checks the same law for a memo keyed by the text alone and has to fail
OrderPer == LET x == OrderTexts[c.t] IN Per(x.f, x.args)
LawOrder == c.kind = "order" =>
   /\ LawMemoRefines(c.h, OrderPer, "none") /\ LawMemoRefines(c.h, OrderPer, "scope")
   /\ \A h2 \in SeqsOver(Scopes, 2) : LawHistoryIndependent(c.h, h2, OrderPer)
   /\ out.run = RefRun(c.h, OrderPer)
LawCtx == c.kind = "ctx" => /\ LawContext(c.f, c.args)
                            /\ LawRenderParses(CtxTerm(c)) /\ LawOnlyNaturalLiterals(CtxTerm(c))
LawOrderFlaw == c.kind = "order" => LawMemoRefines(c.h, OrderPer, "text")
=============================================================================
