--------------------------- MODULE MC_BuiltinFuncs ---------------------------
(* Model instance for C15.  TLC enumerates, per part,
     sig     every name x table x tuple of argument shapes (1..3 arguments)        -> Outcome (count / shape / value)
     unary   every scalar function (and re, im, conj) x table x point of the grid   -> Outcome (domain, exact value,
                                                                                        sign, principal range)
     multi   arctan2, kronecker, min, max over pairs / triples / quadruples          -> Outcome (exact)
     matrix  the matrix functions (and re, im, conj, abs) over vectors and matrices  -> Outcome (exact)
     ident   every identity x table x point(s) of the grid admitted by its guard     -> both sides, statuses, relation
   and checks the laws of BuiltinFuncs on every generated case.  The dump (term spelling + outcome) is replayed into
   the real evaluator with the real function tables. *)
EXTENDS BuiltinFuncs
CONSTANTS Part, Tier
VARIABLES c, out
Quick == Tier = "quick"

\* ------------------------------------------------------------------ grids of Gaussian rationals
QS(S) == {Q(p[1], p[2]) : p \in S}
AxQ == QS({<<-2, 1>>, <<-1, 1>>, <<-1, 2>>, <<0, 1>>, <<1, 2>>, <<1, 1>>, <<2, 1>>})
AxT == AxQ \cup QS({<<-3, 1>>, <<-3, 2>>, <<-3, 4>>, <<-1, 4>>, <<1, 4>>, <<3, 4>>, <<3, 2>>, <<3, 1>>})
Ax == IF Quick THEN AxQ ELSE AxT
CGrid == {<<a, b>> : a \in Ax, b \in Ax}
Eps == Q(1, 1000)
PM(S) == S \cup {Neg(q) : q \in S}
CutAt == QS({<<-2, 1>>, <<-1, 2>>, <<1, 2>>, <<2, 1>>})
NearCut == {<<a, s>> : a \in CutAt, s \in PM({Eps})} \cup {<<s, a>> : a \in CutAt, s \in PM({Eps})}
OnAxes(S) == {GR(q) : q \in S} \cup {<<Zero, q>> : q \in S}
NearPole == OnAxes(PM({Eps, Add(One, Eps), Sub(One, Eps)}))
Extreme == OnAxes(PM({FromInt(1000), FromInt(1000000), Q(1, 1000000)}))
           \cup {GR(q) : q \in PM({FromInt(709), FromInt(711)})} \cup {<<Zero, q>> : q \in PM({FromInt(711)})}
RealMore == {GR(q) : q \in PM(QS({<<1, 4>>, <<3, 4>>, <<3, 2>>, <<3, 1>>, <<5, 1>>, <<10, 1>>, <<1, 3>>, <<7, 3>>}))}
Pts == CGrid \cup NearCut \cup NearPole \cup Extreme \cup RealMore
\* pairs: a smaller complex grid and the real line
AxS == IF Quick THEN QS({<<-1, 1>>, <<0, 1>>, <<1, 2>>, <<2, 1>>}) ELSE QS({<<-2, 1>>, <<-1, 2>>, <<0, 1>>, <<1, 2>>, <<1, 1>>, <<3, 1>>})
Reals2 == {GR(q) : q \in Ax \cup PM(QS({<<1, 4>>, <<3, 2>>, <<3, 1>>}))}
PairPts == {<<a, b>> : a \in AxS, b \in AxS} \cup Reals2
IntPts == {GI(k) : k \in -6..6}

\* ------------------------------------------------------------------ arrays
G0(a, b) == <<FromInt(a), FromInt(b)>>
Ent == IF Quick THEN {G0(-1, 0), G0(0, 0), G0(2, 0), G0(0, 1)} ELSE {G0(-1, 0), G0(0, 0), G0(1, 0), G0(2, 0), G0(1, -1)}
EntFrac == {GQ(1, 2, 0, 1), GQ(-3, 2, 1, 2)}
Vec(es) == [sh |-> <<Len(es)>>, e |-> es]
Mat(m, n, es) == [sh |-> <<m, n>>, e |-> es]
Vec2s == {Vec(<<a, b>>) : a \in Ent, b \in Ent}
Ent3 == IF Quick THEN {G0(-1, 0), G0(0, 0), G0(2, 0)} ELSE {G0(-1, 0), G0(0, 0), G0(2, 0), G0(0, 1)}
Vec3s == {Vec(<<a, b, d>>) : a \in Ent3, b \in Ent3, d \in Ent3} \cup {Vec(<<G0(1, 1), G0(0, -2), GQ(1, 2, 0, 1)>>), Vec(<<G0(0, 1), G0(3, 0), G0(-1, 2)>>)}
Mat22s == {Mat(2, 2, <<a, b, d, e>>) : a \in Ent, b \in Ent, d \in Ent, e \in Ent}
          \cup {Mat(2, 2, <<a, G0(1, 0), G0(0, 2), b>>) : a \in EntFrac, b \in EntFrac}
Rows3 == {<<G0(1, 0), G0(2, 0), G0(3, 0)>>, <<G0(0, 0), G0(1, 0), G0(0, 1)>>, <<G0(-1, 0), G0(0, 0), G0(2, 0)>>,
          <<G0(2, 0), G0(-1, 1), G0(0, 0)>>, <<G0(4, 0), G0(5, 0), G0(6, 0)>>} \cup
         (IF Quick THEN {} ELSE {<<G0(0, 0), G0(0, 0), G0(1, 0)>>, <<GQ(1, 2, 0, 1), G0(1, 0), G0(-2, 0)>>})
Mat33s == {Mat(3, 3, r1 \o r2 \o r3) : r1 \in Rows3, r2 \in Rows3, r3 \in Rows3}
Mat23s == {Mat(2, 3, r1 \o r2) : r1 \in Rows3, r2 \in Rows3}
Mat32s == {A!Transpose(m) : m \in Mat23s}
ScalarsM == {Sc(z) : z \in {G0(5, 0), G0(-3, 0), G0(2, 1), GQ(1, 2, -1, 3), G0(0, 0)}}
MatArgs == ScalarsM \cup Vec2s \cup Vec3s \cup Mat22s \cup Mat33s \cup Mat23s \cup Mat32s
MatFns == {"trans", "ctrans", "adj", "det", "trace", "norm", "abs", "re", "im", "conj"}

\* ------------------------------------------------------------------ shape exemplars for the signature part
Exemplars == (IF Quick THEN {} ELSE {Vec(<<G0(1, 0), G0(2, 0)>>), Mat(3, 3, <<G0(1, 0), G0(0, 0), G0(2, 0), G0(0, 0), G0(1, 0), G0(0, 0), G0(0, 1), G0(0, 0), G0(1, 0)>>)})
             \cup {Sc(G0(2, 0)), Sc(GQ(1, 2, 1, 1)), Vec(<<G0(0, 0), G0(1, 0), G0(0, 1)>>),
                   Mat(2, 2, <<G0(1, 0), G0(2, 0), G0(3, 0), G0(4, 0)>>),
                   Mat(2, 3, <<G0(1, 0), G0(2, 0), G0(3, 0), G0(4, 0), G0(5, 0), G0(6, 0)>>)}
SigNames == DOMAIN MatrixSig \cup {"sinc", "Sin", "transpose"}
ArgTuples == {<<a>> : a \in Exemplars} \cup {<<a, b>> : a \in Exemplars, b \in Exemplars}
             \cup {<<a, b, d>> : a \in Exemplars, b \in Exemplars, d \in Exemplars}

\* ------------------------------------------------------------------ cases
NoNz(n) == Tup([i \in 1..n |-> FALSE], n)
CallTerm(f, args, nz) == Fn(f, Tup([i \in 1..Len(args) |-> IF nz[i] THEN NegZeroT ELSE ArrayT(args[i])], Len(args)))
CallOut(tb, f, args, nz) == [toks |-> Spelling(CallTerm(f, args, nz)), o |-> Outcome(tb, f, args)]

UnaryFns == ScalarFns \cup {"re", "im", "conj"}
UnaryCases(tb, f) == [kind : {"unary"}, tb : {tb}, f : {f}, args : {<<Sc(z)>> : z \in Pts}, nz : {<<FALSE>>}]
                     \cup [kind : {"unary"}, tb : {tb}, f : {f}, args : {<<Sc(GZ)>>}, nz : {<<TRUE>>}]
RealPairs == {<<Sc(x), Sc(y)>> : x \in Reals2, y \in Reals2}
MixedPairs == {<<Sc(x), Sc(y)>> : x \in PairPts, y \in {GQ(1, 2, 1, 1), G0(0, 1), G0(2, 0), G0(0, 0)}}
AxM == QS({<<-1, 1>>, <<0, 1>>, <<1, 2>>, <<2, 1>>, <<-3, 2>>})
Triples == {<<Sc(GR(x)), Sc(GR(y)), Sc(GR(w))>> : x \in AxM, y \in AxM, w \in AxM}
Quads == {<<Sc(GR(x)), Sc(GR(y)), Sc(GR(w)), Sc(GR(v))>> : x \in {Q(-1, 1), Q(2, 1), Q(1, 2)}, y \in {Q(-1, 1), Q(2, 1), Q(1, 2)},
                                                           w \in {Q(-1, 1), Q(2, 1), Q(1, 2)}, v \in {Q(-1, 1), Q(2, 1), Q(1, 2)}}
ZeroFlags(args) == {nz \in [1..Len(args) -> BOOLEAN] : \A i \in 1..Len(args) : nz[i] => GIs0(args[i].e[1])}
\* (families only split the work between TLC workers: one seed per (table, function, family))
MultiFams == {"realpairs", "mixed", "triples", "quads", "allpairs"}
MultiArgs(f, fam) == CASE fam = "realpairs" -> IF f = "kronecker" THEN {} ELSE RealPairs
                       [] fam = "mixed" -> IF f = "kronecker" THEN {} ELSE MixedPairs
                       [] fam = "triples" -> IF f \in {"min", "max"} THEN Triples ELSE {}
                       [] fam = "quads" -> IF f \in {"min", "max"} THEN Quads ELSE {}
                       [] fam = "allpairs" -> IF f = "kronecker" THEN {<<Sc(x), Sc(y)>> : x \in PairPts, y \in PairPts} ELSE {}
MultiCases(tb, f, fam) == UNION {[kind : {"multi"}, tb : {tb}, f : {f}, args : {args},
                                  nz : {Tup(nz, Len(args)) : nz \in (IF f = "arctan2" THEN ZeroFlags(args) ELSE {NoNz(Len(args))})}]
                                 : args \in MultiArgs(f, fam)}
MatFams == {"scalars", "vec2", "vec3", "mat22", "mat33", "mat23", "mat32"}
MatFam(fam) == CASE fam = "scalars" -> ScalarsM [] fam = "vec2" -> Vec2s [] fam = "vec3" -> Vec3s [] fam = "mat22" -> Mat22s
                 [] fam = "mat33" -> Mat33s [] fam = "mat23" -> Mat23s [] fam = "mat32" -> Mat32s
MatrixCases(tb, f, fam) == IF f = "cross"
                           THEN [kind : {"matrix"}, tb : {tb}, f : {f}, args : {<<u, v>> : u \in MatFam(fam), v \in Vec3s}, nz : {NoNz(2)}]
                           ELSE [kind : {"matrix"}, tb : {tb}, f : {f}, args : {<<a>> : a \in MatFam(fam)}, nz : {NoNz(1)}]
SigCases(tb, f) == UNION {[kind : {"sig"}, tb : {tb}, f : {f}, args : {args}, nz : {NoNz(Len(args))}] : args \in ArgTuples}

IdentPts(d) == IF d.nv = 0 THEN {<<GZ, GZ>>}
               ELSE IF d.nv = 1 THEN {<<z, GZ>> : z \in {p \in (IF d.g = "int6" THEN IntPts ELSE Pts) : Guard(d.g, p, GZ)}}
               ELSE {pr \in {<<z, w>> : z \in PairPts, w \in PairPts} : Guard(d.g, pr[1], pr[2])}
IdentCases(tb, k) == [kind : {"ident"}, tb : {tb}, k : {k}, id : {Identities[k].id}, pt : IdentPts(Identities[k])]
IdentOut(cc) == LET inst == Instance(cc.k, cc.pt[1], cc.pt[2], cc.tb) IN
                [ltoks |-> Spelling(inst.l), rtoks |-> IF inst.rel = "eq" THEN Spelling(inst.r) ELSE <<>>,
                 rel |-> inst.rel, sl |-> inst.sl, sr |-> inst.sr, exact |-> inst.exact]

ConstCases == [kind : {"const"}, tb : Tables, name : {"i", "j", "e", "pi"}]

\* ------------------------------------------------------------------ two-level enumeration
TablesOf(p) == IF Quick /\ p \in {"multi", "ident"} THEN {"formula"} ELSE Tables
Seeds == CASE Part = "sig" -> {[kind |-> "seed", tb |-> tb, f |-> f] : tb \in Tables, f \in SigNames}
           [] Part = "unary" -> {[kind |-> "seed", tb |-> tb, f |-> f] : tb \in Tables, f \in UnaryFns}
           [] Part = "multi" -> {[kind |-> "seed", tb |-> tb, f |-> f, fam |-> fam] :
                                    tb \in TablesOf("multi"), f \in {"arctan2", "kronecker", "min", "max"}, fam \in MultiFams}
           [] Part = "matrix" -> {[kind |-> "seed", tb |-> "matrix", f |-> f, fam |-> fam] : f \in MatFns, fam \in MatFams}
                                 \cup {[kind |-> "seed", tb |-> "matrix", f |-> "cross", fam |-> fam] : fam \in {"vec3", "vec2", "scalars"}}
                                 \cup {[kind |-> "seed", tb |-> "formula", f |-> f, fam |-> fam] :
                                          f \in {"re", "im", "conj", "abs", "det"}, fam \in MatFams}
           [] Part = "tmpl" -> {[kind |-> "tmpl", k |-> k] : k \in 1..Len(Identities)}
           [] Part = "ident" -> {[kind |-> "seed", tb |-> tb, k |-> k] : tb \in TablesOf("ident"), k \in 1..Len(Identities)}
                                \cup {[kind |-> "seedconst"]}
\* identity templates (holes Z, W left in place) for the random driver of the adapter
TmplOut(k) == LET d == Identities[k] IN
              [id |-> d.id, ltoks |-> Spelling(d.l), rtoks |-> Spelling(d.r), rel |-> d.rel, nv |-> d.nv, g |-> d.g]
Init == c \in Seeds /\ out = (IF Part = "tmpl" THEN TmplOut(c.k) ELSE [k |-> "seed"])
Next == \/ /\ c.kind = "seed" /\ Part = "sig"
           /\ c' \in SigCases(c.tb, c.f) /\ out' = CallOut(c'.tb, c'.f, c'.args, c'.nz)
        \/ /\ c.kind = "seed" /\ Part = "unary"
           /\ c' \in UnaryCases(c.tb, c.f) /\ out' = CallOut(c'.tb, c'.f, c'.args, c'.nz)
        \/ /\ c.kind = "seed" /\ Part = "multi"
           /\ c' \in MultiCases(c.tb, c.f, c.fam) /\ out' = CallOut(c'.tb, c'.f, c'.args, c'.nz)
        \/ /\ c.kind = "seed" /\ Part = "matrix"
           /\ c' \in MatrixCases(c.tb, c.f, c.fam) /\ out' = CallOut(c'.tb, c'.f, c'.args, c'.nz)
        \/ /\ c.kind = "seed" /\ Part = "ident"
           /\ c' \in IdentCases(c.tb, c.k) /\ out' = IdentOut(c')
        \/ /\ c.kind = "seedconst"
           /\ c' \in ConstCases
           /\ out' = [toks |-> <<c'.name>>,
                      o |-> IF c'.name \in DOMAIN ConstExact THEN XS(ConstExact[c'.name])
                            ELSE [k |-> "between", lo |-> ConstBounds[c'.name][1], hi |-> ConstBounds[c'.name][2],
                                  nano |-> ConstNano[c'.name]]]
IsCall == c.kind \in {"sig", "unary", "multi", "matrix"}

\* ------------------------------------------------------------------ laws, one INVARIANT each
Z1 == c.args[1].e[1]
LawCall == IsCall => /\ LawOutcomeTotal(c.tb, c.f, c.args)
                     /\ LawRenderParses(CallTerm(c.f, c.args, c.nz))
                     /\ LawOnlyNaturalLiterals(CallTerm(c.f, c.args, c.nz))
\* wrong counts and shapes never get a value; right ones never get a count / shape error
LawSigPrecedence == (c.kind = "sig" /\ c.f \in DOMAIN SigOf(c.tb)) =>
   LET s == SigOf(c.tb)[c.f]
       okc == CountOK(s, Len(c.args))
       oks == \A i \in 1..Len(c.args) : ShapeOK(s.p, c.args[i]) IN
   /\ (~okc \/ ~oks) => Allowed(out.o) = "err"
   /\ (okc /\ oks) => ~(out.o.k = "err" /\ out.o.why \in {"argcount", "argshape", "undefined"})
LawUnary == c.kind = "unary" =>
   /\ LawDomain(c.f, Z1) /\ LawReciprocalDomain(c.f, Z1)
   /\ LawGaussTerm(Z1, c.tb)
   /\ IsRe(Z1) => (LawRanges(c.f, Z1[1]) /\ LawFloorCeil(Z1[1]))
   /\ SmallG(Z1) => LawConj(Z1)
   /\ WellSorted(CallTerm(c.f, c.args, c.nz), c.tb)
   \* a value is required exactly inside the domain
   /\ c.f \in ScalarFns => ((Allowed(out.o) = "val") <=> (Dom(c.f, Z1) = "in"))
   /\ c.f \in ScalarFns => ((Allowed(out.o) = "err") <=> (Dom(c.f, Z1) \in {"pole", "offdomain", "overflow"}))
LawMulti == c.kind = "multi" =>
   LET x == c.args[1].e[1]  y == c.args[2].e[1] IN
   /\ (c.f = "arctan2" /\ IsRe(x) /\ IsRe(y)) => LawAngle(x[1], y[1])
   /\ (c.f = "arctan2") => ((out.o.k = "err") <=> (~IsRe(x) \/ ~IsRe(y) \/ (GIs0(x) /\ GIs0(y))))
   /\ (c.f = "kronecker") => (LawKronecker(x, y) /\ LawAbsMultiplicative(x, y))
   /\ (c.f \in {"min", "max"} /\ out.o.k = "exact") =>
        LawMinMax(Tup([i \in 1..Len(c.args) |-> c.args[i].e[1][1]], Len(c.args)))
   \* min and max are symmetric in their arguments
   /\ (c.f \in {"min", "max"} /\ Len(c.args) = 2) => Outcome(c.tb, c.f, <<c.args[2], c.args[1]>>) = out.o
LawMatrix == c.kind = "matrix" =>
   /\ (c.f # "cross" /\ A!IsMatrix(c.args[1])) => (LawTranspose(c.args[1]) /\ LawSquare(c.args[1]))
   /\ (c.f = "cross" /\ c.args[1].sh = <<3>> /\ c.args[2].sh = <<3>>) => LawCross(c.args[1], c.args[2])
   /\ (c.f = "cross") => ((out.o.k = "exact") <=> (c.args[1].sh = <<3>> /\ c.args[2].sh = <<3>>))
   \* adj and ctrans are the same function; trans twice is the identity on outcomes
   /\ (c.f = "adj") => Outcome(c.tb, "ctrans", c.args) = out.o
   /\ (c.f = "norm" /\ out.o.k = "sqrtof") => out.o.q[1] >= 0
   /\ (c.f \in {"det", "trace"} /\ c.tb = "matrix") => ((out.o.k = "exact") <=> A!IsSquare(c.args[1]))
   /\ (c.tb = "formula" /\ c.f \notin DOMAIN FormulaSig) => out.o = MustErr("undefined")
LawIdent == c.kind = "ident" => LawInstance(Instance(c.k, c.pt[1], c.pt[2], c.tb), c.tb)
\* statuses: an identity must raise on the left exactly when some function is applied at one of its poles (or beyond
\* the floats); spot-checked for the round trips, where the only function applied to the point is the inverse
LawRoundTripStatus == (c.kind = "ident" /\ c.k \in {IdIndex("rt_" \o InvSeq[j]) : j \in 1..12}) =>
   LET f == CHOOSE g \in Inverses : "rt_" \o g = c.id
       d == Dom(f, c.pt[1]) IN
   /\ (d = "pole") <=> (out.sl = "err")
   /\ (d = "offreal") <=> (out.sl = "valOrErr")
   /\ out.sr = "val"
=============================================================================
