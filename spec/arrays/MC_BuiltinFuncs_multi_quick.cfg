INIT Init
NEXT Next
CONSTANTS
  Part = "multi"
  Tier = "quick"
INVARIANT LawCall
INVARIANT LawMulti
INVARIANT LawOverride
