INIT Init
NEXT Next
CONSTANTS
  Part = "tmpl"
  Tier = "quick"
