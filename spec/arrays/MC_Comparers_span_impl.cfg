INIT Init
NEXT Next
CONSTANTS
  Part = "span"
  Thorough = FALSE
INVARIANT ImplRefines_
