------------------------------ MODULE Comparers ------------------------------
(* Property-level specification for C16: each built-in comparer accepts exactly its documented equivalence class.

   Written from docs/grading_math/comparer_functions.md, docs/grading_math/matrix_grader/matrix_grader.md
   (sections "Shape-Mismatch Errors During Comparison", "Hiding All Error Messages", "Partial Credit") and the
   property statement, not from the code:

     congruence_comparer     x is accepted  iff  x = target (mod modulus)
     between_comparer        x is accepted  iff  x is real and start <= x <= stop
     eigenvector_comparer    v is accepted  iff  v # 0 and M v = lambda v          (hence every rescaling of v)
     vector_span_comparer    v is accepted  iff  v # 0 and v is a complex combination of the given vectors
     vector_phase_comparer   v is accepted  iff  v = u * target for some complex u with |u| = 1
     MatrixEntryComparer     credit 1 if every entry matches, 0 if none does, otherwise the flat rate or the fraction
                             of matching entries (an entry matches when it matches at every sample)
     LinearComparer          the largest configured credit among the relations equals / proportional / offset /
                             linear that hold between the student samples and the expected samples; proportional and
                             linear are not considered when either side is zero at every sample
     wrong shape             reported according to the mismatch policy (answer_shape_mismatch.is_raised / msg_detail,
                             suppress_matrix_messages; shape_errors for errors during evaluation), never graded

   Exactness.  All numbers live on a lattice: a value is  [shape, ent, den]  = the Gaussian integers ent divided by
   the positive integer den (den 2 gives half-integers, den 5 the 3-4-5 phases, ...).  Membership in every class is
   decided exactly: congruence by exact rational division, span membership by fraction-free elimination (rank),
   eigenvectors and phases by cross-multiplied equations.  "Within tolerance" enters in two ways only:
     * jit # 0  says that the real code is given the value shifted by tolerance/1000 in its first real coordinate
       (1e-7 under the absolute tolerance 1e-4; 1e-10 under the percentage tolerance 0.001 %, for vectors of norm
       >= 0.1); such a submission is within tolerance of the lattice value and must be treated like it.  Under the
       tolerances "tiny" (absolute 1e-12) and "zero" the same shift of 1e-7 is at least 1000 tolerances: the shifted
       coordinate is then clearly different (ShiftIsFar) -- one submission, judged differently by graders that differ
       only in their tolerance, which is what separates graders sharing one comparer object;
     * GuardOK(c) says that every sample is either exactly in the class or at least 1000 tolerances away from it
       (distances are computed exactly, through Gram determinants where a least-squares distance is needed).
   Cases that fail GuardOK are never generated (law LawGuard) so that rounding can never flip a verdict.

   Where the statement does not determine the outcome the allowed set has more than one element:
     * a non-real submission to congruence_comparer / between_comparer: not accepted, as a grade of zero or as any
       student-facing error; the same for a real value that arrives typed as a complex number (3 + 0*i, i^2 + 4)
       and is NOT in the class -- whereas such a value that is in the class must be accepted, because membership
       in the documented class does not depend on the type the value happens to have;
     * LinearComparer relations that hold in one direction only (student = a * expected + b with a = 0, or the
       converse): both readings are allowed;
     * LinearComparer with no applicable mode at all (equals not configured and one side zero): credit 0 or a
       student-facing error.                                                                                      *)
EXTENDS Integers, Sequences, FiniteSets, TLC, Rat

(* ------------------------------------------------------------------ Gaussian integers <<re, im>> *)
GZ == <<0, 0>>
G(n) == <<n, 0>>
GAdd(z, w) == <<z[1] + w[1], z[2] + w[2]>>
GSub(z, w) == <<z[1] - w[1], z[2] - w[2]>>
GNeg(z) == <<0 - z[1], 0 - z[2]>>
GMul(z, w) == <<z[1] * w[1] - z[2] * w[2], z[1] * w[2] + z[2] * w[1]>>
GScale(n, z) == <<n * z[1], n * z[2]>>
GConj(z) == <<z[1], 0 - z[2]>>
GAbs2(z) == z[1] * z[1] + z[2] * z[2]

(* ------------------------------------------------------------------ sequences of Gaussian integers *)
RECURSIVE GSum(_), SeqGcd(_)
GSum(s) == IF Len(s) = 0 THEN GZ ELSE GAdd(Head(s), GSum(Tail(s)))
Dot(u, v) == GSum([k \in 1..Len(u) |-> GMul(u[k], v[k])])                       \* bilinear
HDot(u, v) == GSum([k \in 1..Len(u) |-> GMul(GConj(u[k]), v[k])])               \* Hermitian <u, v>
N2(u) == HDot(u, u)[1]                                                          \* squared Euclidean norm
\* TLCEval forces TLC to build the tuple once (its function constructors are otherwise re-evaluated at every access)
SeqScale(z, u) == TLCEval([k \in 1..Len(u) |-> GMul(z, u[k])])
SeqAdd(u, v) == TLCEval([k \in 1..Len(u) |-> GAdd(u[k], v[k])])
SeqSub(u, v) == TLCEval([k \in 1..Len(u) |-> GSub(u[k], v[k])])
SeqIsZero(u) == \A k \in 1..Len(u) : u[k] = GZ
SeqIsConst(u) == \A k \in 1..Len(u) : u[k] = u[1]
SeqGcd(u) == IF Len(u) = 0 THEN 0 ELSE GCD(GCD(Abs(Head(u)[1]), Abs(Head(u)[2])), SeqGcd(Tail(u)))
\* primitive part (keeps the numbers of the elimination small)
Prim(u) == LET g == SeqGcd(u) IN
           IF g <= 1 THEN u ELSE TLCEval([k \in 1..Len(u) |-> <<u[k][1] \div g, u[k][2] \div g>>])
Ones(n) == TLCEval([k \in 1..n |-> G(1)])

(* rank of a sequence of equally long rows by fraction-free elimination *)
RECURSIVE RankFrom(_, _)
RankFrom(rows, col) ==
  IF Len(rows) = 0 THEN 0
  ELSE IF col > Len(rows[1]) THEN 0
  ELSE LET piv == {i \in 1..Len(rows) : rows[i][col] # GZ} IN
       IF piv = {} THEN RankFrom(rows, col + 1)
       ELSE LET p == CHOOSE i \in piv : \A j \in piv : i <= j
                pr == rows[p]
                rest == TLCEval([j \in 1..(Len(rows) - 1) |-> rows[IF j < p THEN j ELSE j + 1]])
                elim == TLCEval([j \in 1..Len(rest) |->
                           Prim(TLCEval([k \in 1..Len(pr) |-> GSub(GMul(pr[col], rest[j][k]), GMul(rest[j][col], pr[k]))]))])
            IN 1 + RankFrom(elim, col + 1)
Rank(rows) == RankFrom(rows, 1)
InSpan(v, vs) == Rank(Append(vs, v)) = Rank(vs)

\* a maximal independent subsequence
RECURSIVE BasisFrom(_, _)
BasisFrom(vs, acc) == IF Len(vs) = 0 THEN acc
                      ELSE IF Rank(Append(acc, Head(vs))) > Len(acc) THEN BasisFrom(Tail(vs), Append(acc, Head(vs)))
                      ELSE BasisFrom(Tail(vs), acc)
Basis(vs) == BasisFrom(vs, <<>>)

(* determinants (Laplace expansion, n <= 4) and Gram determinants: the squared distance of v from the span of an
   independent family b is  GramDet(b + v) / GramDet(b)  -- an exact rational, independent of the elimination above *)
RECURSIVE GDet(_)
MinorOf(A, j) == TLCEval([r \in 1..(Len(A) - 1) |-> [cc \in 1..(Len(A) - 1) |-> A[r + 1][IF cc < j THEN cc ELSE cc + 1]]])
GDet(A) == IF Len(A) = 0 THEN G(1)
           ELSE IF Len(A) = 1 THEN A[1][1]
           ELSE GSum([j \in 1..Len(A) |-> GMul(GScale(IF j % 2 = 1 THEN 1 ELSE -1, A[1][j]), GDet(MinorOf(A, j)))])
Gram(us) == TLCEval([i \in 1..Len(us) |-> [j \in 1..Len(us) |-> HDot(us[i], us[j])]])
GramDet(us) == GDet(Gram(us))[1]
Dist2ToSpan(v, vs) == LET b == Basis(vs) IN Q(GramDet(Append(b, v)), GramDet(b))          \* in lattice units

(* ------------------------------------------------------------------ values  ent / den *)
V(shape, ent, den) == [shape |-> shape, ent |-> ent, den |-> den]
Sc(z) == V(<<>>, <<z>>, 1)
ScQ(z, d) == V(<<>>, <<z>>, d)
Vc(ent) == V(<<Len(ent)>>, ent, 1)
VcQ(ent, d) == V(<<Len(ent)>>, ent, d)
Mt(r, c, ent) == V(<<r, c>>, ent, 1)
SizeOf(shape) == IF Len(shape) = 0 THEN 1 ELSE IF Len(shape) = 1 THEN shape[1] ELSE shape[1] * shape[2]
WellFormedVal(v) == v.den > 0 /\ Len(v.ent) = SizeOf(v.shape)
VIsZero(v) == SeqIsZero(v.ent)
VIsReal(v) == \A k \in 1..Len(v.ent) : v.ent[k][2] = 0
VEq(a, b) == a.shape = b.shape /\ \A k \in 1..Len(a.ent) : GScale(b.den, a.ent[k]) = GScale(a.den, b.ent[k])
VNorm2(v) == Q(N2(v.ent), v.den * v.den)
VRe(v) == Q(v.ent[1][1], v.den)                      \* real part of a scalar
VIm(v) == Q(v.ent[1][2], v.den)
VMul(z, zd, v) == V(v.shape, SeqScale(z, v.ent), v.den * zd)                 \* (z / zd) * v
VAdd(a, b) == V(a.shape, TLCEval([k \in 1..Len(a.ent) |-> GAdd(GScale(b.den, a.ent[k]), GScale(a.den, b.ent[k]))]), a.den * b.den)
VReduce(v) == LET g == GCD(v.den, SeqGcd(v.ent)) IN
              IF g <= 1 THEN v ELSE V(v.shape, TLCEval([k \in 1..Len(v.ent) |-> <<v.ent[k][1] \div g, v.ent[k][2] \div g>>]), v.den \div g)
\* matrix (shape <<r, c>>, row major) times a sequence of c entries
MatVec(M, u) == TLCEval([i \in 1..M.shape[1] |-> GSum([j \in 1..M.shape[2] |-> GMul(M.ent[(i - 1) * M.shape[2] + j], u[j])])])
MatRows(M) == TLCEval([i \in 1..M.shape[1] |-> [j \in 1..M.shape[2] |-> M.ent[(i - 1) * M.shape[2] + j]]])

(* ------------------------------------------------------------------ the five membership classes *)
\* x = t (mod m), all real scalars, m # 0
Congruent(x, t, m) == VIsReal(x) /\ Div(Sub(VRe(x), VRe(t)), VRe(m))[2] = 1
\* x real and a <= x <= b
Between(x, a, b) == VIsReal(x) /\ Leq(VRe(a), VRe(x)) /\ Leq(VRe(x), VRe(b))
\* v # 0 and M v = lam v        (M.ent v.ent / (M.den v.den) = lam.ent v.ent / (lam.den v.den))
EigenResidual(M, lam, v) == SeqSub(SeqScale(G(lam.den), MatVec(M, v.ent)), SeqScale(GScale(M.den, lam.ent[1]), v.ent))
Eigen(M, lam, v) == ~VIsZero(v) /\ SeqIsZero(EigenResidual(M, lam, v))
\* v # 0 and v in the complex span of vs (a sequence of vector values)
Ents(vs) == TLCEval([i \in 1..Len(vs) |-> vs[i].ent])
SpanMember(v, vs) == ~VIsZero(v) /\ InSpan(v.ent, Ents(vs))
\* v = u t with |u| = 1: read off u = v[k] / t[k] at a non-zero entry of t, then check both conditions exactly
PhaseEq(v, t) == \E k \in 1..Len(t.ent) :
                   /\ t.ent[k] # GZ
                   /\ \A j \in 1..Len(t.ent) : GMul(v.ent[j], t.ent[k]) = GMul(v.ent[k], t.ent[j])
                   /\ GAbs2(v.ent[k]) * t.den * t.den = GAbs2(t.ent[k]) * v.den * v.den

(* ------------------------------------------------------------------ MatrixEntryComparer *)
Flat(q) == [k |-> "flat", v |-> q]
Proportional == [k |-> "prop", v |-> Zero]
EntryCredit(matches, total, mode) == IF matches = total THEN One
                                     ELSE IF matches = 0 THEN Zero
                                     ELSE IF mode.k = "prop" THEN Q(matches, total) ELSE mode.v
\* es, ss: per-sample values of equal shape; an entry matches when it is equal at every sample
MatchingEntries(es, ss) == {k \in 1..Len(es[1].ent) :
                              \A s \in 1..Len(es) : GScale(ss[s].den, es[s].ent[k]) = GScale(es[s].den, ss[s].ent[k])}

(* ------------------------------------------------------------------ LinearComparer
   X, Y: flattened samples (Gaussian integers over the denominators dx, dy).  Rel(m, X, dx, Y, dy) reads
   "X = a Y + b" with (a, b) = (1, 0) | (a, 0) | (1, b) | (a, b).                                              *)
None == <<-1, 1>>
Modes == {"equals", "proportional", "offset", "linear"}
ZeroCompatible == {"equals", "offset"}
DiffSeq(X, dx, Y, dy) == TLCEval([k \in 1..Len(X) |-> GSub(GScale(dy, X[k]), GScale(dx, Y[k]))])        \* (X/dx - Y/dy) dx dy
RelEq(X, dx, Y, dy) == SeqIsZero(DiffSeq(X, dx, Y, dy))
RelProp(X, Y) == /\ \A i, j \in 1..Len(X) : GMul(X[i], Y[j]) = GMul(X[j], Y[i])
                 /\ SeqIsZero(Y) => SeqIsZero(X)
RelOff(X, dx, Y, dy) == SeqIsConst(DiffSeq(X, dx, Y, dy))
RelLin(X, Y) == /\ \A j, k \in 2..Len(X) : GMul(GSub(X[j], X[1]), GSub(Y[k], Y[1])) = GMul(GSub(X[k], X[1]), GSub(Y[j], Y[1]))
                /\ SeqIsConst(Y) => SeqIsConst(X)
Rel(m, X, dx, Y, dy) == CASE m = "equals" -> RelEq(X, dx, Y, dy)
                          [] m = "proportional" -> RelProp(X, Y)
                          [] m = "offset" -> RelOff(X, dx, Y, dy)
                          [] m = "linear" -> RelLin(X, Y)
\* both directions of every relation, evaluated once
RelTable(E, dE, S, dS) == TLCEval([m \in Modes |-> [fwd |-> Rel(m, E, dE, S, dS), bwd |-> Rel(m, S, dS, E, dE)]])
StrictOf(t) == {m \in Modes : t[m].fwd /\ t[m].bwd}
LooseOf(t) == {m \in Modes : t[m].fwd \/ t[m].bwd}
HoldsStrict(E, dE, S, dS) == StrictOf(RelTable(E, dE, S, dS))
HoldsLoose(E, dE, S, dS) == LooseOf(RelTable(E, dE, S, dS))
Configured(cfg) == {m \in Modes : cfg[m] # None}
EitherZero(E, S) == SeqIsZero(E) \/ SeqIsZero(S)
ValidModes(cfg, E, S) == IF EitherZero(E, S) THEN Configured(cfg) \cap ZeroCompatible ELSE Configured(cfg)
MaxCredit(cfg, R) == IF R = {} THEN Zero ELSE cfg[CHOOSE m \in R : \A n \in R : Leq(cfg[n], cfg[m])]
LinearCreditsT(cfg, t, E, S) ==                                   \* t = RelTable(E, dE, S, dS)
  LET v == ValidModes(cfg, E, S)
      lo == StrictOf(t) \cap v
      hi == LooseOf(t) \cap v
  IN {MaxCredit(cfg, R) : R \in {X \in SUBSET hi : lo \subseteq X}}
LinearCredits(cfg, E, dE, S, dS) == LinearCreditsT(cfg, RelTable(E, dE, S, dS), E, S)

(* ------------------------------------------------------------------ outcomes
   what the statement allows for a case is a set of tokens; what the code did is an observation record
     [k |-> "result", g |-> grade, ok |-> "true" | "false" | "partial", lvl |-> message level, cls |-> "-", sf |-> FALSE]
     [k |-> "raise",  g |-> Zero,  ok |-> "-", lvl |-> message level, cls |-> class family, sf |-> student-facing?]
   message level: "none" (empty) | "type" | "shape" (the two documented shape-mismatch messages) | "evalmsg"
   (a shape error message of the evaluation) | "other".                                                          *)
Grade(q) == [k |-> "grade", g |-> q, how |-> "-", lvl |-> "-"]
SFError == [k |-> "sferror", g |-> Zero, how |-> "-", lvl |-> "-"]
Mismatch(how, lvl) == [k |-> "mismatch", g |-> Zero, how |-> how, lvl |-> lvl]
EvalShape(how, lvl) == [k |-> "evalshape", g |-> Zero, how |-> how, lvl |-> lvl]
OkOf(q) == IF q = One THEN "true" ELSE IF q = Zero THEN "false" ELSE "partial"
Matches(o, a) ==
  CASE a.k = "grade" -> o.k = "result" /\ o.g = a.g /\ o.ok = OkOf(a.g) /\ o.lvl \in {"none", "other"}
    [] a.k = "sferror" -> o.k = "raise" /\ o.sf
    [] a.k = "mismatch" -> IF a.how = "raise" THEN o.k = "raise" /\ o.sf /\ o.cls = "InputTypeError" /\ o.lvl = a.lvl
                           ELSE o.k = "result" /\ o.g = Zero /\ o.ok = "false" /\ o.lvl = a.lvl
    [] a.k = "evalshape" -> IF a.how = "raise" THEN o.k = "raise" /\ o.sf /\ o.cls = "ShapeError" /\ o.lvl = a.lvl
                            ELSE o.k = "result" /\ o.g = Zero /\ o.ok = "false" /\ o.lvl = a.lvl

(* mismatch policy of MatrixGrader:  [raised, detail ("none" | "type" | "shape"), suppress, shapeErrors] *)
DefaultPolicy == [raised |-> TRUE, detail |-> "type", suppress |-> FALSE, shapeErrors |-> TRUE]
ShapeOutcome(p) == IF p.suppress THEN Mismatch("reject", "none")
                   ELSE Mismatch(IF p.raised THEN "raise" ELSE "reject", p.detail)
EvalShapeOutcome(p) == IF p.suppress THEN EvalShape("reject", "none")
                       ELSE IF p.shapeErrors THEN EvalShape("raise", "evalmsg") ELSE EvalShape("reject", "evalmsg")
\* the documented wording of the messages (implementation detail: compared as drift only)
TypeName(shape) == CASE Len(shape) = 0 -> "scalar" [] Len(shape) = 1 -> "vector" [] Len(shape) = 2 -> "matrix" [] OTHER -> "tensor"
MessageModel(p, exp, got) ==
  IF p.suppress \/ p.detail = "none" THEN [form |-> "empty", exp |-> exp, got |-> got, same |-> FALSE]
  ELSE IF p.detail = "type" THEN [form |-> "type", exp |-> exp, got |-> got, same |-> TypeName(exp) = TypeName(got)]
  ELSE [form |-> "shape", exp |-> exp, got |-> got, same |-> FALSE]

(* ------------------------------------------------------------------ cases
   [kind, tol ("abs" = 1e-4 | "pct" = 0.001 % | "zero" | "tiny" = 1e-12), jit (-1 | 0 | 1), policy, evalerr,
    typed (the submission is of complex type even where its value is real),
    P (per sample: sequence of parameter values), S (per sample: the submission), mode (entry), cfg (linear)]   *)
Kinds == {"cong", "between", "eigen", "span", "phase", "entry", "linear", "equal"}
HasPolicy(kind) == kind \notin {"cong", "between"}
NSamples(c) == Len(c.S)
ExpShape(c) == CASE c.kind \in {"cong", "between"} -> <<>>
                 [] c.kind = "eigen" -> <<c.P[1][1].shape[1]>>
                 [] OTHER -> c.P[1][1].shape
WrongShape(c) == HasPolicy(c.kind) /\ c.S[1].shape # ExpShape(c)
WellFormedCase(c) ==
  /\ c.kind \in Kinds /\ c.tol \in {"abs", "pct", "zero", "tiny"} /\ c.jit \in {-1, 0, 1} /\ c.typed \in BOOLEAN
  /\ Len(c.S) >= 1 /\ Len(c.P) = Len(c.S)
  /\ \A s \in 1..Len(c.S) : /\ WellFormedVal(c.S[s]) /\ c.S[s].shape = c.S[1].shape
                            /\ Len(c.P[s]) = Len(c.P[1])
                            /\ \A i \in 1..Len(c.P[s]) : WellFormedVal(c.P[s][i]) /\ c.P[s][i].shape = c.P[1][i].shape
  /\ c.kind = "linear" => /\ Len(c.S) >= 3
                          /\ \A s \in 1..Len(c.S) : c.S[s].den = c.S[1].den /\ c.P[s][1].den = c.P[1][1].den
  /\ c.kind \in {"cong", "between"} => \A s \in 1..Len(c.S) : c.S[s].shape = <<>>
  /\ c.kind = "cong" => \A s \in 1..Len(c.S) : c.P[s][2].ent[1] # GZ
  /\ c.kind = "phase" => \A s \in 1..Len(c.S) : ~VIsZero(c.P[s][1])

MemberAt(c, s) ==
  CASE c.kind = "cong" -> Congruent(c.S[s], c.P[s][1], c.P[s][2])
    [] c.kind = "between" -> Between(c.S[s], c.P[s][1], c.P[s][2])
    [] c.kind = "eigen" -> Eigen(c.P[s][1], c.P[s][2], c.S[s])
    [] c.kind = "span" -> SpanMember(c.S[s], c.P[s])
    [] c.kind = "phase" -> PhaseEq(c.S[s], c.P[s][1])
    [] c.kind = "equal" -> VEq(c.S[s], c.P[s][1])
AllMember(c) == \A s \in 1..NSamples(c) : MemberAt(c, s)
AllReal(c) == \A s \in 1..NSamples(c) : VIsReal(c.S[s])

RECURSIVE FlatEnts(_)
FlatEnts(vals) == IF Len(vals) = 0 THEN <<>> ELSE Head(vals).ent \o FlatEnts(Tail(vals))
LinE(c) == FlatEnts([s \in 1..NSamples(c) |-> c.P[s][1]])
LinS(c) == FlatEnts(c.S)
LinCredits(c) == LinearCredits(c.cfg, LinE(c), c.P[1][1].den, LinS(c), c.S[1].den)
NoModeApplies(c) == ValidModes(c.cfg, LinE(c), LinS(c)) = {}

\* the shift of the first real coordinate (1e-7) is at least 1000 tolerances of the grading grader
ShiftIsFar(c) == c.jit # 0 /\ c.tol \in {"tiny", "zero"}
\* student = expected, and the samples other than the first are not all equal: shifting the first student sample alone
\* breaks every relation in both directions (the other points fix the line student = expected, the first one leaves it)
ShiftBreaksAll(c) == LET E == LinE(c)   S == LinS(c) IN
                     /\ RelEq(E, c.P[1][1].den, S, c.S[1].den)
                     /\ \E j, k \in 2..Len(E) : E[j] # E[k]
Allowed(c) ==
  IF c.evalerr THEN {EvalShapeOutcome(c.policy)}
  ELSE IF WrongShape(c) THEN {ShapeOutcome(c.policy)}
  ELSE CASE c.kind \in {"cong", "between"} ->
              IF ~AllReal(c) THEN {Grade(Zero), SFError}
              ELSE IF ~AllMember(c) THEN (IF c.typed THEN {Grade(Zero), SFError} ELSE {Grade(Zero)})
              ELSE {Grade(One)}
         [] c.kind \in {"eigen", "span", "phase", "equal"} -> IF AllMember(c) THEN {Grade(One)} ELSE {Grade(Zero)}
         [] c.kind = "entry" ->
              {Grade(EntryCredit(Cardinality(MatchingEntries([s \in 1..NSamples(c) |-> c.P[s][1]], c.S)
                                             \ (IF ShiftIsFar(c) THEN {1} ELSE {})),
                                 Len(c.S[1].ent), c.mode))}
         [] c.kind = "linear" /\ ShiftIsFar(c) -> {Grade(Zero)}                       \* (generated only with ShiftBreaksAll)
         [] c.kind = "linear" /\ ~ShiftIsFar(c) -> {Grade(q) : q \in LinCredits(c)} \cup (IF NoModeApplies(c) THEN {SFError} ELSE {})

RelationOf(c, allowed) ==
  IF c.evalerr THEN "evalerr"
  ELSE IF WrongShape(c) THEN "wrongshape"
  ELSE IF c.kind \in {"cong", "between"} /\ (~AllReal(c) \/ (c.typed /\ ~AllMember(c))) THEN "silent"
  ELSE IF Cardinality(allowed) > 1 THEN "ambiguous"
  ELSE IF allowed = {Grade(One)} THEN "member"
  ELSE IF allowed = {Grade(Zero)} THEN "nonmember"
  ELSE "partial"
Relation(c) == RelationOf(c, Allowed(c))

(* ------------------------------------------------------------------ implementation-shaped decision procedures
   How the code decides (one operator per code block of comparers.py / linear_comparer.py), on the same exact lattice
   values.  These operators EXPLAIN, they never decide a verdict: the model instance compares every observation with
   ImplOutcome as well and reports a mismatch as DRIFT.  ImplOutcome(c, flaws) models the CURRENT code for
   flaws = {}; each element of flaws switches one code block back to the way it was written before it was repaired
   (the model variants are kept so that TLC keeps exhibiting the design-level counterexamples, and as a vacuity guard
   of ImplRefines: a variant that stops violating it means the refinement check has lost its teeth).

   current code
     between                a non-real value is refused with "Input must be real."; a real value of complex type is
                            replaced by its real part before it is ordered
     congruence             a real value of complex type is replaced by its real part; both sides are reduced modulo m
                            and compared directly and one period up and down (a circle, not a line); a non-real value
                            raises TypeError in "x % m", which the grader turns into the generic error
     eigenvector            M v is compared with lambda v relative to |M v|: for the eigenvalue 0 the percentage
                            tolerance has radius 0 and anything but an exactly vanishing M v is refused
                            (NOT repaired: DeviationClass "eigen-zero-eigenvalue-percent-tolerance")
     vector_span            least squares, then the norm of  v - A x  itself
     LinearComparer         "equals" and "offset" errors are sqrt(sum |x - y|^2); proportional and linear use least
                            squares of  expected = a * student + b  (a constant student falls back to offset);
                            max() over no applicable mode raises
   variants (the code before the repairs)
     "OriginalComplexOrdering"    between / congruence: a value of complex type reaches "start <= x <= stop" / "x % m",
                                  which raise TypeError -> generic "Could not check input" error       (92e118a, 230ee1e)
     "OriginalCongruenceLinear"   congruence: the reduced values are compared on a line: a shift by tolerance/1000 below
                                  a multiple of m (target = 0 mod m) lands at the far end of the residue interval (230ee1e)
     "OriginalSpanResidual"       vector_span: the residual array of numpy.linalg.lstsq is used, which is EMPTY (norm 0)
                                  when the system is rank deficient or has no more rows than columns       (1c05874)
     "OriginalLinearSquares"      LinearComparer: sqrt(sum((x - y)^2)) WITHOUT moduli: for complex samples the sum of
                                  squares can vanish although x # y                                        (8219f0b) *)
FlawNames == {"OriginalComplexOrdering", "OriginalCongruenceLinear", "OriginalSpanResidual", "OriginalLinearSquares",
              "AliasedModeFilter", "StickyEntryTolerance"}        \* (the last two: see "comparer objects and call histories")
SqSum(D) == GSum([k \in 1..Len(D) |-> GMul(D[k], D[k])])
OriginalSpanAccept(v, vs) == Rank(vs) < Len(vs) \/ Len(v) <= Len(vs) \/ InSpan(v, vs)
ImplSpanAccept(v, vs, flaws) == IF "OriginalSpanResidual" \in flaws THEN OriginalSpanAccept(v, vs) ELSE InSpan(v, vs)
\* a vanishing sum of squares of a non-zero sequence is an exact cancellation: the tolerance/1000 shift of the first
\* term (jit # 0) destroys it unless that term is itself zero
OriginalSqZero(T, jit) == SqSum(T) = GZ /\ (jit = 0 \/ SeqIsZero(T) \/ T[1] = GZ)
ImplSqZero(T, jit, flaws) == IF "OriginalLinearSquares" \in flaws THEN OriginalSqZero(T, jit) ELSE SeqIsZero(T)
ImplOffsetZero(X, dx, Y, dy, jit, flaws) ==
  LET D == DiffSeq(Y, dy, X, dx)   n == Len(D)   tot == GSum(D)
  IN ImplSqZero(TLCEval([k \in 1..n |-> GSub(tot, GScale(n, D[k]))]), jit, flaws)            \* n (mean - d[k])
\* error_calculators[m](student S, expected E) vanishes
ImplFitZero(m, E, dE, S, dS, jit, flaws) ==
  CASE m = "equals" -> ImplSqZero(DiffSeq(S, dS, E, dE), jit, flaws)
    [] m = "proportional" -> RelProp(E, S)
    [] m = "offset" -> ImplOffsetZero(S, dS, E, dE, jit, flaws)
    [] m = "linear" -> IF SeqIsConst(S) THEN ImplOffsetZero(S, dS, E, dE, jit, flaws) ELSE RelLin(E, S)
SignOf(q) == IF q[1] > 0 THEN 1 ELSE IF q[1] < 0 THEN -1 ELSE 0
JitterWraps(c) == c.jit # 0 /\ Div(VRe(c.P[1][1]), VRe(c.P[1][2]))[2] = 1 /\ c.jit * SignOf(VRe(c.P[1][2])) < 0
\* eigenvalue 0, percentage tolerance, and the tolerance/1000 shift of the first coordinate makes M v non-zero
EigenZeroShift(c) == /\ c.tol = "pct" /\ c.jit # 0 /\ VIsZero(c.P[1][2])
                     /\ \E i \in 1..c.P[1][1].shape[1] : c.P[1][1].ent[(i - 1) * c.P[1][1].shape[2] + 1] # GZ
ImplOutcome(c, flaws) ==
  IF c.evalerr \/ WrongShape(c) THEN CHOOSE a \in Allowed(c) : TRUE
  ELSE CASE c.kind \in {"cong", "between"} ->
              IF ~AllReal(c) \/ (c.typed /\ "OriginalComplexOrdering" \in flaws) THEN SFError
              ELSE IF ~AllMember(c) THEN Grade(Zero)
              ELSE IF c.kind = "cong" /\ "OriginalCongruenceLinear" \in flaws /\ JitterWraps(c) THEN Grade(Zero)
              ELSE Grade(One)
         [] c.kind = "eigen" ->
              IF AllMember(c) /\ EigenZeroShift(c) THEN Grade(Zero) ELSE CHOOSE a \in Allowed(c) : TRUE
         [] c.kind = "span" ->
              IF \A s \in 1..NSamples(c) : ~VIsZero(c.S[s]) /\ ImplSpanAccept(c.S[s].ent, Ents(c.P[s]), flaws)
              THEN Grade(One) ELSE Grade(Zero)
         [] c.kind = "linear" /\ ShiftIsFar(c) -> Grade(Zero)
         [] c.kind = "linear" /\ ~ShiftIsFar(c) ->
              LET E == LinE(c)  dE == c.P[1][1].den  S == LinS(c)  dS == c.S[1].den   v == ValidModes(c.cfg, E, S) IN
              IF v = {} THEN SFError ELSE Grade(MaxCredit(c.cfg, {m \in v : ImplFitZero(m, E, dE, S, dS, c.jit, flaws)}))
         [] OTHER -> CHOOSE a \in Allowed(c) : TRUE
ImplRefines(c, flaws) == ImplOutcome(c, flaws) \in Allowed(c)
\* the circumscribed situations in which the implementation-shaped model (with the given variants) leaves the class
DeviationClass(c, flaws) ==
  IF c.evalerr \/ WrongShape(c) THEN "none"
  ELSE IF "OriginalComplexOrdering" \in flaws /\ c.kind \in {"cong", "between"} /\ c.typed /\ AllReal(c) /\ AllMember(c)
       THEN (IF c.kind = "between" THEN "between-real-typed-complex" ELSE "congruence-real-typed-complex")
  ELSE IF "OriginalCongruenceLinear" \in flaws /\ c.kind = "cong" /\ AllReal(c) /\ AllMember(c) /\ JitterWraps(c)
       THEN "congruence-wraparound"
  ELSE IF c.kind = "eigen" /\ AllMember(c) /\ EigenZeroShift(c) THEN "eigen-zero-eigenvalue-percent-tolerance"
  ELSE IF "OriginalSpanResidual" \in flaws /\ c.kind = "span" /\ ~AllMember(c)
          /\ \E s \in 1..NSamples(c) : Rank(Ents(c.P[s])) < Len(c.P[s]) \/ Len(c.S[s].ent) <= Len(c.P[s])
       THEN "span-rank-deficient"
  ELSE IF "OriginalLinearSquares" \in flaws /\ c.kind = "linear"
          /\ ~(\A s \in 1..NSamples(c) : VIsReal(c.S[s]) /\ VIsReal(c.P[s][1]))
       THEN "linear-complex-sum-of-squares"
  ELSE "none"
LawImplDeviatesOnlyThere(c, flaws) == ImplRefines(c, flaws) \/ DeviationClass(c, flaws) # "none"

(* ------------------------------------------------------------------ comparer objects and call histories
   The statement speaks about a comparer and one submission: the outcome of a call depends on that call only, whatever
   the same comparer object -- or a grader object using it, or another grader sharing it (set_default_comparer, one
   LinearComparer() passed to several graders) -- was asked before.
   Property level: the allowed outcomes of a history of calls are the allowed outcomes of its calls, one by one.
   Implementation-shaped: a LinearComparer object keeps the tuple of its configured modes; when a side of the
   comparison is zero the current code filters a COPY of it.  The variant "AliasedModeFilter" filters the object's own
   list in place: the first zero submission (or zero expected value) removes proportional and linear for every later
   call on that object.  (Not a defect the code ever had: a seeded change the check missed while every case was
   replayed on a fresh object; the variant is kept as vacuity guard of the history instance.)                    *)
HistoryAllowed(calls) == [i \in 1..Len(calls) |-> Allowed(calls[i])]
LawHistoryIndependent(calls) == \A i, j \in 1..Len(calls) : calls[i] = calls[j] => HistoryAllowed(calls)[i] = HistoryAllowed(calls)[j]
Graded(c) == ~(c.evalerr \/ WrongShape(c))
(* object state of the implementation-shaped model: the modes a LinearComparer object still considers, and the tolerance
   a MatrixEntryComparer object compares entries with ("own" = the tolerance of whichever grader is calling).
   The current code keeps no state: a comparer receives the calling grader's utils (tolerance, shape validation) with
   every call, so that graders sharing one comparer object -- explicitly, or through set_default_comparer -- are each
   judged under their own configuration.  Variants:
     "AliasedModeFilter"      LinearComparer filters its own mode list in place when a side is zero
     "StickyEntryTolerance"   MatrixEntryComparer builds its entrywise comparison once and keeps it: every later call is
                              judged with the tolerance of the FIRST grader that used the object                 *)
ObjInit(cfg) == [modes |-> Configured(cfg), tol |-> "own"]
ObjNext(st, c, flaws) ==
  IF ~Graded(c) THEN st
  ELSE IF c.kind = "linear" /\ "AliasedModeFilter" \in flaws /\ ~ShiftIsFar(c) /\ EitherZero(LinE(c), LinS(c))
       THEN [st EXCEPT !.modes = @ \cap ZeroCompatible]
  ELSE IF c.kind = "entry" /\ "StickyEntryTolerance" \in flaws /\ st.tol = "own" THEN [st EXCEPT !.tol = c.tol]
  ELSE st
ImplOutcomeOnObject(c, st, flaws) ==
  IF ~Graded(c) THEN ImplOutcome(c, flaws)
  ELSE IF c.kind = "linear" /\ ~ShiftIsFar(c)
  THEN LET E == LinE(c)  dE == c.P[1][1].den  S == LinS(c)  dS == c.S[1].den
           v == IF EitherZero(E, S) THEN st.modes \cap ZeroCompatible ELSE st.modes
       IN IF v = {} THEN SFError ELSE Grade(MaxCredit(c.cfg, {m \in v : ImplFitZero(m, E, dE, S, dS, c.jit, flaws)}))
  ELSE IF c.kind = "entry" /\ st.tol # "own" THEN ImplOutcome([c EXCEPT !.tol = st.tol], flaws)
  ELSE ImplOutcome(c, flaws)
\* on a fresh object the stateful model is the stateless one
LawFreshObject(c, flaws) == ImplOutcomeOnObject(c, ObjInit(c.cfg), flaws) = ImplOutcome(c, flaws)

(* ------------------------------------------------------------------ overflow-aware comparison of non-negative rationals *)
RECURSIVE CmpFrac(_, _, _, _)
\* sign of a/b - c/d for a, c >= 0 and b, d > 0 (continued fractions: no product of a numerator with a denominator)
CmpFrac(a, b, cc, d) ==
  LET qa == a \div b   qc == cc \div d   ra == a % b   rc == cc % d IN
  IF qa < qc THEN -1 ELSE IF qa > qc THEN 1
  ELSE IF ra = 0 /\ rc = 0 THEN 0
  ELSE IF ra = 0 THEN -1
  ELSE IF rc = 0 THEN 1
  ELSE 0 - CmpFrac(b, ra, d, rc)
SLeq(x, y) == CmpFrac(x[1], x[2], y[1], y[2]) <= 0
SMul(a, b) == IF a[1] = 0 \/ b[1] = 0 THEN Zero
              ELSE LET g1 == GCD(Abs(a[1]), b[2])   g2 == GCD(Abs(b[1]), a[2])
                   IN <<(a[1] \div g1) * (b[1] \div g2), (a[2] \div g2) * (b[2] \div g1)>>

(* ------------------------------------------------------------------ guard band
   Bound(c, mag2) = (1000 * tolerance radius)^2 where the radius is 1e-4 (abs) or 1e-5 * magnitude (pct).          *)
Bound(c, mag2) == IF c.tol = "abs" THEN <<1, 100>> ELSE IF c.tol = "pct" THEN SMul(mag2, <<1, 10000>>) ELSE Zero
Far(c, gap2, mag2) == SLeq(Bound(c, mag2), gap2) /\ (c.tol # "zero" => gap2[1] > 0)
Sq(q) == Mul(q, q)
RMax3(a, b, d) == RMax(a, RMax(b, d))
CongGap2(x, t, m) == LET r == Div(Sub(VRe(x), VRe(t)), VRe(m))
                         fl == Floor(r)
                         frac == RMin(Sub(r, <<fl, 1>>), Sub(<<fl + 1, 1>>, r))
                     IN Sq(Mul(frac, RAbs(VRe(m))))
BetweenGap2(x, a, b) == IF Lt(VRe(b), VRe(a)) THEN <<1000, 1>>
                        ELSE IF Lt(VRe(x), VRe(a)) THEN Sq(Sub(VRe(a), VRe(x)))
                        ELSE IF Lt(VRe(b), VRe(x)) THEN Sq(Sub(VRe(x), VRe(b))) ELSE Zero
ScalarMag2(c, s) == RMax3(VNorm2(c.S[s]), VNorm2(c.P[s][1]), VNorm2(c.P[s][2]))
\* the circle { u t : |u| = 1 } lies in the span of t and on the sphere of radius |t|: the distance of v from it is at
\* least the distance from the span and at least | |v| - |t| | >= | |v|^2 - |t|^2 | / (2 max(|v|, |t|)).  With
\* d = | |v|^2 - |t|^2 | and mx = max(|v|^2, |t|^2) the second bound reads d^2 / (4 mx) >= Bound; it is used in the
\* square-free sufficient forms  d >= 1 /\ d >= mx / 25  (abs)  and  d >= mx / 50  (pct).
NormFar(c, d, mx) == CASE c.tol = "abs" -> IF d[1] <= 40000 THEN SLeq(SMul(mx, <<1, 25>>), SMul(d, d))        \* exact while it cannot overflow
                                           ELSE SLeq(One, d) /\ SLeq(SMul(mx, <<1, 25>>), d)
                       [] c.tol = "pct" -> d[1] > 0 /\ SLeq(SMul(mx, <<1, 50>>), d)
                       [] OTHER -> d[1] > 0
PhaseFar(c, v, t) ==
  LET nv == VNorm2(v)   nt == VNorm2(t)   mx == RMax(nv, nt) IN
  \/ Far(c, Div(Dist2ToSpan(v.ent, <<t.ent>>), <<v.den * v.den, 1>>), mx)
  \/ NormFar(c, RAbs(Sub(nv, nt)), mx)
FarAt(c, s) ==
  CASE c.kind = "cong" -> IF VIsReal(c.S[s]) THEN Far(c, CongGap2(c.S[s], c.P[s][1], c.P[s][2]), ScalarMag2(c, s))
                          ELSE Far(c, Sq(VIm(c.S[s])), ScalarMag2(c, s))
    [] c.kind = "between" -> IF VIsReal(c.S[s]) THEN Far(c, BetweenGap2(c.S[s], c.P[s][1], c.P[s][2]), ScalarMag2(c, s))
                             ELSE Far(c, Sq(VIm(c.S[s])), ScalarMag2(c, s))
    [] c.kind = "eigen" ->
         LET M == c.P[s][1]   lam == c.P[s][2]   v == c.S[s]
             res2 == Q(N2(EigenResidual(M, lam, v)), (M.den * lam.den * v.den) * (M.den * lam.den * v.den))
             mv2 == Q(N2(MatVec(M, v.ent)), (M.den * v.den) * (M.den * v.den))
         IN VIsZero(v) \/ (Far(c, VNorm2(v), VNorm2(v)) /\ Far(c, res2, RMax(mv2, VNorm2(v))))
    [] c.kind = "span" ->
         LET v == c.S[s]   b == Basis(Ents(c.P[s])) IN
         VIsZero(v) \/ (Far(c, VNorm2(v), VNorm2(v))
                        /\ (Len(b) <= 3 => Far(c, Div(Dist2ToSpan(v.ent, Ents(c.P[s])), <<v.den * v.den, 1>>), VNorm2(v))))
    [] c.kind = "phase" -> PhaseFar(c, c.S[s], c.P[s][1])
    [] c.kind = "equal" -> LET d == VAdd(c.S[s], VMul(G(-1), 1, c.P[s][1])) IN Far(c, VNorm2(d), RMax(VNorm2(c.S[s]), VNorm2(c.P[s][1])))
    [] OTHER -> TRUE
\* an accepted vector is clearly different from the zero vector
MemberClear(c, s) == c.kind \in {"eigen", "span", "phase"} => Far(c, VNorm2(c.S[s]), VNorm2(c.S[s]))
EntryGuard(c) == \A s \in 1..NSamples(c) : \A k \in 1..Len(c.S[s].ent) :
                   LET e == ScQ(c.P[s][1].ent[k], c.P[s][1].den)   x == ScQ(c.S[s].ent[k], c.S[s].den) IN
                   VEq(e, x) \/ Far(c, VNorm2(VAdd(x, VMul(G(-1), 1, e))), RMax(VNorm2(e), VNorm2(x)))
\* least-squares residuals of the four fits "X = a Y + b" (squared, in true units)
FitRes2(m, X, dx, Y, dy) ==
  CASE m = "equals" -> Q(N2(DiffSeq(X, dx, Y, dy)), (dx * dy) * (dx * dy))
    [] m = "proportional" -> Div(Dist2ToSpan(X, <<Y>>), <<dx * dx, 1>>)
    [] m = "offset" -> Div(Dist2ToSpan(DiffSeq(X, dx, Y, dy), <<Ones(Len(X))>>), <<(dx * dy) * (dx * dy), 1>>)
    [] m = "linear" -> Div(Dist2ToSpan(X, <<Y, Ones(Len(X))>>), <<dx * dx, 1>>)
LinearGuard(c) ==
  LET E == LinE(c)  dE == c.P[1][1].den  S == LinS(c)  dS == c.S[1].den
      mag2 == RMax(Q(N2(E), dE * dE), Q(N2(S), dS * dS))
  IN /\ \A m \in Modes \ HoldsLoose(E, dE, S, dS) :
          Far(c, FitRes2(m, E, dE, S, dS), mag2) /\ Far(c, FitRes2(m, S, dS, E, dE), mag2)
     /\ SeqIsZero(S) \/ Far(c, Q(N2(S), dS * dS), mag2)
(* A percentage of zero is zero: where the reference of a percentage tolerance vanishes (eigenvalue 0: M v = 0 has no
   scale; a target congruent to 0: the reduced expected value is 0) and under the tolerance 0, the tolerance band has
   radius 0 and a member is ON its boundary: exact equality is what a percentage tolerance then documents, and the
   specification demands no more than that -- such cases are judged only where floating point reproduces the exact
   equality, i.e. for power-of-two denominators and without the tolerance/1000 shift (DESIGN 2.5: boundary values only
   where exact in binary).  The one exception is the eigenvector comparer: there the statement promises acceptance
   "under any rescaling of v", so the shifted eigenvector of the eigenvalue 0 stays in the generated space
   (DeviationClass "eigen-zero-eigenvalue-percent-tolerance"; on the real code also [0.3, -0.1] for [[1,3],[3,9]]). *)
RECURSIVE IsPow2(_)
IsPow2(d) == d = 1 \/ (d % 2 = 0 /\ IsPow2(d \div 2))
ExactArithmetic(c) == \A s \in 1..NSamples(c) : IsPow2(c.S[s].den) /\ \A i \in 1..Len(c.P[s]) : IsPow2(c.P[s][i].den)
ZeroReference(c, s) == c.tol = "pct" /\ ((c.kind = "eigen" /\ VIsZero(c.P[s][2]))
                                       \/ (c.kind = "cong" /\ Div(VRe(c.P[s][1]), VRe(c.P[s][2]))[2] = 1))
OnBoundary(c) == c.tol = "zero" \/ \E s \in 1..NSamples(c) : ZeroReference(c, s)
\* the shift tolerance/1000 is 1e-10 under the percentage tolerance: meaningful for vectors of norm >= 0.1 only
JitterOK(c) == c.jit # 0 => \/ c.tol = "abs"
                            \/ ShiftIsFar(c) /\ c.kind = "entry"
                            \/ c.tol = "tiny" /\ c.kind = "linear" /\ ShiftBreaksAll(c)
                            \/ c.tol = "pct" /\ c.kind \in {"eigen", "span", "phase"} /\ Leq(<<1, 100>>, VNorm2(c.S[1]))
GuardOK(c) ==
  IF c.evalerr \/ WrongShape(c) THEN TRUE
  ELSE /\ OnBoundary(c) => ExactArithmetic(c)
       /\ JitterOK(c)
       /\ IF c.kind = "entry" THEN EntryGuard(c)
          ELSE IF c.kind = "linear" THEN LinearGuard(c)
          ELSE \A s \in 1..NSamples(c) : IF MemberAt(c, s) THEN MemberClear(c, s) ELSE FarAt(c, s)

(* ------------------------------------------------------------------ laws (instantiated by the model instance) *)
TokenOK(a) == /\ a.k \in {"grade", "sferror", "mismatch", "evalshape"}
              /\ a.k = "grade" => Leq(Zero, a.g) /\ Leq(a.g, One)
              /\ a.k = "mismatch" => a.how \in {"raise", "reject"} /\ a.lvl \in {"none", "type", "shape"}
\* (al = Allowed(c), passed in so that the model instance evaluates it once)
LawOutcomeWellFormed(c, al) == al # {} /\ \A a \in al : TokenOK(a)
\* a wrong shape is never graded, whatever the policy; suppression always yields a silent rejection
LawWrongShapeNeverGraded(c, al) == (WrongShape(c) \/ c.evalerr) => \A a \in al : a.k \in {"mismatch", "evalshape"}
LawSuppressSilent(c, al) == (WrongShape(c) \/ c.evalerr) /\ c.policy.suppress => \A a \in al : a.how = "reject" /\ a.lvl = "none"
\* congruence: invariant under shifts by the modulus and under the sign of the modulus; reflexive
LawCongruence(x, t, m) == /\ Congruent(t, t, m)
                          /\ Congruent(x, t, m) <=> Congruent(VAdd(x, m), t, m)
                          /\ Congruent(x, t, m) <=> Congruent(x, t, VMul(G(-1), 1, m))
                          /\ VIsReal(x) => (Congruent(x, t, m) <=> Congruent(t, x, m))
                          /\ Congruent(x, t, m) <=> (VIsReal(x) /\ CongGap2(x, t, m) = Zero)
\* between: the bounds themselves are members, the class is empty when start > stop, membership is convex
LawBetween(x, a, b) == /\ Leq(VRe(a), VRe(b)) => Between(a, a, b) /\ Between(b, a, b)
                       /\ Lt(VRe(b), VRe(a)) => ~Between(x, a, b)
                       /\ Between(x, a, b) <=> (VIsReal(x) /\ BetweenGap2(x, a, b) = Zero)
\* eigenvectors: closed under every non-zero rescaling; an eigenvector forces det(M - lam I) = 0
CharMatrix(M, lam) == TLCEval([i \in 1..M.shape[1] |-> [j \in 1..M.shape[2] |->
                         GSub(GScale(lam.den, M.ent[(i - 1) * M.shape[2] + j]), IF i = j THEN GScale(M.den, lam.ent[1]) ELSE GZ)]])
LawEigenScaling(M, lam, v, z, zd) == z # GZ => (Eigen(M, lam, v) <=> Eigen(M, lam, VMul(z, zd, v)))
LawEigenCharacteristic(M, lam, v) == Eigen(M, lam, v) => GDet(CharMatrix(M, lam)) = GZ
\* span: rank test and Gram-determinant distance agree; membership does not depend on how the space is presented
LawSpanDistance(v, vs) == Len(Basis(vs)) <= 3 => (InSpan(v, vs) <=> Dist2ToSpan(v, vs) = Zero)
LawSpanPresentation(v, vs) == /\ InSpan(v, vs) <=> InSpan(v, Basis(vs))
                              /\ Len(vs) >= 1 => (InSpan(v, vs) <=> InSpan(v, Append(vs, SeqAdd(vs[1], vs[Len(vs)]))))
                              /\ Len(vs) >= 2 => (InSpan(v, vs) <=> InSpan(v, Append(Tail(vs), Head(vs))))
                              /\ \A i \in 1..Len(vs) : InSpan(vs[i], vs)
LawSpanFullRank(v, vs) == Rank(vs) = Len(v) => InSpan(v, vs)
LawSpanScaling(v, vs, z) == z # GZ => (InSpan(v, vs) <=> InSpan(SeqScale(z, v), vs))
\* phase: the witness definition coincides with "same direction and same length"; symmetric; closed under phases
LawPhaseCharacterisation(v, t) == ~VIsZero(t) => (PhaseEq(v, t) <=> (InSpan(v.ent, <<t.ent>>) /\ VNorm2(v) = VNorm2(t)))
LawPhaseSymmetric(v, t) == ~VIsZero(t) /\ ~VIsZero(v) => (PhaseEq(v, t) <=> PhaseEq(t, v))
LawPhaseClosed(v, t, z, zd) == GAbs2(z) = zd * zd /\ ~VIsZero(t) => (PhaseEq(v, t) <=> PhaseEq(VMul(z, zd, v), t))
\* entry credit: bounded, full exactly when everything matches (for a flat rate below 1), monotone when proportional
LawEntryCredit(n, mode) == \A m \in 0..n :
                             /\ Leq(Zero, EntryCredit(m, n, mode)) /\ Leq(EntryCredit(m, n, mode), One)
                             /\ EntryCredit(n, n, mode) = One /\ EntryCredit(0, n, mode) = Zero
                             /\ (mode.k = "prop" /\ m < n) => Lt(EntryCredit(m, n, mode), EntryCredit(m + 1, n, mode))
                             /\ (mode.k = "flat" /\ 0 < m /\ m < n) => EntryCredit(m, n, mode) = mode.v
\* linear: equals implies proportional (unless zero) and offset, each of which implies linear; the roles of student and
\* expected are exchangeable in the strict reading; configuring one more mode never lowers the credit
LawRelationHierarchy(E, dE, S, dS) ==
  LET t == RelTable(E, dE, S, dS)   h == StrictOf(t) IN
  /\ "equals" \in h => "offset" \in h /\ "linear" \in h /\ "proportional" \in h
  /\ "proportional" \in h /\ ~SeqIsZero(S) /\ ~SeqIsZero(E) => "linear" \in h
  /\ "offset" \in h => "linear" \in h
  /\ h = HoldsStrict(S, dS, E, dE) /\ h \subseteq LooseOf(t)
LawMoreModesNeverLower(cfg, t, E, S, m, q) ==
  cfg[m] = None => \A x \in LinearCreditsT(cfg, t, E, S) : \E y \in LinearCreditsT([cfg EXCEPT ![m] = q], t, E, S) : Leq(x, y)
LawLinearCreditConfigured(cfg, t, E, S) ==
  \A x \in LinearCreditsT(cfg, t, E, S) : x = Zero \/ \E m \in Configured(cfg) : cfg[m] = x
\* student = (a/ad) expected + b/bd, generated by the defining transformation
LawGeneratedRelations(E, dE, S, dS, a, ad, b) ==
  LET h == HoldsLoose(E, dE, S, dS) IN
  /\ (a = G(ad) /\ b = GZ) => "equals" \in h
  /\ b = GZ => "proportional" \in h
  /\ a = G(ad) => "offset" \in h
  /\ "linear" \in h

(* unit tests of the specification: the examples in the documentation *)
R1(n) == Sc(G(n))
ASSUME Congruent(R1(7), R1(1), R1(3)) /\ ~Congruent(R1(5), R1(1), R1(3)) /\ Congruent(R1(-5), R1(1), R1(3))
ASSUME Congruent(ScQ(G(7), 2), ScQ(G(1), 2), ScQ(G(3), 2)) /\ ~Congruent(ScQ(G(2), 2), ScQ(G(1), 2), ScQ(G(3), 2))
ASSUME Between(R1(2), R1(2), R1(5)) /\ Between(R1(5), R1(2), R1(5)) /\ ~Between(R1(6), R1(2), R1(5))
ASSUME Between(Sc(<<3, 0>>), R1(2), R1(5)) /\ ~Between(Sc(<<3, 1>>), R1(2), R1(5))
\* docs: 2 v0 + 3i v1 = [2, 2+3i, 6i] is in the span of v0 = [1,1,0], v1 = [0,1,2]; [9, 3x, 3-3i] is not parallel to [3, x, 1+i]
ASSUME InSpan(<<G(2), <<2, 3>>, <<0, 6>>>>, <<<<G(1), G(1), GZ>>, <<GZ, G(1), G(2)>>>>)
ASSUME InSpan(<<G(9), G(6), <<3, 3>>>>, <<<<G(3), G(2), <<1, 1>>>>>>) /\ ~InSpan(<<G(9), G(6), <<3, -3>>>>, <<<<G(3), G(2), <<1, 1>>>>>>)
ASSUME InSpan(<<<<12, 6>>, <<8, 4>>, <<2, 6>>>>, <<<<G(3), G(2), <<1, 1>>>>>>)                 \* (4 + 2i) [3, 2, 1+i]
ASSUME ~InSpan(<<G(1), G(2), GZ>>, <<<<G(1), G(1), GZ>>, <<G(2), G(2), GZ>>>>)                \* linearly dependent spanning set
ASSUME Rank(<<<<G(1), G(1), GZ>>, <<G(2), G(2), GZ>>>>) = 1 /\ Rank(<<<<G(1), GZ>>, <<GZ, G(1)>>, <<G(1), G(1)>>>>) = 2
ASSUME Dist2ToSpan(<<G(1), G(2), GZ>>, <<<<G(1), G(1), GZ>>, <<G(2), G(2), GZ>>>>) = <<1, 2>>
ASSUME Eigen(Mt(2, 2, <<GZ, G(-1), G(1), GZ>>), Sc(<<0, 1>>), Vc(<<G(1), <<0, -1>>>>))
ASSUME ~Eigen(Mt(2, 2, <<GZ, G(-1), G(1), GZ>>), Sc(<<0, 1>>), Vc(<<G(1), <<0, 1>>>>))
ASSUME ~Eigen(Mt(2, 2, <<GZ, G(-1), G(1), GZ>>), Sc(<<0, 1>>), Vc(<<GZ, GZ>>))
ASSUME PhaseEq(Vc(<<<<0, 1>>, G(-1)>>), Vc(<<G(1), <<0, 1>>>>)) /\ ~PhaseEq(Vc(<<G(2), <<0, 2>>>>), Vc(<<G(1), <<0, 1>>>>))
ASSUME PhaseEq(VcQ(<<<<3, 4>>, <<-4, 3>>>>, 5), Vc(<<G(1), <<0, 1>>>>))                        \* (3+4i)/5 * [1, i]
ASSUME EntryCredit(3, 4, Proportional) = <<3, 4>> /\ EntryCredit(3, 4, Flat(<<1, 2>>)) = <<1, 2>> /\ EntryCredit(4, 4, Flat(Zero)) = One
ASSUME LET E == <<G(2), G(5), G(8)>> IN
       /\ HoldsStrict(E, 1, <<G(5), G(11), G(17)>>, 1) = {"linear"}                             \* 2x + 1
       /\ HoldsStrict(E, 1, <<G(4), G(10), G(16)>>, 1) = {"proportional", "linear"}
       /\ HoldsStrict(E, 1, <<G(7), G(10), G(13)>>, 1) = {"offset", "linear"}
       /\ HoldsStrict(E, 1, E, 1) = Modes
       /\ HoldsStrict(E, 1, <<G(4), G(25), G(64)>>, 1) = {}
=============================================================================
