INIT Init
NEXT Next
CONSTANTS
  Part = "order"
  Tier = "quick"
INVARIANT LawOrder
