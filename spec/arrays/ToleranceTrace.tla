-------------------------- MODULE ToleranceTrace --------------------------
(* Code -> spec binding for C04.  Every record is one call of a real FormulaGrader / NumericalGrader / MatrixGrader.

   kind "verdict": scripted sampling sets; the record carries the tolerance, samples, failable_evals, credit, the
       author's answer (the variable itself or a constant), the sampled values, the student form with its per-sample
       parameters, and what the grader returned
       (obs = "accept": grade = the answer's credit, "reject": grade 0, anything else: neither).
       Accepted iff obs is in Tolerance!JudgeAns(...).allowed.
   kind "rewrite": random sampling (values unknown); the record carries the answer tree, the student's tree, a
       deviation wrapper and the observation.  The spec checks that the two trees are equivalent (exact evaluation
       on a grid), that the answer is strictly positive on positive samples (so that a relative deviation is the
       same at every sample), classifies the deviation against the tolerance and applies the verdict rule.

   Per record: nothing is printed when accepted;  <<"REJECT", id, clause>>  otherwise, where a clause starting with
   "skip" means "no prediction" (guard band, inexact boundary case), "bad" a defective record (machinery) and
   "allowed-..." a genuine disagreement between code and specification. *)
EXTENDS Tolerance, Json, IOUtils
Trace == ndJsonDeserialize(IOEnv.TRACE_FILE)
VARIABLE l

AllowedName(a) == IF a = {"accept"} THEN "allowed-accept" ELSE IF a = {"reject"} THEN "allowed-reject" ELSE "allowed-both"

VerdictClause(r) ==
  IF ~(\A i \in 1..r.n : DefinedAns(r.ans, r.form, r.xs[i], r.par[i])) THEN "bad-undefined"
  ELSE LET j == JudgeAns(r.ans, r.xs, r.form, r.par, r.tol, r.n, r.failable, r.credit) IN
       IF ~j.robust THEN "skip-near"
       ELSE IF j.edges /\ ~r.exact THEN "skip-edge-inexact"
       ELSE IF r.obs \in j.allowed THEN "ok"
       ELSE AllowedName(j.allowed)

\* strictly positive / non-negative on positive samples, by structure
RECURSIVE NonNeg(_), Pos(_)
NonNeg(t) == CASE t.op = "var" -> TRUE
               [] t.op = "num" -> t.v[1] >= 0
               [] t.op \in {"add", "mul"} -> NonNeg(t.a) /\ NonNeg(t.b)
               [] t.op = "sq" -> TRUE
               [] OTHER -> FALSE
Pos(t) == CASE t.op = "var" -> TRUE
            [] t.op = "num" -> t.v[1] > 0
            [] t.op = "add" -> (Pos(t.a) /\ NonNeg(t.b)) \/ (NonNeg(t.a) /\ Pos(t.b))
            [] t.op = "mul" -> Pos(t.a) /\ Pos(t.b)
            [] t.op = "sq" -> Pos(t.a)
            [] OTHER -> FALSE
Grid == {<<1, 1>>, <<2, 1>>, <<1, 2>>, <<3, 1>>}
RewriteClause(r) ==
  IF ~Equivalent(r.tree, r.stree, {"x", "y", "z"}, Grid) THEN "bad-not-equivalent"
  ELSE IF ~(Pos(r.tree) /\ Pos(r.stree)) THEN "skip-not-positive"
  ELSE LET m == IF r.dev.form = "same" THEN (IF r.tol.v[1] > 0 THEN "in" ELSE "near")
                ELSE IF r.dev.form = "mul" /\ r.tol.kind = "pct" THEN Margin(Real(One), Real(QAdd(One, r.dev.par)), r.tol)
                ELSE IF r.dev.form = "add" /\ r.tol.kind = "abs" THEN Margin(Real(Zero), Real(r.dev.par), r.tol)
                ELSE "near"
           fails == IF m = "in" THEN 0 ELSE r.n
           allowed == AllowedSet(fails, r.n, r.failable)
       IN IF m \notin {"in", "out"} THEN "skip-near"
          ELSE IF r.obs \in allowed THEN "ok" ELSE AllowedName(allowed)

Clause(r) == IF r.kind = "verdict" THEN VerdictClause(r) ELSE IF r.kind = "rewrite" THEN RewriteClause(r) ELSE "bad-kind"
Verdict1(i) == LET r == Trace[i]  cl == Clause(r) IN IF cl = "ok" THEN TRUE ELSE PrintT(<<"REJECT", r.id, cl>>)
Init == l = 0
Next == /\ l < Len(Trace)
        /\ l' = l + 1
        /\ Verdict1(l + 1)
        /\ (l + 1 = Len(Trace)) => PrintT(<<"DONE", Len(Trace)>>)
=============================================================================
