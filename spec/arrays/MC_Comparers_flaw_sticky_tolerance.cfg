INIT Init
NEXT Next
CONSTANTS
  Part = "history"
  Flaws = {"StickyEntryTolerance"}
  Thorough = FALSE
INVARIANT ImplRefines_
