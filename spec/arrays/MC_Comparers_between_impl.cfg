INIT Init
NEXT Next
CONSTANTS
  Part = "between"
  Thorough = FALSE
INVARIANT ImplRefines_
