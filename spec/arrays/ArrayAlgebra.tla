---------------------------- MODULE ArrayAlgebra ----------------------------
(* Property-level specification of MathArray arithmetic (C14): for scalars, vectors, matrices and tensors, which
   value the operators + - * / ^ return and when they must be refused.  Written from the table "Allowed operations"
   in docs/grading_math/matrix_grader/matrix_grader.md and from the property statement, not from the code.

   Numbers are exact Gaussian rationals  <<re, im>>  with re, im normalised rationals <<n, d>> (Rat.tla).
   An array is a record  [sh |-> shape, e |-> entries in row-major order]:
       scalar  sh = <<>>      vector  sh = <<n>>      matrix  sh = <<m, n>>      tensor  sh = <<a, b, c>>
   An outcome is  [k |-> "val", v |-> array]   or   [k |-> "err", why |-> reason]   (the reason is explanatory only:
   the property asks for "a student-facing error", not for a particular class or message)
   or  [k |-> "nopred"]  where the mathematics leaves the exact rationals (scalar to a non-integer power).
   One-element results are always delivered as scalars ("number-like"): the library deliberately turns the 1 x 1
   product of a row and a column into a number. *)
EXTENDS Rat, TLC, FiniteSets

\* ------------------------------------------------------------------ Gaussian rationals
\* rational + and * that reduce before multiplying (same values as Rat!Add / Rat!Mul on normalised arguments, but the
\* intermediate integers stay near the size of the result: TLC integers are 32-bit and TLC stops on overflow)
RAdd(a, b) == LET g == GCD(a[2], b[2]) IN Norm(a[1] * (b[2] \div g) + b[1] * (a[2] \div g), (a[2] \div g) * b[2])
RMul(a, b) == IF a[1] = 0 \/ b[1] = 0 THEN Zero
              ELSE LET g1 == GCD(Abs(a[1]), b[2])  g2 == GCD(Abs(b[1]), a[2])
                   IN <<(a[1] \div g1) * (b[1] \div g2), (a[2] \div g2) * (b[2] \div g1)>>
RSub(a, b) == RAdd(a, Neg(b))
GZ == <<Zero, Zero>>
G1 == <<One, Zero>>
GInt(a, b) == <<FromInt(a), FromInt(b)>>
GAdd(x, y) == <<RAdd(x[1], y[1]), RAdd(x[2], y[2])>>
GNeg(x) == <<Neg(x[1]), Neg(x[2])>>
GSub(x, y) == GAdd(x, GNeg(y))
GMul(x, y) == IF IsZero(x[2]) /\ IsZero(y[2]) THEN <<RMul(x[1], y[1]), Zero>>
              ELSE <<RSub(RMul(x[1], y[1]), RMul(x[2], y[2])), RAdd(RMul(x[1], y[2]), RMul(x[2], y[1]))>>
GConj(x) == <<x[1], Neg(x[2])>>
GAbs2(x) == RAdd(RMul(x[1], x[1]), RMul(x[2], x[2]))
GIsZero(x) == IsZero(x[1]) /\ IsZero(x[2])
GInv(x) == IF IsZero(x[2]) THEN <<Inv(x[1]), Zero>>                               \* x # 0 (real: no squaring)
           ELSE LET n == Inv(GAbs2(x)) IN <<RMul(x[1], n), RMul(Neg(x[2]), n)>>
GDiv(x, y) == GMul(x, GInv(y))                                                 \* y # 0
GIsReal(x) == IsZero(x[2])
GIsInteger(x) == GIsReal(x) /\ x[1][2] = 1          \* the value is a (real) integer, whatever type carries it
GIntValue(x) == x[1][1]
RECURSIVE GIPow(_, _), GSumTo(_, _)
GIPow(x, k) == IF k = 0 THEN G1 ELSE GMul(x, GIPow(x, k - 1))                  \* k >= 0
GSumTo(s, n) == IF n = 0 THEN GZ ELSE GAdd(GSumTo(s, n - 1), s[n])
GSumSeq(s) == GSumTo(s, Len(s))
MinusOne == GInt(-1, 0)

\* ------------------------------------------------------------------ arrays
RECURSIVE SizeOf(_)
SizeOf(sh) == IF Len(sh) = 0 THEN 1 ELSE sh[1] * SizeOf(Tail(sh))
ShapeOf(a) == a.sh
Rank(a) == Len(a.sh)
Scalar(g) == [sh |-> <<>>, e |-> <<g>>]
IsScalar(a) == Len(a.sh) = 0
IsVector(a) == Len(a.sh) = 1
IsMatrix(a) == Len(a.sh) = 2
IsTensor(a) == Len(a.sh) >= 3
IsSquare(a) == Len(a.sh) = 2 /\ a.sh[1] = a.sh[2]
WellFormed(a) == Len(a.e) = SizeOf(a.sh) /\ \A i \in 1..Len(a.sh) : a.sh[i] >= 1
\* TLC keeps  [i \in 1..n |-> e]  as an unevaluated closure and re-evaluates e at every application; SubSeq turns it
\* into an explicit tuple once (without this, nested products are re-computed exponentially often)
Tup(f, n) == SubSeq(f, 1, n)
\* arrays given with Gaussian-integer entries <<re, im>> (the form used in generated cases)
Lift(a) == [sh |-> a.sh, e |-> Tup([i \in 1..Len(a.e) |-> GInt(a.e[i][1], a.e[i][2])], Len(a.e))]
Map1(a, F(_)) == [sh |-> a.sh, e |-> Tup([i \in 1..Len(a.e) |-> F(a.e[i])], Len(a.e))]
Map2(a, b, F(_, _)) == [sh |-> a.sh, e |-> Tup([i \in 1..Len(a.e) |-> F(a.e[i], b.e[i])], Len(a.e))]
Scale(g, a) == Map1(a, LAMBDA x : GMul(g, x))
Negate(a) == Map1(a, GNeg)
IsZeroScalar(a) == IsScalar(a) /\ GIsZero(a.e[1])
Collapse(a) == IF Len(a.e) = 1 THEN Scalar(a.e[1]) ELSE a       \* number-like results are numbers

At(a, i, j) == a.e[(i - 1) * a.sh[2] + j]
MkMat(m, n, F(_, _)) == [sh |-> <<m, n>>, e |-> Tup([k \in 1..(m * n) |-> F(((k - 1) \div n) + 1, ((k - 1) % n) + 1)], m * n)]
Identity(n) == MkMat(n, n, LAMBDA i, j : IF i = j THEN G1 ELSE GZ)
Transpose(a) == MkMat(a.sh[2], a.sh[1], LAMBDA i, j : At(a, j, i))
MatMul(a, b) == MkMat(a.sh[1], b.sh[2],
                      LAMBDA i, j : GSumSeq([k \in 1..a.sh[2] |-> GMul(At(a, i, k), At(b, k, j))]))
AsRow(v) == [sh |-> <<1, v.sh[1]>>, e |-> v.e]                  \* a vector on the left of a product
AsCol(v) == [sh |-> <<v.sh[1], 1>>, e |-> v.e]                  \* a vector on the right of a product

\* determinant (Laplace expansion along the first row), adjugate, inverse
Minor(a, r, c) == MkMat(a.sh[1] - 1, a.sh[2] - 1,
                        LAMBDA i, j : At(a, IF i < r THEN i ELSE i + 1, IF j < c THEN j ELSE j + 1))
Sign(k) == IF k % 2 = 0 THEN G1 ELSE MinusOne
RECURSIVE Det(_)
Det(a) == LET n == a.sh[1] IN
          IF n = 1 THEN a.e[1]
          ELSE IF n = 2 THEN GSub(GMul(a.e[1], a.e[4]), GMul(a.e[2], a.e[3]))
          ELSE GSumSeq([j \in 1..n |-> GMul(GMul(Sign(1 + j), At(a, 1, j)), Det(Minor(a, 1, j)))])
Adjugate(a) == LET n == a.sh[1] IN
               IF n = 1 THEN MkMat(1, 1, LAMBDA i, j : G1)
               ELSE MkMat(n, n, LAMBDA i, j : GMul(Sign(i + j), Det(Minor(a, j, i))))
IsSingular(a) == GIsZero(Det(a))
Inverse(a) == Scale(GInv(Det(a)), Adjugate(a))                  \* a square, non-singular
RECURSIVE MatPow(_, _)
MatPow(a, k) == IF k = 0 THEN Identity(a.sh[1]) ELSE MatMul(MatPow(a, k - 1), a)      \* k >= 0
\* A^(-k) = adj(A)^k / det(A)^k : integer arithmetic up to the last step (keeps TLC's 32-bit integers small)
NegPow(a, k) == Scale(GInv(GIPow(Det(a), k)), MatPow(Adjugate(a), k))                 \* k >= 1, a non-singular

\* ------------------------------------------------------------------ outcomes
Val(a) == [k |-> "val", v |-> Collapse(a)]
Err(w) == [k |-> "err", why |-> w]
NoPred == [k |-> "nopred"]
IsVal(o) == o.k = "val"
IsErr(o) == o.k = "err"

\* ------------------------------------------------------------------ the five operators
\* + : elementwise sum of equal shapes; the number 0 is a universal additive identity; everything else is refused
AddOp(x, y) ==
  IF IsScalar(x) /\ IsScalar(y) THEN Val(Scalar(GAdd(x.e[1], y.e[1])))
  ELSE IF IsScalar(x) THEN (IF IsZeroScalar(x) THEN Val(y) ELSE Err("scalar+array"))
  ELSE IF IsScalar(y) THEN (IF IsZeroScalar(y) THEN Val(x) ELSE Err("array+scalar"))
  ELSE IF x.sh = y.sh THEN Val(Map2(x, y, GAdd))
  ELSE Err("shape")

SubOp(x, y) == AddOp(x, Negate(y))

\* * : scalar scaling; dot product; matrix-vector, vector-matrix and matrix-matrix products; tensors only scale
MulOp(x, y) ==
  IF IsScalar(x) THEN Val(Scale(x.e[1], y))
  ELSE IF IsScalar(y) THEN Val(Scale(y.e[1], x))
  ELSE IF IsTensor(x) \/ IsTensor(y) THEN Err("tensor")
  ELSE LET a == IF IsVector(x) THEN AsRow(x) ELSE x
           b == IF IsVector(y) THEN AsCol(y) ELSE y
       IN IF a.sh[2] # b.sh[1] THEN Err("shape")
          ELSE LET p == MatMul(a, b)
                   sh == IF IsVector(x) /\ IsVector(y) THEN <<>>
                         ELSE IF IsVector(x) THEN <<b.sh[2]>>
                         ELSE IF IsVector(y) THEN <<a.sh[1]>>
                         ELSE <<a.sh[1], b.sh[2]>>
               IN Val([sh |-> sh, e |-> p.e])

\* / : only by (non-zero) scalars
DivOp(x, y) ==
  IF ~IsScalar(y) THEN Err("divide-by-array")
  ELSE IF GIsZero(y.e[1]) THEN Err("zero-division")
  ELSE Val(Scale(GInv(y.e[1]), x))

\* ^ : integer powers of square matrices, negative powers as inverses (when enabled and the inverse exists)
PowOp(x, y, neg) ==
  IF IsScalar(x) THEN
       (IF ~IsScalar(y) THEN Err("scalar^array")
        ELSE IF ~GIsInteger(y.e[1]) THEN NoPred
        ELSE LET k == GIntValue(y.e[1]) IN
             IF k >= 0 THEN Val(Scalar(GIPow(x.e[1], k)))
             ELSE IF GIsZero(x.e[1]) THEN Err("zero-division")
             ELSE Val(Scalar(GInv(GIPow(x.e[1], -k)))))
  ELSE IF ~IsMatrix(x) THEN Err("not-a-matrix")
  ELSE IF ~IsSquare(x) THEN Err("non-square")
  ELSE IF ~IsScalar(y) THEN Err("array-exponent")
  ELSE IF ~GIsInteger(y.e[1]) THEN Err("non-integer")
  ELSE LET k == GIntValue(y.e[1]) IN
       IF k >= 0 THEN Val(MatPow(x, k))
       ELSE IF ~neg THEN Err("negative-disabled")
       ELSE IF IsSingular(x) THEN Err("singular")
       ELSE Val(NegPow(x, -k))

Ops == {"+", "-", "*", "/", "^"}
Op(op, x, y, neg) == IF op = "+" THEN AddOp(x, y)
                     ELSE IF op = "-" THEN SubOp(x, y)
                     ELSE IF op = "*" THEN MulOp(x, y)
                     ELSE IF op = "/" THEN DivOp(x, y)
                     ELSE PowOp(x, y, neg)
\* lifted to outcomes (an error or an unpredicted operand makes the whole expression so)
OpO(op, ox, oy, neg) == IF IsErr(ox) THEN ox ELSE IF IsErr(oy) THEN oy
                        ELSE IF ox.k = "nopred" \/ oy.k = "nopred" THEN NoPred
                        ELSE Op(op, ox.v, oy.v, neg)

\* ------------------------------------------------------------------ shape algebra (independent formulation)
\* what shape the result has, from the operand shapes alone; "err" where every value is refused,
\* "dep" where the decision depends on values (zero scalar, integrality / sign of exponent, singularity)
CollapseShape(sh) == IF SizeOf(sh) = 1 THEN <<>> ELSE sh
ShIs(sh) == [k |-> "sh", sh |-> CollapseShape(sh)]
ShErr == [k |-> "err"]
ShDep == [k |-> "dep"]
ShapeRule(op, sx, sy) ==
  LET scx == Len(sx) = 0  scy == Len(sy) = 0 IN
  IF op \in {"+", "-"} THEN (IF scx /\ scy THEN ShIs(<<>>) ELSE IF scx \/ scy THEN ShDep ELSE IF sx = sy THEN ShIs(sx) ELSE ShErr)
  ELSE IF op = "*" THEN
       (IF scx THEN ShIs(sy) ELSE IF scy THEN ShIs(sx)
        ELSE IF Len(sx) > 2 \/ Len(sy) > 2 THEN ShErr
        ELSE IF sx[Len(sx)] # sy[1] THEN ShErr
        ELSE ShIs(SubSeq(sx, 1, Len(sx) - 1) \o SubSeq(sy, 2, Len(sy))))
  ELSE IF op = "/" THEN (IF scy THEN ShDep ELSE ShErr)
  ELSE (IF scx THEN (IF scy THEN ShDep ELSE ShErr)
        ELSE IF Len(sx) # 2 THEN ShErr ELSE IF sx[1] # sx[2] THEN ShErr ELSE IF ~scy THEN ShErr ELSE ShDep)

\* ------------------------------------------------------------------ product chains  a * b / c * d ...
(* xs: sequence of operand outcomes, ops: sequence of "*" / "/" (one fewer).  A chain with three or more vector
   operands is refused as ambiguous (the dot product is not associative); otherwise it is evaluated left to right. *)
NumVectors(os) == Cardinality({i \in 1..Len(os) : IsVal(os[i]) /\ IsVector(os[i].v)})
RECURSIVE FoldChain(_, _, _)
FoldChain(os, ops, neg) == IF Len(os) = 1 THEN os[1]
                           ELSE OpO(ops[Len(ops)], FoldChain(SubSeq(os, 1, Len(os) - 1), SubSeq(ops, 1, Len(ops) - 1), neg),
                                    os[Len(os)], neg)
FirstErr(os) == LET bad == {i \in 1..Len(os) : IsErr(os[i])} IN
                IF bad = {} THEN 0 ELSE CHOOSE i \in bad : \A j \in bad : i <= j
ChainProduct(os, ops, neg) ==
  IF FirstErr(os) # 0 THEN os[FirstErr(os)]
  ELSE IF NumVectors(os) >= 3 THEN Err("triple-vector")
  ELSE FoldChain(os, ops, neg)

(* implementation-shaped variant: one pass with a flag "a vector-vector product has occurred", as a grader would
   naturally code it.  It agrees with the counting rule as long as a product of two non-scalars never yields a
   number without both being vectors, i.e. on chains of scalars, vectors and square matrices (law FlagAgrees). *)
RECURSIVE FlagStep(_, _, _, _, _, _)
FlagStep(res, flag, os, ops, i, neg) ==
  IF i > Len(os) THEN res
  ELSE IF IsErr(res) THEN res
  ELSE LET o == os[i]  op == ops[i - 1] IN
       IF op = "*" /\ IsVal(o) /\ IsVector(o.v) /\ flag THEN Err("triple-vector")
       ELSE FlagStep(OpO(op, res, o, neg),
                     flag \/ (op = "*" /\ IsVal(o) /\ IsVector(o.v) /\ IsVal(res) /\ IsVector(res.v)),
                     os, ops, i + 1, neg)
FlagChain(os, ops, neg) == IF FirstErr(os) # 0 THEN os[FirstErr(os)] ELSE FlagStep(os[1], FALSE, os, ops, 2, neg)

\* a chain with at most one parenthesised group  x1 .. (xp .. xq) .. xn   (grp = <<p, q>>, <<0, 0>> for none)
GroupedChain(xs, ops, grp, neg) ==
  LET os == Tup([i \in 1..Len(xs) |-> Val(xs[i])], Len(xs)) IN
  IF grp[1] = 0 THEN ChainProduct(os, ops, neg)
  ELSE LET p == grp[1]  q == grp[2]
           inner == ChainProduct(SubSeq(os, p, q), SubSeq(ops, p, q - 1), neg)
           os2 == SubSeq(os, 1, p - 1) \o <<inner>> \o SubSeq(os, q + 1, Len(os))
           ops2 == SubSeq(ops, 1, p - 1) \o SubSeq(ops, q, Len(ops))
       IN ChainProduct(os2, ops2, neg)

\* ------------------------------------------------------------------ array literals  [ .. , [ .. ], .. ]
(* a literal is a tree  [k |-> "num"]  or  [k |-> "arr", xs |-> sequence of trees];  it denotes an array exactly when it
   is rectangular (all items of every bracket have one shape); ragged input has to be refused, never padded or
   turned into something else.  (Behind the property: this is how operands written entry by entry come to exist.) *)
RECURSIVE LitShape(_), LitLeaves(_)
LitShape(t) == IF t.k = "num" THEN [k |-> "sh", sh |-> <<>>]
               ELSE LET cs == Tup([i \in 1..Len(t.xs) |-> LitShape(t.xs[i])], Len(t.xs)) IN
                    IF \E i \in 1..Len(t.xs) : cs[i].k = "ragged" \/ cs[i] # cs[1] THEN [k |-> "ragged"]
                    ELSE [k |-> "sh", sh |-> <<Len(t.xs)>> \o cs[1].sh]
LitLeaves(t) == IF t.k = "num" THEN 1 ELSE LET RECURSIVE S(_)
                                                S(n) == IF n = 0 THEN 0 ELSE S(n - 1) + LitLeaves(t.xs[n])
                                            IN S(Len(t.xs))
LawLiteral(t) == LET r == LitShape(t) IN r.k = "sh" => SizeOf(r.sh) = LitLeaves(t)

\* ------------------------------------------------------------------ laws (checked by TLC on every generated case)
SameOutcome(o1, o2) == (o1.k = o2.k) /\ (IsVal(o1) => o1.v = o2.v)
\* the result shape is a function of the operand shapes; shapes refused by the shape algebra are refused for all values
LawShape(op, x, y, neg) ==
  LET o == Op(op, x, y, neg)  r == ShapeRule(op, x.sh, y.sh) IN
  /\ (r.k = "err") => IsErr(o)
  /\ (r.k = "sh") => (IsVal(o) /\ o.v.sh = r.sh)
  /\ IsVal(o) => WellFormed(o.v)
\* no broadcasting: + and - accept two non-scalars only if the shapes are identical, a scalar only if it is zero
LawAddStrict(op, x, y, neg) ==
  (op \in {"+", "-"} /\ IsVal(Op(op, x, y, neg))) =>
     \/ x.sh = y.sh
     \/ IsZeroScalar(x) \/ IsZeroScalar(y)
LawAddCommutes(x, y) == SameOutcome(AddOp(x, y), AddOp(y, x))
LawSubAnti(x, y) == LET a == SubOp(x, y)  b == SubOp(y, x) IN
                    a.k = b.k /\ (IsVal(a) => a.v = Negate(b.v))
\* (x - y) + y = x where defined and both are arrays of one shape
LawSubAdd(x, y) == (x.sh = y.sh /\ ~IsScalar(x)) => AddOp(SubOp(x, y).v, y).v = x
\* transposition reverses products: (x*y)^T = y^T * x^T for matrices, x.y = y.x for vectors, M*v = v*M^T
LawMulTranspose(x, y) ==
  LET o == MulOp(x, y) IN
  IF IsMatrix(x) /\ IsMatrix(y) THEN
       LET t == MulOp(Transpose(y), Transpose(x)) IN
       o.k = t.k /\ (IsVal(o) => (IF IsScalar(o.v) THEN o.v = t.v ELSE Transpose(o.v) = t.v))
  ELSE IF IsVector(x) /\ IsVector(y) THEN SameOutcome(o, MulOp(y, x))
  ELSE IF IsMatrix(x) /\ IsVector(y) THEN SameOutcome(o, MulOp(y, Transpose(x)))
  ELSE IF IsVector(x) /\ IsMatrix(y) THEN SameOutcome(o, MulOp(Transpose(y), x))
  ELSE TRUE
\* scaling commutes; (x / s) * s = x
LawScale(x, y) == (IsScalar(x) \/ IsScalar(y)) => SameOutcome(MulOp(x, y), MulOp(y, x))
LawDivMul(x, y) == (IsScalar(y) /\ ~GIsZero(y.e[1])) => MulOp(DivOp(x, y).v, y).v = Collapse(x)
\* division by an array is never accepted
LawDivArray(x, y) == ~IsScalar(y) => IsErr(DivOp(x, y))
\* powers: A^(k+1) = A^k * A,  A^k * A^(-k) = I,  det(A^k) = det(A)^k,  both formulations of A^(-k) agree,
\* the inverse exists exactly when the determinant is non-zero, the switch changes nothing but negative powers
LawPow(x, y, neg) ==
  LET o == PowOp(x, y, neg) IN
  /\ (IsSquare(x) /\ IsScalar(y) /\ GIsInteger(y.e[1]) /\ IsVal(o)) =>
        LET k == GIntValue(y.e[1])
            n == x.sh[1]
            full == IF IsScalar(o.v) THEN [sh |-> <<1, 1>>, e |-> o.v.e] ELSE o.v
        IN /\ k >= 0 => MatMul(full, x) = MatPow(x, k + 1)
           /\ k < 0 => /\ MatMul(full, MatPow(x, -k)) = Identity(n)
                       /\ MatMul(MatPow(x, -k), full) = Identity(n)
                       /\ full = MatPow(Inverse(x), -k)
                       /\ neg
           /\ k >= -1 => Det(full) = (IF k >= 0 THEN GIPow(Det(x), k) ELSE GInv(Det(x)))   \* (larger -k: 32-bit range)
  /\ (IsSquare(x) /\ IsScalar(y) /\ GIsInteger(y.e[1]) /\ GIntValue(y.e[1]) < 0) =>
        (IsErr(o) <=> (~neg \/ IsSingular(x)))
  /\ (~(IsSquare(x) /\ IsScalar(y) /\ GIsInteger(y.e[1]) /\ GIntValue(y.e[1]) < 0)) =>
        SameOutcome(o, PowOp(x, y, ~neg))
  /\ (~IsScalar(x) /\ ~IsSquare(x)) => IsErr(o)
  /\ (~IsScalar(x) /\ IsScalar(y) /\ ~GIsInteger(y.e[1])) => IsErr(o)
(* scale invariance: for a scalar s # 0, s*A is singular exactly when A is (a determinant scales like s^n, so no
   absolute threshold on it can decide singularity), the power is accepted or refused together with that of A, and
   (s*A)^k = s^k * A^k;  an accepted negative power is a two-sided inverse of the positive one *)
LawScaleInvariance(a, s, y, neg) ==
  LET x == Scale(s, a)
      o == PowOp(x, y, neg)
      b == PowOp(a, y, neg)
      k == GIntValue(y.e[1])
      sk == IF k >= 0 THEN GIPow(s, k) ELSE GInv(GIPow(s, -k))
  IN /\ IsSingular(x) <=> IsSingular(a)
     /\ o.k = b.k
     /\ IsVal(o) => o.v = Scale(sk, b.v)
     /\ (IsVal(o) /\ k < 0) => MatMul(o.v, MatPow(x, -k)) = Identity(a.sh[1])
     /\ (k < 0 /\ neg) => (IsErr(o) <=> IsSingular(a))
(* integrality of an exponent is exact, not approximate: a real exponent at any non-zero distance from an integer
   (2.00001, -1.000000001) is a non-integer and the power of a matrix is refused, however small the distance; at
   distance zero (2.0) it is that integer.  y = (b * 10^p + d) / 10^p  with d in {-1, 0, 1}. *)
NearInteger(b, d, p) == LET RECURSIVE T(_)  T(n) == IF n = 0 THEN 1 ELSE 10 * T(n - 1)
                        IN Scalar(<<Q(b * T(p) + d, T(p)), Zero>>)
LawNearInteger(x, b, d, p, neg) ==
  LET o == PowOp(x, NearInteger(b, d, p), neg) IN
  IF d # 0 THEN IsErr(o) /\ ~GIsInteger(NearInteger(b, d, p).e[1])
  ELSE SameOutcome(o, PowOp(x, Scalar(GInt(b, 0)), neg))
\* determinants multiply
LawDetMul(x, y) == (IsSquare(x) /\ IsSquare(y) /\ x.sh = y.sh /\ x.sh[1] > 1) =>
                     Det(MatMul(x, y)) = GMul(Det(x), Det(y))
\* chains: counting rule = flag rule; two-element chains are the binary operator; three vectors are always refused
LawChain(xs, ops, neg) ==
  LET os == Tup([i \in 1..Len(xs) |-> Val(xs[i])], Len(xs)) IN
  /\ SameOutcome(ChainProduct(os, ops, neg), FlagChain(os, ops, neg))
  /\ Len(xs) = 2 => SameOutcome(ChainProduct(os, ops, neg), Op(ops[1], xs[1], xs[2], neg))
  /\ Cardinality({i \in 1..Len(xs) : IsVector(xs[i])}) >= 3 => IsErr(ChainProduct(os, ops, neg))
=============================================================================
