INIT Init
NEXT Next
CONSTANTS
  Part = "span"
  Flaws = {"OriginalSpanResidual"}
  Thorough = FALSE
INVARIANT ImplRefines_
