INIT Init
NEXT Next
CONSTANTS
  Part = "span"
  Flaws = {}
  Thorough = TRUE
INVARIANT LawWellFormed
INVARIANT LawGuard
INVARIANT LawShapePolicy
INVARIANT LawGenerator
INVARIANT LawKind
INVARIANT LawImplDeviatesOnlyThere_
