INIT Init
NEXT Next
CONSTANTS
  Part = "between"
  Flaws = {"OriginalComplexOrdering"}
  Thorough = FALSE
INVARIANT ImplRefines_
