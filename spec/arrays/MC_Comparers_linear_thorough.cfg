INIT Init
NEXT Next
CONSTANTS
  Part = "linear"
  Flaws = {}
  Thorough = TRUE
INVARIANT LawWellFormed
INVARIANT LawGuard
INVARIANT LawShapePolicy
INVARIANT LawGenerator
INVARIANT LawKind
INVARIANT LawImplDeviatesOnlyThere_
