INIT Init
NEXT Next
CONSTANTS
  Part = "order_flaw"
  Tier = "quick"
INVARIANT LawOrderFlaw
