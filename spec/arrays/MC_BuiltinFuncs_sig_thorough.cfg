INIT Init
NEXT Next
CONSTANTS
  Part = "sig"
  Tier = "thorough"
INVARIANT LawCall
INVARIANT LawSigPrecedence
INVARIANT LawOverride
