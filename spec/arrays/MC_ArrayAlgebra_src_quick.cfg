INIT Init
NEXT Next
CONSTANTS
  Part = "src"
  MaxDim = 3
  NReal = 4
  NCplx = 2
  Big = FALSE
INVARIANT InvOutcomeDomain
INVARIANT InvNoPredOnlyScalarPow
INVARIANT InvShape
INVARIANT InvAddStrict
INVARIANT InvAddCommutes
INVARIANT InvSubAnti
INVARIANT InvMulTranspose
INVARIANT InvDiv
INVARIANT InvPow
INVARIANT InvPow2
INVARIANT InvChain
INVARIANT InvGroupFlat
INVARIANT InvNear
INVARIANT InvScaled
INVARIANT InvSrc
INVARIANT InvScopeConfigured
INVARIANT InvLiteral
INVARIANT InvScopeDefault
INVARIANT InvScopeLocal
