INIT Init
NEXT Next
CONSTANTS
  Part = "cong"
  Flaws = {"OriginalComplexOrdering"}
  Thorough = FALSE
INVARIANT ImplRefines_
