--------------------------- MODULE MC_Tolerance ---------------------------
(* Model instance for C04.  TLC enumerates every case inside the bounds, evaluates the property-level verdict
   (Tolerance!JudgeForm) and the laws; the dump is replayed into the real FormulaGrader / NumericalGrader /
   MatrixGrader with scripted sampling sets.

   Parts (constant Parts, a set):
     "real"  real scalar answers          graders F (FormulaGrader), M (MatrixGrader), N (NumericalGrader, one sample)
     "cx"    complex scalar answers       graders F, N
     "arr"   vector and matrix answers    grader M
     "inf"   infinities                   graders F, N with allow_inf
     "rw"    answer trees and their rewrites (commutation, distribution, +0, *1, ...) with and without an offset
   Level 1 = quick bounds, 2 = thorough bounds.
   Two-level enumeration: Init picks a seed (grader, tolerance, samples, failable_evals), Next picks the case. *)
EXTENDS Tolerance
CONSTANTS Parts, Level

R(n, d) == Real(Q(n, d))
C(a, b, c, d) == Scalar(<<Q(a, b), Q(c, d)>>)
RZ == Real(Zero)
Vec(qs) == Fin(<<Len(qs)>>, [k \in 1..Len(qs) |-> CRe(qs[k])])
Mat(r, c, qs) == Fin(<<r, c>>, [k \in 1..Len(qs) |-> CRe(qs[k])])
CMat(r, c, zs) == Fin(<<r, c>>, zs)
I(n) == Q(n, 1)
Const(n, v) == [i \in 1..n |-> v]

(* ---- tolerances *)
TolsReal == IF Level = 1
            THEN {AbsTol(Zero), AbsTol(Q(1, 2)), AbsTol(Q(1, 10)), PctTol(Zero), PctTol(I(50)), PctTol(I(10)), PctTol(Q(1, 100))}
            ELSE {AbsTol(Zero), AbsTol(Q(1, 2)), AbsTol(Q(1, 10)),
                  PctTol(Zero), PctTol(I(50)), PctTol(I(10)), PctTol(Q(1, 100)), PctTol(I(200))}
TolsCx == IF Level = 1 THEN {AbsTol(Zero), AbsTol(Q(5, 4)), AbsTol(Q(1, 10)), PctTol(Zero), PctTol(I(50)), PctTol(I(10))}
          ELSE {AbsTol(Zero), AbsTol(Q(5, 4)), AbsTol(Q(1, 10)), PctTol(Zero), PctTol(I(50)), PctTol(I(10)), PctTol(Q(1, 100))}
TolsArr == IF Level = 1 THEN {AbsTol(Zero), AbsTol(Q(5, 4)), AbsTol(Q(9, 8)), PctTol(Zero), PctTol(I(25)), PctTol(I(10))}
           ELSE {AbsTol(Zero), AbsTol(Q(5, 4)), AbsTol(Q(9, 8)), AbsTol(Q(1, 10)),
                 PctTol(Zero), PctTol(I(25)), PctTol(I(10)), PctTol(Q(1, 100))}
TolsInf == {AbsTol(Zero), AbsTol(Q(1, 2)), PctTol(I(50)), PctTol(I(1000))}
TolsRw == IF Level = 1 THEN {AbsTol(Q(1, 10)), PctTol(Q(1, 100))}
          ELSE {AbsTol(Q(1, 10)), PctTol(Q(1, 100)), PctTol(I(5))}

(* ---- <<samples, failable_evals>>: Level 2 takes every pair of 1..4 x 0..3 for real scalars in FormulaGrader;
   Level 1 a selection up to 3 samples that still contains failable < samples, = samples - 1 and >= samples *)
NF == IF Level = 1 THEN {<<1, 0>>, <<2, 0>>, <<2, 1>>, <<2, 3>>, <<3, 0>>, <<3, 1>>, <<3, 3>>}
      ELSE {<<n, f>> : n \in 1..4, f \in 0..3}
NFsmall == IF Level = 1 THEN {<<1, 0>>, <<2, 0>>, <<3, 1>>}
           ELSE {<<1, 0>>, <<1, 1>>, <<2, 0>>, <<2, 2>>, <<3, 0>>, <<3, 2>>, <<4, 2>>}
\* the answer's credit alternates with the seed so that full and partial credit are both exercised everywhere
CreditOf(n, f) == IF (n + f) % 2 = 0 THEN One ELSE Q(1, 2)

(* ---- sampled values and student forms per part *)
XReal == IF Level = 1 THEN {R(-2, 1), RZ, R(1, 2), R(4, 1)} ELSE {R(-2, 1), R(-1, 3), RZ, R(1, 2), R(4, 1)}
DeltaReal == IF Level = 1 THEN {RZ, R(1, 20), R(1, 2), R(-1, 4), R(-3, 1)}
             ELSE {RZ, R(1, 20), R(-1, 20), R(1, 2), R(-1, 2), R(-1, 4), R(1, 10), R(-3, 1)}
EpsReal == IF Level = 1 THEN {RZ, R(1, 100), R(1, 2), R(-1, 10), R(-2, 1)}
           ELSE {RZ, R(1, 100), R(1, 2), R(-1, 2), R(-1, 10), R(1, 20000), R(1, 5000), R(-2, 1)}
DVarReal == IF Level = 1 THEN {RZ, R(1, 4), R(-1, 1)} ELSE {RZ, R(1, 4), R(-1, 1), R(1, 2)}
ConstReal == {R(1, 2), R(-2, 1)}

XCx == IF Level = 1 THEN {C(1, 1, 2, 1), C(-1, 2, 0, 1), C(0, 1, -3, 4), RZ}
       ELSE {C(1, 1, 2, 1), C(-1, 2, 0, 1), C(0, 1, -3, 4), RZ, C(3, 1, -4, 1), C(2, 1, 0, 1)}
DeltaCx == IF Level = 1 THEN {RZ, C(3, 4, 1, 1), C(0, 1, 1, 20), C(-1, 1, 1, 1)}
           ELSE {RZ, C(3, 4, 1, 1), C(0, 1, 1, 20), C(-1, 1, 1, 1), C(3, 4, -1, 1), C(0, 1, 5, 4), C(3, 5, 4, 5), C(1, 20, 0, 1)}
EpsCx == IF Level = 1 THEN {RZ, R(1, 100), R(1, 2), R(-2, 1)} ELSE {RZ, R(1, 100), R(1, 2), R(-2, 1), R(1, 4), R(-1, 10), R(1, 5000)}
DVarCx == {RZ, C(0, 1, 1, 4), C(-1, 1, 1, 1)}

Z22 == Mat(2, 2, <<Zero, Zero, Zero, Zero>>)
XMat == IF Level = 1
        THEN {Mat(2, 2, <<I(3), Zero, Zero, I(4)>>), Mat(2, 2, <<Zero, I(1), Zero, Zero>>), Mat(2, 2, <<I(1), I(2), I(2), I(-1)>>), Z22}
        ELSE {Mat(2, 2, <<I(3), Zero, Zero, I(4)>>), Mat(2, 2, <<Zero, I(1), Zero, Zero>>), Mat(2, 2, <<I(1), I(2), I(2), I(-1)>>), Z22,
              Mat(2, 2, <<I(1), I(2), I(3), I(4)>>), CMat(2, 2, <<<<I(1), I(1)>>, CZero, CZero, <<I(1), I(-1)>>>>)}
DeltaMat == IF Level = 1
            THEN {Z22, Mat(2, 2, <<Q(3, 4), Zero, Zero, I(1)>>), Mat(2, 2, <<Q(1, 2), Q(1, 2), Q(1, 2), Q(1, 2)>>),
                  Mat(2, 2, <<Q(1, 20), Zero, Zero, Zero>>), Mat(2, 2, <<Zero, I(-2), I(1), Zero>>)}
            ELSE {Z22, Mat(2, 2, <<Q(3, 4), Zero, Zero, I(1)>>), Mat(2, 2, <<Q(1, 2), Q(1, 2), Q(1, 2), Q(1, 2)>>),
                  Mat(2, 2, <<Q(1, 20), Zero, Zero, Zero>>), Mat(2, 2, <<Zero, I(-2), I(1), Zero>>),
                  Mat(2, 2, <<Zero, Q(5, 4), Zero, Zero>>), Mat(2, 2, <<Q(3, 4), Q(3, 4), Q(3, 4), Q(3, 4)>>),
                  CMat(2, 2, <<<<Zero, Q(3, 4)>>, CZero, CZero, <<I(1), Zero>>>>)}
DVarMat == {Z22, Mat(2, 2, <<Q(1, 4), Zero, Zero, Zero>>), Mat(2, 2, <<Zero, I(-1), I(1), Zero>>)}
Z2 == Vec(<<Zero, Zero>>)
XVec == IF Level = 1 THEN {Vec(<<I(3), I(4)>>), Vec(<<I(-1), Q(1, 2)>>), Z2}
        ELSE {Vec(<<I(3), I(4)>>), Vec(<<I(-1), Q(1, 2)>>), Z2, Vec(<<Zero, I(2)>>)}
DeltaVec == {Z2, Vec(<<Q(3, 4), I(1)>>), Vec(<<Q(1, 20), Zero>>), Vec(<<I(-2), I(1)>>), Vec(<<Q(3, 4), Q(3, 4)>>)}
DVarVec == {Z2, Vec(<<Q(1, 4), Zero>>), Vec(<<I(-1), I(1)>>)}
Z3 == Vec(<<Zero, Zero, Zero>>)
XVec3 == {Vec(<<I(1), I(2), I(2)>>), Vec(<<I(-1), Zero, Q(1, 2)>>), Z3}
DeltaVec3 == {Z3, Vec(<<Q(1, 4), Q(1, 2), Q(1, 2)>>), Vec(<<Q(1, 20), Zero, Zero>>), Vec(<<I(1), I(-1), I(1)>>)}
EpsArr == IF Level = 1 THEN {RZ, R(1, 100), R(1, 4), R(-2, 1)} ELSE {RZ, R(1, 100), R(1, 4), R(-2, 1), R(1, 10), R(1, 2), R(1, 5000)}

XInf == {Inf(1), Inf(-1), R(1, 1), R(-2, 1)}

\* student forms with their per-sample parameter sequences, for n samples
FP(form, ps) == [form |-> form, par |-> ps]
ConstForms(n, forms, zero) == {FP(f, Const(n, zero)) : f \in forms}
ParamForms(n, form, S) == {FP(form, Const(n, p)) : p \in S}
VarForms(n, S) == {FP("addvar", d) : d \in [1..n -> S]}

FormsReal(n) == ConstForms(n, {"same", "neg", "abs", "sq", "conj"}, RZ) \cup ParamForms(n, "add", DeltaReal)
                \cup ParamForms(n, "mul", EpsReal) \cup ParamForms(n, "const", ConstReal)
                \cup (IF n <= 2 THEN VarForms(n, DVarReal) ELSE VarForms(n, {RZ, R(-1, 1)}))
FormsCx(n) == ConstForms(n, {"same", "neg", "sq", "conj", "re"}, RZ) \cup ParamForms(n, "add", DeltaCx)
              \cup ParamForms(n, "mul", EpsCx) \cup ParamForms(n, "const", {C(1, 1, 2, 1)})
              \cup (IF n <= 2 THEN VarForms(n, DVarCx) ELSE VarForms(n, {RZ, C(-1, 1, 1, 1)}))
FormsMat(n) == ConstForms(n, {"same", "neg", "trans", "conj"}, Z22) \cup ParamForms(n, "add", DeltaMat)
               \cup ParamForms(n, "mul", EpsArr) \cup ParamForms(n, "const", {Mat(2, 2, <<I(3), Zero, Zero, I(4)>>)})
               \cup (IF n <= 2 THEN VarForms(n, DVarMat) ELSE VarForms(n, {Z22, Mat(2, 2, <<Zero, I(-1), I(1), Zero>>)}))
FormsVec(n) == ConstForms(n, {"same", "neg"}, Z2) \cup ParamForms(n, "add", DeltaVec)
               \cup ParamForms(n, "mul", EpsArr) \cup (IF n <= 2 THEN VarForms(n, DVarVec) ELSE {})
FormsVec3(n) == ConstForms(n, {"same", "neg"}, Z3) \cup ParamForms(n, "add", DeltaVec3) \cup ParamForms(n, "mul", EpsArr)
FormsInf(n) == ConstForms(n, {"same", "neg", "abs", "sq"}, RZ) \cup ParamForms(n, "add", {R(1, 4)})
               \cup ParamForms(n, "mul", {R(1, 2), R(-3, 1)})
               \cup ParamForms(n, "const", {Inf(1), Inf(-1), R(1, 1)})

(* ---- seeds *)
SeedRec(part, g, sub, tol, nf) == [kind |-> "seed", part |-> part, grader |-> g, sub |-> sub, tol |-> tol,
                                   n |-> nf[1], failable |-> nf[2], credit |-> CreditOf(nf[1], nf[2])]
N1 == {<<1, 0>>}
SeedsReal == {SeedRec("real", "F", "s", t, nf) : t \in TolsReal, nf \in NF}
             \cup {SeedRec("real", "M", "s", t, nf) : t \in {AbsTol(Q(1, 2)), PctTol(I(50))}, nf \in NFsmall}
             \cup {SeedRec("real", "N", "s", t, nf) : t \in TolsReal, nf \in N1}
SeedsCx == {SeedRec("cx", "F", "s", t, nf) : t \in TolsCx, nf \in NFsmall}
           \cup {SeedRec("cx", "N", "s", t, nf) : t \in TolsCx, nf \in N1}
SeedsArr == {SeedRec("arr", "M", "mat", t, nf) : t \in TolsArr, nf \in NFsmall}
            \cup {SeedRec("arr", "M", "vec", t, nf) : t \in TolsArr, nf \in NFsmall}
            \cup (IF Level = 2 THEN {SeedRec("arr", "M", "vec3", t, nf) : t \in TolsArr, nf \in {<<1, 0>>, <<2, 1>>}} ELSE {})
SeedsInf == {SeedRec("inf", "F", "s", t, nf) : t \in TolsInf, nf \in {<<1, 0>>, <<2, 0>>, <<2, 1>>}}
            \cup {SeedRec("inf", "N", "s", t, nf) : t \in TolsInf, nf \in N1}
SeedsRw == {SeedRec("rw", "F", "s", t, nf) : t \in TolsRw, nf \in (IF Level = 1 THEN {<<2, 0>>, <<3, 1>>} ELSE {<<1, 0>>, <<3, 1>>, <<4, 3>>})}
Seeds == (IF "real" \in Parts THEN SeedsReal ELSE {}) \cup (IF "cx" \in Parts THEN SeedsCx ELSE {})
         \cup (IF "arr" \in Parts THEN SeedsArr ELSE {}) \cup (IF "inf" \in Parts THEN SeedsInf ELSE {})
         \cup (IF "rw" \in Parts THEN SeedsRw ELSE {})

\* scripted sample sequences: every sequence for 1-2 samples, patterned ones (repeats, all positions varied) beyond
Pat3(S) == {<<a, b, a>> : a \in S, b \in S} \cup {<<a, a, b>> : a \in S, b \in S}
Pat4(S) == {<<a, b, a, b>> : a \in S, b \in S} \cup {<<a, a, b, a>> : a \in S, b \in S}
AllSeq(n, S) == [1..n -> S]
Scripts(n, S, S3) == IF n <= 2 THEN AllSeq(n, S)
                     ELSE IF n = 3 THEN (IF Level = 1 THEN Pat3(S3) ELSE AllSeq(3, S3))
                     ELSE Pat4(S3)
XReal3 == {R(-2, 1), R(1, 2), R(4, 1)}
XCx3 == {C(1, 1, 2, 1), C(-1, 2, 0, 1), C(0, 1, -3, 4)}
XMat3 == {Mat(2, 2, <<I(3), Zero, Zero, I(4)>>), Mat(2, 2, <<Zero, I(1), Zero, Zero>>), Mat(2, 2, <<I(1), I(2), I(2), I(-1)>>)}
XVec3s == {Vec(<<I(3), I(4)>>), Vec(<<I(-1), Q(1, 2)>>), Z2}
ScriptsOf(s) == CASE s.part = "real" -> Scripts(s.n, XReal, XReal3)
                  [] s.part = "cx" -> Scripts(s.n, XCx, XCx3)
                  [] s.part = "arr" -> (IF s.sub = "mat" THEN Scripts(s.n, XMat, XMat3)
                                        ELSE IF s.sub = "vec" THEN Scripts(s.n, XVec, XVec3s) ELSE AllSeq(s.n, XVec3))
                  [] s.part = "inf" -> AllSeq(s.n, XInf)
FormsOf(s) == CASE s.part = "real" -> FormsReal(s.n)
                [] s.part = "cx" -> FormsCx(s.n)
                [] s.part = "arr" -> (IF s.sub = "mat" THEN FormsMat(s.n) ELSE IF s.sub = "vec" THEN FormsVec(s.n) ELSE FormsVec3(s.n))
                [] s.part = "inf" -> FormsInf(s.n)

(* ---- rewrite part: answer trees over x, y *)
X == Var("x")
Y == Var("y")
Trees == { Bin("mul", X, Bin("add", Y, Num(I(2)))),                          \* x*(y+2)
           Bin("mul", Bin("sub", X, Y), Num(I(3))),                          \* (x-y)*3
           Bin("add", Bin("mul", X, Y), Bin("mul", X, Num(Q(1, 2)))),        \* x*y + x*(1/2)
           Bin("add", Bin("add", X, Y), Un("sq", X)),                        \* (x+y) + x^2
           Bin("sub", Un("sq", Bin("add", X, Num(I(1)))), Y),                \* (x+1)^2 - y
           Bin("mul", Bin("mul", X, Y), Un("neg", Y)) }                      \* (x*y)*(-y)
          \cup (IF Level = 2 THEN { Bin("sub", Bin("mul", Y, X), Bin("mul", Y, Bin("add", X, Num(I(1))))),   \* y*x - y*(x+1)
                                    Un("neg", Bin("sub", X, Bin("mul", Num(I(2)), Y))),                      \* -(x - 2*y)
                                    Bin("mul", Bin("add", X, Num(Q(1, 2))), Bin("sub", X, Num(Q(1, 2)))) }   \* (x+1/2)*(x-1/2)
                ELSE {})
Positions == {"root", "a", "b"}
Styles == {"tight", "spaced", "parens"}
EnvVals == IF Level = 1 THEN {Q(-2, 1), Q(1, 2), I(3)} ELSE {Q(-2, 1), Q(1, 2), I(3), Q(-1, 3)}
Env(x, y) == [v \in {"x", "y"} |-> IF v = "x" THEN x ELSE y]
Envs == {Env(x, y) : x \in EnvVals, y \in EnvVals}
MidEnvs == IF Level = 1 THEN {Env(Q(1, 2), I(3)), Env(Q(-2, 1), Q(-2, 1))}
           ELSE {Env(Q(1, 2), I(3)), Env(Q(-1, 3), Q(1, 2))}
EnvSeqs(n) == IF n = 1 THEN {<<e>> : e \in MidEnvs}
              ELSE IF n = 2 THEN {<<Env(Q(-2, 1), I(3)), e>> : e \in MidEnvs}
              ELSE IF n = 3 THEN {<<Env(I(3), Q(1, 2)), e, Env(Q(1, 2), Q(-2, 1))>> : e \in MidEnvs}
              ELSE {<<Env(I(3), Q(1, 2)), e, Env(Q(1, 2), Q(-2, 1)), Env(I(3), I(3))>> : e \in MidEnvs}
DevsRw == IF Level = 1 THEN {FP("same", RZ), FP("add", R(1, 100)), FP("add", R(1, 1)), FP("mul", R(1, 100000)), FP("mul", R(1, 2)),
                             FP("mul", R(-2, 1))}
          ELSE {FP("same", RZ), FP("add", R(1, 100)), FP("add", R(1, 1)), FP("add", R(-1, 10000)), FP("mul", R(1, 100000)),
                FP("mul", R(1, 1000)), FP("mul", R(-2, 1))}
RewritesOf(t) == {[rule |-> r, pos |-> p] : r \in Rules, p \in Positions}

(* ---- state *)
VARIABLES c, out
Init == c \in Seeds /\ out = "seed"

\* NB: everything that mentions c' below sits inside "out' = ..." or a field access, so that TLC evaluates it as a
\* value (with short-circuit \/ and CASE) and not as an action (where every disjunct is explored).
NoPrediction == [robust |-> FALSE]
CaseOracle(k) == IF (\A i \in 1..k.n : Defined(k.fp.form, k.xs[i], k.fp.par[i])) /\ (k.grader = "N" => k.fp.form # "addvar")
                 THEN JudgeForm(k.xs, k.fp.form, k.fp.par, k.tol, k.n, k.failable, k.credit)
                 ELSE NoPrediction
CaseNext == /\ c.part # "rw"
            /\ c' \in [kind : {"case"}, part : {c.part}, grader : {c.grader}, sub : {c.sub}, tol : {c.tol}, n : {c.n},
                       failable : {c.failable}, credit : {c.credit}, xs : ScriptsOf(c), fp : FormsOf(c)]
            /\ out' = CaseOracle(c')
            /\ out'.robust

\* rewrite cases: the answer is tree, the student writes the rewritten tree (optionally offset by dev)
RwValue(t, env) == Real(Eval(t, env))
RwOracle(k) ==
  IF ~ApplicableAt(k.rw.rule, k.rw.pos, k.tree) THEN NoPrediction
  ELSE LET st == ApplyAt(k.rw.rule, k.rw.pos, k.tree)
           es == [i \in 1..k.n |-> RwValue(k.tree, k.envs[i])]
           ss == [i \in 1..k.n |-> Student(k.dev.form, RwValue(st, k.envs[i]), k.dev.par)]
           j == Judge(es, ss, k.tol, k.n, k.failable, k.credit)
       IN IF j.robust /\ (\A i \in 1..k.n : j.marg[i] \in {"in", "out"})
          THEN [j EXCEPT !.marg = <<st>>]          \* the rewritten tree travels in the dump for the adapter
          ELSE NoPrediction
RwNext == /\ c.part = "rw"
          /\ c' \in [kind : {"case"}, part : {"rw"}, grader : {"F"}, sub : {"s"}, tol : {c.tol}, n : {c.n}, failable : {c.failable},
                     credit : {c.credit}, tree : Trees, rw : [rule : Rules, pos : Positions], envs : EnvSeqs(c.n),
                     dev : DevsRw, style : Styles]
          /\ out' = RwOracle(c')
          /\ out'.robust
Next == c.kind = "seed" /\ (CaseNext \/ RwNext)
IsCase == c.kind = "case"
IsForm == IsCase /\ c.part # "rw"

(* ---- laws, one invariant each *)
Es == c.xs
Ss == [i \in 1..c.n |-> Student(c.fp.form, c.xs[i], c.fp.par[i])]
LawOutDomain == IsCase => out.allowed # {} /\ out.allowed \subseteq {"accept", "reject"} /\ out.fails \in 0..c.n
                          /\ out.grades \subseteq {c.credit, Zero}
InvZeroDeviation == IsForm => \A i \in 1..c.n : LawZeroDeviation(Es[i], c.tol)
                              /\ (Ss[i] = Es[i] => Agrees(out.marg[i]))
InvSameAccepted == IsForm /\ (\A i \in 1..c.n : Ss[i] = Es[i]) => out.allowed = {"accept"}
InvTolMonotone == IsForm => \A i \in 1..c.n : LawTolMonotone(Es[i], Ss[i], c.tol)
\* (squares of deviations below 1/5000 would leave TLC's integer range: the law is checked on the others)
SmallPair(e, s) == Linear(e, s) /\ ~IsInf(e) /\ ~IsInf(s) => QSub(RealPart(e), RealPart(s))[2] <= 5000
InvRealAgrees == IsForm => \A i \in 1..c.n : SmallPair(Es[i], Ss[i]) => LawRealAgrees(Es[i], Ss[i], c.tol)
InvAbsSymmetric == IsForm => \A i \in 1..c.n : LawAbsSymmetric(Es[i], Ss[i], c.tol)
InvAbsTranslation == IsForm => \A i \in 1..c.n : LawAbsTranslation(Es[i], Ss[i], c.tol, Es[i])
InvPctScale == IsForm => \A i \in 1..c.n : LawPctScale(Es[i], Ss[i], c.tol, Q(-3, 2))
InvInfinity == IsForm => \A i \in 1..c.n : LawInfinity(Es[i], Ss[i], c.tol)
InvNormBounds == IsForm => \A i \in 1..c.n : LawNormBounds(Es[i]) /\ LawNormBounds(Ss[i])
InvMarginConsistent == IsForm => \A i \in 1..c.n : LawMarginConsistent(Es[i], Ss[i], c.tol)
InvFailableMonotone == IsCase => LawFailableMonotone(out.fails, c.n, c.failable)
InvAllMiss == IsCase => LawAllMiss(c.n, c.failable) /\ LawNoMiss(c.n, c.failable) /\ LawSingleSample(out.fails, c.failable)
InvAllMissRejected == IsCase /\ out.fails = c.n /\ c.failable < c.n => out.allowed = {"reject"}
InvVerdictCounts == IsCase /\ ~Ambiguous(out.fails, c.n, c.failable)
                      => ((out.allowed = {"accept"}) <=> (IF c.n = 1 THEN out.fails = 0 ELSE out.fails <= c.failable))
InvSafeArith == IsForm /\ IsRealScalar(c.xs[1]) /\ ~IsInf(c.xs[1]) /\ IsRealScalar(Ss[1]) /\ ~IsInf(Ss[1])
                  => LawSafeArith(RealPart(c.xs[1]), RealPart(Ss[1])) /\ LawSafeArith(RAbs(RealPart(c.xs[1])), RAbs(RealPart(Ss[1])))
\* rewrite part: every rule keeps the value at every sample, and on a grid large enough for the degree
InvRewriteKeepsValue == IsCase /\ c.part = "rw" =>
                          /\ \A i \in 1..c.n : LawRewriteKeepsValue(c.rw.rule, c.rw.pos, c.tree, c.envs[i])
                          /\ Equivalent(c.tree, out.marg[1], {"x", "y"}, {I(-1), Zero, I(1), I(2), Q(1, 2)})
InvRewriteSameAccepted == IsCase /\ c.part = "rw" /\ c.dev.form = "same" => out.allowed = {"accept"} /\ out.fails = 0
=============================================================================
