--------------------------- MODULE MC_Tolerance ---------------------------
(* Model instance for C04.  TLC enumerates every case inside the bounds, evaluates the property-level verdict
   (Tolerance!JudgeForm) and the laws; the dump is replayed into the real FormulaGrader / NumericalGrader /
   MatrixGrader with scripted sampling sets.

   Parts (constant Parts, a set):
     "real"  real scalar answers          graders F (FormulaGrader), M (MatrixGrader), N (NumericalGrader, one sample)
     "cx"    complex scalar answers       graders F, N
     "arr"   vector and matrix answers    grader M
     "inf"   infinities                   graders F, N with allow_inf
     "fine"  tolerances with three and more decimals, very large ones, and the spellings a percentage string may
             have, with deviations at 1/2 ... 2 times the tolerance itself      graders F, M, N
     "cans"  constant answers ('2', '2*pi/pi') in graders that have a variable: the student's formula uses the
             variable and agrees with the answer on part of the scripted samples only      graders F, M
     "car"   the value CARRIER: the scripted value reaches the formulas through a user function drawn anew at every
             sample (answer 'f(1)', no variable mentioned), through a numbered-variable instance (a_{1}), through a
             dependent variable (y = 1*x) or through a constant-times-variable mix (one*x)                graders F, M
     "rw"    answer trees and their rewrites (commutation, distribution, +0, *1, ...) with and without an offset
   Level 1 = quick bounds, 2 = thorough bounds.
   Two-level enumeration: Init picks a seed (grader, tolerance, samples, failable_evals), Next picks the case. *)
EXTENDS Tolerance
CONSTANTS Parts, Level

R(n, d) == Real(Q(n, d))
C(a, b, c, d) == Scalar(<<Q(a, b), Q(c, d)>>)
RZ == Real(Zero)
Vec(qs) == Fin(<<Len(qs)>>, [k \in 1..Len(qs) |-> CRe(qs[k])])
Mat(r, c, qs) == Fin(<<r, c>>, [k \in 1..Len(qs) |-> CRe(qs[k])])
CMat(r, c, zs) == Fin(<<r, c>>, zs)
I(n) == Q(n, 1)
Const(n, v) == [i \in 1..n |-> v]

(* ---- tolerances *)
TolsReal == IF Level = 1
            THEN {AbsTol(Zero), AbsTol(Q(1, 2)), AbsTol(Q(1, 10)), PctTol(Zero), PctTol(I(50)), PctTol(I(10)), PctTol(Q(1, 100))}
            ELSE {AbsTol(Zero), AbsTol(Q(1, 2)), AbsTol(Q(1, 10)),
                  PctTol(Zero), PctTol(I(50)), PctTol(I(10)), PctTol(Q(1, 100)), PctTol(I(200))}
TolsCx == IF Level = 1 THEN {AbsTol(Zero), AbsTol(Q(5, 4)), AbsTol(Q(1, 10)), PctTol(Zero), PctTol(I(50)), PctTol(I(10))}
          ELSE {AbsTol(Zero), AbsTol(Q(5, 4)), AbsTol(Q(1, 10)), PctTol(Zero), PctTol(I(50)), PctTol(I(10)), PctTol(Q(1, 100))}
TolsArr == IF Level = 1 THEN {AbsTol(Zero), AbsTol(Q(5, 4)), AbsTol(Q(9, 8)), PctTol(Zero), PctTol(I(25)), PctTol(I(10))}
           ELSE {AbsTol(Zero), AbsTol(Q(5, 4)), AbsTol(Q(9, 8)), AbsTol(Q(1, 10)),
                 PctTol(Zero), PctTol(I(25)), PctTol(I(10)), PctTol(Q(1, 100))}
TolsInf == {AbsTol(Zero), AbsTol(Q(1, 2)), PctTol(I(50)), PctTol(I(1000))}
TolsRw == IF Level = 1 THEN {AbsTol(Q(1, 10)), PctTol(Q(1, 100))}
          ELSE {AbsTol(Q(1, 10)), PctTol(Q(1, 100)), PctTol(I(5))}

(* ---- <<samples, failable_evals>>: Level 2 takes every pair of 1..4 x 0..3 for real scalars in FormulaGrader;
   Level 1 a selection up to 3 samples that still contains failable < samples, = samples - 1 and >= samples *)
NF == IF Level = 1 THEN {<<1, 0>>, <<2, 0>>, <<2, 1>>, <<2, 3>>, <<3, 0>>, <<3, 1>>, <<3, 3>>}
      ELSE {<<n, f>> : n \in 1..4, f \in 0..3}
NFsmall == IF Level = 1 THEN {<<1, 0>>, <<2, 0>>, <<3, 1>>}
           ELSE {<<1, 0>>, <<1, 1>>, <<2, 0>>, <<2, 2>>, <<3, 0>>, <<3, 2>>, <<4, 2>>}
\* the answer's credit alternates with the seed so that full and partial credit are both exercised everywhere
CreditOf(n, f) == IF (n + f) % 2 = 0 THEN One ELSE Q(1, 2)

(* ---- sampled values and student forms per part *)
XReal == IF Level = 1 THEN {R(-2, 1), RZ, R(1, 2), R(4, 1)} ELSE {R(-2, 1), R(-1, 3), RZ, R(1, 2), R(4, 1)}
DeltaReal == IF Level = 1 THEN {RZ, R(1, 20), R(1, 2), R(-1, 4), R(-3, 1)}
             ELSE {RZ, R(1, 20), R(-1, 20), R(1, 2), R(-1, 2), R(-1, 4), R(1, 10), R(-3, 1)}
EpsReal == IF Level = 1 THEN {RZ, R(1, 100), R(1, 2), R(-1, 10), R(-2, 1)}
           ELSE {RZ, R(1, 100), R(1, 2), R(-1, 2), R(-1, 10), R(1, 20000), R(1, 5000), R(-2, 1)}
DVarReal == IF Level = 1 THEN {RZ, R(1, 4), R(-1, 1)} ELSE {RZ, R(1, 4), R(-1, 1), R(1, 2)}
ConstReal == {R(1, 2), R(-2, 1)}

XCx == IF Level = 1 THEN {C(1, 1, 2, 1), C(-1, 2, 0, 1), C(0, 1, -3, 4), RZ}
       ELSE {C(1, 1, 2, 1), C(-1, 2, 0, 1), C(0, 1, -3, 4), RZ, C(3, 1, -4, 1), C(2, 1, 0, 1)}
DeltaCx == IF Level = 1 THEN {RZ, C(3, 4, 1, 1), C(0, 1, 1, 20), C(-1, 1, 1, 1)}
           ELSE {RZ, C(3, 4, 1, 1), C(0, 1, 1, 20), C(-1, 1, 1, 1), C(3, 4, -1, 1), C(0, 1, 5, 4), C(3, 5, 4, 5), C(1, 20, 0, 1)}
EpsCx == IF Level = 1 THEN {RZ, R(1, 100), R(1, 2), R(-2, 1)} ELSE {RZ, R(1, 100), R(1, 2), R(-2, 1), R(1, 4), R(-1, 10), R(1, 5000)}
DVarCx == {RZ, C(0, 1, 1, 4), C(-1, 1, 1, 1)}

Z22 == Mat(2, 2, <<Zero, Zero, Zero, Zero>>)
XMat == IF Level = 1
        THEN {Mat(2, 2, <<I(3), Zero, Zero, I(4)>>), Mat(2, 2, <<Zero, I(1), Zero, Zero>>), Mat(2, 2, <<I(1), I(2), I(2), I(-1)>>), Z22}
        ELSE {Mat(2, 2, <<I(3), Zero, Zero, I(4)>>), Mat(2, 2, <<Zero, I(1), Zero, Zero>>), Mat(2, 2, <<I(1), I(2), I(2), I(-1)>>), Z22,
              Mat(2, 2, <<I(1), I(2), I(3), I(4)>>), CMat(2, 2, <<<<I(1), I(1)>>, CZero, CZero, <<I(1), I(-1)>>>>)}
DeltaMat == IF Level = 1
            THEN {Z22, Mat(2, 2, <<Q(3, 4), Zero, Zero, I(1)>>), Mat(2, 2, <<Q(1, 2), Q(1, 2), Q(1, 2), Q(1, 2)>>),
                  Mat(2, 2, <<Q(1, 20), Zero, Zero, Zero>>), Mat(2, 2, <<Zero, I(-2), I(1), Zero>>)}
            ELSE {Z22, Mat(2, 2, <<Q(3, 4), Zero, Zero, I(1)>>), Mat(2, 2, <<Q(1, 2), Q(1, 2), Q(1, 2), Q(1, 2)>>),
                  Mat(2, 2, <<Q(1, 20), Zero, Zero, Zero>>), Mat(2, 2, <<Zero, I(-2), I(1), Zero>>),
                  Mat(2, 2, <<Zero, Q(5, 4), Zero, Zero>>), Mat(2, 2, <<Q(3, 4), Q(3, 4), Q(3, 4), Q(3, 4)>>),
                  CMat(2, 2, <<<<Zero, Q(3, 4)>>, CZero, CZero, <<I(1), Zero>>>>)}
DVarMat == {Z22, Mat(2, 2, <<Q(1, 4), Zero, Zero, Zero>>), Mat(2, 2, <<Zero, I(-1), I(1), Zero>>)}
Z2 == Vec(<<Zero, Zero>>)
XVec == IF Level = 1 THEN {Vec(<<I(3), I(4)>>), Vec(<<I(-1), Q(1, 2)>>), Z2}
        ELSE {Vec(<<I(3), I(4)>>), Vec(<<I(-1), Q(1, 2)>>), Z2, Vec(<<Zero, I(2)>>)}
DeltaVec == {Z2, Vec(<<Q(3, 4), I(1)>>), Vec(<<Q(1, 20), Zero>>), Vec(<<I(-2), I(1)>>), Vec(<<Q(3, 4), Q(3, 4)>>)}
DVarVec == {Z2, Vec(<<Q(1, 4), Zero>>), Vec(<<I(-1), I(1)>>)}
Z3 == Vec(<<Zero, Zero, Zero>>)
XVec3 == {Vec(<<I(1), I(2), I(2)>>), Vec(<<I(-1), Zero, Q(1, 2)>>), Z3}
DeltaVec3 == {Z3, Vec(<<Q(1, 4), Q(1, 2), Q(1, 2)>>), Vec(<<Q(1, 20), Zero, Zero>>), Vec(<<I(1), I(-1), I(1)>>)}
EpsArr == IF Level = 1 THEN {RZ, R(1, 100), R(1, 4), R(-2, 1)} ELSE {RZ, R(1, 100), R(1, 4), R(-2, 1), R(1, 10), R(1, 2), R(1, 5000)}

XInf == {Inf(1), Inf(-1), R(1, 1), R(-2, 1)}

\* student forms with their per-sample parameter sequences, for n samples
FP(form, ps) == [form |-> form, par |-> ps]
ConstForms(n, forms, zero) == {FP(f, Const(n, zero)) : f \in forms}
ParamForms(n, form, S) == {FP(form, Const(n, p)) : p \in S}
VarForms(n, S) == {FP("addvar", d) : d \in [1..n -> S]}

FormsReal(n) == ConstForms(n, {"same", "neg", "abs", "sq", "conj"}, RZ) \cup ParamForms(n, "add", DeltaReal)
                \cup ParamForms(n, "mul", EpsReal) \cup ParamForms(n, "const", ConstReal)
                \cup (IF n <= 2 THEN VarForms(n, DVarReal) ELSE VarForms(n, {RZ, R(-1, 1)}))
FormsCx(n) == ConstForms(n, {"same", "neg", "sq", "conj", "re"}, RZ) \cup ParamForms(n, "add", DeltaCx)
              \cup ParamForms(n, "mul", EpsCx) \cup ParamForms(n, "const", {C(1, 1, 2, 1)})
              \cup (IF n <= 2 THEN VarForms(n, DVarCx) ELSE VarForms(n, {RZ, C(-1, 1, 1, 1)}))
FormsMat(n) == ConstForms(n, {"same", "neg", "trans", "conj"}, Z22) \cup ParamForms(n, "add", DeltaMat)
               \cup ParamForms(n, "mul", EpsArr) \cup ParamForms(n, "const", {Mat(2, 2, <<I(3), Zero, Zero, I(4)>>)})
               \cup (IF n <= 2 THEN VarForms(n, DVarMat) ELSE VarForms(n, {Z22, Mat(2, 2, <<Zero, I(-1), I(1), Zero>>)}))
FormsVec(n) == ConstForms(n, {"same", "neg"}, Z2) \cup ParamForms(n, "add", DeltaVec)
               \cup ParamForms(n, "mul", EpsArr) \cup (IF n <= 2 THEN VarForms(n, DVarVec) ELSE {})
FormsVec3(n) == ConstForms(n, {"same", "neg"}, Z3) \cup ParamForms(n, "add", DeltaVec3) \cup ParamForms(n, "mul", EpsArr)
FormsInf(n) == ConstForms(n, {"same", "neg", "abs", "sq"}, RZ) \cup ParamForms(n, "add", {R(1, 4)})
               \cup ParamForms(n, "mul", {R(1, 2), R(-3, 1)})
               \cup ParamForms(n, "const", {Inf(1), Inf(-1), R(1, 1)})

(* ---- seeds *)
SeedRecA(part, g, sub, tol, nf, ans) == [kind |-> "seed", part |-> part, grader |-> g, sub |-> sub, tol |-> tol, ans |-> ans,
                                         n |-> nf[1], failable |-> nf[2], credit |-> CreditOf(nf[1], nf[2])]
SeedRec(part, g, sub, tol, nf) == SeedRecA(part, g, sub, tol, nf, IdAns)
N1 == {<<1, 0>>}
SeedsReal == {SeedRec("real", "F", "s", t, nf) : t \in TolsReal, nf \in NF}
             \cup {SeedRec("real", "M", "s", t, nf) : t \in {AbsTol(Q(1, 2)), PctTol(I(50))}, nf \in NFsmall}
             \cup {SeedRec("real", "N", "s", t, nf) : t \in TolsReal, nf \in N1}
SeedsCx == {SeedRec("cx", "F", "s", t, nf) : t \in TolsCx, nf \in NFsmall}
           \cup {SeedRec("cx", "N", "s", t, nf) : t \in TolsCx, nf \in N1}
SeedsArr == {SeedRec("arr", "M", "mat", t, nf) : t \in TolsArr, nf \in NFsmall}
            \cup {SeedRec("arr", "M", "vec", t, nf) : t \in TolsArr, nf \in NFsmall}
            \cup (IF Level = 2 THEN {SeedRec("arr", "M", "vec3", t, nf) : t \in TolsArr, nf \in {<<1, 0>>, <<2, 1>>}} ELSE {})
SeedsInf == {SeedRec("inf", "F", "s", t, nf) : t \in TolsInf, nf \in {<<1, 0>>, <<2, 0>>, <<2, 1>>}}
            \cup {SeedRec("inf", "N", "s", t, nf) : t \in TolsInf, nf \in N1}
SeedsRw == {SeedRec("rw", "F", "s", t, nf) : t \in TolsRw, nf \in (IF Level = 1 THEN {<<2, 0>>, <<3, 1>>} ELSE {<<1, 0>>, <<3, 1>>, <<4, 3>>})}
(* ---- part "fine": the tolerance option must be applied as written.  sp is the spelling the adapter uses for the option
   ("plain" 0.004%, "sci" 4e-3%, "padded" blanks around, "zeros" 00.0040%, "int"/"float" for numbers); the
   specification reads the value only.  Deviations are multiples of the tolerance itself. *)
Sp(t, sp) == [kind |-> t.kind, v |-> t.v, sp |-> sp]
TolsFinePct == {Sp(PctTol(Q(1, 250)), "plain"), Sp(PctTol(Q(1, 250)), "sci"), Sp(PctTol(Q(7, 500)), "plain"),
                Sp(PctTol(Q(2, 125)), "padded"), Sp(PctTol(Q(1, 8)), "plain"), Sp(PctTol(Q(1, 16)), "zeros"),
                Sp(PctTol(Q(1, 1000)), "plain"), Sp(PctTol(I(250)), "plain"), Sp(PctTol(I(1000)), "sci")}
               \cup (IF Level = 2 THEN {Sp(PctTol(Q(1, 2500)), "plain"), Sp(PctTol(Q(2469, 200)), "plain"), Sp(PctTol(Q(3, 8)), "padded"),
                                        Sp(PctTol(Q(7, 500)), "zeros"), Sp(PctTol(Q(1, 40)), "sci"), Sp(PctTol(I(5)), "float")}
                     ELSE {})
TolsFineAbs == {Sp(AbsTol(Q(1, 250)), "plain"), Sp(AbsTol(Q(1, 80)), "plain")}
               \cup (IF Level = 2 THEN {Sp(AbsTol(Q(7, 500)), "sci"), Sp(AbsTol(Q(5, 2)), "plain")} ELSE {})
TolsFineAbsScalar == {Sp(AbsTol(Q(1, 100000)), "sci"), Sp(AbsTol(I(1000)), "int"), Sp(AbsTol(I(1000)), "float")}
FineFactors == {Q(1, 2), Q(6, 7), Q(49, 50), Q(51, 50), Q(9, 8), I(2)}
SignedFine(t) == {QMul(t, f) : f \in FineFactors} \cup {Neg(QMul(t, f)) : f \in {Q(6, 7), Q(9, 8)}}
UnitDelta(sub, q) == IF sub = "vec" THEN Vec(<<Zero, q>>) ELSE IF sub = "mat" THEN Mat(2, 2, <<Zero, q, Zero, Zero>>) ELSE Real(q)
FormsFine(s) == IF s.tol.kind = "pct" THEN {FP("mul", Const(s.n, Real(e))) : e \in SignedFine(PctFactor(s.tol)) \cup {Zero}}
                ELSE {FP("same", Const(s.n, RZ))} \cup {FP("add", Const(s.n, UnitDelta(s.sub, d))) : d \in SignedFine(s.tol.v)}
XFine(sub) == IF sub = "vec" THEN {Vec(<<I(3), I(4)>>), Vec(<<I(-1), Q(1, 2)>>)}
              ELSE IF sub = "mat" THEN {Mat(2, 2, <<I(3), Zero, Zero, I(4)>>), Mat(2, 2, <<I(1), I(2), I(2), I(-1)>>)}
              ELSE {R(-2, 1), R(1, 2), R(4, 1)}
SeedsFine == {SeedRec("fine", "F", "s", t, nf) : t \in TolsFinePct \cup TolsFineAbs \cup TolsFineAbsScalar, nf \in {<<1, 0>>, <<2, 0>>, <<3, 1>>}}
             \cup {SeedRec("fine", "N", "s", t, nf) : t \in TolsFinePct \cup TolsFineAbs \cup TolsFineAbsScalar, nf \in N1}
             \cup {SeedRec("fine", "M", sub, t, nf) : sub \in {"vec", "mat"}, t \in TolsFinePct \cup TolsFineAbs, nf \in {<<1, 0>>, <<2, 1>>}}

(* ---- part "cans": constant answers.  The expected value is the same at every sample, the student's value is not:
   all configured samples still count.  sp "pi" spells the constant 2 as 2*pi/pi (a constant expression). *)
AnsCans == {ConstAns(R(2, 1), "lit"), ConstAns(R(2, 1), "pi"), ConstAns(R(-1, 2), "lit")}
XCans == {R(2, 1), R(-2, 1), R(1, 1), R(-1, 2)}
XCans3 == {R(2, 1), R(-2, 1), R(1, 1)}
TolsCans == IF Level = 1 THEN {AbsTol(Zero), AbsTol(Q(1, 10)), PctTol(Q(1, 100))}
            ELSE {AbsTol(Zero), AbsTol(Q(1, 10)), PctTol(I(10)), PctTol(Q(1, 100))}
NFCans == IF Level = 1 THEN {<<2, 0>>, <<2, 1>>, <<3, 1>>, <<3, 3>>} ELSE {<<n, f>> : n \in 2..4, f \in 0..3}
FormsCans(s) == LET k == s.ans.k IN
                ConstForms(s.n, {"same", "abs", "neg"}, RZ) \cup ParamForms(s.n, "sgn", {k}) \cup ParamForms(s.n, "times", {k})
                \cup ParamForms(s.n, "plus0", {k}) \cup ParamForms(s.n, "const", {k, VAdd(k, R(1, 20))})
SeedsCans == {SeedRecA("cans", "F", "s", t, nf, a) : t \in TolsCans, nf \in NFCans, a \in AnsCans}
             \cup {SeedRecA("cans", "M", "s", AbsTol(Q(1, 10)), nf, ConstAns(R(2, 1), "lit")) : nf \in NFCans}

(* ---- part "car": what carries the sampled value *)
NFCar == IF Level = 1 THEN {<<2, 0>>, <<2, 1>>, <<3, 1>>} ELSE NFsmall
SeedsFun == {SeedRecA("car", "F", "s", t, nf, IdfAns) : t \in {AbsTol(Zero), PctTol(I(50))},
                                                        nf \in (IF Level = 1 THEN {<<1, 0>>, <<2, 0>>, <<2, 1>>, <<3, 1>>} ELSE NFsmall)}
            \cup {SeedRecA("car", "M", "s", AbsTol(Q(1, 2)), nf, IdfAns) : nf \in {<<2, 0>>}}
            \cup {SeedRecA("car", "F", "s", t, nf, CarrierAns("idn")) : t \in {AbsTol(Zero), PctTol(I(50))}, nf \in NFCar}
            \cup {SeedRecA("car", "F", "s", PctTol(I(50)), nf, CarrierAns(f)) : f \in {"idd", "idm"}, nf \in NFCar \ {<<2, 0>>}}

(* ---- generous failable_evals: failable_evals = samples, samples + 1, samples + 2 (the count rule still decides) *)
NFOver == IF Level = 1 THEN {<<2, 2>>, <<2, 4>>, <<3, 4>>, <<3, 5>>}
          ELSE {<<n, n + k>> : n \in 2..4, k \in 0..2} \ {<<2, 2>>, <<2, 3>>, <<3, 3>>}
SeedsOver == {SeedRec("real", "F", "s", AbsTol(Q(1, 2)), nf) : nf \in NFOver}
             \cup {SeedRec("real", "F", "s", PctTol(I(50)), nf) : nf \in (IF Level = 1 THEN {<<2, 2>>, <<3, 4>>} ELSE NFOver)}

Seeds == (IF "real" \in Parts THEN SeedsReal ELSE {}) \cup (IF "fine" \in Parts THEN SeedsFine ELSE {})
         \cup (IF "car" \in Parts THEN SeedsFun ELSE {}) \cup (IF "real" \in Parts THEN SeedsOver ELSE {})
         \cup (IF "cans" \in Parts THEN SeedsCans ELSE {}) \cup (IF "cx" \in Parts THEN SeedsCx ELSE {})
         \cup (IF "arr" \in Parts THEN SeedsArr ELSE {}) \cup (IF "inf" \in Parts THEN SeedsInf ELSE {})
         \cup (IF "rw" \in Parts THEN SeedsRw ELSE {})

\* scripted sample sequences: every sequence for 1-2 samples, patterned ones (repeats, all positions varied) beyond
Pat3(S) == {<<a, b, a>> : a \in S, b \in S} \cup {<<a, a, b>> : a \in S, b \in S}
Pat4(S) == {<<a, b, a, b>> : a \in S, b \in S} \cup {<<a, a, b, a>> : a \in S, b \in S}
AllSeq(n, S) == [1..n -> S]
Scripts(n, S, S3) == IF n <= 2 THEN AllSeq(n, S)
                     ELSE IF n = 3 THEN (IF Level = 1 THEN Pat3(S3) ELSE AllSeq(3, S3))
                     ELSE Pat4(S3)
XReal3 == {R(-2, 1), R(1, 2), R(4, 1)}
XCx3 == {C(1, 1, 2, 1), C(-1, 2, 0, 1), C(0, 1, -3, 4)}
XMat3 == {Mat(2, 2, <<I(3), Zero, Zero, I(4)>>), Mat(2, 2, <<Zero, I(1), Zero, Zero>>), Mat(2, 2, <<I(1), I(2), I(2), I(-1)>>)}
XVec3s == {Vec(<<I(3), I(4)>>), Vec(<<I(-1), Q(1, 2)>>), Z2}
ScriptsOf(s) == CASE s.part \in {"real", "car"} -> Scripts(s.n, XReal, XReal3)
                  [] s.part = "cx" -> Scripts(s.n, XCx, XCx3)
                  [] s.part = "arr" -> (IF s.sub = "mat" THEN Scripts(s.n, XMat, XMat3)
                                        ELSE IF s.sub = "vec" THEN Scripts(s.n, XVec, XVec3s) ELSE AllSeq(s.n, XVec3))
                  [] s.part = "inf" -> AllSeq(s.n, XInf)
                  [] s.part = "fine" -> (IF s.n <= 2 THEN AllSeq(s.n, XFine(s.sub)) ELSE Pat3(XFine(s.sub)))
                  [] s.part = "cans" -> Scripts(s.n, XCans, XCans3)
FormsOf(s) == CASE s.part \in {"real", "car"} -> FormsReal(s.n)
                [] s.part = "cx" -> FormsCx(s.n)
                [] s.part = "arr" -> (IF s.sub = "mat" THEN FormsMat(s.n) ELSE IF s.sub = "vec" THEN FormsVec(s.n) ELSE FormsVec3(s.n))
                [] s.part = "inf" -> FormsInf(s.n)
                [] s.part = "fine" -> FormsFine(s)
                [] s.part = "cans" -> FormsCans(s)

(* ---- rewrite part: answer trees over x, y *)
X == Var("x")
Y == Var("y")
Trees == { Bin("mul", X, Bin("add", Y, Num(I(2)))),                          \* x*(y+2)
           Bin("mul", Bin("sub", X, Y), Num(I(3))),                          \* (x-y)*3
           Bin("add", Bin("mul", X, Y), Bin("mul", X, Num(Q(1, 2)))),        \* x*y + x*(1/2)
           Bin("add", Bin("add", X, Y), Un("sq", X)),                        \* (x+y) + x^2
           Bin("sub", Un("sq", Bin("add", X, Num(I(1)))), Y),                \* (x+1)^2 - y
           Bin("mul", Bin("mul", X, Y), Un("neg", Y)) }                      \* (x*y)*(-y)
          \cup (IF Level = 2 THEN { Bin("sub", Bin("mul", Y, X), Bin("mul", Y, Bin("add", X, Num(I(1))))),   \* y*x - y*(x+1)
                                    Un("neg", Bin("sub", X, Bin("mul", Num(I(2)), Y))),                      \* -(x - 2*y)
                                    Bin("mul", Bin("add", X, Num(Q(1, 2))), Bin("sub", X, Num(Q(1, 2)))) }   \* (x+1/2)*(x-1/2)
                ELSE {})
Positions == {"root", "a", "b"}
Styles == {"tight", "spaced", "parens"}
EnvVals == IF Level = 1 THEN {Q(-2, 1), Q(1, 2), I(3)} ELSE {Q(-2, 1), Q(1, 2), I(3), Q(-1, 3)}
Env(x, y) == [v \in {"x", "y"} |-> IF v = "x" THEN x ELSE y]
Envs == {Env(x, y) : x \in EnvVals, y \in EnvVals}
MidEnvs == IF Level = 1 THEN {Env(Q(1, 2), I(3)), Env(Q(-2, 1), Q(-2, 1))}
           ELSE {Env(Q(1, 2), I(3)), Env(Q(-1, 3), Q(1, 2))}
EnvSeqs(n) == IF n = 1 THEN {<<e>> : e \in MidEnvs}
              ELSE IF n = 2 THEN {<<Env(Q(-2, 1), I(3)), e>> : e \in MidEnvs}
              ELSE IF n = 3 THEN {<<Env(I(3), Q(1, 2)), e, Env(Q(1, 2), Q(-2, 1))>> : e \in MidEnvs}
              ELSE {<<Env(I(3), Q(1, 2)), e, Env(Q(1, 2), Q(-2, 1)), Env(I(3), I(3))>> : e \in MidEnvs}
DevsRw == IF Level = 1 THEN {FP("same", RZ), FP("add", R(1, 100)), FP("add", R(1, 1)), FP("mul", R(1, 100000)), FP("mul", R(1, 2)),
                             FP("mul", R(-2, 1))}
          ELSE {FP("same", RZ), FP("add", R(1, 100)), FP("add", R(1, 1)), FP("add", R(-1, 10000)), FP("mul", R(1, 100000)),
                FP("mul", R(1, 1000)), FP("mul", R(-2, 1))}
RewritesOf(t) == {[rule |-> r, pos |-> p] : r \in Rules, p \in Positions}

(* ---- state *)
VARIABLES c, out
Init == c \in Seeds /\ out = "seed"

\* NB: everything that mentions c' below sits inside "out' = ..." or a field access, so that TLC evaluates it as a
\* value (with short-circuit \/ and CASE) and not as an action (where every disjunct is explored).
NoPrediction == [robust |-> FALSE]
CaseOracle(k) == IF (\A i \in 1..k.n : DefinedAns(k.ans, k.fp.form, k.xs[i], k.fp.par[i])) /\ (k.grader = "N" => k.fp.form # "addvar")
                 THEN JudgeAns(k.ans, k.xs, k.fp.form, k.fp.par, k.tol, k.n, k.failable, k.credit)
                 ELSE NoPrediction
CaseNext == /\ c.part # "rw"
            /\ c' \in [kind : {"case"}, part : {c.part}, grader : {c.grader}, sub : {c.sub}, tol : {c.tol}, n : {c.n},
                       failable : {c.failable}, credit : {c.credit}, ans : {c.ans}, xs : ScriptsOf(c), fp : FormsOf(c)]
            /\ out' = CaseOracle(c')
            /\ out'.robust

\* rewrite cases: the answer is tree, the student writes the rewritten tree (optionally offset by dev)
RwValue(t, env) == Real(Eval(t, env))
RwOracle(k) ==
  IF ~ApplicableAt(k.rw.rule, k.rw.pos, k.tree) THEN NoPrediction
  ELSE LET st == ApplyAt(k.rw.rule, k.rw.pos, k.tree)
           es == [i \in 1..k.n |-> RwValue(k.tree, k.envs[i])]
           ss == [i \in 1..k.n |-> Student(k.dev.form, RwValue(st, k.envs[i]), k.dev.par)]
           j == Judge(es, ss, k.tol, k.n, k.failable, k.credit)
       IN IF j.robust /\ (\A i \in 1..k.n : j.marg[i] \in {"in", "out"})
          THEN [j EXCEPT !.marg = <<st>>]          \* the rewritten tree travels in the dump for the adapter
          ELSE NoPrediction
RwNext == /\ c.part = "rw"
          /\ c' \in [kind : {"case"}, part : {"rw"}, grader : {"F"}, sub : {"s"}, tol : {c.tol}, n : {c.n}, failable : {c.failable},
                     credit : {c.credit}, ans : {c.ans}, tree : Trees, rw : [rule : Rules, pos : Positions], envs : EnvSeqs(c.n),
                     dev : DevsRw, style : Styles]
          /\ out' = RwOracle(c')
          /\ out'.robust
Next == c.kind = "seed" /\ (CaseNext \/ RwNext)
IsCase == c.kind = "case"
IsForm == IsCase /\ c.part # "rw"
\* cases on which the per-sample laws are evaluated through the general squared-norm definition: everything except
\* arrays under the fine tolerances (their squares leave the integer range; the scale-invariance shortcut judges them)
IsLawCase == IsForm /\ (c.part = "fine" => c.sub = "s")

(* ---- laws, one invariant each *)
Es == [i \in 1..c.n |-> Expected(c.ans, c.xs[i])]
Ss == [i \in 1..c.n |-> Student(c.fp.form, c.xs[i], c.fp.par[i])]
LawOutDomain == IsCase => out.allowed # {} /\ out.allowed \subseteq {"accept", "reject"} /\ out.fails \in 0..c.n
                          /\ out.grades \subseteq {c.credit, Zero}
InvZeroDeviation == IsLawCase => \A i \in 1..c.n : LawZeroDeviation(Es[i], c.tol)
                              /\ (Ss[i] = Es[i] => Agrees(out.marg[i]))
InvSameAccepted == IsForm /\ (\A i \in 1..c.n : Ss[i] = Es[i]) => out.allowed = {"accept"}
InvTolMonotone == IsLawCase => \A i \in 1..c.n : LawTolMonotone(Es[i], Ss[i], c.tol)
\* (squares of deviations below 1/5000 would leave TLC's integer range: the law is checked on the others)
SmallPair(e, s) == Linear(e, s) /\ ~IsInf(e) /\ ~IsInf(s) => QSub(RealPart(e), RealPart(s))[2] <= 5000
InvRealAgrees == IsLawCase /\ TolK(c.tol)[2] <= 10000 => \A i \in 1..c.n : SmallPair(Es[i], Ss[i]) => LawRealAgrees(Es[i], Ss[i], c.tol)
InvAbsSymmetric == IsLawCase => \A i \in 1..c.n : LawAbsSymmetric(Es[i], Ss[i], c.tol)
InvAbsTranslation == IsLawCase => \A i \in 1..c.n : LawAbsTranslation(Es[i], Ss[i], c.tol, Es[i])
InvPctScale == IsLawCase => \A i \in 1..c.n : LawPctScale(Es[i], Ss[i], c.tol, Q(-3, 2))
InvInfinity == IsLawCase => \A i \in 1..c.n : LawInfinity(Es[i], Ss[i], c.tol)
InvNormBounds == IsLawCase /\ c.part # "fine" => \A i \in 1..c.n : LawNormBounds(Es[i]) /\ LawNormBounds(Ss[i])
InvMarginConsistent == IsLawCase => \A i \in 1..c.n : LawMarginConsistent(Es[i], Ss[i], c.tol)
InvOrderIrrelevant == IsForm => LawOrderIrrelevant(out.marg, c.n, c.failable, c.credit)
\* a constant answer is judged over all samples: the failure count is the number of samples where the student differs
InvConstAnswerAllSamples == IsLawCase /\ c.ans.form = "const"
                              => out.fails = Cardinality({i \in 1..c.n : ~Within(c.ans.k, Ss[i], c.tol)})
InvMulShortcut == IsLawCase /\ c.ans.form = "id" /\ c.fp.form = "mul" /\ c.tol.v[2] <= 100
                    => \A i \in 1..c.n : RealPart(c.fp.par[i])[2] <= 100 => LawMulShortcut(c.xs[i], RealPart(c.fp.par[i]), c.tol)
InvCarrierIrrelevant == IsForm /\ c.ans.form \in Carriers \ {"id"} => LawCarrierIrrelevant(c.xs, c.fp.form, c.fp.par, c.tol, c.n, c.failable, c.credit)
InvFailableMonotone == IsCase => LawFailableMonotone(out.fails, c.n, c.failable)
InvAllMiss == IsCase => LawAllMiss(c.n, c.failable) /\ LawNoMiss(c.n, c.failable) /\ LawSingleSample(out.fails, c.failable)
InvAllMissRejected == IsCase /\ out.fails = c.n /\ c.failable < c.n => out.allowed = {"reject"}
InvVerdictCounts == IsCase => ((out.allowed = {"accept"}) <=> (IF c.n = 1 THEN out.fails = 0 ELSE out.fails <= c.failable))
                                /\ LawCountRule(out.fails, c.n, c.failable)
\* an author who sets failable_evals >= samples >= 2 forgives even a miss at every sample
InvGenerousAccepted == IsCase /\ Generous(out.fails, c.n, c.failable) => out.allowed = {"accept"}
InvSafeArith == IsLawCase /\ IsRealScalar(c.xs[1]) /\ ~IsInf(c.xs[1]) /\ IsRealScalar(Ss[1]) /\ ~IsInf(Ss[1])
                  => LawSafeArith(RealPart(c.xs[1]), RealPart(Ss[1])) /\ LawSafeArith(RAbs(RealPart(c.xs[1])), RAbs(RealPart(Ss[1])))
\* rewrite part: every rule keeps the value at every sample, and on a grid large enough for the degree
InvRewriteKeepsValue == IsCase /\ c.part = "rw" =>
                          /\ \A i \in 1..c.n : LawRewriteKeepsValue(c.rw.rule, c.rw.pos, c.tree, c.envs[i])
                          /\ Equivalent(c.tree, out.marg[1], {"x", "y"}, {I(-1), Zero, I(1), I(2), Q(1, 2)})
InvRewriteSameAccepted == IsCase /\ c.part = "rw" /\ c.dev.form = "same" => out.allowed = {"accept"} /\ out.fails = 0
=============================================================================
