INIT Init
NEXT Next
CONSTANTS
  Part = "history"
  Flaws = {}
  Thorough = FALSE
INVARIANT LawHistory
INVARIANT LawWellFormed
INVARIANT LawImplDeviatesOnlyThere_
