INIT Init
NEXT Next
CONSTANTS
  Part = "ctx"
  Tier = "quick"
INVARIANT LawCtx
