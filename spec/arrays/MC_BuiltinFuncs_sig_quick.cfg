INIT Init
NEXT Next
CONSTANTS
  Part = "sig"
  Tier = "quick"
INVARIANT LawCall
INVARIANT LawSigPrecedence
INVARIANT LawOverride
