SPECIFICATION Spec
CONSTANTS
  Shapes <- Shapes3
  Vals <- V012
  Reuse = FALSE
INVARIANT TypeOK
INVARIANT ResultOK
INVARIANT DualInv
INVARIANT Certificate
PROPERTY OrigUntouched
PROPERTY Terminates
