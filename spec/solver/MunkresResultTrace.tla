------------------------- MODULE MunkresResultTrace -------------------------
(* Code -> spec binding for C06 at the property level: every record is one real Munkres().compute(matrix) call.
   Verdict = IsComplete + optimality.  Optimality is decided by brute force (Permutations) for padded size <= 4 and,
   above that, by an LP-duality certificate: potentials u, v supplied by the (untrusted) adapter are accepted only if
   feasible (u[i] + v[j] <= cost), and then cost(result) = sum u + sum v proves the result optimal.  An infeasible
   certificate is a machinery failure ("BADCERT"), never a violation. *)
EXTENDS Integers, Sequences, FiniteSets, TLC, Json, IOUtils
M == INSTANCE Munkres WITH Shapes <- {}, Vals <- {}, Reuse <- FALSE, orig <- <<>>, C <- <<>>, marked <- <<>>, rowCov <- <<>>,
       colCov <- <<>>, z0 <- <<>>, step <- 0, result <- {}, u <- <<>>, v <- <<>>, solves <- 0
Rows(m) == M!Rows(m)
Cols(m) == M!Cols(m)
Max2(a, b) == M!Max2(a, b)
Padded(m) == M!Padded(m)
SumOver(f, S) == M!SumOver(f, S)
CostOf(m, p) == M!CostOf(m, p)
IsComplete(m, p) == M!IsComplete(m, p)
BruteMin(m) == M!BruteMin(m)
Trace == ndJsonDeserialize(IOEnv.TRACE_FILE)
VARIABLE l

Pairs(r) == {<<r.result[k][1], r.result[k][2]>> : k \in 1..Len(r.result)}
NoDup(r) == Cardinality(Pairs(r)) = Len(r.result)
Size(m) == Max2(Rows(m), Cols(m))
Feasible(r) == LET P == Padded(r.m) n == Len(P) IN \A i, j \in 1..n : r.u[i] + r.v[j] <= P[i][j]
DualValue(r) == LET n == Size(r.m) IN SumOver(r.u, 1..n) + SumOver(r.v, 1..n)

Clause(r) ==
  IF r.timed_out THEN "does not terminate"
  ELSE IF r.raised # "" THEN "raises"
  ELSE IF ~r.same_after THEN "caller matrix modified"
  ELSE IF ~NoDup(r) THEN "duplicate pair"
  ELSE IF ~IsComplete(r.m, Pairs(r)) THEN "not a complete matching"
  ELSE IF Size(r.m) <= 4 /\ CostOf(r.m, Pairs(r)) # BruteMin(r.m) THEN "not minimal (brute force)"
  ELSE IF Size(r.m) > 4 /\ ~Feasible(r) THEN "BADCERT"
  ELSE IF Size(r.m) > 4 /\ CostOf(r.m, Pairs(r)) # DualValue(r) THEN "not minimal (dual certificate)"
  ELSE "ok"
Verdict(i) == LET r == Trace[i] c == Clause(r) IN IF c = "ok" THEN TRUE ELSE PrintT(<<"REJECT", r.id, c>>)
TInit == l = 0
TNext == /\ l < Len(Trace)
         /\ l' = l + 1
         /\ Verdict(l + 1)
         /\ (l + 1 = Len(Trace)) => PrintT(<<"DONE", Len(Trace)>>)
=============================================================================
