INIT Init
NEXT Next
CONSTANTS
  Which = "4x4"
INVARIANT LawTranspose
