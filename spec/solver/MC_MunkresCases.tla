--------------------------- MODULE MC_MunkresCases ---------------------------
(* spec -> code for C06: TLC enumerates every matrix of the exhaustive space together with the minimum cost over
   all complete matchings; the adapter runs the real solver on each and compares. *)
EXTENDS Integers, Sequences, FiniteSets, TLC
CONSTANTS Which
VARIABLES c, out
M == INSTANCE Munkres WITH Shapes <- {}, Vals <- {}, Reuse <- FALSE, orig <- <<>>, C <- <<>>, marked <- <<>>, rowCov <- <<>>,
       colCov <- <<>>, z0 <- <<>>, step <- 0, result <- {}, u <- <<>>, v <- <<>>, solves <- 0
Shapes3 == {<<r, k>> : r \in 1..3, k \in 1..3}
Shapes4 == {<<4, 4>>, <<4, 3>>, <<3, 4>>, <<4, 2>>, <<2, 4>>, <<4, 1>>, <<1, 4>>}
Space == IF Which = "3x3" THEN [shapes |-> Shapes3, vals |-> {0, 1, 2}] ELSE [shapes |-> Shapes4, vals |-> {0, 1}]
\* seeds: shape and first row; cases: the remaining rows
Init == \E s \in Space.shapes : \E row \in [1..s[2] -> Space.vals] :
          c = [kind |-> "seed", r |-> s[1], k |-> s[2], first |-> row] /\ out = 0
Next == /\ c.kind = "seed"
        /\ \E rest \in [2..c.r -> [1..c.k -> Space.vals]] :
             LET m == [i \in 1..c.r |-> IF i = 1 THEN c.first ELSE rest[i]] IN
             /\ c' = [kind |-> "case", m |-> m]
             /\ out' = M!BruteMin(m)
\* law: the optimum is invariant under transposition and is bounded by the diagonal-ish greedy cost
LawTranspose == c.kind = "case" =>
   LET m == c.m t == [j \in 1..Len(m[1]) |-> [i \in 1..Len(m) |-> m[i][j]]] IN M!BruteMin(t) = out
=============================================================================
