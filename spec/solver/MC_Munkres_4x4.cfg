SPECIFICATION Spec
CONSTANTS
  Shapes <- Shapes4
  Vals <- V01
  Reuse = FALSE
INVARIANT TypeOK
INVARIANT ResultOK
INVARIANT DualInv
INVARIANT Certificate
PROPERTY OrigUntouched
PROPERTY Terminates
