INIT Init
NEXT Next
CONSTANTS
  Which = "3x3"
INVARIANT LawTranspose
