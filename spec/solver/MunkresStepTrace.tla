-------------------------- MODULE MunkresStepTrace --------------------------
(* Code -> spec binding for the implementation-shaped solver model: the real Munkres object is observed before
   every step function (instance-level wrappers installed by the harness) and at return; each event must be the
   state the model reaches by one Next step.  A mismatch is DRIFT (the model no longer describes the code), not a
   property violation: the rest of that solve is skipped and validation continues with the next solve. *)
EXTENDS Munkres, Json, IOUtils
Trace == ndJsonDeserialize(IOEnv.TRACE_FILE)
VARIABLE l
tvars == <<vars, l>>

Rec == Trace[l + 1]
ResultOf(r) == {<<r.result[k][1], r.result[k][2]>> : k \in 1..Len(r.result)}
Matches(r) == /\ step' = r.k /\ C' = r.C /\ marked' = r.marked /\ rowCov' = r.rowc /\ colCov' = r.colc
              /\ z0' = <<r.z0[1], r.z0[2]>>
              /\ r.k = 8 => result' = ResultOf(r)
StartSolve == /\ Rec.k = 0
              /\ orig' = Rec.orig
              /\ C' = <<>> /\ marked' = <<>> /\ rowCov' = <<>> /\ colCov' = <<>> /\ z0' = <<1, 1>>
              /\ step' = 0 /\ result' = {} /\ u' = <<>> /\ v' = <<>> /\ solves' = 0
              /\ l' = l + 1
MatchStep == /\ Rec.k # 0
             /\ Next
             /\ Matches(Rec)
             /\ l' = l + 1
NextStart(i) == LET S == {j \in i..Len(Trace) : Trace[j].k = 0} IN
                IF S = {} THEN Len(Trace) + 1 ELSE CHOOSE j \in S : \A x \in S : j <= x
DriftSkip == /\ Rec.k # 0
             /\ ~ENABLED MatchStep
             /\ PrintT(<<"DRIFT", Rec.sid, Rec.k, step>>)
             /\ l' = NextStart(l + 1) - 1
             /\ UNCHANGED vars
TInit == /\ l = 0 /\ orig = <<>> /\ C = <<>> /\ marked = <<>> /\ rowCov = <<>> /\ colCov = <<>> /\ z0 = <<1, 1>>
         /\ step = 8 /\ result = {} /\ u = <<>> /\ v = <<>> /\ solves = 0
TNext == /\ l < Len(Trace)
         /\ (StartSolve \/ MatchStep \/ DriftSkip)
         /\ (l' = Len(Trace)) => PrintT(<<"DONE", Len(Trace)>>)
\* the model's invariants are evaluated on the implementation's states too
TraceDualInv == (step # 0 /\ orig # <<>>) => DualInv
TraceResultOK == (step = 8 /\ orig # <<>>) => IsComplete(orig, result)
=============================================================================
