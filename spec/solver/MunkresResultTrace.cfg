INIT TInit
NEXT TNext
