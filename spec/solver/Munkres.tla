------------------------------ MODULE Munkres ------------------------------
(* The assignment solver (mitxgraders/helpers/munkres.py) as a state machine, one action per step function of
   Munkres.compute, with the scan orders of the code (DESIGN appendix D.1), plus the property-level statement C06:
   the result is a complete minimum-cost matching of the caller's matrix.

   Matrices are sequences of rows (1-based).  The dual potentials u, v are history variables: they are not in
   the code, they make the invariant  C = Padded(orig) - u - v  checkable, which is why the algorithm is optimal. *)
EXTENDS Integers, Sequences, FiniteSets, TLC

CONSTANTS Shapes,      \* set of <<rows, cols>> pairs explored
          Vals,        \* set of cost values
          Reuse        \* BOOLEAN: after Done, allow one further compute() on the same solver object

VARIABLES orig,        \* the caller's matrix (never changes during a solve)
          C,           \* working copy, padded to N x N
          marked,      \* 0 none, 1 star, 2 prime
          rowCov, colCov,
          z0,          \* <<row, col>> of the uncovered primed zero found by step 4
          step,        \* "pad", 1..6, 8
          result,      \* set of <<i, j>> pairs read off at the end
          u, v,        \* history: dual potentials
          solves       \* number of compute() calls finished on this solver object
vars == <<orig, C, marked, rowCov, colCov, z0, step, result, u, v, solves>>

Rows(m) == Len(m)
Cols(m) == Len(m[1])
Max2(a, b) == IF a > b THEN a ELSE b
Min2(a, b) == IF a < b THEN a ELSE b
N == Max2(Rows(orig), Cols(orig))
Idx == 1..N
Padded(m) == LET n == Max2(Rows(m), Cols(m)) IN
             [i \in 1..n |-> [j \in 1..n |-> IF i <= Rows(m) /\ j <= Cols(m) THEN m[i][j] ELSE 0]]
Const(n, x) == [i \in 1..n |-> [j \in 1..n |-> x]]
SetMin(S) == CHOOSE x \in S : \A y \in S : x <= y
SetMax(S) == CHOOSE x \in S : \A y \in S : x >= y

Matrices(r, c) == [1..r -> [1..c -> Vals]]

(* ------------------------------------------------------------------ property level *)
RECURSIVE SumOver(_, _)
SumOver(f, S) == IF S = {} THEN 0 ELSE LET x == CHOOSE y \in S : TRUE IN f[x] + SumOver(f, S \ {x})
CostOf(m, pairs) == SumOver([p \in pairs |-> m[p[1]][p[2]]], pairs)
IsMatching(m, pairs) ==
  /\ \A p \in pairs : p[1] \in 1..Rows(m) /\ p[2] \in 1..Cols(m)
  /\ \A p, q \in pairs : p # q => p[1] # q[1] /\ p[2] # q[2]
IsComplete(m, pairs) == IsMatching(m, pairs) /\ Cardinality(pairs) = Min2(Rows(m), Cols(m))
\* minimum over all complete matchings = minimum over permutations of the zero-padded square matrix
BruteMin(m) == LET P == Padded(m) n == Len(P) IN
               SetMin({SumOver([i \in 1..n |-> P[i][pi[i]]], 1..n) : pi \in Permutations(1..n)})
IsOptimalCompleteMatching(pairs, m) == IsComplete(m, pairs) /\ CostOf(m, pairs) = BruteMin(m)

(* ------------------------------------------------------------------ implementation shaped *)
Init == /\ \E s \in Shapes : orig \in Matrices(s[1], s[2])
        /\ C = <<>> /\ marked = <<>> /\ rowCov = <<>> /\ colCov = <<>> /\ z0 = <<1, 1>>
        /\ step = 0 /\ result = {} /\ u = <<>> /\ v = <<>> /\ solves = 0

\* compute(): pad_matrix, fresh covers / marks / Z0
Pad == /\ step = 0
       /\ C' = Padded(orig)
       /\ marked' = Const(N, 0)
       /\ rowCov' = [i \in Idx |-> FALSE] /\ colCov' = [i \in Idx |-> FALSE]
       /\ z0' = <<1, 1>> /\ result' = {}
       /\ u' = [i \in Idx |-> 0] /\ v' = [i \in Idx |-> 0]
       /\ step' = 1
       /\ UNCHANGED <<orig, solves>>

\* step 1: subtract the row minimum from every row
Step1 == /\ step = 1
         /\ LET mn == [i \in Idx |-> SetMin({C[i][j] : j \in Idx})] IN
            /\ C' = [i \in Idx |-> [j \in Idx |-> C[i][j] - mn[i]]]
            /\ u' = mn
         /\ step' = 2
         /\ UNCHANGED <<orig, marked, rowCov, colCov, z0, result, v, solves>>

\* step 2: rows in order; in each row the first zero whose row and column are still free is starred
RECURSIVE S2(_, _, _, _)
S2(i, m, rc, cc) ==
  IF i > N THEN m
  ELSE LET cand == {j \in Idx : C[i][j] = 0 /\ ~cc[j] /\ ~rc[i]} IN
       IF cand = {} THEN S2(i + 1, m, rc, cc)
       ELSE LET j == SetMin(cand) IN
            S2(i + 1, [m EXCEPT ![i][j] = 1], [rc EXCEPT ![i] = TRUE], [cc EXCEPT ![j] = TRUE])
Step2 == /\ step = 2
         /\ marked' = S2(1, marked, rowCov, colCov)
         /\ rowCov' = [i \in Idx |-> FALSE] /\ colCov' = [i \in Idx |-> FALSE]
         /\ step' = 3
         /\ UNCHANGED <<orig, C, z0, result, u, v, solves>>

\* step 3: cover every column holding a star; finished iff N columns were newly covered
Step3 == /\ step = 3
         /\ LET newly == {j \in Idx : ~colCov[j] /\ \E i \in Idx : marked[i][j] = 1} IN
            /\ colCov' = [j \in Idx |-> colCov[j] \/ j \in newly]
            /\ step' = IF Cardinality(newly) >= N THEN 7 ELSE 4
         /\ UNCHANGED <<orig, C, marked, rowCov, z0, result, u, v, solves>>

\* __find_a_zero(i0, j0): rows i0, i0+1, ... cyclically; the FIRST row holding an uncovered zero is chosen; inside it
\* columns are scanned j0, j0+1, ... cyclically and the LAST uncovered zero seen wins (the inner loop never breaks)
Cyc(s, k) == ((s - 1 + k - 1) % N) + 1          \* k-th index of the cyclic scan starting at s
Unc(i, j, rc, cc) == C[i][j] = 0 /\ ~rc[i] /\ ~cc[j]
FindZero(i0, j0, rc, cc) ==
  LET rows == {k \in Idx : \E j \in Idx : Unc(Cyc(i0, k), j, rc, cc)} IN
  IF rows = {} THEN <<0, 0>>
  ELSE LET i == Cyc(i0, SetMin(rows))
           ks == {k \in Idx : Unc(i, Cyc(j0, k), rc, cc)}
       IN <<i, Cyc(j0, SetMax(ks))>>
StarInRow(m, i) == LET s == {j \in Idx : m[i][j] = 1} IN IF s = {} THEN 0 ELSE SetMin(s)
StarInCol(m, j) == LET s == {i \in Idx : m[i][j] = 1} IN IF s = {} THEN 0 ELSE SetMin(s)
PrimeInRow(m, i) == LET s == {j \in Idx : m[i][j] = 2} IN IF s = {} THEN 0 ELSE SetMin(s)

\* step 4: prime uncovered zeros; a prime with a star in its row covers the row and uncovers the star's column
RECURSIVE S4(_, _, _, _, _)
S4(row, col, m, rc, cc) ==
  LET z == FindZero(row, col, rc, cc) IN
  IF z[1] = 0 THEN [m |-> m, rc |-> rc, cc |-> cc, nxt |-> 6, z |-> z0]
  ELSE LET m2 == [m EXCEPT ![z[1]][z[2]] = 2]
           sc == StarInRow(m2, z[1])
       IN IF sc > 0 THEN S4(z[1], sc, m2, [rc EXCEPT ![z[1]] = TRUE], [cc EXCEPT ![sc] = FALSE])
          ELSE [m |-> m2, rc |-> rc, cc |-> cc, nxt |-> 5, z |-> z]
Step4 == /\ step = 4
         /\ LET r == S4(1, 1, marked, rowCov, colCov) IN
            /\ marked' = r.m /\ rowCov' = r.rc /\ colCov' = r.cc /\ step' = r.nxt /\ z0' = r.z
         /\ UNCHANGED <<orig, C, result, u, v, solves>>

\* step 5: alternating path of primes and stars from Z0; flip it, erase primes, clear covers
RECURSIVE Path(_, _)
Path(p, m) == LET last == p[Len(p)]
                  r == StarInCol(m, last[2]) IN
              IF r = 0 THEN p
              ELSE LET c2 == PrimeInRow(m, r) IN Path(p \o << <<r, last[2]>>, <<r, c2>> >>, m)
Step5 == /\ step = 5
         /\ LET p == Path(<<z0>>, marked)
                cells == {p[k] : k \in 1..Len(p)}
                flipped == [i \in Idx |-> [j \in Idx |->
                              IF <<i, j>> \in cells THEN (IF marked[i][j] = 1 THEN 0 ELSE 1) ELSE marked[i][j]]]
            IN marked' = [i \in Idx |-> [j \in Idx |-> IF flipped[i][j] = 2 THEN 0 ELSE flipped[i][j]]]
         /\ rowCov' = [i \in Idx |-> FALSE] /\ colCov' = [i \in Idx |-> FALSE]
         /\ step' = 3
         /\ UNCHANGED <<orig, C, z0, result, u, v, solves>>

\* step 6: add the smallest uncovered value to covered rows, subtract it from uncovered columns
Step6 == /\ step = 6
         /\ LET unc == {C[i][j] : i \in {x \in Idx : ~rowCov[x]}, j \in {y \in Idx : ~colCov[y]}}
                mv == SetMin(unc)
            IN /\ unc # {}
               /\ C' = [i \in Idx |-> [j \in Idx |->
                          C[i][j] + (IF rowCov[i] THEN mv ELSE 0) - (IF ~colCov[j] THEN mv ELSE 0)]]
               /\ u' = [i \in Idx |-> IF rowCov[i] THEN u[i] - mv ELSE u[i]]
               /\ v' = [j \in Idx |-> IF ~colCov[j] THEN v[j] + mv ELSE v[j]]
         /\ step' = 4
         /\ UNCHANGED <<orig, marked, rowCov, colCov, z0, result, solves>>

\* compute() epilogue: stars inside the original rows and columns
Collect == /\ step = 7
           /\ result' = {<<i, j>> \in (1..Rows(orig)) \X (1..Cols(orig)) : marked[i][j] = 1}
           /\ step' = 8
           /\ solves' = solves + 1
           /\ UNCHANGED <<orig, C, marked, rowCov, colCov, z0, u, v>>

\* the same solver object is handed another matrix: everything except the object identity is left as it was
Again == /\ Reuse /\ step = 8 /\ solves = 1
         /\ \E s \in Shapes : orig' \in Matrices(s[1], s[2])
         /\ step' = 0
         /\ UNCHANGED <<C, marked, rowCov, colCov, z0, result, u, v, solves>>

Next == Pad \/ Step1 \/ Step2 \/ Step3 \/ Step4 \/ Step5 \/ Step6 \/ Collect \/ Again
Spec == Init /\ [][Next]_vars /\ WF_vars(Next)

(* ------------------------------------------------------------------ what TLC checks *)
Done == step = 8
ResultOK == Done => IsOptimalCompleteMatching(result, orig)
Solving == step \in {2, 3, 4, 5, 6, 7, 8}
Stars == {<<i, j>> \in Idx \X Idx : marked[i][j] = 1}
DualInv == Solving =>
  /\ \A i, j \in Idx : C[i][j] >= 0                                        \* reduced costs stay non-negative
  /\ \A i, j \in Idx : C[i][j] = Padded(orig)[i][j] - u[i] - v[j]           \* C is the reduced-cost matrix
  /\ \A p \in Stars : C[p[1]][p[2]] = 0                                     \* stars sit on zeros
  /\ \A p, q \in Stars : p # q => p[1] # q[1] /\ p[2] # q[2]                \* stars are independent
  /\ \A i, j \in Idx : marked[i][j] = 2 => C[i][j] = 0                      \* primes sit on zeros
\* at the end the stars are a perfect matching of the padded matrix whose cost equals the dual objective
Certificate == Done => /\ Cardinality(Stars) = N
                       /\ SumOver([p \in Stars |-> Padded(orig)[p[1]][p[2]]], Stars)
                            = SumOver(u, Idx) + SumOver(v, Idx)
OrigUntouched == [][step # 8 => orig' = orig]_vars
Terminates == <>Done
\* a reused solver behaves like a fresh one: the final result depends on orig only (checked as ResultOK after Again)
TypeOK == /\ step \in 0..8 /\ solves \in 0..2
=============================================================================
