SPECIFICATION Spec
CONSTANTS
  Shapes <- Shapes2
  Vals <- V03
  Reuse = TRUE
INVARIANT TypeOK
INVARIANT ResultOK
INVARIANT DualInv
INVARIANT Certificate
PROPERTY OrigUntouched
PROPERTY Terminates
