INIT TInit
NEXT TNext
CONSTANTS
  Shapes = {}
  Vals = {}
  Reuse = FALSE
INVARIANT TraceDualInv
INVARIANT TraceResultOK
