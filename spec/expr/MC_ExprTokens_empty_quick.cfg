INIT Init
NEXT Next
CONSTANTS
  MaxLen = 3
  VarVal <- MCNoVars
  FuncArity <- MCNoFuncs
  SufVal <- MCNoSufs
INVARIANT LawCanonRoundTrip
INVARIANT LawCanonSameOutcome
INVARIANT LawParenTransparent
INVARIANT LawLeadingPlus
INVARIANT LawUsageFromTokens
INVARIANT LawFuncIffParen
