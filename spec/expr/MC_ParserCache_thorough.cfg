SPECIFICATION Spec
CONSTANTS
  Strings <- AllStrings
  Text <- MCText
  TokOf <- MCTokOf
  MaxCalls = 4
  ResetInFinally = TRUE
  VarVal <- MCVarVal
  FuncArity <- MCFuncArity
  SufVal <- MCSufVal
INVARIANT HistoryIndependent
INVARIANT ScratchEmpty
INVARIANT CacheSound
INVARIANT CacheOnlyAccepted

