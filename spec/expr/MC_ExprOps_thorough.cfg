INIT Init
NEXT Next
CONSTANTS
  MaxOps = 4
  VarVal <- MCVarVal
  FuncArity <- MCFuncArity
  SufVal <- MCSufVal
INVARIANT LawAccepted
INVARIANT LawPrecedence
INVARIANT LawCanonSame
