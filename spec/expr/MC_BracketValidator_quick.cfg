SPECIFICATION Spec
CONSTANTS
  MaxLen = 5
INVARIANT OkIffBalanced
INVARIANT MarksAreBrackets
INVARIANT MarksNonEmptyOnError
INVARIANT StackIsPrefixOpeners
PROPERTY Terminates
