---------------------------- MODULE ExprGrammar ----------------------------
(* Token-level grammar of the formula language (C03, C09, C10): a recursive-descent transcription of the documented
   precedence  power > negation > parallel > product > sum,  function calls, arrays and number suffixes, together
   with the exact usage sets (variables, functions, suffixes) of a parse tree and a canonical, fully parenthesised
   rendering used to check grouping.

   Tokens are records [k, s, q, a]:  k in {"num", "name", "pct", "op"};  s = spelling;  q = value of a number as a
   rational <<n, d>> (<<0, 0>> = outside the modelled range);  a = TRUE iff the spelling consists of letters only
   (such a name directly after a number is that number's suffix, even across whitespace).

   Facts encoded here that are easy to get wrong (each was found by replaying strings into the real evaluator):
   - a name followed by "(" is always a function call, never a variable; if the call does not parse, the whole
     string is rejected (nothing may follow a variable except an operator);
   - "^" takes an optional "-" that negates the whole remaining tower: a^-b^c = a^(-(b^c));
   - at most one sign in a negation: --x, -+x, 2^--3, 2*+3 are rejected, a leading "+" of a sum is accepted;
   - when the repeated tail of a rule fails after its operator, the operator stays unconsumed and the string is
     rejected as a whole (no partial parses). *)
EXTENDS Integers, Sequences, FiniteSets, TLC

Tok(k, s, q, a) == [k |-> k, s |-> s, q |-> q, a |-> a]
Num(n, d) == Tok("num", "#", <<n, d>>, FALSE)
Name(s, alpha) == Tok("name", s, <<0, 1>>, alpha)
Op(s) == Tok("op", s, <<0, 1>>, FALSE)
Pct == Tok("pct", "%", <<0, 1>>, TRUE)
EndTok == Tok("end", "$", <<0, 1>>, FALSE)

IsNum(t) == t.k = "num"
IsName(t) == t.k = "name"
IsSufTok(t) == t.k = "pct" \/ (t.k = "name" /\ t.a)
IsStr(t, v) == t.k = "op" /\ t.s = v
OpIn(t, S) == t.k = "op" /\ t.s \in S
At(s, i) == IF i >= 1 /\ i <= Len(s) THEN s[i] ELSE EndTok

\* ---------------------------------------------------------------- bracket balance (checked before parsing)
Openers == {"(", "["}
Partner == ("(" :> ")" @@ "[" :> "]")
RECURSIVE BalancedFrom(_, _, _)
BalancedFrom(s, i, st) ==
  IF i > Len(s) THEN st = <<>>
  ELSE IF s[i].k # "op" \/ s[i].s \notin {"(", ")", "[", "]"} THEN BalancedFrom(s, i + 1, st)
  ELSE IF s[i].s \in Openers THEN BalancedFrom(s, i + 1, Append(st, s[i].s))
  ELSE IF st = <<>> THEN FALSE
  ELSE IF Partner[st[Len(st)]] = s[i].s THEN BalancedFrom(s, i + 1, SubSeq(st, 1, Len(st) - 1))
  ELSE FALSE
Balanced(s) == BalancedFrom(s, 1, <<>>)

\* ---------------------------------------------------------------- parser: returns [ok, t (tree), i (next index)]
Fail == [ok |-> FALSE]
Ok(t, i) == [ok |-> TRUE, t |-> t, i |-> i]

RECURSIVE PSum(_, _), PSumTail(_, _, _), PProd(_, _), PProdTail(_, _, _), PPar(_, _), PParTail(_, _, _),
          PNeg(_, _), PPow(_, _), PAtom(_, _), PList(_, _, _)
\* delimitedList(expr): expr ("," expr)* ; a "," not followed by an expr is left unconsumed
PList(s, acc, i) ==
  IF IsStr(At(s, i), ",") THEN
     LET r == PSum(s, i + 1) IN IF r.ok THEN PList(s, Append(acc, r.t), r.i) ELSE Ok(acc, i)
  ELSE Ok(acc, i)
PAtom(s, i) ==
  LET t == At(s, i) IN
  IF IsNum(t) THEN
     IF IsSufTok(At(s, i + 1)) THEN Ok([t |-> "num", v |-> t.q, suf |-> At(s, i + 1).s], i + 2)
     ELSE Ok([t |-> "num", v |-> t.q, suf |-> ""], i + 1)
  ELSE IF IsName(t) THEN
     LET asVar == Ok([t |-> "var", n |-> t.s], i + 1) IN
     IF IsStr(At(s, i + 1), "(") THEN
        LET a == PSum(s, i + 2) IN
        IF ~a.ok THEN asVar
        ELSE LET l == PList(s, <<a.t>>, a.i) IN
             IF IsStr(At(s, l.i), ")") THEN Ok([t |-> "call", n |-> t.s, args |-> l.t], l.i + 1) ELSE asVar
     ELSE asVar
  ELSE IF IsStr(t, "(") THEN
     LET r == PSum(s, i + 1) IN
     IF r.ok /\ IsStr(At(s, r.i), ")") THEN Ok(r.t, r.i + 1) ELSE Fail
  ELSE IF IsStr(t, "[") THEN
     LET a == PSum(s, i + 1) IN
     IF ~a.ok THEN Fail
     ELSE LET l == PList(s, <<a.t>>, a.i) IN
          IF IsStr(At(s, l.i), "]") THEN Ok([t |-> "arr", elems |-> l.t], l.i + 1) ELSE Fail
  ELSE Fail
PPow(s, i) ==
  LET a == PAtom(s, i) IN
  IF ~a.ok THEN Fail
  ELSE IF IsStr(At(s, a.i), "^") THEN
     LET neg == IsStr(At(s, a.i + 1), "-")
         j == IF neg THEN a.i + 2 ELSE a.i + 1
         r == PPow(s, j) IN
     IF ~r.ok THEN a
     ELSE Ok([t |-> "pow", a |-> a.t, neg |-> neg, b |-> r.t], r.i)
  ELSE a
PNeg(s, i) == IF IsStr(At(s, i), "-")
              THEN LET r == PPow(s, i + 1) IN IF r.ok THEN Ok([t |-> "neg", a |-> r.t], r.i) ELSE Fail
              ELSE PPow(s, i)
\* parallel is n-ary: a || b || c = 1 / (1/a + 1/b + 1/c) is NOT the same as (a || b) || c when a partial sum of
\* reciprocals vanishes (.25 || -.25 || 4 = 4), so the operands are kept as one list
PParTail(s, acc, i) ==
  IF IsStr(At(s, i), "|") /\ IsStr(At(s, i + 1), "|") THEN
     LET r == PNeg(s, i + 2) IN IF r.ok THEN PParTail(s, Append(acc, r.t), r.i) ELSE Ok(acc, i)
  ELSE Ok(acc, i)
PPar(s, i) == LET a == PNeg(s, i) IN
              IF ~a.ok THEN Fail
              ELSE LET r == PParTail(s, <<a.t>>, a.i) IN
                   IF Len(r.t) = 1 THEN Ok(r.t[1], r.i) ELSE Ok([t |-> "par", xs |-> r.t], r.i)
PProdTail(s, acc, i) ==
  IF OpIn(At(s, i), {"*", "/"}) THEN
     LET r == PPar(s, i + 1) IN
     IF r.ok THEN PProdTail(s, [t |-> IF At(s, i).s = "*" THEN "mul" ELSE "div", a |-> acc, b |-> r.t], r.i)
     ELSE Ok(acc, i)
  ELSE Ok(acc, i)
PProd(s, i) == LET a == PPar(s, i) IN IF a.ok THEN PProdTail(s, a.t, a.i) ELSE Fail
PSumTail(s, acc, i) ==
  IF OpIn(At(s, i), {"+", "-"}) THEN
     LET r == PProd(s, i + 1) IN
     IF r.ok THEN PSumTail(s, [t |-> IF At(s, i).s = "+" THEN "add" ELSE "sub", a |-> acc, b |-> r.t], r.i)
     ELSE Ok(acc, i)
  ELSE Ok(acc, i)
PSum(s, i) == LET j == IF IsStr(At(s, i), "+") THEN i + 1 ELSE i
                  a == PProd(s, j) IN IF a.ok THEN PSumTail(s, a.t, a.i) ELSE Fail

\* a "%" that is not directly after a number cannot be lexed at all
StrayPct(s) == \E i \in 1..Len(s) : s[i].k = "pct" /\ ~(i > 1 /\ IsNum(s[i - 1]))
\* whole-string parse: [c |-> "unbalanced"] | [c |-> "parse"] | [c |-> "tree", t |-> tree]
Parse(s) ==
  IF ~Balanced(s) THEN [c |-> "unbalanced"]
  ELSE IF s = <<>> \/ StrayPct(s) THEN [c |-> "parse"]
  ELSE LET r == PSum(s, 1) IN
       IF r.ok /\ r.i = Len(s) + 1 THEN [c |-> "tree", t |-> r.t] ELSE [c |-> "parse"]

\* ---------------------------------------------------------------- usage sets of a tree
RECURSIVE UVars(_), UFuncs(_), USufs(_), HasArr(_), UnionSeq(_, _, _)
UnionSeq(F(_), sq, i) == IF i > Len(sq) THEN {} ELSE F(sq[i]) \cup UnionSeq(F, sq, i + 1)
UVars(t) == IF t.t = "var" THEN {t.n} ELSE IF t.t = "num" THEN {} ELSE IF t.t = "neg" THEN UVars(t.a)
            ELSE IF t.t = "call" THEN UnionSeq(UVars, t.args, 1) ELSE IF t.t = "arr" THEN UnionSeq(UVars, t.elems, 1)
            ELSE IF t.t = "par" THEN UnionSeq(UVars, t.xs, 1)
            ELSE UVars(t.a) \cup UVars(t.b)
UFuncs(t) == IF t.t \in {"var", "num"} THEN {} ELSE IF t.t = "neg" THEN UFuncs(t.a)
             ELSE IF t.t = "call" THEN {t.n} \cup UnionSeq(UFuncs, t.args, 1)
             ELSE IF t.t = "arr" THEN UnionSeq(UFuncs, t.elems, 1)
             ELSE IF t.t = "par" THEN UnionSeq(UFuncs, t.xs, 1)
             ELSE UFuncs(t.a) \cup UFuncs(t.b)
USufs(t) == IF t.t = "var" THEN {} ELSE IF t.t = "num" THEN (IF t.suf = "" THEN {} ELSE {t.suf})
            ELSE IF t.t = "neg" THEN USufs(t.a)
            ELSE IF t.t = "call" THEN UnionSeq(USufs, t.args, 1) ELSE IF t.t = "arr" THEN UnionSeq(USufs, t.elems, 1)
            ELSE IF t.t = "par" THEN UnionSeq(USufs, t.xs, 1)
            ELSE USufs(t.a) \cup USufs(t.b)
HasArr(t) == IF t.t \in {"var", "num"} THEN FALSE ELSE IF t.t = "neg" THEN HasArr(t.a)
             ELSE IF t.t = "call" THEN \E i \in 1..Len(t.args) : HasArr(t.args[i]) ELSE IF t.t = "arr" THEN TRUE
             ELSE IF t.t = "par" THEN \E i \in 1..Len(t.xs) : HasArr(t.xs[i])
             ELSE HasArr(t.a) \/ HasArr(t.b)
Usage(t) == [vars |-> UVars(t), funcs |-> UFuncs(t), sufs |-> USufs(t)]

\* ---------------------------------------------------------------- canonical (fully parenthesised) rendering
RECURSIVE Canon(_), CanonList(_, _), CanonPar(_, _)
Wrap(ts) == <<Op("(")>> \o ts \o <<Op(")")>>
CanonList(sq, i) == IF i > Len(sq) THEN <<>>
                    ELSE (IF i > 1 THEN <<Op(",")>> ELSE <<>>) \o Canon(sq[i]) \o CanonList(sq, i + 1)
BinOp == ("mul" :> <<Op("*")>> @@ "div" :> <<Op("/")>> @@ "add" :> <<Op("+")>> @@ "sub" :> <<Op("-")>>)
CanonPar(sq, i) == IF i > Len(sq) THEN <<>>
                   ELSE (IF i > 1 THEN <<Op("|"), Op("|")>> ELSE <<>>) \o Wrap(Canon(sq[i])) \o CanonPar(sq, i + 1)
Canon(t) ==
  IF t.t = "num" THEN <<Tok("num", "#", t.v, FALSE)>> \o
                      (IF t.suf = "" THEN <<>> ELSE IF t.suf = "%" THEN <<Pct>> ELSE <<Name(t.suf, TRUE)>>)
  ELSE IF t.t = "var" THEN <<Name(t.n, FALSE)>>
  ELSE IF t.t = "call" THEN <<Name(t.n, FALSE), Op("(")>> \o CanonList(t.args, 1) \o <<Op(")")>>
  ELSE IF t.t = "arr" THEN <<Op("[")>> \o CanonList(t.elems, 1) \o <<Op("]")>>
  ELSE IF t.t = "par" THEN CanonPar(t.xs, 1)
  ELSE IF t.t = "neg" THEN <<Op("-")>> \o Wrap(Canon(t.a))
  ELSE IF t.t = "pow" THEN Wrap(Canon(t.a)) \o <<Op("^")>> \o
                           (IF t.neg THEN <<Op("-")>> ELSE <<>>) \o Wrap(Canon(t.b))
  ELSE Wrap(Canon(t.a)) \o BinOp[t.t] \o Wrap(Canon(t.b))
=============================================================================
