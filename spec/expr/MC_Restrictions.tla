--------------------------- MODULE MC_Restrictions ---------------------------
(* Model instance for C09.  TLC enumerates (configuration, cheating formula) cases:
     configuration = a point of the option space  fmode x required x forbidden x instructor_vars x user functions
                     x constants x numbered variables x metric suffixes x answer form, taken around a "rich" baseline
                     (user function f, user constant c, numbered variable a, a half-credit alternative answer) with
                     at most MaxDims options changed (star / pairwise design), for one grader kind (Part);
     formula       = Combine(base, Zero(Atom(name, role), form), position): a correct / partially correct / wrong
                     base combined with a neutral term built from one NAME used in one ROLE (function of 0, function
                     of a variable, variable, number suffix), made neutral in one FORM (N*0, 0*N, N-N, N^0-1, bare)
                     and attached at one POSITION (sum, front, exponent, function argument, factor, denominator,
                     other array entry, or -- for summations -- the lower limit); plus the bases alone (controls).
   Instances:  *_quick.cfg     MaxDims = 1, the small name / form / position sets
               *_thorough.cfg  MaxDims = 1, the rich sets (Rich = TRUE)
               *_pairs.cfg     MaxDims = 2 (every pair of option changes), the small sets
   The state carries the rendered submission (token ids joined by blanks), the author's answers and the outcome
   classes Restrictions!Outcome allows; the dump is replayed into the real graders. *)
EXTENDS Restrictions
CONSTANTS Part,        \* "formula" | "numerical" | "matrix" | "sum" | "list"
          MaxDims,     \* how many options may differ from the baseline configuration
          Rich         \* TRUE: the thorough name / form / position sets

\* ---------------------------------------------------------------- token ids -> lexemes
One(a) == <<a>>
LxTab == [
  n0 |-> Lexeme(Num(0, 1), One("0")), n1 |-> Lexeme(Num(1, 1), One("1")), n2 |-> Lexeme(Num(2, 1), One("2")),
  n3 |-> Lexeme(Num(3, 1), One("3")),
  lp |-> Lexeme(Op("("), One("(")), rp |-> Lexeme(Op(")"), One(")")), lb |-> Lexeme(Op("["), One("[")),
  rb |-> Lexeme(Op("]"), One("]")), cm |-> Lexeme(Op(","), One(",")), pl |-> Lexeme(Op("+"), One("+")),
  mi |-> Lexeme(Op("-"), One("-")), ti |-> Lexeme(Op("*"), One("*")), dv |-> Lexeme(Op("/"), One("/")),
  pw |-> Lexeme(Op("^"), One("^")), pct |-> Lexeme(Pct, One("%")),
  x |-> Lexeme(Name("x", TRUE), One("x")), y |-> Lexeme(Name("y", TRUE), One("y")), z |-> Lexeme(Name("z", TRUE), One("z")),
  n |-> Lexeme(Name("n", TRUE), One("n")), w |-> Lexeme(Name("w", TRUE), One("w")), X |-> Lexeme(Name("X", TRUE), One("X")),
  xp |-> Lexeme(Name("x'", FALSE), <<"x", "'">>),
  a |-> Lexeme(Name("a", TRUE), One("a")),
  a1 |-> Lexeme(Name("a_{1}", FALSE), <<"a", "_", "{", "1", "}">>),
  a01 |-> Lexeme(Name("a_{01}", FALSE), <<"a", "_", "{", "0", "1", "}">>),
  am2 |-> Lexeme(Name("a_{-2}", FALSE), <<"a", "_", "{", "-", "2", "}">>),
  am0 |-> Lexeme(Name("a_{-0}", FALSE), <<"a", "_", "{", "-", "0", "}">>),
  a0 |-> Lexeme(Name("a_{0}", FALSE), <<"a", "_", "{", "0", "}">>),
  \* look-alikes of a numbered instance: the instance followed by primes / an upper index, other decorations of the head
  a1p |-> Lexeme(Name("a_{1}'", FALSE), <<"a", "_", "{", "1", "}", "'">>),
  a1pp |-> Lexeme(Name("a_{1}''", FALSE), <<"a", "_", "{", "1", "}", "'", "'">>),
  a1up |-> Lexeme(Name("a_{1}^{2}", FALSE), <<"a", "_", "{", "1", "}", "^", "{", "2", "}">>),
  ap |-> Lexeme(Name("a'", FALSE), <<"a", "'">>),
  ax |-> Lexeme(Name("a_{x}", FALSE), <<"a", "_", "{", "x", "}">>),
  xpp |-> Lexeme(Name("x''", FALSE), <<"x", "'", "'">>),
  fp |-> Lexeme(Name("f'", FALSE), <<"f", "'">>),
  A1 |-> Lexeme(Name("A_{1}", FALSE), <<"A", "_", "{", "1", "}">>),
  as1 |-> Lexeme(Name("a_1", FALSE), <<"a", "_", "1">>),
  ab1 |-> Lexeme(Name("ab_{1}", FALSE), <<"a", "b", "_", "{", "1", "}">>),
  sib1 |-> Lexeme(Name("sibling_1", FALSE), <<"s", "i", "b", "l", "i", "n", "g", "_", "1">>),
  sib2 |-> Lexeme(Name("sibling_2", FALSE), <<"s", "i", "b", "l", "i", "n", "g", "_", "2">>),
  pi |-> Lexeme(Name("pi", TRUE), <<"p", "i">>), c |-> Lexeme(Name("c", TRUE), One("c")),
  sin |-> Lexeme(Name("sin", TRUE), <<"s", "i", "n">>), cos |-> Lexeme(Name("cos", TRUE), <<"c", "o", "s">>),
  sinh |-> Lexeme(Name("sinh", TRUE), <<"s", "i", "n", "h">>), abs |-> Lexeme(Name("abs", TRUE), <<"a", "b", "s">>),
  f |-> Lexeme(Name("f", TRUE), One("f")), Sin |-> Lexeme(Name("Sin", TRUE), <<"S", "i", "n">>),
  si |-> Lexeme(Name("si", TRUE), <<"s", "i">>),
  u |-> Lexeme(Name("u", TRUE), One("u")), v |-> Lexeme(Name("v", TRUE), One("v")),
  I |-> Lexeme(Name("I", TRUE), One("I")), vc |-> Lexeme(Name("vc", TRUE), <<"v", "c">>),
  infty |-> Lexeme(Name("infty", TRUE), <<"i", "n", "f", "t", "y">>),
  k |-> Lexeme(Name("k", TRUE), One("k")), m |-> Lexeme(Name("m", TRUE), One("m")), q |-> Lexeme(Name("q", TRUE), One("q")) ]
Ids == DOMAIN LxTab
RECURSIVE Join(_, _)
Join(ids, i) == IF i > Len(ids) THEN "" ELSE (IF i > 1 THEN " " ELSE "") \o ids[i] \o Join(ids, i + 1)
RECURSIVE Interleave(_, _)
Interleave(lxs, i) == IF i > Len(lxs) THEN <<>> ELSE (IF i > 1 THEN <<Blank>> ELSE <<>>) \o <<lxs[i]>> \o Interleave(lxs, i + 1)
LxSeq(ids) == [i \in 1..Len(ids) |-> LxTab[ids[i]]]
Box(ids, sp) == IF sp = "spaced" THEN Interleave(LxSeq(ids), 1) ELSE LxSeq(ids)

\* the numbered-variable shape, checked once on the name universe (ASSUME: evaluated by TLC at start-up)
ASSUME LET h == <<"a">> IN
  /\ IsInstanceOf(LxTab.a1.ch, h) /\ IsInstanceOf(LxTab.am2.ch, h) /\ IsInstanceOf(LxTab.a0.ch, h)
  /\ ~IsInstanceOf(LxTab.a01.ch, h) /\ ~IsInstanceOf(LxTab.am0.ch, h) /\ ~IsInstanceOf(LxTab.A1.ch, h)
  /\ ~IsInstanceOf(LxTab.as1.ch, h) /\ ~IsInstanceOf(LxTab.ab1.ch, h) /\ ~IsInstanceOf(LxTab.a.ch, h)
  /\ IsInstanceOf(LxTab.ab1.ch, <<"a", "b">>)
  /\ ~IsInstanceOf(LxTab.a1p.ch, h) /\ ~IsInstanceOf(LxTab.a1pp.ch, h) /\ ~IsInstanceOf(LxTab.a1up.ch, h)
  /\ ~IsInstanceOf(LxTab.ap.ch, h) /\ ~IsInstanceOf(LxTab.ax.ch, h)

\* ---------------------------------------------------------------- option space
Baseline == [fmode |-> "off", req |-> "none", forb |-> "none", instr |-> "none", userf |-> TRUE, consts |-> "userc",
             numb |-> TRUE, metric |-> FALSE, ans |-> "partial", route |-> "direct"]
DimDom == [fmode : {"off", "bsin", "bsincos", "wcos", "wsinh", "wnone"}, req : {"none", "cos", "f"},
           forb : {"none", "times0", "plus2", "sin"}, instr : {"none", "z", "c", "pi", "a1", "I", "vc", "infty"}, userf : BOOLEAN,
           consts : {"userc", "std", "delpi"}, numb : BOOLEAN, metric : BOOLEAN, ans : {"plain", "exempt", "partial"},
           route : IF Part = "list" THEN {"direct", "sampler", "chain", "mdirect", "msampler", "mchain"} ELSE {"direct"}]
(* route (ordered lists only): how the author's configuration of the second box reaches the first input --
   "direct"   the answer mentions sibling_1;
   "sampler"  the answer mentions the instructor variable u only, u has the dependent sampling set  sibling_1 * 1;
   "chain"    u depends on v (v - 1), v depends on sibling_1 (sibling_1 + 1), both instructor variables;
   "m..."     the same with a MatrixGrader as the subgrader of the second box. *)
(* instr: the instructor-only name ranges over every kind of name a grader class can put into the student's scope --
   "z" a configured variable, "c" a user constant, "pi" a default constant, "a1" the numbered-variable instance a_{1},
   and the class-specific names: "I" MatrixGrader's identity (identity_dim, added after the common construction),
   "vc" a user constant that is an array, "infty" the infinity of summations (class-level) and of allow_inf. *)
InstrName(d) == IF d.instr = "a1" THEN "a_{1}" ELSE d.instr
UsesSampler(d) == d.route \in {"sampler", "chain", "msampler", "mchain"}
UsesChain(d) == d.route \in {"chain", "mchain"}
Weight(d) == Cardinality({fld \in DOMAIN Baseline : d[fld] # Baseline[fld]})
HasVars == Part # "numerical"
\* the baseline has a half-credit alternative answer (entry-wise partial credit for matrices; summations have none)
BaseD == [Baseline EXCEPT !.numb = HasVars, !.ans = IF Part = "sum" THEN "plain" ELSE "partial"]
WeightP(d) == Cardinality({fld \in DOMAIN BaseD : d[fld] # BaseD[fld]})
ValidDims(d) ==
  /\ WeightP(d) <= MaxDims
  /\ ~HasVars => (d.numb = FALSE /\ d.instr # "z")
  /\ Part # "list" => d.route = "direct"
  /\ Part = "sum" => d.ans # "partial"                        \* a summation has one answer
  /\ d.instr \in {"I", "vc"} => Part = "matrix"
  /\ d.instr = "a1" => (HasVars /\ d.numb)
  /\ d.instr = "infty" => Part \in {"sum", "formula", "numerical"}
  /\ d.instr = "c" => d.consts = "userc"                      \* an instructor constant must exist
  /\ (d.instr = "pi" => d.consts # "delpi")
Dims == {d \in DimDom : ValidDims(d)}

Val(n_, d_) == [k |-> "v", q |-> <<n_, d_>>]
\* values at the single sampling point (integers, pairwise different, so that no accidental equality arises)
ValTab == ( "x" :> Val(2, 1) @@ "y" :> Val(5, 1) @@ "z" :> Val(3, 1) @@ "a" :> Val(7, 1) @@ "c" :> Val(11, 1)
         @@ "pi" :> FIN @@ "e" :> FIN @@ "i" :> NPV @@ "j" :> NPV @@ "infty" :> NPV
         @@ "sibling_1" :> Val(12, 1) @@ "sibling_2" :> NPV @@ "I" :> NPV @@ "vc" :> NPV )
Forb == ( "none" :> {} @@ "times0" :> {<<"*", "0">>} @@ "plus2" :> {<<"+", "SP", "2">>} @@ "sin" :> {<<"s", "i", "n">>} )

\* author's answers (token ids), per kind
Cor1 == IF Part = "numerical" THEN <<"n2", "ti", "n3", "pl", "n1">>
        ELSE IF Part = "sum" THEN <<"n", "ti", "x", "pl", "n2">>
        ELSE IF Part = "list" THEN <<"x", "ti", "y", "pl", "n2", "pl", "y">>
        ELSE <<"x", "ti", "y", "pl", "n2">>
Cor2 == IF Part = "numerical" THEN <<"n1", "pl", "n3", "ti", "n2">>
        ELSE IF Part = "sum" THEN <<"n2", "pl", "x", "ti", "n">>
        ELSE IF Part = "list" THEN <<"sib1", "pl", "y">>           \* the author's own text: refused from a student
        ELSE <<"n2", "pl", "y", "ti", "x">>
Part1 == IF Part = "numerical" THEN <<"n2", "ti", "n3">> ELSE IF Part = "sum" THEN <<"n", "ti", "x">> ELSE <<"x", "ti", "y">>
Wrong == IF Part = "numerical" THEN <<"n2", "ti", "n3", "pl", "n2">>
         ELSE IF Part = "sum" THEN <<"n", "ti", "x", "pl", "n3">>
         ELSE <<"x", "ti", "y", "pl", "n3">>
BaseIds(b) == IF b = "C1" THEN Cor1 ELSE IF b = "C2" THEN Cor2 ELSE IF b = "P" THEN Part1 ELSE Wrong
\* the neutral tail the author uses in the "exempt" answer form: a blacklistable function, an instructor variable /
\* constant, the forbidden strings "*0" and "sin"
ExemptTail(d) == <<"pl", "sin", "lp", "n0", "rp", "ti", "n0">>
                 \o (IF HasVars THEN <<"pl", "z", "mi", "z">> ELSE <<>>)
                 \o (IF d.consts = "userc" THEN <<"pl", "c", "mi", "c">> ELSE <<>>)
AuthorMain(d) == (IF Part = "list" THEN (IF UsesSampler(d) THEN <<"u", "pl", "y">> ELSE <<"sib1", "pl", "y">>) ELSE Cor1)
                 \o (IF d.ans = "exempt" THEN ExemptTail(d) ELSE <<>>)
Vec2(ids, second) == <<"lb">> \o ids \o <<"cm">> \o second \o <<"rb">>          \* matrix kind: a 2-vector
AnswerIds(d) ==                                                  \* sequence of [boxes (seq of id seqs), g]
  IF Part = "sum" THEN <<[boxes |-> <<<<"n1">>, <<"n3">>, AuthorMain(d)>>, g |-> "full"]>>
  ELSE IF Part = "matrix" THEN <<[boxes |-> <<Vec2(AuthorMain(d), <<"y">>)>>, g |-> "full"]>>
  ELSE <<[boxes |-> <<AuthorMain(d)>>, g |-> "full"]>>
       \o (IF d.ans # "plain" THEN <<[boxes |-> <<Part1>>, g |-> "half"]>> ELSE <<>>)

CfgOf(d) ==
  [kind |-> Part,
   vars |-> (IF HasVars THEN {"x", "y", "z"} ELSE {})
            \cup (IF UsesSampler(d) THEN {"u"} ELSE {}) \cup (IF UsesChain(d) THEN {"v"} ELSE {}),
   consts |-> ({"pi", "e", "i", "j"} \ (IF d.consts = "delpi" THEN {"pi"} ELSE {}))
              \cup (IF d.consts = "userc" THEN {"c"} ELSE {})
              \cup (IF Part = "sum" \/ d.instr = "infty" THEN {"infty"} ELSE {})      \* allow_inf only with instr = "infty"
              \cup (IF Part = "matrix" THEN {"I", "vc"} ELSE {}),                  \* identity_dim = 2, vc = [1, 2]
   instr |-> (IF d.instr = "none" THEN {} ELSE {InstrName(d)})
             \cup (IF UsesSampler(d) THEN {"u"} ELSE {}) \cup (IF UsesChain(d) THEN {"v"} ELSE {}),
   sibs |-> IF Part = "list" THEN {"sibling_1", "sibling_2"} ELSE {},
   deps |-> IF UsesChain(d) THEN {[s |-> "v", box |-> Box(<<"sib1", "pl", "n1">>, "tight")],
                                  [s |-> "u", box |-> Box(<<"v", "mi", "n1">>, "tight")]}
            ELSE IF UsesSampler(d) THEN {[s |-> "u", box |-> Box(<<"sib1", "ti", "n1">>, "tight")]}
            ELSE {},
   numbered |-> IF d.numb THEN {[s |-> "a", ch |-> <<"a">>]} ELSE {},
   defaultFuncs |-> {"sin", "cos", "sinh", "abs", "tan", "exp", "sqrt", "cosh", "arctan", "arcsin", "tanh"},
   userFuncs |-> IF d.userf THEN {"f"} ELSE {},
   wmode |-> IF d.fmode \in {"off", "bsin", "bsincos"} THEN "off" ELSE IF d.fmode = "wnone" THEN "nofuncs" ELSE "list",
   white |-> IF d.fmode = "wcos" THEN {"cos"} ELSE IF d.fmode = "wsinh" THEN {"sinh"} ELSE {},
   black |-> IF d.fmode = "bsin" THEN {"sin"} ELSE IF d.fmode = "bsincos" THEN {"sin", "cos"} ELSE {},
   required |-> IF d.req = "none" THEN {} ELSE {d.req},
   forbidden |-> Forb[d.forb],
   metric |-> d.metric,
   entryPartial |-> (Part = "matrix" /\ d.ans # "plain"),
   dummy |-> IF Part = "sum" THEN "n" ELSE "",
   val |-> ValTab,
   answers |-> LET as == AnswerIds(d) IN
               [i \in 1..Len(as) |-> [boxes |-> [b \in 1..Len(as[i].boxes) |-> Box(as[i].boxes[b], "tight")], g |-> as[i].g]]]

\* ---------------------------------------------------------------- cheating templates
ArgId == IF HasVars THEN "x" ELSE "n1"
Atom(nm, role) == IF role = "fn0" THEN <<nm, "lp", "n0", "rp">>
                  ELSE IF role = "fnx" THEN <<nm, "lp", ArgId, "rp">>
                  ELSE IF role = "suf" THEN <<"n0", nm>>
                  ELSE <<nm>>
Zero(N, form) == IF form = "mul0" THEN N \o <<"ti", "n0">>
                 ELSE IF form = "0mul" THEN <<"n0", "ti">> \o N
                 ELSE IF form = "cancel" THEN N \o <<"mi">> \o N
                 ELSE IF form = "pow0" THEN N \o <<"pw", "n0", "mi", "n1">>
                 ELSE N                                                            \* "bare"
Par(s) == <<"lp">> \o s \o <<"rp">>
Combine(B, Z, pos) ==
  IF pos = "add" THEN B \o <<"pl">> \o Z                       \* base + z - z   (the classic, unparenthesised)
  ELSE IF pos = "front" THEN Z \o <<"pl">> \o B
  ELSE IF pos = "expo" THEN Par(B) \o <<"ti", "n2", "pw">> \o Par(Z)
  ELSE IF pos = "arg" THEN B \o <<"pl", "abs">> \o Par(Z)
  ELSE IF pos = "one" THEN Par(B) \o <<"ti">> \o Par(<<"n1", "pl">> \o Z)
  ELSE IF pos = "den" THEN Par(B) \o <<"dv">> \o Par(<<"n1", "pl">> \o Z)
  ELSE IF pos = "neg" THEN B \o <<"mi">> \o Par(Z)
  ELSE B                                                         \* "arr" / "lower": the term goes elsewhere
\* the submission (sequence of id sequences, one per box)
Second(b) == IF b \in {"P", "W"} THEN <<"y", "pl", "n1">> ELSE <<"y">>
MatBase(b) == IF b = "P" THEN "C1" ELSE b                                     \* matrix: P = second entry wrong
Submission(b, nm, role, form, pos) ==
  LET Z == Zero(Atom(nm, role), form) IN
  IF Part = "sum" THEN
     (IF pos = "lower" THEN <<<<"n1", "pl">> \o Z, <<"n3">>, BaseIds(b)>>
      ELSE <<<<"n1">>, <<"n3">>, Combine(BaseIds(b), Z, pos)>>)
  ELSE IF Part = "matrix" THEN
     (IF pos = "arr" THEN <<Vec2(BaseIds(MatBase(b)), Second(b) \o <<"pl">> \o Z)>>
      ELSE <<Vec2(Combine(BaseIds(MatBase(b)), Z, pos), Second(b))>>)
  ELSE <<Combine(BaseIds(b), Z, pos)>>
Control(b) ==
  IF Part = "sum" THEN <<<<"n1">>, <<"n3">>, BaseIds(b)>>
  ELSE IF Part = "matrix" THEN <<Vec2(BaseIds(MatBase(b)), Second(b))>>
  ELSE <<BaseIds(b)>>

NRQuick == { <<"sin", "fn0">>, <<"sinh", "fn0">>, <<"cos", "fn0">>, <<"f", "fn0">>, <<"Sin", "fn0">>, <<"sin", "fnx">>,
             <<"x", "fn0">>, <<"z", "var">>, <<"X", "var">>, <<"xp", "var">>, <<"a1", "var">>, <<"a01", "var">>,
             <<"sib1", "var">>, <<"c", "var">>, <<"pi", "var">>, <<"k", "suf">> }
NRRich == NRQuick \cup
          { <<"abs", "fn0">>, <<"si", "fn0">>, <<"sin", "var">>, <<"a", "var">>, <<"am2", "var">>, <<"am0", "var">>,
            <<"A1", "var">>, <<"sib2", "var">>, <<"q", "suf">>, <<"pct", "suf">>, <<"z", "fn0">>, <<"n", "var">> }
(* look-alikes of allowed names (only the exact name is allowed): a numbered instance followed by a prime or an upper
   index; richer: two primes, the decorated head (a', a_1, a_{x}), a variable with two primes, a user function
   followed by a prime -- each is out of scope whatever the configuration *)
LookAlikes == IF ~HasVars THEN {}
              ELSE {<<"a1p", "var">>, <<"a1up", "var">>}
                   \cup (IF Rich THEN {<<"a1pp", "var">>, <<"ap", "var">>, <<"as1", "var">>, <<"ax", "var">>, <<"xpp", "var">>,
                                       <<"fp", "fn0">>, <<"fp", "fnx">>} ELSE {})
NR == (IF Rich THEN NRRich ELSE NRQuick) \cup LookAlikes
      \cup (IF Part = "list" THEN {<<"u", "var">>, <<"sib2", "var">>, <<"sib1", "fnx">>} ELSE {})
      \cup (IF Part = "matrix" THEN {<<"I", "var">>, <<"vc", "var">>} ELSE {})
      \cup (IF Part \in {"sum", "formula", "numerical"} THEN {<<"infty", "var">>} ELSE {})
Forms == IF Rich THEN {"mul0", "0mul", "cancel", "pow0", "bare"} ELSE {"mul0", "cancel"}
Positions == (IF Rich THEN {"add", "front", "expo", "arg", "one"} ELSE {"add", "expo", "arg"})
             \cup (IF Part = "matrix" THEN {"arr"} ELSE {}) \cup (IF Part = "sum" THEN {"lower"} ELSE {})
Bases(d) == (IF Rich THEN {"C1", "C2", "W"} ELSE {"C1", "W"})
            \cup (IF d.ans # "plain" /\ Part # "sum" THEN {"P"} ELSE {})
Spacings(d) == IF d.forb = "none" THEN {"tight"} ELSE {"tight", "spaced"}

\* ---------------------------------------------------------------- two-level enumeration
VARIABLES c, out
MkCase(d, b, nm, role, form, pos, sp, sub) ==
  [kind |-> Part, d |-> d, b |-> b, nm |-> nm, role |-> role, form |-> form, pos |-> pos, sp |-> sp,
   boxes |-> [i \in 1..Len(sub) |-> Join(sub[i], 1)],
   ans |-> LET as == AnswerIds(d) IN
           [i \in 1..Len(as) |-> [boxes |-> [j \in 1..Len(as[i].boxes) |-> Join(as[i].boxes[j], 1)], g |-> as[i].g]]]
LexBoxes(sub, sp) == [i \in 1..Len(sub) |-> Box(sub[i], sp)]

(* ---- laws.  All laws of a case are evaluated from ONE computation of its facts inside the action (an invariant per
   law would recompute the parse and the exact evaluation ten times); the names of the laws found false are stored
   in out.broken and every INVARIANT below is the membership test for its law. *)
\* the templates are neutral: when every name has a value (author's scope) and the value is exact, the submission
\* has the value of its base (the "bare" form is neutral only for atoms that are 0, so it is excluded)
NeutralOK(cfg, bx, b, nm, form) ==
  (nm # "none" /\ form # "bare") =>
   LET ps == ParseAll(bx)
       bb == LexBoxes(Control(b), "tight")
       pb == ParseAll(bb) IN
   (AllTrees(ps) /\ BadVars(cfg, bx, ps, FALSE) = {} /\ BadFuncs(cfg, ps) = {} /\ BadSufs(cfg, ps) = {})
      => LET v == ValueOf(cfg, bx, ps) vb == ValueOf(cfg, bb, pb) IN
         IsBad(v) \/ Compare(v, vb).r \in {"yes", "unknown"}
\* the unrestricted control formulas are graded as the answers say (sanity of the generator and of Worth)
ControlOK(d, b, nm, o) ==
  (nm = "none" /\ o.why = "unrestricted") =>
   o.allowed = (IF b = "C1" THEN {"credit"}
                ELSE IF b = "P" THEN (IF d.ans # "plain" THEN {"partial"} ELSE {"zero"})
                ELSE IF b = "W" THEN {"zero"} ELSE o.allowed)
\* the route by which the configuration reaches the sibling input changes nothing for a submission that does not
\* mention the sampler variables: same facts as with the sibling named in the answer and a FormulaGrader subgrader
RouteOK(d, bx, F, nm) ==
  (d.route # "direct" /\ nm # "u") => Facts(CfgOf([d EXCEPT !.route = "direct"]), bx) = F
Broken(d, cfg, bx, F, o, b, nm, form) ==
  {law \in {"Must", "NoCredit", "Scope", "Blanks", "OnlyRestr", "OutDomain", "Neutral", "Control", "Route"} :
     ~ CASE law = "Must" -> LawRejectFamilyF(F)
         [] law = "NoCredit" -> LawRestrictedNoCreditF(F)
         [] law = "Scope" -> LawScopeUnconditionalF(F)
         [] law = "Blanks" -> LawBlanksIrrelevantF(cfg, bx, F)
         [] law = "OnlyRestr" -> LawOnlyRestrictionsRefuseF(cfg, bx, F)
         [] law = "OutDomain" -> (o.allowed \subseteq ErrFamily \cup Graded /\ o.allowed # {})
         [] law = "Neutral" -> NeutralOK(cfg, bx, b, nm, form)
         [] law = "Route" -> RouteOK(d, bx, F, nm)
         [] OTHER -> ControlOK(d, b, nm, o)}
OutOf(d, sub, sp, b, nm, form) ==
  LET cfg == CfgOf(d) bx == LexBoxes(sub, sp) F == Facts(cfg, bx) o == OutcomeF(F) IN
  o @@ [must |-> MustRejectF(F), broken |-> Broken(d, cfg, bx, F, o, b, nm, form)]

MixCalls == {"none", "cos", "sin", "f"}
MixTerm(g) == IF g = "none" THEN <<>> ELSE <<"pl", g, "lp", "n0", "rp", "ti", "n0">>
Init == c \in {[kind |-> "seed", d |-> d] : d \in Dims} /\ out = [why |-> "seed", broken |-> {}]
Next == /\ c.kind = "seed"
        /\ \/ \E b \in Bases(c.d), nr \in NR, form \in Forms, pos \in Positions, sp \in Spacings(c.d) :
                LET sub == Submission(b, nr[1], nr[2], form, pos) IN
                /\ c' = MkCase(c.d, b, nr[1], nr[2], form, pos, sp, sub)
                /\ out' = OutOf(c.d, sub, sp, b, nr[1], form)
           \/ \E b \in Bases(c.d), sp \in Spacings(c.d) :
                /\ c' = MkCase(c.d, b, "none", "none", "none", "none", sp, Control(b))
                /\ out' = OutOf(c.d, Control(b), sp, b, "none", "none")
           \* summations: each of the three places (lower limit, upper limit, summand) independently carries nothing or a
           \* neutral call g(0)*0 of cos / sin / the user function f -- permitted or restricted according to the
           \* configuration; the submission is refused as soon as ANY place carries a restricted call
           \/ /\ Part = "sum"
              /\ \E lo \in MixCalls, hi \in MixCalls, sm \in MixCalls :
                   LET sub == <<<<"n1">> \o MixTerm(lo), <<"n3">> \o MixTerm(hi), Cor1 \o MixTerm(sm)>> IN
                   /\ c' = MkCase(c.d, "C1", "mix", lo, hi, sm, "tight", sub)
                   /\ out' = OutOf(c.d, sub, "tight", "C1", "mix", hi)
IsCase == c.kind # "seed"

LawMust == "Must" \notin out.broken            \* MustReject => only student-facing refusals allowed, never a grade
LawNoCredit == "NoCredit" \notin out.broken    \* restricted or out of scope => credit / partial credit never allowed
LawScope == "Scope" \notin out.broken          \* out of scope => rejected as undefined, whatever the formula is worth
LawBlanks == "Blanks" \notin out.broken        \* blanks change nothing
LawOnlyRestr == "OnlyRestr" \notin out.broken  \* without the restrictions: same scope, same worth, graded normally
LawOutDomain == "OutDomain" \notin out.broken  \* allowed sets are non-empty sets of known classes
LawNeutral == "Neutral" \notin out.broken      \* the cheating templates really are neutral
LawControl == "Control" \notin out.broken      \* unrestricted control formulas are graded as the answers say
LawRoute == "Route" \notin out.broken          \* sibling reached by answer / sampler / chain / MatrixGrader: same outcome
LawSiblings == /\ LawSiblingsHidden(CfgOf(c.d))  \* no sibling input in the student's scope, and every list
               /\ (Part = "list" => SiblingsReached(CfgOf(c.d)) = {"sibling_1"})   \* configuration does reach sibling_1
LawPerm == LawPermitted(CfgOf(c.d))            \* algebra of blacklist / whitelist / whitelist=[None]
LawExempt == LawAuthorExempt(CfgOf(c.d))       \* every author answer has a value in the author's scope
=============================================================================
