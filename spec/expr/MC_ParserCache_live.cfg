SPECIFICATION Spec
CONSTANTS
  Strings <- Small
  Text <- MCText
  TokOf <- MCTokOf
  MaxCalls = 3
  ResetInFinally = TRUE
  VarVal <- MCVarVal
  FuncArity <- MCFuncArity
  SufVal <- MCSufVal
INVARIANT HistoryIndependent
INVARIANT ScratchEmpty
INVARIANT CacheSound
INVARIANT CacheOnlyAccepted
PROPERTY EveryCallEnds
