------------------------------ MODULE ExprEval ------------------------------
(* Exact value of a parse tree (C03): rational arithmetic with explicit "no prediction" outside the exactly
   representable range.  Results:
     [k |-> "v", q |-> <<n, d>>]   the value mathematics assigns
     [k |-> "np"]                  no prediction (irrational power, magnitude outside the safe range, arrays)
     [k |-> "zerodiv"]             division by zero / 0 to a negative power: a student-facing evaluation error
     [k |-> "argerr"]              wrong number of arguments: a student-facing evaluation error
   The scope (variables, functions with arities, suffixes) is a parameter of the model instance. *)
EXTENDS ExprGrammar
CONSTANTS VarVal,      \* function: variable name -> rational
          FuncArity,   \* function: function name -> number of arguments
          SufVal       \* function: suffix -> rational multiplier

Bound == 30000         \* |numerator|, denominator <= Bound keeps every intermediate product below 2^31
RECURSIVE GCD(_, _)
GCD(a, b) == IF b = 0 THEN a ELSE GCD(b, a % b)
Abs(x) == IF x < 0 THEN -x ELSE x
Norm(n, d) == LET s == IF d < 0 THEN -1 ELSE 1
                  g == GCD(Abs(n), Abs(d))
              IN IF n = 0 THEN <<0, 1>> ELSE <<(s * n) \div g, (s * d) \div g>>
Safe(q) == Abs(q[1]) <= Bound /\ q[2] <= Bound /\ q[2] > 0
V(q) == IF Safe(q) THEN [k |-> "v", q |-> q] ELSE [k |-> "np"]
NP == [k |-> "np"]
ZD == [k |-> "zerodiv"]
AE == [k |-> "argerr"]
IsV(x) == x.k = "v"
IsErr(x) == x.k \in {"zerodiv", "argerr"}

\* combine two evaluated operands in evaluation order: an error or a "no prediction" on the left wins
Lift2(F(_, _), x, y) == IF x.k # "v" THEN x ELSE IF y.k # "v" THEN y ELSE F(x.q, y.q)
QAdd(a, b) == V(Norm(a[1] * b[2] + b[1] * a[2], a[2] * b[2]))
QSub(a, b) == V(Norm(a[1] * b[2] - b[1] * a[2], a[2] * b[2]))
QMul(a, b) == V(Norm(a[1] * b[1], a[2] * b[2]))
QDiv(a, b) == IF b[1] = 0 THEN ZD ELSE V(Norm(a[1] * b[2], a[2] * b[1]))
\* a1 || ... || an = 1 / (1/a1 + ... + 1/an), and 0 as soon as an operand is 0 (n-ary: partial sums may vanish)
RECURSIVE RecipSum(_, _, _)
RecipSum(qs, i, acc) ==        \* acc: rational so far, or <<0, 0>> when it left the safe range
  IF i > Len(qs) \/ acc = <<0, 0>> THEN acc
  ELSE LET q == qs[i]
           nx == Norm(acc[1] * q[1] + q[2] * acc[2], acc[2] * q[1])        \* acc + 1/q
       IN RecipSum(qs, i + 1, IF Safe(nx) THEN nx ELSE <<0, 0>>)
QParN(qs) == IF \E i \in 1..Len(qs) : qs[i][1] = 0 THEN V(<<0, 1>>)
             ELSE LET s == RecipSum(qs, 1, <<0, 1>>) IN
                  IF s = <<0, 0>> THEN NP ELSE IF s[1] = 0 THEN ZD ELSE V(Norm(s[2], s[1]))
QPar(a, b) == QParN(<<a, b>>)
RECURSIVE QIPow(_, _)
QIPow(a, n) == IF n = 0 THEN V(<<1, 1>>)
               ELSE LET r == QIPow(a, n - 1) IN IF r.k # "v" THEN r ELSE QMul(r.q, a)
\* base ^ exponent: integer exponents only (anything else is irrational or complex in general)
QPow(a, b) == IF b[2] # 1 THEN NP
              ELSE IF Abs(b[1]) > 14 THEN NP
              ELSE IF b[1] >= 0 THEN QIPow(a, b[1])
              ELSE IF a[1] = 0 THEN ZD
              ELSE QIPow(Norm(a[2], a[1]), -b[1])
QNeg(a) == V(<<-a[1], a[2]>>)

\* the two model functions (the adapter registers Python functions with exactly these definitions)
Apply(name, args) ==
  IF name = "f" THEN QAdd(args[1], <<1, 1>>)                               \* f(a)    = a + 1
  ELSE IF name = "g" THEN Lift2(QSub, V(args[1]), QMul(<<2, 1>>, args[2]))  \* g(a, b) = a - 2 b
  ELSE NP

RECURSIVE Ev(_), EvArgs(_, _, _)
\* arguments left to right; the first non-value stops the evaluation
EvArgs(sq, i, acc) == IF i > Len(sq) THEN [k |-> "args", qs |-> acc]
                      ELSE LET x == Ev(sq[i]) IN IF x.k # "v" THEN x ELSE EvArgs(sq, i + 1, Append(acc, x.q))
Ev(t) ==
  IF t.t = "num" THEN (IF t.v = <<0, 0>> THEN NP
                       ELSE IF t.suf = "" THEN V(t.v) ELSE QMul(t.v, SufVal[t.suf]))
  ELSE IF t.t = "var" THEN V(VarVal[t.n])
  ELSE IF t.t = "arr" THEN NP
  ELSE IF t.t = "call" THEN
       LET as == EvArgs(t.args, 1, <<>>) IN
       IF as.k # "args" THEN as
       ELSE IF Len(as.qs) # FuncArity[t.n] THEN AE
       ELSE Apply(t.n, as.qs)
  ELSE IF t.t = "par" THEN LET as == EvArgs(t.xs, 1, <<>>) IN IF as.k # "args" THEN as ELSE QParN(as.qs)
  ELSE IF t.t = "neg" THEN LET x == Ev(t.a) IN IF x.k # "v" THEN x ELSE QNeg(x.q)
  ELSE IF t.t = "pow" THEN LET x == Ev(t.a) y == Ev(t.b) IN
       IF x.k # "v" THEN x ELSE IF y.k # "v" THEN y
       ELSE QPow(x.q, IF t.neg THEN <<-y.q[1], y.q[2]>> ELSE y.q)
  ELSE LET x == Ev(t.a) y == Ev(t.b) IN
       IF t.t = "add" THEN Lift2(QAdd, x, y)
       ELSE IF t.t = "sub" THEN Lift2(QSub, x, y)
       ELSE IF t.t = "mul" THEN Lift2(QMul, x, y)
       ELSE Lift2(QDiv, x, y)

(* Outcome of evaluating a token string in the scope, in the order the library reports problems:
   unbalanced > unparsable > undefined variable > undefined function > undefined suffix > evaluation *)
Outcome(s) ==
  LET p == Parse(s) IN
  IF p.c # "tree" THEN [c |-> p.c]
  ELSE LET us == Usage(p.t) IN
       IF us.vars \ DOMAIN VarVal # {} THEN [c |-> "undefvar"] @@ us
       ELSE IF us.funcs \ DOMAIN FuncArity # {} THEN [c |-> "undeffunc"] @@ us
       ELSE IF us.sufs \ DOMAIN SufVal # {} THEN [c |-> "undefsuf"] @@ us
       ELSE LET x == Ev(p.t) IN
            IF x.k = "v" THEN [c |-> "value", q |-> x.q] @@ us
            ELSE IF x.k = "np" THEN [c |-> "nopred", arr |-> HasArr(p.t)] @@ us     \* arr: ragged arrays may still be refused
            ELSE [c |-> x.k] @@ us
\* coarse classes: what the property statement distinguishes
Coarse(c) == IF c \in {"unbalanced", "parse"} THEN "rejected"
             ELSE IF c \in {"undefvar", "undeffunc", "undefsuf"} THEN "undefined"
             ELSE IF c \in {"zerodiv", "argerr"} THEN "evalerror"
             ELSE c
=============================================================================
