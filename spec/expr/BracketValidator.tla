--------------------------- MODULE BracketValidator ---------------------------
(* The bracket balance check that precedes parsing (expressions.py, BracketValidator.validate) as a stack machine:
   one action per scanned character.  Outcomes: "ok", "closeWithoutOpen" (a closer met an empty stack),
   "wrongClosing" (a closer does not match the innermost opener), "openWithoutClose" (openers left at the end).
   `marks` is the set of character positions the error message highlights; `open` counts the unclosed openers
   per kind (the message reports them per kind).
   Property level: a string passes iff its brackets can be cancelled pairwise (ReducesToEmpty), a definition that
   does not mention a stack.  *)
EXTENDS Integers, Sequences, FiniteSets, TLC
CONSTANTS MaxLen
Alphabet == {"(", ")", "[", "]", "{", "}", "x"}
Openers == {"(", "[", "{"}
Closers == {")", "]", "}"}
Partner == ("(" :> ")" @@ "[" :> "]" @@ "{" :> "}")

VARIABLES formula, pos, stack, status, marks
vars == <<formula, pos, stack, status, marks>>

RECURSIVE SeqsOfLen(_)
SeqsOfLen(n) == IF n = 0 THEN {<<>>} ELSE {Append(s, a) : s \in SeqsOfLen(n - 1), a \in Alphabet}

Init == /\ formula \in UNION {SeqsOfLen(n) : n \in 0..MaxLen}
        /\ pos = 1 /\ stack = <<>> /\ status = "scanning" /\ marks = {}

Skip == /\ status = "scanning" /\ pos <= Len(formula) /\ formula[pos] \notin (Openers \cup Closers)
        /\ pos' = pos + 1 /\ UNCHANGED <<formula, stack, status, marks>>
Push == /\ status = "scanning" /\ pos <= Len(formula) /\ formula[pos] \in Openers
        /\ stack' = Append(stack, [i |-> pos, ch |-> formula[pos]])
        /\ pos' = pos + 1 /\ UNCHANGED <<formula, status, marks>>
Pop == /\ status = "scanning" /\ pos <= Len(formula) /\ formula[pos] \in Closers
       /\ stack # <<>> /\ Partner[stack[Len(stack)].ch] = formula[pos]
       /\ stack' = SubSeq(stack, 1, Len(stack) - 1)
       /\ pos' = pos + 1 /\ UNCHANGED <<formula, status, marks>>
CloseWithoutOpen == /\ status = "scanning" /\ pos <= Len(formula) /\ formula[pos] \in Closers /\ stack = <<>>
                    /\ status' = "closeWithoutOpen" /\ marks' = {pos}
                    /\ UNCHANGED <<formula, pos, stack>>
\* note: the innermost opener has already been popped when the mismatch is reported
WrongClosing == /\ status = "scanning" /\ pos <= Len(formula) /\ formula[pos] \in Closers
                /\ stack # <<>> /\ Partner[stack[Len(stack)].ch] # formula[pos]
                /\ status' = "wrongClosing" /\ marks' = {stack[Len(stack)].i, pos}
                /\ stack' = SubSeq(stack, 1, Len(stack) - 1)
                /\ UNCHANGED <<formula, pos>>
Finish == /\ status = "scanning" /\ pos > Len(formula)
          /\ status' = IF stack = <<>> THEN "ok" ELSE "openWithoutClose"
          /\ marks' = {stack[k].i : k \in 1..Len(stack)}
          /\ UNCHANGED <<formula, pos, stack>>
Next == Skip \/ Push \/ Pop \/ CloseWithoutOpen \/ WrongClosing \/ Finish
Spec == Init /\ [][Next]_vars /\ WF_vars(Next)

\* ---------------------------------------------------------------- property level
Brackets(s) == SelectSeq(s, LAMBDA c : c \in Openers \cup Closers)
RECURSIVE ReducesToEmpty(_)
ReducesToEmpty(b) == IF b = <<>> THEN TRUE
                     ELSE LET ks == {k \in 1..(Len(b) - 1) : b[k] \in Openers /\ Partner[b[k]] = b[k + 1]} IN
                          IF ks = {} THEN FALSE
                          ELSE LET k == CHOOSE x \in ks : TRUE IN
                               ReducesToEmpty(SubSeq(b, 1, k - 1) \o SubSeq(b, k + 2, Len(b)))
Done == status # "scanning"
OkIffBalanced == Done => ((status = "ok") <=> ReducesToEmpty(Brackets(formula)))
MarksAreBrackets == \A i \in marks : i \in 1..Len(formula) /\ formula[i] \in Openers \cup Closers
MarksNonEmptyOnError == (Done /\ status # "ok") => marks # {}
\* an unclosed opener is reported only when the scan reached the end: every closer before matched
StackIsPrefixOpeners == \A k \in 1..Len(stack) : stack[k].i < pos /\ formula[stack[k].i] = stack[k].ch
Terminates == <>Done
OpenCount(kind) == Cardinality({k \in 1..Len(stack) : stack[k].ch = kind})
=============================================================================
