INIT TInit
NEXT TNext
CONSTANTS
  VarVal <- TVarVal
  FuncArity <- TFuncArity
  SufVal <- TSufVal
