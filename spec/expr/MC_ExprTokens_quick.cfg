INIT Init
NEXT Next
CONSTANTS
  MaxLen = 4
  VarVal <- MCVarVal
  FuncArity <- MCFuncArity
  SufVal <- MCSufVal
INVARIANT LawCanonRoundTrip
INVARIANT LawCanonSameOutcome
INVARIANT LawParenTransparent
INVARIANT LawLeadingPlus
INVARIANT LawUsageFromTokens
INVARIANT LawFuncIffParen
