----------------------------- MODULE MC_ExprOps -----------------------------
(* E2 of C03: every chain of up to MaxOps binary operators over five operands, each operand optionally negated.
   The value is defined here a SECOND time, directly from the documented precedence table (split the chain at the
   loosest operator), independently of the recursive-descent parser; TLC checks that both definitions agree on
   every chain (LawPrecedence), and the adapter replays every chain, and its canonical fully parenthesised form,
   into the real evaluator under the model's bindings and under other real and complex bindings. *)
EXTENDS ExprEval
CONSTANTS MaxOps
Names == <<"a", "b", "c", "d", "e">>
MCVarVal == ("a" :> <<2, 1>> @@ "b" :> <<3, 1>> @@ "c" :> <<2, 1>> @@ "d" :> <<5, 1>> @@ "e" :> <<3, 1>>)
MCFuncArity == ("f" :> 1 @@ "g" :> 2)
MCSufVal == ("k" :> <<1000, 1>> @@ "%" :> <<1, 100>>)
OpSyms == {"+", "-", "*", "/", "^", "||"}

\* chain: [ops |-> sequence of n operator symbols, neg |-> sequence of n+1 booleans]
OpToks(o) == IF o = "||" THEN <<Op("|"), Op("|")>> ELSE <<Op(o)>>
RECURSIVE Render(_, _)
Render(ch, i) == (IF ch.neg[i] THEN <<Op("-")>> ELSE <<>>) \o <<Name(Names[i], TRUE)>> \o
                 (IF i > Len(ch.ops) THEN <<>> ELSE OpToks(ch.ops[i]) \o Render(ch, i + 1))

\* ---- the documented semantics, by splitting at the loosest operator
SetMax(S) == CHOOSE x \in S : \A y \in S : x >= y
SetMin(S) == CHOOSE x \in S : \A y \in S : x <= y
LastIn(ch, lo, hi, S) == LET ks == {k \in lo..(hi - 1) : ch.ops[k] \in S} IN IF ks = {} THEN 0 ELSE SetMax(ks)
RECURSIVE Sem(_, _, _, _)
\* Sem(ch, lo, hi, useNeg): operands lo..hi; useNeg = FALSE when the sign of operand lo was already consumed
Sem(ch, lo, hi, useNeg) ==
  LET kS == LastIn(ch, lo, hi, {"+", "-"})
      kP == LastIn(ch, lo, hi, {"*", "/"})
      kL == LastIn(ch, lo, hi, {"||"})
  IN
  IF kS # 0 THEN LET x == Sem(ch, lo, kS, useNeg) y == Sem(ch, kS + 1, hi, TRUE) IN
                 IF ch.ops[kS] = "+" THEN Lift2(QAdd, x, y) ELSE Lift2(QSub, x, y)
  ELSE IF kP # 0 THEN LET x == Sem(ch, lo, kP, useNeg) y == Sem(ch, kP + 1, hi, TRUE) IN
                      IF ch.ops[kP] = "*" THEN Lift2(QMul, x, y) ELSE Lift2(QDiv, x, y)
  ELSE IF kL # 0 THEN
       \* n-ary: all operands of the || chain at this level, left to right
       LET cuts == {k \in lo..(hi - 1) : ch.ops[k] = "||"}
           n == Cardinality(cuts) + 1
           CutAt[j \in 0..n] == IF j = 0 THEN lo - 1 ELSE IF j = n THEN hi
                                 ELSE CHOOSE k \in cuts : Cardinality({x \in cuts : x < k}) = j - 1
           vals == [j \in 1..n |-> Sem(ch, CutAt[j - 1] + 1, CutAt[j], IF j = 1 THEN useNeg ELSE TRUE)]
           firstBad == {j \in 1..n : vals[j].k # "v"}
       IN IF firstBad # {} THEN vals[CHOOSE j \in firstBad : \A x \in firstBad : j <= x]
          ELSE QParN([j \in 1..n |-> vals[j].q])
  ELSE IF useNeg /\ ch.neg[lo] THEN LET x == Sem(ch, lo, hi, FALSE) IN IF x.k # "v" THEN x ELSE QNeg(x.q)
  ELSE IF lo = hi THEN V(MCVarVal[Names[lo]])
  ELSE \* a tower  lo ^ (lo+1 ^ ...): right associative, the exponent carries its own sign
       LET x == V(MCVarVal[Names[lo]]) y == Sem(ch, lo + 1, hi, TRUE) IN Lift2(QPow, x, y)

Spell(ts) == [i \in 1..Len(ts) |-> ts[i].s]
VARIABLES c, out
Chains(n) == [ops : [1..n -> OpSyms], neg : [1..(n + 1) -> BOOLEAN]]
Init == c \in {[kind |-> "seed", n |-> n, first |-> o] : n \in 1..MaxOps, o \in OpSyms} \cup {[kind |-> "zero"]}
        /\ out = [c |-> "seed"]
Next == \/ /\ c.kind = "seed"
           /\ \E ch \in Chains(c.n) :
                /\ ch.ops[1] = c.first
                /\ LET toks == Render(ch, 1) p == Parse(toks) IN
                   /\ c' = [kind |-> "case", ch |-> ch, toks |-> Spell(toks),
                            canon |-> IF p.c = "tree" THEN Spell(Canon(p.t)) ELSE <<>>]
                   /\ out' = Outcome(toks)
        \/ /\ c.kind = "zero"
           /\ \E ch \in Chains(0) :
                LET toks == Render(ch, 1) p == Parse(toks) IN
                /\ c' = [kind |-> "case", ch |-> ch, toks |-> Spell(toks), canon |-> IF p.c = "tree" THEN Spell(Canon(p.t)) ELSE <<>>]
                /\ out' = Outcome(toks)
IsCase == c.kind = "case"
\* every chain is in the grammar
Toks == Render(c.ch, 1)
LawAccepted == IsCase => Parse(Toks).c = "tree"
\* the parser-based value equals the value obtained from the precedence table
LawPrecedence == IsCase => LET s == Sem(c.ch, 1, Len(c.ch.ops) + 1, TRUE) IN
                 IF s.k = "v" THEN out.c = "value" /\ out.q = s.q
                 ELSE IF s.k = "np" THEN out.c = "nopred"
                 ELSE out.c = s.k
LawCanonSame == IsCase => Outcome(Canon(Parse(Toks).t)) = out
=============================================================================
