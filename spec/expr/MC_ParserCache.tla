---------------------------- MODULE MC_ParserCache ----------------------------
EXTENDS ParserCache
MCVarVal == ("x" :> <<5, 1>> @@ "x_1" :> <<7, 1>>)
MCFuncArity == ("f" :> 1 @@ "g" :> 2)
MCSufVal == ("k" :> <<1000, 1>> @@ "%" :> <<1, 100>>)
MCTokOf == [ n2 |-> Num(2, 1), n3 |-> Num(3, 1), x |-> Name("x", TRUE), y |-> Name("x_1", FALSE), u |-> Name("u", TRUE),
             n23 |-> Num(23, 1), xx |-> Name("xx_1", FALSE), k |-> Name("k", TRUE), f |-> Name("f", TRUE), g |-> Name("g", TRUE), pct |-> Pct,
             lp |-> Op("("), rp |-> Op(")"), lb |-> Op("["), rb |-> Op("]"), cm |-> Op(","),
             pl |-> Op("+"), mi |-> Op("-"), ti |-> Op("*"), dv |-> Op("/"), pw |-> Op("^"), br |-> Op("|") ]
MCText == [ s01 |-> [ids |-> <<"x", "pl", "n2">>, key |-> "K01"],
            s02 |-> [ids |-> <<"x", "pl", "n2">>, key |-> "K01"],          \* same text with spaces: same key
            s03 |-> [ids |-> <<"f", "lp", "x", "rp">>, key |-> "K02"],
            s04 |-> [ids |-> <<"x", "lp", "n2", "rp">>, key |-> "K03"],    \* variable name used as a function
            s05 |-> [ids |-> <<"f">>, key |-> "K04"],                         \* function name used as a variable
            s06 |-> [ids |-> <<"n2", "k">>, key |-> "K05"],
            s07 |-> [ids |-> <<"n2", "u">>, key |-> "K06"],                  \* undefined suffix
            s08 |-> [ids |-> <<"u", "ti", "x">>, key |-> "K07"],            \* undefined variable
            s09 |-> [ids |-> <<"lp", "x">>, key |-> "K08"],                  \* unbalanced
            s10 |-> [ids |-> <<"x", "pl">>, key |-> "K09"],                  \* unparsable, callbacks saw x
            s11 |-> [ids |-> <<"f", "lp", "u", "cm", "rp">>, key |-> "K10"],  \* unparsable, callbacks saw u (and f)
            s12 |-> [ids |-> <<"g", "lp", "x", "cm", "y", "rp">>, key |-> "K11"],
            s13 |-> [ids |-> <<"n2", "pw", "mi", "n3">>, key |-> "K12"],
            s14 |-> [ids |-> <<"k", "lp", "n2", "pct", "rp", "dv", "u">>, key |-> "K13"],
            \* pairs that differ only by a TAB / line break between two tokens: juxtaposition is not in the grammar,
            \* the glued spelling is a different, valid string with its own cache key
            s15 |-> [ids |-> <<"n23">>, key |-> "K14"],                     \* 23
            s16 |-> [ids |-> <<"n2", "n3">>, key |-> "K15"],                \* 2 TAB 3
            s17 |-> [ids |-> <<"xx">>, key |-> "K16"],                      \* xx_1 (undefined variable)
            s18 |-> [ids |-> <<"x", "y">>, key |-> "K17"],                  \* x TAB x_1
            \* an unparsable string and the same string spaced differently: same key, never cached, and each call
            \* must report its own text
            s19 |-> [ids |-> <<"x", "pl">>, key |-> "K09"] ]                 \* "x +" (s10 is "x+")
AllStrings == DOMAIN MCText
Small == {"s01", "s02", "s05", "s08", "s10", "s11", "s16"}
=============================================================================
