INIT Init
NEXT Next
CONSTANTS
  MaxLen = 4
  Which = "foreign"
  VarVal <- MCVarVal
  FuncArity <- MCFuncArity
  SufVal <- MCSufVal
INVARIANT LawOuterWS
INVARIANT LawUnbalancedFirst
INVARIANT LawForeignRejected
