----------------------------- MODULE ExprLexer -----------------------------
(* Character level of the formula language (C03, C10): how a string of characters becomes tokens.
   Characters are one-symbol strings; "TAB" stands for any of tab / line feed / carriage return between tokens.
   Spaces never reach the lexer (the library deletes U+0020 before lexing), so they are not in the alphabet:
   the adapter inserts them at random and expects no change.

   number : d+ [. d*] | . d+ ,  then  (e|E) [+|-] d+  taken only when complete ("2e" is 2 with suffix e)
   suffix : a run of letters and % directly after a number (whitespace allowed in between)
   name   : letter alnum* ( subscript | [_{-?alnum+}] [^{-?alnum+}] ) '*
            subscript = (alnum | _)+ not followed by "{"  *)
EXTENDS ExprEval

Digits == {"0", "1", "2"}
DigVal == ("0" :> 0 @@ "1" :> 1 @@ "2" :> 2)
Alphas == {"e", "E", "k", "x"}
Alnum == Digits \cup Alphas
WS == {"TAB"}
OpChars == {"+", "-", "*", "/", "^", "(", ")", "[", "]", ",", "|"}
Ch(c, i) == IF i >= 1 /\ i <= Len(c) THEN c[i] ELSE "$"

RECURSIVE Run(_, _, _), DigNum(_, _, _, _), Cat(_, _, _), P10(_)
Run(c, i, S) == IF Ch(c, i) \in S THEN Run(c, i + 1, S) ELSE i                \* maximal munch: end index
DigNum(c, i, j, acc) == IF i >= j THEN acc
                        ELSE IF acc > 30000 THEN 30001 ELSE DigNum(c, i + 1, j, 10 * acc + DigVal[c[i]])
Cat(c, i, j) == IF i >= j THEN "" ELSE c[i] \o Cat(c, i + 1, j)
P10(n) == IF n = 0 THEN 1 ELSE 10 * P10(n - 1)
OOR == <<0, 0>>                                                               \* outside the modelled range

LexNum(c, i) ==
  LET j == Run(c, i, Digits) IN
  LET mant == IF j > i
              THEN (IF Ch(c, j) = "."
                    THEN LET k == Run(c, j + 1, Digits) IN
                         [ok |-> TRUE, m |-> DigNum(c, j + 1, k, DigNum(c, i, j, 0)), fd |-> k - (j + 1), e |-> k]
                    ELSE [ok |-> TRUE, m |-> DigNum(c, i, j, 0), fd |-> 0, e |-> j])
              ELSE (IF Ch(c, i) = "." /\ Ch(c, i + 1) \in Digits
                    THEN LET k == Run(c, i + 1, Digits) IN
                         [ok |-> TRUE, m |-> DigNum(c, i + 1, k, 0), fd |-> k - (i + 1), e |-> k]
                    ELSE [ok |-> FALSE]) IN
  IF ~mant.ok THEN [ok |-> FALSE]
  ELSE LET p == mant.e
           hasE == Ch(c, p) \in {"e", "E"}
           sgn == IF hasE /\ Ch(c, p + 1) \in {"+", "-"} THEN 1 ELSE 0
           ds == p + 1 + sgn
           de == Run(c, ds, Digits)
           useE == hasE /\ de > ds
           exabs == IF useE THEN DigNum(c, ds, de, 0) ELSE 0
           ex == IF useE /\ sgn = 1 /\ Ch(c, p + 1) = "-" THEN -exabs ELSE exabs
           net == ex - mant.fd
           endi == IF useE THEN de ELSE p
           q == IF mant.m > 30000 \/ exabs > 30 THEN OOR
                ELSE IF mant.m = 0 THEN <<0, 1>>
                ELSE IF net >= 0 THEN (IF net <= 4 /\ mant.m <= 30000 \div P10(net) THEN Norm(mant.m * P10(net), 1) ELSE OOR)
                ELSE (IF -net <= 4 THEN Norm(mant.m, P10(-net)) ELSE OOR)
       IN [ok |-> TRUE, q |-> q, i |-> endi]

\* tensor index  open "{" ["-"] alnum+ "}"  at position i: end index, or i when absent
Idx(c, i, open) ==
  IF Ch(c, i) = open /\ Ch(c, i + 1) = "{"
  THEN LET s == IF Ch(c, i + 2) = "-" THEN i + 3 ELSE i + 2
           e == Run(c, s, Alnum) IN
       IF e > s /\ Ch(c, e) = "}" THEN e + 1 ELSE i
  ELSE i
LexName(c, i) ==
  LET f == Run(c, i + 1, Alnum)
      sub == IF Ch(c, f) = "_" THEN Run(c, f, Alnum \cup {"_"}) ELSE f
      subOK == sub > f /\ Ch(c, sub) # "{"
      mid == IF subOK THEN sub ELSE Idx(c, Idx(c, f, "_"), "^")
      e == Run(c, mid, {"'"})
  IN [s |-> Cat(c, i, e), i |-> e, alpha |-> \A k \in i..(e - 1) : c[k] \in Alphas]

RECURSIVE Lex(_, _, _, _)
\* afterNum: the previous token was a number, so a word of letters / % is its suffix (also across whitespace)
Lex(c, i, acc, afterNum) ==
  IF i > Len(c) THEN [ok |-> TRUE, toks |-> acc]
  ELSE LET ch == c[i] IN
  IF ch \in WS THEN Lex(c, i + 1, acc, afterNum)
  ELSE IF afterNum /\ ch \in (Alphas \cup {"%"}) THEN
       LET e == Run(c, i, Alphas \cup {"%"}) IN
       Lex(c, e, Append(acc, Tok("name", Cat(c, i, e), <<0, 1>>, TRUE)), FALSE)
  ELSE IF ch \in Digits \/ ch = "." THEN
       LET r == LexNum(c, i) IN
       IF ~r.ok THEN [ok |-> FALSE] ELSE Lex(c, r.i, Append(acc, Tok("num", "#", r.q, FALSE)), TRUE)
  ELSE IF ch \in Alphas THEN
       LET r == LexName(c, i) IN Lex(c, r.i, Append(acc, Tok("name", r.s, <<0, 1>>, FALSE)), FALSE)
  ELSE IF ch \in OpChars THEN Lex(c, i + 1, Append(acc, Op(ch)), FALSE)
  ELSE [ok |-> FALSE]                      \* stray character: _ { } ' % . outside a token

\* brackets are balance-checked on the raw characters, curly braces included
BracketsOf(c) == SelectSeq(c, LAMBDA x : x \in {"(", ")", "[", "]", "{", "}"})
CPartner == ("(" :> ")" @@ "[" :> "]" @@ "{" :> "}")
RECURSIVE BalS(_, _, _)
BalS(s, i, st) ==
  IF i > Len(s) THEN st = <<>>
  ELSE IF s[i] \in {"(", "[", "{"} THEN BalS(s, i + 1, Append(st, s[i]))
  ELSE IF st = <<>> THEN FALSE
  ELSE IF CPartner[st[Len(st)]] = s[i] THEN BalS(s, i + 1, SubSeq(st, 1, Len(st) - 1)) ELSE FALSE

IsBlank(c) == \A i \in 1..Len(c) : c[i] \in WS
OutcomeC(c) ==
  IF IsBlank(c) THEN [c |-> "blank"]                     \* evaluator(): empty input evaluates to nan, no usage
  ELSE IF ~BalS(BracketsOf(c), 1, <<>>) THEN [c |-> "unbalanced"]
  ELSE LET lx == Lex(c, 1, <<>>, FALSE) IN
       IF ~lx.ok THEN [c |-> "parse"] ELSE Outcome(lx.toks)
=============================================================================
