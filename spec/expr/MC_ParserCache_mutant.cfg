SPECIFICATION Spec
CONSTANTS
  Strings <- Small
  Text <- MCText
  TokOf <- MCTokOf
  MaxCalls = 3
  ResetInFinally = FALSE
  VarVal <- MCVarVal
  FuncArity <- MCFuncArity
  SufVal <- MCSufVal
INVARIANT HistoryIndependent

INVARIANT CacheSound


