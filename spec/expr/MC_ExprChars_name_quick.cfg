INIT Init
NEXT Next
CONSTANTS
  MaxLen = 4
  Which = "name"
  VarVal <- MCVarVal
  FuncArity <- MCFuncArity
  SufVal <- MCSufVal
INVARIANT LawOuterWS
INVARIANT LawUnbalancedFirst
