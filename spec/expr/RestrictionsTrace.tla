-------------------------- MODULE RestrictionsTrace --------------------------
(* Code -> spec binding for C09.  Every record is one real grading call (FormulaGrader, NumericalGrader, MatrixGrader,
   SumGrader, or the second box of an ordered ListGrader) on a randomly generated configuration and a randomly
   generated -- larger, nested -- cheating formula:
     cfg    the abstract configuration (the fields Restrictions!Outcome reads; sets arrive as JSON arrays),
     boxes  the submission as lexemes  [tok |-> [k, s, q, a], ch |-> characters],
     obs    the outcome class observed ("credit" "partial" "zero" "invalid" "undefvar" "undeffunc" "student" ...).
   The record is accepted iff  obs \in Restrictions!Outcome(cfg, boxes).allowed ; the clause printed for a rejected
   record is <<why, fine class expected, allowed set>>. *)
EXTENDS Restrictions, Json, IOUtils
Trace == ndJsonDeserialize(IOEnv.TRACE_FILE)
VARIABLE l

SetOf(sq) == {sq[i] : i \in 1..Len(sq)}
ToTok(j) == Tok(j.k, j.s, <<j.q[1], j.q[2]>>, j.a)
ToLex(j) == Lexeme(ToTok(j.tok), j.ch)
ToBox(jb) == [i \in 1..Len(jb) |-> ToLex(jb[i])]
ToBoxes(jbs) == [b \in 1..Len(jbs) |-> ToBox(jbs[b])]
ToVal(j) == IF j.k = "v" THEN [k |-> "v", q |-> <<j.q[1], j.q[2]>>] ELSE [k |-> j.k]
CfgOfRec(j) ==
  [kind |-> j.kind, vars |-> SetOf(j.vars), consts |-> SetOf(j.consts), instr |-> SetOf(j.instr), sibs |-> SetOf(j.sibs),
   numbered |-> {[s |-> h.s, ch |-> h.ch] : h \in SetOf(j.numbered)},
   defaultFuncs |-> SetOf(j.defaultFuncs), userFuncs |-> SetOf(j.userFuncs), wmode |-> j.wmode,
   white |-> SetOf(j.white), black |-> SetOf(j.black), required |-> SetOf(j.required),
   forbidden |-> SetOf(j.forbidden), metric |-> j.metric, entryPartial |-> j.entryPartial, dummy |-> j.dummy,
   deps |-> {[s |-> h.s, box |-> ToBox(h.box)] : h \in SetOf(j.deps)},
   val |-> [nm \in DOMAIN j.val |-> ToVal(j.val[nm])],
   answers |-> [i \in 1..Len(j.answers) |-> [boxes |-> ToBoxes(j.answers[i].boxes), g |-> j.answers[i].g]]]

Verdict(i) ==
  LET r == Trace[i]
      cfg == CfgOfRec(r.cfg)
      bx == ToBoxes(r.boxes)
      o == Outcome(cfg, bx) IN
  IF r.obs \in o.allowed THEN TRUE
  ELSE PrintT(<<"REJECT", r.id, <<o.why, o.fine, MustReject(cfg, bx)>>>>)
TInit == l = 0
TNext == /\ l < Len(Trace)
         /\ l' = l + 1
         /\ Verdict(l + 1)
         /\ (l + 1 = Len(Trace)) => PrintT(<<"DONE", Len(Trace)>>)
=============================================================================
