---------------------------- MODULE Restrictions ----------------------------
(* Property-level specification of C09: which student formulas a math grader MUST refuse, and with what family of
   outcomes, given the author's restrictions.  Written from the documentation of FormulaGrader (blacklist, whitelist,
   whitelist=[None], required_functions, forbidden_strings, instructor_vars, numbered_vars, metric_suffixes, user
   functions / constants, sibling variables) on top of the token grammar and the exact usage sets of ExprGrammar.

   A submission is a sequence of BOXES (one for formula / numerical / matrix graders and for one box of an ordered
   list, three -- lower, upper, summand -- for a summation).  A box is a sequence of LEXEMES [tok, ch]:
   tok is an ExprGrammar token (tok.k = "ws" for a run of blanks), ch the characters the student typed for it.
   The character level is needed for exactly two documented behaviours: forbidden strings are a SUBSTRING test on
   the input with the spaces deleted, and numbered variables are recognised by the shape  head_{0 | -?[1-9]d*}.

   Values.  "Would otherwise earn credit" is decided by exact evaluation at the (single-point) sampling sets of the
   configuration:  [k |-> "v", q]  exact rational,  [k |-> "fin"]  some finite real the model does not compute
   (sin(2), pi: only fin * 0 = 0 and fin ^ 0 = 1 are known),  [k |-> "vec", es]  a vector of such values,
   [k |-> "np"]  no prediction,  "zerodiv" / "argerr"  student-facing evaluation errors.

   Outcome classes of one grading call (the adapter's projection of what the code did):
     "credit"    graded, full credit            "partial"   graded, 0 < credit < 1        "zero"  graded, no credit
     "invalid"   InvalidInput (or a subclass)   "undefvar"  UndefinedVariable            "undeffunc"  UndefinedFunction
     "student"   any other student-facing error (unparsable, unbalanced, evaluation, missing input ...)
     "config"    ConfigError                    "other"     anything else (never allowed)                              *)
EXTENDS ExprGrammar, Text

EV == INSTANCE ExprEval WITH VarVal <- <<>>, FuncArity <- <<>>, SufVal <- <<>>

\* ---------------------------------------------------------------- lexemes, text
Lexeme(tok, ch) == [tok |-> tok, ch |-> ch]
Blank == Lexeme([k |-> "ws", s |-> " ", q |-> <<0, 1>>, a |-> FALSE], <<"SP">>)
IsWs(lx) == lx.tok.k = "ws"
RECURSIVE ConcatCh(_, _)
ConcatCh(box, i) == IF i > Len(box) THEN <<>> ELSE box[i].ch \o ConcatCh(box, i + 1)
TextOf(box) == ConcatCh(box, 1)                                  \* what the student typed, character by character
Stripped(chars) == RemoveAll(chars, "SP")                        \* spaces (U+0020) deleted, nothing else
TokensOf(box) == LET keep == SelectSeq(box, LAMBDA lx : ~IsWs(lx)) IN [i \in 1..Len(keep) |-> keep[i].tok]
\* characters of a name that occurs in the boxes (every name has one spelling)
RECURSIVE Flatten(_, _)
Flatten(boxes, b) == IF b > Len(boxes) THEN <<>> ELSE boxes[b] \o Flatten(boxes, b + 1)
CharsOfName(boxes, nm) ==
  LET all == Flatten(boxes, 1)
      hits == {i \in 1..Len(all) : all[i].tok.k = "name" /\ all[i].tok.s = nm} IN
  IF hits = {} THEN <<>> ELSE all[CHOOSE i \in hits : TRUE].ch

\* ---------------------------------------------------------------- forbidden strings
\* "Forbidden strings and student answers are stripped of spaces before being compared": a substring test
ForbiddenHit(boxes, forbidden) ==
  \E b \in 1..Len(boxes) : \E f \in forbidden :
     LET needle == Stripped(f) IN needle = <<>> \/ Contains(Stripped(TextOf(boxes[b])), needle)

\* ---------------------------------------------------------------- permitted functions
(* wmode = "off": no whitelist -> every default function except the blacklisted ones;
   wmode = "list": only the whitelisted default functions;  wmode = "nofuncs" (whitelist=[None]): no default function.
   User functions are always permitted. *)
Permitted(defaults, wmode, white, black, userFuncs) ==
  IF wmode = "off" THEN (defaults \cup userFuncs) \ black
  ELSE IF wmode = "nofuncs" THEN userFuncs
  ELSE userFuncs \cup white
PermittedOf(cfg) == Permitted(cfg.defaultFuncs, cfg.wmode, cfg.white, cfg.black, cfg.userFuncs)
DefinedFuncs(cfg) == cfg.defaultFuncs \cup cfg.userFuncs          \* blacklisted functions still evaluate (author!)

\* ---------------------------------------------------------------- suffix table
MetricSuffixes == {"k", "M", "G", "T", "m", "u", "n", "p"}
SuffixVal == ("%" :> <<1, 100>> @@ "k" :> <<1000, 1>> @@ "m" :> <<1, 1000>>)     \* values the model computes with
SuffixesOf(cfg) == {"%"} \cup (IF cfg.metric THEN MetricSuffixes ELSE {})

\* ---------------------------------------------------------------- numbered variables:  head_{0 | -?[1-9]d*}
DigitCh == {"0", "1", "2", "3", "4", "5", "6", "7", "8", "9"}
IsIndexText(cs) ==                                                   \* 0 | -?[1-9]d*
  \/ cs = <<"0">>
  \/ LET body == IF cs # <<>> /\ cs[1] = "-" THEN Tail(cs) ELSE cs IN
     /\ body # <<>>
     /\ body[1] \in DigitCh \ {"0"}
     /\ \A i \in 1..Len(body) : body[i] \in DigitCh
IsInstanceOf(chars, headChars) ==
  LET h == Len(headChars) n == Len(chars) IN
  /\ n >= h + 4
  /\ SubSeq(chars, 1, h) = headChars
  /\ chars[h + 1] = "_" /\ chars[h + 2] = "{" /\ chars[n] = "}"
  /\ IsIndexText(SubSeq(chars, h + 3, n - 1))
\* cfg.numbered: set of [s |-> head name, ch |-> its characters]
HeadOf(cfg, chars) == {h \in cfg.numbered : IsInstanceOf(chars, h.ch)}
IsNumberedInstance(cfg, chars) == HeadOf(cfg, chars) # {}

\* ---------------------------------------------------------------- scope
(* Scope(cfg) = variables + unshadowed constants + numbered-variable instances - instructor variables - sibling
   variables.  It is an infinite set (numbered instances), so it is given as a membership test.  "where" is the
   box role: the summation variable exists in the summand only.  cfg.sibs are the sibling inputs of an ordered list;
   they are outside the student's scope whether the author's configuration mentions them in an answer, only in a
   dependent sampling set, only through a chain of such sets, or not at all. *)
InScopeVar(cfg, nm, chars, where) ==
  /\ nm \notin cfg.instr
  /\ nm \notin cfg.sibs
  /\ \/ nm \in cfg.vars
     \/ nm \in cfg.consts
     \/ IsNumberedInstance(cfg, chars)
     \/ (where = "summand" /\ nm = cfg.dummy)
\* the author's own scope: everything that has a value
InAuthorScope(cfg, nm, chars, where) ==
  \/ nm \in cfg.vars \cup cfg.consts \cup cfg.sibs
  \/ IsNumberedInstance(cfg, chars)
  \/ (where = "summand" /\ nm = cfg.dummy)

BoxRole(cfg, b) == IF cfg.kind = "sum" THEN (IF b = 3 THEN "summand" ELSE "limit") ELSE "main"

\* parse of every box:  sequence of [c |-> "tree", t] / [c |-> "parse"] / [c |-> "unbalanced"]
ParseAll(boxes) == [b \in 1..Len(boxes) |-> Parse(TokensOf(boxes[b]))]
AllTrees(ps) == \A b \in 1..Len(ps) : ps[b].c = "tree"
UsedFuncs(ps) == UNION {UFuncs(ps[b].t) : b \in 1..Len(ps)}
UsedSufs(ps) == UNION {USufs(ps[b].t) : b \in 1..Len(ps)}
BadVars(cfg, boxes, ps, student) ==
  UNION {{nm \in UVars(ps[b].t) :
            IF student THEN ~InScopeVar(cfg, nm, CharsOfName(boxes, nm), BoxRole(cfg, b))
            ELSE ~InAuthorScope(cfg, nm, CharsOfName(boxes, nm), BoxRole(cfg, b))} : b \in 1..Len(ps)}
BadFuncs(cfg, ps) == UsedFuncs(ps) \ DefinedFuncs(cfg)
BadSufs(cfg, ps) == UsedSufs(ps) \ SuffixesOf(cfg)
OutOfScope(cfg, boxes, ps) ==
  BadVars(cfg, boxes, ps, TRUE) # {} \/ BadFuncs(cfg, ps) # {} \/ BadSufs(cfg, ps) # {}
\* the same, for one box only
BoxOutOfScope(cfg, boxes, ps, b) ==
  \/ \E nm \in UVars(ps[b].t) : ~InScopeVar(cfg, nm, CharsOfName(boxes, nm), BoxRole(cfg, b))
  \/ UFuncs(ps[b].t) \ DefinedFuncs(cfg) # {}
  \/ USufs(ps[b].t) \ SuffixesOf(cfg) # {}

\* ---------------------------------------------------------------- restrictions on in-scope formulas
Unpermitted(cfg, ps) == UsedFuncs(ps) \ PermittedOf(cfg)
MissingRequired(cfg, ps) == cfg.required \ UsedFuncs(ps)
Restricted(cfg, boxes, ps) ==
  \/ ForbiddenHit(boxes, cfg.forbidden)
  \/ Unpermitted(cfg, ps) # {}
  \/ MissingRequired(cfg, ps) # {}

\* ---------------------------------------------------------------- values
V0 == [k |-> "v", q |-> <<0, 1>>]
V1 == [k |-> "v", q |-> <<1, 1>>]
FIN == [k |-> "fin"]
NPV == [k |-> "np"]
ZDV == [k |-> "zerodiv"]
AEV == [k |-> "argerr"]
Vec(es) == [k |-> "vec", es |-> es]
BadKinds == {"np", "zerodiv", "argerr"}
IsBad(x) == x.k \in BadKinds
IsScalar(x) == x.k \in {"v", "fin"}
IsZero(x) == x.k = "v" /\ x.q[1] = 0

\* scalar (v / fin) arithmetic; exact part delegated to ExprEval
SBin(op, x, y) ==
  IF x.k = "v" /\ y.k = "v" THEN
     (IF op = "add" THEN EV!QAdd(x.q, y.q) ELSE IF op = "sub" THEN EV!QSub(x.q, y.q)
      ELSE IF op = "mul" THEN EV!QMul(x.q, y.q) ELSE IF op = "div" THEN EV!QDiv(x.q, y.q)
      ELSE EV!QPar(x.q, y.q))
  ELSE IF op = "mul" THEN (IF IsZero(x) \/ IsZero(y) THEN V0 ELSE FIN)
  ELSE IF op \in {"add", "sub"} THEN FIN
  ELSE IF op = "div" THEN (IF y.k = "fin" THEN NPV ELSE IF IsZero(y) THEN ZDV ELSE FIN)
  ELSE NPV
FirstBad(es) == LET bad == {i \in 1..Len(es) : IsBad(es[i])} IN
                IF bad = {} THEN V0 ELSE es[CHOOSE i \in bad : \A j \in bad : i <= j]
MkVec(es) == IF \E i \in 1..Len(es) : IsBad(es[i]) THEN FirstBad(es)
             ELSE IF \E i \in 1..Len(es) : ~IsScalar(es[i]) THEN NPV       \* matrices: no prediction
             ELSE Vec(es)
Bin(op, x, y) ==
  IF IsBad(x) THEN x ELSE IF IsBad(y) THEN y
  ELSE IF IsScalar(x) /\ IsScalar(y) THEN SBin(op, x, y)
  ELSE IF x.k = "vec" /\ y.k = "vec" THEN
     (IF op \in {"add", "sub"} /\ Len(x.es) = Len(y.es)
      THEN MkVec([i \in 1..Len(x.es) |-> SBin(op, x.es[i], y.es[i])]) ELSE NPV)
  ELSE IF x.k = "vec" /\ op \in {"mul", "div"} THEN MkVec([i \in 1..Len(x.es) |-> SBin(op, x.es[i], y)])
  ELSE IF y.k = "vec" /\ op = "mul" THEN MkVec([i \in 1..Len(y.es) |-> SBin(op, x, y.es[i])])
  ELSE NPV
Pow(x, y, neg) ==
  IF IsBad(x) THEN x ELSE IF IsBad(y) THEN y
  ELSE IF x.k = "vec" \/ y.k = "vec" THEN NPV
  ELSE IF x.k = "v" /\ y.k = "v" THEN EV!QPow(x.q, IF neg THEN <<-y.q[1], y.q[2]>> ELSE y.q)
  ELSE IF IsZero(y) THEN V1                                              \* anything finite ^ 0 = 1
  ELSE IF x.k = "fin" /\ y.k = "v" /\ ~neg /\ y.q[2] = 1 /\ y.q[1] > 0 THEN FIN
  ELSE NPV
Neg(x) == IF IsBad(x) THEN x ELSE IF x.k = "v" THEN EV!QNeg(x.q) ELSE IF x.k = "fin" THEN FIN
          ELSE MkVec([i \in 1..Len(x.es) |-> IF x.es[i].k = "v" THEN EV!QNeg(x.es[i].q) ELSE FIN])

\* what the model knows about functions (defaults and the user functions the adapter registers)
FSem == ( "sin" :> "z0" @@ "sinh" :> "z0" @@ "arctan" :> "z0" @@ "tanh" :> "z0" @@ "tan" :> "z0np" @@ "arcsin" :> "z0np"
       @@ "cos" :> "o0" @@ "cosh" :> "o0" @@ "exp" :> "o0" @@ "abs" :> "abs" @@ "sqrt" :> "sqrt"
       @@ "f" :> "succ" @@ "g" :> "g" @@ "h" :> "sq" )
ArityOf(nm) == IF nm = "g" THEN 2 ELSE 1
IsSquare(n) == \E r \in 0..180 : r * r = n
Root(n) == CHOOSE r \in 0..180 : r * r = n
FApply(nm, args) ==
  IF Len(args) # ArityOf(nm) THEN AEV
  ELSE IF \E i \in 1..Len(args) : ~IsScalar(args[i]) THEN NPV
  ELSE LET s == IF nm \in DOMAIN FSem THEN FSem[nm] ELSE "none"
           x == args[1] IN
       IF s = "z0" THEN (IF IsZero(x) THEN V0 ELSE FIN)
       ELSE IF s = "z0np" THEN (IF IsZero(x) THEN V0 ELSE NPV)
       ELSE IF s = "o0" THEN (IF IsZero(x) THEN V1 ELSE FIN)
       ELSE IF s = "abs" THEN (IF x.k = "v" THEN EV!V(<<EV!Abs(x.q[1]), x.q[2]>>) ELSE FIN)
       ELSE IF s = "sqrt" THEN (IF x.k = "v" /\ x.q[1] >= 0 /\ x.q[1] <= 30000 /\ IsSquare(x.q[1]) /\ IsSquare(x.q[2])
                                THEN EV!V(<<Root(x.q[1]), Root(x.q[2])>>)
                                ELSE IF x.k = "v" /\ x.q[1] > 0 THEN FIN ELSE NPV)
       ELSE IF s = "succ" THEN (IF x.k = "v" THEN EV!QAdd(x.q, <<1, 1>>) ELSE FIN)
       ELSE IF s = "sq" THEN (IF x.k = "v" THEN EV!QMul(x.q, x.q) ELSE FIN)
       ELSE IF s = "g" THEN (IF x.k = "v" /\ args[2].k = "v"
                             THEN LET m == EV!QMul(<<2, 1>>, args[2].q) IN
                                  IF m.k = "v" THEN EV!QSub(x.q, m.q) ELSE NPV
                             ELSE FIN)
       ELSE NPV

\* env: function from variable name to value (every variable of the tree must be in its domain)
RECURSIVE Ev(_, _), EvSeq(_, _, _, _)
EvSeq(sq, env, i, acc) == IF i > Len(sq) THEN acc ELSE EvSeq(sq, env, i + 1, Append(acc, Ev(sq[i], env)))
Ev(t, env) ==
  IF t.t = "num" THEN (IF t.v = <<0, 0>> THEN NPV
                       ELSE IF t.suf = "" THEN EV!V(t.v)
                       ELSE IF t.suf \in DOMAIN SuffixVal THEN EV!QMul(t.v, SuffixVal[t.suf])
                       ELSE IF t.v[1] = 0 THEN V0 ELSE FIN)
  ELSE IF t.t = "var" THEN env[t.n]
  ELSE IF t.t = "arr" THEN MkVec(EvSeq(t.elems, env, 1, <<>>))
  ELSE IF t.t = "call" THEN
       LET as == EvSeq(t.args, env, 1, <<>>) IN
       IF \E i \in 1..Len(as) : IsBad(as[i]) THEN FirstBad(as) ELSE FApply(t.n, as)
  ELSE IF t.t = "neg" THEN Neg(Ev(t.a, env))
  ELSE IF t.t = "pow" THEN Pow(Ev(t.a, env), Ev(t.b, env), t.neg)
  ELSE Bin(t.t, Ev(t.a, env), Ev(t.b, env))

(* value of a name in the author's scope.  A variable with a DEPENDENT sampling set (cfg.deps: set of [s |-> name,
   box |-> its formula]) has the value of its formula, which may mention other dependent variables (chains) and
   sibling variables: this is the second route, next to the answers themselves, by which a sibling input reaches a
   grader.  Instances of a numbered variable take the value of their head. *)
DepOf(cfg, nm) == {h \in cfg.deps : h.s = nm}
RECURSIVE NameValueF(_, _, _, _)
NameValueF(cfg, nm, chars, fuel) ==
  LET ds == DepOf(cfg, nm) IN
  IF ds # {} THEN
     (IF fuel = 0 THEN NPV
      ELSE LET bx == (CHOOSE h \in ds : TRUE).box
               p == Parse(TokensOf(bx)) IN
           IF p.c # "tree" THEN NPV
           ELSE Ev(p.t, [n \in UVars(p.t) |-> NameValueF(cfg, n, CharsOfName(<<bx>>, n), fuel - 1)]))
  ELSE IF nm \in DOMAIN cfg.val THEN cfg.val[nm]
  ELSE LET hs == HeadOf(cfg, chars) IN
       IF hs # {} THEN cfg.val[(CHOOSE h \in hs : TRUE).s] ELSE NPV
NameValue(cfg, nm, chars) == NameValueF(cfg, nm, chars, 4)
\* the sibling inputs a configuration reaches, through its answers or through (chains of) dependent sampling sets
NamesInBox(bx) == {bx[i].tok.s : i \in {j \in 1..Len(bx) : bx[j].tok.k = "name"}}
SiblingsReached(cfg) ==
  cfg.sibs \cap (UNION {NamesInBox(h.box) : h \in cfg.deps}
               \cup UNION {UNION {NamesInBox(cfg.answers[i].boxes[b]) : b \in 1..Len(cfg.answers[i].boxes)} : i \in 1..Len(cfg.answers)})
EnvOf(cfg, boxes, ps) ==
  LET names == UNION {UVars(ps[b].t) : b \in 1..Len(ps)} IN
  [nm \in names |-> NameValue(cfg, nm, CharsOfName(boxes, nm))]

\* sum of the summand over lo..hi (limits exchanged when lo > hi, as the documentation says)
RECURSIVE SumFrom(_, _, _, _, _)
SumFrom(t, env, dummy, i, hi) ==
  IF i > hi THEN V0
  ELSE Bin("add", Ev(t, [nm \in DOMAIN env \cup {dummy} |-> IF nm = dummy THEN EV!V(<<i, 1>>) ELSE env[nm]]),
           SumFrom(t, env, dummy, i + 1, hi))
IsInt(x) == x.k = "v" /\ x.q[2] = 1
ValueOf(cfg, boxes, ps) ==
  LET env == EnvOf(cfg, boxes, ps) IN
  IF cfg.kind # "sum" THEN Ev(ps[1].t, env)
  ELSE LET lo == Ev(ps[1].t, env) hi == Ev(ps[2].t, env) IN
       IF IsBad(lo) THEN lo ELSE IF IsBad(hi) THEN hi
       ELSE IF ~IsInt(lo) \/ ~IsInt(hi) THEN NPV
       ELSE IF EV!Abs(lo.q[1]) > 12 \/ EV!Abs(hi.q[1]) > 12 THEN NPV
       ELSE LET a == IF lo.q[1] <= hi.q[1] THEN lo.q[1] ELSE hi.q[1]
                b == IF lo.q[1] <= hi.q[1] THEN hi.q[1] ELSE lo.q[1] IN
            SumFrom(ps[3].t, env, cfg.dummy, a, b)

(* A summation has three boxes and the limits are looked at first: when both limits are in scope but are not (known to
   be) integers, the summation is refused as such before an undefined name in the summand is noticed.  Either
   student-facing refusal satisfies the statement. *)
SumLimitsDoubtful(cfg, boxes, ps) ==
  /\ cfg.kind = "sum"
  /\ ~BoxOutOfScope(cfg, boxes, ps, 1) /\ ~BoxOutOfScope(cfg, boxes, ps, 2)
  /\ LET env == EnvOf(cfg, boxes, ps) lo == Ev(ps[1].t, env) hi == Ev(ps[2].t, env) IN ~(IsInt(lo) /\ IsInt(hi))

(* equality of two exact values with a guard band: "yes" / "no" / "unknown".  Different exact values count as
   different only when they are at least 1e-3 apart relative to the answer (every tolerance used is far smaller). *)
SmallQ(q) == EV!Abs(q[1]) <= 1000 /\ q[2] <= 1000
QEq(a, b) ==
  IF a = b THEN "yes"
  ELSE IF ~SmallQ(a) \/ ~SmallQ(b) THEN "unknown"
  ELSE LET d == EV!Abs(a[1] * b[2] - b[1] * a[2])        \* |a - b| = d / (a2 b2);  |b| = |b1| / b2
       IN IF d * 1000 >= EV!Abs(b[1]) * a[2] /\ d * 1000 >= a[2] * b[2] THEN "no" ELSE "unknown"
SEq(x, y) == IF x.k = "v" /\ y.k = "v" THEN QEq(x.q, y.q) ELSE "unknown"
\* fraction of equal entries: [eq, n] or "unknown" / "shape"
Compare(x, y) ==                                  \* x student, y author
  IF IsBad(x) THEN [r |-> IF x.k = "np" THEN "unknown" ELSE "error"]
  ELSE IF IsBad(y) THEN [r |-> "unknown"]
  ELSE IF IsScalar(x) /\ IsScalar(y) THEN [r |-> SEq(x, y)]
  ELSE IF x.k = "vec" /\ y.k = "vec" /\ Len(x.es) = Len(y.es) THEN
     LET rs == [i \in 1..Len(x.es) |-> SEq(x.es[i], y.es[i])] IN
     IF \E i \in 1..Len(rs) : rs[i] = "unknown" THEN [r |-> "unknown"]
     ELSE IF \A i \in 1..Len(rs) : rs[i] = "yes" THEN [r |-> "yes"]
     ELSE IF \A i \in 1..Len(rs) : rs[i] = "no" THEN [r |-> "no"]
     ELSE [r |-> "some"]
  ELSE [r |-> "shape"]

(* Worth of a submission against the author's answers (a sequence of [boxes, g] with g = "full" or "half"):
   "full" / "partial" / "none" / "unknown" / "error" (student-facing evaluation error or shape mismatch). *)
WorthOne(cfg, x, ans) ==
  LET aps == ParseAll(ans.boxes)
      y == IF AllTrees(aps) /\ BadVars(cfg, ans.boxes, aps, FALSE) = {} /\ BadFuncs(cfg, aps) = {}
           THEN ValueOf(cfg, ans.boxes, aps) ELSE NPV
      r == Compare(x, y).r IN
  IF r = "yes" THEN ans.g
  ELSE IF r = "some" THEN (IF cfg.entryPartial THEN "half" ELSE "no")
  ELSE r                                      \* "no" / "unknown" / "error" / "shape"
Worth(cfg, boxes, ps) ==
  LET x == ValueOf(cfg, boxes, ps)
      ws == {WorthOne(cfg, x, cfg.answers[i]) : i \in 1..Len(cfg.answers)} IN
  IF "full" \in ws THEN "full"
  ELSE IF "error" \in ws \/ "shape" \in ws THEN "error"
  ELSE IF "unknown" \in ws THEN "unknown"
  ELSE IF "half" \in ws THEN "partial"
  ELSE "none"

\* ---------------------------------------------------------------- the property
ErrFamily == {"invalid", "undefvar", "undeffunc", "student"}     \* student-facing refusals
UndefFamily == {"undefvar", "undeffunc"}
Graded == {"credit", "partial", "zero"}

(* Everything the property looks at, computed once per (configuration, submission):
     trees   every box parses           oos      some name is outside the student's scope
     bv bf bs  the offending variables / functions / suffixes
     fh up mr  forbidden string present / functions used but not permitted / required functions not used
     w       what the submission is worth ("n/a" when it cannot be evaluated in the student's scope)
     doubt   summation limits that are refused as such before the summand is looked at *)
Facts(cfg, boxes) ==
  LET ps == ParseAll(boxes) IN
  IF ~AllTrees(ps) THEN [trees |-> FALSE]
  ELSE LET bv == BadVars(cfg, boxes, ps, TRUE) bf == BadFuncs(cfg, ps) bs == BadSufs(cfg, ps)
           oos == bv # {} \/ bf # {} \/ bs # {} IN
       [trees |-> TRUE, oos |-> oos, bv |-> bv, bf |-> bf, bs |-> bs,
        fh |-> ForbiddenHit(boxes, cfg.forbidden), up |-> Unpermitted(cfg, ps), mr |-> MissingRequired(cfg, ps),
        w |-> IF oos THEN "n/a" ELSE Worth(cfg, boxes, ps),
        doubt |-> oos /\ SumLimitsDoubtful(cfg, boxes, ps)]
RestrictedF(F) == F.fh \/ F.up # {} \/ F.mr # {}

(* MustReject: the submission may not be graded at all (first disjunct: names outside the student's scope, whatever
   their value) or may not be graded with credit (restricted construct in a formula that would earn credit). *)
MustRejectF(F) == F.trees /\ (F.oos \/ (RestrictedF(F) /\ F.w \in {"full", "partial"}))
MustReject(cfg, boxes) == MustRejectF(Facts(cfg, boxes))

(* Allowed outcome classes, exactly as loose as the statement:
   - unparsable                      -> a student-facing error
   - a name out of scope             -> rejected as undefined (either class), credit-worthy or not (a summation
                                        whose limits are not integers may be refused for that reason first)
   - restricted and worth credit     -> a student-facing error
   - restricted, worth nothing/unknown -> anything but credit
   - unrestricted                    -> the grade the answers assign (the author's answers are exempt: they are
                                        evaluated in the author's scope and never checked against the restrictions) *)
OutcomeF(F) ==
  IF ~F.trees THEN [allowed |-> {"student"}, fine |-> "student", why |-> "unparsable"]
  ELSE IF F.oos THEN
     [allowed |-> UndefFamily \cup (IF F.doubt THEN {"student"} ELSE {}),
      fine |-> IF F.bv # {} THEN "undefvar" ELSE "undeffunc",
      why |-> IF F.bv # {} THEN "variable-out-of-scope" ELSE IF F.bf # {} THEN "function-undefined" ELSE "suffix-undefined"]
  ELSE LET w == F.w
           why == IF F.fh THEN "forbidden-string" ELSE IF F.mr # {} THEN "required-function-missing"
                  ELSE IF F.up # {} THEN "function-not-permitted" ELSE "unrestricted" IN
       IF RestrictedF(F) THEN
          (IF w \in {"full", "partial"} THEN [allowed |-> ErrFamily, fine |-> "invalid", why |-> why]
           ELSE IF w = "none" THEN [allowed |-> ErrFamily \cup {"zero"}, fine |-> "zero", why |-> why]
           ELSE [allowed |-> ErrFamily \cup {"zero"}, fine |-> "any", why |-> why])
       ELSE
          (IF w = "full" THEN [allowed |-> {"credit"}, fine |-> "credit", why |-> why]
           ELSE IF w = "partial" THEN [allowed |-> {"partial"}, fine |-> "partial", why |-> why]
           ELSE IF w = "none" THEN [allowed |-> {"zero"}, fine |-> "zero", why |-> why]
           ELSE IF w = "error" THEN [allowed |-> ErrFamily \cup {"zero"}, fine |-> "any", why |-> why]
           ELSE [allowed |-> ErrFamily \cup Graded, fine |-> "any", why |-> why])
Outcome(cfg, boxes) == OutcomeF(Facts(cfg, boxes))

\* ---------------------------------------------------------------- laws about the specification itself
(* Laws are stated over the facts of a case so that a model instance can evaluate all of them from one computation. *)
\* the central law: what must be rejected is never graded and is always answered by the student-facing error family
LawRejectFamilyF(F) ==
  MustRejectF(F) => (OutcomeF(F).allowed \subseteq ErrFamily /\ OutcomeF(F).allowed \cap Graded = {})
\* a restricted construct never yields credit, whatever the formula is worth
LawRestrictedNoCreditF(F) ==
  (F.trees /\ (F.oos \/ RestrictedF(F))) => OutcomeF(F).allowed \cap {"credit", "partial"} = {}
\* names out of scope are rejected as undefined even if the formula is wrong anyway
LawScopeUnconditionalF(F) ==
  (F.trees /\ F.oos) => /\ OutcomeF(F).allowed \cap Graded = {}
                        /\ ~F.doubt => OutcomeF(F).allowed \subseteq UndefFamily
\* permitted set: algebra of the three configuration styles
LawPermitted(cfg) ==
  LET p == PermittedOf(cfg) IN
  /\ cfg.userFuncs \subseteq p
  /\ p \subseteq cfg.defaultFuncs \cup cfg.userFuncs \cup cfg.white
  /\ cfg.wmode = "off" => (p \cap cfg.black = {} /\ cfg.defaultFuncs \ cfg.black \subseteq p)
  /\ cfg.wmode = "list" => (p \cap cfg.defaultFuncs) = ((cfg.white \cap cfg.defaultFuncs) \cup (cfg.userFuncs \cap cfg.defaultFuncs))
  /\ cfg.wmode = "nofuncs" => p = cfg.userFuncs
\* blanks never change anything: the facts of a submission equal the facts of the same submission without blanks
Unblank(boxes) == [b \in 1..Len(boxes) |-> SelectSeq(boxes[b], LAMBDA lx : ~IsWs(lx))]
HasBlanks(boxes) == \E b \in 1..Len(boxes) : \E i \in 1..Len(boxes[b]) : IsWs(boxes[b][i])
LawBlanksIrrelevantF(cfg, boxes, F) == HasBlanks(boxes) => Facts(cfg, Unblank(boxes)) = F
\* the author is exempt: every answer has a value in the author's scope, whatever it uses
LawAuthorExempt(cfg) ==
  \A i \in 1..Len(cfg.answers) :
     LET ab == cfg.answers[i].boxes aps == ParseAll(ab) IN
     /\ AllTrees(aps)
     /\ BadVars(cfg, ab, aps, FALSE) = {} /\ BadFuncs(cfg, aps) = {}
     /\ ~IsBad(ValueOf(cfg, ab, aps))
\* no sibling input is in the student's scope, by whichever route (answer, dependent sampling set, chain) it is reached
LawSiblingsHidden(cfg) ==
  \A nm \in cfg.sibs : \A where \in {"main", "limit", "summand"} : ~InScopeVar(cfg, nm, <<>>, where)
(* restrictions only ever remove credit: with every restriction taken out of the configuration the same submission
   has the same scope and worth, is not restricted, and is graded as the answers say *)
Open(cfg) == [cfg EXCEPT !.wmode = "off", !.white = {}, !.black = {}, !.required = {}, !.forbidden = {}]
LawOnlyRestrictionsRefuseF(cfg, boxes, F) ==
  (F.trees /\ ~F.oos) =>
     LET G == Facts(Open(cfg), boxes) o == OutcomeF(G) IN
     /\ ~RestrictedF(G) /\ G.w = F.w /\ ~G.oos
     /\ F.w = "full" => o.allowed = {"credit"}
     /\ F.w = "partial" => o.allowed = {"partial"}
=============================================================================
