----------------------------- MODULE ParserCache -----------------------------
(* The shared expression parser as a state machine (C10): a cache keyed by the space-stripped string, three scratch
   sets filled by grammar callbacks while a string is being parsed, a `finally` block that empties them.
   One action per block of MathParser.parse / raw_parse / evaluator.  The reference ("what a freshly constructed
   parser would answer") is ExprEval!Outcome on the token string, which does not depend on any history.

   Strings are token-id sequences (alphabet of MC below); two strings that differ only in spaces share a cache key.
   While the grammar runs, callbacks record names also along alternatives that fail later; for strings that end up
   rejected the model lets the callbacks record ANY subset of the names occurring in the string. *)
EXTENDS ExprEval
CONSTANTS Strings,          \* set of string ids
          Text,             \* function: string id -> [ids (token ids), key (cache key: id of the space-stripped text)]
          TokOf,            \* token id -> token record
          MaxCalls,
          ResetInFinally    \* TRUE = the code as written; FALSE = the model mutant used as a vacuity guard

VARIABLES cache,            \* function: key -> usage record handed over to the cached expression
          scratch,          \* names recorded by the callbacks: [vars, funcs, sufs]
          phase,            \* "idle" | "raw" | "grammar" | "finally"
          cur,              \* the call in progress: [s, op]
          last,             \* outcome of the last completed call
          hist              \* completed calls: sequence of [s, op]
vars == <<cache, scratch, phase, cur, last, hist>>

Toks(s) == [i \in 1..Len(Text[s].ids) |-> TokOf[Text[s].ids[i]]]
Empty == [vars |-> {}, funcs |-> {}, sufs |-> {}]
NamesIn(s) == {Toks(s)[i].s : i \in {j \in 1..Len(Toks(s)) : Toks(s)[j].k \in {"name", "pct"}}}
PureParse(s) == Parse(Toks(s))
PureUsage(s) == Usage(PureParse(s).t)
\* what a fresh parser answers: parse -> usage or rejection class; eval -> full outcome
Pure(s, op) == LET p == PureParse(s) IN
               IF p.c # "tree" THEN [c |-> p.c]
               ELSE IF op = "parse" THEN [c |-> "parsed"] @@ PureUsage(s)
               ELSE Outcome(Toks(s))
\* outcome computed from a cached / handed-over usage record instead of the pure one
FromUsage(s, op, us) == IF op = "parse" THEN [c |-> "parsed"] @@ us
                        ELSE IF us.vars \ DOMAIN VarVal # {} THEN [c |-> "undefvar"] @@ us
                        ELSE IF us.funcs \ DOMAIN FuncArity # {} THEN [c |-> "undeffunc"] @@ us
                        ELSE IF us.sufs \ DOMAIN SufVal # {} THEN [c |-> "undefsuf"] @@ us
                        ELSE LET o == Outcome(Toks(s)) IN
                             [c |-> o.c] @@ (IF o.c = "value" THEN [q |-> o.q] ELSE <<>>) @@ us
Merge(a, b) == [vars |-> a.vars \cup b.vars, funcs |-> a.funcs \cup b.funcs, sufs |-> a.sufs \cup b.sufs]

Init == /\ cache = <<>> /\ scratch = Empty /\ phase = "idle" /\ cur = [s |-> "none", op |-> "none"]
        /\ last = [c |-> "none"] /\ hist = <<>>

\* parse(): cache hit
Hit(s, op) == /\ phase = "idle" /\ Len(hist) < MaxCalls
              /\ Text[s].key \in DOMAIN cache
              /\ last' = FromUsage(s, op, cache[Text[s].key])
              /\ hist' = Append(hist, [s |-> s, op |-> op])
              /\ UNCHANGED <<cache, scratch, phase, cur>>
\* parse(): miss -> raw_parse
BeginMiss(s, op) == /\ phase = "idle" /\ Len(hist) < MaxCalls
                    /\ Text[s].key \notin DOMAIN cache
                    /\ phase' = "raw" /\ cur' = [s |-> s, op |-> op]
                    /\ UNCHANGED <<cache, scratch, last, hist>>
\* BracketValidator.validate raises
BracketFail == /\ phase = "raw" /\ PureParse(cur.s).c = "unbalanced"
               /\ last' = [c |-> "unbalanced"] /\ phase' = "finally"
               /\ UNCHANGED <<cache, scratch, cur, hist>>
\* grammar.parseString: callbacks fill the scratch sets (on top of whatever is already there)
\* (written with nested quantifiers: TLC 1.8 evaluates {e : v, f \in SUBSET {}} to the empty set)
GrammarRun == /\ phase = "raw" /\ PureParse(cur.s).c # "unbalanced"
              /\ IF PureParse(cur.s).c = "tree"
                 THEN scratch' = Merge(scratch, PureUsage(cur.s))
                 ELSE \E v \in SUBSET NamesIn(cur.s) : \E f \in SUBSET NamesIn(cur.s) :
                        scratch' = Merge(scratch, [vars |-> v, funcs |-> f, sufs |-> {}])
              /\ phase' = "grammar"
              /\ UNCHANGED <<cache, cur, last, hist>>
\* ParseException -> UnableToParse
GrammarFail == /\ phase = "grammar" /\ PureParse(cur.s).c = "parse"
               /\ last' = [c |-> "parse"] /\ phase' = "finally"
               /\ UNCHANGED <<cache, scratch, cur, hist>>
\* MathExpression(..., self.variables_used, ...) receives the scratch sets as they are; the result is cached
HandOver == /\ phase = "grammar" /\ PureParse(cur.s).c = "tree"
            /\ cache' = (Text[cur.s].key :> scratch) @@ cache
            /\ last' = FromUsage(cur.s, cur.op, scratch)
            /\ phase' = "finally"
            /\ UNCHANGED <<scratch, cur, hist>>
\* finally: reset_storage()
Finally == /\ phase = "finally"
           /\ scratch' = IF ResetInFinally THEN Empty ELSE scratch
           /\ hist' = Append(hist, cur)
           /\ phase' = "idle"
           /\ UNCHANGED <<cache, cur, last>>

Next == \/ \E s \in Strings, op \in {"parse", "eval"} : Hit(s, op) \/ BeginMiss(s, op)
        \/ BracketFail \/ GrammarRun \/ GrammarFail \/ HandOver \/ Finally
Spec == Init /\ [][Next]_vars /\ WF_vars(BracketFail \/ GrammarRun \/ GrammarFail \/ HandOver \/ Finally)

\* ---------------------------------------------------------------- properties
Idle == phase = "idle"
HistoryIndependent == (Idle /\ hist # <<>>) => LET h == hist[Len(hist)] IN last = Pure(h.s, h.op)
ScratchEmpty == Idle => scratch = Empty
CacheSound == \A k \in DOMAIN cache : \A s \in Strings : Text[s].key = k => cache[k] = PureUsage(s)
CacheOnlyAccepted == \A k \in DOMAIN cache : \E s \in Strings : Text[s].key = k /\ PureParse(s).c = "tree"
EveryCallEnds == [](phase # "idle" => <>(phase = "idle"))
=============================================================================
