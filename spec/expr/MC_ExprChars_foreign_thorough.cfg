INIT Init
NEXT Next
CONSTANTS
  MaxLen = 5
  Which = "foreign"
  VarVal <- MCVarVal
  FuncArity <- MCFuncArity
  SufVal <- MCSufVal
INVARIANT LawOuterWS
INVARIANT LawUnbalancedFirst
INVARIANT LawForeignRejected
