---------------------------- MODULE MC_ExprTokens ----------------------------
(* E1 of C03 / C10: every token string up to MaxLen over a 20-token alphabet, with the outcome the grammar and
   the exact evaluator assign (class, exact value, usage sets), plus laws about the specification itself:
   the canonical fully parenthesised form of every accepted string parses back to the same tree. *)
EXTENDS ExprEval
CONSTANTS MaxLen
ASSUME MaxLen >= 2

\* token ids (what the dump carries) -> token records
TokOf == [ n2 |-> Num(2, 1), n3 |-> Num(3, 1), x |-> Name("x", TRUE), y |-> Name("x_1", FALSE), u |-> Name("u", TRUE),
           k |-> Name("k", TRUE), f |-> Name("f", TRUE), g |-> Name("g", TRUE), pct |-> Pct,
           lp |-> Op("("), rp |-> Op(")"), lb |-> Op("["), rb |-> Op("]"), cm |-> Op(","),
           pl |-> Op("+"), mi |-> Op("-"), ti |-> Op("*"), dv |-> Op("/"), pw |-> Op("^"), br |-> Op("|") ]
Ids == DOMAIN TokOf
Toks(ids) == [i \in 1..Len(ids) |-> TokOf[ids[i]]]

MCVarVal == ("x" :> <<5, 1>> @@ "x_1" :> <<7, 1>>)
MCFuncArity == ("f" :> 1 @@ "g" :> 2)
MCSufVal == ("k" :> <<1000, 1>> @@ "%" :> <<1, 100>>)
\* the empty scope ("names resolve ... to the SUPPLIED variables, constants and functions": when nothing is supplied,
\* nothing resolves -- the adapter spells the names as the library's own defaults: pi, e, i, sqrt, arctan2, %)
MCNoVars == [n \in {} |-> <<0, 1>>]
MCNoFuncs == [n \in {} |-> 0]
MCNoSufs == [n \in {} |-> <<0, 1>>]

RECURSIVE SeqsOfLen(_)
SeqsOfLen(n) == IF n = 0 THEN {<<>>} ELSE {Append(s, a) : s \in SeqsOfLen(n - 1), a \in Ids}
UpTo(n) == UNION {SeqsOfLen(j) : j \in 0..n}

VARIABLES c, out
\* seeds: every two-token prefix (and one seed for the strings shorter than two tokens)
Init == /\ c \in {[kind |-> "seed", pre |-> p] : p \in SeqsOfLen(2)} \cup {[kind |-> "short", pre |-> <<>>]}
        /\ out = [c |-> "seed"]
Next == \/ /\ c.kind = "seed"
           /\ \E rest \in UpTo(MaxLen - 2) :
                /\ c' = [kind |-> "case", ids |-> c.pre \o rest]
                /\ out' = Outcome(Toks(c.pre \o rest))
        \/ /\ c.kind = "short"
           /\ \E s \in SeqsOfLen(1) :
                /\ c' = [kind |-> "case", ids |-> s]
                /\ out' = Outcome(Toks(s))
IsCase == c.kind = "case"

\* ---- laws about the specification
Tree == Parse(Toks(c.ids))
LawCanonRoundTrip == (IsCase /\ Tree.c = "tree") => Parse(Canon(Tree.t)) = Tree
LawCanonSameOutcome == (IsCase /\ Tree.c = "tree") => Outcome(Canon(Tree.t)) = out
\* wrapping a whole accepted string in parentheses changes nothing
LawParenTransparent == (IsCase /\ Tree.c = "tree") =>
   Outcome(<<Op("(")>> \o Toks(c.ids) \o <<Op(")")>>) = out
\* a leading "+" is transparent exactly for strings that do not themselves start with a sign
LawLeadingPlus == (IsCase /\ Tree.c = "tree" /\ ~OpIn(TokOf[c.ids[1]], {"+", "-"})) =>
   Outcome(<<Op("+")>> \o Toks(c.ids)) = out
\* usage sets are consistent with the token string: every reported name occurs in it
LawUsageFromTokens == (IsCase /\ Tree.c = "tree") =>
   LET names == {TokOf[c.ids[i]].s : i \in 1..Len(c.ids)} IN
   UVars(Tree.t) \cup UFuncs(Tree.t) \cup USufs(Tree.t) \subseteq names
\* functions and variables are never confused: a name is a function iff it is directly followed by "("
LawFuncIffParen == (IsCase /\ Tree.c = "tree") =>
   \A i \in 1..Len(c.ids) : LET t == TokOf[c.ids[i]] IN
      (t.k = "name" /\ ~(i > 1 /\ IsNum(TokOf[c.ids[i - 1]]) /\ t.a)) =>
         IF i < Len(c.ids) /\ IsStr(TokOf[c.ids[i + 1]], "(") THEN t.s \in UFuncs(Tree.t) ELSE t.s \in UVars(Tree.t)
=============================================================================
