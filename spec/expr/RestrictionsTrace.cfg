INIT TInit
NEXT TNext
