SPECIFICATION Spec
CONSTANTS
  MaxLen = 7
INVARIANT OkIffBalanced
INVARIANT MarksAreBrackets
INVARIANT MarksNonEmptyOnError
INVARIANT StackIsPrefixOpeners
PROPERTY Terminates
