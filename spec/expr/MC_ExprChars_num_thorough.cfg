INIT Init
NEXT Next
CONSTANTS
  MaxLen = 6
  Which = "num"
  VarVal <- MCVarVal
  FuncArity <- MCFuncArity
  SufVal <- MCSufVal
INVARIANT LawOuterWS
INVARIANT LawUnbalancedFirst
