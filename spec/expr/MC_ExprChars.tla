---------------------------- MODULE MC_ExprChars ----------------------------
(* E3 of C03 / C10: every character string up to MaxLen over three alphabets that exercise the lexer: number formats
   and suffixes ("num"), names with subscripts, tensor indices and primes ("name"), and characters the formula language
   does not have ("foreign": FD a digit of another script, FL a letter of another script, FS a symbol; the adapter renders
   each as one of several real characters.  White-space characters other than space / tab / line break are left out:
   the statement does not say whether they are white space or foreign, and the library strips them at both ends). *)
EXTENDS ExprLexer
CONSTANTS MaxLen, Which
MCVarVal == ("x" :> <<5, 1>> @@ "x1" :> <<7, 1>> @@ "x_1" :> <<11, 1>> @@ "x'" :> <<13, 1>> @@ "x_{1}" :> <<17, 1>>
             @@ "x^{1}" :> <<19, 1>> @@ "x_{1}^{1}" :> <<23, 1>> @@ "e" :> <<3, 1>> @@ "x_{-1}" :> <<29, 1>> @@ "xx" :> <<31, 1>>
             @@ "x_" :> <<37, 1>> @@ "x11" :> <<41, 1>> @@ "x''" :> <<43, 1>> @@ "x1'" :> <<47, 1>>)
MCFuncArity == ("f" :> 1 @@ "g" :> 2)
MCSufVal == ("k" :> <<1000, 1>> @@ "%" :> <<1, 100>>)
Foreign == {"FD", "FL", "FS"}
Alphabet == IF Which = "num" THEN {"1", "2", ".", "e", "E", "+", "-", "k", "%", "x"}
            ELSE IF Which = "name" THEN {"x", "1", "_", "{", "}", "^", "-", "'", "+", "TAB"}
            ELSE {"1", "x", "+", "(", ")", "TAB"} \cup Foreign
RECURSIVE SeqsOfLen(_)
SeqsOfLen(n) == IF n = 0 THEN {<<>>} ELSE {Append(s, a) : s \in SeqsOfLen(n - 1), a \in Alphabet}
UpTo(n) == UNION {SeqsOfLen(j) : j \in 0..n}
VARIABLES c, out
Init == /\ c \in {[kind |-> "seed", pre |-> p] : p \in SeqsOfLen(2)} \cup {[kind |-> "short", pre |-> <<>>]}
        /\ out = [c |-> "seed"]
Next == \/ /\ c.kind = "seed"
           /\ \E rest \in UpTo(MaxLen - 2) :
                /\ c' = [kind |-> "case", chars |-> c.pre \o rest]
                /\ out' = OutcomeC(c.pre \o rest)
        \/ /\ c.kind = "short"
           /\ \E s \in UpTo(1) :
                /\ c' = [kind |-> "case", chars |-> s]
                /\ out' = OutcomeC(s)
IsCase == c.kind = "case"
\* laws: inserting whitespace between two tokens of an accepted string changes nothing when done at a token boundary:
\* checked in the simplest form -- leading and trailing whitespace is transparent
LawOuterWS == IsCase => OutcomeC(<<"TAB">> \o c.chars \o <<"TAB">>) = out
\* a string is rejected as unbalanced iff its brackets do not match, whatever else it contains
\* "foreign characters ... are rejected with a parse error rather than given some value"
LawForeignRejected == IsCase /\ (\E i \in 1..Len(c.chars) : c.chars[i] \in Foreign) => out.c \in {"parse", "unbalanced"}
LawUnbalancedFirst == IsCase /\ ~IsBlank(c.chars) => ((out.c = "unbalanced") <=> ~BalS(BracketsOf(c.chars), 1, <<>>))
=============================================================================
