------------------------------ MODULE ExprTrace ------------------------------
(* Code -> spec binding for C03 and C10: each record is one real evaluator() call on a (long, randomly derived or
   randomly corrupted) token string, with the observed class, value and usage sets.  The record is accepted iff the
   observation is what ExprEval!Outcome allows.  Clauses: "class" (accept/reject/undefined/evaluation error),
   "value" (exact rational value), "usage" (the three name sets). *)
EXTENDS ExprEval, Json, IOUtils
Trace == ndJsonDeserialize(IOEnv.TRACE_FILE)
VARIABLE l
TVarVal == ("x" :> <<5, 1>> @@ "x_1" :> <<7, 1>> @@ "y'" :> <<-3, 1>> @@ "T_{1}^{2}" :> <<1, 2>> @@ "sin" :> <<11, 1>>)
TFuncArity == ("f" :> 1 @@ "g" :> 2 @@ "x" :> 1)
TSufVal == ("k" :> <<1000, 1>> @@ "%" :> <<1, 100>> @@ "m" :> <<1, 1000>>)

ToTok(j) == Tok(j.k, j.s, <<j.q[1], j.q[2]>>, j.a)
Toks(r) == [i \in 1..Len(r.toks) |-> ToTok(r.toks[i])]
SetOf(sq) == {sq[i] : i \in 1..Len(sq)}
ObsCoarse(c) == IF c \in {"unbalanced", "parse"} THEN "rejected"
                ELSE IF c \in {"undefvar", "undeffunc", "undefsuf"} THEN "undefined"
                ELSE IF c \in {"zerodiv", "argerr", "overflow", "calcerr"} THEN "evalerror"
                ELSE c
Clause(r) ==
  LET o == Outcome(Toks(r)) IN
  IF o.c = "nopred" THEN (IF ObsCoarse(r.obs.c) = "undefined" \/ r.obs.c = "unbalanced" \/ (r.obs.c = "parse" /\ ~o.arr) THEN "class"
                          ELSE IF r.obs.c = "value" /\ (SetOf(r.obs.vars) # o.vars \/ SetOf(r.obs.funcs) # o.funcs
                                                        \/ SetOf(r.obs.sufs) # o.sufs) THEN "usage"
                          ELSE "ok")
  ELSE IF Coarse(o.c) # ObsCoarse(r.obs.c) THEN "class"
  ELSE IF o.c # "value" THEN "ok"
  ELSE IF ~(r.obs.exact /\ <<r.obs.q[1], r.obs.q[2]>> = o.q) THEN "value"
  ELSE IF SetOf(r.obs.vars) # o.vars \/ SetOf(r.obs.funcs) # o.funcs \/ SetOf(r.obs.sufs) # o.sufs THEN "usage"
  ELSE "ok"
Verdict(i) == LET r == Trace[i] cl == Clause(r) IN IF cl = "ok" THEN TRUE ELSE PrintT(<<"REJECT", r.id, cl>>)
TInit == l = 0
TNext == /\ l < Len(Trace)
         /\ l' = l + 1
         /\ Verdict(l + 1)
         /\ (l + 1 = Len(Trace)) => PrintT(<<"DONE", Len(Trace)>>)
=============================================================================
