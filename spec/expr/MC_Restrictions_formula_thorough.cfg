INIT Init
NEXT Next
CONSTANTS
  Part = "formula"
  MaxDims = 1
  Rich = TRUE
INVARIANT LawMust
INVARIANT LawNoCredit
INVARIANT LawScope
INVARIANT LawPerm
INVARIANT LawBlanks
INVARIANT LawExempt
INVARIANT LawOnlyRestr
INVARIANT LawOutDomain
INVARIANT LawNeutral
INVARIANT LawControl
INVARIANT LawRoute
INVARIANT LawSiblings
