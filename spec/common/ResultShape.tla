----------------------------- MODULE ResultShape -----------------------------
(* Property-level specification of what a grader call may RETURN to edX (C01).  Written from the property
   statement and the edX customresponse contract, not from the code.

   An item result is a record
       [ok    : "true" | "false" | "partial" (anything else is not an ok value),
        g     : exact rational <<n, d>>  (Rat.tla)            -- grade_decimal
        m     : set of marker tokens occurring in the message  -- msg, abstracted (DESIGN 2.5)
        text  : BOOLEAN                                        -- msg is a text string
        keys  : set of dictionary keys present
        pos   : index of the input box this entry grades (ghost field, 0 = not applicable)]
   a list result is  [keys, overall (marker set), otext (BOOLEAN), items (sequence of item results)].

   The ok/grade agreement is phrased on the CLASS of the grade (zero / one / mid / out), so that the same
   operator judges exact rationals (model) and facts observed on Python floats (trace records). *)
EXTENDS Naturals, Integers, Sequences, FiniteSets, Rat

OkValues == {"true", "false", "partial"}
ItemKeys == {"ok", "grade_decimal", "msg"}
ListKeys == {"overall_message", "input_list"}
GradeClasses == {"zero", "one", "mid", "out"}

ClassOf(g) == IF IsZero(g) THEN "zero"
              ELSE IF Eq(g, One) THEN "one"
              ELSE IF Lt(Zero, g) /\ Lt(g, One) THEN "mid"
              ELSE "out"
OkOfClass(c) == IF c = "zero" THEN "false" ELSE IF c = "one" THEN "true" ELSE "partial"
GradeToOk(g) == OkOfClass(ClassOf(g))

(* The heart of the property: key set, range, text message, ok/grade agreement.  `pinned` is the set of ok values
   the author pinned explicitly on answers worth full credit (the documentation: 'ok' is "ignored if grade_decimal
   is not 1"); such a value may stand in place of the computed one on an entry that carries the full grade. *)
WellFormedFacts(ok, cls, isText, keys, pinned) ==
  /\ keys = ItemKeys
  /\ cls \in {"zero", "one", "mid"}
  /\ isText
  /\ ok \in OkValues
  /\ \/ ok = OkOfClass(cls)
     \/ cls = "one" /\ ok \in pinned

\* which clause fails first (for verdict texts); "" when well formed
ItemDefect(ok, cls, isText, keys, pinned) ==
  IF keys # ItemKeys THEN "keys"
  ELSE IF cls \notin {"zero", "one", "mid"} THEN "grade-range"
  ELSE IF ~isText THEN "msg-not-text"
  ELSE IF ok \notin OkValues THEN "ok-value"
  ELSE IF ok = OkOfClass(cls) \/ (cls = "one" /\ ok \in pinned) THEN ""
  ELSE IF ok = "partial" /\ cls = "zero" THEN "partial-ok-with-zero-grade"
  ELSE "ok-grade-mismatch"

WellFormedItem(r, pinned) == WellFormedFacts(r.ok, ClassOf(r.g), r.text, r.keys, pinned)

(* several inputs: overall_message plus input_list, one entry per submitted input, in input order *)
WellFormedList(res, nInputs, pinned) ==
  /\ res.keys = ListKeys
  /\ res.otext
  /\ Len(res.items) = nInputs
  /\ \A i \in 1..Len(res.items) : WellFormedItem(res.items[i], pinned) /\ res.items[i].pos \in {0, i}

IsListForm(res) == "items" \in DOMAIN res

\* form: "item" one text input; "list" several inputs; "sum" several inputs to a summation grader, which answers
\* in the single-dictionary form (interpretation fixed in DESIGN C01; the list form is accepted as well)
WellFormed(res, form, nInputs, pinned) ==
  IF form = "item" THEN ~IsListForm(res) /\ WellFormedItem(res, pinned)
  ELSE IF form = "list" THEN IsListForm(res) /\ WellFormedList(res, nInputs, pinned)
  ELSE IF IsListForm(res) THEN WellFormedList(res, nInputs, pinned) ELSE WellFormedItem(res, pinned)

\* why a result is not well formed (first failing clause, for verdict texts); "" when it is well formed
DefectOfItem(r, pinned) == ItemDefect(r.ok, ClassOf(r.g), r.text, r.keys, pinned)
DefectOfList(r, nInputs, pinned) ==
  IF r.keys # ListKeys THEN "list-keys"
  ELSE IF ~r.otext THEN "overall-not-text"
  ELSE IF Len(r.items) # nInputs THEN "entry-count"
  ELSE LET bad == {i \in 1..Len(r.items) : DefectOfItem(r.items[i], pinned) # ""}
       IN IF bad # {} THEN DefectOfItem(r.items[CHOOSE i \in bad : \A j \in bad : i <= j], pinned)
          ELSE IF \E i \in 1..Len(r.items) : r.items[i].pos \notin {0, i} THEN "entry-order"
          ELSE ""
Defect(res, form, nInputs, pinned) ==
  IF form = "item" THEN (IF IsListForm(res) THEN "form" ELSE DefectOfItem(res, pinned))
  ELSE IF form = "list" THEN (IF IsListForm(res) THEN DefectOfList(res, nInputs, pinned) ELSE "form")
  ELSE IF IsListForm(res) THEN DefectOfList(res, nInputs, pinned) ELSE DefectOfItem(res, pinned)

AllMarkers(res) == IF IsListForm(res) THEN res.overall \cup UNION {res.items[i].m : i \in 1..Len(res.items)}
                   ELSE res.m

(* Debugging output appears only when the grader was configured with debug=True.  DebugTokens is the set of marker
   tokens that stand for debugging output (banner, version, sampled values, stored answers ...). *)
NoDebugLeak(res, debug, DebugTokens) == debug \/ (AllMarkers(res) \cap DebugTokens = {})

\* projection onto what edX consumes
StripItem(r) == [r EXCEPT !.keys = r.keys \cap ItemKeys]

(* ---- laws about the property-level operators themselves (checked by TLC in MC_ResultPipeline) *)
LawOkTotal(g) == GradeToOk(g) \in OkValues
LawOkExact(g) == /\ (GradeToOk(g) = "true") <=> Eq(g, One)
                 /\ (GradeToOk(g) = "false") <=> IsZero(g)
LawDefectAgrees(ok, cls, t, k, p) == (ItemDefect(ok, cls, t, k, p) = "") <=> WellFormedFacts(ok, cls, t, k, p)
LawDefectIffIllFormed(res, form, n, p) == (Defect(res, form, n, p) = "") <=> WellFormed(res, form, n, p)
LawPinnedOnlyAtOne(ok, cls, p) == WellFormedFacts(ok, cls, TRUE, ItemKeys, p) /\ cls # "one" => ok = OkOfClass(cls)
=============================================================================
