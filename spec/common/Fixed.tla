------------------------------- MODULE Fixed -------------------------------
(* 1e-4 fixed point for credit values: a credit c in [0, 1] is the integer c * Unit in 0..10000.
   Rounding a non-negative quotient p / q to the nearest integer, ties to even ("round half even", what rounding
   a decimal to 4 places means in exact arithmetic).  Because binary floating point resolves exact decimal ties
   either way (1/160 = 0.00625 is stored slightly above the tie), RoundCands returns BOTH neighbours at a tie:
   it is the set of results a correct "rounded to 4 decimals" computation may deliver.

   Second half: exact natural numbers of any size as little-endian sequences of base-10000 limbs (TLC integers are
   32 bit), just enough to raise a two-decimal factor to the 199th power and round the result exactly. *)
EXTENDS Integers, Sequences, SequencesExt

Unit == 10000
Unit2 == 100000000                                         \* Unit * Unit: unit of a product of two fixed-point values

\* ---- rounding of p / q, p >= 0, q > 0, p < 2^31
FloorDiv(p, q) == p \div q
IsTie(p, q) == 2 * (p % q) = q
RoundHalfEven(p, q) == LET f == p \div q
                           r == p % q
                       IN IF 2 * r < q THEN f ELSE IF 2 * r > q THEN f + 1 ELSE IF f % 2 = 0 THEN f ELSE f + 1
RoundCands(p, q) == IF IsTie(p, q) THEN {p \div q, (p \div q) + 1} ELSE {RoundHalfEven(p, q)}
\* is v a nearest integer to p / q ?   (2 |v q - p| <= q)
IsNearest(v, p, q) == LET d == v * q - p IN 2 * (IF d < 0 THEN -d ELSE d) <= q

\* ---- big naturals, base 10000, least significant limb first, <<>> is zero, no leading zero limbs
LimbBase == 10000
BigOne == <<1>>
\* multiply by a small factor 0 <= a <= 10000 (limb * a + carry < 10^8 + 10^4)
BigMulSmall(d, a) ==
    IF a = 0 THEN <<>> ELSE
    LET step(acc, limb) == LET t == limb * a + acc.carry IN [digits |-> Append(acc.digits, t % LimbBase), carry |-> t \div LimbBase]
        r == FoldLeft(step, [digits |-> <<>>, carry |-> 0], d)
    IN IF r.carry = 0 THEN r.digits ELSE Append(r.digits, r.carry)
\* a^e by e successive multiplications (a fold, not a recursion: TLC's evaluation stack is shallow)
BigPowSmall(a, e) == FoldLeft(LAMBDA acc, i : BigMulSmall(acc, a), BigOne, [i \in 1..e |-> i])
Limb(d, i) == IF i >= 1 /\ i <= Len(d) THEN d[i] ELSE 0
\* value of the limbs above position k (must fit 32 bit: two limbs; callers guarantee the quotient is below 2^31)
BigHigh(d, k) == Limb(d, k + 1) + LimbBase * Limb(d, k + 2)
BigLowAllZero(d, k) == \A i \in 1..k : Limb(d, i) = 0            \* limbs 1..k
\* d / LimbBase^k rounded: the set of admissible results (both neighbours at an exact tie) and the half-even one
BigFracCmpHalf(d, k) ==     \* -1, 0, 1 : fraction below, equal to, above one half
    IF k = 0 THEN -1
    ELSE LET t == Limb(d, k) IN
         IF t > LimbBase \div 2 THEN 1 ELSE IF t < LimbBase \div 2 THEN -1 ELSE IF BigLowAllZero(d, k - 1) THEN 0 ELSE 1
BigRoundCands(d, k) == LET f == BigHigh(d, k)
                           s == BigFracCmpHalf(d, k)
                       IN IF s < 0 THEN {f} ELSE IF s > 0 THEN {f + 1} ELSE {f, f + 1}
BigRoundHalfEven(d, k) == LET f == BigHigh(d, k)
                              s == BigFracCmpHalf(d, k)
                          IN IF s < 0 THEN f ELSE IF s > 0 THEN f + 1 ELSE IF f % 2 = 0 THEN f ELSE f + 1

\* (a/100)^e * Unit as (big numerator, number of fractional limbs):  a^e / 100^(e-2);  100^(e-2) = LimbBase^((e-2)/2) for
\* even e and  a^e * 100 / LimbBase^((e-1)/2) for odd e   (e >= 2)
PowScaled(pow, e) == IF e % 2 = 0 THEN [d |-> pow, k |-> (e - 2) \div 2]
                     ELSE [d |-> BigMulSmall(pow, 100), k |-> (e - 1) \div 2]
=============================================================================
