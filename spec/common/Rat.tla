-------------------------------- MODULE Rat --------------------------------
(* Exact rational arithmetic for specifications: a rational is a normalised pair <<n, d>> with d > 0 and
   gcd(|n|, d) = 1.  TLC integers are 32-bit: models keep numerators and denominators small by construction. *)
EXTENDS Integers, Sequences

RECURSIVE GCD(_, _)
GCD(a, b) == IF b = 0 THEN a ELSE GCD(b, a % b)
Abs(x) == IF x < 0 THEN -x ELSE x

Norm(n, d) == LET s == IF d < 0 THEN -1 ELSE 1
                  g == GCD(Abs(n), Abs(d))
              IN IF n = 0 THEN <<0, 1>> ELSE <<(s * n) \div g, (s * d) \div g>>
Q(n, d) == Norm(n, d)
FromInt(n) == <<n, 1>>
Zero == <<0, 1>>
One == <<1, 1>>

Add(a, b) == Norm(a[1] * b[2] + b[1] * a[2], a[2] * b[2])
Neg(a) == <<-a[1], a[2]>>
Sub(a, b) == Add(a, Neg(b))
Mul(a, b) == Norm(a[1] * b[1], a[2] * b[2])
Inv(a) == Norm(a[2], a[1])                       \* a # 0
Div(a, b) == Mul(a, Inv(b))                      \* b # 0
IsZero(a) == a[1] = 0
Lt(a, b) == a[1] * b[2] < b[1] * a[2]
Leq(a, b) == a[1] * b[2] <= b[1] * a[2]
Eq(a, b) == a[1] * b[2] = b[1] * a[2]
RAbs(a) == <<Abs(a[1]), a[2]>>
RMax(a, b) == IF Leq(a, b) THEN b ELSE a
RMin(a, b) == IF Leq(a, b) THEN a ELSE b

RECURSIVE IPow(_, _), SumSeq(_), MaxSeq(_)
IPow(a, k) == IF k = 0 THEN One ELSE IF k < 0 THEN Inv(IPow(a, -k)) ELSE Mul(a, IPow(a, k - 1))
SumSeq(s) == IF s = <<>> THEN Zero ELSE Add(Head(s), SumSeq(Tail(s)))
MaxSeq(s) == IF Len(s) = 1 THEN s[1] ELSE RMax(Head(s), MaxSeq(Tail(s)))     \* s non-empty

\* floor of a rational, as an integer
Floor(a) == IF a[1] >= 0 THEN a[1] \div a[2] ELSE -((-a[1] + a[2] - 1) \div a[2])
=============================================================================
