------------------------------- MODULE Text -------------------------------
(* Text as sequences of one-symbol strings ("a", "SP", "TAB", ...).  TLC strings are atomic, so every
   grader-facing string operation the specifications need is defined here over symbol sequences. *)
EXTENDS Naturals, Sequences

RECURSIVE MapSym(_, _), ReplacePair(_, _, _, _), DropWhileIn(_, _), RemoveAll(_, _), Collapse(_, _),
          SplitOn(_, _, _, _), AllSeqsUpTo(_, _)

\* apply a symbol -> symbol function F (a TLA+ function whose domain may be partial) to every symbol
MapSym(s, F) == IF s = <<>> THEN <<>>
                ELSE <<IF Head(s) \in DOMAIN F THEN F[Head(s)] ELSE Head(s)>> \o MapSym(Tail(s), F)

\* Python's s.replace(a+b, y): leftmost, non-overlapping
ReplacePair(s, a, b, y) ==
  IF Len(s) < 2 THEN s
  ELSE IF s[1] = a /\ s[2] = b THEN <<y>> \o ReplacePair(SubSeq(s, 3, Len(s)), a, b, y)
  ELSE <<s[1]>> \o ReplacePair(Tail(s), a, b, y)

DropWhileIn(s, W) == IF s # <<>> /\ Head(s) \in W THEN DropWhileIn(Tail(s), W) ELSE s
Reverse(s) == [i \in 1..Len(s) |-> s[Len(s) + 1 - i]]
StripEnds(s, W) == Reverse(DropWhileIn(Reverse(DropWhileIn(s, W)), W))

RemoveAll(s, x) == IF s = <<>> THEN <<>>
                   ELSE IF Head(s) = x THEN RemoveAll(Tail(s), x) ELSE <<Head(s)>> \o RemoveAll(Tail(s), x)

\* runs of x collapse to a single x
Collapse(s, x) == IF Len(s) < 2 THEN s
                  ELSE IF s[1] = x /\ s[2] = x THEN Collapse(Tail(s), x)
                  ELSE <<s[1]>> \o Collapse(Tail(s), x)

\* number of maximal runs of symbols outside W (Python's len(s.split()))
WordCount(s, W) == LET n == Len(s) IN
  IF n = 0 THEN 0
  ELSE LET starts == {i \in 1..n : s[i] \notin W /\ (i = 1 \/ s[i - 1] \in W)} IN
       IF starts = {} THEN 0 ELSE LET F[k \in 0..n] == IF k = 0 THEN 0 ELSE F[k - 1] + (IF k \in starts THEN 1 ELSE 0) IN F[n]

\* split on a single delimiter symbol (Python's s.split(d)); acc = pieces so far, cur = current piece
SplitOn(s, d, acc, cur) ==
  IF s = <<>> THEN Append(acc, cur)
  ELSE IF Head(s) = d THEN SplitOn(Tail(s), d, Append(acc, cur), <<>>)
  ELSE SplitOn(Tail(s), d, acc, Append(cur, Head(s)))
Split(s, d) == SplitOn(s, d, <<>>, <<>>)

IsPrefixOf(p, s) == Len(p) <= Len(s) /\ SubSeq(s, 1, Len(p)) = p
Contains(s, p) == \E i \in 1..(Len(s) - Len(p) + 1) : SubSeq(s, i, i + Len(p) - 1) = p

\* all sequences over alphabet A of length <= n
AllSeqsUpTo(A, n) == IF n = 0 THEN {<<>>}
                     ELSE LET prev == AllSeqsUpTo(A, n - 1) IN
                          prev \cup {Append(s, a) : s \in {t \in prev : Len(t) = n - 1}, a \in A}
=============================================================================
