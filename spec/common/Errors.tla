------------------------------- MODULE Errors -------------------------------
(* The exception classes a grader call can meet, as data.

   Tree       the library's own family: class |-> direct base class, rooted at MITxError (whose base is Exception).
              Written from mitxgraders/exceptions.py, helpers/calc/exceptions.py and formulagrader/integralgrader.py;
              the first record of every C02 trace is the tree introspected from the running code and is compared
              with this constant by the trace specification (ErrorChannelTrace!TreeVerdict).
   Outsiders  exception classes that are NOT in the family but do occur inside graders: Python built-ins raised by
              numpy / pyparsing / user functions, the voluptuous validation errors, and the two library classes that
              deliberately do not derive from MITxError (the solver's UnsolvableMatrix, the sampler's Retry).
   IsA(c, d)  c is d or a (transitive) subclass of d.                                                            *)
EXTENDS Naturals, Sequences, FiniteSets, TLC

Tree ==
     "MITxError"             :> "Exception"
  @@ "ConfigError"           :> "MITxError"
  @@ "StudentFacingError"    :> "MITxError"
  @@ "InvalidInput"          :> "StudentFacingError"
  @@ "InputTypeError"        :> "InvalidInput"
  @@ "MissingInput"          :> "StudentFacingError"
  @@ "IntegrationError"      :> "StudentFacingError"
  @@ "SummationError"        :> "StudentFacingError"
  @@ "CalcError"             :> "StudentFacingError"
  @@ "UndefinedVariable"     :> "CalcError"
  @@ "UndefinedFunction"     :> "CalcError"
  @@ "UnbalancedBrackets"    :> "CalcError"
  @@ "CalcZeroDivisionError" :> "CalcError"
  @@ "CalcOverflowError"     :> "CalcError"
  @@ "FunctionEvalError"     :> "CalcError"
  @@ "UnableToParse"         :> "CalcError"
  @@ "DomainError"           :> "CalcError"
  @@ "ArgumentError"         :> "DomainError"
  @@ "ArgumentShapeError"    :> "DomainError"
  @@ "MathArrayError"        :> "CalcError"
  @@ "MathArrayShapeError"   :> "MathArrayError"

\* the outsiders with their (single-inheritance) chains up to Exception
OutsiderTree ==
     "ArithmeticError"   :> "Exception"
  @@ "LookupError"       :> "Exception"
  @@ "RuntimeError"      :> "Exception"
  @@ "ValueError"        :> "Exception"
  @@ "TypeError"         :> "Exception"
  @@ "AttributeError"    :> "Exception"
  @@ "AssertionError"    :> "Exception"
  @@ "KeyError"          :> "LookupError"
  @@ "IndexError"        :> "LookupError"
  @@ "ZeroDivisionError" :> "ArithmeticError"
  @@ "OverflowError"     :> "ArithmeticError"
  @@ "RecursionError"    :> "RuntimeError"
  @@ "Error"             :> "Exception"          \* voluptuous.Error
  @@ "Invalid"           :> "Error"              \* voluptuous.Invalid
  @@ "MultipleInvalid"   :> "Invalid"            \* voluptuous.MultipleInvalid
  @@ "UnsolvableMatrix"  :> "Exception"          \* mitxgraders.helpers.munkres
  @@ "Retry"             :> "Exception"          \* mitxgraders.matrixsampling

Outsiders == {"ValueError", "TypeError", "KeyError", "IndexError", "AttributeError", "ZeroDivisionError",
              "OverflowError", "RecursionError", "AssertionError", "Invalid", "MultipleInvalid",
              "UnsolvableMatrix", "Retry"}

Parent == Tree @@ OutsiderTree
Known == DOMAIN Parent

RECURSIVE IsA(_, _)
IsA(c, d) == \/ c = d
             \/ c \in Known /\ IsA(Parent[c], d)

RECURSIVE Mro(_)
\* method resolution order without the trailing BaseException/object: <<c, base, ..., "Exception">>
Mro(c) == IF c \in Known THEN <<c>> \o Mro(Parent[c]) ELSE <<c>>

Range(s) == {s[i] : i \in DOMAIN s}

MITxFamily    == {c \in Known : IsA(c, "MITxError")}
StudentFacing == {c \in Known : IsA(c, "StudentFacingError")}
ConfigFamily  == {c \in Known : IsA(c, "ConfigError")}
CalcFamily    == {c \in Known : IsA(c, "CalcError")}
AllClasses    == MITxFamily \cup Outsiders

\* family membership read off an MRO (works for classes this module has never heard of)
MroInFamily(mro) == "MITxError" \in Range(mro)
MroStudentFacing(mro) == "StudentFacingError" \in Range(mro)

(* ---- laws about the data itself (ASSUMEs are evaluated by TLC whenever a model extending this module is run) *)
ASSUME FamilyIsTree == MITxFamily = DOMAIN Tree                       \* every class of Tree reaches the root
ASSUME OutsidersOutside == Outsiders \cap MITxFamily = {} /\ Outsiders \subseteq Known
ASSUME OutsiderChainsOutside == \A c \in DOMAIN OutsiderTree : ~IsA(c, "MITxError")
ASSUME TwoBranches == /\ StudentFacing \cap ConfigFamily = {}
                      /\ StudentFacing \cup ConfigFamily \cup {"MITxError"} = MITxFamily
ASSUME DisjointNames == DOMAIN Tree \cap DOMAIN OutsiderTree = {}
ASSUME MroEndsInException == \A c \in Known : Mro(c)[Len(Mro(c))] = "Exception" /\ Mro(c)[1] = c
ASSUME IsAMatchesMro == \A c \in Known, d \in Known : IsA(c, d) <=> d \in Range(Mro(c))
=============================================================================
