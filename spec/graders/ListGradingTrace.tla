-------------------------- MODULE ListGradingTrace --------------------------
(* Code -> spec binding for C05.  Every record (kind = "layout") is one real ListGrader call on a generated layout:
     tree    the layout (ListGrading part 3): flags, group maps, the credit of every leaf cell (exact rationals;
             table-driven cells come from the generated table, cells graded by other real graders from a direct call),
             and for unordered nodes with more than EnumLimit groups an LP-duality certificate per answer list
     obs     per input box, what the grader reported: path (which answer list / answer slot / ... / alternative the
             entry's marker message names), inp (which input the marker names), g (credit), ok
     direct  for an ordered top-level grader: what the subgraders return when called directly on (answer i, input i)
   A record is accepted iff obs is a member of the allowed set of ListGrading: entries sit at the box of the input they
   grade, come from one answer list through a one-to-one assignment of maximal total (n! enumeration up to EnumLimit
   groups, certificate above), a best answer list was chosen, credits are the cell credits, partial_credit = False
   zeroes everything unless perfect, ordered graders report exactly the direct results. *)
EXTENDS ListGrading, Json, IOUtils
Trace == ndJsonDeserialize(IOEnv.TRACE_FILE)
VARIABLE l
Rec(i) == Trace[i]

DirectFinished(d, pc) == IF pc \/ \A p \in 1..Len(d) : d[p].ok = "true" THEN d
                         ELSE [p \in 1..Len(d) |-> [d[p] EXCEPT !.g = Zero, !.ok = "false"]]
Clause(r) ==
  IF ~ValidTree(r.tree) THEN "layout"                                    \* machinery: the adapter built a bad record
  ELSE IF ~CertsOK(r.tree) THEN "cert"                                   \* machinery: certificate does not check
  ELSE IF Len(r.obs) # NPos(r.tree) THEN "length"
  ELSE IF \E p \in 1..Len(r.obs) : r.obs[p].inp # p THEN "position"
  ELSE LET e == Eval(r.tree, [p \in 1..Len(r.obs) |-> r.obs[p].path])
       IN IF e.why # "" THEN e.why
          ELSE IF \E p \in 1..Len(r.obs) : r.obs[p].g # e.res[p] THEN "grade"
          ELSE IF \E p \in 1..Len(r.obs) : r.obs[p].ok # OkOf(e.res[p]) THEN "ok"
          ELSE IF r.tree.ordered /\ Len(r.direct) > 0 /\ DirectFinished(r.direct, r.tree.pc) # r.obs THEN "direct"
          ELSE ""
(* Compact records (kind = "flat") for the dense stream aimed at the matching core: one flat ListGrader call,
     den, M      credit tensor M[a][i][j] in units of 1/den          ordered, pc   flags
     cert        per answer list [u, v, sigma] with potentials in units (read only for more than EnumLimit inputs)
     obs         per box <<a, j, units, ok, inp>>: answer list and answer named by the entry's marker, reported credit
                 in units (-1 when it is not a multiple of 1/den), ok, and the input the marker names
   They are judged by the same operators as the layout records: the tensor becomes FlatTree(M, cfg). *)
FlatRecTree(r) ==
  LET M == TLCEval([a \in 1..Len(r.M) |-> TLCEval([i \in 1..Len(r.M[a]) |-> TLCEval([j \in 1..Len(r.M[a][i]) |-> Q(r.M[a][i][j], r.den)])])])
      RatSeq(s) == [k \in 1..Len(s) |-> Q(s[k], r.den)]
      cert == [a \in 1..Len(r.cert) |-> [u |-> RatSeq(r.cert[a].u), v |-> RatSeq(r.cert[a].v), sigma |-> r.cert[a].sigma]]
  IN [FlatTree(M, [ordered |-> r.ordered, pc |-> r.pc]) EXCEPT !.cert = cert]
FlatClause(r) ==
  LET t == FlatRecTree(r)
      n == Len(r.obs)
  IN IF ~ValidTree(t) THEN "layout"
     ELSE IF ~CertsOK(t) THEN "cert"
     ELSE IF n # NPos(t) THEN "length"
     ELSE IF \E p \in 1..n : r.obs[p][5] # p THEN "position"
     ELSE LET e == Eval(t, [p \in 1..n |-> <<r.obs[p][1], r.obs[p][2], 1>>])
          IN IF e.why # "" THEN e.why
             ELSE IF \E p \in 1..n : r.obs[p][3] < 0 \/ Q(r.obs[p][3], r.den) # e.res[p] THEN "grade"
             ELSE IF \E p \in 1..n : r.obs[p][4] # OkOf(e.res[p]) THEN "ok"
             ELSE ""
Verdict(i) == LET r == Rec(i)  w == IF r.kind = "flat" THEN FlatClause(r) ELSE Clause(r)
              IN IF w = "" THEN TRUE ELSE PrintT(<<"REJECT", r.id, w>>)
Init == l = 0
Next == /\ l < Len(Trace)
        /\ l' = l + 1
        /\ Verdict(l + 1)
        /\ (l + 1 = Len(Trace)) => PrintT(<<"DONE", Len(Trace)>>)
=============================================================================
