-------------------------- MODULE ListGradingTrace --------------------------
(* Code -> spec binding for C05.  Every record is one real ListGrader call on a generated layout:
     tree    the layout (ListGrading part 3): flags, group maps, the credit of every leaf cell (exact rationals;
             table-driven cells come from the generated table, cells graded by other real graders from a direct call),
             and for unordered nodes with more than EnumLimit groups an LP-duality certificate per answer list
     obs     per input box, what the grader reported: path (which answer list / answer slot / ... / alternative the
             entry's marker message names), inp (which input the marker names), g (credit), ok
     direct  for an ordered top-level grader: what the subgraders return when called directly on (answer i, input i)
   A record is accepted iff obs is a member of the allowed set of ListGrading: entries sit at the box of the input they
   grade, come from one answer list through a one-to-one assignment of maximal total (n! enumeration up to EnumLimit
   groups, certificate above), a best answer list was chosen, credits are the cell credits, partial_credit = False
   zeroes everything unless perfect, ordered graders report exactly the direct results. *)
EXTENDS ListGrading, Json, IOUtils
Trace == ndJsonDeserialize(IOEnv.TRACE_FILE)
VARIABLE l
Rec(i) == Trace[i]

DirectFinished(d, pc) == IF pc \/ \A p \in 1..Len(d) : d[p].ok = "true" THEN d
                         ELSE [p \in 1..Len(d) |-> [d[p] EXCEPT !.g = Zero, !.ok = "false"]]
Clause(r) ==
  IF ~ValidTree(r.tree) THEN "layout"                                    \* machinery: the adapter built a bad record
  ELSE IF ~CertsOK(r.tree) THEN "cert"                                   \* machinery: certificate does not check
  ELSE IF Len(r.obs) # NPos(r.tree) THEN "length"
  ELSE IF \E p \in 1..Len(r.obs) : r.obs[p].inp # p THEN "position"
  ELSE LET e == Eval(r.tree, [p \in 1..Len(r.obs) |-> r.obs[p].path])
       IN IF e.why # "" THEN e.why
          ELSE IF \E p \in 1..Len(r.obs) : r.obs[p].g # e.res[p] THEN "grade"
          ELSE IF \E p \in 1..Len(r.obs) : r.obs[p].ok # OkOf(e.res[p]) THEN "ok"
          ELSE IF r.tree.ordered /\ Len(r.direct) > 0 /\ DirectFinished(r.direct, r.tree.pc) # r.obs THEN "direct"
          ELSE ""
Verdict(i) == LET r == Rec(i)  w == Clause(r) IN IF w = "" THEN TRUE ELSE PrintT(<<"REJECT", r.id, w>>)
Init == l = 0
Next == /\ l < Len(Trace)
        /\ l' = l + 1
        /\ Verdict(l + 1)
        /\ (l + 1 = Len(Trace)) => PrintT(<<"DONE", Len(Trace)>>)
=============================================================================
