--------------------------- MODULE SingleListTrace ---------------------------
(* Code -> spec binding for C07: every record is one real SingleListGrader call -- the problem (grader options,
   answers, credit table) in the generic form of SingleList.tla, the submitted text, the observation (raised /
   grade as an exact fraction the observed float is within 1e-12 of / ok class / answer message shown) and, for
   long unordered lists, LP-duality certificates of the optimal assignment (one per answer list) produced by the
   adapter.  A record is accepted iff the observation is one SingleList!OutcomeT allows.
   Clauses: must-raise, must-grade, crash, grade, ok, shown  (verdicts);  badcert, certmismatch  (machinery).   *)
EXTENDS SingleList, Json, IOUtils
Trace == ndJsonDeserialize(IOEnv.TRACE_FILE)
VARIABLE l

Clause(r) ==
  LET T == TabFun(r.P.tab)
      e == OutcomeT(r.P, T, r.text, r.certs)
      o == r.obs
      \* optional cross-check of the certificate path against brute force (small lists only)
      b == IF r.cross THEN OutcomeT(r.P, T, r.text, NoCert) ELSE e
  IN IF e.k = "raise" /\ e.why = "badcert" THEN <<"badcert", 0, 1>>
     ELSE IF r.cross /\ (b.k # e.k \/ b.g # e.g \/ ~(e.shown \subseteq b.shown)) THEN <<"certmismatch", b.g[1], b.g[2]>>
     ELSE IF e.k = "raise" THEN (IF o.raised = "student" THEN <<>> ELSE <<"must-raise", 0, 1>>)
     ELSE IF o.raised = "student" THEN (IF e.k = "either" THEN <<>> ELSE <<"must-grade", e.g[1], e.g[2]>>)
     ELSE IF o.raised # "none" THEN <<"crash", e.g[1], e.g[2]>>
     ELSE IF <<o.grade[1], o.grade[2]>> # e.g THEN <<"grade", e.g[1], e.g[2]>>
     ELSE IF o.ok # e.ok THEN <<"ok", e.g[1], e.g[2]>>
     ELSE IF o.shown \notin e.shown THEN <<"shown", e.g[1], e.g[2]>>
     ELSE <<>>
Verdict(i) == LET r == Trace[i]
                  cl == Clause(r)
              IN cl = <<>> \/ PrintT(<<"REJECT", r.id, cl>>)
Init == l = 0
Next == /\ l < Len(Trace)
        /\ l' = l + 1
        /\ Verdict(l + 1)
        /\ (l + 1 = Len(Trace)) => PrintT(<<"DONE", Len(Trace)>>)
=============================================================================
