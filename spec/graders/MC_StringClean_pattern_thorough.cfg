INIT Init
NEXT Next
CONSTANTS
  MaxLen = 4
  Part = "pattern"
INVARIANT LawIdempotent
INVARIANT LawKeepsInk
INVARIANT LawShape
INVARIANT LawOutcomeDomain
INVARIANT LawMatchSym
INVARIANT LawAcceptIffEqual
INVARIANT LawStripAllCoarser
