----------------------------- MODULE SumGrader -----------------------------
(* Property-level specification of SumGrader (C19): which submitted summations are graded correct, which are graded
   incorrect, and which calls end in a student-facing error or in a configuration error.

   Written from the documentation (docs/grading_math/sum_grader.md) and the property statement, not from the code:
   a summation is a mathematical object (limits, summand, bound variable); its value is the sum of the summand over
   the SET  Index(...)  of integers between the limits; two summations are Equal when their values agree within the
   tolerance at every sample of the problem's variables.

   Numbers are exact: rationals <<n, d>> (Rat.tla), Gaussian rationals <<re, im>>, vectors = sequences of Gaussians.
   Summands come from a family whose values are exactly computable: sums of terms
        coef * mult * base(n) * (a0 + a1 n + a2 n^2)
   with coef a Gaussian rational, mult one of 1 / the sampled variable x / the instructor-only variable c, and
   base(n) one of 1, (-1)^n, 2^-n, 2^n, 1/n!.  A submitted summand is a summand of the family re-indexed by
   n = sigma*m + shift, scaled and offset (this is how equivalent rewritings and perturbations are expressed). *)
EXTENDS Integers, Sequences, FiniteSets, TLC, Rat
LOCAL INSTANCE FiniteSetsExt

(* ------------------------------------------------------------------ exact arithmetic that stays inside 32 bits *)
QAdd(a, b) == LET g == GCD(a[2], b[2])
              IN Norm(a[1] * (b[2] \div g) + b[1] * (a[2] \div g), (a[2] \div g) * b[2])
QSub(a, b) == QAdd(a, Neg(b))
QMul(a, b) == IF a[1] = 0 \/ b[1] = 0 THEN Zero
              ELSE LET g1 == GCD(Abs(a[1]), b[2])
                       g2 == GCD(Abs(b[1]), a[2])
                   IN Norm((a[1] \div g1) * (b[1] \div g2), (a[2] \div g2) * (b[2] \div g1))
QInt(n) == <<n, 1>>
Pow2(k) == IF k >= 0 THEN <<2 ^ k, 1>> ELSE <<1, 2 ^ (-k)>>
RECURSIVE Factorial(_)
Factorial(n) == IF n <= 1 THEN 1 ELSE n * Factorial(n - 1)

\* sign of n1/d1 - n2/d2 for non-negative rationals, by continued fractions: never multiplies, cannot overflow
RECURSIVE CmpNN(_, _, _, _)
CmpNN(n1, d1, n2, d2) ==
  LET q1 == n1 \div d1   q2 == n2 \div d2   r1 == n1 % d1   r2 == n2 % d2
  IN IF q1 # q2 THEN (IF q1 < q2 THEN -1 ELSE 1)
     ELSE IF r1 = 0 /\ r2 = 0 THEN 0
     ELSE IF r1 = 0 THEN -1
     ELSE IF r2 = 0 THEN 1
     ELSE CmpNN(d2, r2, d1, r1)
NNLeq(a, b) == CmpNN(a[1], a[2], b[1], b[2]) <= 0
NNLt(a, b) == CmpNN(a[1], a[2], b[1], b[2]) < 0

\* Gaussian rationals and vectors of them
GZero == <<Zero, Zero>>
GOfInt(re, im) == <<QInt(re), QInt(im)>>
GAdd(g, h) == <<QAdd(g[1], h[1]), QAdd(g[2], h[2])>>
GSub(g, h) == <<QSub(g[1], h[1]), QSub(g[2], h[2])>>
GScale(q, g) == <<QMul(q, g[1]), QMul(q, g[2])>>
VZero(dim) == [i \in 1..dim |-> GZero]
VAdd(v, w) == [i \in 1..Len(v) |-> GAdd(v[i], w[i])]
VSub(v, w) == [i \in 1..Len(v) |-> GSub(v[i], w[i])]
VScale(q, v) == [i \in 1..Len(v) |-> GScale(q, v[i])]
VIsZero(v) == \A i \in 1..Len(v) : v[i] = GZero
\* the real parts |re|, |im| of all entries, as one sequence of non-negative rationals
RECURSIVE Parts(_)
Parts(v) == IF v = <<>> THEN <<>> ELSE <<RAbs(Head(v)[1]), RAbs(Head(v)[2])>> \o Parts(Tail(v))
RECURSIVE NNMaxSeq(_), QSumSeq(_)
NNMaxSeq(s) == IF Len(s) = 1 THEN s[1] ELSE LET m == NNMaxSeq(Tail(s)) IN IF NNLeq(s[1], m) THEN m ELSE s[1]
QSumSeq(s) == IF s = <<>> THEN Zero ELSE QAdd(Head(s), QSumSeq(Tail(s)))
NormInf(v) == NNMaxSeq(Parts(v))          \* max norm over real components  <= Euclidean norm
NormOne(v) == QSumSeq(Parts(v))           \* 1-norm over real components    >= Euclidean norm

(* ------------------------------------------------------------------ names that already have a meaning *)
KnownConstants == {"pi", "e", "i", "j", "infty"}
KnownFunctions == {"sin", "cos", "exp", "abs", "sqrt", "fact", "ln", "re"}
Fields == {"lower", "upper", "summand", "summation_variable"}
FieldOrder == <<"lower", "upper", "summand", "summation_variable">>

(* ------------------------------------------------------------------ summands
   term  [coef |-> <<re, im>>, mult |-> "one" | "x" | "c", base |-> "poly" | "alt" | "geo" | "geoinv" | "invfact",
          p |-> <<a0, a1, a2>>]
   body  [blank, comps |-> sequence (dimension 1 = scalar, 2 = vector) of sequences of terms,
          pole |-> [on, at]      the text also contains  0/(n - at) : undefined where n = at
          sigma, shift           the text is written in the index m with  n = sigma*m + shift
          scale (rational), add (Gaussian, added to every component),
          v |-> the name the text uses for its index,
          calls |-> sequence of function names the text also mentions, each through a factor equal to 1 (cos(0)*...) ] *)
PolyAt(p, n) == p[1] + p[2] * n + p[3] * n * n
BaseAt(b, n) == CASE b = "poly" -> One
                  [] b = "alt" -> (IF n % 2 = 0 THEN One ELSE <<-1, 1>>)
                  [] b = "geo" -> Pow2(-n)
                  [] b = "geoinv" -> Pow2(n)
                  [] b = "invfact" -> <<1, Factorial(n)>>
MultVal(m, env) == CASE m = "one" -> One [] m = "x" -> env.x [] m = "c" -> env.c
TermAt(t, n, env) == GScale(QMul(QMul(MultVal(t.mult, env), BaseAt(t.base, n)), QInt(PolyAt(t.p, n))), t.coef)
RECURSIVE CompAt(_, _, _)
CompAt(terms, n, env) == IF terms = <<>> THEN GZero ELSE GAdd(TermAt(Head(terms), n, env), CompAt(Tail(terms), n, env))
Inner(b, m) == b.sigma * m + b.shift
BodyAt(b, m, env) == [i \in 1..Len(b.comps) |-> GAdd(GScale(b.scale, CompAt(b.comps[i], Inner(b, m), env)), b.add)]

Terms(b) == UNION {{b.comps[i][j] : j \in 1..Len(b.comps[i])} : i \in 1..Len(b.comps)}
UsesIndex(b) == b.pole.on \/ \E t \in Terms(b) : t.base # "poly" \/ t.p[2] # 0 \/ t.p[3] # 0
UsesC(b) == \E t \in Terms(b) : t.mult = "c"
UsesFact(b) == \E t \in Terms(b) : t.base = "invfact"
Dim(b) == Len(b.comps)
SeqSet(q) == {q[i] : i \in 1..Len(q)}

(* ------------------------------------------------------------------ limits
   [k |-> "int" | "plusx" | "plusc" | "half" | "cplx" | "pinf" | "ninf" | "blank" | "qbelow" | "qabove", n |-> integer]
   int: n   plusx: n + x   plusc: n + c   half: n + 1/2   cplx: n + i   pinf/ninf: +-infty
   fn (with a third field f): the integer n written with a call of the function f (cos(0)+2, abs(-3), first(4)): its
   value is n wherever f is defined; the call counts as a use of f.
   qbelow / qabove: the integer n written as a quotient or product of decimal numbers that is not exact in binary
   floating point (0.3/0.1, 2.1/0.7, ...): mathematically the limit IS the integer n, numerically it lands a rounding
   error below / above n.  Two readings are allowed for such a limit, and only these: it is the integer n (exact
   reading), or it is refused as "not an integer" (strict reading, a floating-point artefact).  Taking it for a
   neighbouring integer is neither.
   creal: the integer n written so that it is computed in the complex numbers with an imaginary part that cancels exactly
   (i^2+2, 3+0*i, (1+i)*(1-i)+1, 3*i/i).  Mathematically the limit IS the integer n; the same two readings are allowed:
   it is the integer n, or it is refused as "complex" (strict reading, an artefact of the number type) -- with the
   error class the statement gives for a complex limit. *)
InexactKinds == {"qbelow", "qabove"}
ArtefactKinds == InexactKinds \cup {"creal"}
LimVal(l, env, role) ==
  CASE l.k = "int" -> [t |-> "int", v |-> l.n]
    [] l.k = "plusx" -> (LET q == QAdd(env.x, QInt(l.n)) IN IF q[2] = 1 THEN [t |-> "int", v |-> q[1]] ELSE [t |-> "nonint"])
    [] l.k = "plusc" -> (IF role = "student" THEN [t |-> "ivar"]
                         ELSE LET q == QAdd(env.c, QInt(l.n)) IN IF q[2] = 1 THEN [t |-> "int", v |-> q[1]] ELSE [t |-> "nonint"])
    [] l.k \in ArtefactKinds \cup {"fn"} -> [t |-> "int", v |-> l.n]
    [] l.k = "half" -> [t |-> "nonint"]
    [] l.k = "cplx" -> [t |-> "complex"]
    [] l.k = "pinf" -> [t |-> "pinf"]
    [] l.k = "ninf" -> [t |-> "ninf"]
    [] l.k = "blank" -> [t |-> "blank"]
IsRange(v) == v.t \in {"int", "pinf", "ninf"}
Finite(v, cut) == IF v.t = "pinf" THEN cut ELSE IF v.t = "ninf" THEN -cut ELSE v.v

\* THE index set: every integer between the two limits inclusive, in either order; an infinite limit stands for the
\* cutoff; evenOdd 1 keeps the odd ones, 2 the even ones
Between(a, b) == IF a <= b THEN a..b ELSE b..a
Parity(n, evenOdd) == evenOdd = 0 \/ (evenOdd = 1 /\ n % 2 = 1) \/ (evenOdd = 2 /\ n % 2 = 0)
Index(lo, hi, evenOdd, cut) == {n \in Between(Finite(lo, cut), Finite(hi, cut)) : Parity(n, evenOdd)}

SumOf(body, idx, env) == FoldSet(LAMBDA m, acc : VAdd(acc, BodyAt(body, m, env)), VZero(Dim(body)), idx)

(* ------------------------------------------------------------------ one summation, one sample
   sum  [lower, upper (limits), body, var (name, "" = blank)]
   cfg  [evenOdd, cut, cutFact, xs (samples of x), cval (value of c at every sample), vars, ivars, tol,
         userfuncs (names of author-defined functions), forbidden (functions a submission may not use: a blacklist, or
         the complement of a whitelist), required (functions a correct submission must use), listing (how forbidden is
         configured, "black" | "white") and debug (the grader's debug switch): the last two have no influence on the
         class of the outcome; removed (default constants the author deleted: they mean nothing any more),
         userconsts (constants the author defined, new names or default names given another value)]
   role "author" | "student": the instructor-only variables exist for the author only *)
HasInexact(sum) == sum.lower.k \in InexactKinds \/ sum.upper.k \in InexactKinds
HasComplexReal(sum) == sum.lower.k = "creal" \/ sum.upper.k = "creal"
Readings(sum) == IF HasInexact(sum) \/ HasComplexReal(sum) THEN {FALSE, TRUE} ELSE {FALSE}          \* strict?
\* the functions a summation uses: those called in its two limits and in its summand -- of THIS summation, nothing else
LimFuncs(l) == IF l.k = "fn" THEN {l.f} ELSE {}
UsedFuncs(sum) == LimFuncs(sum.lower) \cup LimFuncs(sum.upper)
                  \cup (IF sum.body.blank THEN {} ELSE SeqSet(sum.body.calls) \cup (IF UsesFact(sum.body) THEN {"fact"} ELSE {}))
DefinedFuncs(cfg) == KnownFunctions \cup cfg.userfuncs
\* a submission that may not be accepted as it stands, whatever its value
Restricted(stu, cfg) == UsedFuncs(stu) \cap (cfg.forbidden \ cfg.userfuncs) # {} \/ ~(cfg.required \subseteq UsedFuncs(stu))
CutFor(sum, cfg) == IF UsesFact(sum.body) THEN cfg.cutFact ELSE cfg.cut
IfSet(cond, name) == IF cond THEN {name} ELSE {}

\* the names that already mean something in the problem: the constants in force (defaults not removed, the author's own),
\* the functions (built in and author-defined), the sampled variables.  A removed default constant is a free name.
ConstantsInForce(cfg) == (KnownConstants \ cfg.removed) \cup cfg.userconsts
Meaningful(cfg) == ConstantsInForce(cfg) \cup KnownFunctions \cup cfg.userfuncs \cup cfg.vars
\* the text of the summation writes the imaginary unit (complex coefficient, complex or complex-typed limit)
AnyComplexCoef(ts) == ts # {} /\ \E t \in ts : t.coef[2] # Zero
MentionsImag(sum) == sum.lower.k \in {"cplx", "creal"} \/ sum.upper.k \in {"cplx", "creal"}
                     \/ (~sum.body.blank /\ (AnyComplexCoef(Terms(sum.body)) \/ sum.body.add[2] # Zero))
Faults(sum, cfg, env, role, strict) ==
  LET lo == LimVal(sum.lower, env, role)
      hi == LimVal(sum.upper, env, role)
      b == sum.body
      meaning == Meaningful(cfg) \cup (IF role = "author" THEN cfg.ivars ELSE {})
  IN IfSet(lo.t = "blank" \/ hi.t = "blank" \/ b.blank \/ sum.var = "", "blank")
     \cup IfSet(sum.var \in meaning, "variable_has_meaning")
     \cup IfSet(lo.t = "nonint" \/ hi.t = "nonint" \/ (strict /\ HasInexact(sum)), "noninteger_limit")
     \cup IfSet(lo.t = "complex" \/ hi.t = "complex" \/ (strict /\ HasComplexReal(sum)), "complex_limit")
     \cup IfSet(lo.t = "ivar" \/ hi.t = "ivar" \/ (~b.blank /\ role = "student" /\ UsesC(b)), "instructor_variable")
     \cup IfSet(~b.blank /\ UsesIndex(b) /\ b.v # sum.var, "unknown_variable")
     \cup IfSet(~(UsedFuncs(sum) \subseteq DefinedFuncs(cfg)), "unknown_function")
     \cup IfSet(~b.blank /\ IsRange(lo) /\ IsRange(hi) /\ b.pole.on
                  /\ \E m \in Index(lo, hi, cfg.evenOdd, CutFor(sum, cfg)) : Inner(b, m) = b.pole.at, "division_by_zero")

\* situations on which the property statement is silent: no prediction is made
Unspecified(sum, cfg, env, role) ==
  LET lo == LimVal(sum.lower, env, role)
      hi == LimVal(sum.upper, env, role)
      b == sum.body
      cut == CutFor(sum, cfg)
  IN \/ role = "student" /\ sum.var \in cfg.ivars
     \* the imaginary unit written in a problem whose author removed it
     \/ cfg.removed \cap {"i", "j"} # {} /\ MentionsImag(sum)
     \/ lo.t \in {"pinf", "ninf"} /\ hi.t = lo.t
     \/ lo.t = "int" /\ hi.t \in {"pinf", "ninf"} /\ Abs(lo.v) > cut
     \/ hi.t = "int" /\ lo.t \in {"pinf", "ninf"} /\ Abs(hi.v) > cut
     \/ ~b.blank /\ UsesIndex(b) /\ b.v # sum.var /\ b.v \in Meaningful(cfg) \cup cfg.ivars
     \* a summand that is never evaluated: nothing is said about names it cannot use
     \/ ~b.blank /\ IsRange(lo) /\ IsRange(hi) /\ Index(lo, hi, cfg.evenOdd, cut) = {}
          /\ ((UsesIndex(b) /\ b.v # sum.var) \/ (role = "student" /\ UsesC(b)) \/ ~(SeqSet(b.calls) \subseteq DefinedFuncs(cfg)))
     \/ ~b.blank /\ IsRange(lo) /\ IsRange(hi) /\ UsesFact(b)
          /\ \E m \in Index(lo, hi, cfg.evenOdd, cut) : Inner(b, m) < 0 \/ Inner(b, m) > 12

Outcome(sum, cfg, env, role, strict) ==
  IF Unspecified(sum, cfg, env, role) THEN [k |-> "unspecified"]
  ELSE LET f == Faults(sum, cfg, env, role, strict) IN
       IF f # {} THEN [k |-> "error", why |-> f]
       ELSE LET idx == Index(LimVal(sum.lower, env, role), LimVal(sum.upper, env, role), cfg.evenOdd, CutFor(sum, cfg))
            IN [k |-> "value", v |-> SumOf(sum.body, idx, env), terms |-> Cardinality(idx)]

(* ------------------------------------------------------------------ tolerance
   tol [kind |-> "abs" | "pct" | "default", val |-> rational]; "pct": val is the fraction of the norm of the author's
   value; "default": the documented default 1e-12, known here only through the upper bound val.
   The Euclidean norm is bracketed by the max norm and the 1-norm, and the decision is left open inside a relative
   band of 1/16 around the tolerance (floating-point evaluation is not modelled): "in" / "out" / "band". *)
BandLo == <<15, 16>>
BandHi == <<17, 16>>
TolBounds(tol, a) ==
  CASE tol.kind = "abs" -> <<QMul(tol.val, BandLo), QMul(tol.val, BandHi)>>
    [] tol.kind = "pct" -> <<QMul(QMul(tol.val, NormInf(a)), BandLo), QMul(QMul(tol.val, NormOne(a)), BandHi)>>
    [] tol.kind = "default" -> <<Zero, tol.val>>
Within3(a, s, tol) ==
  LET d == VSub(a, s)
      b == TolBounds(tol, a)
  IN IF VIsZero(d) THEN "in"
     ELSE IF NNLeq(NormOne(d), b[1]) THEN "in"
     ELSE IF NNLt(b[2], NormInf(d)) THEN "out"
     ELSE "band"

(* ------------------------------------------------------------------ the verdict
   classes: "correct" "incorrect" "student_err" (any student-facing error) "config_err" (configuration error) *)
Classes == {"correct", "incorrect", "student_err", "config_err"}
EnvAt(cfg, s) == [x |-> cfg.xs[s], c |-> cfg.cval]
\* outcomes at samples s, s+1, ... as a sequence (a sequence is evaluated once; a function would be re-evaluated)
RECURSIVE Outcomes(_, _, _, _, _)
Outcomes(sum, cfg, role, strict, s) ==
  IF s > Len(cfg.xs) THEN <<>>
  ELSE <<Outcome(sum, cfg, EnvAt(cfg, s), role, strict)>> \o Outcomes(sum, cfg, role, strict, s + 1)
RECURSIVE Withins(_, _, _, _)
Withins(A, S, tol, s) == IF s > Len(A) THEN <<>> ELSE <<Within3(A[s].v, S[s].v, tol)>> \o Withins(A, S, tol, s + 1)

Verdict(A, S, cfg, dim, restricted) ==
  LET n == Len(A)
      aFails == \E s \in 1..n : A[s].k = "error"
      sFails == \E s \in 1..n : S[s].k = "error"
  IN IF \E s \in 1..n : A[s].k = "unspecified" \/ S[s].k = "unspecified" THEN Classes
     ELSE IF aFails /\ sFails THEN {"config_err", "student_err"}      \* both sentences of the statement apply
     ELSE IF aFails THEN {"config_err"}
     ELSE IF sFails THEN {"student_err"}
     \* an empty sum of vectors has no shape: silent when only the author's sum is empty
     ELSE IF dim > 1 /\ \E s \in 1..n : A[s].terms = 0 /\ S[s].terms > 0 THEN Classes
     ELSE LET W == Withins(A, S, cfg.tol, 1) IN
          \* equal in value: correct -- unless the submission uses a function it may not use or lacks a required one,
          \* which is refused with a student-facing error (nothing is said about refusing it when the value is wrong)
          IF \A s \in 1..n : W[s] = "in" THEN (IF restricted THEN {"student_err"} ELSE {"correct"})
          ELSE IF \E s \in 1..n : W[s] = "out" THEN (IF restricted THEN {"incorrect", "student_err"} ELSE {"incorrect"})
          ELSE (IF restricted THEN {"incorrect", "student_err"} ELSE {"correct", "incorrect"})

\* every combination of readings of inexactly written integer limits (one reading per summation) is allowed
Grade(aut, stu, cfg) ==
  UNION {Verdict(Outcomes(aut, cfg, "author", ra, 1), Outcomes(stu, cfg, "student", rs, 1), cfg, Dim(aut.body), Restricted(stu, cfg)) :
           ra \in Readings(aut), rs \in Readings(stu)}
\* the same summation with its inexactly written limits written as plain integers
ExactLim(l) == IF l.k \in ArtefactKinds THEN [l EXCEPT !.k = "int"] ELSE l
Exactly(sum) == [sum EXCEPT !.lower = ExactLim(sum.lower), !.upper = ExactLim(sum.upper)]

(* ------------------------------------------------------------------ which boxes the student fills in
   P: the set of fields entered by the student; the others are taken from the author's answer.
   pos: sequence of the fields of P in the order of the input boxes *)
Effective(aut, stu, P) ==
  [lower |-> IF "lower" \in P THEN stu.lower ELSE aut.lower,
   upper |-> IF "upper" \in P THEN stu.upper ELSE aut.upper,
   body |-> IF "summand" \in P THEN stu.body ELSE aut.body,
   var |-> IF "summation_variable" \in P THEN stu.var ELSE aut.var]
FieldOf(sum, f) == CASE f = "lower" -> sum.lower [] f = "upper" -> sum.upper [] f = "summand" -> sum.body
                     [] f = "summation_variable" -> sum.var
Boxes(stu, pos) == [i \in 1..Len(pos) |-> FieldOf(stu, pos[i])]
PosOf(pos, f) == CHOOSE i \in 1..Len(pos) : pos[i] = f
Structured(boxes, pos, aut) ==
  LET P == {pos[i] : i \in 1..Len(pos)}
      pick(f) == IF f \in P THEN boxes[PosOf(pos, f)] ELSE FieldOf(aut, f)
  IN [lower |-> pick("lower"), upper |-> pick("upper"), body |-> pick("summand"), var |-> pick("summation_variable")]

Allowed(aut, stu, P, cfg) == Grade(aut, Effective(aut, stu, P), cfg)

(* ------------------------------------------------------------------ the way the summation is usually coded:
   sort the limits, replace infinities, move the lower limit up to the right parity, then stride.
   Law (MC_SumGrader): this produces Index(...) whenever no finite limit lies beyond the cutoff. *)
StrideIndex(lo, hi, evenOdd, cut) ==
  LET a0 == IF lo.t = "ninf" THEN -cut ELSE IF lo.t = "pinf" THEN cut ELSE lo.v
      b0 == IF hi.t = "ninf" THEN -cut ELSE IF hi.t = "pinf" THEN cut ELSE hi.v
      a == IF a0 <= b0 THEN a0 ELSE b0
      b == IF a0 <= b0 THEN b0 ELSE a0
      start == IF evenOdd = 0 \/ Parity(a, evenOdd) THEN a ELSE a + 1
      step == IF evenOdd = 0 THEN 1 ELSE 2
  IN {start + step * j : j \in {j \in 0..(IF b >= start THEN (b - start) \div step ELSE -1) : TRUE}}
=============================================================================
