------------------------ MODULE BestAlternativeTrace ------------------------
(* Code -> spec binding for C08: every record is one real grader call -- the abstract alternatives (credit, message,
   value outcomes), the notation in which they were written in the configuration, the host grader / option context it was rendered in (must be able to realise the
   outcomes), the wrong_msg, and the projected observation.  The alternatives the adapter claims must be the ones the notation denotes (Canon).  A record is accepted iff the observation is a
   member of BestAlternative!AllowedOut; the clause of a rejection names the part of the statement that is broken.
   An allowed observation that is not the modelled first-in-listing selection is reported with clause "drift"
   (the adapter logs it, it is not a verdict). *)
EXTENDS BestAlternative, Json, IOUtils
Trace == ndJsonDeserialize(IOEnv.TRACE_FILE)
VARIABLE l
Rec(i) == Trace[i]
Clause(r) ==
  LET al == AllowedOut(r.alts, r.wrong)
      res == {o \in al : o.k = "res"}
  IN IF ~WellFormed(r.alts) \/ ~WellFormedMsg(r.wrong) \/ ~WellFormedNotation(r.notation) \/ ~Realisable(r.host, r.alts)
        THEN "malformed-record"
     ELSE IF Canon(r.notation) # r.alts THEN "notation-denotes-other-alternatives"
     ELSE IF r.obs \in al THEN (IF r.obs = CodeOut(r.alts, r.wrong) THEN "ok" ELSE "drift")
     ELSE IF r.obs.k = "res" /\ res # {} THEN
          (IF \A o \in res : o.grade # r.obs.grade THEN "grade-not-maximum"
           ELSE IF r.obs.msg.id = -1 THEN "message-from-elsewhere"
           ELSE IF r.obs.msg.id = 99 \/ \E o \in res : o.msg.id = 99 THEN "wrong-msg-rule"
           ELSE "message-not-longest-of-best")
     ELSE IF r.obs.k = "err" THEN (IF \E o \in al : o.k = "err" THEN "error-not-from-an-alternative" ELSE "unexpected-error")
     ELSE IF r.obs.k = "res" THEN "graded-despite-error-everywhere"
     ELSE "malformed-result"
Verdict(i) == LET r == Rec(i) cl == Clause(r) IN
              IF cl = "ok" THEN TRUE ELSE PrintT(<<"REJECT", r.id, cl>>)
Init == l = 0
Next == /\ l < Len(Trace)
        /\ l' = l + 1
        /\ Verdict(l + 1)
        /\ (l + 1 = Len(Trace)) => PrintT(<<"DONE", Len(Trace)>>)
=============================================================================
