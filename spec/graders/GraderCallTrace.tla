--------------------------- MODULE GraderCallTrace ---------------------------
(* Code -> spec binding for C11: long random call sequences over many grader objects (mixed classes, shared
   subgraders, one configuration dictionary used for several graders, matrix graders with negative powers disabled
   in between).  Each record is one call on one grader object:
     gid, configured, e (kind of the expect argument), i, obs (digest of what the reused object returned / raised),
     fresh (digests of what freshly constructed graders answer for each candidate effective answer, key "rejected"
     for a fresh grader given the same rejected expect, "none" for no answers at all),
     log_ok (debug output mentions the current input only), globals_ok, config_ok (process-wide settings and the
     author's configuration objects are unchanged).
   The reference machine of GraderCall (lastSupplied per object) decides WHICH fresh digest the call must equal. *)
EXTENDS Integers, Sequences, FiniteSets, TLC, Json, IOUtils
Trace == ndJsonDeserialize(IOEnv.TRACE_FILE)
VARIABLES l, lastSupplied          \* lastSupplied: function gid -> last successfully supplied expect kind
Gids == {Trace[k].gid : k \in 1..Len(Trace)}

Effective(r) == IF r.configured THEN "cfg"
                ELSE IF r.e \in {"e1", "e2", "badCheck"} THEN r.e
                ELSE IF r.e = "none" THEN lastSupplied[r.gid]
                ELSE "rejected"
Clause(r) ==
  LET a == Effective(r) IN
  IF ~r.globals_ok THEN "process-wide settings changed"
  ELSE IF ~r.config_ok THEN "author configuration object changed"
  ELSE IF a \notin DOMAIN r.fresh THEN "BADRECORD"
  ELSE IF r.obs # r.fresh[a] THEN "differs from a fresh grader"
  ELSE IF ~r.log_ok THEN "debug log mentions another call"
  ELSE "ok"
TInit == l = 0 /\ lastSupplied = [g \in Gids |-> "none"]
TNext == /\ l < Len(Trace)
         /\ l' = l + 1
         /\ LET r == Trace[l + 1] c == Clause(r) IN
            /\ IF c = "ok" THEN TRUE ELSE PrintT(<<"REJECT", r.id, c>>)
            /\ lastSupplied' = IF ~r.configured /\ r.e \in {"e1", "e2", "badCheck"}
                               THEN [lastSupplied EXCEPT ![r.gid] = r.e] ELSE lastSupplied
         /\ (l + 1 = Len(Trace)) => PrintT(<<"DONE", Len(Trace)>>)
=============================================================================
