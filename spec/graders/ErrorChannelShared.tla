------------------------- MODULE ErrorChannelShared -------------------------
(* C02 over HISTORIES on shared grader objects.

   A page may use one grader object in several places: a FormulaGrader stand-alone for one box AND as the subgrader of
   a ListGrader, an inner ListGrader stand-alone AND inside a nested one.  The statement is about each call by
   itself: what edX observes for a call is ErrorChannel!Outward(debug flag CONFIGURED for the called object, what
   this call's grading step did, this call's input) -- whatever calls were made before, on this object or on the
   objects it is nested in.

   Objects 1..Depth form a chain: object o (a list grader) has object o+1 as its subgrader; object Depth is an item
   grader.  Every object has its own configured debug flag cfg[o]; eff[o] is what the object's configuration holds
   at the moment (the implementation reads this).  A call on object o descends to the leaf (each list grader hands
   its debug log to its subgrader), the environment makes the leaf return or raise, the call unwinds, and the
   wrapper of object o decides with eff[o].

   ParentForcesDebug / RestoreAlways describe a design in which a debugging list grader switches its subgrader's
   debug on for the duration of the check: with RestoreAlways (a finally block) the property holds, without it TLC
   exhibits the history "debugging parent raises, then the shared child is called with a failing input"
   (MC_ErrorChannelShared_norestore.cfg, expected to violate SameAsConfigured).  The library as it stands does
   neither (both FALSE).                                                                                        *)
EXTENDS Naturals, Sequences, FiniteSets, TLC, Errors

CONSTANTS Depth, MaxCalls,
          Faults,               \* set of [cls, msg]: what the leaf may raise
          ParentForcesDebug, RestoreAlways

EC == INSTANCE ErrorChannel WITH Kinds <- {}, CheckFaults <- {}, InferFaults <- {}, Msgs <- {}, OutsiderMsgs <- {},
                                 InferMsgs <- {}, MaxN <- 1, Variants <- 1,
                                 c <- 0, pc <- "shared", origin <- 0, inner <- 0, esc <- 0, ret <- 0, trail <- <<>>

Objects == 1..Depth
IsList(o) == o < Depth
\* a list object o grades 2^(Depth - o) boxes (two groups per level), the leaf one text
RECURSIVE Boxes(_)
Boxes(o) == IF o = Depth THEN 1 ELSE 2 * Boxes(o + 1)
InputOf(o) == [kind |-> IF IsList(o) THEN "listOfText" ELSE "text",
               form |-> IF IsList(o) THEN "textlist" ELSE "text",
               names |-> EC!Names(Boxes(o))]
Outcomes == {EC!Ret} \cup {EC!Raised(f.cls, f.msg) : f \in Faults}

VARIABLES cfg,     \* configured debug flag per object (never changes)
          eff,     \* the flag the object's configuration holds now
          hist,    \* finished calls: [o, inner, esc (observed), want (property level)]
          pc,      \* "idle" "down" "leaf" "up" "wrap"
          cur      \* the call in progress: [o, inner, at (object whose code runs), saved (flags to restore)]
vars == <<cfg, eff, hist, pc, cur>>

NoCall == [o |-> 0]
Init == /\ cfg \in [Objects -> BOOLEAN] /\ eff = cfg /\ hist = <<>> /\ pc = "idle" /\ cur = NoCall

Begin == /\ pc = "idle" /\ Len(hist) < MaxCalls
         /\ \E o \in Objects, r \in Outcomes : cur' = [o |-> o, inner |-> r, at |-> o, saved |-> <<>>]
         /\ pc' = "down" /\ UNCHANGED <<cfg, eff, hist>>
\* ListGrader.check of object cur.at: hand the log to the subgrader, (design variant: force its debug flag)
Down == /\ pc = "down"
        /\ IF cur.at = Depth THEN pc' = "leaf" /\ UNCHANGED <<eff, cur>>
           ELSE /\ cur' = [cur EXCEPT !.at = cur.at + 1, !.saved = Append(cur.saved, eff[cur.at + 1])]
                /\ eff' = IF ParentForcesDebug /\ eff[cur.at] THEN [eff EXCEPT ![cur.at + 1] = TRUE] ELSE eff
                /\ pc' = "down"
        /\ UNCHANGED <<cfg, hist>>
\* the leaf's check_response returns or raises (already decided by the environment)
Leaf == /\ pc = "leaf" /\ pc' = "up" /\ UNCHANGED <<cfg, eff, hist, cur>>
\* unwinding through the list graders: the code after the subgrader call runs only when nothing was raised
Up == /\ pc = "up"
      /\ IF cur.at = cur.o THEN pc' = "wrap" /\ UNCHANGED <<eff, cur>>
         ELSE /\ eff' = IF cur.inner.k = "return" \/ RestoreAlways
                        THEN [eff EXCEPT ![cur.at] = cur.saved[Len(cur.saved)]] ELSE eff
              /\ cur' = [cur EXCEPT !.at = cur.at - 1, !.saved = SubSeq(cur.saved, 1, Len(cur.saved) - 1)]
              /\ pc' = "up"
      /\ UNCHANGED <<cfg, hist>>
\* AbstractGrader.__call__ of the called object: reads its own configuration as it is now
Wrap == /\ pc = "wrap"
        /\ hist' = Append(hist, [o |-> cur.o, inner |-> cur.inner,
                                 esc |-> EC!Outward(eff[cur.o], cur.inner, InputOf(cur.o)),
                                 want |-> EC!Outward(cfg[cur.o], cur.inner, InputOf(cur.o))])
        /\ pc' = "idle" /\ cur' = NoCall /\ UNCHANGED <<cfg, eff>>
Next == Begin \/ Down \/ Leaf \/ Up \/ Wrap
Spec == Init /\ [][Next]_vars /\ WF_vars(Down \/ Leaf \/ Up \/ Wrap)

(* ---- laws *)
TypeOK == /\ pc \in {"idle", "down", "leaf", "up", "wrap"} /\ Len(hist) <= MaxCalls
          /\ (pc = "idle") <=> (cur = NoCall)
\* every call is judged by the configuration of the object that was called, whatever happened before
SameAsConfigured == \A i \in 1..Len(hist) : hist[i].esc = hist[i].want
\* between calls every object's configuration is what its author wrote
ConfigStable == pc = "idle" => eff = cfg
\* with debug configured off nothing outside the family escapes, in any position of any history
FamilyInEveryCall == \A i \in 1..Len(hist) :
                        (~cfg[hist[i].o] /\ hist[i].esc.k = "raise") => hist[i].esc.cls \in MITxFamily
\* a history is replayable: the same call later in a history is allowed the same outcome
Repeatable == \A i, j \in 1..Len(hist) : (hist[i].o = hist[j].o /\ hist[i].inner = hist[j].inner) => hist[i].want = hist[j].want
CallsEnd == [](pc # "idle" => <>(pc = "idle"))
=============================================================================
