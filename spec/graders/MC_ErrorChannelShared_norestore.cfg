INIT Init
NEXT Next
CONSTANTS
  Depth = 3
  MaxCalls = 2
  Faults <- FaultsQuick
  ParentForcesDebug = TRUE
  RestoreAlways = FALSE

INVARIANT SameAsConfigured




