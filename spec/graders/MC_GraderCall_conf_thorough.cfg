SPECIFICATION Spec
CONSTANTS
  Configured = TRUE
  MaxCalls = 4
  CommitAfterValidation = TRUE
  ResetLogAtStart = TRUE
INVARIANT TypeOK
INVARIANT SameAsFresh
INVARIANT NoStaleLog
INVARIANT CleanBetweenCalls
INVARIANT ConfiguredIgnoresExpect

