INIT Init
NEXT Next
CONSTANTS
  Kinds <- AllKinds
  CheckFaults <- EveryClass
  InferFaults <- LibInferFaults
  Msgs <- MsgsThorough
  OutsiderMsgs <- MsgsOutsider
  InferMsgs <- MsgsNoNL
  MaxN = 4
  Variants = 4
INVARIANT TypeOK
INVARIANT EscapeFamily
INVARIANT EscapeBranch
INVARIANT ClassKept
INVARIANT MsgBr
INVARIANT GenericNamesInput
INVARIANT GenericOnlyForOutsiders
INVARIANT RefusedNotGraded
INVARIANT DebugTransparent
INVARIANT Refines
INVARIANT InferEscapesAsRaised
INVARIANT FnFaultAnticipated
INVARIANT ArithFaults
INVARIANT TrailShape
INVARIANT PostReturns
INVARIANT PostKeepsMessage
INVARIANT OnlyPostCanFailAfterCheck
