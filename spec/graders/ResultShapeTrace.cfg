INIT Init
NEXT Next
