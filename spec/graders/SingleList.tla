----------------------------- MODULE SingleList -----------------------------
(* Property-level specification of SingleListGrader (C07): how a delimiter-separated submission is scored.
   Written from docs/grading_lists/single_list_grader.md and the property statement, not from the code.

   Text is a sequence of one-symbol strings (Text.tla); credits are exact rationals <<n, d>> (Rat.tla).

   A grader   g  is  [k |-> "list", ordered, partial, lengthErr, missingErr : BOOLEAN, delim : text, sub : g']
              g' is  [k |-> "table"]  (items are scored by a credit table)  or again a "list" grader (nesting).
   Answers    ans  is a sequence of alternative answer lists  [items, credit, hasMsg]:
                items   sequence of item specifications -- for a table subgrader a sequence of alternatives
                        [sym : text, credit : rational]; for a nested list grader again an `ans' value,
                credit  the answer's own credit,  hasMsg  whether the answer carries an answer-level message.
   Table      T  is a function  <<expected text, submitted text>> -> rational; missing pairs score 0.          *)
EXTENDS Integers, Sequences, FiniteSets, TLC, Rat, Text

(* ------------------------------------------------------------------ text layer *)
White == {"SP", "TAB"}
IsBlank(t) == \A i \in 1..Len(t) : t[i] \in White          \* empty, or only white space

RECURSIVE SplitAcc(_, _, _, _), Join(_, _)
\* Python's  s.split(d)  for a non-empty delimiter d (possibly several symbols): leftmost, non-overlapping
SplitAcc(s, d, cur, acc) ==
  IF s = <<>> THEN Append(acc, cur)
  ELSE IF IsPrefixOf(d, s) THEN SplitAcc(SubSeq(s, Len(d) + 1, Len(s)), d, <<>>, Append(acc, cur))
  ELSE SplitAcc(Tail(s), d, Append(cur, Head(s)), acc)
SplitBy(s, d) == SplitAcc(s, d, <<>>, <<>>)
Join(items, d) == IF items = <<>> THEN <<>>
                  ELSE IF Len(items) = 1 THEN items[1]
                  ELSE items[1] \o d \o Join(Tail(items), d)

(* ------------------------------------------------------------------ small arithmetic helpers *)
Min2(a, b) == IF a <= b THEN a ELSE b
Max2(a, b) == IF a >= b THEN a ELSE b
LCM(a, b) == (a * b) \div GCD(a, b)
RECURSIVE LcmSet(_)
LcmSet(S) == IF S = {} THEN 1 ELSE LET x == CHOOSE x \in S : TRUE IN LCM(x, LcmSet(S \ {x}))
RMaxSet(S) == CHOOSE x \in S : \A y \in S : Leq(y, x)        \* S a non-empty finite set of rationals
Units(q, D) == q[1] * (D \div q[2])                           \* q as an integer number of 1/D (q[2] divides D)

Look(T, e, s) == IF <<e, s>> \in DOMAIN T THEN T[<<e, s>>] ELSE Zero
\* table given as a sequence of [e, s, w] triples (the form used in catalogues and trace records)
TabFun(tab) == [p \in {<<tab[i].e, tab[i].s>> : i \in DOMAIN tab} |->
                  LET i == CHOOSE i \in DOMAIN tab : <<tab[i].e, tab[i].s>> = p IN <<tab[i].w[1], tab[i].w[2]>>]

(* ------------------------------------------------------------------ the credit formula *)
\* credit of one answer list before the answer's own credit: best total, surplus penalty, average over expected
Raw(best, nE, nS) == LET surplus == IF nS > nE THEN nS - nE ELSE 0
                     IN RMax(Zero, Div(Sub(best, FromInt(surplus)), FromInt(nE)))
ListGrade(best, nE, nS, partial, credit) ==
  LET r == Raw(best, nE, nS) IN Mul(credit, IF ~partial /\ Lt(r, One) THEN Zero ELSE r)
OkOf(q) == IF Eq(q, One) THEN "T" ELSE IF IsZero(q) THEN "F" ELSE "P"

(* ------------------------------------------------------------------ one-to-one assignments (brute force)
   A is a k x n integer matrix (k <= n): rows = the shorter of the two lists, columns = the longer one.  Every
   one-to-one assignment of the padded lists pairs each row with a distinct column (the remaining columns meet
   zero-credit padding), i.e. it is an injection 1..k -> 1..n.                                              *)
\* all of them, built row by row (the definition {f \in [1..k -> 1..n] : f injective} costs n^k evaluations)
RECURSIVE Injections(_, _)
Injections(k, n) == IF k = 0 THEN {<<>>}
                    ELSE {Append(f, j) : f \in Injections(k - 1, n), j \in 1..n} \ {Append(f, f[a]) : f \in Injections(k - 1, n), a \in 1..(k - 1)}
InjectionsLaw(k, n) == Injections(k, n) = {f \in [1..k -> 1..n] : \A a, b \in 1..k : a < b => f[a] # f[b]}
RECURSIVE SumF(_, _, _), BestDFS(_, _, _, _, _)
SumF(A, f, a) == IF a = 0 THEN 0 ELSE A[a][f[a]] + SumF(A, f, a - 1)
\* the optimum as a depth-first search over all assignments (row a is given every column not yet used)
BestDFS(A, k, n, a, used) ==
  IF a > k THEN 0
  ELSE LET opts == {A[a][j] + BestDFS(A, k, n, a + 1, used \cup {j}) : j \in (1..n) \ used}
       IN CHOOSE x \in opts : \A y \in opts : y <= x
BestTotal(A, k, n) == BestDFS(A, k, n, 1, {})
OptimalAssignments(A, k, n) == LET b == BestTotal(A, k, n) IN {f \in Injections(k, n) : SumF(A, f, k) = b}
\* law: the two enumerations agree (no assignment beats the optimum, some assignment attains it)
OptimumLaw(A, k, n) == LET b == BestTotal(A, k, n) IN
  /\ \A f \in Injections(k, n) : SumF(A, f, k) <= b
  /\ \E f \in Injections(k, n) : SumF(A, f, k) = b

\* the same optimum in the cost form used by assignment solvers: on the n x n square padded with zero-credit rows /
\* columns, the cheapest complete assignment of costs D - w costs exactly n * D - (best total credit)
RECURSIVE MinOverPerms(_, _, _, _, _, _, _)
PadCost(Wi, nE, nS, D, i, j) == D - (IF i <= nE /\ j <= nS THEN Wi[i][j] ELSE 0)
MinOverPerms(Wi, nE, nS, D, n, i, used) ==
  IF i > n THEN 0
  ELSE LET opts == {PadCost(Wi, nE, nS, D, i, j) + MinOverPerms(Wi, nE, nS, D, n, i + 1, used \cup {j}) : j \in (1..n) \ used}
       IN CHOOSE x \in opts : \A y \in opts : x <= y
PaddedMinCost(Wi, nE, nS, D) == LET n == IF nE >= nS THEN nE ELSE nS IN MinOverPerms(Wi, nE, nS, D, n, 1, {})

(* ------------------------------------------------------------------ optimum by LP-duality certificate
   For lists too long for brute force the optimum is *certified*: cost[i][j] = D - w[i][j] on the padded n x n
   square, potentials u, v with u[i] + v[j] <= cost[i][j] everywhere bound every complete assignment from below
   by Sum u + Sum v; a permutation m whose cost equals that bound is therefore optimal.  The producer of
   (u, v, m) is untrusted; only this check is.                                                              *)
RECURSIVE SumSeqInt(_)
SumSeqInt(s) == IF s = <<>> THEN 0 ELSE Head(s) + SumSeqInt(Tail(s))
PadW(Wi, nE, nS, i, j) == IF i <= nE /\ j <= nS THEN Wi[i][j] ELSE 0
CertOK(Wi, nE, nS, D, cert) ==
  LET n == Max2(nE, nS)
      cost(i, j) == D - PadW(Wi, nE, nS, i, j)
  IN /\ Len(cert.u) = n /\ Len(cert.v) = n /\ Len(cert.m) = n
     /\ {cert.m[i] : i \in 1..n} = 1..n
     /\ \A i, j \in 1..n : cert.u[i] + cert.v[j] <= cost(i, j)
     /\ SumSeqInt([i \in 1..n |-> cost(i, cert.m[i])]) = SumSeqInt(cert.u) + SumSeqInt(cert.v)
CertBest(Wi, nE, nS, D, cert) ==
  LET n == Max2(nE, nS) IN n * D - SumSeqInt([i \in 1..n |-> D - PadW(Wi, nE, nS, i, cert.m[i])])

(* ------------------------------------------------------------------ grading
   Result of grading a text against alternatives:
     [k |-> "raise", why]                     a student-facing error instead of a grade
     [k |-> "ok", g, aw, shown, latent]       g the grade; aw the possible values of "every submitted and expected
                                              item earned credit" (a set, because several optimal assignments /
                                              several best alternatives may differ in it); shown the possible
                                              values of "the answer-level message is shown"; latent: a blank item
                                              sits where no expected item was compared with it (see CheckList)  *)
NoCert == [k |-> "none"]
Raise(why) == [k |-> "raise", why |-> why]
AwOfCells(cells) ==          \* cells: set of aw-option sets of the paired cells
  (IF \A c \in cells : TRUE \in c THEN {TRUE} ELSE {}) \cup (IF \E c \in cells : FALSE \in c THEN {FALSE} ELSE {})

LeafCheck(alts, s, T) ==
  LET best == RMaxSet({Mul(alts[i].credit, Look(T, alts[i].sym, s)) : i \in DOMAIN alts})
  IN [k |-> "ok", g |-> best, aw |-> {~IsZero(best)}, shown |-> {FALSE}, latent |-> FALSE]

RECURSIVE CheckAnswers(_, _, _, _, _), CheckList(_, _, _, _, _)

\* certs: NoCert, or [k |-> "some", list |-> one certificate [k |-> "cert", u, v, m, D] per answer list] (used for
\* the top level of a flat unordered list only)
CheckAnswers(g, ans, text, T, certs) ==
  LET rs == TLCEval([l \in DOMAIN ans |-> CheckList(g, ans[l], text, T, IF certs.k = "none" THEN NoCert ELSE certs.list[l])])
      bad == {l \in DOMAIN ans : rs[l].k # "ok"}
  IN IF bad # {} THEN rs[CHOOSE l \in bad : \A m \in bad : l <= m]
     ELSE LET best == RMaxSet({rs[l].g : l \in DOMAIN ans})
              top == {l \in DOMAIN ans : rs[l].g = best}
          IN [k |-> "ok", g |-> best,
              aw |-> UNION {rs[l].aw : l \in top},
              shown |-> UNION {{b /\ ans[l].hasMsg : b \in rs[l].aw} : l \in top},
              latent |-> \E l \in DOMAIN ans : rs[l].latent]

CheckList(g, al, text, T, cert) ==
  LET subs == SplitBy(text, g.delim)
      nE == Len(al.items)
      nS == Len(subs)
      k == Min2(nE, nS)
      n == Max2(nE, nS)
      \* (TLCEval: evaluate the matrix once instead of at every use)
      Cell == TLCEval([i \in 1..nE |-> TLCEval([j \in 1..nS |->
                 IF g.sub.k = "table" THEN LeafCheck(al.items[i], subs[j], T)
                 ELSE CheckAnswers(g.sub, al.items[i], subs[j], T, NoCert)])])
      \* which cells the statement certainly requires to be looked at: all of them when unordered, the diagonal
      \* when ordered
      needed == IF g.ordered THEN {<<a, a>> : a \in 1..k} ELSE (1..nE) \X (1..nS)
      failing == {p \in needed : Cell[p[1]][p[2]].k = "raise"}
      \* ordered, surplus item never compared with an expected item, but it would raise (blank inner entry)
      latent == g.ordered /\ \E j \in (nE + 1)..nS : Cell[1][j].k = "raise"
      \* cells that raise and are not needed (off the diagonal of an ordered list) play no role: credit 0
      GOf(i, j) == IF Cell[i][j].k = "ok" THEN Cell[i][j].g ELSE Zero
      D == LcmSet({GOf(i, j)[2] : i \in 1..nE, j \in 1..nS})
      Wi == TLCEval([i \in 1..nE |-> TLCEval([j \in 1..nS |-> Units(GOf(i, j), D)])])
      A == TLCEval([a \in 1..k |-> TLCEval([b \in 1..n |-> IF nE <= nS THEN Wi[a][b] ELSE Wi[b][a]])])
      AwCell(i, j) == IF Cell[i][j].k = "ok" THEN Cell[i][j].aw ELSE {FALSE}
      AwC(a, b) == IF nE <= nS THEN AwCell(a, b) ELSE AwCell(b, a)
      awOf(f) == IF nE # nS THEN {FALSE} ELSE AwOfCells({AwC(a, f[a]) : a \in 1..k})
      ident == [a \in 1..k |-> a]
      bestI == IF g.ordered THEN SumF(A, ident, k)
               ELSE IF cert.k = "none" THEN BestTotal(A, k, n)
               ELSE CertBest(Wi, nE, nS, D, cert)
      aw == IF g.ordered THEN awOf(ident)
            ELSE IF cert.k = "none" THEN UNION {awOf(f) : f \in OptimalAssignments(A, k, n)}
            ELSE awOf([a \in 1..k |-> IF nE <= nS THEN cert.m[a]
                                      ELSE CHOOSE i \in 1..n : cert.m[i] = a])
      grade == ListGrade(Q(bestI, D), nE, nS, g.partial, al.credit)
  IN IF g.lengthErr /\ nE # nS THEN Raise("length")
     ELSE IF g.missingErr /\ \E j \in 1..nS : IsBlank(subs[j]) THEN Raise("blank")
     ELSE IF failing # {} THEN Raise("inner")
     ELSE IF ~g.ordered /\ cert.k # "none" /\ (cert.D # D \/ ~CertOK(Wi, nE, nS, D, cert)) THEN Raise("badcert")
     ELSE [k |-> "ok", g |-> grade, aw |-> aw, shown |-> {FALSE}, latent |-> latent]

(* ------------------------------------------------------------------ answers given as text
   answers='a, b' and the expect attribute are split with the grader's own delimiters, nothing is stripped *)
RECURSIVE Infer(_, _)
Infer(g, atext) ==
  LET parts == SplitBy(atext, g.delim)
  IN << [items |-> [i \in 1..Len(parts) |->
                      IF g.sub.k = "table" THEN <<[sym |-> parts[i], credit |-> One]>> ELSE Infer(g.sub, parts[i])],
         credit |-> One, hasMsg |-> FALSE] >>

(* ------------------------------------------------------------------ the allowed outcome of one call
   problem P = [g, form ("list" | "string" | "expect"), ans, atext, tab]
   out = [k, why, g, ok, shown]:   k = "raise"   a student-facing error must be raised (why: length | blank | inner)
                                   k = "graded"  grade g (exact), ok class, shown = allowed message-shown values
                                   k = "either"  graded as above or a student-facing error (a blank entry of a nested
                                                 list in a surplus position of an ordered list: the statement does
                                                 not say whose missing_error applies)                          *)
AnswersOf(P) == IF P.form = "list" THEN P.ans ELSE Infer(P.g, P.atext)
OutcomeT(P, T, text, certs) ==
  LET r == CheckAnswers(P.g, AnswersOf(P), text, T, certs)
  IN IF r.k = "raise" THEN [k |-> "raise", why |-> r.why, g |-> Zero, ok |-> "F", shown |-> {}]
     ELSE [k |-> IF r.latent THEN "either" ELSE "graded", why |-> "none", g |-> r.g, ok |-> OkOf(r.g), shown |-> r.shown]
Outcome(P, text) == OutcomeT(P, TabFun(P.tab), text, NoCert)

(* ------------------------------------------------------------------ laws about the specification itself *)
\* splitting and joining are inverse; no piece contains the delimiter; one-symbol delimiters agree with Text!Split
SplitLaw(s, d) == LET p == SplitBy(s, d) IN
  /\ Join(p, d) = s
  /\ \A i \in 1..Len(p) : ~Contains(p[i], d)
  /\ Len(d) = 1 => p = Split(s, d[1])
  /\ Len(p) >= 1
Graded(o) == o.k \in {"graded", "either"}
\* 0 <= grade <= the largest answer credit
BoundsLaw(P, o) == Graded(o) => /\ Leq(Zero, o.g)
                                /\ \E l \in DOMAIN AnswersOf(P) : Leq(o.g, AnswersOf(P)[l].credit)
=============================================================================
