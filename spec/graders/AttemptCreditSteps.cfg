SPECIFICATION Spec
INVARIANT TypeOK
INVARIANT Refines
INVARIANT JudgedOK
INVARIANT MissingIsConfigError
INVARIANT LoopInvariant
INVARIANT FlagMeansReduced
INVARIANT LogOK
INVARIANT NeverAsksBelowOne
PROPERTY Terminates
