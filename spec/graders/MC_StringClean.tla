--------------------------- MODULE MC_StringClean ---------------------------
(* Model instance for C18: TLC enumerates every (configuration, expected, submitted) case inside the bounds,
   evaluates the property-level outcome and the laws; the dump is replayed into the real StringGrader. *)
EXTENDS StringClean
CONSTANTS MaxLen, Part

Alphabet == {"a", "A", "b", "1", "SP", "TAB", "CR", "LF", "EAC", "NB"}
Flags == [cs : BOOLEAN, strip : BOOLEAN, stripAll : BOOLEAN, cleanSpaces : BOOLEAN]
Expects == { <<"a", "SP", "b">>, <<"A", "b">>, <<"a">>, <<"a", "SP", "SP", "b">>, <<"SP", "a">>, <<"EAC", "1">>, <<>>,
             <<"a", "NB", "b">>, <<"a", "NB", "NB", "b">> }

Insert(s, i, x) == SubSeq(s, 1, i) \o <<x>> \o SubSeq(s, i + 1, Len(s))      \* i in 0..Len(s)
Delete(s, i) == SubSeq(s, 1, i - 1) \o SubSeq(s, i + 1, Len(s))
Subst(s, i, x) == [s EXCEPT ![i] = x]
Edits(s) == {Insert(s, i, x) : i \in 0..Len(s), x \in {"SP", "TAB", "CR", "LF", "b", "NB"}}
            \cup {Delete(s, i) : i \in 1..Len(s)}
            \cup {Subst(s, i, x) : i \in 1..Len(s), x \in {"a", "A", "b", "SP"}}
            \cup {<<"CR", "LF">> \o s, s \o <<"LF", "CR">>, s \o <<"CR", "LF", "CR">>, <<"LF", "CR", "LF">> \o s}
Inputs == IF Part = "match" THEN AllSeqsUpTo(Alphabet, MaxLen) \cup UNION {Edits(e) : e \in Expects}
          ELSE IF Part = "any" THEN AllSeqsUpTo({"a", "b", "SP", "TAB", "NB"}, MaxLen + 1)
          ELSE AllSeqsUpTo({"a", "b", "SP", "A", "1"}, MaxLen)

Base == [acceptAny |-> FALSE, acceptNonempty |-> FALSE, minLength |-> 0, minWords |-> 0, explainMin |-> "err",
         pattern |-> [k |-> "none"], explainVal |-> "err", debug |-> FALSE]
With(r, k, v) == [x \in DOMAIN r \cup {k} |-> IF x = k THEN v ELSE r[x]]

\* ---- patterns (rendered to Python regular expressions by the adapter; ids are stable names)
L(s) == [k |-> "lit", s |-> s]
Patterns == [ catdog   |-> [k |-> "alt", a |-> L(<<"a", "b">>), b |-> L(<<"b", "a">>)],          \* ab|ba
              prefix   |-> L(<<"a">>),                                                             \* a
              optional |-> [k |-> "cat", a |-> L(<<"a">>), b |-> [k |-> "opt", a |-> L(<<"b">>)]], \* ab?
              twoany   |-> [k |-> "cat", a |-> [k |-> "any1"], b |-> [k |-> "any1"]],               \* ..
              alt3     |-> [k |-> "alt", a |-> [k |-> "alt", a |-> L(<<"a">>), b |-> L(<<"b", "SP", "a">>)], b |-> L(<<"1">>)],  \* a|b a|1
              altfirst |-> [k |-> "alt", a |-> L(<<"a", "b">>), b |-> L(<<"a">>)] ]                \* ab|a
PatternIds == DOMAIN Patterns

FlagSubset == { [cs |-> TRUE, strip |-> TRUE, stripAll |-> FALSE, cleanSpaces |-> TRUE],
                [cs |-> FALSE, strip |-> FALSE, stripAll |-> FALSE, cleanSpaces |-> FALSE],
                [cs |-> TRUE, strip |-> FALSE, stripAll |-> TRUE, cleanSpaces |-> FALSE] }

\* the case space of each part as a record of field |-> set of values
SpaceMatch == [kind |-> {"match"}, f |-> Flags, expect |-> Expects, pid |-> {"none"},
               any |-> {FALSE}, nonempty |-> {FALSE}, minLength |-> {0}, minWords |-> {0}, explainMin |-> {"err"}, explainVal |-> {"err"},
               debug |-> {FALSE}]
SpaceAny == [kind |-> {"any"}, f |-> FlagSubset, expect |-> {<<>>}, pid |-> {"none"},
             any |-> BOOLEAN, nonempty |-> BOOLEAN, minLength |-> {0, 1, 3}, minWords |-> 0..2,
             explainMin |-> {"err", "msg", "none"}, explainVal |-> {"err"}, debug |-> BOOLEAN]
SpacePattern == [kind |-> {"pattern"}, f |-> FlagSubset, expect |-> {<<"a", "b">>, <<"a">>, <<"b", "SP", "a">>}, pid |-> PatternIds,
                 any |-> BOOLEAN, nonempty |-> {FALSE}, minLength |-> {0, 2}, minWords |-> {0}, explainMin |-> {"err", "none"},
                 explainVal |-> {"err", "msg", "none"}, debug |-> BOOLEAN]
Space == IF Part = "match" THEN SpaceMatch ELSE IF Part = "any" THEN SpaceAny ELSE SpacePattern
CasesFor(f, e) == {x \in [kind : Space.kind, f : {f}, expect : {e}, input : Inputs, pid : Space.pid, any : Space.any,
                          nonempty : Space.nonempty, minLength : Space.minLength, minWords : Space.minWords,
                          explainMin : Space.explainMin, explainVal : Space.explainVal, debug : Space.debug] :
                     /\ Part = "any" => (x.any \/ x.nonempty)
                     /\ x.debug => Len(x.input) <= 2}          \* the debug switch only with short submissions (size of the model)

CfgOf(c) == [f |-> c.f, acceptAny |-> c.any, acceptNonempty |-> c.nonempty, minLength |-> c.minLength,
             minWords |-> c.minWords, explainMin |-> c.explainMin,
             pattern |-> IF c.pid = "none" THEN [k |-> "none"] ELSE Patterns[c.pid], explainVal |-> c.explainVal,
             debug |-> c.debug]

\* Two-level enumeration so that all TLC workers share the work: seeds fix (flags, expected), one Next step per case.
VARIABLES c, out
Seeds == {[kind |-> "seed", f |-> f, expect |-> e] : f \in Space.f, e \in Space.expect}
Init == c \in Seeds /\ out = "seed"
Next == /\ c.kind = "seed"
        /\ c' \in CasesFor(c.f, c.expect)
        /\ out' = Outcome(CfgOf(c'), c'.expect, c'.input)
IsCase == c.kind # "seed"

\* laws (checked in every enumerated case)
LawIdempotent == IsCase => CleanIdempotent(c.input, c.f)
LawKeepsInk == IsCase => KeepsInk(c.input, c.f)
LawShape == IsCase => CleanShape(c.input, c.f)
LawOutcomeDomain == IsCase => out \in {"accept", "wrong", "invalid_msg", "invalid_err", "short_msg", "short_err", "config_err"}
\* matching is symmetric and reflexive; an accepted submission in match mode cleans to the same text as the answer
LawMatchSym == IsCase /\ c.kind = "match" => (Match(c.expect, c.input, c.f) <=> Match(c.input, c.expect, c.f))
LawAcceptIffEqual == IsCase /\ c.kind = "match" => ((out = "accept") <=> Clean(c.expect, c.f) = Clean(c.input, c.f))
\* stripping more never turns a match into a mismatch
LawStripAllCoarser == IsCase /\ c.kind = "match" /\ ~c.f.stripAll /\ Match(c.expect, c.input, c.f)
                         => Match(c.expect, c.input, [c.f EXCEPT !.stripAll = TRUE])
=============================================================================
