-------------------------- MODULE StringCleanTrace --------------------------
(* Code -> spec binding for C18: every record is one real StringGrader call (configuration, expected, submitted,
   observed outcome class); the record is accepted iff the observed class is the one StringClean!Outcome allows. *)
EXTENDS StringClean, Json, IOUtils
Trace == ndJsonDeserialize(IOEnv.TRACE_FILE)
VARIABLE l
Rec(i) == Trace[i]
CfgOfRec(r) == [f |-> r.f, acceptAny |-> r.any, acceptNonempty |-> r.nonempty, minLength |-> r.minLength,
                minWords |-> r.minWords, explainMin |-> r.explainMin, pattern |-> r.pattern, explainVal |-> r.explainVal,
                debug |-> r.debug]
Expected(r) == Outcome(CfgOfRec(r), r.expect, r.input)
Verdict(i) == LET r == Rec(i) e == Expected(r) IN
              IF r.obs = e THEN TRUE ELSE PrintT(<<"REJECT", r.id, e>>)
Init == l = 0
Next == /\ l < Len(Trace)
        /\ l' = l + 1
        /\ Verdict(l + 1)
        /\ (l + 1 = Len(Trace)) => PrintT(<<"DONE", Len(Trace)>>)
=============================================================================
