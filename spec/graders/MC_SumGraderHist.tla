------------------------- MODULE MC_SumGraderHist -------------------------
(* History part of the C19 model.  The property is stateless: whether a submitted summation is graded correct depends
   on that submission and on the grader's configuration only.  Here TLC enumerates HISTORIES: two grader objects that
   share the text of their author's summand but differ in which functions a submission may use (blacklist, whitelist,
   required functions, an author-defined function known to one of them only), and 2-3 calls in a row on either object.
   Submissions write their limits plainly or with function calls (cos(0)+2, abs(-3), first(4)), mention functions in
   the summand, repeat the author's own text, shift it, or get it wrong.  The allowed outcome of every call of a history
   is  SumGrader!Allowed  of that call ALONE (variable out = sequence of allowed sets); the replay creates the two
   objects once per history and performs the calls in order. *)
EXTENDS MC_SumGrader

GraderKinds == {"black", "white", "required", "userfn"}
\* the two function names submissions (and, for userfn, grader 1's author) write limits with
F1(gk) == CASE gk = "black" -> "cos" [] gk = "white" -> "cos" [] gk = "required" -> "abs" [] gk = "userfn" -> "first"
F2(gk) == CASE gk = "black" -> "abs" [] gk = "white" -> "abs" [] gk = "required" -> "cos" [] gk = "userfn" -> "first"
FnLim(l, f) == [k |-> "fn", n |-> l.n, f |-> f]

HBase(h) == [evenOdd |-> h.eo, cut |-> Cut, cutFact |-> CutFact, xs |-> XsOf("frac"), cval |-> CVal, vars |-> {"x"}, ivars |-> {"c"},
             tol |-> Tols["default"], userfuncs |-> {}, forbidden |-> {}, required |-> {}, listing |-> "black", debug |-> FALSE, removed |-> {}, userconsts |-> {}]
HCfg(h, g) ==
  LET b == HBase(h) IN
  CASE h.gk = "black" -> (IF g = 1 THEN [b EXCEPT !.forbidden = {"cos"}] ELSE b)
    [] h.gk = "white" -> (IF g = 1 THEN [b EXCEPT !.forbidden = KnownFunctions \ {"abs", "sin", "fact"}, !.listing = "white"]
                          ELSE [b EXCEPT !.listing = "white"])
    [] h.gk = "required" -> (IF g = 1 THEN [b EXCEPT !.required = {"abs"}] ELSE [b EXCEPT !.forbidden = {"abs"}])
    [] h.gk = "userfn" -> (IF g = 1 THEN [b EXCEPT !.userfuncs = {"first"}] ELSE b)
HPlain(h) == [lower |-> h.l, upper |-> h.u, body |-> Catalogue[h.sid], var |-> "n"]
\* grader 1 of kind userfn writes its own lower limit with its own function
HAuthor(h, g) == IF h.gk = "userfn" /\ g = 1 THEN [HPlain(h) EXCEPT !.lower = FnLim(h.l, "first")] ELSE HPlain(h)

SubKinds == {"clean", "fnlow", "fnup", "fnbody", "shifted", "wrong"}
HSub(h, kind) ==
  LET a == HPlain(h) IN
  CASE kind = "clean" -> a
    [] kind = "fnlow" -> [a EXCEPT !.lower = FnLim(a.lower, F1(h.gk))]
    [] kind = "fnup" -> [a EXCEPT !.upper = FnLim(a.upper, F2(h.gk))]
    [] kind = "fnbody" -> [a EXCEPT !.body = [a.body EXCEPT !.calls = <<F1(h.gk)>>]]
    [] kind = "shifted" -> Transform(<<"shift", 1>>, a, Cut)
    \* the summation variable named after the function F1 -- a name with a meaning whether or not submissions may call it
    [] kind = "varfn" -> WithVar(a, F1(h.gk))
    [] kind = "wrong" -> Transform(<<"hi", -1>>, a, Cut)

Calls == [g : 1..2, s : SubKinds]
NoCall == [g |-> 0, s |-> "none"]
\* all histories of two calls, and those of three calls that end in the plain or the shifted text
Thirds == {NoCall} \cup [g : 1..2, s : (IF L > 3 THEN {"clean", "shifted"} ELSE {"clean"})]
HSeeds == {[kind |-> "seed", gk |-> k, sid |-> s, eo |-> e, l |-> l, u |-> u, c1 |-> c1] :
             c1 \in Calls \cup [g : 1..2, s : {"varfn"}], k \in GraderKinds, s \in (IF L > 3 THEN {"quad", "xlin"} ELSE {"quad"}), e \in {0},
             l \in {LInt(1)} \cup (IF L > 3 THEN {LInt(-2)} ELSE {}), u \in {LInt(4)}}
HCases(s) == [kind : {"hist"}, gk : {s.gk}, sid : {s.sid}, eo : {s.eo}, l : {s.l}, u : {s.u}, c1 : {s.c1},
               c2 : (IF s.c1.s = "varfn" THEN [g : {s.c1.g}, s : {"clean"}] ELSE Calls),
               c3 : (IF s.c1.s = "varfn" THEN {NoCall} ELSE Thirds)]
CallSeq(h) == IF h.c3 = NoCall THEN <<h.c1, h.c2>> ELSE <<h.c1, h.c2, h.c3>>

HInit == c \in HSeeds /\ io = "seed" /\ out = <<>>
HNext == /\ c.kind = "seed"
         /\ c' \in HCases(c)
         /\ io' = [graders |-> <<[aut |-> HAuthor(c', 1), cfg |-> HCfg(c', 1)], [aut |-> HAuthor(c', 2), cfg |-> HCfg(c', 2)]>>,
                   calls |-> [i \in 1..Len(CallSeq(c')) |-> [g |-> CallSeq(c')[i].g, stu |-> HSub(c', CallSeq(c')[i].s), pos |-> FieldOrder]]]
         /\ out' = [i \in 1..Len(io'.calls) |-> Allowed(io'.graders[io'.calls[i].g].aut, io'.calls[i].stu, Fields, io'.graders[io'.calls[i].g].cfg)]
IsHist == c.kind = "hist"

(* ---- laws *)
AllowedOf(g, kind) == Allowed(HAuthor(c, g), HSub(c, kind), Fields, HCfg(c, g))
\* the allowed outcome of a call is a function of (grader, submission) alone: equal calls anywhere in a history agree
LawHistoryIndependent == IsHist => \A i, j \in 1..Len(out) : (io.calls[i].g = io.calls[j].g /\ io.calls[i].stu = io.calls[j].stu) => out[i] = out[j]
LawCallDomain == IsHist => \A i \in 1..Len(out) : out[i] # {} /\ out[i] \subseteq Classes
\* the author's own text and its shifted form are correct wherever no function is required
LawPlainCorrect == IsHist => \A i \in 1..Len(out) :
                     (CallSeq(c)[i].s \in {"clean", "shifted"} /\ HCfg(c, io.calls[i].g).required = {}) => out[i] = {"correct"}
\* a forbidden, missing or unknown function is never accepted, an allowed one is
LawFunctionUse == IsHist /\ c.c2 = c.c1 /\ c.c3 = NoCall =>
  /\ c.gk \in {"black", "white"} => AllowedOf(1, "fnlow") = {"student_err"} /\ AllowedOf(2, "fnlow") = {"correct"}
                                     /\ AllowedOf(1, "fnup") = {"correct"} /\ AllowedOf(1, "fnbody") = {"student_err"}
  /\ c.gk = "required" => AllowedOf(1, "clean") = {"student_err"} /\ AllowedOf(1, "fnlow") = {"correct"}
                          /\ AllowedOf(2, "fnlow") = {"student_err"} /\ AllowedOf(2, "fnup") = {"correct"}
  /\ c.gk = "userfn" => AllowedOf(1, "fnlow") = {"correct"} /\ AllowedOf(2, "fnlow") = {"student_err"}
                        /\ AllowedOf(1, "clean") = {"correct"} /\ AllowedOf(2, "fnbody") = {"student_err"}
\* a function name is refused as summation variable by the grader that knows the function, permitted in answers or not
LawFunctionNameAsVariable == IsHist /\ c.c1.s = "varfn" /\ ~(c.gk = "userfn" /\ c.c1.g = 2) => out[1] = {"student_err"}
LawWrongIsNotCorrect == IsHist => \A i \in 1..Len(out) : CallSeq(c)[i].s = "wrong" => "correct" \notin out[i]
=============================================================================
