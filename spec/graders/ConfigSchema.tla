---------------------------- MODULE ConfigSchema ----------------------------
(* Property-level specification of configuration validation (C20).

   Every table in this module is written from the DOCUMENTATION of the library: the "Configuration options" /
   "Config" block of each class docstring first, the option listings in docs/*.md second; never from the
   voluptuous schemas.  Where the two sources contradict each other (or the documentation is silent) the value is
   classified "skip": nothing is demanded of such a configuration (it is constructed for the evidence only), and an
   option whose default the sources disagree on is left out of the default check (def = "NOCHECK").
   Whenever the oracle says "accept" the constructor must succeed, whenever it says "reject" it must raise a
   configuration / validation error (mitxgraders ConfigError or voluptuous Error); any other exception is a violation.

   A configuration is a function  option name -> abstract VALUE KIND  (the adapter owns the map kind -> concrete,
   unambiguous Python value).  The module answers, for a class and a configuration:
       Expect(cls, cfg)      "accept" | "reject" | "skip"
       DefaultsOf(cls, cfg)  the documented default token of every omitted option
   plus structural oracles for the answers formats (the Canon operators), ListGrader groupings (LGExpect), nested
   SingleListGrader delimiters (NestedExpect), SquareMatrices combinations (SquareExpect), and laws about the
   tables themselves that TLC checks. *)
EXTENDS Naturals, Sequences, FiniteSets, TLC

(* ====================================================================== value kinds
   concrete values used by the adapter (engine/adapters/c20.py):
     none None; bool_true/false; int_neg -3, int_zero 0, int_one 1, int_two 2, int_pos 7; float_neg -0.5, float_zero 0.0,
     float_frac 0.25, float_one 1.0, float_gt1 2.5; complex 1+2j; pct_ok '5%', pct_neg '-5%', str 'abc', str_empty '',
     str_char ';', str_comma ','; enum_x the string 'x'; callable_1 / callable_3 functions of 1 / 3 arguments;
     list_xy ['x','y'], list_ab ['a','b'], list_const ['pi'], list_fn ['sin','cos'], list_none1 [None], list_mixed ['x',3],
     list_int12 [1,2], list_int13 [1,3], list_float2 [0.5,2.5], list_num3 [1,2,3], list_num1 [3], list_callable [f,g],
     list_graders [StringGrader(), StringGrader()], list_shapes [1,[3,2],2,'square']; tuple_str ('x','y'), tuple_num (1,2.5),
     tuple_int1 (3,), tuple_int2 (2,3), tuple_int3 (2,3,4); dict_fn_f {'f': f}, dict_fn_sin {'sin': f},
     dict_fn_rand {'f': RandomFunction()}, dict_fn_list {'f': [f,g]}, dict_const_c {'c': 3.5}, dict_const_x {'x': 3.5},
     dict_fn_det {'det': f} (likewise adj, cross, ctrans, norm, trace, trans), list_infty ['infty'], dict_const_infty {'infty': 3.5},
     dict_const_pi {'pi': 3.5}, dict_const_del {'pi': None}, dict_const_arr {'A': MathArray([[1,2],[3,4]])}, dict_int_key {1: 3.5}, dict_str_str {'c': 'abc'},
     dict_sample_x {'x': [1,3]}, dict_range {'start': 2, 'stop': 4}, dict_asm {'is_raised': False, 'msg_detail': 'shape'},
     dict_asm_part {'is_raised': False}, dict_asm_bad {'is_raised': 'abc'}, dict_asm_unknown {'zz': 1}, dict_quad {'limit': 50};
     ans_ok the four required keys of a summation / integral answer (ans_missing: one missing, ans_extra: an extra key,
     ans_nonstr: a number instead of a string); pos_partial {'lower':1,'upper':2,summand:3}, pos_none (variable: None),
     pos_gap {'lower':1,'upper':3}, pos_repeat {'lower':1,'upper':1}, pos_unknown {'lower':1,'zz':2}; lans_ab ['a','b'];
     grader_x / sampler_x / credit_obj / comparer_obj default-constructed objects (grader_single uses delimiter ';');
     matharray MathArray([1., 2.]) *)
Bools   == {"bool_true", "bool_false"}
IntsPos == {"int_one", "int_two", "int_pos"}                 \* 1, 2, 7
IntsNN  == IntsPos \cup {"int_zero"}
Ints    == IntsNN \cup {"int_neg"}                           \* -3
F01     == {"float_zero", "float_frac", "float_one"}         \* 0.0, 0.25, 1.0
FNN     == F01 \cup {"float_gt1"}                            \* 2.5
FPos    == {"float_frac", "float_one", "float_gt1"}
Floats  == FNN \cup {"float_neg"}                            \* -0.5
StrG    == {"pct_ok", "pct_neg", "str", "str_empty", "str_char", "str_comma"}   \* '5%', '-5%', 'abc', '', ';', ','
StrNE   == StrG \ {"str_empty"}
Enums   == {"enum_err", "enum_msg", "enum_type", "enum_shape", "enum_proportional", "enum_upper", "enum_lower",
            "enum_diagonal", "enum_symmetric", "enum_antisymmetric", "enum_hermitian", "enum_antihermitian"}
\* {'det': f} ... : names of the functions functions_and_constants.md lists as MatrixGrader-only defaults
MatrixFnKinds == {"dict_fn_adj", "dict_fn_cross", "dict_fn_ctrans", "dict_fn_det", "dict_fn_norm", "dict_fn_trace", "dict_fn_trans"}
Callables    == {"callable_1", "callable_3"}                 \* plain functions of 1 / 3 arguments
CallableObjs == {"grader_string", "grader_formula", "grader_numerical", "grader_matrix", "grader_single", "grader_list",
                 "credit_obj", "comparer_obj"}               \* objects that merely happen to be callable
ItemGraderKinds == {"grader_string", "grader_formula", "grader_numerical", "grader_matrix", "grader_single"}
GraderKinds     == ItemGraderKinds \cup {"grader_list"}

\* kinds every option is probed with; the remaining ("specific") kinds are probed only where an option lists them
Generic == {"none"} \cup Bools \cup Ints \cup Floats \cup {"complex"} \cup StrG \cup
           {"list_empty", "list_xy", "list_mixed", "list_int12", "tuple_empty", "tuple_str", "tuple_num",
            "dict_empty", "dict_int_key", "callable_1", "grader_string", "sampler_real"}
Specific == Enums \cup Callables \cup CallableObjs \cup
            {"list_ab", "list_const", "list_fn", "list_none1", "list_int13", "list_float2", "list_num3", "list_num1",
             "list_callable", "list_graders", "list_shapes", "tuple_int1", "tuple_int2", "tuple_int3",
             "dict_fn_f", "dict_fn_sin", "dict_fn_rand", "dict_fn_list", "dict_const_c", "dict_const_x", "dict_const_pi",
             "dict_const_del", "dict_str_str", "dict_sample_x", "dict_range", "dict_asm", "dict_asm_part", "dict_asm_bad",
             "dict_asm_unknown", "dict_quad", "ans_ok", "ans_missing", "ans_extra", "ans_nonstr", "pos_partial", "pos_none",
             "pos_gap", "pos_repeat", "pos_unknown", "lans_ab", "sampler_discrete", "sampler_fn", "sampler_dependent", "matharray",
             "dict_const_arr", "list_infty", "dict_const_infty"} \cup MatrixFnKinds
Kinds == Generic \cup Specific

(* ====================================================================== option descriptors
   in    kinds inside the documented domain          skip  kinds the documentation does not decide
   outx  extra out-of-domain specific kinds to probe def   documented default token, or
         "REQUIRED" (no default, must be supplied), "NOCHECK" (present, value not documented / sources conflict),
         "OPTIONAL" (may be absent from the validated configuration) *)
O(in, skip, outx, def) == [in |-> in, skip |-> skip, outx |-> outx, def |-> def]

TBool(def)   == O(Bools, {}, {}, def)
TStr(def)    == O(StrG, {}, {}, def)
TCount1(def) == O(IntsPos, {}, {}, def)                          \* a count of at least one
TCount0(def) == O(IntsNN, {}, {}, def)                           \* a count, possibly zero
TFloat01(def) == O(F01, {}, {}, def)                             \* "float between 0 and 1"
TStrList(def) == O({"list_empty", "list_xy", "list_ab"}, {}, {}, def)
TRange(def)  == O({"list_int12", "list_float2"}, {"dict_range", "dict_empty"}, {"list_num3", "list_num1"}, def)
TRangeD(def) == O({"list_int12", "list_float2", "dict_range"}, {"dict_empty"}, {"list_num3", "list_num1"}, def)

Ext(base, over) == over @@ base                                   \* documented "as per <base>, except ..."
Without(f, S) == [k \in DOMAIN f \ S |-> f[k]]

(* ---------------------------------------------------------------------- graders *)
AbstractGraderOpts ==
     "debug" :> TBool("False")
  @@ "suppress_warnings" :> TBool("False")
  @@ "attempt_based_credit" :> O({"none", "callable_1", "credit_obj"}, {"callable_3"} \cup (CallableObjs \ {"credit_obj"}), {}, "None")
  @@ "attempt_based_credit_msg" :> TBool("True")

\* 'answers' of item graders is probed structurally (Canon operators below); here only its presence is recorded
ItemGraderOpts == Ext(AbstractGraderOpts,
     "answers" :> O({}, {}, {}, "NOCHECK")
  @@ "wrong_msg" :> TStr("s:"))

EnumEMN(def) == O({"enum_err", "enum_msg", "none"}, {}, {}, def)
StringGraderOpts == Ext(ItemGraderOpts,
     "case_sensitive" :> TBool("True") @@ "clean_spaces" :> TBool("True") @@ "strip" :> TBool("True")
  @@ "strip_all" :> TBool("False") @@ "accept_any" :> TBool("False") @@ "accept_nonempty" :> TBool("False")
  @@ "min_length" :> TCount0("n:0") @@ "min_words" :> TCount0("n:0")
  @@ "explain_minimums" :> EnumEMN("s:err")
  @@ "validation_pattern" :> O(StrG \cup {"none"}, {}, {}, "None")
  @@ "explain_validation" :> EnumEMN("s:err")
  @@ "invalid_msg" :> TStr("s:Your input is not in the expected format"))

Tolerance(def) == O(IntsNN \cup FNN \cup {"pct_ok"}, {}, {}, def)      \* number or percentage, "positive or zero"
MathOpts(samplesDef, tolDef) ==
     "user_functions" :> O({"dict_empty", "dict_fn_f", "dict_fn_rand", "dict_fn_list", "dict_fn_sin"} \cup MatrixFnKinds, {},
                           {"dict_const_c", "dict_str_str"}, "dict_empty")
  @@ "user_constants" :> O({"dict_empty", "dict_const_c", "dict_const_x", "dict_const_pi", "dict_const_del", "dict_const_arr",
                            "dict_const_infty"}, {},
                           {"dict_str_str", "dict_fn_f"}, "dict_empty")
  @@ "blacklist" :> O({"list_empty", "list_fn"}, {"list_xy"}, {"list_none1"}, "list_empty")
  @@ "whitelist" :> O({"list_empty", "list_fn", "list_none1"}, {"list_xy"}, {}, "list_empty")
  @@ "forbidden_strings" :> TStrList("list_empty")
  @@ "forbidden_message" :> TStr("s:Invalid Input: This particular answer is forbidden")
  @@ "required_functions" :> O({"list_empty", "list_xy", "list_fn"}, {}, {}, "list_empty")
  @@ "tolerance" :> Tolerance(tolDef)
  @@ "metric_suffixes" :> TBool("False")
  @@ "samples" :> TCount1(samplesDef)
  @@ "variables" :> O({"list_empty", "list_xy", "list_ab", "list_fn", "list_const", "list_infty"}, {}, {}, "list_empty")
  @@ "numbered_vars" :> O({"list_empty", "list_xy", "list_ab", "list_fn", "list_const", "list_infty"}, {}, {}, "list_empty")
  @@ "sample_from" :> O({"dict_empty", "dict_sample_x"}, {}, {"dict_str_str"}, "dict_empty")
  @@ "failable_evals" :> TCount0("n:0")
  @@ "instructor_vars" :> TStrList("list_empty")

FormulaGraderOpts == Ext(Ext(ItemGraderOpts, MathOpts("n:5", "pct:0.01")),
     "allow_inf" :> TBool("False"))

\* "Will always be 1 / an empty list / an empty dictionary / 0": the fixed value is in, other well-typed values skip
NumericalGraderOpts == Ext(FormulaGraderOpts,
     "user_functions" :> O({"dict_empty", "dict_fn_f", "dict_fn_sin"} \cup MatrixFnKinds, {}, {"dict_fn_rand", "dict_fn_list", "dict_const_c"}, "dict_empty")
  @@ "tolerance" :> Tolerance("pct:5")
  @@ "samples" :> O({"int_one"}, (Ints \ {"int_one"}) \cup {"float_one"}, {}, "n:1")
  @@ "variables" :> O({"list_empty"}, {"list_xy", "list_ab", "list_fn", "list_const", "list_infty"}, {}, "list_empty")
  @@ "numbered_vars" :> O({"list_empty"}, {"list_xy", "list_ab", "list_fn", "list_const", "list_infty"}, {}, "list_empty")
  @@ "sample_from" :> O({"dict_empty"}, {"dict_sample_x"}, {}, "dict_empty")
  @@ "failable_evals" :> O({"int_zero"}, (Ints \ {"int_zero"}) \cup {"float_zero"}, {}, "n:0"))

MatrixGraderOpts == Ext(FormulaGraderOpts,
     "identity_dim" :> O(IntsPos \cup {"none"}, {"int_zero"}, {}, "None")
  @@ "max_array_dim" :> O(IntsNN, {"none"}, {}, "n:1")
  @@ "negative_powers" :> TBool("True") @@ "shape_errors" :> TBool("True")
  @@ "suppress_matrix_messages" :> TBool("False")
  @@ "answer_shape_mismatch" :> O({"dict_asm", "dict_asm_part", "dict_empty"}, {}, {"dict_asm_bad", "dict_asm_unknown"}, "asm:True:type")
  @@ "entry_partial_credit" :> O(F01 \cup {"int_zero", "int_one", "enum_proportional"}, {}, {}, "OPTIONAL")
  @@ "entry_partial_msg" :> TStr("OPTIONAL")
     \* matrix_grader.md: MatrixGrader "does not have" allow_inf; supplying True is refused under every reading
  @@ "allow_inf" :> O({}, {"bool_false", "int_zero", "float_zero"}, {}, "OPTIONAL"))

Delimiter(def) == O({"str_char", "str_comma"}, StrG \ {"str_char", "str_comma"}, {}, def)
SingleListGraderOpts == Ext(ItemGraderOpts,
     "ordered" :> TBool("False") @@ "length_error" :> TBool("False") @@ "missing_error" :> TBool("True")
  @@ "delimiter" :> Delimiter("s:,") @@ "partial_credit" :> TBool("True")
  @@ "subgrader" :> O(ItemGraderKinds, {}, {"grader_list", "credit_obj", "list_graders"}, "REQUIRED"))

ListGraderOpts == Ext(AbstractGraderOpts,
     "ordered" :> TBool("False") @@ "partial_credit" :> TBool("True")
  @@ "subgraders" :> O(GraderKinds \cup {"list_graders"}, {"list_empty"}, {"credit_obj", "comparer_obj"}, "REQUIRED")
  @@ "grouping" :> O({"list_empty", "list_int12"}, {}, {"list_int13"}, "list_empty")
  @@ "answers" :> O({"lans_ab", "list_empty"}, {}, {}, "answers_empty"))

Brackets(def) == O(StrNE, {"str_empty"}, {}, def)
IntervalGraderOpts == Ext(ItemGraderOpts,
     "opening_brackets" :> Brackets("s:_LSQB_(") @@ "closing_brackets" :> Brackets("s:_RSQB_)")
  @@ "delimiter" :> Delimiter("s:,") @@ "partial_credit" :> TBool("True")
  @@ "subgrader" :> O({"grader_formula", "grader_numerical"}, {"grader_matrix", "none"}, {"grader_single", "grader_list"}, "interval_subgrader"))

Positions(def) == O({"pos_partial", "pos_none"}, {"dict_empty"}, {"pos_gap", "pos_repeat", "pos_unknown"}, def)
SummationAnswers == O({"ans_ok"}, {}, {"ans_missing", "ans_extra", "ans_nonstr"}, "REQUIRED")
IntegralGraderOpts == Ext(Ext(AbstractGraderOpts, MathOpts("n:1", "pct:0.01")),
     "answers" :> SummationAnswers
  @@ "complex_integrand" :> TBool("False")
  @@ "input_positions" :> Positions("pos:1234")
  @@ "integrator_options" :> O({"dict_empty", "dict_quad"}, {"dict_int_key"}, {}, "quad_default"))
SumGraderOpts == Ext(Ext(AbstractGraderOpts, MathOpts("NOCHECK", "n:1e-12")),
     "answers" :> SummationAnswers
  @@ "input_positions" :> Positions("pos:1234")
  @@ "infty_val" :> O(IntsPos, FPos, {}, "n:1000")
  @@ "infty_val_fact" :> O(IntsPos, FPos, {}, "n:80")
  @@ "even_odd" :> O({"int_zero", "int_one", "int_two"}, {"float_zero", "float_one"}, {}, "n:0"))

(* ---------------------------------------------------------------------- sampling sets *)
Num == Ints \cup Floats
\* "_value": the configuration given positionally instead of as options
RealIntervalOpts ==
     "start" :> O(Num, {}, {}, "n:1") @@ "stop" :> O(Num, {}, {}, "n:5")
  @@ "_value" :> O({"list_int12", "list_float2"}, {"dict_empty", "none"}, {"list_num3", "list_num1"}, "OPTIONAL")
IntegerRangeOpts ==
     "start" :> O(Ints, {}, {}, "n:1") @@ "stop" :> O(Ints, {}, {}, "n:5")
  @@ "_value" :> O({"list_int12"}, {"dict_empty", "none"}, {"list_float2", "list_num3", "list_num1"}, "OPTIONAL")
ComplexRectangleOpts == "re" :> TRange("range:1:3") @@ "im" :> TRange("range:1:3")
ComplexSectorOpts == "modulus" :> TRange("range:1:3") @@ "argument" :> TRange("range:0:1.5708")
DiscreteSetOpts ==
     "_value" :> O(Num \cup {"complex", "tuple_num", "matharray", "tuple_int1", "tuple_int2", "tuple_int3"}, {}, {}, "REQUIRED")
SpecificFunctionsOpts ==
     "_value" :> O({"callable_1", "callable_3", "list_callable"}, CallableObjs, {}, "REQUIRED")
RandomFunctionOpts ==
     "input_dim" :> TCount1("n:1") @@ "output_dim" :> TCount1("n:1") @@ "num_terms" :> TCount1("n:3")
  @@ "center" :> O(Num, {"complex"}, {}, "n:0")
  @@ "amplitude" :> O(IntsPos \cup FPos, {"int_zero", "int_neg", "float_zero", "float_neg"}, {}, "n:10")
  @@ "complex" :> TBool("False")
DependentSamplerOpts ==
     "depends" :> O({"list_empty", "list_xy"}, {"none"}, {}, "NOCHECK")
  @@ "formula" :> O({"str", "pct_ok", "pct_neg"}, {"str_empty", "str_char", "str_comma"}, {}, "REQUIRED")

ShapeVec == O(IntsPos \cup {"tuple_int1", "list_num1"}, {}, {"tuple_int2", "tuple_int3", "list_num3"}, "shape:3")
ShapeMat == O({"tuple_int2", "list_int12"}, {}, {"tuple_int1", "tuple_int3", "list_num1", "list_num3"}, "shape:2,2")
ShapeTen == O({"tuple_int3", "list_num3"}, {}, {"tuple_int1", "tuple_int2", "list_num1"}, "REQUIRED")
\* "complex is always True / False": the fixed value is in; the other boolean and numbers equal to the fixed one are undecided
Always(b, other) == O({b}, {other} \cup (IF b = "bool_true" THEN {"int_one", "float_one"} ELSE {"int_zero", "float_zero"}), {},
                      IF b = "bool_true" THEN "True" ELSE "False")
ArrayBase == "norm" :> TRangeD("range:1:5") @@ "complex" :> TBool("False")
RealVectorsOpts    == Ext(ArrayBase, "shape" :> ShapeVec @@ "complex" :> Always("bool_false", "bool_true"))
ComplexVectorsOpts == Ext(ArrayBase, "shape" :> ShapeVec @@ "complex" :> Always("bool_true", "bool_false"))
RealTensorsOpts    == Ext(ArrayBase, "shape" :> ShapeTen @@ "complex" :> Always("bool_false", "bool_true"))
ComplexTensorsOpts == Ext(ArrayBase, "shape" :> ShapeTen @@ "complex" :> Always("bool_true", "bool_false"))
Triangular == O({"none", "enum_upper", "enum_lower"}, {}, {"enum_diagonal"}, "None")
RealMatricesOpts    == Ext(ArrayBase, "shape" :> ShapeMat @@ "triangular" :> Triangular @@ "complex" :> Always("bool_false", "bool_true"))
ComplexMatricesOpts == Ext(ArrayBase, "shape" :> ShapeMat @@ "triangular" :> Triangular @@ "complex" :> Always("bool_true", "bool_false"))
\* square family: "The 'shape' property is not used" -> shape is not an option the documentation defines (Undocumented)
SquareBase == Ext(ArrayBase, "dimension" :> O({"int_two", "int_pos"}, {}, {}, "n:2"))
IdentityMatrixMultiplesOpts == Ext(SquareBase,
     "sampler" :> O({"sampler_real", "list_int12", "list_float2"}, {}, {"sampler_discrete", "sampler_dependent", "sampler_fn", "list_num3"}, "RealInterval:1:5"))
Symmetries == {"enum_diagonal", "enum_symmetric", "enum_antisymmetric", "enum_hermitian", "enum_antihermitian"}
SquareMatricesOpts == Ext(SquareBase,
     "symmetry" :> O(Symmetries \cup {"none"}, {}, {"enum_upper"}, "None")
  @@ "traceless" :> TBool("False")
  @@ "determinant" :> O({"none", "int_zero", "int_one"}, {"float_zero", "float_one"}, {}, "None"))
OrthogonalMatricesOpts == Ext(SquareBase, "unitdet" :> TBool("False"))
UnitaryMatricesOpts == Ext(SquareBase, "unitdet" :> TBool("False"))

(* ---------------------------------------------------------------------- comparers, credit schedules, SpecifyDomain *)
Transform == O({"none", "callable_1"}, {"callable_3"} \cup CallableObjs, {}, "None")
EqualityComparerOpts == "transform" :> Transform
MatrixEntryComparerOpts ==
     "transform" :> Transform
  @@ "entry_partial_credit" :> O(F01 \cup {"int_zero", "int_one", "enum_proportional"}, {}, {}, "n:0")
  @@ "entry_partial_msg" :> TStr("s:Some array entries are incorrect, marked below:_NL__LCUB_error_locations_RCUB_")
\* docstring: (None | number) / (str), default ''; comparer_functions.md: equals=float, messages (None | str) default None
Credit01(def, noneOK) == O(IF noneOK THEN F01 \cup {"none"} ELSE F01,
                           Ints \cup {"float_neg", "float_gt1"} \cup (IF noneOK THEN {} ELSE {"none"}), {}, def)
LinearComparerOpts ==
     "equals" :> Credit01("n:1", FALSE) @@ "proportional" :> Credit01("n:0.5", TRUE)
  @@ "offset" :> Credit01("None", TRUE) @@ "linear" :> Credit01("None", TRUE)
  @@ "equals_msg" :> TStr("NOCHECK") @@ "offset_msg" :> TStr("NOCHECK") @@ "linear_msg" :> TStr("NOCHECK")
  @@ "proportional_msg" :> TStr("s:The submitted answer differs from an expected answer by a constant factor.")
LinearCreditOpts ==
     "decrease_credit_after" :> TCount1("n:1") @@ "decrease_credit_steps" :> TCount1("n:4")
  @@ "minimum_credit" :> TFloat01("n:0.2")
GeometricCreditOpts == "factor" :> TFloat01("NOCHECK")       \* docstring: default 0.75, graders.md: defaults to 0.5
NoOpts == [k \in {} |-> 0]
SpecifyDomainOpts ==
     "input_shapes" :> O({"list_int12", "list_shapes", "list_num1", "list_num3"}, {"list_empty"}, {}, "REQUIRED")
  @@ "display_name" :> O(StrG \cup {"none"}, {}, {}, "None")
  @@ "min_length" :> O(IntsPos \cup {"none"}, {}, {}, "None")

Options ==
     "StringGrader" :> StringGraderOpts @@ "FormulaGrader" :> FormulaGraderOpts @@ "NumericalGrader" :> NumericalGraderOpts
  @@ "MatrixGrader" :> MatrixGraderOpts @@ "SingleListGrader" :> SingleListGraderOpts @@ "ListGrader" :> ListGraderOpts
  @@ "IntervalGrader" :> IntervalGraderOpts @@ "IntegralGrader" :> IntegralGraderOpts @@ "SumGrader" :> SumGraderOpts
  @@ "RealInterval" :> RealIntervalOpts @@ "IntegerRange" :> IntegerRangeOpts @@ "ComplexRectangle" :> ComplexRectangleOpts
  @@ "ComplexSector" :> ComplexSectorOpts @@ "DiscreteSet" :> DiscreteSetOpts @@ "SpecificFunctions" :> SpecificFunctionsOpts
  @@ "RandomFunction" :> RandomFunctionOpts @@ "DependentSampler" :> DependentSamplerOpts
  @@ "RealVectors" :> RealVectorsOpts @@ "ComplexVectors" :> ComplexVectorsOpts @@ "RealMatrices" :> RealMatricesOpts
  @@ "ComplexMatrices" :> ComplexMatricesOpts @@ "RealTensors" :> RealTensorsOpts @@ "ComplexTensors" :> ComplexTensorsOpts
  @@ "IdentityMatrixMultiples" :> IdentityMatrixMultiplesOpts @@ "SquareMatrices" :> SquareMatricesOpts
  @@ "OrthogonalMatrices" :> OrthogonalMatricesOpts @@ "UnitaryMatrices" :> UnitaryMatricesOpts
  @@ "EqualityComparer" :> EqualityComparerOpts @@ "MatrixEntryComparer" :> MatrixEntryComparerOpts
  @@ "LinearComparer" :> LinearComparerOpts @@ "LinearCredit" :> LinearCreditOpts @@ "GeometricCredit" :> GeometricCreditOpts
  @@ "ReciprocalCredit" :> NoOpts @@ "SpecifyDomain" :> SpecifyDomainOpts
Classes == DOMAIN Options

GraderClasses == {"StringGrader", "FormulaGrader", "NumericalGrader", "MatrixGrader", "SingleListGrader", "ListGrader",
                  "IntervalGrader", "IntegralGrader", "SumGrader"}
MathClasses == {"FormulaGrader", "NumericalGrader", "MatrixGrader", "IntegralGrader", "SumGrader"}
SquareFamily == {"IdentityMatrixMultiples", "SquareMatrices", "OrthogonalMatrices", "UnitaryMatrices"}
Positional == {"DiscreteSet", "SpecificFunctions"}             \* classes configured by a single positional value

(* option names the documentation leaves undecided for a class (sources conflict, or the option exists in the code but
   is documented as unused / not documented at all): supplying them is never judged *)
Undocumented(cls) ==
  CASE cls \in {"ListGrader", "IntegralGrader", "SumGrader"} -> {"wrong_msg"}    \* graders.md lists it for all graders
    [] cls \in {"FormulaGrader", "NumericalGrader"} -> {"max_array_dim"}          \* "Do not use this"
    [] cls = "IntervalGrader" -> {"ordered", "length_error", "missing_error"}     \* hard-wired, not documented
    [] cls \in SquareFamily -> {"shape"}                                          \* "The 'shape' property is not used"
    [] OTHER -> {}
\* documentation inconsistencies recorded in the evidence (ctx.extra['doc_conflict'])
DocConflicts == {
  <<"SumGrader", "samples", "docstring: default changed to 2; sum_grader.md: default 1">>,
  <<"SumGrader", "infty_val_fact", "sum_grader.md spells it inftY_val_fact">>,
  <<"AbstractGrader", "wrong_msg", "graders.md lists wrong_msg for all graders; docstrings define it for ItemGraders only">>,
  <<"GeometricCredit", "factor", "docstring: default 0.75; graders.md: defaults to 0.5">>,
  <<"LinearComparer", "equals", "docstring: None or number; comparer_functions.md: float">>,
  <<"LinearComparer", "equals_msg offset_msg linear_msg", "docstring: str, default empty; comparer_functions.md: None or str, default None">>,
  <<"SingleListGrader", "delimiter", "docstring: single character; single_list_grader.md: multi-character not disallowed">>,
  <<"MatrixGrader", "allow_inf", "matrix_grader.md: MatrixGrader does not have allow_inf; docstring: options as per FormulaGrader">>,
  <<"MatrixGrader", "identity_dim", "docstring: ?int; matrix_grader.md: positive integer">> }

(* ====================================================================== configurations *)
\* the smallest valid configuration of every class (required options only)
Base ==
  [cls \in Classes |->
     CASE cls = "SingleListGrader" -> ("subgrader" :> "grader_string")
       [] cls = "ListGrader" -> ("subgraders" :> "grader_string" @@ "answers" :> "lans_ab")
       [] cls \in {"IntegralGrader", "SumGrader"} -> ("answers" :> "ans_ok")
       [] cls = "DiscreteSet" -> ("_value" :> "tuple_num")
       [] cls = "SpecificFunctions" -> ("_value" :> "callable_1")
       [] cls = "DependentSampler" -> ("formula" :> "str")
       [] cls \in {"RealTensors", "ComplexTensors"} -> ("shape" :> "tuple_int3")
       [] cls = "SpecifyDomain" -> ("input_shapes" :> "list_num1")
       [] OTHER -> [k \in {} |-> "none"]]

\* general classification policies for values Python's type lattice makes debatable (None is out of domain wherever the
\* documentation does not mention it, except for the five options that list it under skip)
PolicySkip(o, k) ==
  \/ k \in Bools /\ o.in \cap (Ints \cup Floats) # {}                     \* bool where a number is documented
  \/ k \in Ints /\ o.in \cap Floats # {} /\ o.in \cap Ints = {}           \* int where a float is documented

\* the kind of value a default token denotes (tokens without an entry are not kind-checked)
DefKind ==
     "False" :> "bool_false" @@ "True" :> "bool_true" @@ "None" :> "none" @@ "n:0" :> "int_zero" @@ "n:1" :> "int_one"
  @@ "n:2" :> "int_two" @@ "n:3" :> "int_pos" @@ "n:4" :> "int_pos" @@ "n:5" :> "int_pos" @@ "n:10" :> "int_pos"
  @@ "n:80" :> "int_pos" @@ "n:1000" :> "int_pos" @@ "n:0.2" :> "float_frac" @@ "n:0.5" :> "float_frac"
  @@ "n:1e-12" :> "float_frac" @@ "s:" :> "str_empty" @@ "s:," :> "str_comma" @@ "s:err" :> "enum_err"
  @@ "pct:0.01" :> "pct_ok" @@ "pct:5" :> "pct_ok" @@ "list_empty" :> "list_empty" @@ "dict_empty" :> "dict_empty"
  @@ "range:1:3" :> "list_int12" @@ "range:1:5" :> "list_int12" @@ "range:0:1.5708" :> "list_float2"
  @@ "shape:3" :> "tuple_int1" @@ "shape:2,2" :> "tuple_int2" @@ "RealInterval:1:5" :> "sampler_real"
  @@ "asm:True:type" :> "dict_asm" @@ "interval_subgrader" :> "grader_numerical" @@ "answers_empty" :> "list_empty"
  @@ "s:Your input is not in the expected format" :> "str" @@ "s:_LSQB_(" :> "str" @@ "s:_RSQB_)" :> "str"
  @@ "s:Invalid Input: This particular answer is forbidden" :> "str"
  @@ "s:The submitted answer differs from an expected answer by a constant factor." :> "str"
  @@ "s:Some array entries are incorrect, marked below:_NL__LCUB_error_locations_RCUB_" :> "str"

(* ---- explicit "use the default" values.  Supplying such a value for an option must be the same as omitting the option:
   the same exposed configuration (the documented default), the same construct-again equality.
   (a) in-domain values that ARE the documented default and have a single concrete representative (None, True, False, [], {},
       (), '', ',', 0, 1);
   (b) in-domain empty dictionaries the documentation says are completed with defaults ("Unset keys take default values",
       integrator_options always carries full_output);
   (c) MARKERS: values the documentation does not list but the constructor treats as "not given" (None for the IntervalGrader
       subgrader, None / {} as the whole configuration of an interval sampler, None for DependentSampler.depends).  For a marker
       the documentation allows two readings -- out of domain (refused with a configuration error) or "use the default"
       (accepted, and then exactly like omission); exposing the marker itself is neither. *)
UnitKinds == {"none", "bool_true", "bool_false", "list_empty", "dict_empty", "tuple_empty", "str_empty", "str_comma", "int_zero", "int_one"}
Markers(cls) ==
  CASE cls = "IntervalGrader" -> {<<"subgrader", "none">>}
    [] cls \in {"RealInterval", "IntegerRange"} -> {<<"_value", "none">>, <<"_value", "dict_empty">>}
    [] cls = "DependentSampler" -> {<<"depends", "none">>}
    [] OTHER -> {}
CompletedDicts(cls) ==
  CASE cls = "MatrixGrader" -> {<<"answer_shape_mismatch", "dict_empty">>}
    [] cls = "IntegralGrader" -> {<<"integrator_options", "dict_empty">>}
    [] OTHER -> {}

\* options whose values are judged structurally (answers formats: the Canon operators and LGExpect below), not by kind
Structural(cls) == IF cls \in {"StringGrader", "FormulaGrader", "NumericalGrader", "MatrixGrader", "SingleListGrader",
                               "IntervalGrader", "ListGrader"} THEN {"answers"} ELSE {}

Verdict(cls, opt, k) ==
  IF opt \in Undocumented(cls) THEN "skip"
  ELSE IF opt \notin DOMAIN Options[cls] THEN "out"                       \* unknown option name
  ELSE LET o == Options[cls][opt] IN
       IF k \in o.in THEN "in"
       ELSE IF <<opt, k>> \in Markers(cls) THEN "marker"
       ELSE IF opt \in Structural(cls) \/ k \in o.skip \/ PolicySkip(o, k) THEN "skip" ELSE "out"

\* kinds an option is probed with in the single-deviation sweep
ProbeKinds(cls, opt) == LET o == Options[cls][opt] IN
                        IF opt \in Structural(cls) THEN o.in ELSE Generic \cup o.in \cup o.skip \cup o.outx

Equiv(cls, opt, k) ==
  /\ opt \in DOMAIN Options[cls]
  /\ LET o == Options[cls][opt] IN
     \/ <<opt, k>> \in Markers(cls)
     \/ k \in o.in /\ <<opt, k>> \in CompletedDicts(cls)
     \/ k \in o.in /\ k \in UnitKinds /\ o.def \in DOMAIN DefKind /\ DefKind[o.def] = k
EquivOpts(cls, cfg) == {opt \in DOMAIN cfg : Equiv(cls, opt, cfg[opt])}

MissingRequired(cls, cfg) == \E opt \in DOMAIN Options[cls] : Options[cls][opt].def = "REQUIRED" /\ opt \notin DOMAIN cfg

(* ---------------------------------------------------------------------- cross-option rules (math graders) *)
NamesOf(k) ==
  CASE k \in {"list_xy"} -> {"x", "y"}        [] k = "list_ab" -> {"a", "b"}      [] k = "list_const" -> {"pi"}
    [] k = "list_fn" -> {"sin", "cos"}        [] k = "dict_fn_f" -> {"f"}         [] k = "dict_fn_sin" -> {"sin"}
    [] k = "dict_fn_adj" -> {"adj"}           [] k = "dict_fn_cross" -> {"cross"} [] k = "dict_fn_ctrans" -> {"ctrans"}
    [] k = "dict_fn_det" -> {"det"}           [] k = "dict_fn_norm" -> {"norm"}   [] k = "dict_fn_trace" -> {"trace"}
    [] k = "dict_fn_trans" -> {"trans"}       [] k = "list_infty" -> {"infty"}    [] k = "dict_const_infty" -> {"infty"}
    [] k \in {"dict_fn_rand", "dict_fn_list"} -> {"f"}
    [] k = "dict_const_c" -> {"c"}            [] k = "dict_const_x" -> {"x"}      [] k = "dict_const_pi" -> {"pi"}
    [] k = "dict_sample_x" -> {"x"}           [] OTHER -> {}
Get(cfg, opt) == IF opt \in DOMAIN cfg THEN cfg[opt] ELSE "ABSENT"
Nonempty(k) == k \in {"list_fn", "list_none1", "list_xy", "list_ab", "list_const", "list_infty"}
DefaultConstants(cls, cfg) ==
  ({"pi", "e", "i", "j"} \cup (IF cls \in {"IntegralGrader", "SumGrader"} THEN {"infty"} ELSE {})
                         \cup (IF Get(cfg, "allow_inf") = "bool_true" THEN {"infty"} ELSE {}))
  \ (IF Get(cfg, "user_constants") = "dict_const_del" THEN {"pi"} ELSE {})     \* {'pi': None} removes the default constant
\* the default function table is per class: MatrixGrader has "all FormulaGrader functions ... as are the following extra functions"
DefaultFunctionsSample(cls) == {"sin", "cos"} \cup (IF cls = "MatrixGrader" THEN {"adj", "cross", "ctrans", "det", "norm", "trace", "trans"} ELSE {})
MathCross(cls, cfg) ==
  LET vars == NamesOf(Get(cfg, "variables"))       nvars == NamesOf(Get(cfg, "numbered_vars"))
      consts == NamesOf(Get(cfg, "user_constants")) funcs == NamesOf(Get(cfg, "user_functions"))
      override == (vars \cup nvars \cup consts) \cap DefaultConstants(cls, cfg) # {} \/ funcs \cap DefaultFunctionsSample(cls) # {}
      collide == vars \cap consts # {}
      orphan == ~(NamesOf(Get(cfg, "sample_from")) \subseteq vars \cup nvars)
  IN IF Nonempty(Get(cfg, "whitelist")) /\ Nonempty(Get(cfg, "blacklist")) THEN "bad"
     ELSE IF collide THEN "bad"
     ELSE IF override /\ Get(cfg, "suppress_warnings") # "bool_true" THEN "bad"
     ELSE IF orphan \/ nvars \cap (vars \cup consts) # {} THEN "skip"       \* not decided by the documentation
     ELSE "ok"

(* ====================================================================== SquareMatrices (docstring "special cases") *)
SquareExpect(c) ==   \* [symmetry, traceless, determinant ("none" | "zero" | "one"), complex, dimension]
  LET cplx == c.complex \/ c.symmetry \in {"hermitian", "antihermitian"}
      odd == c.dimension % 2 = 1
  IN
  IF c.determinant = "zero" /\ (c.traceless \/ (c.symmetry = "antisymmetric" /\ (cplx \/ ~odd))) THEN "reject"
  ELSE IF c.determinant = "one" /\ c.dimension = 2 /\ c.traceless /\
          ((c.symmetry \in {"diagonal", "symmetric"} /\ ~cplx) \/ c.symmetry = "hermitian") THEN "reject"
  ELSE IF c.determinant = "one" /\ odd /\ c.symmetry \in {"antisymmetric", "antihermitian"} THEN "reject"
  ELSE "accept"

\* the same rule on a kind configuration of SquareMatrices (int_two = 2, int_pos = 7)
SquareOfCfg(cfg) ==
  LET sym == Get(cfg, "symmetry") IN
  [symmetry |-> CASE sym = "enum_diagonal" -> "diagonal" [] sym = "enum_symmetric" -> "symmetric"
                  [] sym = "enum_antisymmetric" -> "antisymmetric" [] sym = "enum_hermitian" -> "hermitian"
                  [] sym = "enum_antihermitian" -> "antihermitian" [] OTHER -> "none",
   traceless |-> Get(cfg, "traceless") = "bool_true",
   determinant |-> CASE Get(cfg, "determinant") = "int_zero" -> "zero" [] Get(cfg, "determinant") = "int_one" -> "one" [] OTHER -> "none",
   complex |-> Get(cfg, "complex") = "bool_true",
   dimension |-> IF Get(cfg, "dimension") = "int_pos" THEN 7 ELSE 2]

(* SingleListGrader: a nested SingleListGrader must use another delimiter (grader_single uses ';' = str_char);
   ListGrader: unordered lists only with a single subgrader; the answers must fit the subgrader(s);
   SpecifyDomain: min_length needs exactly one shape *)
OtherCross(cls, cfg) ==
  CASE cls = "SingleListGrader" ->
         IF Get(cfg, "subgrader") = "grader_single" /\ Get(cfg, "delimiter") = "str_char" THEN "bad" ELSE "ok"
    [] cls = "ListGrader" ->
         LET subs == Get(cfg, "subgraders")  ans == Get(cfg, "answers")  grp == Get(cfg, "grouping") IN
         IF grp \notin {"ABSENT", "list_empty"} THEN "skip"                   \* groupings: LGExpect below
         ELSE IF ans \in {"ABSENT", "list_empty"} THEN (IF subs = "list_graders" THEN "skip" ELSE "ok")
         ELSE IF subs = "grader_list" THEN "bad"                              \* 'a' is not a list of answers
         ELSE IF subs = "list_graders" /\ Get(cfg, "ordered") # "bool_true" THEN "bad"
         ELSE "ok"
    [] cls = "SpecifyDomain" ->
         IF Get(cfg, "min_length") \in IntsPos /\ Get(cfg, "input_shapes") # "list_num1" THEN "bad" ELSE "ok"
    [] cls = "SquareMatrices" -> IF SquareExpect(SquareOfCfg(cfg)) = "reject" THEN "bad" ELSE "ok"
    [] OTHER -> "ok"

Cross(cls, cfg) ==
  LET a == IF cls \in MathClasses THEN MathCross(cls, cfg) ELSE "ok"
      b == OtherCross(cls, cfg)
  IN IF a = "bad" \/ b = "bad" THEN "bad" ELSE IF a = "skip" \/ b = "skip" THEN "skip" ELSE "ok"

(* ---------------------------------------------------------------------- the oracle *)
Expect(cls, cfg) ==
  LET vs == {Verdict(cls, opt, cfg[opt]) : opt \in DOMAIN cfg} IN
  IF MissingRequired(cls, cfg) \/ "out" \in vs THEN "reject"
  ELSE IF "_value" \in DOMAIN cfg /\ DOMAIN cfg # {"_value"} THEN "skip"      \* positional value and options mixed
  ELSE IF "skip" \in vs THEN "skip"
  ELSE LET x == Cross(cls, cfg) IN IF x = "bad" THEN "reject" ELSE IF x = "skip" THEN "skip"
                                    ELSE IF "marker" \in vs THEN "marker"       \* refused, or accepted exactly like omission
                                    ELSE "accept"
Accepts(cls, cfg) == Expect(cls, cfg) = "accept"

\* documented default of every omitted option, as <<option, token>> pairs
\* SquareMatrices docstring: "If 'hermitian' or 'antihermitian' are chosen, 'complex' is set to True"
\* RealInterval / IntegerRange: start is "the lower end", stop "the upper end"; nothing is said about start > stop, so the
\* default of the omitted end is not checked when the supplied end lies beyond it
DefaultToken(cls, cfg, opt) ==
  IF cls = "SquareMatrices" /\ opt = "complex" /\ Get(cfg, "symmetry") \in {"enum_hermitian", "enum_antihermitian"} THEN "True"
  ELSE IF cls \in {"RealInterval", "IntegerRange"} /\ opt = "start"
          /\ Get(cfg, "stop") \in {"int_zero", "int_neg", "float_neg", "float_zero", "float_frac"} THEN "NOCHECK"
  ELSE IF cls \in {"RealInterval", "IntegerRange"} /\ opt = "stop" /\ Get(cfg, "start") = "int_pos" THEN "NOCHECK"
  ELSE Options[cls][opt].def
\* (an option supplied with a "use the default" value counts as omitted)
DefaultsOf(cls, cfg) ==
  LET given == DOMAIN cfg \ EquivOpts(cls, cfg) IN
  IF "_value" \in given THEN {}
  ELSE {<<opt, DefaultToken(cls, cfg, opt)>> : opt \in (DOMAIN Options[cls] \ given) \ {"_value"}}

(* ====================================================================== answers of item graders
   An answer ITEM is  [form, expect, etup, grade, msg, ok, extra]:
     form "atom": a bare expect value (expect = <<a>>);   form "dict": a dictionary, expect = <<>> when the key is missing,
     etup: the expect value is written as a tuple;  grade/msg/ok: "absent" or a token;  extra: an unknown key is present.
   Answers: an item, or a sequence (tuple) of items.  Atoms: "e1" "e2" "e3" valid expect strings, "b_int" "b_none"
   "b_list" invalid ones. *)
GoodAtoms == {"e1", "e2", "e3"}
GradeIn == {"absent", "g0", "ghalf", "g1"}                    \* 0, 0.5, 1;  "gneg" -0.5, "g2" 2, "gstr" '1' are out
MsgIn == {"absent", "m_text", "m_empty"}                      \* "m_int" 5 is out
OkIn == {"absent", "computed", "true", "false", "partial"}    \* "bogus" 'maybe' is out
GradeToOk(g) == CASE g = "g0" -> "false" [] g = "g1" -> "true" [] OTHER -> "partial"
\* "in" | "out" | "skip" (an empty expect tuple is neither documented nor excluded)
ItemVerdict(it) ==
  IF it.form = "atom" THEN (IF it.expect[1] \in GoodAtoms THEN "in" ELSE "out")
  ELSE IF ~(/\ \A i \in 1..Len(it.expect) : it.expect[i] \in GoodAtoms
            /\ it.grade \in GradeIn /\ it.msg \in MsgIn /\ it.ok \in OkIn /\ ~it.extra) THEN "out"
  ELSE IF it.expect = <<>> THEN (IF it.etup THEN "skip" ELSE "out")         \* etup FALSE: the expect key is missing
  ELSE "in"
CanonItem(it) ==
  IF it.form = "atom" THEN [expect |-> it.expect, grade |-> "g1", msg |-> "m_empty", ok |-> "true"]
  ELSE LET g == IF it.grade = "absent" THEN "g1" ELSE it.grade IN
       [expect |-> it.expect, grade |-> g, msg |-> IF it.msg = "absent" THEN "m_empty" ELSE it.msg,
        ok |-> IF it.ok \in {"absent", "computed"} \/ g # "g1" THEN GradeToOk(g) ELSE it.ok]
\* answers value: [tup |-> BOOLEAN, items |-> sequence of items]  (tup FALSE: exactly one item, given bare)
AnswersExpect(a) == LET vs == {ItemVerdict(a.items[i]) : i \in 1..Len(a.items)} IN
                    IF "out" \in vs THEN "reject" ELSE IF "skip" \in vs THEN "skip" ELSE "accept"
CanonAnswers(a) == [i \in 1..Len(a.items) |-> CanonItem(a.items[i])]
\* the canonical form read back as an answers value (what Cls(obj.config) validates again)
AsItem(c) == [form |-> "dict", expect |-> c.expect, etup |-> TRUE, grade |-> c.grade, msg |-> c.msg, ok |-> c.ok, extra |-> FALSE]
AsAnswers(cs) == [tup |-> TRUE, items |-> [i \in 1..Len(cs) |-> AsItem(cs[i])]]

(* ---- the comparer a plain-string answer of a math grader is paired with (MatrixGrader docstring: "If either key is included,
   MatrixEntryComparer is used as the default comparer for that MatrixGrader instance with the given key values.  If neither key
   is provided, equality_comparer is used.")  ctx: the other options of the configuration (option -> kind) *)
KindTok == "enum_proportional" :> "s:proportional" @@ "float_frac" :> "n:0.25" @@ "float_one" :> "n:1" @@ "float_zero" :> "n:0"
        @@ "int_zero" :> "n:0" @@ "int_one" :> "n:1" @@ "str" :> "s:abc" @@ "str_empty" :> "s:" @@ "str_char" :> "s:;"
ComparerOf(cls, ctx) ==
  IF cls \notin {"FormulaGrader", "NumericalGrader", "MatrixGrader"} THEN [kind |-> "none", credit |-> "-", msg |-> "-"]
  ELSE IF cls = "MatrixGrader" /\ {"entry_partial_credit", "entry_partial_msg"} \cap DOMAIN ctx # {}
  THEN [kind |-> "entry",
        credit |-> IF "entry_partial_credit" \in DOMAIN ctx THEN KindTok[ctx["entry_partial_credit"]]
                   ELSE MatrixEntryComparerOpts["entry_partial_credit"].def,
        msg |-> IF "entry_partial_msg" \in DOMAIN ctx THEN KindTok[ctx["entry_partial_msg"]]
                ELSE MatrixEntryComparerOpts["entry_partial_msg"].def]
  ELSE [kind |-> "equality", credit |-> "-", msg |-> "-"]
\* answers together with other options: both must be acceptable
AnswersInContext(cls, ctx, a) ==
  LET e1 == Expect(cls, ctx @@ Base[cls])  e2 == AnswersExpect(a) IN
  IF e1 = "reject" \/ e2 = "reject" THEN "reject" ELSE IF e1 = "skip" \/ e2 = "skip" THEN "skip" ELSE "accept"

(* ====================================================================== answers of list graders
   An ALTERNATIVE is [form ("list" | "string" | "dict"), entries (sequence of answers values of the subgrader), more, estr,
   grade, msg]: a Python list of entries, the delimited string of them (SingleListGrader only), or the dictionary
   {'expect': ..., grade_decimal, msg} whose expect is the list (more = <<>>) or the TUPLE of the lists entries, more[1], more[2] ...
   ("You may also specify a tuple of values"); estr: the lists inside the dictionary are written as delimited strings.
   List answers: [bare (one alternative, not wrapped in a tuple), alts (sequence of alternatives), lenerr (length_error=True),
   delim (the configured delimiter)].
   ListGrader accepts a list or a tuple of lists only; SingleListGrader every form of the ItemGrader scheme.
   single_list_grader.md: "If you set length_error to True, then all answers in a tuple of lists ... must have the same length";
   without length_error the documentation does not decide lists of different lengths. *)
AltLists(alt) == <<alt.entries>> \o alt.more
AltExpect(cls, alt) ==
  LET ls == AltLists(alt)
      vs == UNION {{AnswersExpect(ls[k][i]) : i \in 1..Len(ls[k])} : k \in 1..Len(ls)} IN
  IF cls = "ListGrader" /\ (alt.form # "list" \/ alt.more # <<>>) THEN "reject"
  ELSE IF "reject" \in vs \/ alt.grade \notin GradeIn \/ alt.msg \notin MsgIn THEN "reject"
  ELSE IF "skip" \in vs \/ (\E k \in 1..Len(ls) : Len(ls[k]) = 0) \/ (cls = "ListGrader" /\ Len(alt.entries) = 1) THEN "skip"
  ELSE "accept"
AllLens(la) == UNION {{Len(AltLists(la.alts[i])[k]) : k \in 1..Len(AltLists(la.alts[i]))} : i \in 1..Len(la.alts)}
ListAnswersExpect(cls, la) ==
  LET vs == {AltExpect(cls, la.alts[i]) : i \in 1..Len(la.alts)}
      lens == AllLens(la) IN
  IF "reject" \in vs THEN "reject"
  ELSE IF Cardinality(lens) > 1 /\ cls = "SingleListGrader" /\ la.lenerr THEN "reject"
  ELSE IF "skip" \in vs \/ Cardinality(lens) > 1 THEN "skip"        \* lists of different lengths: not decided otherwise
  ELSE "accept"
CanonEntries(es) == [i \in 1..Len(es) |-> CanonAnswers(es[i])]
CanonAlt(cls, alt) ==
  LET ls == AltLists(alt)
      g == IF alt.grade = "absent" THEN "g1" ELSE alt.grade IN
  IF cls = "ListGrader" THEN CanonEntries(alt.entries)
  ELSE [expect |-> [k \in 1..Len(ls) |-> CanonEntries(ls[k])], grade |-> g,
        msg |-> IF alt.msg = "absent" THEN "m_empty" ELSE alt.msg, ok |-> GradeToOk(g)]
CanonListAnswers(cls, la) == [i \in 1..Len(la.alts) |-> CanonAlt(cls, la.alts[i])]

(* ====================================================================== ListGrader groupings
   case: [ordered, subs (sequence of subgrader kinds "item" | "list"), one (TRUE: a single subgrader subs[1], not a list),
          grouping (sequence of positive integers, <<>> when not given), nans (number of answers in each answer list),
          ntup (0: a bare list, k > 0: a tuple of k lists)]
   answers entries always fit the subgrader they are paired with (a list of two strings for a ListGrader subgrader). *)
RangeOf(s) == {s[i] : i \in 1..Len(s)}
MaxOf(S) == CHOOSE m \in S : \A x \in S : x <= m
GroupSize(grouping, g) == Cardinality({i \in 1..Len(grouping) : grouping[i] = g})
LGExpect(c) ==
  LET G == RangeOf(c.grouping)
      n == IF G = {} THEN 0 ELSE MaxOf(G)
      contiguous == G = 1..n
      sizes == {GroupSize(c.grouping, g) : g \in G}
  IN
  IF c.nans = 1 THEN "skip"                                    \* "does not work with a single answer": not documented
  ELSE IF c.nans = 0 THEN (IF c.one /\ c.grouping = <<>> /\ c.ntup = 0 THEN "accept" ELSE "skip")   \* answers = []
  ELSE IF ~c.one /\ Len(c.subs) # c.nans THEN "reject"         \* as many answers as subgraders
  ELSE IF ~c.one /\ ~c.ordered THEN "reject"                   \* unordered only with a single subgrader
  ELSE IF c.grouping = <<>> THEN "accept"
  ELSE IF ~contiguous THEN "reject"
  ELSE IF ~c.ordered /\ Cardinality(sizes) > 1 THEN "reject"   \* unordered groups have equal sizes
  ELSE IF c.one THEN
       (IF c.nans # n THEN "skip"
        ELSE IF c.subs[1] = "list" THEN (IF 1 \in sizes THEN "skip" ELSE "accept")
        ELSE IF \A s \in sizes : s > 1 THEN "reject" ELSE "skip")          \* several inputs need a ListGrader
  ELSE IF n # Len(c.subs) THEN "reject"                        \* one group per subgrader
  ELSE IF \E g \in G : GroupSize(c.grouping, g) > 1 /\ c.subs[g] # "list" THEN "reject"
  ELSE IF \E g \in G : GroupSize(c.grouping, g) = 1 /\ c.subs[g] = "list" THEN "skip"
  ELSE "accept"

(* ====================================================================== nested ListGraders
   The cross-option rules of a ListGrader also bind an INNER ListGrader that has no answers of its own and receives them from
   the outer grader: the outer construction must then raise the configuration error.
   case: [inner (ordered, subs, one, grouping of the inner grader), nin (entries of each answer list handed to the inner grader),
          oform ("single": the inner grader is the only subgrader of the outer one, ngroups answers;
                 "pair": subgraders = [inner, StringGrader()], answers = [inner list, string]), oordered, ngroups]
   The outer grouping gives the inner grader as many inputs as it needs (its own grouping length, or nin). *)
InnerInputs(c) == IF c.inner.grouping = <<>> THEN c.nin ELSE Len(c.inner.grouping)
InnerCase(c) == [ordered |-> c.inner.ordered, subs |-> c.inner.subs, one |-> c.inner.one, grouping |-> c.inner.grouping,
                 nans |-> c.nin, ntup |-> 0]
OuterCase(c) ==
  LET m == InnerInputs(c) IN
  IF c.oform = "single"
  THEN [ordered |-> c.oordered, subs |-> <<"list">>, one |-> TRUE,
        grouping |-> [i \in 1..(m * c.ngroups) |-> ((i - 1) \div m) + 1], nans |-> c.ngroups, ntup |-> 0]
  ELSE [ordered |-> c.oordered, subs |-> <<"list", "item">>, one |-> FALSE,
        grouping |-> [i \in 1..(m + 1) |-> IF i <= m THEN 1 ELSE 2], nans |-> 2, ntup |-> 0]
LNestExpect(c) ==
  LET a == LGExpect(InnerCase(c))  b == LGExpect(OuterCase(c)) IN
  IF a = "reject" \/ b = "reject" THEN "reject" ELSE IF a = "skip" \/ b = "skip" THEN "skip" ELSE "accept"

(* ====================================================================== nested SingleListGraders
   chain: delimiters from the outermost grader inwards; all must differ *)
\* tail: the innermost subgrader -- "none": a StringGrader; otherwise an IntervalGrader (a SingleListGrader subclass, so its
\* delimiter belongs to the chain) with its default delimiter ("default" = comma) or the named one
NestedFull(chain, tail) == chain \o (IF tail = "none" THEN <<>> ELSE IF tail = "default" THEN <<"comma">> ELSE <<tail>>)
NestedExpect(chain) == IF \A i, j \in 1..Len(chain) : i # j => chain[i] # chain[j] THEN "accept" ELSE "reject"

(* ====================================================================== IntervalGrader answers
   case: [form ("string" | "list"), open, close (bracket symbols; "two" = a two-character string), nbounds (number of
   expressions between the brackets), curly (TRUE: opening_brackets='[({', closing_brackets='])}' instead of the defaults)]
   Documented: a string such as '[1, 2)' or a list of four entries (opening bracket, lower, upper, closing bracket);
   brackets must be among the configured opening / closing characters.
   sub: "omitted" | "none" -- the subgrader option given explicitly as its "use the default" marker (Markers above): the case
   may then also be refused with a configuration error, otherwise it behaves exactly as with the option omitted. *)
IntervalExpect(c) ==
  LET opens == {"lsq", "lpar"} \cup (IF c.curly THEN {"lcub"} ELSE {})
      closes == {"rsq", "rpar"} \cup (IF c.curly THEN {"rcub"} ELSE {}) IN
  IF c.nbounds # 2 THEN "reject"
  ELSE IF c.open \notin opens \/ c.close \notin closes THEN "reject"
  ELSE "accept"

(* ====================================================================== laws about the tables (checked by TLC) *)
\* every documented default lies in the documented domain of its option
LawDefaultInDomain(cls, opt) ==
  LET o == Options[cls][opt] IN
  o.def \in DOMAIN DefKind => (DefKind[o.def] \in o.in \/ (o.def = "n:1" /\ "float_one" \in o.in))
\* the descriptor is well formed: in / skip / outx are disjoint sets of known kinds
LawDescriptor(cls, opt) ==
  LET o == Options[cls][opt] IN
  /\ o.in \subseteq Kinds /\ o.skip \subseteq Kinds /\ o.outx \subseteq Kinds
  /\ o.in \cap o.skip = {} /\ o.in \cap o.outx = {} /\ o.skip \cap o.outx = {}
\* the minimal configuration of every class is accepted, and stays accepted when an omitted option is supplied with
\* (the kind of) its own default;  an unknown option name is always refused
LawBaseAccepted(cls) == Accepts(cls, Base[cls])
LawDefaultNeutral(cls, opt) ==
  LET o == Options[cls][opt] IN
  (opt \notin DOMAIN Base[cls] /\ o.def \in DOMAIN DefKind /\ opt # "_value" /\ DefKind[o.def] \in o.in)
     => Accepts(cls, (opt :> DefKind[o.def]) @@ Base[cls])
LawUnknownRefused(cls, k) == cls \notin Positional => Expect(cls, ("zz_unknown_option" :> k) @@ Base[cls]) = "reject"
=============================================================================
