INIT Init
NEXT Next
CONSTANTS
  Part = "apply"
  Tier = "quick"
  MaxN = 60
INVARIANT LawFirstIsOne
INVARIANT LawBounded
INVARIANT LawNonIncreasing
INVARIANT LawValueInCands
INVARIANT LawLinearShape
INVARIANT LawGeometricRecurrence
INVARIANT LawGeometricSmall
INVARIANT LawReciprocalNearest
INVARIANT LawCanonicalAccepted
INVARIANT LawPercentInCands
INVARIANT LawWellFormed
INVARIANT LawNeverIncreases
INVARIANT LawZeroStaysZero
INVARIANT LawIdentityAtFullCredit
INVARIANT LawNoteIffChanged
INVARIANT LawClamp
INVARIANT LawFirstAttemptFree
INVARIANT LawTotal
INVARIANT LawFullMarksOnlyAtFullCredit
INVARIANT LawMonotoneAttempts
INVARIANT LawOffIsIdentity
INVARIANT LawMissing
INVARIANT LawJudgeSensitive
INVARIANT LawMissingSensitive
INVARIANT LawRoundsToOneIsIdentity
INVARIANT LawSameRoundingSameResult
