-------------------------- MODULE MC_ConfigSchema --------------------------
(* Model instance for C20.  TLC enumerates the cases of one Part, evaluates the property-level oracle of
   ConfigSchema on each (variable out) and checks the laws; the dump is replayed into the real constructors.
     single   per class: the minimal configuration and every single-option deviation over the probe kinds,
              an omitted required option, an unknown option name, the options the documentation leaves undecided
     mathx    per math grader: every combination of the options the cross-option rules mention
     answers  every answers format of an item grader up to the bounds, with the canonical tuple-of-dictionaries form
     listans  answers formats of ListGrader (list, tuple of lists) and SingleListGrader (list, delimited string, dictionary
              with a list, tuple of those), entries in every item-grader format, with the canonical form
     lgroup   ListGrader: ordered x subgraders x grouping x number of answers x tuple-of-lists
     lnest    two-level ListGraders: every inner ordered x subgraders x grouping x handed-down answers, under both outer forms
     nested   chains of nested SingleListGraders over three delimiters
     interval IntervalGrader answers: string / list form x brackets x number of bounds x configured brackets
     square   SquareMatrices: symmetry x traceless x determinant x complex x dimension *)
EXTENDS ConfigSchema
CONSTANTS Part, Big          \* Big: TRUE in the thorough tier (larger bounds)

VARIABLES c, out
Pairs(f) == {<<k, f[k]>> : k \in DOMAIN f}
IsCase == c.kind # "seed"

(* ---------------------------------------------------------------------- single *)
SingleOpts(cls) == DOMAIN Options[cls] \cup Undocumented(cls) \cup (IF cls \in Positional THEN {} ELSE {"zz_unknown_option"})
SingleVals(cls, opt) ==
  IF opt = "zz_unknown_option" THEN {"int_one"}
  ELSE IF opt \in Undocumented(cls) THEN {"bool_false", "str"}
  ELSE ProbeKinds(cls, opt) \cup (IF opt \in DOMAIN Base[cls] THEN {"ABSENT"} ELSE {})
SingleCfg(x) ==
  IF x.kind = "base" THEN Base[x.cls]
  ELSE IF x.val = "ABSENT" THEN Without(Base[x.cls], {x.opt})
  ELSE IF x.opt = "_value" THEN (x.opt :> x.val)                   \* a positional value replaces the whole configuration
  ELSE (x.opt :> x.val) @@ Base[x.cls]
SingleCases(cls) ==
  {[kind |-> "base", cls |-> cls, opt |-> "-", val |-> "-"]} \cup
  {x \in [kind : {"single"}, cls : {cls}, opt : SingleOpts(cls), val : Kinds \cup {"ABSENT"}] : x.val \in SingleVals(cls, x.opt)}
OutOf(cls, cfg) == [expect |-> Expect(cls, cfg), cfg |-> Pairs(cfg), defaults |-> DefaultsOf(cls, cfg),
                    equiv |-> EquivOpts(cls, cfg)]

(* ---------------------------------------------------------------------- mathx *)
MathXClasses == IF Big THEN {"FormulaGrader", "MatrixGrader", "SumGrader", "IntegralGrader"} ELSE {"FormulaGrader", "MatrixGrader"}
A == "ABSENT"
MathXDom == [variables |-> {A, "list_xy", "list_const", "list_ab", "list_infty"},
             numbered_vars |-> {A, "list_ab", "list_const"},
             user_constants |-> {A, "dict_const_c", "dict_const_x", "dict_const_pi", "dict_const_del"},
             user_functions |-> {A, "dict_fn_f", "dict_fn_sin", "dict_fn_det"},
             whitelist |-> {A, "list_fn", "list_none1"} \cup (IF Big THEN {"list_empty"} ELSE {}),
             blacklist |-> {A, "list_fn"} \cup (IF Big THEN {"list_empty"} ELSE {}),
             suppress_warnings |-> {A, "bool_true", "bool_false"},
             sample_from |-> IF Big THEN {A, "dict_sample_x", "dict_empty"} ELSE {A, "dict_sample_x"}]
MathXSpace(v, u) == [variables : {v}, numbered_vars : MathXDom.numbered_vars, user_constants : {u},
                     user_functions : MathXDom.user_functions, whitelist : MathXDom.whitelist, blacklist : MathXDom.blacklist,
                     suppress_warnings : MathXDom.suppress_warnings, sample_from : MathXDom.sample_from]
MathXOpts == {"variables", "numbered_vars", "user_constants", "user_functions", "whitelist", "blacklist",
              "suppress_warnings", "sample_from"}
MathXCfg(x) == LET S == {o \in MathXOpts : x.m[o] # A} IN [o \in S |-> x.m[o]] @@ Base[x.cls]

(* ---------------------------------------------------------------------- answers *)
AnswerClasses == IF Big THEN {"StringGrader", "FormulaGrader", "NumericalGrader", "MatrixGrader"}
                 ELSE {"StringGrader", "FormulaGrader", "MatrixGrader"}
\* other options the answers are combined with: every option that decides how answers are normalised, plus harmless ones
NoCtx == [k \in {} |-> "none"]
Contexts ==
     "none" :> NoCtx
  @@ "wrongmsg" :> ("wrong_msg" :> "str" @@ "debug" :> "bool_true")
  @@ "tol" :> ("tolerance" :> "pct_ok" @@ "user_functions" :> "dict_fn_f")
  @@ "epc_prop" :> ("entry_partial_credit" :> "enum_proportional")
  @@ "epc_num" :> ("entry_partial_credit" :> "float_frac")
  @@ "epc_zero" :> ("entry_partial_credit" :> "int_zero")
  @@ "epm" :> ("entry_partial_msg" :> "str")
  @@ "epm_empty" :> ("entry_partial_msg" :> "str_empty")
  @@ "epc_epm" :> ("entry_partial_credit" :> "float_one" @@ "entry_partial_msg" :> "str_char")
ContextsOf(cls) ==
  {"none", "wrongmsg"} \cup (IF cls = "StringGrader" THEN {} ELSE {"tol"})
  \cup (IF cls = "MatrixGrader" THEN {"epc_prop", "epc_num", "epc_zero", "epm", "epm_empty", "epc_epm"} ELSE {})
Atom(a) == [form |-> "atom", expect |-> <<a>>, etup |-> FALSE, grade |-> "absent", msg |-> "absent", ok |-> "absent", extra |-> FALSE]
Dict(e, t, g, m, k, x) == [form |-> "dict", expect |-> e, etup |-> t, grade |-> g, msg |-> m, ok |-> k, extra |-> x]
AtomItems == {Atom(a) : a \in {"e1", "e2", "b_int", "b_none", "b_list"}}
Expects1 == {<<a>> : a \in {"e1", "b_int"}}
ExpectsT == {<<"e1">>, <<"e1", "e2">>, <<"e2", "b_int">>, <<>>}          \* written as tuples; <<>> = empty tuple
GradeToks == {"absent", "g0", "ghalf", "g1", "gneg", "g2", "gstr"}
OkToks == {"absent", "computed", "true", "false", "partial", "bogus"}
\* all dictionaries over expect x grade x ok, a message on some, plus the structural oddities
DictItems ==
     {Dict(e, FALSE, g, m, k, FALSE) : e \in Expects1, g \in GradeToks, m \in {"absent", "m_text"}, k \in OkToks}
\cup {Dict(e, TRUE, g, "absent", k, FALSE) : e \in ExpectsT, g \in {"absent", "ghalf", "g2"}, k \in {"absent", "false", "bogus"}}
\cup {Dict(<<"e1">>, FALSE, "absent", m, "absent", x) : m \in {"m_empty", "m_int"}, x \in BOOLEAN}
\cup {Dict(<<>>, FALSE, g, "m_text", "absent", FALSE) : g \in {"absent", "g1"}}    \* the expect key is missing
Items == AtomItems \cup DictItems
\* representative items for tuples of answers
FewItems == {Atom("e1"), Atom("e2"), Atom("b_int"),
             Dict(<<"e2">>, FALSE, "ghalf", "m_text", "absent", FALSE), Dict(<<"e1", "e3">>, TRUE, "g0", "m_text", "absent", FALSE),
             Dict(<<"e3">>, FALSE, "absent", "absent", "false", FALSE), Dict(<<"e3">>, FALSE, "g2", "absent", "absent", FALSE),
             Dict(<<"e2">>, FALSE, "g1", "absent", "partial", TRUE)}
AnswerValues ==
     {[tup |-> FALSE, items |-> <<i>>] : i \in Items}
\cup {[tup |-> TRUE, items |-> <<>>]}
\cup {[tup |-> TRUE, items |-> <<i>>] : i \in FewItems}
\cup {[tup |-> TRUE, items |-> <<i, j>>] : i \in FewItems, j \in FewItems}
\cup (IF Big THEN {[tup |-> TRUE, items |-> <<i, j, k>>] : i \in FewItems, j \in FewItems, k \in FewItems} ELSE {})
AnswersOut(cls, ctx, a) == LET e == AnswersInContext(cls, Contexts[ctx], a) IN
  [expect |-> e, canon |-> IF e = "accept" THEN CanonAnswers(a) ELSE <<>>, ctx |-> Pairs(Contexts[ctx]),
   cmp |-> ComparerOf(cls, Contexts[ctx])]

(* ---------------------------------------------------------------------- listans *)
Bare(i) == [tup |-> FALSE, items |-> <<i>>]
Entries == {Bare(Atom("e1")), Bare(Atom("e2")), Bare(Dict(<<"e3">>, FALSE, "ghalf", "m_text", "absent", FALSE)),
            [tup |-> TRUE, items |-> <<Atom("e1"), Atom("e2")>>], Bare(Atom("b_int"))}
AtomEntries == {Bare(Atom("e1")), Bare(Atom("e2"))}
EntryLists(lo, hi) == UNION {[1..n -> Entries] : n \in lo..hi}
Alt(f, es, g, m) == [form |-> f, entries |-> es, more |-> <<>>, estr |-> FALSE, grade |-> g, msg |-> m]
\* dictionaries whose expect is a tuple of lists (of the same or of different lengths), written as lists or as delimited strings
L2 == <<Bare(Atom("e1")), Bare(Atom("e2"))>>
L3 == <<Bare(Atom("e2")), Bare(Atom("e1")), Bare(Atom("e3"))>>
L2d == <<Bare(Atom("e3")), Bare(Dict(<<"e1">>, FALSE, "ghalf", "absent", "absent", FALSE))>>
TupleAlts ==
     {[form |-> "dict", entries |-> es, more |-> mo, estr |-> st, grade |-> g, msg |-> "absent"] :
         es \in {L2, L3}, mo \in {<<L2>>, <<L3>>, <<L2, L3>>, <<L2, L2>>, <<L3, L3, L2>>}, st \in BOOLEAN, g \in {"absent", "ghalf"}}
\cup {[form |-> "dict", entries |-> es, more |-> mo, estr |-> FALSE, grade |-> "absent", msg |-> "m_text"] :
         es \in {L2, L2d}, mo \in {<<L2d>>, <<L2d, L3>>, <<L2, <<Bare(Atom("b_int")), Bare(Atom("e1"))>>>>}}
AltsOf(cls) ==
  IF cls = "ListGrader"
  THEN {Alt("list", es, "absent", "absent") : es \in EntryLists(1, IF Big THEN 3 ELSE 2)}
       \cup {Alt(f, <<Bare(Atom("e1")), Bare(Atom("e2"))>>, "absent", "absent") : f \in {"string", "dict"}}
  ELSE {Alt("list", es, "absent", "absent") : es \in EntryLists(1, IF Big THEN 3 ELSE 2)}
       \cup {Alt("dict", es, g, m) : es \in EntryLists(1, 2), g \in {"absent", "ghalf", "g0", "g2"}, m \in {"absent", "m_text", "m_int"}}
       \cup {Alt("string", es, "absent", "absent") : es \in UNION {[1..n -> AtomEntries] : n \in 1..3}}
       \cup TupleAlts
FewAlts(cls) == {a \in AltsOf(cls) : a.more = <<>> /\ Len(a.entries) = 2 /\ a.entries[1] = Bare(Atom("e1")) /\ a.msg # "m_int"}
                \cup {Alt("list", <<Bare(Atom("e2"))>>, "absent", "absent")}
                \cup (IF cls = "ListGrader" THEN {} ELSE {a \in TupleAlts : a.entries = L2 /\ Len(a.more) = 1 /\ a.grade = "absent"})
\* length_error and the delimiter matter for SingleListGrader only
ListAnswerShapes(cls) ==
     {[bare |-> TRUE, alts |-> <<a>>] : a \in AltsOf(cls)}
\cup {[bare |-> FALSE, alts |-> <<a>>] : a \in FewAlts(cls)}
\cup {[bare |-> FALSE, alts |-> <<a, b>>] : a \in FewAlts(cls), b \in FewAlts(cls)}
HasString(x) == \E i \in 1..Len(x.alts) : x.alts[i].form = "string" \/ x.alts[i].estr
ListAnswerValues(cls) ==
  IF cls = "ListGrader" THEN {[bare |-> x.bare, alts |-> x.alts, lenerr |-> FALSE, delim |-> "comma"] : x \in ListAnswerShapes(cls)}
  ELSE {[bare |-> x.bare, alts |-> x.alts, lenerr |-> le, delim |-> d] : x \in ListAnswerShapes(cls), le \in BOOLEAN, d \in {"comma", "semi"}}
       \ {y \in [bare : BOOLEAN, alts : {x.alts : x \in ListAnswerShapes(cls)}, lenerr : BOOLEAN, delim : {"semi"}] : ~HasString(y)}
ListAnswersOut(cls, la) == LET e == ListAnswersExpect(cls, la) IN
                           [expect |-> e, canon |-> IF e = "accept" THEN CanonListAnswers(cls, la) ELSE <<>>]

(* ---------------------------------------------------------------------- lgroup *)
SubsOne == {<<"item">>, <<"list">>}
SubsMany == {<<"item", "item">>, <<"list", "item">>, <<"item", "list">>, <<"list", "list">>} \cup
            (IF Big THEN {<<"item", "item", "item">>, <<"list", "item", "list">>} ELSE {})
MaxGroupLen == IF Big THEN 5 ELSE 4
Groupings == UNION {[1..n -> 1..3] : n \in 0..MaxGroupLen}
LGCases(ordered, subs) ==
  [kind : {"lgroup"}, ordered : {ordered}, subs : {subs}, one : {subs \in SubsOne}, grouping : Groupings,
   nans : 0..3, ntup : IF Big THEN 0..2 ELSE 0..1]

(* ---------------------------------------------------------------------- lnest *)
InnerGroupings == UNION {[1..n -> 1..2] : n \in 0..(IF Big THEN 4 ELSE 3)}
LNestCases(ordered, subs) ==
  [kind : {"lnest"},
   inner : [ordered : {ordered}, subs : {subs}, one : {subs \in SubsOne}, grouping : InnerGroupings],
   nin : IF Big THEN 1..3 ELSE 2..3, oform : {"single", "pair"}, oordered : BOOLEAN, ngroups : IF Big THEN 2..3 ELSE {2}]

(* ---------------------------------------------------------------------- nested *)
Delims == {"comma", "semi", "colon"}
Chains == UNION {[1..n -> Delims] : n \in 1..(IF Big THEN 4 ELSE 3)}

(* ---------------------------------------------------------------------- square *)
SquareSyms == {"none", "diagonal", "symmetric", "antisymmetric", "hermitian", "antihermitian"}
SquareSpace(sym) == [kind : {"square"}, symmetry : {sym}, traceless : BOOLEAN, determinant : {"none", "zero", "one"},
                     complex : BOOLEAN, dimension : IF Big THEN 2..5 ELSE 2..3]

(* ---------------------------------------------------------------------- interval *)
IntervalCases(form) ==
  [kind : {"interval"}, form : {form}, open : {"lsq", "lpar", "lcub", "rsq"} \cup (IF form = "list" THEN {"two"} ELSE {}),
   close : {"rsq", "rpar", "rcub", "lpar"} \cup (IF form = "list" THEN {"two"} ELSE {}), nbounds : 1..3, curly : BOOLEAN,
   wrap : {"bare", "tuple", "dict"}, sub : {"omitted", "none"}]

(* ---------------------------------------------------------------------- two-level enumeration *)
Seeds ==
  CASE Part = "single" -> {[kind |-> "seed", cls |-> cls] : cls \in Classes}
    [] Part = "mathx" -> {[kind |-> "seed", cls |-> cls, v |-> v, u |-> u] : cls \in MathXClasses, v \in MathXDom.variables,
                                                                              u \in MathXDom.user_constants}
    [] Part = "answers" -> {[kind |-> "seed", cls |-> cls, ctx |-> x] : cls \in AnswerClasses, x \in DOMAIN Contexts}
    [] Part = "listans" -> {[kind |-> "seed", cls |-> cls] : cls \in {"ListGrader", "SingleListGrader"}}
    [] Part = "lgroup" -> {[kind |-> "seed", ordered |-> o, subs |-> s] : o \in BOOLEAN, s \in SubsOne \cup SubsMany}
    [] Part = "lnest" -> {[kind |-> "seed", ordered |-> o, subs |-> s] : o \in BOOLEAN, s \in SubsOne \cup SubsMany}
    [] Part = "nested" -> {[kind |-> "seed", n |-> n] : n \in 1..(IF Big THEN 4 ELSE 3)}
    [] Part = "square" -> {[kind |-> "seed", symmetry |-> s] : s \in SquareSyms}
    [] Part = "interval" -> {[kind |-> "seed", form |-> f] : f \in {"string", "list"}}
Init == c \in Seeds /\ out = "seed"
Next ==
  /\ c.kind = "seed"
  /\ CASE Part = "single" -> /\ c' \in SingleCases(c.cls)
                              /\ out' = OutOf(c'.cls, SingleCfg(c'))
       [] Part = "mathx" -> /\ c' \in [kind : {"mathx"}, cls : {c.cls},
                                       m : MathXSpace(c.v, c.u)]
                            /\ out' = OutOf(c'.cls, MathXCfg(c'))
       [] Part = "answers" -> /\ c.ctx \in ContextsOf(c.cls)
                              /\ c' \in [kind : {"answers"}, cls : {c.cls}, ctx : {c.ctx}, ans : AnswerValues]
                              /\ out' = AnswersOut(c'.cls, c'.ctx, c'.ans)
       [] Part = "listans" -> /\ c' \in [kind : {"listans"}, cls : {c.cls}, la : ListAnswerValues(c.cls)]
                              /\ out' = ListAnswersOut(c'.cls, c'.la)
       [] Part = "lgroup" -> /\ c' \in LGCases(c.ordered, c.subs)
                             /\ out' = [expect |-> LGExpect(c')]
       [] Part = "lnest" -> /\ c' \in LNestCases(c.ordered, c.subs)
                            /\ out' = [expect |-> LNestExpect(c')]
       [] Part = "nested" -> /\ c' \in [kind : {"nested"}, chain : [1..c.n -> Delims], tail : {"none", "default"} \cup Delims]
                             /\ out' = [expect |-> NestedExpect(NestedFull(c'.chain, c'.tail))]
       [] Part = "square" -> /\ c' \in SquareSpace(c.symmetry)
                             /\ out' = [expect |-> SquareExpect(c')]
       [] Part = "interval" -> /\ c' \in IntervalCases(c.form)
                               /\ out' = [expect |-> IF c'.sub = "none" /\ IntervalExpect(c') = "accept" THEN "marker"
                                                      ELSE IntervalExpect(c')]

(* ---------------------------------------------------------------------- laws *)
\* table laws: evaluated once per class in the seed states of part "single"
TableSeed == Part = "single" /\ c.kind = "seed"
LawTablesDescriptor == TableSeed => \A opt \in DOMAIN Options[c.cls] : LawDescriptor(c.cls, opt)
LawTablesDefaults == TableSeed => \A opt \in DOMAIN Options[c.cls] : LawDefaultInDomain(c.cls, opt)
LawTablesNeutral == TableSeed => \A opt \in DOMAIN Options[c.cls] : LawDefaultNeutral(c.cls, opt)
LawTablesBase == TableSeed =>
  /\ LawBaseAccepted(c.cls)
  /\ Undocumented(c.cls) \cap DOMAIN Options[c.cls] = {}
  /\ DOMAIN Base[c.cls] \subseteq DOMAIN Options[c.cls]
LawTablesUnknown == TableSeed => \A k \in {"int_one", "str", "none", "list_empty"} : LawUnknownRefused(c.cls, k)
\* documented inheritance: the options common to all graders are judged alike in every grader class; whatever NumericalGrader
\* accepts FormulaGrader accepts ("as per FormulaGrader, except ..." only narrows); MatrixGrader accepts what FormulaGrader accepts
LawTablesInherit == (TableSeed /\ c.cls \in GraderClasses) =>
  \A opt \in DOMAIN AbstractGraderOpts : \A k \in Kinds : Verdict(c.cls, opt, k) = Verdict("StringGrader", opt, k)
LawNumericalRefines == (IsCase /\ c.kind \in {"single", "base"} /\ c.cls = "NumericalGrader" /\ out.expect = "accept") =>
  Expect("FormulaGrader", SingleCfg(c)) = "accept"
LawMatrixExtends == (IsCase /\ c.kind \in {"single", "base"} /\ c.cls = "FormulaGrader" /\ out.expect = "accept" /\ c.opt # "allow_inf"
                     /\ c.val \notin MatrixFnKinds) =>                 \* except overrides of the functions MatrixGrader adds
  Expect("MatrixGrader", SingleCfg(c)) = "accept"
LawExpectDomain == IsCase => out.expect \in {"accept", "reject", "skip", "marker"}
\* "use the default" values: dropping them leaves an accepted configuration with the same documented defaults; a marker
\* verdict arises only from a marker value
LawEquivNeutral == (IsCase /\ c.kind \in {"single", "mathx"} /\ out.expect \in {"accept", "marker"}) =>
  LET cfg == IF c.kind = "mathx" THEN MathXCfg(c) ELSE SingleCfg(c)
      rest == Without(cfg, out.equiv) IN
  /\ Expect(c.cls, rest) = "accept"
  /\ DefaultsOf(c.cls, rest) = out.defaults
  /\ (out.expect = "marker") <=> \E opt \in DOMAIN cfg : <<opt, cfg[opt]>> \in Markers(c.cls)
\* single deviations: the verdict of the deviating value decides, except where a cross-option rule speaks
LawSingleVerdict == (IsCase /\ c.kind = "single" /\ c.val # "ABSENT") =>
  LET v == Verdict(c.cls, c.opt, c.val) IN
  /\ v = "out" => out.expect = "reject"
  /\ out.expect = "accept" => v = "in"
  /\ (c.opt = "zz_unknown_option") => out.expect = "reject"
\* an omitted option is reported with its documented default, a supplied one is not
LawDefaultsComplete == (IsCase /\ c.kind \in {"single", "base", "mathx"}) =>
  LET cfg == IF c.kind = "mathx" THEN MathXCfg(c) ELSE SingleCfg(c)
      named == {p[1] : p \in out.defaults} IN
  /\ named \cap (DOMAIN cfg \ out.equiv) = {}
  /\ ("_value" \notin DOMAIN cfg \ out.equiv) => (DOMAIN Options[c.cls] \ {"_value"}) \subseteq named \cup DOMAIN cfg
\* mathx: suppressing warnings never turns an accepted configuration into a refused one, and whitelist+blacklist
\* is refused whatever else is configured
LawSuppressMonotone == (IsCase /\ c.kind = "mathx" /\ out.expect = "accept") =>
  Expect(c.cls, ("suppress_warnings" :> "bool_true") @@ MathXCfg(c)) = "accept"
LawWhiteBlack == (IsCase /\ c.kind = "mathx" /\ Nonempty(c.m.whitelist) /\ Nonempty(c.m.blacklist)) => out.expect = "reject"
\* answers: canonical form is a fixed point of re-validation; a bare item equals the one-tuple of it; validity is item-wise;
\* ok is determined by the grade unless the grade is 1
LawCanonFixedPoint == (IsCase /\ c.kind = "answers" /\ out.expect = "accept") =>
  /\ AnswersExpect(AsAnswers(out.canon)) = "accept"
  /\ CanonAnswers(AsAnswers(out.canon)) = out.canon
  /\ Len(out.canon) = Len(c.ans.items)
LawBareIsOneTuple == (IsCase /\ c.kind = "answers" /\ ~c.ans.tup) =>
  AnswersOut(c.cls, c.ctx, [tup |-> TRUE, items |-> c.ans.items]) = out
LawItemwise == (IsCase /\ c.kind = "answers") =>
  /\ (out.expect = "accept") <=> \A i \in 1..Len(c.ans.items) : ItemVerdict(c.ans.items[i]) = "in"
  /\ (out.expect = "reject") <=> \E i \in 1..Len(c.ans.items) : ItemVerdict(c.ans.items[i]) = "out"
\* the comparer of string answers: entry-wise exactly for a MatrixGrader given one of the two entry_partial options
LawComparer == (IsCase /\ c.kind = "answers") =>
  /\ (out.cmp.kind = "entry") <=> (c.cls = "MatrixGrader" /\ c.ctx \in {"epc_prop", "epc_num", "epc_zero", "epm", "epm_empty", "epc_epm"})
  /\ (out.cmp.kind = "none") <=> c.cls = "StringGrader"
  /\ out.expect = AnswersOut(c.cls, "none", c.ans).expect          \* in-domain context options never change the verdict
LawOkFromGrade == (IsCase /\ c.kind = "answers" /\ out.expect = "accept") =>
  \A i \in 1..Len(out.canon) : LET a == out.canon[i] IN
     /\ a.grade \in {"g0", "ghalf", "g1"} /\ a.msg \in {"m_empty", "m_text"} /\ a.ok \in {"true", "false", "partial"}
     /\ a.grade # "g1" => a.ok = GradeToOk(a.grade)
\* list answers: acceptance is alternative-wise; the canonical form has one entry per alternative and, inside it, one canonical
\* answers tuple per list entry; wrapping a single alternative in a tuple changes nothing
LawListAnswers == (IsCase /\ c.kind = "listans") =>
  /\ (out.expect = "reject") <=> \/ \E i \in 1..Len(c.la.alts) : AltExpect(c.cls, c.la.alts[i]) = "reject"
                                 \/ c.cls = "SingleListGrader" /\ c.la.lenerr /\ Cardinality(AllLens(c.la)) > 1
  /\ out.expect = "accept" =>
        /\ Len(out.canon) = Len(c.la.alts)
        /\ \A i \in 1..Len(out.canon) :
              LET ls == IF c.cls = "ListGrader" THEN <<out.canon[i]>> ELSE out.canon[i].expect IN
              /\ Len(ls) = 1 + Len(c.la.alts[i].more)
              /\ \A k \in 1..Len(ls) :
                    /\ Len(ls[k]) = Len(AltLists(c.la.alts[i])[k])
                    /\ \A j \in 1..Len(ls[k]) : AnswersExpect(AsAnswers(ls[k][j])) = "accept" /\ CanonAnswers(AsAnswers(ls[k][j])) = ls[k][j]
  \* with length_error every accepted configuration has lists of one length only; length_error never rescues a refused one
  /\ (out.expect = "accept" /\ c.la.lenerr) =>
        Cardinality(AllLens(c.la)) = 1
  /\ (out.expect = "reject" /\ ~c.la.lenerr) => ListAnswersExpect(c.cls, [c.la EXCEPT !.lenerr = TRUE]) = "reject"
  /\ ListAnswersExpect(c.cls, [c.la EXCEPT !.delim = "comma"]) = out.expect
  /\ ListAnswersOut(c.cls, [c.la EXCEPT !.bare = FALSE]) = out
\* lgroup: with a list of subgraders an unordered grader is never accepted; a non-contiguous grouping is never accepted;
\* renaming nothing but the order of inputs inside the grouping (reversal) does not change the verdict
Rev(s) == [i \in 1..Len(s) |-> s[Len(s) + 1 - i]]
LawLGUnorderedMany == (IsCase /\ c.kind = "lgroup" /\ ~c.one /\ ~c.ordered /\ c.nans > 1) => out.expect = "reject"
LawLGContiguous == (IsCase /\ c.kind = "lgroup" /\ out.expect = "accept" /\ c.grouping # <<>>) =>
  RangeOf(c.grouping) = 1..Cardinality(RangeOf(c.grouping))
LawLGReversal == (IsCase /\ c.kind = "lgroup") => LGExpect([c EXCEPT !.grouping = Rev(c.grouping)]) = out.expect
\* nested ListGraders: an inner unordered grader with a list of subgraders is never accepted once it is handed answers; an
\* accepted nest is accepted level by level; making the inner grader ordered never turns an accepted nest into a refused one
LawLNest == (IsCase /\ c.kind = "lnest") =>
  /\ (~c.inner.one /\ ~c.inner.ordered /\ c.nin > 1) => out.expect = "reject"
  /\ out.expect = "accept" => LGExpect(InnerCase(c)) = "accept" /\ LGExpect(OuterCase(c)) = "accept"
  /\ (out.expect = "accept" /\ ~c.inner.ordered) => LNestExpect([c EXCEPT !.inner.ordered = TRUE]) = "accept"
  /\ (c.oform = "pair" /\ ~c.oordered) => out.expect = "reject"
\* nested: acceptance iff the chain is injective; a prefix of an accepted chain is accepted
LawNestedInjective == (IsCase /\ c.kind = "nested") =>
  LET full == NestedFull(c.chain, c.tail) IN
  /\ (out.expect = "accept") <=> Cardinality(RangeOf(full)) = Len(full)
  /\ out.expect = "accept" => NestedExpect(c.chain) = "accept"          \* an IntervalGrader at the end only adds a delimiter
  /\ (c.tail = "default") => out.expect = NestedExpect(NestedFull(c.chain, "comma"))
LawNestedPrefix == (IsCase /\ c.kind = "nested" /\ out.expect = "accept" /\ Len(c.chain) > 1) =>
  NestedExpect(SubSeq(c.chain, 1, Len(c.chain) - 1)) = "accept"
\* square: hermitian symmetry makes the complex flag irrelevant; no symmetry and no determinant is always accepted
LawSquareHermitian == (IsCase /\ c.kind = "square" /\ c.symmetry \in {"hermitian", "antihermitian"}) =>
  SquareExpect([c EXCEPT !.complex = ~c.complex]) = out.expect
\* interval: enabling the curly brackets never turns an accepted answer into a refused one
LawIntervalCurly == (IsCase /\ c.kind = "interval" /\ out.expect = "accept" /\ ~c.curly) =>
  IntervalExpect([c EXCEPT !.curly = TRUE]) = "accept"
LawSquarePlain == (IsCase /\ c.kind = "square" /\ c.determinant = "none") => out.expect = "accept"
=============================================================================
