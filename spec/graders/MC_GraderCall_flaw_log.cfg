SPECIFICATION Spec
CONSTANTS
  Configured = FALSE
  MaxCalls = 3
  CommitAfterValidation = TRUE
  ResetLogAtStart = FALSE

INVARIANT NoStaleLog
