INIT Init
NEXT Next
