------------------------- MODULE IntervalGradingTrace -------------------------
(* Code -> spec binding for IntervalGrading (growth beyond the listed properties): every record is one real
   IntervalGrader call -- the answers (1-3 alternatives with random credit tables for brackets and bounds), the
   options, the submission in the generic form of IntervalGrading.tla and the observation (error class, or the grade
   as an exact fraction the observed float is within 1e-9 of, and the ok class).  A record is accepted iff the
   observation is the one IntervalGrading!Outcome documents.   Clauses: refusal-missing, refusal-class, refused,
   grade, ok.                                                                                                    *)
EXTENDS IntervalGrading, Json, IOUtils
Trace == ndJsonDeserialize(IOEnv.TRACE_FILE)
VARIABLE l

Range(f) == {f[i] : i \in DOMAIN f}
Clause(r) ==
  LET e == Outcome(r.ans, r.s, r.partial, Range(r.opening), Range(r.closing))
      o == r.obs
  IN IF e.k = "raise" THEN (IF o.k # "raise" THEN <<"refusal-missing">> ELSE IF o.cls # e.cls THEN <<"refusal-class", e.cls>> ELSE <<>>)
     ELSE IF o.k # "return" THEN <<"refused", e.grade[1], e.grade[2]>>
     ELSE IF <<o.grade[1], o.grade[2]>> # e.grade THEN <<"grade", e.grade[1], e.grade[2]>>
     ELSE IF o.ok # e.ok THEN <<"ok", e.grade[1], e.grade[2]>>
     ELSE <<>>
Verdict(i) == LET r == Trace[i]
                  cl == Clause(r)
              IN cl = <<>> \/ PrintT(<<"REJECT", r.id, cl>>)
Init == l = 0
Next == /\ l < Len(Trace)
        /\ l' = l + 1
        /\ Verdict(l + 1)
        /\ (l + 1 = Len(Trace)) => PrintT(<<"DONE", Len(Trace)>>)
=============================================================================
