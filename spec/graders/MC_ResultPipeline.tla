-------------------------- MODULE MC_ResultPipeline --------------------------
(* Model instance for C01.  The constants of ResultPipeline are given literally in the cfg files (one per part and
   tier); this module adds the laws about the property-level operators of ResultShape, which TLC evaluates once
   (ASSUME) before it explores the pipeline. *)
EXTENDS ResultPipeline

Grades == {Zero, Third, Half, One, Q(1, 6), Q(1, 4), Q(1, 9), Q(2, 3), Q(5, 6), Q(3, 2), Q(-1, 2), Q(2, 1)}
KeySets == {ItemKeys, ItemKeys \cup {"individual", "all_awarded"}, {"ok", "msg"}, {}}

ASSUME LawOk == \A g \in Grades : LawOkTotal(g) /\ LawOkExact(g)
ASSUME LawClasses == /\ \A g \in Grades : ClassOf(g) \in GradeClasses
                     /\ {ClassOf(g) : g \in Grades} = GradeClasses
ASSUME LawDefect == \A ok \in OkValues \cup {"other"}, cls \in GradeClasses, t \in BOOLEAN, k \in KeySets,
                       p \in SUBSET OkValues :
                         /\ LawDefectAgrees(ok, cls, t, k, p)
                         /\ LawPinnedOnlyAtOne(ok, cls, p)
\* the computed ok is always acceptable, whatever is pinned; without pinned values it is the only acceptable one
ASSUME LawComputedOk == \A cls \in {"zero", "one", "mid"}, p \in SUBSET OkValues :
                          /\ WellFormedFacts(OkOfClass(cls), cls, TRUE, ItemKeys, p)
                          /\ \A ok \in OkValues : WellFormedFacts(ok, cls, TRUE, ItemKeys, {}) => ok = OkOfClass(cls)
\* the palettes of the cfg are inside the tables
ASSUME Palettes == /\ AnsOpts \cup LeafAns \cup ListAns \subseteq DOMAIN AnsTable
                   /\ CmpReturns \cup LeafCmp \subseteq {"T", "F", "P"} \cup DOMAIN DictGrade \cup ErrEvents
                   /\ LeafCmp \cap ErrEvents = {}
                   /\ TableGrades \subseteq DOMAIN CreditVal
                   /\ MaxAlts <= Len(AltMark)
                   /\ PreOpts \subseteq {"reg", "other", "reg_other"}
                   /\ AttOpts \subseteq {"none"} \cup DOMAIN AttRaw
=============================================================================
