INIT Init
NEXT Next
CONSTANTS
  Part = "item"
  MaxAlts = 2
  MaxSamples = 3
  MaxCalls = 3
  Correlated = TRUE
  AnsOpts = {"a0", "a13", "a12", "a1", "a1f", "a1p", "a12f"}
  CmpReturns = {"T", "F", "P", "d0", "d13", "d12m", "Es", "Et", "Ea"}
  LeafAns = {}
  LeafCmp = {}
  TableGrades = {}
  ListAns = {}
  MaxItems = 1
  Layouts = {}
  TableOnly = {"g1212"}
  AttOpts = {"none", "c1", "c12", "c0", "c1e4", "c7e5", "c3e5"}
  OkRecomputed = TRUE
  ParentForcesChildDebug = FALSE
  PreOpts = {}
  AliasedDefaults = FALSE
INVARIANT InvStage
INVARIANT InvRaisedNoVerdict
INVARIANT InvGradesInUnit
INVARIANT InvStaleOk
INVARIANT InvStripped
INVARIANT InvDebugOnlyAtAppend
INVARIANT InvDebugShown
INVARIANT InvNoLeak
INVARIANT InvVerdictAgrees
INVARIANT InvListOrder
INVARIANT InvAllOrNothing
INVARIANT InvAloneSameAsInList
INVARIANT InvChildDebugAsConfigured
INVARIANT InvFamilyDebugAsConfigured
INVARIANT InvReturnedWellFormed
