--------------------------- MODULE MC_AttemptCredit ---------------------------
(* Model instance for C17.
   Part "sched": every built-in schedule of the grid x every attempt 1..MaxN; out = documented value(s); laws say the
                 documented formulas have the property (first = 1, bounded, non-increasing) plus cross-checks of the
                 exact arithmetic.  Replayed: schedule(n) of the real objects (drift monitor for the formulas).
   Part "apply": schedule (built-in grid, author-defined tables, feature off) x message flag x attempt (incl. 0 and
                 negative) x base result (single / list; grades 0, partial, 1; with and without messages), plus the
                 missing-attempt cases; out = the documented result.  Laws say the documented result is accepted by
                 the property-level Judge and has the algebraic properties the statement implies.  Replayed: real
                 grader calls. *)
EXTENDS AttemptCredit
CONSTANTS Part, Tier, MaxN

Quick == Tier = "quick"

\* ---- schedule grids
Mins == {0, 1000, 2000, 5000, 10000}
LinearGrid == {Linear(a, st, m) : a \in 1..6, st \in 1..6, m \in Mins}
LinearSub == {Linear(a, st, m) : a \in {1, 2, 4}, st \in {1, 3, 4}, m \in {0, 2000, 10000}}
GeomFactors == IF Quick THEN {0, 25, 50, 75, 90, 100} ELSE {0, 1, 10, 25, 33, 50, 60, 75, 90, 99, 100}
GeomGrid == {Geometric(a) : a \in GeomFactors}
AuthorT(vals, ty) == [k |-> "author", vals |-> vals, ty |-> ty]           \* ty: what the callable returns
Authors == { AuthorT(<<5000>>, "float"),                     \* not 1 on the first attempt: attempts < 1 must use it too
             AuthorT(<<10000, 0>>, "int"),                   \* returns the integers 1, 0
             AuthorT(<<0>>, "int"),
             AuthorT(<<10000>>, "int"),
             AuthorT(<<10000, 3333, 6667, 1>>, "float"),     \* not monotone; smallest positive credit
             AuthorT(<<9999, 9999, 1250>>, "float"),
             AuthorT(<<2500, 10000, 625, 5905>>, "float") }  \* 6.25 % and 59.05 % are rounding ties of the note
\* author-defined callables whose values lie on and next to the boundaries of the 4-decimal rounding (1e-9 units):
\* just below 1 (rounds to 1: nothing may change, no note), just below that (rounds to 0.9999), exact ties, 1 - 1e-9,
\* exactly 1.0 as float / numpy scalar, pairs that round to the same credit from both sides, just above 0
Fines == { Author9(<<999990000, 999949000, 999950000, 999960000, 999999999, 1000000000>>, "float"),
           Author9(<<1000000000, 999999999, 999950001, 999949999>>, "numpy"),
           Author9(<<1000000000>>, "float"),
           Author9(<<333349999, 333250001, 333300000, 500049000, 499951000>>, "float"),
           Author9(<<123450000, 50000, 49999, 50001, 1, 0>>, "float") }
SchedSeeds == LinearGrid \cup GeomGrid \cup {Reciprocal}
ApplySeeds == (IF Quick THEN LinearSub \cup {Geometric(a) : a \in {0, 50, 75, 100}} ELSE LinearGrid \cup GeomGrid)
              \cup {Reciprocal} \cup Authors \cup Fines \cup {Off}

\* ---- attempts (cfg files cannot hold negative numbers)
AttemptsQuick == {-3, -1, 0} \cup 1..8 \cup {12, 33, 60}
AttemptsLinear == {-3, -1, 0} \cup 1..13 \cup {60, 200}                  \* after + steps <= 12
AttemptsThorough == {-7, -3, -2, -1, 0} \cup 1..30 \cup {32, 33, 59, 60, 61, 100, 160, 199, 200}
AttemptsFor(s) == IF s.k = "authorfine" THEN {-1, 0} \cup 1..Len(s.vals9)
                  ELSE IF Quick THEN AttemptsQuick ELSE IF s.k = "linear" THEN AttemptsLinear ELSE AttemptsThorough

\* ---- base results
E(g, m) == [g |-> g, m |-> m]
SingleBases == {<<E(g, m)>> : g \in {0, 1, 2500, 3333, 5000, 10000}, m \in BOOLEAN}
E2 == {E(0, FALSE), E(0, TRUE), E(5000, FALSE), E(10000, TRUE)}
ListBases == {<<a, b>> : a \in E2, b \in E2}                       \* ListGrader needs at least two inputs
             \cup {<<E(0, FALSE), E(0, FALSE), E(0, TRUE)>>, <<E(10000, FALSE), E(10000, TRUE), E(10000, FALSE)>>,
                   <<E(0, FALSE), E(3333, TRUE), E(10000, FALSE)>>, <<E(1, FALSE), E(10000, FALSE), E(2500, TRUE)>>}
Bases == [form : {"single"}, base : SingleBases] \cup [form : {"list"}, base : ListBases]

VARIABLES c, out
Seeds == IF Part = "sched" THEN {[kind |-> "seed", s |-> s, flag |-> FALSE] : s \in SchedSeeds}
         ELSE {[kind |-> "seed", s |-> s, flag |-> f] : s \in ApplySeeds, f \in BOOLEAN}
Init == c \in Seeds /\ out = [seed |-> TRUE]

ApplyOut(x) == LET cv == Value(x.s, Eff(x.n)) IN
               [c |-> cv, v9 |-> Raw9(x.s, Eff(x.n)), cCands |-> Cands(x.s, Eff(x.n)),          \* cCands: both neighbours at a rounding tie of the formula
                res |-> Canonical(x.fb.base, cv, x.n, x.flag), notePs |-> {10 * p : p \in RoundCands(cv, 10)}]
NextSched == /\ c' \in [kind : {"sched"}, s : {c.s}, n : 1..MaxN]
             /\ out' = [v |-> Value(c'.s, c'.n), cands |-> Cands(c'.s, c'.n), nextCands |-> Cands(c'.s, c'.n + 1)]
NextApply == /\ c' \in [kind : {"apply"}, s : {c.s}, flag : {c.flag}, n : AttemptsFor(c.s), fb : Bases]
             /\ out' = ApplyOut(c')
NextMissing == /\ c.s.k # "off"
               /\ c' \in [kind : {"missing"}, s : {c.s}, flag : {c.flag}, fb : Bases]
               /\ out' = [raised |-> "ConfigError"]
Next == /\ c.kind = "seed"
        /\ IF Part = "sched" THEN NextSched ELSE (NextApply \/ NextMissing)

IsSched == c.kind = "sched"
IsApply == c.kind = "apply"

\* ================================================================= laws, part "sched"
LawFirstIsOne == IsSched /\ c.n = 1 => out.cands = {Unit}
LawBounded == IsSched => \A v \in out.cands : Lo(c.s) <= v /\ v <= Unit
LawNonIncreasing == IsSched => \A v \in out.cands, w \in out.nextCands : w <= v
LawValueInCands == IsSched => out.v \in out.cands /\ Cardinality(out.cands) <= 2
                              /\ \A v \in out.cands, w \in out.cands : Abs(v - w) <= 1
\* LinearCredit: plateau, floor, and on the slope the loss of credit is proportional to the number of steps taken
LawLinearShape == IsSched /\ c.s.k = "linear" =>
                     LET st == c.n - c.s.after IN
                     /\ (st <= 0 => out.v = Unit)
                     /\ (st >= c.s.steps => out.v = c.s.min)
                     /\ (st > 0 /\ st < c.s.steps => 2 * Abs(c.s.steps * (Unit - out.v) - st * (Unit - c.s.min)) <= c.s.steps)
\* GeometricCredit: consecutive values differ by the factor (up to the two roundings); small exponents computed directly
LawGeometricRecurrence == IsSched /\ c.s.k = "geometric" =>
                             \A v \in out.cands, w \in out.nextCands : 2 * Abs(100 * w - c.s.a * v) <= 100 + c.s.a
LawGeometricSmall == IsSched /\ c.s.k = "geometric" =>
                        LET a == c.s.a IN
                        /\ (c.n = 3 => out.cands = {a * a})
                        /\ (c.n = 4 => out.cands = RoundCands(a * a * a, 100))
                        /\ (c.n = 5 => out.cands = RoundCands(a * a * a * a, 10000))
                        /\ (a = 100 => out.cands = {Unit})
                        /\ (a = 0 /\ c.n > 1 => out.cands = {0})
LawReciprocalNearest == IsSched /\ c.s.k = "reciprocal" => \A v \in out.cands : 2 * Abs(c.n * v - Unit) <= c.n

\* ================================================================= laws, part "apply"
Base == c.fb.base
VOut == [lo |-> out.v9, hi |-> out.v9]
\* a value the procedure rounds to full credit leaves everything alone, whatever the raw value was
LawRoundsToOneIsIdentity == IsApply /\ out.v9 >= 999950001 => out.res = Unchanged(Base)
\* values that round to the same credit give the same result
LawSameRoundingSameResult == IsApply /\ c.s.k = "authorfine" =>
                                out.res = Canonical(Base, RoundHalfEven(out.v9, Fine), c.n, c.flag)
\* the documented result is accepted by the property-level judge, for every admissible rounding of the percentage
LawCanonicalAccepted == IsApply => \A p \in out.notePs :
                           Judge(Base, VOut, c.n, c.flag, [out.res EXCEPT !.noteP = IF out.res.notes = 1 THEN p ELSE 0]) = "ok"
\* the judge is not vacuous: every single-field corruption of the documented result is rejected
Corruptions(r, x) ==
    LET e1 == r.entries[1] IN
    { [r EXCEPT !.entries[1].ok = IF e1.ok = "partial" THEN "true" ELSE "partial"],
      [r EXCEPT !.entries[1].g8 = e1.g8 + 2],                 \* + 1 can be the other neighbour of a rounding tie
      [r EXCEPT !.entries[1].exact = FALSE],
      [r EXCEPT !.entries[1].lt = ~e1.lt],
      [r EXCEPT !.entries[1].is1 = ~e1.is1],
      [r EXCEPT !.entries[1].kept = FALSE],
      [r EXCEPT !.entries = Tail(r.entries)],
      [r EXCEPT !.raised = "ZeroDivisionError"],
      IF r.notes = 1 THEN [r EXCEPT !.notes = 0] ELSE [r EXCEPT !.notes = 1, !.noteN = Eff(x.n), !.noteP = Percent(out.c)],
      IF r.notes = 1 THEN [r EXCEPT !.notes = 2] ELSE [r EXCEPT !.raised = "x"],
      IF r.notes = 1 THEN [r EXCEPT !.noteN = Eff(x.n) + 1] ELSE [r EXCEPT !.raised = "x"],
      IF r.notes = 1 THEN [r EXCEPT !.noteP = r.noteP + 20] ELSE [r EXCEPT !.raised = "x"],
      IF r.notes = 1 THEN [r EXCEPT !.notePexact = FALSE] ELSE [r EXCEPT !.raised = "x"] }
LawJudgeSensitive == IsApply => \A bad \in Corruptions(out.res, c) : Judge(Base, VOut, c.n, c.flag, bad) # "ok"
LawMissingSensitive == c.kind = "missing" => JudgeMissing("none") # "ok" /\ JudgeMissing("TypeError") # "ok"
LawPercentInCands == IsApply /\ out.res.notes = 1 => out.res.noteP \in out.notePs
LawWellFormed == IsApply => \A i \in DOMAIN Base :
                    LET e == out.res.entries[i] IN e.g8 >= 0 /\ e.g8 <= Unit2 /\ e.ok = OkOf8(e.g8)
LawNeverIncreases == IsApply => \A i \in DOMAIN Base : out.res.entries[i].g8 <= Base[i].g * Unit
LawZeroStaysZero == IsApply => \A i \in DOMAIN Base : Base[i].g = 0 => out.res.entries[i].g8 = 0 /\ out.res.entries[i].ok = "false"
LawIdentityAtFullCredit == IsApply /\ out.c = Unit => out.res = Unchanged(Base)
LawNoteIffChanged == IsApply => ((out.res.notes = 1) <=> (c.flag /\ Grades8(out.res) # Grades8(Unchanged(Base))))
LawClamp == IsApply /\ c.n < 1 => out = ApplyOut([c EXCEPT !.n = 1])
LawFirstAttemptFree == IsApply /\ IsBuiltin(c.s) /\ c.n <= 1 => out.res = Unchanged(Base)
LawTotal == IsApply => SumInts(Grades8(out.res)) = out.c * SumInts([i \in DOMAIN Base |-> Base[i].g])
LawFullMarksOnlyAtFullCredit == IsApply => \A i \in DOMAIN Base :
                                   out.res.entries[i].ok = "true" => Base[i].g = Unit /\ out.c = Unit
LawMonotoneAttempts == IsApply /\ IsBuiltin(c.s) /\ c.n >= 1 =>
                          \A i \in DOMAIN Base : NewGrade8(Base[i], Value(c.s, c.n + 1)) <= out.res.entries[i].g8
LawOffIsIdentity == IsApply /\ c.s.k = "off" => out.res = Unchanged(Base)
LawMissing == c.kind = "missing" => JudgeMissing(out.raised) = "ok"
=============================================================================
