INIT Init
NEXT Next
CONSTANTS
  Part = "rect"
  Tier = "thorough"
INVARIANT LawNonEmpty
INVARIANT LawShape
INVARIANT LawOptimal
INVARIANT LawOrderedTotal
INVARIANT LawEquivariant
INVARIANT LawRelabel
INVARIANT LawOrderedNoBetter
INVARIANT LawPartialCredit
INVARIANT LawMoreLists
INVARIANT LawTreeAgrees
INVARIANT LawEvalSound
INVARIANT LawEvalComplete
INVARIANT LawDuality
INVARIANT LawGroupMap
INVARIANT LawRoundTrip
INVARIANT LawValidTree
INVARIANT LawValueIsAverage
INVARIANT LawGroupedAllOrNothing
