------------------------- MODULE AttemptCreditTrace -------------------------
(* Code -> spec binding for C17.  Every record is one observation of the real code:
     credit   the values schedule(1), schedule(2), ... of a real schedule object in 1e-8 units   -> ScheduleOK
     scaled   a real grader call with attempt = n next to the same call without the feature       -> Judge
     missing  a real grader call with the feature on and no attempt                               -> JudgeMissing
     formula  the values of a built-in schedule in 1e-4 units against the documented formula       (drift monitor:
              the adapter reports a rejection of this kind as DRIFT, never as a violation)
     steplog  the "Attempt number" / "Maximum credit" lines of the grader's debug log against the step model
              AttemptCreditSteps (drift monitor as well)
   A record is accepted iff its clause is "ok"; otherwise the first broken clause is printed. *)
EXTENDS AttemptCredit, Json, IOUtils
Trace == ndJsonDeserialize(IOEnv.TRACE_FILE)
VARIABLE l
Clause(r) == CASE r.ev = "credit" -> ScheduleVerdict(r.vals8, r.lo8, Unit2, r.first_one)
               [] r.ev = "scaled" -> Judge(r.base, r.v, r.n, r.flag, r.obs)
               [] r.ev = "missing" -> JudgeMissing(r.raised)
               [] r.ev = "formula" -> LET b == FirstOffFormula(r.s, r.vals) IN
                                      IF b = 0 THEN "ok" ELSE "formula_at_attempt_" \o ToString(b)
               [] r.ev = "steplog" -> IF \E cc \in CredsOf(r.v) : r.log = ExpectedLog(cc, r.n) THEN "ok" ELSE "steplog"
               [] OTHER -> "unknown_event"
Verdict(i) == LET r == Trace[i]
                  v == Clause(r)
              IN IF v = "ok" THEN TRUE ELSE PrintT(<<"REJECT", r.id, v>>)
Init == l = 0
Next == /\ l < Len(Trace)
        /\ l' = l + 1
        /\ Verdict(l + 1)
        /\ (l + 1 = Len(Trace)) => PrintT(<<"DONE", Len(Trace)>>)
=============================================================================
