INIT Init
NEXT Next
CONSTANTS
  Part = "errors"
  Tier = "thorough"
INVARIANT LawOutDomain
INVARIANT LawBounds
INVARIANT LawPerm
INVARIANT LawSurplus
INVARIANT LawOrderedLeq
INVARIANT LawPartial
INVARIANT LawErrorsOnlyRaise
INVARIANT LawShown
INVARIANT LawOptimum
INVARIANT LawPaddedCost
INVARIANT LawSplit
INVARIANT LawInfer
INVARIANT LawDual
