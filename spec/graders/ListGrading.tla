---------------------------- MODULE ListGrading ----------------------------
(* Property-level specification of ListGrader (C05): which per-input result vectors a ListGrader may report.
   Written from the documentation (docs/grading_lists/list_grader.md) and the property statement, not from the code.

   Part 1  flat problems: a credit tensor M[a][i][j] (answer list a, input i, answer j) of exact rationals,
           `ordered`, `partial_credit`;  Allowed(M, cfg) is the set of result vectors the statement permits.
   Part 2  grouping: group map, Groupify / Ungroupify, validity.
   Part 3  layout trees: nested ListGraders.  A cell of a list node is a leaf (an item grader comparing one input
           with one answer that may have alternatives) or again a list node; Value / Results / Eval generalise part 1.
   Part 4  LP-duality certificate for "this assignment is optimal" (used where n! enumeration is too expensive).
   Exact arithmetic: Rat.tla. *)
EXTENDS Integers, Sequences, FiniteSets, TLC, Rat

Range(f) == {f[x] : x \in DOMAIN f}
Identity(n) == [i \in 1..n |-> i]
AllBijections(n) == {s \in [1..n -> 1..n] : \A i, j \in 1..n : s[i] = s[j] => i = j}
BijTable == <<{s : s \in AllBijections(1)}, {s : s \in AllBijections(2)},   \* constant: explicit sets, built once by TLC
              {s : s \in AllBijections(3)}, {s : s \in AllBijections(4)}>>
Bijections(n) == IF n \in 1..4 THEN BijTable[n] ELSE AllBijections(n)
RECURSIVE SumF(_, _)
SumF(f, k) == IF k = 0 THEN Zero ELSE Add(SumF(f, k - 1), f[k])          \* f[1] + ... + f[k]
RMaxSet(S) == CHOOSE x \in S : \A y \in S : Leq(y, x)                     \* S non-empty set of rationals
OkOf(g) == IF g = Zero THEN "false" ELSE IF g = One THEN "true" ELSE "partial"

(* ------------------------------------------------------------------ Part 1: flat problems *)
\* m: square matrix of rationals (rows = inputs, columns = answers); s: assignment input -> answer
AssignTotal(m, s) == SumF([i \in 1..Len(m) |-> m[i][s[i]]], Len(m))
BestTotal(m) == RMaxSet({AssignTotal(m, s) : s \in Bijections(Len(m))})   \* oracle: exhaustive search over n! assignments
OptAssignments(m) == LET best == BestTotal(m) IN {s \in Bijections(Len(m)) : AssignTotal(m, s) = best}

\* the same optimum by expansion along the rows (independent formulation, used only in laws)
RECURSIVE BestRec(_, _, _)
BestRec(m, i, cols) == IF i > Len(m) THEN Zero
                       ELSE RMaxSet({Add(m[i][j], BestRec(m, i + 1, cols \ {j})) : j \in cols})

\* one reported entry: graded against answer j of list a, credit g
Entry(a, j, g) == [a |-> a, j |-> j, g |-> g, ok |-> OkOf(g)]
RawVector(M, a, s) == [i \in 1..Len(M[a]) |-> Entry(a, s[i], M[a][i][s[i]])]     \* entry i sits at the position of input i
Perfect(r) == \A i \in 1..Len(r) : r[i].ok = "true"
ZeroOut(r) == [i \in 1..Len(r) |-> [r[i] EXCEPT !.g = Zero, !.ok = "false"]]
Finish(r, pc) == IF pc \/ Perfect(r) THEN r ELSE ZeroOut(r)                      \* partial_credit = False
VectorTotal(r) == SumF([i \in 1..Len(r) |-> r[i].g], Len(r))

Candidates(M, a, ordered) == IF ordered THEN {Identity(Len(M[a]))} ELSE OptAssignments(M[a])
ListTotal(M, a, ordered) == IF ordered THEN AssignTotal(M[a], Identity(Len(M[a]))) ELSE BestTotal(M[a])
BestLists(M, ordered) == LET tot == TLCEval([a \in 1..Len(M) |-> ListTotal(M, a, ordered)])
                         IN {a \in 1..Len(M) : \A b \in 1..Len(M) : Leq(tot[b], tot[a])}
\* cfg: [ordered, pc]
Allowed(M, cfg) == UNION {{Finish(RawVector(M, a, s), cfg.pc) : s \in Candidates(M, a, cfg.ordered)} : a \in BestLists(M, cfg.ordered)}

\* symmetries
PermuteInputs(M, pi) == TLCEval([a \in 1..Len(M) |-> TLCEval([i \in 1..Len(M[a]) |-> M[a][pi[i]]])])        \* box i now holds old input pi[i]
PermuteAnswers(M, pi) == TLCEval([a \in 1..Len(M) |-> TLCEval([i \in 1..Len(M[a]) |->
                            TLCEval([j \in 1..Len(M[a]) |-> M[a][i][pi[j]]])])])                                \* answer j is old answer pi[j]
InverseOf(pi) == [j \in 1..Len(pi) |-> CHOOSE i \in 1..Len(pi) : pi[i] = j]
MoveVector(r, pi) == [i \in 1..Len(r) |-> r[pi[i]]]
RelabelVector(r, pi) == [i \in 1..Len(r) |-> [r[i] EXCEPT !.j = InverseOf(pi)[r[i].j]]]

(* ------------------------------------------------------------------ Part 2: grouping *)
SetMax(S) == CHOOSE x \in S : \A y \in S : y <= x
ValidGrouping(g) == Len(g) >= 1 /\ Range(g) = 1..SetMax(Range(g))        \* contiguous group numbers starting at 1
NumGroups(g) == SetMax(Range(g))
RECURSIVE PosOf(_, _, _)
PosOf(g, k, p) == IF p > Len(g) THEN <<>> ELSE (IF g[p] = k THEN <<p>> ELSE <<>>) \o PosOf(g, k, p + 1)
GroupMap(g) == [k \in 1..NumGroups(g) |-> PosOf(g, k, 1)]                \* positions of group k, ascending
RECURSIVE SumLens(_)
SumLens(gm) == IF gm = <<>> THEN 0 ELSE Len(Head(gm)) + SumLens(Tail(gm))
EqualSizes(gm) == \A k \in 1..Len(gm) : Len(gm[k]) = Len(gm[1])
Groupify(gm, list) == [k \in 1..Len(gm) |-> [i \in 1..Len(gm[k]) |-> list[gm[k][i]]]]
Ungroupify(gm, nested) == [p \in 1..SumLens(gm) |->
                             LET k == CHOOSE k \in 1..Len(gm) : \E i \in 1..Len(gm[k]) : gm[k][i] = p
                                 i == CHOOSE i \in 1..Len(gm[k]) : gm[k][i] = p
                             IN nested[k][i]]
IsPartition(gm, n) == /\ SumLens(gm) = n
                      /\ \A p \in 1..n : Cardinality({k \in 1..Len(gm) : \E i \in 1..Len(gm[k]) : gm[k][i] = p}) = 1
                      /\ \A k \in 1..Len(gm) : Len(gm[k]) >= 1 /\ \A i \in 1..(Len(gm[k]) - 1) : gm[k][i] < gm[k][i + 1]

(* ------------------------------------------------------------------ Part 3: layout trees
   leaf:  [kind |-> "leaf", alts |-> <<credit of alternative 1, ...>>]      an item grader on (one input, one answer)
   list:  [kind |-> "list", ordered, pc, gm (positions relative to the node, per group),
           cells |-> [a][k][h] sub-tree grading group k against answer slot h of answer list a,
           cert  |-> per answer list a certificate [u, v, sigma] (only read when there are more than EnumLimit groups)]
   none:  [kind |-> "none"]  filler for cells an ordered grader never evaluates (h # k)
   The credit of a cell is the credit its own grader reports (Value); the "total credit" of a result list is the sum
   of the credits of its entries, so a cell of s inputs weighs s * Value. *)
EnumLimit == 4
IsLeaf(t) == t.kind = "leaf"
IsList(t) == t.kind = "list"
NG(t) == Len(t.gm)
NLists(t) == Len(t.cells)
NPos(t) == IF IsLeaf(t) THEN 1 ELSE SumLens(t.gm)

RECURSIVE Value(_)
Weight(t, a, k, h) == Mul(Value(t.cells[a][k][h]), FromInt(Len(t.gm[k])))
WMatrix(t, a) == TLCEval([k \in 1..NG(t) |-> TLCEval([h \in 1..NG(t) |-> Weight(t, a, k, h)])])   \* TLCEval: build once, not per access
CertTotal(c) == Add(SumF(c.u, Len(c.u)), SumF(c.v, Len(c.v)))
BestAssignTotal(t, a) == IF NG(t) <= EnumLimit THEN BestTotal(WMatrix(t, a)) ELSE CertTotal(t.cert[a])
ListTotalT(t, a) == IF t.ordered THEN SumF([k \in 1..NG(t) |-> Weight(t, a, k, k)], NG(t)) ELSE BestAssignTotal(t, a)
BestListTotalT(t) == RMaxSet({ListTotalT(t, a) : a \in 1..NLists(t)})
BestListsT(t) == LET best == BestListTotalT(t) IN {a \in 1..NLists(t) : ListTotalT(t, a) = best}
Value(t) == IF IsLeaf(t) THEN MaxSeq(t.alts)                              \* the best alternative counts
            ELSE LET tot == BestListTotalT(t)
                     n == FromInt(NPos(t))
                 IN IF t.pc \/ tot = n THEN Div(tot, n) ELSE Zero         \* average credit of the reported entries

\* structural validity of a layout (what the constructor documents as required)
RECURSIVE ValidTree(_)
ValidTree(t) ==
  IF IsLeaf(t) THEN Len(t.alts) >= 1 /\ \A x \in 1..Len(t.alts) : Leq(Zero, t.alts[x]) /\ Leq(t.alts[x], One)
  ELSE /\ IsList(t) /\ NG(t) >= 2 /\ NLists(t) >= 1
       /\ IsPartition(t.gm, SumLens(t.gm))
       /\ ~t.ordered => EqualSizes(t.gm)
       /\ \A a \in 1..NLists(t) : \A k \in 1..NG(t) : \A h \in 1..NG(t) :
             (t.ordered /\ h # k) \/ (NPos(t.cells[a][k][h]) = Len(t.gm[k]) /\ ValidTree(t.cells[a][k][h]))

\* --- results as a set (for layouts with at most EnumLimit groups per unordered node)
\* a result vector is a sequence of [path, g]: path = <<a, h>> \o (path inside the cell); a leaf's path is <<alternative>>
RECURSIVE Product(_)
Product(S) == IF Len(S) = 0 THEN {<<>>} ELSE {<<x>> \o r : x \in S[1], r \in Product(Tail(S))}
PerfectG(r) == \A p \in 1..Len(r) : r[p].g = One
FinishP(r, pc) == IF pc \/ PerfectG(r) THEN r ELSE [p \in 1..Len(r) |-> [r[p] EXCEPT !.g = Zero]]
Prefixed(r, pre) == [p \in 1..Len(r) |-> [r[p] EXCEPT !.path = pre \o @]]
SigmaCands(t, a) == IF t.ordered THEN {Identity(NG(t))} ELSE OptAssignments(WMatrix(t, a))
RECURSIVE Results(_)
Assemble(t, a, s) ==
  {FinishP(Ungroupify(t.gm, choice), t.pc) :
     choice \in Product([k \in 1..NG(t) |-> {Prefixed(r, <<a, s[k]>>) : r \in Results(t.cells[a][k][s[k]])}])}
Results(t) ==
  IF IsLeaf(t) THEN {<<[path |-> <<x>>, g |-> Value(t)]>> : x \in {y \in 1..Len(t.alts) : t.alts[y] = Value(t)}}
  ELSE UNION {UNION {Assemble(t, a, s) : s \in SigmaCands(t, a)} : a \in BestListsT(t)}

\* --- the same as a decision procedure: given where each reported entry came from (its path), rebuild the credits
\*     and say whether the choices were permitted.  why = "" means permitted; otherwise the clause that failed.
Bad(w) == [why |-> w, res |-> <<>>]
RECURSIVE Eval(_, _)
Eval(t, P) ==
  IF IsLeaf(t) THEN
    IF Len(P) # 1 \/ Len(P[1]) # 1 THEN Bad("shape")
    ELSE IF P[1][1] \notin 1..Len(t.alts) THEN Bad("shape")
    ELSE IF t.alts[P[1][1]] # Value(t) THEN Bad("alternative")
    ELSE [why |-> "", res |-> <<Value(t)>>]
  ELSE IF ~IsList(t) THEN Bad("shape")
  ELSE IF Len(P) # NPos(t) \/ \E p \in 1..Len(P) : Len(P[p]) < 2 THEN Bad("shape")
  ELSE
    LET G == NG(t)
        a == P[1][1]
        sig == [k \in 1..G |-> P[t.gm[k][1]][2]]
    IN IF a \notin 1..NLists(t) \/ \E p \in 1..Len(P) : P[p][1] # a THEN Bad("list")
       ELSE IF \E k \in 1..G : sig[k] \notin 1..G \/ \E i \in 1..Len(t.gm[k]) : P[t.gm[k][i]][2] # sig[k] THEN Bad("group")
       ELSE IF \E k, l \in 1..G : k # l /\ sig[k] = sig[l] THEN Bad("bijection")
       ELSE IF t.ordered /\ \E k \in 1..G : sig[k] # k THEN Bad("order")
       ELSE
         LET sub == [k \in 1..G |-> Eval(t.cells[a][k][sig[k]], [i \in 1..Len(t.gm[k]) |-> SubSeq(P[t.gm[k][i]], 3, Len(P[t.gm[k][i]]))])]
             bad == {k \in 1..G : sub[k].why # ""}
         IN IF bad # {} THEN Bad(sub[CHOOSE k \in bad : \A l \in bad : k <= l].why)
            ELSE IF ~t.ordered /\ AssignTotal(WMatrix(t, a), sig) # BestAssignTotal(t, a) THEN Bad("assignment")
            ELSE IF \E b \in 1..NLists(t) : Lt(ListTotalT(t, a), ListTotalT(t, b)) THEN Bad("bestlist")
            ELSE LET raw == Ungroupify(t.gm, [k \in 1..G |-> sub[k].res])
                 IN [why |-> "", res |-> IF t.pc \/ \A p \in 1..Len(raw) : raw[p] = One THEN raw
                                           ELSE [p \in 1..Len(raw) |-> Zero]]

(* ------------------------------------------------------------------ Part 4: optimality certificates
   For a weight matrix W (to be maximised), potentials u, v with u[k] + v[h] >= W[k][h] everywhere bound every assignment
   from above by Sum u + Sum v (weak duality); an assignment that attains the bound is therefore optimal. *)
Feasible(W, u, v) == \A k \in 1..Len(W) : \A h \in 1..Len(W) : Leq(W[k][h], Add(u[k], v[h]))
IsBijection(s, n) == Len(s) = n /\ \A i \in 1..n : s[i] \in 1..n /\ \A j \in 1..n : s[i] = s[j] => i = j
CertificateOK(W, c) == /\ Len(c.u) = Len(W) /\ Len(c.v) = Len(W)
                       /\ Feasible(W, c.u, c.v)
                       /\ IsBijection(c.sigma, Len(W))
                       /\ AssignTotal(W, c.sigma) = CertTotal(c)
\* every certificate a layout relies on is checked (a bad certificate is a machinery failure, never a verdict)
RECURSIVE CertsOK(_)
CertsOK(t) ==
  IF ~IsList(t) THEN TRUE
  ELSE /\ \A a \in 1..NLists(t) : \A k \in 1..NG(t) : \A h \in 1..NG(t) : (t.ordered /\ h # k) \/ CertsOK(t.cells[a][k][h])
       /\ (~t.ordered /\ NG(t) > EnumLimit) => (Len(t.cert) = NLists(t) /\ \A a \in 1..NLists(t) : CertificateOK(WMatrix(t, a), t.cert[a]))

\* the flat problem (M, cfg) as a layout tree, and the translation between the two result encodings
FlatTree(M, cfg) == [kind |-> "list", ordered |-> cfg.ordered, pc |-> cfg.pc,
                     gm |-> TLCEval([i \in 1..Len(M[1]) |-> <<i>>]),
                     cells |-> TLCEval([a \in 1..Len(M) |-> TLCEval([i \in 1..Len(M[a]) |-> TLCEval([j \in 1..Len(M[a]) |->
                                  [kind |-> "leaf", alts |-> <<M[a][i][j]>>]])])]),
                     cert |-> <<>>]
EntryOfPath(e) == Entry(e.path[1], e.path[2], e.g)
=============================================================================
