INIT Init
NEXT Next
