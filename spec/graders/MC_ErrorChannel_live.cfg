SPECIFICATION Spec
CONSTANTS
  Kinds <- AllKinds
  CheckFaults <- EveryClass
  InferFaults <- LibInferFaults
  Msgs <- MsgsLive
  OutsiderMsgs <- MsgsLive
  InferMsgs <- MsgsNoNL
  MaxN = 2
  Variants = 1
INVARIANT TypeOK
PROPERTY Totality
