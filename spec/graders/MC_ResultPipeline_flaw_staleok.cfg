INIT Init
NEXT Next
CONSTANTS
  Part = "item"
  MaxAlts = 1
  MaxSamples = 1
  MaxCalls = 1
  Correlated = FALSE
  AnsOpts = {"a0", "a12", "a1", "a1f"}
  CmpReturns = {"T", "F", "P", "d13"}
  LeafAns = {}
  LeafCmp = {}
  TableGrades = {}
  ListAns = {}
  MaxItems = 1
  Layouts = {}
  TableOnly = {"g1212"}
  AttOpts = {"none", "c1", "c12", "c0", "c1e4"}
  OkRecomputed = FALSE
  ParentForcesChildDebug = FALSE
  PreOpts = {}
  AliasedDefaults = FALSE
INVARIANT InvReturnedWellFormed
