INIT Init
NEXT Next
CONSTANTS
  Part = "real"
  Size = "thorough"
INVARIANT LawWellFormed
INVARIANT LawNonEmptyI
INVARIANT LawOrderIndependentI
INVARIANT LawValueOrderIndependentI
INVARIANT LawTupleIsListingI
INVARIANT LawGradeIsMaxI
INVARIANT LawLongestMessageI
INVARIANT LawWrongMsgExactlyI
INVARIANT LawWrongMsgOnlyFillsI
INVARIANT LawMonotoneI
INVARIANT LawDuplicateI
INVARIANT LawSingleI
INVARIANT LawAlwaysRealisableI
INVARIANT LawBoundedI
INVARIANT LawFullCreditHitI
INVARIANT LawCreditMonotoneI
INVARIANT LawNotationI
INVARIANT LawCodeRefinesI
INVARIANT LawCodeCallsI
