INIT Init
NEXT Next
CONSTANTS
  Part = "single"
  Big = TRUE
INVARIANT LawTablesDescriptor
INVARIANT LawTablesDefaults
INVARIANT LawTablesNeutral
INVARIANT LawTablesBase
INVARIANT LawTablesUnknown
INVARIANT LawTablesInherit
INVARIANT LawNumericalRefines
INVARIANT LawMatrixExtends
INVARIANT LawExpectDomain
INVARIANT LawEquivNeutral
INVARIANT LawSingleVerdict
INVARIANT LawDefaultsComplete
INVARIANT LawSuppressMonotone
INVARIANT LawWhiteBlack
INVARIANT LawCanonFixedPoint
INVARIANT LawBareIsOneTuple
INVARIANT LawItemwise
INVARIANT LawOkFromGrade
INVARIANT LawComparer
INVARIANT LawListAnswers
INVARIANT LawLGUnorderedMany
INVARIANT LawLGContiguous
INVARIANT LawLGReversal
INVARIANT LawLNest
INVARIANT LawNestedInjective
INVARIANT LawNestedPrefix
INVARIANT LawSquareHermitian
INVARIANT LawSquarePlain
INVARIANT LawIntervalCurly
