INIT Init
NEXT Next
