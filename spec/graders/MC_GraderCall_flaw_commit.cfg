SPECIFICATION Spec
CONSTANTS
  Configured = FALSE
  MaxCalls = 3
  CommitAfterValidation = FALSE
  ResetLogAtStart = TRUE

INVARIANT SameAsFresh
