-------------------------- MODULE ConfigSchemaTrace --------------------------
(* Code -> spec binding for C20: every record is one abstract case that was constructed by the real code (dictionary and
   keyword form) together with what was observed; the record is accepted iff the observation is one the oracle of
   ConfigSchema allows.  ev = "construct" (option -> kind configuration), "answers" (answers structure of an item
   grader), "listans" (answers of a list grader), "lgroup" (ListGrader grouping case), "nested" (SingleListGrader chain), "square" (SquareMatrices). *)
EXTENDS ConfigSchema, Json, IOUtils
Trace == ndJsonDeserialize(IOEnv.TRACE_FILE)
VARIABLE l
Rec(i) == Trace[i]

CfgOf(ps) == [o \in {ps[i][1] : i \in 1..Len(ps)} |-> ps[CHOOSE i \in 1..Len(ps) : ps[i][1] = o][2]]
Observed(ps, opt) == IF \E i \in 1..Len(ps) : ps[i][1] = opt THEN ps[CHOOSE i \in 1..Len(ps) : ps[i][1] = opt][2] ELSE "ABSENT"

\* clauses shared by all record types: error family, verdict, keyword/dictionary equivalence
Common(r, e) ==
  IF e = "skip" THEN "skip"                      \* not decided by the documentation: nothing is demanded
  ELSE IF r.status = "other" \/ r.status_kw = "other" THEN "exception"
  ELSE IF e = "marker" THEN (IF r.status # r.status_kw \/ ~r.kwargs_equal THEN "kwargs" ELSE "ok")   \* refused or accepted
  ELSE IF e = "accept" /\ (r.status # "accept" \/ r.status_kw # "accept") THEN "rejects"
  ELSE IF e = "reject" /\ (r.status # "reject" \/ r.status_kw # "reject") THEN "accepts"
  ELSE IF r.status # r.status_kw \/ ~r.kwargs_equal THEN "kwargs"
  ELSE "ok"

DefaultClause(r, cfg) ==
  LET wrong == {p \in DefaultsOf(r.cls, cfg) :
                  /\ p[2] \notin {"OPTIONAL", "REQUIRED"}
                  /\ LET o == Observed(r.defaults, p[1]) IN o = "ABSENT" \/ (p[2] # "NOCHECK" /\ o # p[2])}
  IN IF wrong = {} THEN "ok"
     ELSE LET p == CHOOSE p \in wrong : TRUE IN
          IF Observed(r.defaults, p[1]) = "ABSENT" THEN "missing:" \o p[1] ELSE "default:" \o p[1] \o " documented " \o p[2]

Clause(r) ==
  IF r.ev = "construct" THEN
       LET cfg == CfgOf(r.cfg)  e == Expect(r.cls, cfg)  c == Common(r, e) IN
       IF c = "skip" THEN "ok" ELSE IF c # "ok" THEN c
       ELSE IF r.status # "accept" THEN "ok"
       ELSE IF r.cls \in GraderClasses /\ ~r.idempotent THEN "idempotent"
       ELSE IF r.dictcfg THEN DefaultClause(r, cfg) ELSE "ok"
  ELSE IF r.ev = "answers" THEN
       LET ctx == CfgOf(r.ctx)  e == AnswersInContext(r.cls, ctx, r.ans)  c == Common(r, e) IN
       IF c = "skip" THEN "ok" ELSE IF c # "ok" THEN c
       ELSE IF r.status # "accept" THEN "ok"
       ELSE IF ~r.canon_ok \/ (e = "accept" /\ r.canon # CanonAnswers(r.ans)) THEN "canonical"
       ELSE IF r.cmp_seen /\ (r.cmp # ComparerOf(r.cls, ctx) \/ r.cmp_kw # ComparerOf(r.cls, ctx)) THEN "comparer"
       ELSE IF ~r.idempotent THEN "idempotent" ELSE "ok"
  ELSE IF r.ev = "listans" THEN
       LET e == ListAnswersExpect(r.cls, r.la)  c == Common(r, e) IN
       IF c = "skip" THEN "ok" ELSE IF c # "ok" THEN c
       ELSE IF r.status # "accept" THEN "ok"
       ELSE IF ~r.canon_ok \/ (e = "accept" /\ r.canon # CanonListAnswers(r.cls, r.la)) THEN "canonical"
       ELSE IF ~r.idempotent THEN "idempotent" ELSE "ok"
  ELSE LET e == IF r.ev = "lgroup" THEN LGExpect(r) ELSE IF r.ev = "lnest" THEN LNestExpect(r)
                 ELSE IF r.ev = "nested" THEN NestedExpect(NestedFull(r.chain, r.tail))
                 ELSE IF r.ev = "interval" THEN (IF r.sub = "none" /\ IntervalExpect(r) = "accept" THEN "marker" ELSE IntervalExpect(r))
                 ELSE SquareExpect(r)
           c == Common(r, e) IN
       IF c = "skip" THEN "ok" ELSE IF c # "ok" THEN c
       ELSE IF r.status # "accept" THEN "ok"
       ELSE IF ~r.canon_ok THEN "canonical"
       ELSE IF r.ev # "square" /\ ~r.idempotent THEN "idempotent" ELSE "ok"

Judge(i) == LET r == Rec(i) cl == Clause(r) IN IF cl = "ok" THEN TRUE ELSE PrintT(<<"REJECT", r.id, cl>>)
Init == l = 0
Next == /\ l < Len(Trace)
        /\ l' = l + 1
        /\ Judge(l + 1)
        /\ (l + 1 = Len(Trace)) => PrintT(<<"DONE", Len(Trace)>>)
=============================================================================
