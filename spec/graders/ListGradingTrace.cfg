INIT Init
NEXT Next
