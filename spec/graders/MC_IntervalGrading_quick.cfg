INIT Init
NEXT Next
CONSTANTS
  Tier = "quick"
INVARIANT LawWellFormed
INVARIANT LawRangeInv
INVARIANT LawAllOrNothingInv
INVARIANT LawPartialDominatesInv
INVARIANT LawBracketOnlyLowersInv
INVARIANT LawHalfInv
INVARIANT LawWrongExpressionInv
INVARIANT LawIndependentInv
INVARIANT LawBackwards
INVARIANT LawMsgConsistent
INVARIANT LawBestAnswer
