----------------------------- MODULE GraderCall -----------------------------
(* Life cycle of an item grader object over a sequence of calls (C11).

   Property level (Reference): a grader's answer to a call depends only on its configuration and the call:
     - with configured answers the expect argument is ignored;
     - without, the expect of the current call is used, else the last successfully supplied one;
     - a call that raises changes nothing for later calls;
     - the debug log returned by a call talks about that call only.
   "What a fresh grader answers for (effective answers, input)" is left uninterpreted: it is the term
   <<"fresh", answers, input>>; the conformance harness obtains its value by running a really fresh grader.

   Implementation level: ItemGrader.__call__ followed by AbstractGrader.__call__, one action per block, with the
   object's mutable fields (config['answers'], inferring_answers, log_created, the debug log).  Two constants switch
   off the two repairs made to the library (fix: commits cd8bc05 and 79147a3), so that the original design flaws --
   answers stored before they are validated; the log flag left set by a call that raises -- are exhibited by TLC
   as counterexamples to SameAsFresh and NoStaleLog. *)
EXTENDS Integers, Sequences, FiniteSets, TLC

CONSTANTS Configured,             \* BOOLEAN: the grader was constructed with answers
          MaxCalls,
          CommitAfterValidation,  \* TRUE: answers are stored only after schema + post-schema validation succeeded
          ResetLogAtStart         \* TRUE: every call clears log_created first, however the previous call ended

Expects == {"none", "e1", "e2", "badInfer", "badPost", "badCheck"}
\* none: no expect argument;  e1, e2: two different valid answers;  badInfer: raises before anything is validated;
\* badPost: passes the answer schema but fails post-schema validation;  badCheck: accepted, grading with it raises
Inputs == {"right1", "right2", "wrong", "malformed", "nontext"}
\* nontext: the student input is not a text string (refused by ensure_text_inputs with a configuration error)

VARIABLES
  \* ---- implementation state (fields of the grader object)
  answers,        \* "none" | "cfg" | "e1" | "e2" | "badCheck" | "half" (stored but not validated)
  inferring,      \* inferring_answers
  logCreated,     \* log_created
  logCalls,       \* call numbers whose student input is in the current debug log
  \* ---- control
  pc,             \* "idle" | "infer" | "validate" | "post" | "abstract" | "check"
  cur,            \* the call in progress [n, e, i]
  \* ---- reference state and observations
  lastSupplied,   \* reference machine: last successfully supplied expect
  obs,            \* what the implementation returned / raised for the last finished call
  ref,            \* what the reference machine says for that call
  calls,          \* number of finished calls
  hist            \* the calls so far, each [e, i, out (implementation), want (reference)]: the replayable test case
vars == <<answers, inferring, logCreated, logCalls, pc, cur, lastSupplied, obs, ref, calls, hist>>

Fresh(a, i) == <<"fresh", a, i>>
NoAnswers == <<"error", "no answers">>
BadExpect == <<"error", "expect rejected">>
NotText == <<"error", "input is not text">>

\* ---------------------------------------------------------------- reference machine (one step per call)
RefEffective(e) == IF Configured THEN "cfg"
                   ELSE IF e \in {"e1", "e2", "badCheck"} THEN e
                   ELSE IF e = "none" THEN lastSupplied
                   ELSE "rejected"
RefOutcome(e, i) == LET a == RefEffective(e) IN
                    IF a = "rejected" THEN BadExpect ELSE IF i = "nontext" THEN NotText
                    ELSE IF a = "none" THEN NoAnswers ELSE Fresh(a, i)
RefNext(e) == IF ~Configured /\ e \in {"e1", "e2", "badCheck"} THEN e ELSE lastSupplied

Init == /\ answers = IF Configured THEN "cfg" ELSE "none"
        /\ inferring = FALSE /\ logCreated = FALSE /\ logCalls = {}
        /\ pc = "idle" /\ cur = [n |-> 0, e |-> "none", i |-> "wrong"]
        /\ lastSupplied = "none" /\ obs = <<"nothing">> /\ ref = <<"nothing">> /\ calls = 0 /\ hist = <<>>

\* ---------------------------------------------------------------- implementation: ItemGrader.__call__
Begin(e, i) == /\ pc = "idle" /\ calls < MaxCalls
               /\ cur' = [n |-> calls + 1, e |-> e, i |-> i]
               /\ ref' = [out |-> RefOutcome(e, i), log |-> {calls + 1}]
               /\ lastSupplied' = RefNext(e)
               /\ pc' = IF e # "none" /\ (inferring \/ answers = "none") THEN "infer" ELSE "abstract"
               /\ logCreated' = IF ResetLogAtStart THEN FALSE ELSE logCreated
               /\ UNCHANGED <<answers, inferring, logCalls, obs, calls, hist>>

Record(o) == hist' = Append(hist, [e |-> cur.e, i |-> cur.i, out |-> o.out, want |-> ref.out,
                                   state |-> <<answers, inferring, logCreated>>])
Raise(out) == /\ obs' = [out |-> out, log |-> {}]          \* an exception carries no debug log
              /\ pc' = "idle" /\ calls' = calls + 1
              /\ Record([out |-> out])

CreateLog == IF logCreated THEN UNCHANGED <<logCreated, logCalls>>
             ELSE logCreated' = TRUE /\ logCalls' = {cur.n}

\* infer_from_expect(expect), then create_debuglog (before validation)
Infer == /\ pc = "infer"
         /\ IF cur.e = "badInfer"
            THEN Raise(BadExpect) /\ UNCHANGED <<answers, inferring, logCreated, logCalls, cur, lastSupplied, ref>>
            ELSE /\ CreateLog
                 /\ pc' = "validate"
                 /\ UNCHANGED <<answers, inferring, cur, lastSupplied, obs, ref, calls, hist>>
\* schema_answers succeeded; as originally coded the result is stored at once
Validate == /\ pc = "validate"
            /\ answers' = IF CommitAfterValidation THEN answers
                          ELSE IF cur.e = "badPost" THEN "half" ELSE cur.e
            /\ pc' = "post"
            /\ UNCHANGED <<inferring, logCreated, logCalls, cur, lastSupplied, obs, ref, calls, hist>>
\* post_schema_ans_val
Post == /\ pc = "post"
        /\ IF cur.e = "badPost"
           THEN Raise(BadExpect) /\ UNCHANGED <<answers, inferring, logCreated, logCalls, cur, lastSupplied, ref>>
           ELSE /\ answers' = cur.e
                /\ inferring' = TRUE
                /\ UNCHANGED <<logCreated, logCalls>>
                /\ pc' = "abstract"
                /\ UNCHANGED <<cur, lastSupplied, obs, ref, calls, hist>>

\* ---------------------------------------------------------------- AbstractGrader.__call__
\* ensure_text_inputs; create_debuglog (no-op if the log exists); clear the flag
Abstract == /\ pc = "abstract"
            /\ IF cur.i = "nontext"
               THEN Raise(NotText) /\ UNCHANGED <<answers, inferring, logCreated, logCalls, cur, lastSupplied, ref>>
               ELSE /\ logCalls' = IF logCreated THEN logCalls ELSE {cur.n}
                    /\ logCreated' = FALSE
                    /\ pc' = "check"
                    /\ UNCHANGED <<answers, inferring, cur, lastSupplied, obs, ref, calls, hist>>
\* check(): grade against the stored answers
Check == /\ pc = "check"
         /\ obs' = [out |-> IF answers = "none" THEN NoAnswers
                            ELSE IF answers = "half" THEN <<"graded with unvalidated answers">>
                            ELSE Fresh(answers, cur.i),
                    log |-> IF answers = "none" THEN {} ELSE logCalls]
         /\ pc' = "idle" /\ calls' = calls + 1
         /\ UNCHANGED <<answers, inferring, logCreated, logCalls, cur, lastSupplied, ref>>
         /\ Record(obs')

Next == \/ \E e \in Expects, i \in Inputs : Begin(e, i)
        \/ Infer \/ Validate \/ Post \/ Abstract \/ Check
Spec == Init /\ [][Next]_vars /\ WF_vars(Infer \/ Validate \/ Post \/ Abstract \/ Check)

\* ---------------------------------------------------------------- properties
Finished == pc = "idle" /\ calls > 0
SameAsFresh == Finished => obs.out = ref.out
\* the log returned with a result mentions the current call only (errors carry no log)
NoStaleLog == Finished => obs.log \subseteq ref.log
\* the object's fields between calls: never half-stored answers, the log flag is cleared
CleanBetweenCalls == pc = "idle" => answers # "half"
ConfiguredIgnoresExpect == (Configured /\ Finished) => (obs.out = NotText \/ \E i \in Inputs : obs.out = Fresh("cfg", i))
EveryCallEnds == [](pc # "idle" => <>(pc = "idle"))
TypeOK == /\ answers \in {"none", "cfg", "e1", "e2", "badCheck", "half"} /\ inferring \in BOOLEAN
          /\ logCreated \in BOOLEAN /\ pc \in {"idle", "infer", "validate", "post", "abstract", "check"}
=============================================================================
