SPECIFICATION Spec
CONSTANTS
  Kinds <- AllKinds
  CheckFaults <- EveryClass
  InferFaults <- EveryClass
  Msgs <- MsgsQuick
  OutsiderMsgs <- MsgsOutsider
  InferMsgs <- MsgsInferAny
  MaxN = 1
  Variants = 1
INVARIANT TypeOK
INVARIANT EscapeFamily
