---------------------------- MODULE StringClean ----------------------------
(* Property-level specification of StringGrader (C18): which submissions match, which are refused, and how.
   Written from the class documentation, not from the code.  Text is a sequence of symbols (Text.tla). *)
EXTENDS Naturals, Sequences, FiniteSets, TLC, Text

Lower == ("A" :> "a" @@ "B" :> "b" @@ "EACU" :> "EAC")       \* case folding on the model alphabet
WhiteOut == ("TAB" :> "SP" @@ "CR" :> "SP" @@ "LF" :> "SP")
\* "NB": a white-space character that is neither a space, a tab nor a line break (no-break space, form feed, em space ...).
\* It is white space -- removed at the ends by strip, a word separator -- but it is not a space: it is never converted,
\* collapsed or removed inside the text ("no other character is ever ignored or altered").
White == {"SP", "NB"}

\* flags: record [cs (case_sensitive), strip, stripAll, cleanSpaces]
Clean(s, f) ==
  LET s1 == MapSym(ReplacePair(ReplacePair(MapSym(s, ("TAB" :> "SP")), "CR", "LF", "SP"), "LF", "CR", "SP"), WhiteOut)
      s2 == IF f.cs THEN s1 ELSE MapSym(s1, Lower)
      s3 == IF f.strip THEN StripEnds(s2, White) ELSE s2
      s4 == IF f.stripAll THEN RemoveAll(s3, "SP") ELSE s3
      s5 == IF f.cleanSpaces THEN Collapse(s4, "SP") ELSE s4
  IN s5

Match(expect, input, f) == Clean(expect, f) = Clean(input, f)

(* ---- validation patterns: finite regular languages as trees
   [k |-> "lit", s |-> seq] | [k |-> "alt", a, b] | [k |-> "cat", a, b] | [k |-> "opt", a] | [k |-> "any1"]  *)
RECURSIVE MatchLens(_, _, _)
\* set of end positions e such that pattern p matches s[i..e-1]
MatchLens(p, s, i) ==
  IF p.k = "lit" THEN (IF i + Len(p.s) - 1 <= Len(s) /\ SubSeq(s, i, i + Len(p.s) - 1) = p.s THEN {i + Len(p.s)} ELSE {})
  ELSE IF p.k = "any1" THEN (IF i <= Len(s) THEN {i + 1} ELSE {})
  ELSE IF p.k = "alt" THEN MatchLens(p.a, s, i) \cup MatchLens(p.b, s, i)
  ELSE IF p.k = "opt" THEN {i} \cup MatchLens(p.a, s, i)
  ELSE (* cat *) UNION {MatchLens(p.b, s, e) : e \in MatchLens(p.a, s, i)}
FullMatch(p, s) == (Len(s) + 1) \in MatchLens(p, s, 1)

(* ---- outcome classes
   "accept"       full answer credit
   "wrong"        ok False, no message
   "invalid_msg"  ok False with the configured invalid_msg       "invalid_err"  InvalidInput(invalid_msg)
   "short_msg"    ok False with a too-short message              "short_err"    InvalidInput(too short ...)
   "config_err"   ConfigError: the author's own answer does not satisfy the pattern
   cfg: [f, acceptAny, acceptNonempty, minLength, minWords, explainMin, pattern (tree or [k |-> "none"]), explainVal, debug]
   (debug: the grader's debug option; the debugging text itself is not part of the outcome class)               *)
\* "raise an error ('err'), grade as incorrect but present a message ('msg' or debug=True), or just grade as incorrect (None)"
Refuse(kind, how, debug) == IF how = "err" THEN kind \o "_err" ELSE IF how = "msg" \/ debug THEN kind \o "_msg" ELSE "wrong"

Outcome(cfg, expect, input) ==
  LET any == cfg.acceptAny \/ cfg.acceptNonempty
      minLen == IF cfg.acceptNonempty /\ cfg.minLength = 0 THEN 1 ELSE cfg.minLength
      ce == Clean(expect, cfg.f)
      ci == Clean(input, cfg.f)
  IN
  IF cfg.pattern.k # "none" /\ ~any /\ ~FullMatch(cfg.pattern, ce) THEN "config_err"
  ELSE IF cfg.pattern.k # "none" /\ ~FullMatch(cfg.pattern, ci) THEN Refuse("invalid", cfg.explainVal, cfg.debug)
  ELSE IF ~any THEN (IF ce = ci THEN "accept" ELSE "wrong")
  ELSE IF Len(ci) < minLen \/ WordCount(ci, White) < cfg.minWords THEN Refuse("short", cfg.explainMin, cfg.debug)
  ELSE "accept"

(* ---- laws about the specification itself *)
NonSpace(s) == SelectSeq(s, LAMBDA x : x \notin {"SP", "TAB", "CR", "LF"})
CleanIdempotent(s, f) == Clean(Clean(s, f), f) = Clean(s, f)
\* no non-space symbol is dropped or altered except by case folding (and white space at the ends by strip)
KeepsInk(s, f) == LET kept == NonSpace(IF f.strip THEN StripEnds(s, {"SP", "TAB", "CR", "LF", "NB"}) ELSE s)
                  IN NonSpace(Clean(s, f)) = (IF f.cs THEN kept ELSE MapSym(kept, Lower))
\* cleaning never leaves a TAB/CR/LF; with strip no SP at the ends; with cleanSpaces no double SP; with stripAll no SP
CleanShape(s, f) == LET c == Clean(s, f) IN
  /\ \A i \in 1..Len(c) : c[i] \notin {"TAB", "CR", "LF"}
  /\ f.strip /\ ~f.stripAll /\ c # <<>> => c[1] \notin White /\ c[Len(c)] \notin White
  /\ f.strip /\ c # <<>> => c[1] # "SP" /\ c[Len(c)] # "SP"
  /\ f.cleanSpaces => \A i \in 1..(Len(c) - 1) : ~(c[i] = "SP" /\ c[i + 1] = "SP")
  /\ f.stripAll => \A i \in 1..Len(c) : c[i] # "SP"
=============================================================================
