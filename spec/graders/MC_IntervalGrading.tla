-------------------------- MODULE MC_IntervalGrading --------------------------
(* Model instance for IntervalGrading (growth beyond the listed properties; reported by the C07 check as drift).
   TLC enumerates every (configuration, answers, submission) case inside the bounds, evaluates the documented outcome
   and the laws; the dump is replayed into the real IntervalGrader (engine/adapters/interval.py).               *)
EXTENDS IntervalGrading
CONSTANTS Tier

B(ch, w, m) == [ch |-> ch, w |-> w, m |-> m]
V(v, w, m) == [v |-> v, w |-> w, m |-> m]

LoAlts == [ L1 |-> <<V(0, One, "")>>,
            L2 |-> <<V(0, One, ""), V(5, Q(1, 2), "lo5")>> ]
UpAlts == [ U1 |-> <<V(1, One, "")>>,
            U2 |-> <<V(1, One, "up1"), V(6, Q(1, 2), "")>> ]
ObAlts == [ O1 |-> <<B("[", One, "")>>,
            O2 |-> <<B("[", One, ""), B("(", Q(1, 2), "mOB")>>,
            O3 |-> <<B("[", Q(1, 2), "mX"), B("[", One, "mY")>> ]
CbAlts == [ C1 |-> <<B("]", One, "")>>,
            C2 |-> <<B("]", One, ""), B(")", Q(1, 2), "mCB")>>,
            C3 |-> <<B(")", One, "mP"), B("]", Q(1, 4), "")>> ]
Second == [ob |-> <<B("(", One, "")>>, lo |-> <<V(5, One, "")>>, up |-> <<V(6, One, "")>>, cb |-> <<B(")", One, "")>>,
           credit |-> Q(1, 2), msg |-> "mALT"]

Brackets == [ std  |-> [open |-> {"[", "("}, close |-> {"]", ")"}],
              wide |-> [open |-> {"[", "(", "{"}, close |-> {"]", ")", "}"}] ]

LoIds == IF Tier = "quick" THEN {"L2"} ELSE DOMAIN LoAlts
UpIds == IF Tier = "quick" THEN {"U2"} ELSE DOMAIN UpAlts

First(sd) == [ob |-> ObAlts[sd.ob], lo |-> LoAlts[sd.lo], up |-> UpAlts[sd.up], cb |-> CbAlts[sd.cb],
              credit |-> sd.credit, msg |-> sd.msg]
AnswersOf(sd) == IF sd.second THEN <<First(sd), Second>> ELSE <<First(sd)>>

VARIABLES c, out
Seeds == [kind : {"seed"}, partial : BOOLEAN, ob : DOMAIN ObAlts, lo : LoIds, up : UpIds, cb : DOMAIN CbAlts,
          credit : {One, Q(1, 2)}, msg : {"", "mAM"}, second : BOOLEAN, br : DOMAIN Brackets]
Subs == [open : {"[", "(", "{"}, close : {"]", ")", "}"}, lo : {0, 5, 9, 1}, up : {1, 6, 9, 0}, form : {"ok"}]
        \cup [open : {"[", "(", "{"}, close : {"]", ")", "}"}, lo : {0}, up : {1}, form : {"one", "three", "blank"}]

(* ---- messages: which ids must / must never show in the returned text ------------------------------------ *)
AllIds(answers) == UNION {{answers[i].msg} \cup {answers[i].ob[j].m : j \in DOMAIN answers[i].ob}
                            \cup {answers[i].cb[j].m : j \in DOMAIN answers[i].cb}
                            \cup {answers[i].lo[j].m : j \in DOMAIN answers[i].lo}
                            \cup {answers[i].up[j].m : j \in DOMAIN answers[i].up} : i \in DOMAIN answers} \ {""}
Possible(a, s) == {a.msg} \cup {a.ob[j].m : j \in BracketMatches(a.ob, s.open)} \cup {a.cb[j].m : j \in BracketMatches(a.cb, s.close)}
                  \cup {a.lo[j].m : j \in BoundMatches(a.lo, s.lo)} \cup {a.up[j].m : j \in BoundMatches(a.up, s.up)}
HalvesEarn(a, s) == ~IsZero(HalfCredit(a.lo, s.lo, a.ob, s.open)) /\ ~IsZero(HalfCredit(a.up, s.up, a.cb, s.close))
Never(answers, s) ==
  (AllIds(answers) \ UNION {Possible(answers[i], s) : i \in DOMAIN answers})
  \cup (IF Len(answers) = 1 /\ ~HalvesEarn(answers[1], s) THEN {answers[1].msg} \ {""} ELSE {})
\* single answer: the answer's message when both halves earn; the message of a uniquely best bracket of an earning half
Must(answers, s) ==
  IF Len(answers) # 1 THEN {}
  ELSE LET a == answers[1]
           lowB == HalfBracketMsgs(a.lo, s.lo, a.ob, s.open)
           upB == HalfBracketMsgs(a.up, s.up, a.cb, s.close)
       IN ((IF HalvesEarn(a, s) THEN {a.msg} ELSE {})
           \cup (IF Cardinality(lowB) = 1 /\ ~IsZero(HalfCredit(a.lo, s.lo, a.ob, s.open)) THEN lowB ELSE {})
           \cup (IF Cardinality(upB) = 1 /\ ~IsZero(HalfCredit(a.up, s.up, a.cb, s.close)) THEN upB ELSE {})) \ {""}

Init == c \in Seeds /\ out = [k |-> "seed"]
Next == /\ c.kind = "seed"
        /\ \E s \in Subs :
             /\ c' = [kind |-> "case", sd |-> c, s |-> s, ans |-> AnswersOf(c),
                        opening |-> Brackets[c.br].open, closing |-> Brackets[c.br].close]
             /\ LET answers == AnswersOf(c)
                    o == Outcome(answers, s, c.partial, Brackets[c.br].open, Brackets[c.br].close)
                IN out' = IF o.k = "raise" THEN o
                          ELSE [o EXCEPT !.k = "return"] @@ [must |-> Must(answers, s), never |-> Never(answers, s)]
IsCase == c.kind = "case"
A1 == First(c.sd)

LawWellFormed == IsCase => WellFormedAnswer(A1) /\ WellFormedAnswer(Second)
LawRangeInv == IsCase => LawRange(A1, c.s, c.sd.partial)
LawAllOrNothingInv == IsCase => LawAllOrNothing(A1, c.s)
LawPartialDominatesInv == IsCase => LawPartialDominates(A1, c.s)
LawBracketOnlyLowersInv == IsCase => LawBracketOnlyLowers(A1, c.s)
LawHalfInv == IsCase => LawHalf(A1, c.s)
LawWrongExpressionInv == IsCase => LawWrongExpression(A1, c.s)
LawIndependentInv == IsCase => \A s2 \in {x \in Subs : x.form = "ok"} : LawIndependent(A1, c.s, s2)
\* the doc's own example: brackets O2 / C2 with bounds right, "[0, 1)" earns 3/4 and shows the closing-bracket message
ASSUME DocExample == LET a == [ob |-> ObAlts.O2, lo |-> LoAlts.L1, up |-> UpAlts.U1, cb |-> CbAlts.C2, credit |-> One, msg |-> ""]
                     s == [open |-> "[", close |-> ")", lo |-> 0, up |-> 1, form |-> "ok"]
                 IN /\ AnswerGrade(a, s, TRUE) = Q(3, 4)
                    /\ Must(<<a>>, s) = {"mCB"}
\* entries backwards earn nothing (the values of the two bounds are distinct in this catalogue)
LawBackwards == IsCase /\ c.s.lo = 1 /\ c.s.up = 0 /\ ~c.sd.second /\ out.k = "return" => IsZero(out.grade)
\* a message that must show is never one that must not
LawMsgConsistent == IsCase /\ out.k = "return" => out.must \cap out.never = {}
\* with two answers the grade is at least what either answer alone gives
LawBestAnswer == IsCase /\ out.k = "return" /\ c.sd.second =>
                   /\ Leq(AnswerGrade(A1, c.s, c.sd.partial), out.grade)
                   /\ Leq(AnswerGrade(Second, c.s, c.sd.partial), out.grade)
=============================================================================
