SPECIFICATION Spec
CONSTANTS
  MaxOps = 2
INVARIANT TypeOK
INVARIANT InvPerClass
INVARIANT InvExplicitWins
INVARIANT InvDocumentedDefault
INVARIANT InvMostDerivedWins
PROPERTY StepIsolation
PROPERTY StepClear
PROPERTY StepStacks
