---------------------------- MODULE ResultPipeline ----------------------------
(* Implementation-shaped state machine for C01: ONE ACTION PER STAGE the library applies to a result on its way from
   a comparer (or an author-defined check_response) to the dictionary handed to edX.

       comparer return -> [MatrixGrader: shape / type errors raised, or turned into zero-grade results]
       -> standardize_cfn_return -> multiply by the answer's credit -> consolidate_results over
       samples -> ItemGrader.check: best of the alternatives + wrong_msg
         -> [SingleListGrader: pad, consolidate_single_return, award/scale]  -> outer ItemGrader.check
         -> [IntervalGrader: the two bounds as a SingleListGrader, then bracket grading, then award/scale]
         -> [ListGrader: nested check, un-grouping, partial_credit=False zeroing]
       -> key stripping -> attempt-based credit -> debug log append -> format_messages -> returned

   Everything the environment decides (how many alternatives / samples, the answers' credit and pinned ok, what each
   comparer call returns, wrong_msg, list layout, partial_credit, attempt credit, debug) is a nondeterministic choice
   over a small palette, resolved when the code first looks at it ("late choice": it keeps the behaviour tree small
   and does not change the set of complete behaviours).  Every choice is appended to `ch`; a terminal state carries
   the complete choice vector, the returned result `res` and the model's own verdict `vd`, and is replayed into the
   real graders by engine/adapters/c01.py.

   The property-level judgement is ResultShape!WellFormed / NoDebugLeak; TLC checks  Returned => WellFormed /\ NoDebugLeak.
   OkRecomputed = TRUE is the pipeline as coded (consolidate_results recomputes ok from the grade of the result it
   hands back); FALSE is the earlier, flawed design in which the comparer's ok survived the multiplication by the
   answer credit -- kept as an exhibit: TLC must produce its counterexample (vacuity guard of the property).
   Part "shared" adds a HISTORY: after the ListGrader call returned, one of its subgrader objects -- configured with
   its own debug flag cd -- is called on its own; what that call returns must be well formed and must show debugging
   output only if cd.  ParentForcesChildDebug = TRUE is the flawed design in which the debugging list leaves its
   subgraders' debug flag switched on (second exhibit).
   Part "family" runs the item pipeline after a CONSTRUCTION history (pre): "reg" defaults were registered on a class
   of the family, "other" another grader of the family was built before with debug=True and a wrong_msg of its own,
   "reg_other" both.  What the author passed to THIS grader is its configuration: none of that history may show in
   what it returns.  AliasedDefaults = TRUE is the third exhibit.
   A ListGrader call first compares the number of submitted inputs with its configuration (ValidateSubmission): with
   too few or too many inputs the call raises and returns nothing -- so a call that returns has exactly one entry per
   submitted input. *)
EXTENDS ResultShape, Fixed, TLC

CONSTANTS Part,            \* "item" | "single" | "interval" | "list" | "shared" (a list call, then one of its
                           \*   subgrader objects called on its own: a history of two calls) | "family" (the item
                           \*   pipeline after a construction history of the class family: defaults registered on a
                           \*   class of the family, another grader built with debug=True and options of its own)
          MaxAlts, MaxSamples, MaxCalls, Correlated,
          AnsOpts, CmpReturns,           \* palettes of the item part
          LeafAns, LeafCmp, TableGrades, \* palettes of the leaves inside list stages
          ListAns, MaxItems, Layouts,
          TableOnly,       \* layouts whose leaves are all author-defined (keeps the four-input layout small)
          AttOpts,         \* attempt-credit schedule values tried ("none" = feature off)
          OkRecomputed,    \* TRUE = the code (consolidate_results recomputes ok); FALSE = the flawed design kept as exhibit
          ParentForcesChildDebug,  \* FALSE = the code; TRUE = flawed design: a debugging ListGrader switches its
                                   \*   subgraders' debug flag on and never back (exhibit)
          PreOpts,                 \* construction histories tried in part "family"
          AliasedDefaults          \* FALSE = the code: every construction starts from a fresh copy of the registered
                                   \*   defaults; TRUE = flawed design: the registered dictionary itself is updated with each
                                   \*   grader's options, so later graders of the family inherit them (exhibit)

VARIABLES st,      \* stage (program counter)
          ch,      \* choice vector so far: sequence of <<tag, value>>
          cf,      \* configuration resolved so far
          li,      \* index of the leaf (item grader invocation) being computed
          lf,      \* leaf configuration [kind, A, S, F, corr]
          ans,     \* answer options chosen for the alternatives of the current leaf
          raw,     \* pending comparer return
          sres,    \* per-sample results of the current alternative
          altres,  \* per-alternative results of the current leaf
          items,   \* finished leaf / group results
          grp,     \* finished leaves of the nested group being graded
          res,     \* the top-level result
          log,     \* tokens written to the debug log so far
          vd       \* the model's verdict on the returned result ("" = well formed), set on return
vars == <<st, ch, cf, li, lf, ans, raw, sres, altres, items, grp, res, log, vd>>

(* ------------------------------------------------------------------ palettes *)
Half == Q(1, 2)
Third == Q(1, 3)
CreditVal == [c0 |-> Zero, c13 |-> Third, c12 |-> Half, c1 |-> One]
\* answer options: credit and the author's explicit ok ("none" = computed)
AnsTable == [a0  |-> [credit |-> Zero,  pin |-> "none"],    a13 |-> [credit |-> Third, pin |-> "none"],
             a12 |-> [credit |-> Half,  pin |-> "none"],    a1  |-> [credit |-> One,   pin |-> "none"],
             a1f |-> [credit |-> One,   pin |-> "false"],   a1p |-> [credit |-> One,   pin |-> "partial"],
             a1t |-> [credit |-> One,   pin |-> "true"],    a12f |-> [credit |-> Half, pin |-> "false"]]
AnsCredit(a) == AnsTable[a].credit
AnsPin(a) == AnsTable[a].pin
\* validate_single_answer: the pinned ok is kept only at grade_decimal 1
AnsOk(a) == IF AnsPin(a) # "none" /\ Eq(AnsCredit(a), One) THEN AnsPin(a) ELSE GradeToOk(AnsCredit(a))
AnsPins(a) == IF AnsPin(a) # "none" /\ Eq(AnsCredit(a), One) THEN {AnsPin(a)} ELSE {}

\* comparer returns: True / False / 'partial' / {'grade_decimal': g [, 'msg': ...]}
DictGrade == [d0 |-> Zero, d13 |-> Third, d12 |-> Half, d1 |-> One, d12m |-> Half, d0m |-> Zero]
DictHasMsg == {"d12m", "d0m"}
PartialCmp == {"P", "d13", "d12", "d12m"}          \* returns that carry partial credit
(* instead of returning, the evaluation / the comparer may raise: "Es" a MathArray shape error, "Et" an InputTypeError
   (validate_shape), "Ea" an ArgumentShapeError / MathArrayError.  MatrixGrader.check_response decides by its
   configuration -- guard "suppress" (suppress_matrix_messages), "raise" (the defaults shape_errors=True,
   is_raised=True) or "message" (both False) -- whether the call raises or the alternative scores a zero-grade result *)
ErrEvents == {"Es", "Et", "Ea"}
GuardOutcome(ev, guard) == IF guard = "suppress" THEN "silent"
                           ELSE IF ev = "Ea" \/ guard = "raise" THEN "raise" ELSE "message"
AltMark == <<"A1", "A2", "A3">>
DebugTokens == {"BANNER", "LOGCMP", "LOGATT"}
\* what the author's schedule returns for the attempt; apply_attempt_based_credit rounds it to 4 places first
\* (built-in schedules decay to 0.0001 and then to 0; author-defined ones may return anything in [0, 1])
AttRaw == [c1 |-> One, c12 |-> Half, c0 |-> Zero, c1e4 |-> Q(1, 10000), c7e5 |-> Q(7, 100000), c3e5 |-> Q(3, 100000),
           c13 |-> Third]
AttCredit(a) == LET q == AttRaw[a] IN Q(RoundHalfEven(q[1] * Unit, q[2]), Unit)
SingleLike == Part \in {"single", "interval"}      \* an IntervalGrader is a SingleListGrader of two bounds
ListLike == Part \in {"list", "shared"}
ItemLike == Part \in {"item", "family"}
\* how the bracket typed by the student fares against the author's bracket answers: it matches a full-credit answer,
\* a half-credit answer with a message, a zero-credit answer, or none of them
BracketOpts == {"b1", "b12", "b0", "bnone"}
BracketCredit == [b1 |-> One, b12 |-> Half, b0 |-> Zero]

Item(ok, g, m) == [ok |-> ok, g |-> g, m |-> m, text |-> TRUE, keys |-> ItemKeys, pos |-> 0]
Positive(g) == Lt(Zero, g)

(* ------------------------------------------------------------------ the stages as operators *)
\* ItemGrader.standardize_cfn_return
StdCfn(v) == IF v = "T" THEN Item("true", One, {})
             ELSE IF v = "P" THEN Item("partial", Half, {})
             ELSE IF v = "F" THEN Item("false", Zero, {})
             ELSE Item(GradeToOk(DictGrade[v]), DictGrade[v], IF v \in DictHasMsg THEN {"CM"} ELSE {})

\* raw_check: result['grade_decimal'] *= answer['grade_decimal']   (ok is left as the comparer's)
Scale(r, credit) == [r EXCEPT !.g = Mul(r.g, credit)]

\* MathMixin.consolidate_results
Fails(rs, i) == Cardinality({j \in 1..i : rs[j].ok # "true"})
Consolidate(rs, a, k, F) ==
  LET trig == {i \in 1..Len(rs) : rs[i].ok # "true" /\ (Len(rs) = 1 \/ Fails(rs, i) > F)}
      first == CHOOSE i \in trig : \A j \in trig : i <= j
      failing == rs[first]
  IN IF trig = {} THEN Item(AnsOk(a), AnsCredit(a), {AltMark[k]})
     ELSE IF OkRecomputed THEN [failing EXCEPT !.ok = GradeToOk(failing.g)] ELSE failing

\* ItemGrader.check: highest grade, then longest message, then first
BestOf(rs) ==
  LET top == {i \in 1..Len(rs) : \A j \in 1..Len(rs) : Leq(rs[j].g, rs[i].g)}
      long == {i \in top : \A j \in top : Cardinality(rs[j].m) <= Cardinality(rs[i].m)}
  IN rs[CHOOSE i \in long : \A j \in long : i <= j]
WrongRelevant(b) == b.m = {} /\ IsZero(b.g)

\* listgrader.consolidate_grades / consolidate_single_return
RECURSIVE SumGrades(_)
SumGrades(s) == IF s = <<>> THEN Zero ELSE Add(Head(s).g, SumGrades(Tail(s)))
ConsolidateGrades(s, nE) ==
  LET extra == Len(s) - nE
      total == IF extra > 0 THEN Sub(SumGrades(s), FromInt(extra)) ELSE SumGrades(s)
      avg == Div(total, FromInt(nE))
  IN RMax(Zero, avg)
ConsolidateSingle(s, nE, pc) ==
  LET g0 == ConsolidateGrades(s, nE)
      g == IF ~pc /\ Lt(g0, One) THEN Zero ELSE g0
  IN Item(GradeToOk(g), g, UNION {s[i].m : i \in 1..Len(s)})
PadEntry == [Item("false", Zero, {}) EXCEPT !.keys = ItemKeys \cup {"all_awarded"}]
\* IntervalGrader.grade_bracket: a bound that earned nothing is left alone; no matching bracket answer zeroes it;
\* otherwise the credits multiply, the bracket's message is appended and ok is recomputed
GradeBracket(r, b, mark) ==
  IF IsZero(r.g) THEN r
  ELSE IF b = "bnone" THEN [r EXCEPT !.g = Zero, !.ok = "false"]
  ELSE LET g == Mul(r.g, BracketCredit[b])
       IN [r EXCEPT !.g = g, !.ok = GradeToOk(g), !.m = IF b = "b12" THEN @ \cup {mark} ELSE @]

\* ListGrader.check with partial_credit=False
AllPerfect(s) == \A i \in 1..Len(s) : s[i].ok = "true"
ZeroAll(s) == [i \in 1..Len(s) |-> [s[i] EXCEPT !.ok = "false", !.g = Zero]]
LongForm(s) == [items |-> s, overall |-> {}, otext |-> TRUE, keys |-> ListKeys]

\* grouping maps (group -> input positions), as ListGrader.create_grouping_map builds them
GroupsOf(layout) == IF layout = "flat2" THEN << <<1>>, <<2>> >>
                    ELSE IF layout = "flat3" THEN << <<1>>, <<2>>, <<3>> >>
                    ELSE IF layout = "g121" THEN << <<1, 3>>, <<2>> >>            \* grouping [1, 2, 1]
                    ELSE IF layout = "g212" THEN << <<2>>, <<1, 3>> >>            \* grouping [2, 1, 2]
                    ELSE IF layout = "g1212" THEN << <<1, 3>>, <<2, 4>> >>        \* grouping [1, 2, 1, 2]
                    ELSE << <<1>> >>
RECURSIVE PlanFrom(_, _)
PlanFrom(gs, k) == IF k > Len(gs) THEN <<>>
                   ELSE [j \in 1..Len(gs[k]) |-> [pos |-> gs[k][j], grp |-> k, nested |-> Len(gs[k]) > 1,
                                                   last |-> j = Len(gs[k])]] \o PlanFrom(gs, k + 1)
NInputsOf(layout) == LET gs == GroupsOf(layout) IN Cardinality(UNION {{gs[k][j] : j \in 1..Len(gs[k])} : k \in 1..Len(gs)})
HasNested(layout) == \E k \in 1..Len(GroupsOf(layout)) : Len(GroupsOf(layout)[k]) > 1
\* ListGrader.perform_check: nested long-form results -> lists of entries, then ungroupify_list
Ungroup(layout, perGroup) ==
  LET gs == GroupsOf(layout)
      entries(k) == IF Len(gs[k]) = 1 THEN <<perGroup[k]>> ELSE perGroup[k].items
  IN [p \in 1..NInputsOf(layout) |->
        LET k == CHOOSE k \in 1..Len(gs) : \E j \in 1..Len(gs[k]) : gs[k][j] = p
            j == CHOOSE j \in 1..Len(gs[k]) : gs[k][j] = p
        IN entries(k)[j]]

\* the plan: which leaves are computed, in the order the code computes them
Plan == IF ItemLike THEN << [pos |-> 0, grp |-> 1, nested |-> FALSE, last |-> TRUE] >>
        ELSE IF SingleLike THEN [i \in 1..(IF cf.nE < cf.nI THEN cf.nE ELSE cf.nI) |->
                                        [pos |-> 0, grp |-> i, nested |-> FALSE, last |-> FALSE]]
        ELSE PlanFrom(GroupsOf(cf.layout), 1)

\* AbstractGrader.apply_attempt_based_credit on one entry
AttemptEntry(r, credit) == IF Positive(r.g) THEN [r EXCEPT !.g = Mul(r.g, credit), !.ok = GradeToOk(Mul(r.g, credit))] ELSE r
MapItems(s, Op(_)) == [i \in 1..Len(s) |-> Op(s[i])]
AnyPositive(r) == IF IsListForm(r) THEN \E i \in 1..Len(r.items) : Positive(r.items[i].g) ELSE Positive(r.g)

(* ------------------------------------------------------------------ verdict of the property-level spec *)
Form == IF ListLike /\ cf.phase = 1 THEN "list" ELSE "item"
NInputs == IF ListLike /\ cf.phase = 1 THEN NInputsOf(cf.layout) ELSE 1
\* the debug flag the CALLED grader was configured with
ConfiguredDebug == IF cf.phase = 2 THEN cf.cd ELSE cf.debug
Returned == st = "returned"
WellFormedRes == WellFormed(res, Form, NInputs, cf.pins)
NoLeakRes == NoDebugLeak(res, ConfiguredDebug, DebugTokens)
DefectOf(r, pins) == Defect(r, Form, NInputs, pins)

(* ------------------------------------------------------------------ the state machine *)
NoCf == [A |-> 1, S |-> 1, F |-> 0, corr |-> FALSE, nE |-> 1, nI |-> 1, pc |-> TRUE, la |-> "a1", layout |-> "none",
         ipc |-> TRUE, lw |-> "?", guard |-> "?", pins |-> {}, att |-> "none", debug |-> FALSE,
         cd |-> TRUE, pre |-> "none", phase |-> 1, k |-> 0, lres |-> <<>>, res1 |-> [nores |-> TRUE], vd1 |-> "-"]
NoRes == [nores |-> TRUE]
NoLeaf == [kind |-> "formula", A |-> 1, S |-> 1, F |-> 0, corr |-> FALSE]

Init == /\ st = "start" /\ ch = <<>> /\ cf = NoCf /\ li = 0 /\ lf = NoLeaf /\ ans = <<>> /\ raw = "-"
        /\ sres = <<>> /\ altres = <<>> /\ items = <<>> /\ grp = <<>> /\ res = NoRes /\ log = {} /\ vd = "-"

\* the call starts: create_debuglog writes the banner; the shape of the problem is read from the configuration
Start ==
  /\ st = "start"
  /\ \/ /\ ItemLike
        /\ \E A \in 1..MaxAlts, S \in 1..MaxSamples, F \in 0..1, corr \in BOOLEAN, pre \in PreOpts \cup {"none"} :
             /\ corr => (Correlated /\ S = 2)            \* one comparer call whatever the number of samples
             /\ A * (IF corr THEN 1 ELSE S) <= MaxCalls
             /\ Part = "item" => pre = "none"
             /\ cf' = [cf EXCEPT !.A = A, !.S = S, !.F = F, !.corr = corr, !.pre = pre]
             /\ ch' = << <<"alts", A>>, <<"samples", S>>, <<"failable", F>>, <<"corr", corr>>, <<"pre", pre>> >>
     \/ /\ Part = "single"
        /\ \E nE \in 1..2, nI \in 1..MaxItems, pc \in BOOLEAN, la \in ListAns :
             /\ cf' = [cf EXCEPT !.nE = nE, !.nI = nI, !.pc = pc, !.la = la]
             /\ ch' = << <<"expected", nE>>, <<"submitted", nI>>, <<"partial_credit", pc>>, <<"listans", la>> >>
     \/ /\ Part = "interval"
        /\ \E pc \in BOOLEAN, la \in ListAns :
             /\ cf' = [cf EXCEPT !.nE = 2, !.nI = 2, !.pc = pc, !.la = la]
             /\ ch' = << <<"partial_credit", pc>>, <<"listans", la>> >>
     \/ /\ ListLike
        /\ \E layout \in Layouts, pc \in BOOLEAN, ipc \in BOOLEAN, cd \in BOOLEAN :
             /\ ipc = FALSE => HasNested(layout)
             /\ Part = "list" => cd                    \* subgraders configured with debug=True throughout
             /\ cf' = [cf EXCEPT !.layout = layout, !.pc = pc, !.ipc = ipc, !.cd = cd]
             /\ ch' = << <<"layout", layout>>, <<"partial_credit", pc>>, <<"inner_partial_credit", ipc>>,
                         <<"child_debug", cd>> >>
  /\ st' = (IF ListLike THEN "validate" ELSE "leaf") /\ li' = 1 /\ log' = {"BANNER"}
  /\ UNCHANGED <<lf, ans, raw, sres, altres, items, grp, res, vd>>

\* ListGrader.validate_submission: the number of submitted inputs must be the number the answers / the grouping
\* describe; otherwise the call raises (a configuration error of the problem) and nothing is returned
ValidateSubmission ==
  /\ st = "validate"
  /\ \E sub \in {"exact", "short", "long"} :
       /\ ch' = Append(ch, <<"submitted", sub>>)
       /\ st' = IF sub = "exact" THEN "leaf" ELSE "raised"
  /\ UNCHANGED <<cf, li, lf, ans, raw, sres, altres, items, grp, res, log, vd>>

\* a leaf item grader is asked to check one (answer, input) pair
LeafStart ==
  /\ st = "leaf"
  /\ \/ /\ ItemLike
        /\ lf' = [kind |-> "formula", A |-> cf.A, S |-> cf.S, F |-> cf.F, corr |-> cf.corr]
        /\ st' = "alt" /\ ch' = Append(ch, <<"leaf", "formula">>)
     \/ /\ SingleLike
        /\ lf' = NoLeaf /\ st' = "alt" /\ ch' = Append(ch, <<"leaf", "formula">>)
     \/ /\ ListLike
        /\ \E kind \in {"table", "formula"} :
             /\ kind = "table" => TableGrades # {}
             /\ kind = "formula" => LeafAns # {} /\ cf.layout \notin TableOnly
             /\ lf' = [NoLeaf EXCEPT !.kind = kind]
             /\ st' = IF kind = "table" THEN "table" ELSE "alt"
             /\ ch' = Append(ch, <<"leaf", kind>>)
  /\ ans' = <<>> /\ sres' = <<>> /\ altres' = <<>> /\ raw' = "-"
  /\ UNCHANGED <<cf, li, items, grp, res, log, vd>>

\* an author-defined check_response (engine/fixtures.TableGrader) answers with a ready-made, consistent dictionary
TableReturn ==
  /\ st = "table"
  /\ \E t \in TableGrades :
       /\ altres' = << Item(GradeToOk(CreditVal[t]), CreditVal[t], {"TM"}) >>
       /\ ch' = Append(ch, <<"table", t>>)
  /\ st' = "best"
  /\ UNCHANGED <<cf, li, lf, ans, raw, sres, items, grp, res, log, vd>>

\* ItemGrader.check turns to the next alternative answer
NextAlt ==
  /\ st = "alt"
  /\ \E a \in (IF ItemLike THEN AnsOpts ELSE LeafAns) :
       /\ ans' = Append(ans, a)
       /\ cf' = [cf EXCEPT !.pins = @ \cup AnsPins(a)]
       /\ ch' = Append(ch, <<"ans", a>>)
  /\ sres' = <<>> /\ st' = "compare"
  /\ UNCHANGED <<li, lf, raw, altres, items, grp, res, log, vd>>

\* the comparer is called for one sample (or once for all samples when it is a CorrelatedComparer)
Compare ==
  /\ st = "compare"
  /\ \E v \in (IF ItemLike THEN CmpReturns ELSE LeafCmp) :
       /\ raw' = v
       /\ ch' = Append(ch, <<"cmp", v>>)
       /\ st' = IF v \in ErrEvents THEN "guard" ELSE "standard"
  /\ UNCHANGED <<cf, li, lf, ans, sres, altres, items, grp, res, log, vd>>

\* MatrixGrader.check_response: the error leaves check_response (the other samples are never compared)
MatrixGuard ==
  /\ st = "guard"
  /\ \E gd \in {"suppress", "raise", "message"} :
       /\ cf.guard # "?" => gd = cf.guard
       /\ ch' = IF cf.guard = "?" THEN Append(ch, <<"guard", gd>>) ELSE ch
       /\ cf' = [cf EXCEPT !.guard = gd]
       /\ IF GuardOutcome(raw, gd) = "raise" THEN st' = "raised" /\ altres' = altres
          ELSE /\ altres' = Append(altres, Item("false", Zero, IF GuardOutcome(raw, gd) = "message" THEN {"EM"} ELSE {}))
               /\ st' = IF Len(altres') < lf.A THEN "alt" ELSE "best"
  /\ raw' = "-" /\ sres' = <<>>
  /\ UNCHANGED <<li, lf, ans, items, grp, res, log, vd>>

Standardize ==
  /\ st = "standard"
  /\ sres' = Append(sres, StdCfn(raw))
  /\ raw' = "-"
  /\ st' = IF lf.corr \/ Len(sres') = lf.S THEN "multiply" ELSE "compare"
  /\ UNCHANGED <<ch, cf, li, lf, ans, altres, items, grp, res, log, vd>>

Multiply ==
  /\ st = "multiply"
  /\ sres' = [i \in 1..Len(sres) |-> Scale(sres[i], AnsCredit(ans[Len(ans)]))]
  /\ st' = "consol"
  \* compare_evaluations has just logged the comparison data of all samples, i.e. the standardized results with their
  \* messages (a SingleListGrader does not hand its debug log to its subgrader: nothing of the leaf is logged there)
  \* a subgrader of a ListGrader writes to the list's log only if its own debug flag is set
  /\ log' = IF SingleLike \/ (ListLike /\ ~cf.cd) THEN log
            ELSE log \cup {"LOGCMP"} \cup UNION {sres[i].m : i \in 1..Len(sres)}
  /\ UNCHANGED <<ch, cf, li, lf, ans, raw, altres, items, grp, res, vd>>

ConsolidateSamples ==
  /\ st = "consol"
  /\ altres' = Append(altres, Consolidate(sres, ans[Len(ans)], Len(ans), lf.F))
  /\ sres' = <<>>
  /\ st' = IF Len(altres') < lf.A THEN "alt" ELSE "best"
  /\ UNCHANGED <<ch, cf, li, lf, ans, raw, items, grp, res, log, vd>>

\* where a finished leaf goes
AfterLeaf(r) ==
  IF ItemLike THEN /\ res' = r /\ st' = "strip" /\ UNCHANGED <<li, items, grp>>
  ELSE IF SingleLike THEN
       /\ items' = Append(items, r) /\ UNCHANGED <<grp, res>>
       /\ IF li < Len(Plan) THEN st' = "leaf" /\ li' = li + 1
          ELSE st' = (IF Part = "interval" THEN "brackets" ELSE "pad") /\ li' = li
  ELSE IF Plan[li].nested THEN
       /\ grp' = Append(grp, r) /\ UNCHANGED <<items, res>>
       /\ IF Plan[li].last THEN st' = "ncheck" /\ li' = li ELSE st' = "leaf" /\ li' = li + 1
  ELSE /\ items' = Append(items, r) /\ UNCHANGED <<grp, res>>
       /\ IF li < Len(Plan) THEN st' = "leaf" /\ li' = li + 1 ELSE st' = "ungroup" /\ li' = li

\* ItemGrader.check picks the best alternative and fills in wrong_msg.  wrong_msg belongs to the grader: the one
\* subgrader of a SingleListGrader serves every leaf, so its choice is made once and remembered (cf.lw)
Best ==
  /\ st = "best"
  /\ LET b == BestOf(altres)
         rel == WrongRelevant(b)
         fixed == SingleLike /\ cf.lw # "?"
     IN \E w \in BOOLEAN :
          /\ ~rel => w
          /\ rel /\ fixed => (w <=> cf.lw = "y")
          /\ ch' = IF rel /\ ~fixed THEN Append(ch, <<"wrong", w>>) ELSE ch
          /\ LET r == [b EXCEPT !.m = IF rel /\ w THEN {"W"} ELSE b.m, !.pos = Plan[li].pos] IN
             /\ cf' = IF rel /\ SingleLike THEN [cf EXCEPT !.lw = IF w THEN "y" ELSE "n"]
                      ELSE IF Part = "shared" THEN [cf EXCEPT !.lres = Append(@, r)] ELSE cf
             /\ AfterLeaf(r)
  /\ altres' = <<>> /\ ans' = <<>>
  /\ UNCHANGED <<lf, raw, sres, log, vd>>

(* ---- SingleListGrader stages *)
Pad ==
  /\ st = "pad"
  /\ LET n == IF cf.nE < cf.nI THEN cf.nI ELSE cf.nE IN
     items' = items \o [i \in 1..(n - Len(items)) |-> PadEntry]
  /\ st' = "sconsol"
  /\ UNCHANGED <<ch, cf, li, lf, ans, raw, sres, altres, grp, res, log, vd>>

\* IntervalGrader.check_response: the opening bracket is graded onto the lower bound's entry, the closing bracket
\* onto the upper bound's
Brackets ==
  /\ st = "brackets"
  /\ \E bo \in BracketOpts, bc \in BracketOpts :
       /\ IsZero(items[1].g) => bo = "b1"            \* irrelevant when the bound earned nothing: one representative
       /\ IsZero(items[2].g) => bc = "b1"
       /\ items' = << GradeBracket(items[1], bo, "B1"), GradeBracket(items[2], bc, "B2") >>
       /\ ch' = ch \o << <<"open", bo>>, <<"close", bc>> >>
  /\ st' = "sconsol"
  /\ UNCHANGED <<cf, li, lf, ans, raw, sres, altres, grp, res, log, vd>>

SingleConsolidate ==
  /\ st = "sconsol"
  /\ res' = ConsolidateSingle(items, cf.nE, cf.pc)
  /\ st' = "saward"
  /\ UNCHANGED <<ch, cf, li, lf, ans, raw, sres, altres, items, grp, log, vd>>

\* process_grade_list: all_awarded, the answer's message, the answer's credit, ok, extra keys
SingleAward ==
  /\ st = "saward"
  /\ LET awarded == \A i \in 1..Len(items) : Positive(items[i].g)
         g == Mul(res.g, AnsCredit(cf.la))
     IN altres' = << [res EXCEPT !.m = IF awarded THEN @ \cup {"LA"} ELSE @, !.g = g, !.ok = GradeToOk(g),
                                 !.keys = @ \cup {"all_awarded", "individual"}] >>
  /\ cf' = [cf EXCEPT !.pins = @ \cup AnsPins(cf.la)]
  /\ st' = "obest" /\ items' = <<>> /\ res' = NoRes
  /\ UNCHANGED <<ch, li, lf, ans, raw, sres, grp, log, vd>>

\* the SingleListGrader is itself an ItemGrader: best of its (single) alternative + its wrong_msg
OuterBest ==
  /\ st = "obest"
  /\ LET b == BestOf(altres) IN
     \E w \in BOOLEAN :
       /\ ~WrongRelevant(b) => w
       /\ ch' = IF WrongRelevant(b) THEN Append(ch, <<"owrong", w>>) ELSE ch
       /\ res' = [b EXCEPT !.m = IF WrongRelevant(b) /\ w THEN {"W"} ELSE b.m]
  /\ altres' = <<>> /\ st' = "strip"
  /\ UNCHANGED <<cf, li, lf, ans, raw, sres, items, grp, log, vd>>

(* ---- ListGrader stages *)
\* the nested ListGrader's own check: long form, its own partial_credit=False zeroing
NestedCheck ==
  /\ st = "ncheck"
  /\ items' = Append(items, LongForm(IF ~cf.ipc /\ ~AllPerfect(grp) THEN ZeroAll(grp) ELSE grp))
  /\ grp' = <<>>
  /\ IF li < Len(Plan) THEN st' = "leaf" /\ li' = li + 1 ELSE st' = "ungroup" /\ li' = li
  /\ UNCHANGED <<ch, cf, lf, ans, raw, sres, altres, res, log, vd>>

UngroupStage ==
  /\ st = "ungroup"
  /\ res' = LongForm(Ungroup(cf.layout, items))
  /\ items' = <<>> /\ st' = "zero"
  /\ UNCHANGED <<ch, cf, li, lf, ans, raw, sres, altres, grp, log, vd>>

ZeroIfImperfect ==
  /\ st = "zero"
  /\ res' = IF ~cf.pc /\ ~AllPerfect(res.items) THEN [res EXCEPT !.items = ZeroAll(@)] ELSE res
  /\ st' = "strip"
  /\ UNCHANGED <<ch, cf, li, lf, ans, raw, sres, altres, items, grp, log, vd>>

(* ---- AbstractGrader.__call__ tail *)
StripKeys ==
  /\ st = "strip"
  /\ res' = IF IsListForm(res) THEN [res EXCEPT !.items = MapItems(@, StripItem)] ELSE StripItem(res)
  /\ st' = "attempt"
  /\ UNCHANGED <<ch, cf, li, lf, ans, raw, sres, altres, items, grp, log, vd>>

AttemptCredit ==
  /\ st = "attempt"
  /\ \E att \in AttOpts :
       /\ ~AnyPositive(res) => att \in {"none", "c12"}        \* nothing to scale: one representative with the feature on
       /\ cf.phase = 2 => att = "none"                       \* the shared subgrader has no schedule of its own
       /\ cf' = IF cf.phase = 2 THEN cf ELSE [cf EXCEPT !.att = att]
       /\ ch' = IF cf.phase = 2 THEN ch ELSE Append(ch, <<"attempt", att>>)
       /\ log' = IF att = "none" THEN log ELSE log \cup {"LOGATT"}
       /\ IF att = "none" \/ Eq(AttCredit(att), One) THEN res' = res
          ELSE LET scale(r) == AttemptEntry(r, AttCredit(att))
                   changed == AnyPositive(res)
               IN IF IsListForm(res)
                  THEN res' = [res EXCEPT !.items = MapItems(@, scale), !.overall = IF changed THEN @ \cup {"ATT"} ELSE @]
                  ELSE res' = [scale(res) EXCEPT !.m = IF changed THEN @ \cup {"ATT"} ELSE @]
  /\ st' = "debug"
  /\ UNCHANGED <<li, lf, ans, raw, sres, altres, items, grp, vd>>

\* the debug flag the called object carries at this moment
\* (flawed designs: left switched on by a debugging parent list / inherited from another grader of the family through
\* the aliased registered defaults)
EffectiveDebug(d) == IF cf.phase = 2 THEN cf.cd \/ (ParentForcesChildDebug /\ cf.debug)
                     ELSE d \/ (AliasedDefaults /\ cf.pre = "reg_other")

DebugAppend ==
  /\ st = "debug"
  /\ \E d \in BOOLEAN :
       /\ cf.phase = 2 => d = cf.cd                          \* configured when the object was built, before call 1
       /\ cf' = IF cf.phase = 2 THEN cf ELSE [cf EXCEPT !.debug = d]
       /\ ch' = IF cf.phase = 2 THEN ch ELSE Append(ch, <<"debug", d>>)
       /\ res' = IF ~EffectiveDebug(d) THEN res
                 ELSE IF IsListForm(res) THEN [res EXCEPT !.overall = @ \cup log] ELSE [res EXCEPT !.m = @ \cup log]
  /\ st' = "format"
  /\ UNCHANGED <<li, lf, ans, raw, sres, altres, items, grp, log, vd>>

\* format_messages replaces newlines; every message stays a text string, `.get(..., "")` fills in missing ones
FormatMessages ==
  /\ st = "format"
  /\ st' = "returned"
  /\ vd' = DefectOf(res, cf.pins)
  /\ UNCHANGED <<ch, cf, li, lf, ans, raw, sres, altres, items, grp, res, log>>

(* ---- history: the ListGrader call has returned; one of its subgrader objects is now called on its own with the
   input it graded inside the list.  ItemGrader.check yields the same best result again (same answers, same scripted
   comparer); a new debug log is started; then the tail of __call__ runs with the subgrader's own configuration *)
FollowUp ==
  /\ st = "returned" /\ Part = "shared" /\ cf.phase = 1
  /\ \E k \in 1..Len(cf.lres) :
       /\ cf' = [cf EXCEPT !.phase = 2, !.k = k, !.res1 = res, !.vd1 = vd]
       /\ ch' = Append(ch, <<"alone", k>>)
       /\ res' = cf.lres[k]
  /\ st' = "strip" /\ vd' = "-" /\ log' = {"BANNER", "LOGCMP"}
  /\ UNCHANGED <<li, lf, ans, raw, sres, altres, items, grp>>

Finished == st = "raised" \/ (st = "returned" /\ ~(Part = "shared" /\ cf.phase = 1))
Done == Finished /\ UNCHANGED vars

Next == \/ Start \/ ValidateSubmission \/ LeafStart \/ TableReturn \/ NextAlt \/ Compare \/ MatrixGuard \/ Standardize \/ Multiply \/ ConsolidateSamples
        \/ Best \/ Pad \/ Brackets \/ SingleConsolidate \/ SingleAward \/ OuterBest \/ NestedCheck \/ UngroupStage
        \/ ZeroIfImperfect \/ StripKeys \/ AttemptCredit \/ DebugAppend \/ FormatMessages \/ FollowUp \/ Done
Spec == Init /\ [][Next]_vars /\ WF_vars(Next)

(* ------------------------------------------------------------------ what TLC checks *)
Stages == {"start", "validate", "leaf", "table", "alt", "compare", "guard", "raised", "standard", "multiply", "consol", "best", "pad", "brackets", "sconsol",
           "saward", "obest", "ncheck", "ungroup", "zero", "strip", "attempt", "debug", "format", "returned"}
SeqItems(s) == {s[i] : i \in 1..Len(s)}
ItemsIn(r) == IF "nores" \in DOMAIN r THEN {} ELSE IF IsListForm(r) THEN SeqItems(r.items) ELSE {r}
LiveItems == SeqItems(sres) \cup SeqItems(altres) \cup SeqItems(grp) \cup ItemsIn(res)
             \cup UNION {ItemsIn(items[i]) : i \in 1..Len(items)}

\* THE PROPERTY: whatever is returned is well formed and leaks no debugging output
InvReturnedWellFormed == Returned => WellFormedRes /\ NoLeakRes
\* ... and the exact extent of its failure in the pipeline as coded: the only ill-formed value that can be returned
\* is ok = "partial" with grade 0, and only when a partial-credit comparer return met an answer worth no credit
InvOnlyKnownDefect == Returned => vd \in {"", "partial-ok-with-zero-grade"}
InvDefectCause == Returned /\ vd # "" => /\ \E i \in 1..Len(ch) : ch[i][1] = "cmp" /\ ch[i][2] \in PartialCmp
                                         /\ \E i \in 1..Len(ch) : ch[i][1] = "ans" /\ ch[i][2] = "a0"
InvVerdictAgrees == Returned => ((vd = "") <=> WellFormedRes)
InvNoLeak == Returned => NoLeakRes
\* every grade the pipeline ever holds is a number in [0, 1]; every message is text
InvGradesInUnit == \A r \in LiveItems : ClassOf(r.g) # "out" /\ r.text /\ r.ok \in OkValues
\* ok and grade are separated in one place only: Multiply scales the grade of the per-sample results and leaves the
\* comparer's ok.  Downstream of consolidate_results the only stale value is "partial" with grade 0 (as coded)
Consistent(r) == r.ok = GradeToOk(r.g) \/ (ClassOf(r.g) = "one" /\ r.ok \in cf.pins)
InvStaleOk == \A r \in LiveItems \ SeqItems(sres) :
    \/ Consistent(r)
    \/ /\ ~OkRecomputed /\ r.ok = "partial" /\ IsZero(r.g)
       /\ \E i \in 1..Len(ch) : ch[i][1] = "cmp" /\ ch[i][2] \in PartialCmp
       /\ \E i \in 1..Len(ch) : ch[i][1] = "ans" /\ ch[i][2] = "a0"
\* after key stripping only the three edX keys are left
InvStripped == st \in {"attempt", "debug", "format", "returned"} => \A r \in ItemsIn(res) : r.keys = ItemKeys
\* debugging output enters a message in the DebugAppend stage only
InvDebugOnlyAtAppend == st \notin {"format", "returned"} => \A r \in LiveItems : r.m \cap DebugTokens = {}
InvDebugShown == Returned /\ ConfiguredDebug => "BANNER" \in AllMarkers(res)
\* list results: one entry per input, in input order, from the un-grouping stage onwards
InvListOrder == ListLike /\ cf.phase = 1 /\ st \in {"zero", "strip", "attempt", "debug", "format", "returned"} =>
                  /\ Len(res.items) = NInputs
                  /\ \A i \in 1..NInputs : res.items[i].pos = i
\* partial_credit=False: all entries perfect, or all of them zero, before attempt credit is applied
InvAllOrNothing == ListLike /\ cf.phase = 1 /\ st \in {"strip", "attempt"} /\ ~cf.pc =>
                     AllPerfect(res.items) \/ \A i \in 1..Len(res.items) : IsZero(res.items[i].g)
InvStage == st \in Stages
\* a call that raises returns nothing: no verdict is ever formed for it
InvRaisedNoVerdict == st = "raised" => vd = "-"
\* the pipeline terminates: every behaviour reaches "returned" or "raised"  (checked with SPECIFICATION Spec)
Terminates == <>Finished
\* the subgrader called on its own returns what it contributed inside the list, before the list's own zeroing and
\* attempt scaling (a verdict depends on configuration and call only)
InvAloneSameAsInList == Returned /\ cf.phase = 2 =>
    /\ res.ok = cf.lres[cf.k].ok /\ res.g = cf.lres[cf.k].g
    /\ res.m \ DebugTokens = cf.lres[cf.k].m
\* a configuration is not changed by grading: the shared subgrader shows debugging output iff it was configured to
\* the construction history of the class family does not show: debugging output iff THIS grader was built with debug
InvFamilyDebugAsConfigured == Returned /\ Part = "family" => (("BANNER" \in res.m) <=> cf.debug)
InvChildDebugAsConfigured == Returned /\ cf.phase = 2 => (("BANNER" \in res.m) <=> cf.cd)
=============================================================================
