INIT Init
NEXT Next
CONSTANTS
  MaxLen = 3
  Part = "any"
INVARIANT LawIdempotent
INVARIANT LawKeepsInk
INVARIANT LawShape
INVARIANT LawOutcomeDomain
INVARIANT LawMatchSym
INVARIANT LawAcceptIffEqual
INVARIANT LawStripAllCoarser
