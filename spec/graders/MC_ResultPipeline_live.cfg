SPECIFICATION Spec
CONSTANTS
  Part = "list"
  MaxAlts = 1
  MaxSamples = 1
  MaxCalls = 1
  Correlated = FALSE
  AnsOpts = {}
  CmpReturns = {}
  LeafAns = {"a0", "a1f"}
  LeafCmp = {"T", "P"}
  TableGrades = {"c12"}
  ListAns = {}
  MaxItems = 1
  Layouts = {"flat2", "g121"}
  TableOnly = {"g1212"}
  OkRecomputed = FALSE
PROPERTY Terminates
