SPECIFICATION Spec
CONSTANTS
  Part = "shared"
  MaxAlts = 1
  MaxSamples = 1
  MaxCalls = 1
  Correlated = FALSE
  AnsOpts = {}
  CmpReturns = {}
  LeafAns = {"a12", "a1"}
  LeafCmp = {"T", "F"}
  TableGrades = {}
  ListAns = {}
  MaxItems = 1
  Layouts = {"flat2"}
  TableOnly = {"g1212"}
  AttOpts = {"none", "c12", "c1e4"}
  OkRecomputed = TRUE
  ParentForcesChildDebug = FALSE
  PreOpts = {}
  AliasedDefaults = FALSE
PROPERTY Terminates
