--------------------------- MODULE DefaultsRegistry ---------------------------
(* Growth beyond the listed properties: course-wide defaults registered on grader classes
   (docs/plugins.md "Overriding Library Defaults", mitxgraders/plugins/defaults_sample.py) as a state machine.

   State:    reg[c]  -- what has been registered on class c since it was last cleared: a function from some option
                        names to values, empty after a clear  (ObjectWithSchema.default_values, one per class, "NOT
                        shared with superclasses/subclasses"; all values are strings, the adapter maps them);
             h       -- the history of operations (bounded by the model instance; a history variable, no behaviour).
   Actions:  Register(c, k, v)   c.register_defaults({k: v})   ("the options stack on top of each other, overwriting
                                                                 earlier options as necessary")
             Clear(c)            c.clear_registered_defaults()  ("reset to the library defaults")
   Observation: constructing an object of class c with explicit options E.  Its configuration holds, per option k,
             E[k] if given, else the value registered for k on the most derived class of c's chain that registered k
             ("registered defaults can be applied to a higher level class than where those options normally live";
             a subclass registration has precedence over its superclasses'), else the documented default of c.  When a
             registered option reaches a class whose schema does not know it, construction fails with a configuration error.

   Classes form a tree (the library never uses multiple inheritance); Parent maps a class to its parent or "root".  *)
EXTENDS Integers, Sequences, FiniteSets, TLC

CONSTANTS Class,          \* the class names
          Parent,         \* [Class -> Class \cup {"root"}]
          Opts,           \* all option names
          Vals,           \* [Opts -> set of values a registration may carry]
          Schema,         \* [Class -> SUBSET Opts]: the options each class's schema knows
          Default         \* [Class -> [Opts -> value]]: documented defaults (only read at options in Schema[c])

VARIABLES reg, h
vars == <<reg, h>>

RECURSIVE Chain(_)
\* the class itself first, then its ancestors
Chain(c) == IF c = "root" THEN <<>> ELSE <<c>> \o Chain(Parent[c])
Ancestors(c) == {Chain(c)[i] : i \in 1..Len(Chain(c))}                 \* includes c
Descendants(x) == {c \in Class : x \in Ancestors(c)}                    \* includes x

Nothing == [x \in {} |-> ""]
Init == reg = [c \in Class |-> Nothing] /\ h = <<>>

Merge(old, k, v) == [x \in DOMAIN old \cup {k} |-> IF x = k THEN v ELSE old[x]]
Register(c, k, v) == /\ reg' = [reg EXCEPT ![c] = Merge(reg[c], k, v)]
                     /\ h' = Append(h, [op |-> "register", c |-> c, k |-> k, v |-> v])
Clear(c) == /\ reg' = [reg EXCEPT ![c] = Nothing]
            /\ h' = Append(h, [op |-> "clear", c |-> c])
Next == \/ \E c \in Class, k \in Opts : \E v \in Vals[k] : Register(c, k, v)
        \/ \E c \in Class : Clear(c)
Spec == Init /\ [][Next]_vars

(* ---- the observation -------------------------------------------------------------------------------------- *)
Registered(c, k) == k \in DOMAIN reg[c]
\* classes of c's chain that registered k, most derived first
Sources(c, k) == SelectSeq(Chain(c), LAMBDA x : Registered(x, k))
RegisteredOpts(c) == {k \in Opts : Sources(c, k) # <<>>}
Effective(c, k, E) == IF k \in DOMAIN E THEN E[k]
                      ELSE IF Sources(c, k) # <<>> THEN reg[Head(Sources(c, k))][k]
                      ELSE Default[c][k]
\* E is a function from some options of Schema[c] to values
Construct(c, E) == IF ~(RegisteredOpts(c) \subseteq Schema[c]) THEN [k |-> "error"]
                   ELSE [k |-> "object", config |-> [o \in Schema[c] |-> Effective(c, o, E)]]

(* ---- the same registry, declaratively: what history h leaves on class c ------------------------------------ *)
OpsOn(c) == SelectSeq(h, LAMBDA e : e.c = c)
RECURSIVE Replay(_, _)
Replay(ops, acc) == IF ops = <<>> THEN acc
                    ELSE LET e == Head(ops) IN
                         Replay(Tail(ops), IF e.op = "clear" THEN Nothing ELSE Merge(acc, e.k, e.v))
\* the registry of a class depends only on the operations applied to that very class, in their order
InvPerClass == \A c \in Class : reg[c] = Replay(OpsOn(c), Nothing)

(* ---- laws --------------------------------------------------------------------------------------------------- *)
TypeOK == \A c \in Class : DOMAIN reg[c] \subseteq Opts /\ \A k \in DOMAIN reg[c] : reg[c][k] \in Vals[k]
\* an explicitly given option always wins
InvExplicitWins == \A c \in Class : \A k \in Schema[c] : \A v \in Vals[k] : Effective(c, k, (k :> v)) = v
\* nothing registered anywhere on the chain: the documented default
InvDocumentedDefault == \A c \in Class : \A k \in Schema[c] : Sources(c, k) = <<>> => Effective(c, k, Nothing) = Default[c][k]
\* a subclass's own registration has precedence over its ancestors'
InvMostDerivedWins == \A c \in Class : \A k \in Opts : Registered(c, k) => Effective(c, k, Nothing) = reg[c][k]
\* one step changes what is observed only on the class operated on and its descendants
View(c) == [k \in Opts |-> IF Sources(c, k) = <<>> THEN "default" ELSE reg[Head(Sources(c, k))][k]]
StepIsolation == [][\A x \in Class : reg'[x] # reg[x] => \A c \in Class \ Descendants(x) : View(c)' = View(c)]_vars
\* clearing a class removes exactly its own registrations
StepClear == [][\A x \in Class : (DOMAIN reg'[x] = {} /\ DOMAIN reg[x] # {}) =>
                  \A c \in Class : \A k \in Opts :
                    View(c)'[k] = IF Sources(c, k) # <<>> /\ Head(Sources(c, k)) = x
                                  THEN (LET rest == SelectSeq(Chain(c), LAMBDA y : y # x /\ Registered(y, k))
                                        IN IF rest = <<>> THEN "default" ELSE reg[Head(rest)][k])
                                  ELSE View(c)[k]]_vars
\* registering stacks: other options registered on the same class stay
StepStacks == [][\A x \in Class : DOMAIN reg'[x] # {} => DOMAIN reg[x] \subseteq DOMAIN reg'[x]]_vars
=============================================================================
