--------------------------- MODULE IntervalGrading ---------------------------
(* Growth beyond the listed properties: how IntervalGrader scores a submission such as "[0, 1)".
   Written from docs/grading_math/interval_grader.md ("Partial Credit (and how credit is assigned in general)",
   "Brackets") -- not from the code.  Bound to mitxgraders/formulagrader/intervalgrader.py by replay (MC_IntervalGrading)
   and by a random driver (IntervalGradingTrace).

   A submission is  [open, lo, up, close, form]  where open / close are one-symbol strings, lo / up are the numbers
   the student wrote as bounds (small integers; the subgrader is a real NumericalGrader) and form says how the text
   between the brackets is laid out ("ok", "one", "three": item count; "blank": an empty item).
   An answer is  [ob, lo, up, cb, credit, msg]  where ob / cb are sequences of bracket alternatives
   [ch, w, m] (character, credit as a rational, message id or ""), lo / up are sequences of bound alternatives
   [v, w, m] and credit is the answer's own credit.  Credits are exact rationals (Rat.tla).                      *)
EXTENDS Integers, Sequences, FiniteSets, TLC, Rat

OkOf(q) == IF Eq(q, One) THEN "T" ELSE IF IsZero(q) THEN "F" ELSE "P"
RMaxSet(S) == CHOOSE x \in S : \A y \in S : Leq(y, x)

(* ---- one expression and one bracket ------------------------------------------------------------------- *)
\* "the subgrader [gives] the decimal grade for each expression": the best alternative that matches (ItemGrader rule)
BoundMatches(alts, v) == {i \in DOMAIN alts : alts[i].v = v}
BoundCredit(alts, v) == IF BoundMatches(alts, v) = {} THEN Zero ELSE RMaxSet({alts[i].w : i \in BoundMatches(alts, v)})
\* "If the bracket is correct, then the score for that expression is kept (or if grade_decimal is set for the
\*  bracket, then the score for the expression is multiplied by that entry).  If the bracket is incorrect, zero."
BracketMatches(alts, ch) == {i \in DOMAIN alts : alts[i].ch = ch}
BracketCredit(alts, ch) == IF BracketMatches(alts, ch) = {} THEN Zero ELSE RMaxSet({alts[i].w : i \in BracketMatches(alts, ch)})
\* "For each correct expression, the bracket is then inspected."
HalfCredit(boundAlts, v, brAlts, ch) ==
  LET e == BoundCredit(boundAlts, v) IN IF IsZero(e) THEN Zero ELSE Mul(e, BracketCredit(brAlts, ch))

(* ---- one answer ------------------------------------------------------------------------------------------ *)
\* "The two resulting scores are then combined ... each half of the interval is worth 50% of the overall credit.
\*  If partial_credit is set to False, then the overall score must be 1 for any credit to be awarded."
Combined(a, s) == Div(Add(HalfCredit(a.lo, s.lo, a.ob, s.open), HalfCredit(a.up, s.up, a.cb, s.close)), FromInt(2))
AnswerGrade(a, s, partial) ==
  LET r == Combined(a, s) IN Mul(a.credit, IF ~partial /\ Lt(r, One) THEN Zero ELSE r)

(* ---- the messages a half may contribute (the doc's example: the chosen bracket's message is shown) ------ *)
\* the bracket alternatives that attain the best credit for the character (any of them may be the one reported)
BestBrackets(alts, ch) == {i \in BracketMatches(alts, ch) : Eq(alts[i].w, BracketCredit(alts, ch))}
HalfBracketMsgs(boundAlts, v, brAlts, ch) ==
  IF IsZero(BoundCredit(boundAlts, v)) \/ BracketMatches(brAlts, ch) = {} THEN {""}
  ELSE {brAlts[i].m : i \in BestBrackets(brAlts, ch)}

(* ---- refusals ---------------------------------------------------------------------------------------------
   "Entries that do not use these brackets will receive an error message."   An interval has exactly two entries
   (IntervalGrader fixes length_error and missing_error on).                                                     *)
Refusal(s, opening, closing) ==
  IF s.open \notin opening THEN "InvalidInput"
  ELSE IF s.close \notin closing THEN "InvalidInput"
  ELSE IF s.form \in {"one", "three", "blank"} THEN "MissingInput"
  ELSE "none"

(* ---- the whole call: several alternative answers, the best one counts (ItemGrader rule) ---------------- *)
Grade(answers, s, partial) == RMaxSet({AnswerGrade(answers[i], s, partial) : i \in DOMAIN answers})
Outcome(answers, s, partial, opening, closing) ==
  LET r == Refusal(s, opening, closing) IN
  IF r # "none" THEN [k |-> "raise", cls |-> r]
  ELSE LET g == Grade(answers, s, partial) IN [k |-> "return", grade |-> g, ok |-> OkOf(g)]

(* ---- laws ---------------------------------------------------------------------------------------------- *)
InUnit(q) == Leq(Zero, q) /\ Leq(q, One)
WellFormedAnswer(a) == /\ InUnit(a.credit)
                       /\ \A i \in DOMAIN a.ob : InUnit(a.ob[i].w)
                       /\ \A i \in DOMAIN a.cb : InUnit(a.cb[i].w)
                       /\ \A i \in DOMAIN a.lo : InUnit(a.lo[i].w)
                       /\ \A i \in DOMAIN a.up : InUnit(a.up[i].w)
\* a grade is a credit; without partial credit it is all (the answer's own credit) or nothing
LawRange(a, s, partial) == InUnit(AnswerGrade(a, s, partial))
LawAllOrNothing(a, s) == AnswerGrade(a, s, FALSE) \in {Zero, a.credit}
\* all-or-nothing never pays more than partial credit
LawPartialDominates(a, s) == Leq(AnswerGrade(a, s, FALSE), AnswerGrade(a, s, TRUE))
\* a bracket can only take credit away: never more than the two expressions alone earn
LawBracketOnlyLowers(a, s) ==
  Leq(Combined(a, s), Div(Add(BoundCredit(a.lo, s.lo), BoundCredit(a.up, s.up)), FromInt(2)))
\* each half is worth at most 50%
LawHalf(a, s) == /\ Leq(Div(HalfCredit(a.lo, s.lo, a.ob, s.open), FromInt(2)), Q(1, 2))
                 /\ Leq(Div(HalfCredit(a.up, s.up, a.cb, s.close), FromInt(2)), Q(1, 2))
\* a wrong expression earns nothing for its half whatever its bracket is
LawWrongExpression(a, s) == IsZero(BoundCredit(a.lo, s.lo)) => IsZero(HalfCredit(a.lo, s.lo, a.ob, s.open))
\* the halves are independent: the lower half does not depend on the closing bracket or the upper bound
LawIndependent(a, s, s2) ==
  (s.open = s2.open /\ s.lo = s2.lo) => HalfCredit(a.lo, s.lo, a.ob, s.open) = HalfCredit(a.lo, s2.lo, a.ob, s2.open)
=============================================================================
