---------------------------- MODULE MC_SingleList ----------------------------
(* Model instance for C07.  Every part has a catalogue of *problems* (grader configuration, answers, credit table)
   written in the generic form SingleList!Outcome understands; TLC enumerates every submission inside the bounds
   for every problem, evaluates the allowed outcome and the laws.  The catalogue is exported as JSON
   (IOEnv.CAT_FILE) so that the adapter builds the real graders from exactly the data TLC used; the dump of
   <<c, out>> is replayed into the real SingleListGrader.                                                     *)
EXTENDS SingleList, Json, IOUtils
CONSTANTS Part, Tier

Quick == Tier = "quick"
Comma == <<"COMMA">>
Semi == <<"SEMI">>
CommaSp == <<"COMMA", "SP">>
BarBar == <<"BAR", "BAR">>
Half == <<1, 2>>
TableSub == [k |-> "table"]
G(o, p, le, me, d, sub) == [k |-> "list", ordered |-> o, partial |-> p, lengthErr |-> le, missingErr |-> me,
                            delim |-> d, sub |-> sub]
Alt(sym, cr) == [sym |-> sym, credit |-> cr]
Leaf(sym) == <<Alt(sym, One)>>
AL(items, cr, m) == [items |-> items, credit |-> cr, hasMsg |-> m]
Prob(g, form, ans, atext, T) == [g |-> g, form |-> form, ans |-> ans, atext |-> atext, T |-> T]

SX == INSTANCE SequencesExt          \* (named instance: SequencesExt!Contains would clash with Text!Contains)
SetToSeqR(S) == SX!SetToSeq(S)
SeqsOfLen(A, n) == [1..n -> A]
SeqsBetween(A, lo, hi) == UNION {SeqsOfLen(A, n) : n \in lo..hi}
Range(f) == {f[x] : x \in DOMAIN f}

(* ------------------------------------------------------------------------------------------ part "formula"
   Arbitrary credit matrices: expected items e1..enE, a submitted item is named by its column of the credit
   matrix (digits 0,1,2 = credit 0, 1/2, 1 against e1, e2, ...), so all sequences of such items = all matrices.  *)
ENames == <<"e1", "e2", "e3", "e4", "e5">>
EIdx == ("e1" :> 1 @@ "e2" :> 2 @@ "e3" :> 3 @@ "e4" :> 4 @@ "e5" :> 5)
Digit == <<"0", "1", "2">>
DigitIdx == ("0" :> 1 @@ "1" :> 2 @@ "2" :> 3)
LevelQ == <<Zero, Half, One>>
VecTexts(nE) == {[i \in 1..nE |-> Digit[v[i] + 1]] : v \in [1..nE -> 0..2]}
ExpItems(nE) == [i \in 1..nE |-> Leaf(<<ENames[i]>>)]
FormulaT(nE) == TLCEval([p \in {<<ENames[i]>> : i \in 1..nE} \X VecTexts(nE) |-> LevelQ[DigitIdx[p[2][EIdx[p[1][1]]]]]])
FormulaMaxS == IF Quick THEN <<4, 4, 2>> ELSE <<6, 4, 3, 2>>
FormulaProblems ==
  SetToSeqR({Prob(G(o, p, FALSE, FALSE, Comma, TableSub), "list", <<AL(ExpItems(nE), cr, TRUE)>>, <<>>, FormulaT(nE)) :
             o \in BOOLEAN, p \in BOOLEAN, cr \in {One, Half}, nE \in 1..Len(FormulaMaxS)})
FormulaItems(P) == VecTexts(Len(P.ans[1].items))
FormulaSubs(P, first) == {<<first>> \o s : s \in SeqsBetween(FormulaItems(P), 0, FormulaMaxS[Len(P.ans[1].items)] - 1)}

(* ------------------------------------------------------------------------------------------ part "errors"
   Item counts and blank entries against every combination of the four flags.                                 *)
ErrorsMaxE == IF Quick THEN 3 ELSE 4
ErrorsMaxS == IF Quick THEN 3 ELSE 4
ErrorsT(nE) == TLCEval([p \in ({<<ENames[i]>> : i \in 1..nE} \X ({<<ENames[i]>> : i \in 1..nE} \cup {<<>>, <<"SP", "e1">>})) |->
                  IF p[1] = p[2] THEN One
                  ELSE IF p[1] = <<"e1">> /\ p[2] \in {<<>>, <<"SP", "e1">>} THEN Half ELSE Zero])
ErrorsProblems ==
  SetToSeqR({Prob(G(o, p, le, me, Comma, TableSub), "list", <<AL(ExpItems(nE), One, TRUE)>>, <<>>, ErrorsT(nE)) :
             o \in BOOLEAN, p \in BOOLEAN, le \in BOOLEAN, me \in BOOLEAN, nE \in 1..ErrorsMaxE})
ErrorsItems == {<<"e1">>, <<"e2">>, <<"x">>, <<>>, <<"SP">>, <<"SP", "e1">>, <<"SP", "TAB">>}
ErrorsSubs(P, first) == {<<first>> \o s : s \in SeqsBetween(ErrorsItems, 0, ErrorsMaxS - 1)}

(* ------------------------------------------------------------------------------------------ part "lists"
   Items with alternatives and partial credit, several answer lists, answer credit and message, fixed table
   with ties ("h" earns half against a and b, "ab" earns full against a and b).                               *)
Sa == <<"a">>
Sb == <<"b">>
Sc == <<"c">>
Sd == <<"d">>
Sh == <<"h">>
Sab == <<"a", "b">>
Sx == <<"x">>
ListsT == TLCEval([p \in {Sa, Sb, Sc, Sd} \X {Sa, Sb, Sc, Sd, Sh, Sab, Sx} |->
             IF p[1] = p[2] THEN One
             ELSE IF p[2] = Sh /\ p[1] \in {Sa, Sb} THEN Half
             ELSE IF p[2] = Sab /\ p[1] \in {Sa, Sb} THEN One
             ELSE IF p[2] = Sd /\ p[1] = Sc THEN <<1, 3>>
             ELSE Zero])
ListsAnswers == <<
   <<AL(<<Leaf(Sa), Leaf(Sb)>>, One, TRUE)>>,
   <<AL(<< <<Alt(Sa, One), Alt(Sc, Half)>>, Leaf(Sb)>>, Half, TRUE)>>,
   <<AL(<<Leaf(Sa), Leaf(Sb)>>, One, TRUE), AL(<<Leaf(Sc), Leaf(Sd)>>, Half, TRUE)>>,
   <<AL(<<Leaf(Sa), Leaf(Sb), Leaf(Sc)>>, One, FALSE), AL(<<Leaf(Sc), Leaf(Sb), Leaf(Sa)>>, One, TRUE)>>,
   <<AL(<<Leaf(Sa)>>, One, TRUE)>>,
   <<AL(<< <<Alt(Sa, One), Alt(Sb, One)>>, <<Alt(Sb, One), Alt(Sa, Half)>>, <<Alt(Sc, <<2, 3>>)>> >>, One, TRUE)>>,
   <<AL(<<Leaf(Sa), Leaf(Sb)>>, One, FALSE), AL(<<Leaf(Sc), Leaf(Sc)>>, Zero, TRUE)>>,
   <<AL(<<Leaf(Sa), Leaf(Sb), Leaf(Sc), Leaf(Sd)>>, One, TRUE), AL(<<Leaf(Sd), Leaf(Sd), Leaf(Sb), Leaf(Sa)>>, <<3, 4>>, TRUE)>> >>
ListsFlags == {<<o, p, FALSE, FALSE>> : o \in BOOLEAN, p \in BOOLEAN} \cup {<<FALSE, TRUE, TRUE, TRUE>>, <<TRUE, FALSE, FALSE, TRUE>>}
ListsProblems ==
  SetToSeqR({Prob(G(f[1], f[2], f[3], f[4], Comma, TableSub), "list", ListsAnswers[a], <<>>, ListsT) :
             f \in ListsFlags, a \in DOMAIN ListsAnswers})
ListsItems == {Sa, Sb, Sc, Sd, Sh, Sab, Sx}
ListsMaxS == IF Quick THEN 3 ELSE 4
ListsSubs(P, first) == {<<first>> \o s : s \in SeqsBetween(ListsItems, 0, ListsMaxS - 1)}

(* ------------------------------------------------------------------------------------------ part "text"
   Raw submission texts: one- and two-symbol delimiters, answers given as lists, as a string, or inferred from
   the expect attribute.  Table: an item earns 1 if it is exactly the expected text, 1/2 if it differs only by
   surrounding spaces.                                                                                         *)
TextMaxLen(d) == IF Quick THEN 5 ELSE IF d = BarBar THEN 7 ELSE 6
TextExpected(d) == IF d = BarBar THEN <<"a", "BAR", "BAR", "b">> ELSE <<"a", "COMMA", "SP", "b">>     \* the author's string
TextAlphabet(d) == IF d = BarBar THEN {"a", "b", "BAR"} ELSE {"a", "b", "SP", "COMMA"}
Spaced(t, n) == {[i \in 1..l |-> "SP"] \o t \o [i \in 1..r |-> "SP"] : l \in 0..n, r \in 0..n}
TextT(d) == LET es == Range(SplitBy(TextExpected(d), d)) IN
            TLCEval([p \in UNION {{e} \X Spaced(StripEnds(e, {"SP"}), 3) : e \in es} |-> IF p[1] = p[2] THEN One ELSE Half])
TextProblems ==
  SetToSeqR({Prob(G(fl[1], TRUE, FALSE, fl[2], d, TableSub), fl[3],
                  IF fl[3] = "list" THEN <<AL([i \in 1..2 |-> Leaf(SplitBy(TextExpected(d), d)[i])], One, TRUE)>> ELSE <<>>,
                  IF fl[3] = "list" THEN <<>> ELSE TextExpected(d), TextT(d)) :
             d \in {Comma, CommaSp, BarBar},
             fl \in ({FALSE} \X BOOLEAN \X {"list", "string", "expect"}) \cup ({TRUE} \X BOOLEAN \X {"list"})})
TextSubs(P, first) == {<<first>> \o s : s \in SeqsBetween(TextAlphabet(P.g.delim), 0, TextMaxLen(P.g.delim) - 1)}

(* ------------------------------------------------------------------------------------------ part "nested"
   One level of nesting: outer delimiter ";", inner delimiter ",".                                            *)
NestedT == TLCEval([p \in {Sa, Sb, Sc, Sd} \X {Sa, Sb, Sc, Sd, Sh, Sx} |->
              IF p[1] = p[2] THEN One ELSE IF p[2] = Sh /\ p[1] = Sa THEN Half ELSE Zero])
Inner(items) == <<AL(items, One, FALSE)>>
NestedAnswers == <<
   <<AL(<<Inner(<<Leaf(Sa), Leaf(Sb)>>), Inner(<<Leaf(Sc), Leaf(Sd)>>)>>, One, TRUE)>>,
   <<AL(<<Inner(<<Leaf(Sa), Leaf(Sb)>>), Inner(<<Leaf(Sc)>>)>>, Half, TRUE)>>,
   <<AL(<< <<AL(<<Leaf(Sa), Leaf(Sb)>>, One, FALSE), AL(<<Leaf(Sc), Leaf(Sd)>>, Half, FALSE)>> >>, One, TRUE)>>,
   <<AL(<<Inner(<<Leaf(Sa)>>), Inner(<<Leaf(Sb)>>)>>, One, TRUE), AL(<<Inner(<<Leaf(Sc), Leaf(Sd)>>), Inner(<<Leaf(Sa)>>)>>, One, FALSE)>> >>
\* flags <<outer ordered, inner ordered, outer partial, inner partial, missingErr (both levels), inner lengthErr>>
\* (inner lengthErr: every pairing of a submitted inner list with an expected inner list of another length must raise,
\*  also when the same inner text was acceptable for a different expected list a moment before)
NestedFlags == IF Quick THEN {<<oo, io, op, TRUE, TRUE, FALSE>> : oo \in BOOLEAN, io \in BOOLEAN, op \in BOOLEAN}
                              \cup {<<FALSE, FALSE, TRUE, FALSE, FALSE, FALSE>>, <<TRUE, FALSE, TRUE, FALSE, FALSE, FALSE>>}
                              \cup {<<FALSE, FALSE, TRUE, TRUE, FALSE, TRUE>>, <<TRUE, FALSE, TRUE, TRUE, FALSE, TRUE>>}
               ELSE {<<oo, io, op, f[1], f[2], il>> : oo \in BOOLEAN, io \in BOOLEAN, op \in BOOLEAN, il \in BOOLEAN,
                                                    f \in {<<TRUE, TRUE>>, <<TRUE, FALSE>>, <<FALSE, TRUE>>}}
NestedProblems ==
  SetToSeqR({Prob(G(f[1], f[3], FALSE, f[5], Semi, G(f[2], f[4], f[6], f[5], Comma, TableSub)), "list",
                  NestedAnswers[a], <<>>, NestedT) : f \in NestedFlags, a \in DOMAIN NestedAnswers})
NestedLeaves == IF Quick THEN {Sa, Sb, Sc, <<>>} ELSE {Sa, Sb, Sc, Sd, Sh, <<>>}
NestedInnerTexts == {Join(s, Comma) : s \in SeqsBetween(NestedLeaves, 1, 2)}
NestedFew == {Join(s, Comma) : s \in IF Quick THEN {<<Sb, Sa>>, <<Sc, Sd>>, <<Sc>>, <<Sa, <<>>>>}
                                       ELSE {<<Sb, Sa>>, <<Sc, Sd>>, <<Sc>>, <<Sa, Sx>>, <<Sa, <<>>>>}}
NestedSubs(P, first) == {<<first>> \o s : s \in SeqsBetween(NestedInnerTexts, 0, 1)}
                        \cup {<<first>> \o s : s \in SeqsOfLen(NestedFew, 2)}

(* ------------------------------------------------------------------------------------------ part "dual"
   Laws of the certificate check itself: weak duality on every small cost matrix and every small pair of potentials. *)
DualN == IF Quick THEN 2 ELSE 3
DualProblems == <<Prob(G(FALSE, TRUE, FALSE, FALSE, Comma, TableSub), "list", <<AL(ExpItems(DualN), One, TRUE)>>, <<>>, FormulaT(DualN))>>
DualSubs(P, first) == {<<first>> \o s : s \in SeqsBetween(VecTexts(DualN), 0, DualN - 1)}
DualItems(P) == VecTexts(DualN)

(* ------------------------------------------------------------------------------------------ the model *)
Problems == TLCEval(IF Part = "formula" THEN FormulaProblems ELSE IF Part = "errors" THEN ErrorsProblems
                    ELSE IF Part = "lists" THEN ListsProblems ELSE IF Part = "text" THEN TextProblems
                    ELSE IF Part = "nested" THEN NestedProblems ELSE DualProblems)
Firsts(P) == IF Part = "formula" THEN FormulaItems(P) ELSE IF Part = "errors" THEN ErrorsItems
             ELSE IF Part = "lists" THEN ListsItems ELSE IF Part = "text" THEN TextAlphabet(P.g.delim)
             ELSE IF Part = "nested" THEN NestedInnerTexts ELSE DualItems(P)
\* item sequences (for part "text": symbol sequences) of the problem that start with `first'
Subs(P, first) == IF Part = "formula" THEN FormulaSubs(P, first) ELSE IF Part = "errors" THEN ErrorsSubs(P, first)
                  ELSE IF Part = "lists" THEN ListsSubs(P, first) ELSE IF Part = "text" THEN TextSubs(P, first)
                  ELSE IF Part = "nested" THEN NestedSubs(P, first) ELSE DualSubs(P, first)
TextOf(P, s) == IF Part = "text" THEN s ELSE Join(s, P.g.delim)

\* catalogue for the adapter (the table as a list of non-zero triples)
TabOf(T) == SetToSeqR({[e |-> p[1], s |-> p[2], w |-> T[p]] : p \in {q \in DOMAIN T : ~IsZero(T[q])}})
Catalogue == [i \in DOMAIN Problems |-> [g |-> Problems[i].g, form |-> Problems[i].form, ans |-> Problems[i].ans,
                                         atext |-> Problems[i].atext, tab |-> TabOf(Problems[i].T)]]
ASSUME IOEnv.CAT_FILE = "none" \/ JsonSerialize(IOEnv.CAT_FILE, Catalogue)

Eval(P, text) == OutcomeT(P, P.T, text, NoCert)

VARIABLES c, out
Seeds == {[kind |-> "seed", pid |-> i, first |-> f] : i \in DOMAIN Problems, f \in UNION {Firsts(Problems[j]) : j \in DOMAIN Problems}}
Init == /\ c \in {s \in Seeds : s.first \in Firsts(Problems[s.pid])}
        /\ out = [k |-> "seed"]
Next == /\ c.kind = "seed"
        /\ c' \in [kind : {Part}, pid : {c.pid}, text : {TextOf(Problems[c.pid], s) : s \in Subs(Problems[c.pid], c.first)}]
        /\ out' = Eval(Problems[c'.pid], c'.text)
IsCase == c.kind # "seed"
P0 == Problems[c.pid]

(* ------------------------------------------------------------------------------------------ laws *)
ItemsOfCase == SplitBy(c.text, P0.g.delim)
WithG(P, g) == [P EXCEPT !.g = g]
Swap12(s) == IF Len(s) < 2 THEN s ELSE <<s[2], s[1]>> \o SubSeq(s, 3, Len(s))
Rotate(s) == IF Len(s) < 2 THEN s ELSE Tail(s) \o <<s[1]>>
ListLevel == Part \in {"formula", "errors", "lists", "nested", "dual"}

LawOutDomain == IsCase => /\ out.k \in {"raise", "graded", "either"}
                          /\ out.k = "raise" => out.why \in {"length", "blank", "inner"}
                          /\ Graded(out) => out.shown # {} /\ out.shown \subseteq BOOLEAN /\ out.ok = OkOf(out.g)
                          /\ out.k = "either" => Part = "nested"
LawBounds == IsCase => BoundsLaw(P0, out)
\* unordered: the outcome (grade, allowed message values, errors) is invariant under permuting the submitted items
\* (the transposition and the rotation generate all permutations)
LawPerm == IsCase /\ ListLevel /\ ~P0.g.ordered =>
             /\ Eval(P0, Join(Swap12(ItemsOfCase), P0.g.delim)) = out
             /\ Eval(P0, Join(Rotate(ItemsOfCase), P0.g.delim)) = out
\* one more item that earns nothing never raises the grade
LawSurplus == IsCase /\ ListLevel /\ Graded(out) =>
                LET o2 == Eval(P0, c.text \o P0.g.delim \o <<"zz">>) IN Graded(o2) => Leq(o2.g, out.g)
\* ordered grading never beats unordered grading of the same submission
LawOrderedLeq == IsCase /\ P0.g.ordered /\ Graded(out) =>
                   LET o2 == Eval(WithG(P0, [P0.g EXCEPT !.ordered = FALSE]), c.text) IN Graded(o2) => Leq(out.g, o2.g)
\* without partial credit the grade is 0 or an answer's full credit, and never more than with partial credit
LawPartial == IsCase /\ ~P0.g.partial /\ Graded(out) =>
                LET o2 == Eval(WithG(P0, [P0.g EXCEPT !.partial = TRUE]), c.text)
                    A == AnswersOf(P0) IN
                /\ IsZero(out.g) \/ \E l \in DOMAIN A : out.g = A[l].credit
                /\ Leq(out.g, o2.g)
\* the error switches do not change how a gradable submission is graded; with both off nothing raises at top level
LawErrorsOnlyRaise == IsCase /\ Part \in {"errors", "lists"} =>
                LET o2 == Eval(WithG(P0, [P0.g EXCEPT !.lengthErr = FALSE, !.missingErr = FALSE]), c.text) IN
                /\ Graded(o2)
                /\ Graded(out) => out = o2
                /\ out.k = "raise" <=> \/ (P0.g.lengthErr /\ Len(ItemsOfCase) # Len(AnswersOf(P0)[1].items))
                                       \/ (P0.g.missingErr /\ \E j \in DOMAIN ItemsOfCase : IsBlank(ItemsOfCase[j]))
\* the message can only be shown when the counts agree and some answer has a message
LawShown == IsCase /\ Graded(out) /\ TRUE \in out.shown =>
              /\ Len(ItemsOfCase) = Len(AnswersOf(P0)[1].items)
              /\ \E l \in DOMAIN AnswersOf(P0) : AnswersOf(P0)[l].hasMsg
\* the brute-force optimum: both enumerations of assignments agree (formula part: the case is the credit matrix)
CaseMatrix == LET it == ItemsOfCase
                  nE == Len(P0.ans[1].items)
                  nS == Len(it)
                  k == Min2(nE, nS)
                  n == Max2(nE, nS)
                  W(i, j) == Units(Look(P0.T, P0.ans[1].items[i][1].sym, it[j]), 2)
              IN [k |-> k, n |-> n, nE |-> nE, nS |-> nS,
                  A |-> [a \in 1..k |-> [b \in 1..n |-> IF nE <= nS THEN W(a, b) ELSE W(b, a)]],
                  Wi |-> [i \in 1..nE |-> [j \in 1..nS |-> W(i, j)]]]
LawOptimum == IsCase /\ Part \in {"formula", "dual"} => LET m == CaseMatrix IN OptimumLaw(m.A, m.k, m.n)
\* the row-by-row construction of the assignments is the set of all injections
ASSUME \A k \in 0..4, n \in 0..5 : k <= n => InjectionsLaw(k, n)
\* maximising credit over one-to-one assignments = minimising cost on the zero-padded square (what the solver sees)
LawPaddedCost == IsCase /\ Part \in {"formula", "dual"} =>
                   LET m == CaseMatrix IN
                   m.n <= 4 => PaddedMinCost(m.Wi, m.nE, m.nS, 2) = m.n * 2 - BestTotal(m.A, m.k, m.n)
\* text layer
LawSplit == IsCase /\ Part = "text" => SplitLaw(c.text, P0.g.delim)
\* answers given as text are the split text
LawInfer == IsCase /\ P0.form # "list" =>
              LET A == AnswersOf(P0) IN /\ Len(A) = 1
                                        /\ [i \in DOMAIN A[1].items |-> A[1].items[i][1].sym] = SplitBy(P0.atext, P0.g.delim)
\* certificate check: every feasible pair of potentials bounds the optimum (weak duality), so an accepted certificate
\* yields exactly the brute-force optimum
DualRange == IF DualN = 2 THEN (-2)..2 ELSE 0..1
LawDual == IsCase /\ Part = "dual" /\ Len(ItemsOfCase) = DualN =>
             LET m == CaseMatrix
                 best == BestTotal(m.A, m.k, m.n)
                 cost(i, j) == 2 - m.Wi[i][j]
                 N == 1..DualN
                 Feasible(u, v) == \A i, j \in N : u[i] + v[j] <= cost(i, j)
                 Cert(u, v, mm) == [k |-> "cert", u |-> u, v |-> v, m |-> mm, D |-> 2]
             IN /\ \A u \in [N -> DualRange], v \in [N -> DualRange] :
                     Feasible(u, v) =>
                       /\ SumSeqInt(u) + SumSeqInt(v) <= DualN * 2 - best
                       /\ \A mm \in Injections(DualN, DualN) :
                            CertOK(m.Wi, DualN, DualN, 2, Cert(u, v, mm)) => CertBest(m.Wi, DualN, DualN, 2, Cert(u, v, mm)) = best
                \* strong duality: an acceptable certificate exists (searched only for 2 x 2)
                /\ DualN = 2 => \E u \in [N -> DualRange], v \in [N -> DualRange], mm \in Injections(DualN, DualN) :
                                   CertOK(m.Wi, DualN, DualN, 2, Cert(u, v, mm))
=============================================================================
