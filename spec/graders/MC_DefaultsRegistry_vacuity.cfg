SPECIFICATION Spec
CONSTANTS
  MaxOps = 2
INVARIANT NeverRefuses
INVARIANT NeverShadows
