-------------------------- MODULE ResultShapeTrace --------------------------
(* Code -> spec binding for C01.  Every record is ONE VALUE RETURNED by a real grader call (recorded by
   engine/adapters/c01.py, both from the replay of TLC's choice vectors and from the random driver over all public
   grader classes).  TLC rebuilds the abstract result and judges it with the property-level operators of ResultShape:
   WellFormed (form, key sets, one entry per input in input order, grade in [0, 1], msg text, ok/grade agreement with
   the pinned-ok exception) and NoDebugLeak.

   record fields
     id, cls               identification (cls: grader class)
     form                  "item" (one text input) | "list" (several inputs) | "sum" (several inputs, summation grader)
     n_inputs              number of submitted inputs
     debug                 the called grader was configured with debug=True
     pinned[]              ok values pinned explicitly on full-credit answers of the configuration
     isdict                the returned value is a dictionary
     listform              it has the key input_list
     keys[]                its keys
     overall_text, overall_markers[]      (list form)
     items[]               the entries: ok ("true"/"false"/"partial"/"other"), cls (class of the observed grade:
                           "zero" = 0, "one" = 1, "mid" strictly between, "out" anything else incl. non-numbers),
                           text (msg is a str), keys[], markers[] (tokens found in msg), pos (input box the entry can
                           be seen to grade: 0 unknown, -1 contradictory)
   Grades arrive as classes because TLC has no floats; the adapter computes the class with Python's own ==, <, >. *)
EXTENDS ResultShape, Json, IOUtils, TLC

Trace == ndJsonDeserialize(IOEnv.TRACE_FILE)
VARIABLE l

\* tokens the adapter assigns to debugging output (banner and version, echoed student responses, comparison and
\* evaluation data with the sampled values, attempt log lines, inferred / stored answers, modified defaults)
DebugTokens == {"BANNER", "PYVER", "STUDENT_RESPONSE", "LOGCMP", "LOGEVAL", "LOGFUNCS", "LOGATT", "LOGMAX",
                "LOGINFER", "LOGDEFAULTS", "ANSWER"}

ToSet(s) == {s[i] : i \in 1..Len(s)}
RepGrade(c) == IF c = "zero" THEN Zero ELSE IF c = "one" THEN One ELSE IF c = "mid" THEN Q(1, 2) ELSE Q(3, 2)
ItemOf(x) == [ok |-> x.ok, g |-> RepGrade(x.cls), m |-> ToSet(x.markers), text |-> x.text, keys |-> ToSet(x.keys),
              pos |-> x.pos]
ResOf(r) == IF r.listform
            THEN [keys |-> ToSet(r.keys), overall |-> ToSet(r.overall_markers), otext |-> r.overall_text,
                  items |-> [i \in 1..Len(r.items) |-> ItemOf(r.items[i])]]
            ELSE ItemOf(r.items[1])

\* "" = accepted, otherwise the clause of the property that fails
Clause(r) ==
  IF ~r.isdict THEN "not-a-dictionary"
  ELSE LET res == ResOf(r)
           pins == ToSet(r.pinned)
       IN IF ~WellFormed(res, r.form, r.n_inputs, pins) THEN Defect(res, r.form, r.n_inputs, pins)
          ELSE IF ~NoDebugLeak(res, r.debug, DebugTokens) THEN "debug-leak"
          ELSE ""

Verdict(i) == LET r == Trace[i]
                  c == Clause(r)
              IN IF c = "" THEN TRUE ELSE PrintT(<<"REJECT", r.id, c>>)
Init == l = 0
Next == /\ l < Len(Trace)
        /\ l' = l + 1
        /\ Verdict(l + 1)
        /\ (l + 1 = Len(Trace)) => PrintT(<<"DONE", Len(Trace)>>)
=============================================================================
