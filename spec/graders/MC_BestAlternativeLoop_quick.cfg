SPECIFICATION Spec
CONSTANTS
  MaxAlts = 2
  Cases <- MCCases
INVARIANT TypeOK
INVARIANT HistIsPrefix
INVARIANT Refines
INVARIANT AgreesWithReference
INVARIANT GradedOnlyAfterAll
PROPERTY Terminates
