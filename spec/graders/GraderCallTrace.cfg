INIT TInit
NEXT TNext
