--------------------------- MODULE MC_SumGrader ---------------------------
(* Model instance for C19.  TLC enumerates (author's summation, configuration, submitted summation) cases inside the
   bounds of each part, evaluates the allowed outcome classes with SumGrader!Allowed and checks the laws; the dump
   (variables c = case, io = the concrete objects, out = allowed classes) is replayed into the real SumGrader.

   parts:  value    limits^2 x even_odd x summand catalogue x transformations (all four boxes, default tolerance);
                    run "wide" is the same part with limits up to [-12, 12] and the product (summand x transformation
                    x parity) thinned along diagonals (Stride)
           pos      every subset of input_positions x box order x transformations
           tol      tolerance kinds x perturbation sizes x real / complex / vector summands
           inf      infinite limits x convergent summands x cutoffs (1/n! selects the factorial cutoff)
           err      faults in the author's sum x faults in the submission x subsets of input_positions
           rnd      integer limits written inexactly (just below / just above the integer) in the lower, the upper or
                    both limits of the submission or of the author's sum x limits^2 x even_odd x rewritings
           algebra  laws of Index / SumOf / the rational comparison themselves (not replayed) *)
EXTENDS SumGrader
CONSTANTS Part, L, Cut, Stride

CutFact == 8
CVal == <<2, 1>>                                            \* the instructor-only variable c is 2 at every sample
XsOf(kind) == IF kind = "frac" THEN << <<2, 1>>, <<3, 2>> >> ELSE << <<2, 1>>, <<3, 1>> >>

(* ---- the catalogue of author summands (index n) *)
T(re, im, mult, base, a0, a1, a2) == [coef |-> GOfInt(re, im), mult |-> mult, base |-> base, p |-> <<a0, a1, a2>>]
NoPole == [on |-> FALSE, at |-> 0]
MkBody(comps) == [blank |-> FALSE, comps |-> comps, pole |-> NoPole, sigma |-> 1, shift |-> 0, scale |-> One,
                  add |-> GZero, v |-> "n", calls |-> <<>>]
Catalogue ==
  [ const  |-> MkBody(<< <<T(1, 0, "one", "poly", 1, 0, 0)>> >>),                                       \* 1
    lin    |-> MkBody(<< <<T(1, 0, "one", "poly", 0, 1, 0)>> >>),                                       \* n
    quad   |-> MkBody(<< <<T(1, 0, "one", "poly", 1, 0, 1)>> >>),                                       \* n^2 + 1
    altn   |-> MkBody(<< <<T(1, 0, "one", "alt", 1, 1, 0)>> >>),                                        \* (-1)^n (1 + n)
    xlin   |-> MkBody(<< <<T(1, 0, "x", "poly", 0, 1, 0), T(1, 0, "one", "poly", 2, 0, 0)>> >>),        \* x n + 2
    cplx   |-> MkBody(<< <<T(1, 2, "one", "poly", 0, 1, 0), T(0, 1, "one", "alt", 1, 0, 0)>> >>),       \* (1+2i) n + i (-1)^n
    vec    |-> MkBody(<< <<T(1, 0, "one", "poly", 0, 1, 0)>>, <<T(1, 0, "x", "alt", 1, 0, 0)>> >>),     \* [n, x (-1)^n]
    cvec   |-> MkBody(<< <<T(1, 1, "one", "poly", 0, 0, 1)>>, <<T(1, 0, "one", "poly", 3, -1, 0)>> >>), \* [(1+i) n^2, 3 - n]
    ivar   |-> MkBody(<< <<T(1, 0, "c", "poly", 0, 1, 0), T(1, 0, "x", "poly", 1, 0, 0)>> >>),          \* c n + x
    geo    |-> MkBody(<< <<T(3, 0, "one", "geo", 1, 0, 0)>> >>),                                        \* 3 2^-n
    altgeo |-> MkBody(<< <<T(1, 0, "one", "geo", 1, 0, 0), T(-2, 0, "x", "alt", 1, 0, 0)>> >>),         \* 2^-n - 2 x (-1)^n
    geoinv |-> MkBody(<< <<T(1, 1, "one", "geoinv", 1, 0, 0)>> >>),                                     \* (1+i) 2^n
    xgeo   |-> MkBody(<< <<T(1, 0, "x", "geo", 1, 1, 0)>> >>),                                          \* x 2^-n (1 + n)
    fact   |-> MkBody(<< <<T(1, 0, "one", "invfact", 1, 0, 0)>> >>) ]                                   \* 1/n!
Positive == {"const", "quad", "geo", "fact"}                \* every term of these summands is > 0

(* ---- limits *)
LInt(n) == [k |-> "int", n |-> n]
PInf == [k |-> "pinf", n |-> 0]
NInf == [k |-> "ninf", n |-> 0]
MoveLim(l, d) == IF l.k \in {"pinf", "ninf", "blank"} THEN l ELSE [l EXCEPT !.n = @ + d]
NegLim(l) == IF l.k = "pinf" THEN NInf ELSE IF l.k = "ninf" THEN PInf ELSE [l EXCEPT !.n = -@]
CutLim(l, cut, d) == IF l.k = "pinf" THEN LInt(cut + d) ELSE IF l.k = "ninf" THEN LInt(-cut - d) ELSE l

(* ---- transformations: from the author's summation to a submitted one; tr = <<name, k>> *)
InlineTerm(t) == IF t.mult = "c" THEN [t EXCEPT !.mult = "one", !.coef = GScale(CVal, t.coef)] ELSE t
InlineC(b) == [b EXCEPT !.comps = [i \in 1..Len(b.comps) |-> [j \in 1..Len(b.comps[i]) |-> InlineTerm(b.comps[i][j])]]]

Transform(tr, a, cut) ==
  LET name == tr[1]
      k == tr[2]
      b == a.body
  IN CASE name = "same" -> a
       [] name = "swap" -> [a EXCEPT !.lower = a.upper, !.upper = a.lower]
       [] name = "rename" -> [a EXCEPT !.var = "m", !.body = [b EXCEPT !.v = "m"]]
       [] name = "shift" -> [a EXCEPT !.lower = MoveLim(a.lower, -k), !.upper = MoveLim(a.upper, -k), !.body = [b EXCEPT !.shift = k]]
       [] name = "reverse" -> [a EXCEPT !.lower = NegLim(a.upper), !.upper = NegLim(a.lower), !.body = [b EXCEPT !.sigma = -1]]
       [] name = "mirror" -> [a EXCEPT !.body = [b EXCEPT !.sigma = -1, !.shift = a.lower.n + a.upper.n]]
       [] name = "combo" -> [a EXCEPT !.lower = MoveLim(a.upper, -k), !.upper = MoveLim(a.lower, -k), !.var = "idx_2",
                                      !.body = [b EXCEPT !.shift = k, !.v = "idx_2"]]
       [] name = "cut_explicit" -> [a EXCEPT !.lower = CutLim(a.lower, cut, k), !.upper = CutLim(a.upper, cut, k)]
       \* perturbations
       [] name = "lo" -> [a EXCEPT !.lower = MoveLim(a.lower, k)]
       [] name = "hi" -> [a EXCEPT !.upper = MoveLim(a.upper, k)]
       [] name = "add" -> [a EXCEPT !.body = [b EXCEPT !.add = GOfInt(k, 0)]]
       [] name = "addq" -> [a EXCEPT !.body = [b EXCEPT !.add = <<Q(1, k), Zero>>]]
       [] name = "addi" -> [a EXCEPT !.body = [b EXCEPT !.add = <<Zero, Q(1, k)>>]]
       [] name = "scale" -> [a EXCEPT !.body = [b EXCEPT !.scale = QInt(k)]]
       [] name = "shift_body" -> [a EXCEPT !.body = [b EXCEPT !.shift = k]]
       [] name = "shift_limits" -> [a EXCEPT !.lower = MoveLim(a.lower, -k), !.upper = MoveLim(a.upper, -k)]
       [] name = "shift_wrong" -> [a EXCEPT !.lower = MoveLim(a.lower, k), !.upper = MoveLim(a.upper, k), !.body = [b EXCEPT !.shift = k]]
       [] name = "flip" -> [a EXCEPT !.body = [b EXCEPT !.sigma = -1]]

\* explicit orders, used to thin the product (summand x transformation x parity) along diagonals when Stride > 1
ValueSidSeq == <<"const", "lin", "quad", "altn", "xlin", "cplx", "vec", "cvec", "ivar", "geo", "altgeo">>
TrSeq == << <<"same", 0>>, <<"lo", 1>>, <<"swap", 0>>, <<"lo", -1>>, <<"rename", 0>>, <<"hi", 1>>, <<"shift", 1>>, <<"hi", -1>>,
            <<"shift", 2>>, <<"add", 1>>, <<"shift", -1>>, <<"scale", 2>>, <<"shift", -3>>, <<"scale", -1>>, <<"reverse", 0>>,
            <<"shift_body", 1>>, <<"mirror", 0>>, <<"shift_limits", 2>>, <<"combo", 2>>, <<"shift_wrong", 1>>, <<"combo", 1>>,
            <<"flip", 0>> >>
IndexIn(seq, x) == CHOOSE i \in 1..Len(seq) : seq[i] = x
Rewrites == { <<"same", 0>>, <<"swap", 0>>, <<"rename", 0>>, <<"shift", 1>>, <<"shift", 2>>, <<"shift", -1>>, <<"shift", -3>>,
              <<"reverse", 0>>, <<"mirror", 0>>, <<"combo", 2>>, <<"combo", 1>> }
Perturbs == { <<"lo", 1>>, <<"lo", -1>>, <<"hi", 1>>, <<"hi", -1>>, <<"add", 1>>, <<"scale", 2>>, <<"scale", -1>>,
              <<"shift_body", 1>>, <<"shift_limits", 2>>, <<"shift_wrong", 1>>, <<"flip", 0>> }

(* ---- faults *)
InexactFaults == {"qbelow_lower", "qbelow_upper", "qabove_lower", "qabove_upper", "qbelow_both", "qmixed_both"}
ComplexRealFaults == {"creal_lower", "creal_upper"}
\* what the author did to the constants: removed defaults, overrode one, defined a new one
UcKinds == {"none", "rm_i", "rm_j", "rm_pi", "rm_e", "rm_ij", "ov_pi", "new_tau"}
RemovedOf(uc) == CASE uc = "rm_i" -> {"i"} [] uc = "rm_j" -> {"j"} [] uc = "rm_pi" -> {"pi"} [] uc = "rm_e" -> {"e"}
                   [] uc = "rm_ij" -> {"i", "j"} [] OTHER -> {}
UserConstsOf(uc) == CASE uc = "ov_pi" -> {"pi"} [] uc = "new_tau" -> {"tau"} [] OTHER -> {}
StudentNameFaults == {"var_pi", "var_i", "var_j", "var_e", "var_tau"}
AuthorNameFaults == {"var_i", "var_j", "var_pi"}
AuthorFaults == {"none", "half_lower", "cplx_upper", "var_i", "var_x", "var_c", "blank_lower", "blank_summand", "unknown_var", "pole"}
StudentFaults == {"none", "blank_lower", "blank_upper", "blank_summand", "blank_var", "var_pi", "var_i", "var_sin", "var_x",
                  "half_lower", "half_upper", "cplx_lower", "cplx_upper", "xdep_upper", "uses_c", "plusc_lower", "pole", "unknown_var"}
BlankBody(b) == [b EXCEPT !.blank = TRUE]
WithVar(s, name) == [s EXCEPT !.var = name, !.body = [s.body EXCEPT !.v = name]]
ApplyFault(s, f, k, xs) ==
  CASE f = "none" -> s
    [] f = "blank_lower" -> [s EXCEPT !.lower = [k |-> "blank", n |-> 0]]
    [] f = "blank_upper" -> [s EXCEPT !.upper = [k |-> "blank", n |-> 0]]
    [] f = "blank_summand" -> [s EXCEPT !.body = BlankBody(s.body)]
    [] f = "blank_var" -> [s EXCEPT !.var = ""]
    [] f = "var_pi" -> WithVar(s, "pi")
    [] f = "var_i" -> WithVar(s, "i")
    [] f = "var_j" -> WithVar(s, "j")
    [] f = "var_e" -> WithVar(s, "e")
    [] f = "var_tau" -> WithVar(s, "tau")
    [] f = "var_sin" -> WithVar(s, "sin")
    [] f = "var_x" -> WithVar(s, "x")
    [] f = "var_c" -> WithVar(s, "c")
    [] f = "half_lower" -> [s EXCEPT !.lower = [s.lower EXCEPT !.k = "half"]]
    [] f = "half_upper" -> [s EXCEPT !.upper = [s.upper EXCEPT !.k = "half"]]
    [] f = "qbelow_lower" -> [s EXCEPT !.lower = [s.lower EXCEPT !.k = "qbelow"]]
    [] f = "qbelow_upper" -> [s EXCEPT !.upper = [s.upper EXCEPT !.k = "qbelow"]]
    [] f = "qabove_lower" -> [s EXCEPT !.lower = [s.lower EXCEPT !.k = "qabove"]]
    [] f = "qabove_upper" -> [s EXCEPT !.upper = [s.upper EXCEPT !.k = "qabove"]]
    [] f = "qbelow_both" -> [s EXCEPT !.lower = [s.lower EXCEPT !.k = "qbelow"], !.upper = [s.upper EXCEPT !.k = "qbelow"]]
    [] f = "qmixed_both" -> [s EXCEPT !.lower = [s.lower EXCEPT !.k = "qabove"], !.upper = [s.upper EXCEPT !.k = "qbelow"]]
    [] f = "creal_lower" -> [s EXCEPT !.lower = [s.lower EXCEPT !.k = "creal"]]
    [] f = "creal_upper" -> [s EXCEPT !.upper = [s.upper EXCEPT !.k = "creal"]]
    [] f = "cplx_lower" -> [s EXCEPT !.lower = [s.lower EXCEPT !.k = "cplx"]]
    [] f = "cplx_upper" -> [s EXCEPT !.upper = [s.upper EXCEPT !.k = "cplx"]]
    \* upper limit written as (u - x1) + x: the same integer at the first sample, something else at the others
    [] f = "xdep_upper" -> [s EXCEPT !.upper = [k |-> "plusx", n |-> s.upper.n - xs[1][1]]]
    [] f = "plusc_lower" -> [s EXCEPT !.lower = [k |-> "plusc", n |-> s.lower.n - CVal[1]]]
    [] f = "uses_c" -> s                                       \* (the c of the author's summand is not inlined)
    [] f = "pole" -> [s EXCEPT !.body = [s.body EXCEPT !.pole = [on |-> TRUE, at |-> k]]]
    [] f = "unknown_var" -> [s EXCEPT !.body = [s.body EXCEPT !.v = "q"]]

(* ---- tolerances *)
Tols == [ default |-> [kind |-> "default", val |-> <<1, 1000000000>>],
          zero    |-> [kind |-> "abs", val |-> Zero],
          milli   |-> [kind |-> "abs", val |-> <<1, 1000>>],
          half    |-> [kind |-> "abs", val |-> <<1, 2>>],
          three   |-> [kind |-> "abs", val |-> <<3, 1>>],
          pct1    |-> [kind |-> "pct", val |-> <<1, 100>>],
          pct10   |-> [kind |-> "pct", val |-> <<1, 10>>] ]

(* ---- box orders *)
RECURSIVE Restrict(_, _)
Restrict(seq, P) == IF seq = <<>> THEN <<>> ELSE (IF Head(seq) \in P THEN <<Head(seq)>> ELSE <<>>) \o Restrict(Tail(seq), P)
RECURSIVE Rev(_)
Rev(s) == IF s = <<>> THEN <<>> ELSE Rev(Tail(s)) \o <<Head(s)>>
PosSeq(P, ord) == LET asc == Restrict(FieldOrder, P)
                  IN IF ord = "asc" THEN asc ELSE IF ord = "desc" THEN Rev(asc)
                     ELSE IF asc = <<>> THEN asc ELSE Tail(asc) \o <<Head(asc)>>                 \* "rot"

(* ---- the case space of each part: field |-> set of values *)
Lims == {LInt(n) : n \in (-L)..L}
AllTr == Rewrites \cup Perturbs
Space ==
  CASE Part = "value" ->
         [sid |-> {ValueSidSeq[i] : i \in 1..Len(ValueSidSeq)}, eo |-> 0..2, tr |-> AllTr,
          l |-> Lims, u |-> Lims, P |-> {Fields}, ord |-> {"asc"}, tol |-> {"default"}, cut |-> {Cut},
          fa |-> {"none"}, fs |-> {"none"}, fk |-> {0}, xs |-> {"frac"}]
    [] Part = "pos" ->
         [sid |-> {"quad", "xlin", "vec"}, eo |-> {0, 1},
          tr |-> {<<"same", 0>>, <<"swap", 0>>, <<"rename", 0>>, <<"shift", 1>>, <<"shift", 2>>, <<"reverse", 0>>, <<"combo", 2>>,
                  <<"lo", 1>>, <<"add", 1>>, <<"scale", 2>>},
          l |-> {LInt(n) : n \in (IF L > 4 THEN {-2, 0, 1} ELSE {-2, 1})}, u |-> {LInt(n) : n \in (IF L > 4 THEN {-1, 3, 4} ELSE {3})},
          P |-> SUBSET Fields, ord |-> {"asc", "desc", "rot"},
          tol |-> {"default"}, cut |-> {Cut}, fa |-> {"none"}, fs |-> {"none"}, fk |-> {0}, xs |-> {"frac"}]
    [] Part = "tol" ->
         [sid |-> {"lin", "xlin", "cplx", "vec", "geo", "cvec"} \cup (IF L > 6 THEN {"altn", "quad", "altgeo"} ELSE {}), eo |-> {0},
          tr |-> {<<"same", 0>>, <<"shift", 2>>, <<"add", 1>>, <<"add", 5>>, <<"addq", 4>>, <<"addq", 64>>, <<"addq", 1024>>,
                  <<"addi", 8>>, <<"scale", 2>>, <<"hi", -1>>, <<"lo", 1>>}
                 \cup (IF L > 6 THEN {<<"addq", 16>>, <<"add", -2>>, <<"scale", -1>>, <<"hi", 1>>, <<"addi", 1>>} ELSE {}),
          l |-> {LInt(n) : n \in {-3, 0, 1} \cup (IF L > 6 THEN {-L} ELSE {})}, u |-> {LInt(n) : n \in {2, 5, L}}, P |-> {Fields}, ord |-> {"asc"},
          tol |-> DOMAIN Tols, cut |-> {Cut}, fa |-> {"none"}, fs |-> {"none"}, fk |-> {0}, xs |-> {"frac"}]
    [] Part = "inf" ->
         [sid |-> {"geo", "altgeo", "geoinv", "xgeo", "fact", "const", "lin"}, eo |-> 0..2,
          tr |-> {<<"same", 0>>, <<"swap", 0>>, <<"rename", 0>>, <<"reverse", 0>>, <<"cut_explicit", 0>>, <<"cut_explicit", -1>>,
                  <<"cut_explicit", 1>>, <<"shift", 1>>, <<"shift", -2>>, <<"add", 1>>, <<"lo", 1>>, <<"hi", -1>>, <<"scale", 2>>},
          l |-> {LInt(n) : n \in -2..(L - 1)} \cup {PInf, NInf}, u |-> {LInt(n) : n \in -2..(L - 1)} \cup {PInf, NInf},
          P |-> {Fields}, ord |-> {"asc"}, tol |-> (IF L > 4 THEN {"default", "milli"} ELSE {"default"}), cut |-> (IF L > 4 THEN {Cut, Cut + 4} ELSE {Cut}),
          fa |-> {"none"}, fs |-> {"none"}, fk |-> {0}, xs |-> {"frac"}]
    [] Part = "err" ->
         [sid |-> (IF L > 4 THEN {"xlin", "ivar", "vec"} ELSE {"xlin", "ivar"}), eo |-> {0, 1}, tr |-> {<<"same", 0>>, <<"shift", 1>>},
          l |-> (IF L > 4 THEN {LInt(-1), LInt(4)} ELSE {LInt(-1)}), u |-> {LInt(3)}, P |-> SUBSET Fields, ord |-> {"asc"},
          tol |-> {"default"}, cut |-> {Cut}, fa |-> AuthorFaults \cup AuthorNameFaults, fs |-> StudentFaults \cup StudentNameFaults,
          fk |-> (IF L > 4 THEN {2, 5} ELSE {2}),
          xs |-> {"frac", "int"}]
    [] Part = "rnd" ->
         [sid |-> (IF L > 3 THEN {"quad", "altn", "xlin"} ELSE {"quad", "xlin"}), eo |-> 0..2,
          tr |-> {<<"same", 0>>, <<"shift", 1>>} \cup (IF L > 3 THEN {<<"swap", 0>>} ELSE {}),
          l |-> Lims, u |-> Lims, P |-> {Fields}, ord |-> {"asc"}, tol |-> {"default"}, cut |-> {Cut},
          fa |-> {"none", "qbelow_lower", "qabove_lower", "creal_lower"} \cup (IF L > 3 THEN {"qbelow_upper", "creal_upper"} ELSE {}),
          fs |-> {"none"} \cup InexactFaults \cup ComplexRealFaults, fk |-> {0}, xs |-> {"frac"}]
    [] Part = "algebra" ->
         [sid |-> DOMAIN Catalogue \ {"fact"}, eo |-> 0..2, tr |-> {<<"same", 0>>}, l |-> Lims \cup {PInf, NInf}, u |-> Lims \cup {PInf, NInf},
          P |-> {Fields}, ord |-> {"asc"}, tol |-> {"default"}, cut |-> {Cut}, fa |-> {"none"}, fs |-> {"none"},
          fk |-> (IF L > 3 THEN (-L)..L ELSE {-2, 0, 1}), xs |-> {"frac"}]

IsInf(l) == l.k \in {"pinf", "ninf"}
GeoLike(sid) == sid \in {"geo", "altgeo", "xgeo", "geoinv", "fact"}
\* keep the generated space inside what the statement speaks about and inside 32-bit arithmetic
Sensible(x) ==
  /\ x.tr[1] = "mirror" => ~IsInf(x.l) /\ ~IsInf(x.u)
  /\ Part = "inf" => /\ IsInf(x.l) \/ IsInf(x.u)
                     /\ ~(IsInf(x.l) /\ x.u.k = x.l.k)
                     /\ x.sid \in {"geo", "altgeo", "xgeo", "fact"} => x.l.k # "ninf" /\ x.u.k # "ninf"
                     /\ x.sid = "geoinv" => x.l.k # "pinf" /\ x.u.k # "pinf"
                     /\ x.sid = "fact" => (x.l.k = "int" => x.l.n >= 0) /\ (x.u.k = "int" => x.u.n >= 0) /\ x.tr[1] # "reverse"
  /\ Part = "algebra" => /\ ~(IsInf(x.l) /\ x.u.k = x.l.k)
                         /\ GeoLike(x.sid) => ~IsInf(x.l) /\ ~IsInf(x.u)
  /\ x.fs = "uses_c" => x.sid = "ivar"
  \* faults mostly one at a time; a few combinations of an author's fault with a fault in the submission
  /\ x.fa # "none" => x.fs \in {"none", "blank_lower", "half_upper", "var_pi", "pole"}
  /\ x.xs = "int" => x.fs = "xdep_upper"
  /\ Part = "err" /\ x.eo = 1 => x.fs = "pole" \/ x.fa = "pole" \/ (x.fs = "none" /\ x.fa = "none")
  /\ Part = "rnd" => (x.fa = "none") # (x.fs = "none")
  \* the debug switch is varied on the complex-typed limits only (there the kind of failure is what is at stake)
  /\ x.dbg => x.fs \in ComplexRealFaults \/ x.fa \in ComplexRealFaults
  /\ x.fs \in ComplexRealFaults \/ x.fa \in ComplexRealFaults => x.eo = 0
  /\ x.fs \in {"var_pi", "var_i", "var_sin", "var_x"} \/ x.fa \in {"var_i", "var_x", "var_c"} => x.tr[1] \in {"same", "shift"}
  \* constants removed / overridden / added by the author: only together with a summation variable named after a constant
  /\ x.uc # "none" => /\ ((x.fs \in StudentNameFaults /\ x.fa = "none") \/ (x.fa \in AuthorNameFaults /\ x.fs = "none"))
                       /\ x.tr[1] = "same" /\ x.eo = 0 /\ x.sid # "vec"
                       /\ x.P \in {Fields, {"summand"}, {"summand", "summation_variable"}}
  /\ x.fs \in {"var_j", "var_e", "var_tau"} \/ x.fa \in {"var_j", "var_pi"} => x.uc # "none"
  /\ x.fs = "unknown_var" \/ x.fa = "unknown_var" => x.tr[1] \in {"same", "shift"}

CfgOf(x) == [evenOdd |-> x.eo, cut |-> x.cut, cutFact |-> CutFact, xs |-> XsOf(x.xs), cval |-> CVal, vars |-> {"x"},
             ivars |-> {"c"}, tol |-> Tols[x.tol], userfuncs |-> {}, forbidden |-> {}, required |-> {}, listing |-> "black", debug |-> x.dbg,
             removed |-> RemovedOf(x.uc), userconsts |-> UserConstsOf(x.uc)]
CleanAuthor(x) == [lower |-> x.l, upper |-> x.u, body |-> Catalogue[x.sid], var |-> "n"]
AuthorOf(x) == ApplyFault(CleanAuthor(x), x.fa, x.fk, XsOf(x.xs))
\* (when the author's own variable is named after a constant, the submission is written in that variable too)
StudentOf(x) == LET a == IF x.uc # "none" /\ x.fa \in AuthorNameFaults THEN ApplyFault(CleanAuthor(x), x.fa, x.fk, XsOf(x.xs)) ELSE CleanAuthor(x)
                    a1 == IF x.fs = "uses_c" THEN a ELSE [a EXCEPT !.body = InlineC(a.body)]
                IN ApplyFault(Transform(x.tr, a1, IF x.sid = "fact" THEN CutFact ELSE x.cut), x.fs, x.fk, XsOf(x.xs))

VARIABLES c, io, out
SeedOK(s) == Part # "value" \/ Stride = 1 \/ (5 * IndexIn(ValueSidSeq, s.sid) + 3 * IndexIn(TrSeq, s.tr) + s.eo) % Stride = 0
Seeds == {s \in {[kind |-> "seed", sid |-> s, eo |-> e, tr |-> t, fa |-> f] : s \in Space.sid, e \in Space.eo, t \in Space.tr, f \in Space.fa} : SeedOK(s)}
ASSUME {TrSeq[i] : i \in 1..Len(TrSeq)} = AllTr /\ Len(TrSeq) = Cardinality(AllTr)
CasesFor(s) == {x \in [kind : {Part}, sid : {s.sid}, eo : {s.eo}, tr : {s.tr}, fa : {s.fa}, l : Space.l, u : Space.u, P : Space.P,
                       ord : Space.ord, tol : Space.tol, cut : Space.cut, fs : Space.fs, fk : Space.fk, xs : Space.xs,
                       dbg : (IF Part = "rnd" THEN BOOLEAN ELSE {FALSE}), uc : (IF Part = "err" THEN UcKinds ELSE {"none"})] : Sensible(x)}
Init == c \in Seeds /\ io = "seed" /\ out = {}
Next == /\ c.kind = "seed"
        /\ c' \in CasesFor(c)
        /\ io' = [aut |-> AuthorOf(c'), stu |-> StudentOf(c'), cfg |-> CfgOf(c'), pos |-> PosSeq(c'.P, c'.ord)]
        /\ out' = Allowed(io'.aut, io'.stu, c'.P, io'.cfg)
IsCase == c.kind # "seed"

(* ---- laws checked in every enumerated case *)
NoFaults == c.fa = "none" /\ c.fs = "none"
Full == c.P = Fields
Finite2 == c.l.k = "int" /\ c.u.k = "int"
AuthorIndex == Index(LimVal(c.l, [x |-> Zero, c |-> Zero], "author"), LimVal(c.u, [x |-> Zero, c |-> Zero], "author"), c.eo,
                     IF c.sid = "fact" THEN CutFact ELSE c.cut)
Defined == out # Classes                                  \* the statement speaks about this case

LawOutDomain == IsCase => out # {} /\ out \subseteq Classes
\* the same summation is correct whichever boxes are shown
LawSame == IsCase /\ NoFaults /\ c.tr[1] = "same" /\ Part # "algebra" /\ (c.sid = "ivar" => "summand" \in c.P) => out = {"correct"}
\* rewritings that preserve the value are graded correct (all boxes shown)
Preserving ==
  \/ c.tr[1] \in {"same", "swap", "rename", "reverse"}
  \/ c.tr[1] \in {"shift", "combo"} /\ Finite2 /\ (c.eo = 0 \/ c.tr[2] % 2 = 0)
  \/ c.tr[1] = "mirror" /\ Finite2 /\ (c.eo = 0 \/ (c.l.n + c.u.n) % 2 = 0)
  \/ c.tr = <<"cut_explicit", 0>>
LawPreserving == IsCase /\ NoFaults /\ Full /\ Defined /\ Preserving /\ Part # "algebra" => out = {"correct"}
\* perturbations that certainly change the value are not graded correct (default tolerance)
Breaking ==
  \/ c.tr[1] = "add" /\ AuthorIndex # {}
  \/ c.sid \in Positive /\ c.tr[1] = "scale" /\ AuthorIndex # {}
  \/ c.sid \in Positive /\ c.eo = 0 /\ Finite2 /\ c.tr[1] \in {"lo", "hi"}
LawBreaking == IsCase /\ NoFaults /\ Full /\ Defined /\ c.tol = "default" /\ Breaking /\ Part # "algebra" => "correct" \notin out
\* a coarser absolute tolerance never turns a correct submission into an incorrect one
LawToleranceMonotone == IsCase /\ Part = "tol" /\ c.tol = "half" /\ out = {"correct"}
                           => Allowed(io.aut, io.stu, c.P, [io.cfg EXCEPT !.tol = Tols["three"]]) = {"correct"}
\* laying the submission out in boxes and reading it back gives the effective summation
LawBoxes == IsCase /\ Part \in {"pos", "err"} => Structured(Boxes(io.stu, io.pos), io.pos, io.aut) = Effective(io.aut, io.stu, c.P)
\* faults: a fault in a box the student fills in, with a sound author's sum, is a student-facing error; a fault in the
\* author's sum with a sound submission of all four boxes is a configuration error
FieldOfFault(f) == CASE f \in {"blank_lower", "half_lower", "cplx_lower", "plusc_lower"} -> {"lower"}
                     [] f \in {"blank_upper", "half_upper", "cplx_upper"} -> {"upper"}
                     [] f \in {"blank_summand", "uses_c"} -> {"summand"}
                     [] f = "blank_var" -> {"summation_variable"}
                     [] f \in {"var_pi", "var_i", "var_sin", "var_x"} -> {"summation_variable"}
                     [] OTHER -> {}
LawStudentFault == IsCase /\ c.fa = "none" /\ c.uc = "none" /\ FieldOfFault(c.fs) # {} /\ FieldOfFault(c.fs) \subseteq c.P => out = {"student_err"}
LawAuthorFault == IsCase /\ c.fs = "none" /\ Full /\ c.uc = "none" /\ c.fa \in {"half_lower", "cplx_upper", "var_i", "var_x", "var_c", "blank_lower", "blank_summand", "unknown_var"}
                     => out = {"config_err"}
\* a default constant the author removed is a free name for the summation variable (the student's and the author's own);
\* a constant in force -- default, overridden or new -- is taken
NameOfFault(f) == CASE f = "var_pi" -> "pi" [] f = "var_i" -> "i" [] f = "var_j" -> "j" [] f = "var_e" -> "e" [] f = "var_tau" -> "tau"
LawConstantNames == IsCase /\ Part = "err" /\ c.uc # "none" =>
  /\ c.fa = "none" /\ {"summand", "summation_variable"} \subseteq c.P
       => out = (IF NameOfFault(c.fs) \in ConstantsInForce(io.cfg) THEN {"student_err"} ELSE {"correct"})
  /\ c.fs = "none" /\ NameOfFault(c.fa) \notin ConstantsInForce(io.cfg) /\ c.sid # "ivar" => out = {"correct"}
  /\ c.fs = "none" /\ NameOfFault(c.fa) \in ConstantsInForce(io.cfg) => out = {"config_err", "student_err"}
\* an inexactly written integer limit is either refused or taken for exactly that integer -- nothing else
LawInexactSubmission == IsCase /\ Part = "rnd" /\ c.fa = "none"
                           => out = {"student_err"} \cup Allowed(io.aut, Exactly(io.stu), c.P, io.cfg)
LawInexactAuthor == IsCase /\ Part = "rnd" /\ c.fs = "none"
                       => out = {"config_err"} \cup Allowed(Exactly(io.aut), io.stu, c.P, io.cfg)
LawNeverBothVerdictAndError == IsCase /\ Defined /\ Part # "rnd" => ~(out \cap {"correct", "incorrect"} # {} /\ out \cap {"student_err", "config_err"} # {})

(* ---- laws of the algebra part: Index and SumOf themselves *)
Env0 == [x |-> Zero, c |-> CVal]
Env1 == [x |-> One, c |-> CVal]
EnvX == [x |-> <<3, 2>>, c |-> CVal]
LV(l) == LimVal(l, Env0, "author")
Alg == IsCase /\ Part = "algebra"
Body == Catalogue[c.sid]
Idx(l, u, eo) == Index(LV(l), LV(u), eo, c.cut)
LawIndexSymmetric == Alg => Idx(c.l, c.u, c.eo) = Idx(c.u, c.l, c.eo)
LawIndexCount == Alg /\ Finite2 => /\ Cardinality(Idx(c.l, c.u, 0)) = Abs(c.u.n - c.l.n) + 1
                                   /\ Idx(c.l, c.u, 1) \cup Idx(c.l, c.u, 2) = Idx(c.l, c.u, 0)
                                   /\ Idx(c.l, c.u, 1) \cap Idx(c.l, c.u, 2) = {}
                                   /\ \A n \in Idx(c.l, c.u, 0) : (n \in Idx(c.l, c.u, 1)) # (n \in Idx(c.l, c.u, 2))
LawInfinityIsCutoff == Alg => Idx(c.l, c.u, c.eo) = Idx(CutLim(c.l, c.cut, 0), CutLim(c.u, c.cut, 0), c.eo)
LawStride == Alg => StrideIndex(LV(c.l), LV(c.u), c.eo, c.cut) = Idx(c.l, c.u, c.eo)
LawParitySplit == Alg => SumOf(Body, Idx(c.l, c.u, 0), EnvX) = VAdd(SumOf(Body, Idx(c.l, c.u, 1), EnvX), SumOf(Body, Idx(c.l, c.u, 2), EnvX))
\* splitting the range at fk
LawRangeSplit == Alg /\ Finite2 /\ c.l.n <= c.fk /\ c.fk < c.u.n
                    => SumOf(Body, Idx(c.l, c.u, c.eo), EnvX) = VAdd(SumOf(Body, Idx(c.l, LInt(c.fk), c.eo), EnvX),
                                                                     SumOf(Body, Idx(LInt(c.fk + 1), c.u, c.eo), EnvX))
\* the sum is a linear form in the sampled variable: value(x) = value(0) + x (value(1) - value(0))
LawLinearInX == Alg => LET i == Idx(c.l, c.u, c.eo)
                           v0 == SumOf(Body, i, Env0)
                       IN SumOf(Body, i, EnvX) = VAdd(v0, VScale(EnvX.x, VSub(SumOf(Body, i, Env1), v0)))
\* re-indexing: shifting the index set by -fk and the summand by +fk gives the same value (all integers)
LawShiftValue == Alg /\ Finite2 /\ c.eo = 0 /\ Abs(c.fk) <= 3
                    => SumOf([Body EXCEPT !.shift = c.fk], Idx(MoveLim(c.l, -c.fk), MoveLim(c.u, -c.fk), 0), EnvX) = SumOf(Body, Idx(c.l, c.u, 0), EnvX)
LawReverseValue == Alg => SumOf([Body EXCEPT !.sigma = -1], Idx(NegLim(c.u), NegLim(c.l), c.eo), EnvX) = SumOf(Body, Idx(c.l, c.u, c.eo), EnvX)
\* the comparison of non-negative rationals agrees with cross-multiplication where that cannot overflow
LawCompare == Alg /\ Finite2 /\ c.u.n # 0 /\ c.fk # 0
                 => LET a == Q(Abs(c.l.n), Abs(c.u.n))  b == Q(Abs(c.fk), Abs(c.u.n) + 1)
                    IN (NNLeq(a, b) <=> Leq(a, b)) /\ (NNLt(a, b) <=> Lt(a, b))
=============================================================================
