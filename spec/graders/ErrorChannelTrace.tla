------------------------- MODULE ErrorChannelTrace -------------------------
(* Code -> spec binding for C02.

   Record 1 ("meta") is the exception class tree introspected from the running library (class |-> bases) and the
   MROs of the outsider classes; TreeVerdict compares it with the data in Errors.tla.
   Every other record ("escape") is one real grader call: grader requirement, input form, debug flag, what the
   grading step did (class MRO and message of the exception that left check(), captured at the instance), what
   escaped from __call__, whether the call ended in time, whether an expect value was passed to an unconfigured
   grader (answer inference runs before everything else and outside the try block).  Messages arrive as symbol sequences over
   {"w","NL","BR"} plus the flag `same` (the text runs between the breaks are identical, in order).
   A record is accepted iff the observation equals ErrorChannel!Outward for it.                                  *)
EXTENDS Errors, Json, IOUtils

EC == INSTANCE ErrorChannel WITH Kinds <- {}, CheckFaults <- {}, InferFaults <- {}, Msgs <- {}, OutsiderMsgs <- {},
                                 InferMsgs <- {}, MaxN <- 1, Variants <- 1,
                                 c <- 0, pc <- "trace", origin <- 0, inner <- 0, esc <- 0, ret <- 0, trail <- <<>>

Trace == ndJsonDeserialize(IOEnv.TRACE_FILE)
VARIABLE l
Rec(i) == Trace[i]

(* ---------------------------------------------------------------- the class tree *)
RECURSIVE RecIsA(_, _, _, _)
RecIsA(t, cls, d, fuel) == \/ cls = d
                           \/ fuel > 0 /\ cls \in DOMAIN t /\ \E i \in DOMAIN t[cls] : RecIsA(t, t[cls][i], d, fuel - 1)
Roots == {"MITxError", "StudentFacingError", "ConfigError"}
TreeClause(r) ==
  LET t == r.class_tree  o == r.outsiders IN
  IF \E cls \in DOMAIN Tree : cls \notin DOMAIN t THEN "family-class-missing"
  ELSE IF \E cls \in DOMAIN Tree, d \in Roots : RecIsA(t, cls, d, 12) # IsA(cls, d) THEN "family-membership-changed"
  ELSE IF \E x \in Outsiders : x \notin DOMAIN o THEN "shape-outsider-missing"
  ELSE IF \E x \in Outsiders : "MITxError" \in Range(o[x]) THEN "family-outsider-inside"
  ELSE IF DOMAIN t # DOMAIN Tree THEN "shape-extra-class"
  ELSE IF \E cls \in DOMAIN Tree : t[cls] # <<Tree[cls]>> THEN "shape-parent-changed"
  ELSE IF \E x \in Outsiders : o[x] # Mro(x) THEN "shape-outsider-mro"
  ELSE "ok"

(* ---------------------------------------------------------------- one call *)
InnerOf(r) == IF r.inner.k = "raise"
              THEN [k |-> "raise", cls |-> r.inner.mro[1], fam |-> MroInFamily(r.inner.mro), msg |-> r.inner.syms]
              ELSE EC!Ret
ObservedOf(r, kind) ==
  IF r.outward.k = "return" THEN EC!Ret
  ELSE EC!Escape(r.outward.mro[1],
         IF r.outward.kind = "generic"
           THEN [t |-> "generic", plural |-> r.outward.plural, names |-> IF r.outward.names THEN EC!Names(r.n) ELSE <<>>]
         ELSE IF r.outward.kind = "refusal" THEN EC!RefusalMsg(kind)
         ELSE EC!TextMsg(r.outward.syms))
KnownMroOK(o) == (o.k = "raise" /\ o.mro[1] \in DOMAIN Tree /\ MroInFamily(o.mro)) => o.mro = Mro(o.mro[1])

EscapeClause(r) ==
  LET kind == EC!InputKind(r.req, r.form)
      input == [kind |-> kind, form |-> r.form, names |-> EC!Names(r.n)]
      inn == InnerOf(r)
      exp == EC!Outward(r.debug, inn, input)
      obs == ObservedOf(r, kind)
      textual == obs.k = "raise" /\ obs.msg.t = "text"
  IN
  IF r.timed_out THEN (IF r.debug THEN "debug-timeout" ELSE "terminates")
  ELSE IF ~r.debug /\ r.outward.k = "raise" /\ ~MroInFamily(r.outward.mro) THEN "family"
  ELSE IF r.inferring /\ ~r.checked /\ r.outward.k = "raise" /\ r.outward.kind = "refusal" /\ EC!Gradable(kind)
         THEN "ok"      \* the expect value was rejected while the answer was inferred: stays inside the family (above)
  ELSE IF r.inferring /\ ~r.checked /\ r.outward.k = "raise" /\ ~EC!Gradable(kind) /\ (r.debug \/ MroInFamily(r.outward.mro))
         THEN "ok"      \* ... or the input object was refused; which of the two comes first is not the statement's business
  ELSE IF ~EC!Gradable(kind) THEN (IF obs = exp /\ ~r.checked /\ r.outward.mro = Mro("ConfigError") THEN "ok" ELSE "refuse")
  ELSE IF r.debug THEN (IF obs = exp /\ (textual => r.outward.same) /\ (obs.k = "raise" => r.outward.mro = r.inner.mro)
                        THEN "ok" ELSE "debug")
  ELSE IF exp.k = "return" THEN (IF obs.k = "return" THEN "ok" ELSE "raised-after-return")
  ELSE IF obs.k = "return" THEN "swallowed"
  ELSE IF inn.fam THEN
         (IF obs.cls # exp.cls \/ r.outward.mro # r.inner.mro THEN "class"
          ELSE IF obs.msg # exp.msg \/ ~r.outward.same \/ r.outward.nl # 0 THEN "msg"
          ELSE IF ~KnownMroOK(r.inner) THEN "mro"
          ELSE "ok")
  ELSE (IF obs = exp /\ r.outward.mro = Mro("StudentFacingError") THEN "ok" ELSE "generic")

Clause(r) == IF r.ev = "meta" THEN TreeClause(r) ELSE EscapeClause(r)
Verdict(i) == LET r == Rec(i) cl == Clause(r) IN
              IF cl = "ok" THEN TRUE ELSE PrintT(<<"REJECT", r.id, cl>>)
Init == l = 0
Next == /\ l < Len(Trace)
        /\ l' = l + 1
        /\ Verdict(l + 1)
        /\ (l + 1 = Len(Trace)) => PrintT(<<"DONE", Len(Trace)>>)
=============================================================================
