--------------------------- MODULE MC_ListGrading ---------------------------
(* Model instances for C05.  TLC enumerates every case of a part inside the tier's bounds, evaluates the set of result
   vectors the property-level specification allows (variable `out`) and the laws; the dump is replayed into the real
   ListGrader.  Parts:
     "flat"    credit tensors M[a][i][j] in units of 1/den, ordered / unordered, partial_credit on / off, 1-3 answer lists
     "group"   every valid grouping (inputs -> groups) with nested ListGraders, fixed credit patterns
     "nested"  two groups of two inputs (both interleavings), every 0/1 credit table, all flag combinations
     "rect"    unordered groups of 2x3, 2x4, 3x2 inputs with partial group credits (low cell credits decide the pairing)
     "gmap"    every valid grouping of up to 8 inputs: the group map and the Groupify / Ungroupify laws only
   Two-level enumeration: Init picks seeds, Next picks one case per step. *)
EXTENDS ListGrading
CONSTANTS Part, Tier

VARIABLES c, out, aux
IsCase == c.kind # "seed"
Units(den) == 0..den
Rows(n, den) == [1..n -> Units(den)]

(* ------------------------------------------------------------------ part "flat" *)
\* a block of cases: size n, A answer lists, credits k/den, which flags, which leading rows (a set of row sequences),
\* lite = TRUE: enumerated for the replay with the core laws only (the other laws are checked on the smaller blocks)
Blk(n, A, den, ords, pcs, heads, lite) == [n |-> n, A |-> A, den |-> den, ords |-> ords, pcs |-> pcs, heads |-> heads, lite |-> lite,
                                         pal |-> [k \in 1..(den + 1) |-> k - 1]]      \* palette: the unit values a credit may take
AllHeads(n, den) == {<<r>> : r \in Rows(n, den)}
\* first row non-decreasing: one representative per renumbering of the answers
SortedRows(n, den) == {x \in Rows(n, den) : \A i \in 1..(n - 1) : x[i] <= x[i + 1]}
SortedHeads(n, den) == {<<r>> : r \in SortedRows(n, den)}
PairHeads4 == {<<r1, r2>> : r1 \in {<<0, 1, 1, 0>>, <<1, 1, 0, 1>>}, r2 \in {<<1, 0, 1, 0>>, <<0, 0, 1, 1>>, <<1, 1, 1, 1>>, <<0, 1, 0, 0>>}}
PairHeads3 == {<<r1, r2>> : r1 \in SortedRows(3, 1), r2 \in {<<0, 1, 0>>, <<1, 0, 1>>, <<1, 1, 0>>, <<0, 0, 1>>}}
\* finely graduated credits, in thousandths: values closer than 0.005 and sums that differ only after adding several cells
\* (the statement quantifies over ANY credits; a solver working on rounded costs would merge them)
Fine3 == <<115, 125, 130>>
Fine4 == <<115, 125, 128, 130>>
PalRows(n, pal) == [1..n -> Range(pal)]
FineBlk(n, A, pal, ords, pcs, heads, lite) == [Blk(n, A, 1000, ords, pcs, heads, lite) EXCEPT !.pal = pal]
FineHeads3 == {<<<<115, 125, 130>>>>, <<<<125, 125, 130>>>>, <<<<115, 115, 125>>>>}
FineHeads4 == {<<r1, r2, r3>> : r1 \in {<<115, 125, 130, 125>>, <<125, 130, 115, 115>>}, r2 \in {<<130, 125, 125, 115>>, <<125, 115, 130, 130>>},
                                r3 \in {<<125, 125, 115, 130>>, <<115, 130, 125, 125>>, <<130, 115, 125, 125>>}}
FineBlocks ==
  IF Tier = "quick" THEN
    { FineBlk(2, 1, Fine4, {FALSE}, BOOLEAN, {<<r>> : r \in PalRows(2, Fine4)}, FALSE),
      FineBlk(2, 2, <<125, 130>>, {FALSE}, {TRUE}, {<<r>> : r \in PalRows(2, <<125, 130>>)}, FALSE),
      FineBlk(3, 1, Fine3, {FALSE}, {TRUE}, FineHeads3, TRUE),
      FineBlk(4, 1, Fine3, {FALSE}, {TRUE}, FineHeads4, TRUE) }
  ELSE
    { FineBlk(2, 1, Fine4, BOOLEAN, BOOLEAN, {<<r>> : r \in PalRows(2, Fine4)}, FALSE),
      FineBlk(2, 2, Fine3, {FALSE}, {TRUE}, {<<r>> : r \in PalRows(2, Fine3)}, TRUE),
      FineBlk(3, 1, Fine3, {FALSE}, BOOLEAN, {<<r>> : r \in {x \in PalRows(3, Fine3) : x[1] <= x[2] /\ x[2] <= x[3]}}, TRUE),
      FineBlk(3, 1, Fine3, {FALSE}, {TRUE}, FineHeads3, FALSE),
      FineBlk(4, 1, Fine3, {FALSE}, BOOLEAN, FineHeads4, TRUE),
      FineBlk(4, 1, <<124, 127>>, {FALSE}, {TRUE}, {<<r1, r2>> : r1 \in {<<124, 127, 127, 124>>}, r2 \in PalRows(4, <<124, 127>>)}, TRUE) }
CoarseBlocks ==
  IF Tier = "quick" THEN
    { Blk(2, 1, 2, BOOLEAN, BOOLEAN, AllHeads(2, 2), FALSE),
      Blk(2, 2, 2, {FALSE}, {TRUE}, SortedHeads(2, 2), FALSE),
      Blk(2, 2, 1, BOOLEAN, BOOLEAN, AllHeads(2, 1), FALSE),
      Blk(3, 1, 2, {FALSE}, {TRUE}, SortedHeads(3, 2), FALSE),
      Blk(3, 1, 1, BOOLEAN, BOOLEAN, AllHeads(3, 1), FALSE),
      Blk(4, 1, 1, {FALSE}, {TRUE}, PairHeads4, FALSE) }
  ELSE
    { Blk(2, 1, 2, BOOLEAN, BOOLEAN, AllHeads(2, 2), FALSE),
      Blk(2, 2, 2, {FALSE}, BOOLEAN, AllHeads(2, 2), FALSE),
      Blk(2, 2, 1, BOOLEAN, BOOLEAN, AllHeads(2, 1), FALSE),
      Blk(2, 3, 1, {FALSE}, {TRUE}, AllHeads(2, 1), FALSE),
      Blk(3, 1, 2, {FALSE}, {TRUE}, AllHeads(3, 2), FALSE),
      Blk(3, 1, 2, {FALSE}, {FALSE}, SortedHeads(3, 2), FALSE),
      Blk(3, 1, 1, {TRUE}, BOOLEAN, AllHeads(3, 1), FALSE),
      Blk(3, 2, 1, {FALSE}, {TRUE}, PairHeads3, TRUE),
      Blk(4, 1, 1, {FALSE}, {TRUE}, AllHeads(4, 1), TRUE),
      Blk(4, 1, 1, {FALSE}, {TRUE}, PairHeads4, FALSE),
      Blk(4, 1, 1, {FALSE}, {FALSE}, SortedHeads(4, 1), TRUE),
      Blk(4, 1, 1, {TRUE}, {FALSE}, SortedHeads(4, 1), TRUE) }
FlatBlocks == CoarseBlocks \cup FineBlocks
FlatSeeds == UNION {[kind : {"seed"}, n : {b.n}, A : {b.A}, den : {b.den}, ordered : b.ords, pc : b.pcs, head : b.heads, lite : {b.lite},
                     pal : {b.pal}] : b \in FlatBlocks}
FlatCases(s) == [kind : {"flat"}, n : {s.n}, A : {s.A}, den : {s.den}, ordered : {s.ordered}, pc : {s.pc}, head : {s.head}, lite : {s.lite},
                 rest : [1..(s.A * s.n - Len(s.head)) -> PalRows(s.n, s.pal)]]
UnitTensor(x) == LET rows == x.head \o x.rest IN TLCEval([a \in 1..x.A |-> TLCEval([i \in 1..x.n |-> rows[(a - 1) * x.n + i]])])
RatTensor(U, den) == TLCEval([a \in 1..Len(U) |-> TLCEval([i \in 1..Len(U[a]) |-> TLCEval([j \in 1..Len(U[a][i]) |-> Q(U[a][i][j], den)])])])
CfgOf(x) == [ordered |-> x.ordered, pc |-> x.pc]
ToUnits(g, den) == (g[1] * den) \div g[2]
CompactFlat(S, den) == {[i \in 1..Len(r) |-> <<r[i].a, r[i].j, ToUnits(r[i].g, den), r[i].ok>>] : r \in S}

(* ------------------------------------------------------------------ parts "group" and "nested": two-level layouts
   Outer ListGrader over the groups of grouping g; a group of one input is graded by an item grader, a larger group by
   an inner ListGrader over its inputs.  Leaf answers are numbered q = 1..N slot by slot; C[p][q] is the credit (units of
   1/den) of input p against leaf answer q. *)
Offset(gm, h) == SumLens(SubSeq(gm, 1, h - 1))
Leaf(g) == [kind |-> "leaf", alts |-> <<g>>]
TreeOf(g, outOrd, inOrd, pcOut, pcIn, C, den) ==
  LET gm == TLCEval(GroupMap(g))
      Cell(k, h) ==
        IF outOrd /\ h # k THEN [kind |-> "none"]
        ELSE IF Len(gm[k]) = 1 THEN Leaf(Q(C[gm[k][1]][Offset(gm, h) + 1], den))
        ELSE [kind |-> "list", ordered |-> inOrd, pc |-> pcIn, gm |-> TLCEval([i \in 1..Len(gm[k]) |-> <<i>>]),
              cells |-> <<TLCEval([i \in 1..Len(gm[k]) |-> TLCEval([j \in 1..Len(gm[k]) |-> Leaf(Q(C[gm[k][i]][Offset(gm, h) + j], den))])])>>,
              cert |-> <<>>]
  IN [kind |-> "list", ordered |-> outOrd, pc |-> pcOut, gm |-> gm,
      cells |-> <<TLCEval([k \in 1..Len(gm) |-> TLCEval([h \in 1..Len(gm) |-> Cell(k, h)])])>>, cert |-> <<>>]
\* leaf answer number of a path <<1, h, 1>> (item grader) or <<1, h, 1, j, 1>> (inner list)
LeafIndex(gm, path) == Offset(gm, path[2]) + (IF Len(path) = 3 THEN 1 ELSE path[4])
CompactTree(S, gm, den) == {[p \in 1..Len(r) |-> <<LeafIndex(gm, r[p].path), ToUnits(r[p].g, den), OkOf(r[p].g)>>] : r \in S}
UnorderedEligible(g) == LET gm == GroupMap(g) IN EqualSizes(gm) /\ Len(gm[1]) >= 2

\* fixed credit patterns (units of 1/2).  Rank(p) = the leaf answer "meant" for input p.
IndexInGroup(g, p) == Cardinality({x \in 1..p : g[x] = g[p]})
RankOf(g, p) == Offset(GroupMap(g), g[p]) + IndexInGroup(g, p)
\* pattern 2: full credit for the next answer of the same slot (cyclically), half credit for the meant one
\* pattern 3: full credit for the meant index in the NEXT slot (cyclically; equal group sizes), half credit for the meant one
Pattern(g, pat) ==
  LET gm == GroupMap(g)
      G == Len(gm)
      Full(p) == LET k == g[p]  s == Len(gm[k])  i == IndexInGroup(g, p)
                 IN IF pat = 2 THEN Offset(gm, k) + (i % s) + 1
                    ELSE Offset(gm, (k % G) + 1) + i
  IN [p \in 1..Len(g) |-> [q \in 1..Len(g) |-> IF q = Full(p) THEN 2 ELSE IF q = RankOf(g, p) THEN 1 ELSE 0]]

MaxN == IF Tier = "quick" THEN 6 ELSE 8
MaxG(N) == IF Tier = "quick" THEN (IF N <= 5 THEN N ELSE 3) ELSE (IF N <= 6 THEN N ELSE IF N = 7 THEN 3 ELSE 2)
GroupSeeds == {s \in [kind : {"seed"}, N : 2..MaxN, G : 2..MaxN, p1 : 1..MaxN, p2 : 1..MaxN] :
                 s.G <= MaxG(s.N) /\ s.G <= s.N /\ s.p1 <= s.G /\ s.p2 <= s.G}
GroupingOf(x) == <<x.p1, x.p2>> \o x.rest
GroupCases(s) == {x \in [kind : {"group"}, N : {s.N}, G : {s.G}, p1 : {s.p1}, p2 : {s.p2}, rest : [1..(s.N - 2) -> 1..s.G],
                         outOrd : BOOLEAN, inOrd : BOOLEAN, pat : {2, 3}, pcOut : BOOLEAN] :
                    LET g == GroupingOf(x) IN
                    /\ Range(g) = 1..x.G
                    /\ x.outOrd => x.pat = 2
                    /\ ~x.outOrd => (x.pat = 3 /\ UnorderedEligible(g))
                    /\ (x.N = 8 /\ ~x.pcOut) => ~x.outOrd
                    /\ ~x.inOrd => \A k \in 1..x.G : Len(GroupMap(g)[k]) <= EnumLimit}   \* larger unordered groups: certificate, see trace spec

NestLayouts == {<<1, 1, 2, 2>>, <<1, 2, 1, 2>>}
NestFlags == IF Tier = "quick"
             THEN {<<FALSE, FALSE, TRUE, TRUE>>, <<FALSE, TRUE, TRUE, FALSE>>, <<FALSE, FALSE, FALSE, FALSE>>, <<TRUE, FALSE, FALSE, TRUE>>}
             ELSE {f \in [1..4 -> BOOLEAN] : ~f[1]} \cup {<<TRUE, FALSE, FALSE, TRUE>>, <<TRUE, TRUE, TRUE, FALSE>>}   \* <<outOrd, inOrd, pcOut, pcIn>>
NestFirsts == IF Tier = "quick" THEN {<<<<1, 0, 0, 1>>, <<0, 1, 1, 0>>>>, <<<<1, 1, 0, 0>>, <<0, 1, 0, 1>>>>, <<<<0, 0, 1, 0>>, <<1, 0, 1, 1>>>>}
              ELSE {<<r1, r2>> : r1 \in {<<1, 0, 0, 1>>, <<1, 1, 0, 0>>, <<0, 0, 1, 0>>},
                                 r2 \in {<<0, 1, 1, 0>>, <<1, 0, 1, 1>>}}
NestSeeds == [kind : {"seed"}, g : (IF Tier = "quick" THEN {<<1, 2, 1, 2>>} ELSE NestLayouts), flags : NestFlags, first : NestFirsts]
NestCases(s) == [kind : {"nested"}, g : {s.g}, outOrd : {s.flags[1]}, inOrd : {s.flags[2]}, pcOut : {s.flags[3]}, pcIn : {s.flags[4]},
                 first : {s.first}, rest : [1..2 -> Rows(4, 1)]]

\* part "rect": unordered outer ListGrader over G groups of s inputs with G # s allowed (2x3, 2x4, 3x2), inner ListGraders
\* with PARTIAL group credits: input p earns B[p][h] (units of 1/den) against the answer of slot h that has p's own index
\* within its group, nothing against the other answers -- so the credit of cell (k, h) is the sum over the group's
\* inputs of B[.][h], every value 0..s occurs, and low cell credits decide the pairing of groups with answer slots.
RectShape(G, s, lay, inOrd, pcIn, den, heads, nrest) ==
  [G |-> G, s |-> s, lay |-> lay, inOrd |-> inOrd, pcIn |-> pcIn, den |-> den, heads |-> heads, nrest |-> nrest, pcOut |-> TRUE,
   pal |-> [k \in 1..(den + 1) |-> k - 1]]
\* two groups of two inputs whose leaf credits are thousandths: the group credits differ by a few thousandths
FineRect(lay, inOrd) == [RectShape(2, 2, lay, inOrd, TRUE, 1000, {<<<<115, 125>>, <<130, 125>>>>, <<<<125, 130>>, <<125, 115>>>>, <<<<130, 130>>, <<115, 125>>>>}, 2)
                         EXCEPT !.pal = Fine3]
NoOuterPartial(x) == [x EXCEPT !.pcOut = FALSE]
BRows(G, den) == [1..G -> 0..den]
H2 == {<<<<0, 1>>, <<0, 0>>>>, <<<<1, 0>>, <<0, 1>>>>, <<<<0, 0>>, <<0, 0>>>>, <<<<1, 1>>, <<0, 1>>>>}
H2b == {<<<<0, 1>>, <<1, 0>>>>, <<<<0, 0>>, <<1, 0>>>>}
H4 == {<<<<0, 1>>, <<0, 0>>, <<1, 0>>, <<0, 0>>>>, <<<<1, 0>>, <<0, 1>>, <<0, 0>>, <<0, 1>>>>}
H3 == {<<<<0, 1, 0>>, <<0, 0, 0>>, <<1, 0, 0>>>>, <<<<0, 0, 1>>, <<0, 1, 0>>, <<0, 0, 0>>>>}
Hhalf == {<<<<0, 1>>, <<2, 0>>, <<0, 0>>, <<1, 1>>>>, <<<<1, 0>>, <<0, 1>>, <<0, 2>>, <<0, 0>>>>, <<<<0, 0>>, <<0, 1>>, <<1, 0>>, <<0, 0>>>>}
RectShapes ==
  IF Tier = "quick" THEN
    { RectShape(2, 3, "block", TRUE, TRUE, 1, H2, 4), RectShape(2, 3, "inter", TRUE, TRUE, 1, H2b, 4),
      NoOuterPartial(RectShape(2, 3, "block", TRUE, TRUE, 1, H2b, 4)),
      RectShape(2, 3, "block", FALSE, TRUE, 1, H2b, 4), RectShape(2, 3, "block", TRUE, FALSE, 1, H2b, 4),
      RectShape(2, 3, "block", TRUE, TRUE, 2, Hhalf, 2),
      RectShape(2, 4, "block", TRUE, TRUE, 1, H4, 4), RectShape(2, 4, "inter", TRUE, TRUE, 1, {<<<<0, 1>>, <<1, 0>>, <<0, 0>>, <<0, 0>>>>}, 4),
      RectShape(3, 2, "block", TRUE, TRUE, 1, H3, 3), FineRect("block", TRUE) }
  ELSE
    { RectShape(2, 3, "block", TRUE, TRUE, 1, {<<r>> : r \in BRows(2, 1)}, 5), RectShape(2, 3, "inter", TRUE, TRUE, 1, H2, 4),
      NoOuterPartial(RectShape(2, 3, "block", TRUE, TRUE, 1, H2, 4)), NoOuterPartial(RectShape(2, 4, "block", TRUE, TRUE, 1, H4, 4)),
      RectShape(2, 3, "block", FALSE, TRUE, 1, H2, 4), RectShape(2, 3, "block", TRUE, FALSE, 1, H2, 4),
      RectShape(2, 3, "block", TRUE, TRUE, 2, Hhalf, 2), RectShape(2, 3, "inter", FALSE, TRUE, 2, Hhalf, 2),
      RectShape(2, 4, "block", TRUE, TRUE, 1, {h1 \o h2 : h1 \in H2, h2 \in H2b}, 4), RectShape(2, 4, "inter", TRUE, TRUE, 1, H4, 4),
      RectShape(2, 4, "block", FALSE, TRUE, 1, H4, 4),
      RectShape(3, 2, "block", TRUE, TRUE, 1, H3, 3), RectShape(3, 2, "inter", FALSE, TRUE, 1, H3, 3),
      FineRect("block", TRUE), FineRect("inter", FALSE) }
RectSeeds == UNION {[kind : {"seed"}, G : {x.G}, s : {x.s}, lay : {x.lay}, inOrd : {x.inOrd}, pcIn : {x.pcIn}, den : {x.den},
                     head : x.heads, nrest : {x.nrest}, pcOut : {x.pcOut}, pal : {x.pal}] : x \in RectShapes}
RectCases(s) == [kind : {"rect"}, G : {s.G}, s : {s.s}, lay : {s.lay}, outOrd : {FALSE}, inOrd : {s.inOrd}, pcOut : {s.pcOut}, pcIn : {s.pcIn},
                 den : {s.den}, head : {s.head}, rest : [1..s.nrest -> [1..s.G -> Range(s.pal)]]]
RectGrouping(x) == [p \in 1..(x.G * x.s) |-> IF x.lay = "block" THEN ((p - 1) \div x.s) + 1 ELSE ((p - 1) % x.G) + 1]
\* B = head \o rest has one row per input (were fewer rows enumerated they would repeat cyclically)
RectTable(x) == LET B == x.head \o x.rest
                    g == RectGrouping(x)
                    N == x.G * x.s
                IN TLCEval([p \in 1..N |-> TLCEval([q \in 1..N |->
                     IF ((q - 1) % x.s) + 1 = IndexInGroup(g, p) THEN B[((p - 1) % Len(B)) + 1][((q - 1) \div x.s) + 1] ELSE 0])])

\* part "gmap": every valid grouping of N inputs into G >= 2 groups, group map only (no credits)
GmapMaxN == IF Tier = "quick" THEN 6 ELSE 8
PreLen(N) == IF N >= 6 THEN 3 ELSE 2
GmapSeeds == UNION {[kind : {"seed"}, N : {N}, G : {G}, pre : [1..PreLen(N) -> 1..G]] : N \in 2..GmapMaxN, G \in 2..GmapMaxN}
GmapCases(s) == IF s.G > s.N THEN {}
                ELSE {x \in [kind : {"gmap"}, N : {s.N}, G : {s.G}, pre : {s.pre}, rest : [1..(s.N - PreLen(s.N)) -> 1..s.G]] :
                        Range(x.pre \o x.rest) = 1..x.G}

(* ------------------------------------------------------------------ the model *)
Seeds == IF Part = "flat" THEN FlatSeeds ELSE IF Part = "group" THEN GroupSeeds ELSE IF Part = "gmap" THEN GmapSeeds
         ELSE IF Part = "rect" THEN RectSeeds ELSE NestSeeds
CasesFor(s) == IF Part = "flat" THEN FlatCases(s) ELSE IF Part = "group" THEN GroupCases(s)
               ELSE IF Part = "gmap" THEN GmapCases(s) ELSE IF Part = "rect" THEN RectCases(s) ELSE NestCases(s)
\* derived data of a case: aux = credit tensor / table in units, and the layout
CaseDen(x) == IF x.kind \in {"flat", "rect"} THEN x.den ELSE IF x.kind = "group" THEN 2 ELSE 1
CaseGrouping(x) == IF x.kind = "group" THEN GroupingOf(x) ELSE IF x.kind = "gmap" THEN x.pre \o x.rest
                   ELSE IF x.kind = "rect" THEN RectGrouping(x) ELSE x.g
CaseTable(x) == IF x.kind = "flat" THEN UnitTensor(x)
                ELSE IF x.kind = "group" THEN Pattern(GroupingOf(x), x.pat)
                ELSE IF x.kind = "rect" THEN RectTable(x)
                ELSE x.first \o x.rest
CaseTree(x) == IF x.kind = "flat" THEN FlatTree(RatTensor(UnitTensor(x), x.den), CfgOf(x))
               ELSE TreeOf(CaseGrouping(x), x.outOrd, x.inOrd, x.pcOut, IF x.kind = "group" THEN TRUE ELSE x.pcIn, CaseTable(x), CaseDen(x))
CaseOut(x) == IF x.kind = "gmap" THEN GroupMap(CaseGrouping(x))
              ELSE IF x.kind = "flat" THEN CompactFlat(Allowed(RatTensor(UnitTensor(x), x.den), CfgOf(x)), x.den)
              ELSE CompactTree(Results(CaseTree(x)), GroupMap(CaseGrouping(x)), CaseDen(x))

Init == c \in Seeds /\ out = {} /\ aux = <<>>
Next == /\ c.kind = "seed"
        /\ c' \in CasesFor(c)
        /\ out' = CaseOut(c')
        /\ aux' = IF c'.kind = "flat" THEN CaseTable(c')
                  ELSE IF c'.kind = "gmap" THEN [g |-> CaseGrouping(c')]
                  ELSE [g |-> CaseGrouping(c'), C |-> CaseTable(c')]

(* ------------------------------------------------------------------ laws about the specification itself *)
IsFlatCore == IsCase /\ c.kind = "flat"
IsFlat == IsFlatCore /\ ~c.lite
MR == RatTensor(UnitTensor(c), c.den)
Cfg == CfgOf(c)
\* two generators of the symmetric group (transposition, n-cycle): on a case space closed under permutations a law
\* that holds for the generators in every case holds for every permutation
TestPerms(n) == {[i \in 1..n |-> IF i = 1 THEN 2 ELSE IF i = 2 THEN 1 ELSE i], [i \in 1..n |-> (i % n) + 1]}

IsLayout == IsCase /\ c.kind \in {"group", "nested", "rect"}
LawNonEmpty == IsCase /\ c.kind # "gmap" => out # {}
\* every allowed vector: one entry per input, all from one answer list, every answer used exactly once, ordered => in place
LawShape == IsFlatCore => \A r \in Allowed(MR, Cfg) :
               /\ Len(r) = c.n
               /\ \A i \in 1..c.n : r[i].a = r[1].a /\ r[i].a \in 1..c.A /\ r[i].j \in 1..c.n
               /\ \A i, k \in 1..c.n : r[i].j = r[k].j => i = k
               /\ c.ordered => \A i \in 1..c.n : r[i].j = i
               /\ \A i \in 1..c.n : r[i].ok = OkOf(r[i].g)
\* the total credit is the optimum found by an independent formulation, and no assignment to any list does better
LawOptimal == IsFlatCore /\ ~c.ordered => LET M == MR  best == RMaxSet({BestRec(M[a], 1, 1..c.n) : a \in 1..c.A})
                                      IN \A r \in Allowed(M, [Cfg EXCEPT !.pc = TRUE]) :
                                           /\ VectorTotal(r) = best
                                           /\ \A a \in 1..c.A : \A s \in Bijections(c.n) : Leq(AssignTotal(M[a], s), best)
LawOrderedTotal == IsFlatCore /\ c.ordered => LET M == MR IN \A r \in Allowed(M, [Cfg EXCEPT !.pc = TRUE]) :
               \A a \in 1..c.A : Leq(AssignTotal(M[a], Identity(c.n)), VectorTotal(r))
\* permuting the input boxes permutes the allowed vectors (results follow their boxes)
LawEquivariant == IsFlat /\ ~c.ordered => LET M == MR  A0 == Allowed(M, Cfg)
                                          IN \A pi \in TestPerms(c.n) : Allowed(PermuteInputs(M, pi), Cfg) = {MoveVector(r, pi) : r \in A0}
\* renumbering the answers renames the entries and nothing else; ordered: inputs and answers permuted together
LawRelabel == IsFlat => LET M == MR  A0 == Allowed(M, Cfg) IN \A pi \in TestPerms(c.n) :
               IF c.ordered
               THEN Allowed(PermuteAnswers(PermuteInputs(M, pi), pi), Cfg) = {RelabelVector(MoveVector(r, pi), pi) : r \in A0}
               ELSE Allowed(PermuteAnswers(M, pi), Cfg) = {RelabelVector(r, pi) : r \in A0}
\* an ordered grader never awards more than the unordered one on the same credits
LawOrderedNoBetter == IsFlat => LET M == MR IN \A a \in 1..c.A : Leq(ListTotal(M, a, TRUE), ListTotal(M, a, FALSE))
\* partial_credit = False: all or nothing, and nothing else changes
LawPartialCredit == IsFlat => LET M == MR  off == Allowed(M, [Cfg EXCEPT !.pc = FALSE])  on == Allowed(M, [Cfg EXCEPT !.pc = TRUE])
                              IN /\ off = {IF Perfect(r) THEN r ELSE ZeroOut(r) : r \in on}
                                 /\ \A r \in off : Perfect(r) \/ \A i \in 1..c.n : r[i].g = Zero /\ r[i].ok = "false"
\* an additional answer list never lowers the total
LawMoreLists == IsFlat /\ c.A >= 2 => LET M == MR IN \A r \in Allowed(M, [Cfg EXCEPT !.pc = TRUE]) :
               \A r1 \in Allowed(<<M[1]>>, [Cfg EXCEPT !.pc = TRUE]) : Leq(VectorTotal(r1), VectorTotal(r))
\* the layout-tree formulation agrees with the flat one
LawTreeAgrees == IsFlat => LET M == MR  t == FlatTree(M, Cfg)  A0 == Allowed(M, Cfg)  v == Mul(Value(t), FromInt(c.n))
                           IN /\ {[i \in 1..Len(r) |-> EntryOfPath(r[i])] : r \in Results(t)} = A0
                              /\ \A r \in A0 : v = VectorTotal(r)
\* the decision procedure Eval accepts exactly the members of Results and rebuilds their credits
PathsOf(r) == [p \in 1..Len(r) |-> r[p].path]
GradesOf(r) == [p \in 1..Len(r) |-> r[p].g]
FlatPathSpace == [1..c.n -> {<<a, j, 1>> : a \in 1..c.A, j \in 1..c.n}]
LawEvalSound == IsCase /\ c.kind # "gmap" /\ (c.kind = "flat" => ~c.lite) => LET t == CaseTree(c) IN \A r \in Results(t) :
               LET e == Eval(t, PathsOf(r)) IN e.why = "" /\ e.res = GradesOf(r)
LawEvalComplete == IsFlat /\ c.n <= 3 /\ (c.n <= 2 \/ c.den = 1) =>
               LET t == CaseTree(c)  ps == {PathsOf(r) : r \in Results(t)}
               IN \A P \in FlatPathSpace : (Eval(t, P).why = "") <=> (P \in ps)
\* certificates: feasible potentials bound every assignment (soundness), and tight ones exist on the unit grid (completeness)
PotGrid == [1..c.n -> {Q(k, c.den) : k \in 0..c.den}]
LawDuality == IsFlat /\ c.n <= 3 /\ c.den <= 2 /\ (c.n <= 2 \/ c.den = 1) => \A a \in 1..c.A :
               /\ \A u \in PotGrid : \A v \in PotGrid : Feasible(MR[a], u, v) => Leq(BestTotal(MR[a]), CertTotal([u |-> u, v |-> v]))
               /\ \E u \in PotGrid : \E v \in PotGrid : \E s \in OptAssignments(MR[a]) : CertificateOK(MR[a], [u |-> u, v |-> v, sigma |-> s])

\* grouping: the group map is a partition in ascending order and Groupify / Ungroupify are mutually inverse
IsGrouped == IsCase /\ c.kind # "flat"
LawGroupMap == IsGrouped => LET g == CaseGrouping(c) IN ValidGrouping(g) /\ IsPartition(GroupMap(g), Len(g))
                                                       /\ \A p \in 1..Len(g) : \E i \in 1..Len(GroupMap(g)[g[p]]) : GroupMap(g)[g[p]][i] = p
LawRoundTrip == IsGrouped => LET gm == GroupMap(CaseGrouping(c))
                                 flat == [p \in 1..SumLens(gm) |-> <<"item", p>>]
                                 nest == [k \in 1..Len(gm) |-> [i \in 1..Len(gm[k]) |-> <<k, i>>]]
                             IN Ungroupify(gm, Groupify(gm, flat)) = flat /\ Groupify(gm, Ungroupify(gm, nest)) = nest
LawValidTree == IsCase /\ c.kind # "gmap" /\ (c.kind = "flat" => ~c.lite) => ValidTree(CaseTree(c)) /\ CertsOK(CaseTree(c))
\* every allowed vector of a layout has the same total, which is NPos * Value
LawValueIsAverage == IsLayout => LET t == CaseTree(c) IN \A r \in Results(t) :
               SumF(GradesOf(r), Len(r)) = Mul(Value(t), FromInt(NPos(t)))
\* outer partial_credit = False on a layout: all or nothing
LawGroupedAllOrNothing == IsLayout /\ ~c.pcOut => \A r \in Results(CaseTree(c)) : PerfectG(r) \/ \A p \in 1..Len(r) : r[p].g = Zero
=============================================================================
