INIT Init
NEXT Next
CONSTANTS
  Part = "list"
  MaxAlts = 1
  MaxSamples = 1
  MaxCalls = 1
  Correlated = FALSE
  AnsOpts = {}
  CmpReturns = {}
  LeafAns = {"a0", "a1", "a1f"}
  LeafCmp = {"T", "P"}
  TableGrades = {"c0", "c12"}
  ListAns = {}
  MaxItems = 1
  Layouts = {"flat2", "g121", "g1212"}
  TableOnly = {"g1212"}
  AttOpts = {"none", "c1", "c12", "c0", "c1e4"}
  OkRecomputed = TRUE
  ParentForcesChildDebug = FALSE
  PreOpts = {}
  AliasedDefaults = FALSE
INVARIANT InvStage
INVARIANT InvRaisedNoVerdict
INVARIANT InvGradesInUnit
INVARIANT InvStaleOk
INVARIANT InvStripped
INVARIANT InvDebugOnlyAtAppend
INVARIANT InvDebugShown
INVARIANT InvNoLeak
INVARIANT InvVerdictAgrees
INVARIANT InvListOrder
INVARIANT InvAllOrNothing
INVARIANT InvAloneSameAsInList
INVARIANT InvChildDebugAsConfigured
INVARIANT InvFamilyDebugAsConfigured
INVARIANT InvReturnedWellFormed
