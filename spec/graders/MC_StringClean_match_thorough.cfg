INIT Init
NEXT Next
CONSTANTS
  MaxLen = 4
  Part = "match"
INVARIANT LawIdempotent
INVARIANT LawKeepsInk
INVARIANT LawShape
INVARIANT LawOutcomeDomain
INVARIANT LawMatchSym
INVARIANT LawAcceptIffEqual
INVARIANT LawStripAllCoarser
