SPECIFICATION Spec
CONSTANTS
  Depth = 3
  MaxCalls = 2
  Faults <- FaultsQuick
  ParentForcesDebug = TRUE
  RestoreAlways = TRUE
INVARIANT TypeOK
INVARIANT SameAsConfigured
INVARIANT ConfigStable
INVARIANT FamilyInEveryCall
INVARIANT Repeatable
PROPERTY CallsEnd
