---------------------------- MODULE ErrorChannel ----------------------------
(* C02 -- how a failure inside a grader call reaches edX.

   PROPERTY LEVEL (written from the property statement and the MITxError documentation):
     Outward(debug, inner, input)   the one outcome edX may observe for a call whose grading step ended with `inner`
     InputKind / Gradable           which input objects are graded at all, which are refused with a ConfigError
     Br(msg)                        line breaks rendered as <br/>

   IMPLEMENTATION SHAPED (one action per block of ItemGrader.__call__ / AbstractGrader.__call__, current code):
     Start -> [Infer] -> Ensure -> Check -> ([EvalFn -> MathEval -> [SumCheck] ->] Wrap | Post) -> returned / escaped
     The environment decides what the grading step does: Return, or Raise(c, msg) for every class c of Errors!Tree
     and every outsider.  For grader kinds whose failure starts inside a user function (FormulaGrader / SumGrader
     with a failing user function) or inside an arithmetic operator, the two recasting layers of the expression
     evaluator (MathExpression.eval_function, MathExpression.eval) sit between the origin and the wrapper; numpy
     floating-point flags enter through the process-wide error callback (NpHandler).

   TLC checks that the machine satisfies the property-level operator (Refines) and the laws below on every
   reachable state, and that every call ends (<>Finished under weak fairness).

   Messages are sequences over {"w", "NL", "BR"}: a run of ordinary text, a line break, a literal <br/>.          *)
EXTENDS Naturals, Sequences, FiniteSets, TLC, Errors

CONSTANTS Kinds,          \* grader kinds explored (subset of DOMAIN Req)
          CheckFaults,    \* classes the grading step may raise
          InferFaults,    \* classes answer inference may raise (the library itself raises only family classes there)
          Msgs,           \* messages carried by family errors
          OutsiderMsgs,   \* messages carried by outsiders (irrelevant outward; kept small)
          InferMsgs,      \* messages carried by inference failures
          MaxN,           \* most input boxes
          Variants        \* number of concrete realisations per abstract input form (replay only)

(* ------------------------------------------------------------------ messages *)
Br(m) == [i \in DOMAIN m |-> IF m[i] = "NL" THEN "BR" ELSE m[i]]
HasNL(m) == \E i \in DOMAIN m : m[i] = "NL"
Count(m, x) == Cardinality({i \in DOMAIN m : m[i] = x})
TextMsg(s) == [t |-> "text", s |-> s]
GenericMsg(form, names) == [t |-> "generic", plural |-> (form = "textlist"), names |-> names]
RefusalMsg(kind) == [t |-> "refusal", kind |-> kind]
LibMsg == <<"w">>                      \* a fixed library text without line breaks (recast messages, attempt message)

(* ------------------------------------------------------------------ inputs *)
Forms == {"text", "textlist", "nontext", "mixedlist"}
\* what the grader's ensure_text_inputs accepts: one text / a list of texts / either
Req == "item" :> "single" @@ "singlelist" :> "single" @@ "formulafn" :> "single" @@ "formulaop" :> "single"
    @@ "list" :> "multi" @@ "nested" :> "multi"
    @@ "sumfn" :> "either" @@ "either" :> "either"
Via == "item" :> "direct" @@ "singlelist" :> "direct" @@ "list" :> "direct" @@ "nested" :> "direct" @@ "either" :> "direct"
    @@ "formulafn" :> "userfn" @@ "sumfn" :> "userfn" @@ "formulaop" :> "arith"
IsItem(gk) == gk \in {"item", "singlelist", "formulafn", "formulaop"}      \* ItemGrader subclasses (inference prologue)

InputKind(req, form) ==
  IF form = "nontext" THEN "nonText"
  ELSE IF form = "mixedlist" THEN (IF req = "single" THEN "listWhereTextRequired" ELSE "listWithNonText")
  ELSE IF form = "text" THEN (IF req = "multi" THEN "textWhereListRequired" ELSE "text")
  ELSE (* textlist *) (IF req = "single" THEN "listWhereTextRequired" ELSE "listOfText")
InputKinds == {"text", "listOfText", "nonText", "listWithNonText", "listWhereTextRequired", "textWhereListRequired"}
Gradable(kind) == kind \in {"text", "listOfText"}
Names(n) == [i \in 1..n |-> i]         \* the submitted texts, by position

(* ------------------------------------------------------------------ property level *)
NotRun == [k |-> "notrun"]
Ret == [k |-> "return"]
Raised(c, m) == [k |-> "raise", cls |-> c, fam |-> (c \in MITxFamily), msg |-> m]
Escape(c, m) == [k |-> "raise", cls |-> c, msg |-> m]

\* input: [kind, form, names];  inner: Ret | [k |-> "raise", cls, fam, msg] (what the grading step did; fam = the class
\* is in the library's family, passed explicitly so that classes unknown to Errors.tla can be judged from their MRO)
Outward(debug, inner, input) ==
  IF ~Gradable(input.kind) THEN Escape("ConfigError", RefusalMsg(input.kind))
  ELSE IF inner.k = "return" THEN Ret
  ELSE IF debug THEN Escape(inner.cls, TextMsg(inner.msg))                  \* MITxError docstring: simply re-raised
  ELSE IF inner.fam THEN Escape(inner.cls, TextMsg(Br(inner.msg)))
  ELSE Escape("StudentFacingError", GenericMsg(input.form, input.names))

(* ------------------------------------------------------------------ recasting layers of the expression evaluator *)
\* MathExpression.eval_function: a failure inside a (user or built-in) function
RecastFn(o) == IF o.cls \in StudentFacing THEN o
               ELSE IF o.cls = "ZeroDivisionError" THEN Raised("CalcZeroDivisionError", LibMsg)
               ELSE IF o.cls = "OverflowError" THEN Raised("CalcOverflowError", LibMsg)
               ELSE Raised("FunctionEvalError", LibMsg)
\* MathExpression.eval: arithmetic failures anywhere in the tree
RecastEval(o) == IF o.cls = "OverflowError" THEN Raised("CalcOverflowError", LibMsg)
                 ELSE IF o.cls = "ZeroDivisionError" THEN Raised("CalcZeroDivisionError", LibMsg)
                 ELSE o

\* numpy floating-point flags are turned into Python exceptions process-wide (np.seterrcall in expressions.py)
NpHandler == "divide" :> "ZeroDivisionError" @@ "overflow" :> "OverflowError" @@ "invalid" :> "ValueError"
\* where an arithmetic failure outside any function can start: Python float arithmetic, or a numpy flag
ArithOrigins == {[src |-> "python", flag |-> "none", cls |-> "ZeroDivisionError"],
                 [src |-> "python", flag |-> "none", cls |-> "OverflowError"]}
                \cup {[src |-> "numpy", flag |-> f, cls |-> NpHandler[f]] : f \in DOMAIN NpHandler}
\* SummationGraderBase.check: an IntegrationError is re-raised with an explanatory prefix (same class)
Prefixed(m) == IF m # <<>> /\ m[1] = "w" THEN m ELSE <<"w">> \o m       \* adjacent text runs are one run
RecastSum(o) == IF o.cls = "IntegrationError" THEN Raised("IntegrationError", Prefixed(o.msg)) ELSE o

(* ------------------------------------------------------------------ the call as a state machine *)
\* what a grading step that returns hands to the stages after the try block: the result earned credit or not, and
\* its feedback message -- author's text, spelled in the ways that break naive text templating
ResultMsgs == {"none", "plain", "fmt0", "fmtx", "pcts", "pctmap", "bslash", "lbrace", "rbrace", "braces", "nl"}
Returned(credited, rmsg) == [k |-> "return", credited |-> credited, rmsg |-> rmsg]
\* LinearCredit as configured by the instruments: full credit on the first attempt, less afterwards
Reduced(attempt) == attempt >= 2

VARIABLES c,        \* the case: [gk, debug, form, n, v, expect, answers, credit, attempt]
          pc,       \* "start" "infer" "ensure" "check" "evalfn" "matheval" "sumcheck" "wrap" "post" "returned" "escaped"
          origin,   \* where the failure started (user function / operator), before any recasting
          inner,    \* what reaches the wrapper (or escapes outside it)
          esc,      \* what edX observes
          ret,      \* what a returned result carries: [keeps (the feedback message), noted (attempt-credit note added)]
          trail     \* the blocks executed, in order
vars == <<c, pc, origin, inner, esc, ret, trail>>

Cases == {x \in [gk : Kinds, debug : BOOLEAN, form : Forms, n : 1..MaxN, v : 1..Variants,
                 expect : {"none", "given"}, answers : BOOLEAN, credit : {"off", "on", "noattempt"},
                 attempt : 0..3] :
            /\ (x.credit = "on") <=> (x.attempt >= 1)                        \* edX supplies the attempt number, or not
            /\ (x.form \in {"text", "nontext"}) => x.n = 1
            /\ (x.form = "mixedlist") => x.n = 2
            /\ (x.form \in {"text", "textlist"}) => x.v = 1
            /\ (x.gk = "list" /\ x.form = "textlist") => x.n >= 2          \* ListGrader needs at least two answers
            /\ (x.gk = "nested" /\ x.form = "textlist") => x.n >= 3        \* one group of two boxes and one more box
            /\ IF IsItem(x.gk) THEN (~x.answers => x.expect = "given")       \* some answer is always available
               ELSE x.expect = "none" /\ x.answers
            /\ Via[x.gk] # "direct" => (x.credit = "off" /\ x.n = 1 /\ x.answers /\ x.expect = "none")}

Kind(x) == InputKind(Req[x.gk], x.form)
InputOf(x) == [kind |-> Kind(x), form |-> x.form, names |-> Names(x.n)]
Step(name, next) == pc' = next /\ trail' = Append(trail, name) /\ (name # "post" => UNCHANGED ret)
EscapeWith(name, e) == esc' = e /\ Step(name, "escaped")

Init == c \in Cases /\ pc = "start" /\ origin = NotRun /\ inner = NotRun /\ esc = NotRun /\ ret = NotRun /\ trail = <<>>

\* ItemGrader.__call__: inference happens iff an expect value arrives and there are no configured answers
Start == /\ pc = "start"
         /\ Step("start", IF IsItem(c.gk) /\ c.expect = "given" /\ ~c.answers THEN "infer" ELSE "ensure")
         /\ UNCHANGED <<c, origin, inner, esc>>

\* infer_from_expect, schema_answers, post_schema_ans_val -- OUTSIDE the try block of AbstractGrader.__call__
Infer == /\ pc = "infer"
         /\ \/ Step("infer", "ensure") /\ UNCHANGED <<c, origin, inner, esc>>
            \/ \E cl \in InferFaults, m \in InferMsgs :
                 /\ inner' = Raised(cl, m)
                 /\ EscapeWith("infer", Escape(cl, TextMsg(m)))              \* escapes exactly as raised
                 /\ UNCHANGED <<c, origin>>

\* ensure_text_inputs -- also outside the try block; its ConfigError is raised whatever the debug flag says
Ensure == /\ pc = "ensure"
          /\ IF Gradable(Kind(c))
             THEN Step("ensure", "check") /\ UNCHANGED <<c, origin, inner, esc>>
             ELSE EscapeWith("ensure", Escape("ConfigError", RefusalMsg(Kind(c)))) /\ UNCHANGED <<c, origin, inner>>

FaultMsgs(cl) == IF cl \in MITxFamily THEN Msgs ELSE OutsiderMsgs
\* self.check(None, student_input): the environment decides
Check == /\ pc = "check"
         /\ \/ /\ inner' \in (IF c.credit = "on" THEN {Returned(b, m) : b \in BOOLEAN, m \in ResultMsgs} ELSE {Ret})
               /\ Step("check", "post") /\ UNCHANGED <<c, origin, esc>>
            \/ /\ Via[c.gk] = "direct"
               /\ \E cl \in CheckFaults : \E m \in FaultMsgs(cl) :
                    inner' = Raised(cl, m) /\ Step("check", "wrap") /\ UNCHANGED <<c, origin, esc>>
            \/ /\ Via[c.gk] = "userfn"
               /\ \E cl \in CheckFaults : \E m \in FaultMsgs(cl) :
                    origin' = Raised(cl, m) /\ Step("check", "evalfn") /\ UNCHANGED <<c, inner, esc>>
            \/ /\ Via[c.gk] = "arith"
               /\ \E o \in ArithOrigins :
                    /\ o.cls \in CheckFaults
                    /\ origin' = [k |-> "raise", cls |-> o.cls, fam |-> FALSE, msg |-> <<>>, src |-> o.src, flag |-> o.flag]
                    /\ inner' = Raised(o.cls, <<>>) /\ Step("check", "matheval")
                    /\ UNCHANGED <<c, esc>>

EvalFn == /\ pc = "evalfn"
          /\ inner' = RecastFn(origin)
          /\ Step("evalfn", "matheval") /\ UNCHANGED <<c, origin, esc>>
MathEval == /\ pc = "matheval"
            /\ inner' = RecastEval(inner)
            /\ Step("matheval", IF c.gk = "sumfn" THEN "sumcheck" ELSE "wrap") /\ UNCHANGED <<c, origin, esc>>
SumCheck == /\ pc = "sumcheck"
            /\ inner' = RecastSum(inner)
            /\ Step("sumcheck", "wrap") /\ UNCHANGED <<c, origin, esc>>

\* the except clause of AbstractGrader.__call__
Wrap == /\ pc = "wrap"
        /\ EscapeWith("wrap",
             IF c.debug THEN Escape(inner.cls, TextMsg(inner.msg))
             ELSE IF IsA(inner.cls, "MITxError") THEN Escape(inner.cls, TextMsg(Br(inner.msg)))
             ELSE Escape("StudentFacingError", GenericMsg(c.form, Names(c.n))))
        /\ UNCHANGED <<c, origin, inner>>

\* after the try block -- nothing here is protected: key filtering, attempt-based credit (ConfigError when edX passes
\* no attempt number; otherwise grades are scaled and, when credit was reduced for a result that earned some, a note
\* is added to the feedback message WHATEVER that message contains), debug log, format_messages
Post == /\ pc = "post"
        /\ IF c.credit = "noattempt"
           THEN /\ inner' = Raised("ConfigError", LibMsg)
                /\ EscapeWith("post", Escape("ConfigError", TextMsg(LibMsg)))
                /\ UNCHANGED <<c, origin, ret>>
           ELSE /\ Step("post", "returned")
                /\ ret' = IF c.credit = "on"
                          THEN [keeps |-> inner.rmsg, noted |-> (Reduced(c.attempt) /\ inner.credited)]
                          ELSE [keeps |-> "none", noted |-> FALSE]
                /\ UNCHANGED <<c, origin, inner, esc>>

Next == Start \/ Infer \/ Ensure \/ Check \/ EvalFn \/ MathEval \/ SumCheck \/ Wrap \/ Post
Spec == Init /\ [][Next]_vars /\ WF_vars(Next)

(* ------------------------------------------------------------------ laws *)
Finished == pc \in {"returned", "escaped"}
InferFailed == pc = "escaped" /\ trail[Len(trail)] = "infer"      \* the author's expect value was rejected
Result == IF pc = "returned" THEN Ret ELSE esc
Did(name) == \E i \in DOMAIN trail : trail[i] = name

TypeOK == /\ pc \in {"start", "infer", "ensure", "check", "evalfn", "matheval", "sumcheck", "wrap", "post", "returned", "escaped"}
          /\ (pc = "escaped") <=> (esc # NotRun)
          /\ Len(trail) <= 8

\* the headline: with debug off nothing outside the family reaches edX
EscapeFamily == (pc = "escaped" /\ ~c.debug) => esc.cls \in MITxFamily
\* ... and what escapes is student-facing or a configuration error, never the bare root class unless that was raised
EscapeBranch == (pc = "escaped" /\ ~c.debug /\ esc.cls = "MITxError") => inner.cls = "MITxError"
\* an anticipated problem keeps its exact class (not an ancestor, not the generic class)
ClassKept == (pc = "escaped" /\ inner.k = "raise" /\ inner.fam) => esc.cls = inner.cls
\* ... and its message, line breaks rendered
MsgBr == (pc = "escaped" /\ ~c.debug /\ inner.k = "raise" /\ inner.fam /\ Did("wrap"))
            => esc.msg = TextMsg(Br(inner.msg)) /\ ~HasNL(esc.msg.s)
\* an unanticipated failure becomes the generic student-facing error naming every submitted text
GenericNamesInput == (pc = "escaped" /\ ~c.debug /\ inner.k = "raise" /\ ~inner.fam)
                        => /\ esc.cls = "StudentFacingError"
                           /\ esc.msg.t = "generic" /\ esc.msg.names = Names(c.n)
                           /\ esc.msg.plural = (c.form = "textlist")
\* the generic message is used for nothing else
GenericOnlyForOutsiders == (pc = "escaped" /\ esc.msg.t = "generic") => (~c.debug /\ inner.k = "raise" /\ ~inner.fam)
\* wrong input objects are refused, not graded: the grading step is never entered
RefusedNotGraded == /\ (~Gradable(Kind(c)) /\ Finished /\ ~InferFailed) => (pc = "escaped" /\ esc.cls = "ConfigError" /\ ~Did("check"))
                    /\ Did("check") => Gradable(Kind(c))
\* debug on: the inner exception is re-raised untouched
DebugTransparent == (pc = "escaped" /\ c.debug /\ Did("wrap")) => esc = Escape(inner.cls, TextMsg(inner.msg))
\* the machine implements the property-level operator (a rejected expect value is the author's problem and is
\* reported as raised: see InferEscapesAsRaised; the statement only asks that it stays inside the family)
Refines == (Finished /\ ~InferFailed) => Result = Outward(c.debug, IF inner.k = "notrun" THEN Ret ELSE inner, InputOf(c))
InferEscapesAsRaised == InferFailed => esc = Escape(inner.cls, TextMsg(inner.msg)) /\ ~Did("check")
\* a failure that starts inside a function is always anticipated: student-facing, never the generic message, and a
\* student-facing origin keeps class and message
FnFaultAnticipated == (pc = "escaped" /\ origin.k = "raise" /\ ~c.debug /\ Via[c.gk] = "userfn")
                         => /\ esc.cls \in StudentFacing /\ esc.msg.t = "text"
                            /\ (origin.cls \in StudentFacing =>
                                  esc = Escape(origin.cls, TextMsg(Br(IF c.gk = "sumfn" /\ origin.cls = "IntegrationError"
                                                                      THEN Prefixed(origin.msg) ELSE origin.msg))))
                            /\ (origin.cls \notin StudentFacing => esc.cls \in CalcFamily)
\* arithmetic failures: division by zero and overflow are anticipated wherever they start; numpy's "invalid value"
\* (0/0 between arrays) is not, and ends as the generic message
ArithFaults == (pc = "escaped" /\ origin.k = "raise" /\ ~c.debug /\ Via[c.gk] = "arith")
                  => IF origin.cls \in {"ZeroDivisionError", "OverflowError"}
                     THEN esc.cls \in {"CalcZeroDivisionError", "CalcOverflowError"} /\ esc.msg = TextMsg(LibMsg)
                     ELSE esc.cls = "StudentFacingError" /\ esc.msg.t = "generic"
\* the stages after the grading step: for a gradable input with a supplied attempt number (or no attempt credit at
\* all) a grading step that returned is followed by a returned result -- for EVERY feedback message -- and the
\* message is still in it; the note appears exactly when credit was reduced for a credited result
PostReturns == (Finished /\ Did("post") /\ c.credit # "noattempt") => pc = "returned"
PostKeepsMessage == (pc = "returned" /\ c.credit = "on") => (ret.keeps = inner.rmsg /\ (ret.noted <=> (c.attempt >= 2 /\ inner.credited)))
OnlyPostCanFailAfterCheck == (pc = "escaped" /\ Did("post")) => (c.credit = "noattempt" /\ esc.cls = "ConfigError")
\* the order of blocks
TrailShape == Finished => /\ trail[1] = "start"
                          /\ Did("infer") => (IsItem(c.gk) /\ c.expect = "given" /\ ~c.answers)
                          /\ (Did("wrap") => Did("check")) /\ (Did("post") => Did("check"))
                          /\ ~(Did("wrap") /\ Did("post"))
Totality == <>Finished

(* laws about Br alone, evaluated over Msgs *)
BrLaws == \A m \in Msgs : /\ Br(Br(m)) = Br(m) /\ ~HasNL(Br(m)) /\ Len(Br(m)) = Len(m)
                          /\ Count(Br(m), "BR") = Count(m, "BR") + Count(m, "NL")
                          /\ Count(Br(m), "w") = Count(m, "w")
                          /\ (~HasNL(m) => Br(m) = m)
\* the six input kinds of the statement are exactly what (requirement, form) produces; two of them are gradable
KindLaws == /\ {InputKind(r, f) : r \in {"single", "multi", "either"}, f \in Forms} = InputKinds
            /\ \A r \in {"single", "multi", "either"} : Gradable(InputKind(r, "text")) <=> r # "multi"
            /\ \A r \in {"single", "multi", "either"} : Gradable(InputKind(r, "textlist")) <=> r # "single"
            /\ \A r \in {"single", "multi", "either"} : ~Gradable(InputKind(r, "nontext")) /\ ~Gradable(InputKind(r, "mixedlist"))
ASSUME BrLawsHold == BrLaws
ASSUME KindLawsHold == KindLaws
=============================================================================
