INIT Init
NEXT Next
