SPECIFICATION Spec
CONSTANTS
  Configured = TRUE
  MaxCalls = 3
  CommitAfterValidation = TRUE
  ResetLogAtStart = TRUE
INVARIANT TypeOK
INVARIANT SameAsFresh
INVARIANT NoStaleLog
INVARIANT CleanBetweenCalls
INVARIANT ConfiguredIgnoresExpect
PROPERTY EveryCallEnds
