INIT Init
NEXT Next
