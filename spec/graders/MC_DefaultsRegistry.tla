------------------------- MODULE MC_DefaultsRegistry -------------------------
(* Model instance for DefaultsRegistry: five classes of the real hierarchy, three options, every history of register /
   clear operations up to MaxOps.  Each reachable state carries its history and, for the three instantiable classes,
   the documented outcome of constructing an object with each of a few explicit configurations; the dump is replayed
   into the real classes (engine/adapters/defaults.py).                                                          *)
EXTENDS Integers, Sequences, FiniteSets, TLC
CONSTANTS MaxOps

MClass == {"AbstractGrader", "ItemGrader", "StringGrader", "FormulaGrader", "NumericalGrader"}
MParent == [c \in MClass |-> CASE c = "AbstractGrader" -> "root"
                               [] c = "ItemGrader" -> "AbstractGrader"
                               [] c = "StringGrader" -> "ItemGrader"
                               [] c = "FormulaGrader" -> "ItemGrader"
                               [] c = "NumericalGrader" -> "FormulaGrader"]
MOpts == {"debug", "wrong_msg", "tolerance"}
MVals == [k \in MOpts |-> CASE k = "debug" -> {"on"} [] k = "wrong_msg" -> {"w1", "w2"} [] k = "tolerance" -> {"t1", "t2"}]
MSchema == [c \in MClass |-> CASE c = "AbstractGrader" -> {"debug"}
                               [] c \in {"ItemGrader", "StringGrader"} -> {"debug", "wrong_msg"}
                               [] OTHER -> {"debug", "wrong_msg", "tolerance"}]
MDefault == [c \in MClass |-> [k \in MOpts |-> CASE k = "debug" -> "off"
                                                 [] k = "wrong_msg" -> "empty"
                                                 [] k = "tolerance" -> IF c = "NumericalGrader" THEN "ng_tol" ELSE "fg_tol"]]

VARIABLES reg, h, obs
R == INSTANCE DefaultsRegistry WITH Class <- MClass, Parent <- MParent, Opts <- MOpts, Vals <- MVals, Schema <- MSchema,
                                    Default <- MDefault

Instantiable == {"StringGrader", "FormulaGrader", "NumericalGrader"}
Explicits(c) == {R!Nothing, ("wrong_msg" :> "we")} \cup (IF "tolerance" \in MSchema[c] THEN {("tolerance" :> "te"), ("debug" :> "off")} ELSE {})
\* what the adapter reads from the dump: every construction the state is observed through
Observations == UNION {{[c |-> c, E |-> E, out |-> R!Construct(c, E)] : E \in Explicits(c)} : c \in Instantiable}

Init == R!Init /\ obs = Observations
Next == Len(h) < MaxOps /\ R!Next /\ obs' = Observations'
Spec == Init /\ [][Next]_<<reg, h, obs>>

TypeOK == R!TypeOK
InvPerClass == R!InvPerClass
InvExplicitWins == R!InvExplicitWins
InvDocumentedDefault == R!InvDocumentedDefault
InvMostDerivedWins == R!InvMostDerivedWins
StepIsolation == R!StepIsolation
StepClear == R!StepClear
StepStacks == R!StepStacks
\* not vacuous (each must be REFUTED by TLC, see MC_DefaultsRegistry_vacuity.cfg): some history makes a construction fail,
\* some history lets a subclass registration shadow its parent's
NeverRefuses == \A o \in obs : o.out.k = "object"
NeverShadows == \A c \in MClass : \A k \in MOpts : Len(R!Sources(c, k)) <= 1
=============================================================================
