--------------------------- MODULE AnticipatedText ---------------------------
(* C02, second sentence: "an anticipated problem keeps its specific error class and message".

   Which problems are anticipated, and which class is theirs, is documented by the exception classes themselves
   (helpers/calc/exceptions.py): unbalanced brackets -> UnbalancedBrackets, an expression that cannot be parsed ->
   UnableToParse, a variable / function / suffix that is not available to the student -> UndefinedVariable /
   UndefinedFunction, a wrong number of arguments -> ArgumentError, a division by zero -> CalcZeroDivisionError.
   WHICH of them a given formula exhibits is decided by the formula grammar and evaluator specification
   (ExprGrammar / ExprEval: unbalanced > unparsable > undefined variable > undefined function > undefined suffix >
   evaluation), instantiated here for two scopes: the student's, and the author's (who may also use the
   instructor-only variable).  Nothing here looks at how a name is spelled: names are atoms, so spellings full of
   braces, format fields ({0}, {x}), percent signs or backslashes cannot change the class (SpellingIrrelevant).

   Anticipated(ids) is the class the student must see for the token string `ids`, or "none" when the string
   evaluates (or lies outside what ExprEval predicts).  Echo(ids): the string is something the author may have
   written as the answer (it evaluates in the author's scope) although the student may not submit it.            *)
EXTENDS Integers, Sequences, FiniteSets, TLC, Errors

\* the scopes (spellings chosen to be hostile to any text templating between the parser and edX)
StudentVars == ("x_{0}" :> <<5, 1>>)
AuthorVars == ("x_{0}" :> <<5, 1>> @@ "q_{x}" :> <<3, 1>>)          \* q_{x}: instructor-only variable
PlainStudentVars == ("y_1" :> <<5, 1>>)
Funcs == ("f" :> 1)
Sufs == ("%" :> <<1, 100>>)
S == INSTANCE ExprEval WITH VarVal <- StudentVars, FuncArity <- Funcs, SufVal <- Sufs
A == INSTANCE ExprEval WITH VarVal <- AuthorVars, FuncArity <- Funcs, SufVal <- Sufs
P == INSTANCE ExprEval WITH VarVal <- PlainStudentVars, FuncArity <- Funcs, SufVal <- Sufs

\* token ids (what the dump carries) -> token records; the adapter renders the spellings
TokOf == [ n2 |-> S!Num(2, 1), n0 |-> S!Num(0, 1), pct |-> S!Pct,
           v |-> S!Name("x_{0}", FALSE),        \* known variable whose spelling is a positional format field
           z |-> S!Name("q_{x}", FALSE),        \* instructor-only variable, a keyword format field
           u |-> S!Name("X_{0}", FALSE),        \* unknown name that differs from a known one by case only
           f |-> S!Name("f", TRUE),             \* known function of one argument
           h |-> S!Name("F", TRUE),             \* unknown function (case variant of a known one)
           lp |-> S!Op("("), rp |-> S!Op(")"), lb |-> S!Op("["), rb |-> S!Op("]"), cm |-> S!Op(","),
           pl |-> S!Op("+"), dv |-> S!Op("/"),
           bs |-> S!Op("\\") ]                  \* a character the formula language does not have
PlainTokOf == [ TokOf EXCEPT !.v = S!Name("y_1", FALSE), !.z = S!Name("q_1", FALSE), !.u = S!Name("Y_1", FALSE),
                             !.bs = S!Op("$") ]
Ids == DOMAIN TokOf
Toks(ids) == [i \in 1..Len(ids) |-> TokOf[ids[i]]]
PlainToks(ids) == [i \in 1..Len(ids) |-> PlainTokOf[ids[i]]]

ClassOf == [ unbalanced |-> "UnbalancedBrackets", parse |-> "UnableToParse", undefvar |-> "UndefinedVariable",
             undeffunc |-> "UndefinedFunction", undefsuf |-> "UndefinedFunction",
             zerodiv |-> "CalcZeroDivisionError", argerr |-> "ArgumentError" ]
StudentSees(ids) == S!Outcome(Toks(ids)).c
AuthorSees(ids) == A!Outcome(Toks(ids)).c
Anticipated(ids) == LET k == StudentSees(ids) IN IF k \in DOMAIN ClassOf THEN ClassOf[k] ELSE "none"
Echo(ids) == AuthorSees(ids) = "value" /\ StudentSees(ids) = "undefvar"
Occurs(ids, x) == \E i \in 1..Len(ids) : ids[i] = x

(* ---- anticipated problems outside the formula language: text that is not a formula at all reaches other message
   builders (interval brackets, the dummy variable of a sum, blank / surplus items of a delimited list, the author's own
   message for a text that fails validation).  The class is the documented one; the spellings are those that break
   naive text templating. *)
Spellings == {"fmt0", "fmtx", "pcts", "pctmap", "bslash", "lbrace", "rbrace", "braces", "pct", "nl"}
TextSituations == [ intervalOpen |-> "InvalidInput", intervalClose |-> "InvalidInput", sumVariable |-> "InvalidInput",
                    listBlank |-> "MissingInput", listLength |-> "MissingInput",
                    stringPattern |-> "InvalidInput", stringShort |-> "InvalidInput",
                    \* texts that are too short once the white space around them is gone (the "spelling" selects one of ten
                    \* paddings: blanks, tabs, line breaks at either end of a short fragment).  An interval of fewer than
                    \* five characters cannot be read: the library refuses it as unreadable with a ConfigError (the text of
                    \* intervalgrader.py; the documentation page is silent about this case)
                    intervalShort |-> "ConfigError", listBlankPadded |-> "MissingInput", stringShortPadded |-> "InvalidInput" ]
(* ---- anticipated problems of array arithmetic (math_array.py, the C14 statement): the formula parses and every name is
   known, the operation is one linear algebra does not have.  The documented class is MathArrayError (its subclass
   MathArrayShapeError where a shape is at fault -- a subclass keeps the class), CalcError for the ambiguous product of
   three vectors.  For these the "spelling" selects one of ten concrete formulas of the kind (rendered by the adapter:
   literal and named operands, real / complex / integer-valued-but-complex exponents, ...). *)
ArraySituations == [ arrayPowNonInt |-> "MathArrayError", arrayPowComplex |-> "MathArrayError", arrayPowArray |-> "MathArrayError",
                     arrayAddScalar |-> "MathArrayError", arrayShape |-> "MathArrayError", arrayDivide |-> "MathArrayError",
                     notSquarePow |-> "MathArrayError", singularInverse |-> "MathArrayError", tripleVector |-> "CalcError" ]
Situations == TextSituations @@ ArraySituations
OtherInFamily == /\ \A x \in DOMAIN TextSituations : TextSituations[x] \in MITxFamily \ CalcFamily
                 /\ \A x \in DOMAIN ArraySituations : ArraySituations[x] \in StudentFacing \cap CalcFamily
ASSUME OtherInFamily

(* ---- laws (checked by TLC on every enumerated string) *)
AnticipatedInFamily(ids) == Anticipated(ids) # "none" => Anticipated(ids) \in CalcFamily /\ Anticipated(ids) \in StudentFacing
SpellingIrrelevant(ids) == P!Outcome(PlainToks(ids)).c = StudentSees(ids)
BracketsFirst(ids) == ~S!Balanced(Toks(ids)) => Anticipated(ids) = "UnbalancedBrackets"
\* the scope does not change what is syntax; the author's scope only removes undefined-variable outcomes
SyntaxScopeFree(ids) == (StudentSees(ids) \in {"unbalanced", "parse"}) <=> (AuthorSees(ids) \in {"unbalanced", "parse"})
AuthorSeesMore(ids) == AuthorSees(ids) = "undefvar" => StudentSees(ids) = "undefvar"
EchoUsesForbiddenName(ids) == Echo(ids) => Occurs(ids, "z")
=============================================================================
