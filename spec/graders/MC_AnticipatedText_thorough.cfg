INIT Init
NEXT Next
CONSTANTS
  MaxLen = 5
INVARIANT LawInFamily
INVARIANT LawSpelling
INVARIANT LawBracketsFirst
INVARIANT LawSyntaxScopeFree
INVARIANT LawAuthorSeesMore
INVARIANT LawEcho
