INIT Init
NEXT Next
CONSTANTS
  Part = "shared"
  MaxAlts = 1
  MaxSamples = 1
  MaxCalls = 1
  Correlated = FALSE
  AnsOpts = {}
  CmpReturns = {}
  LeafAns = {"a0", "a12", "a1"}
  LeafCmp = {"T", "P", "F"}
  TableGrades = {}
  ListAns = {}
  MaxItems = 1
  Layouts = {"flat2"}
  TableOnly = {"g1212"}
  AttOpts = {"none", "c12", "c1e4"}
  OkRecomputed = TRUE
  ParentForcesChildDebug = FALSE
  PreOpts = {}
  AliasedDefaults = FALSE
INVARIANT InvStage
INVARIANT InvRaisedNoVerdict
INVARIANT InvGradesInUnit
INVARIANT InvStaleOk
INVARIANT InvStripped
INVARIANT InvDebugOnlyAtAppend
INVARIANT InvDebugShown
INVARIANT InvNoLeak
INVARIANT InvVerdictAgrees
INVARIANT InvListOrder
INVARIANT InvAllOrNothing
INVARIANT InvAloneSameAsInList
INVARIANT InvChildDebugAsConfigured
INVARIANT InvFamilyDebugAsConfigured
INVARIANT InvReturnedWellFormed
