INIT Init
NEXT Next
CONSTANTS
  Part = "shared"
  MaxAlts = 1
  MaxSamples = 1
  MaxCalls = 1
  Correlated = FALSE
  AnsOpts = {}
  CmpReturns = {}
  LeafAns = {"a1"}
  LeafCmp = {"T", "F"}
  TableGrades = {}
  ListAns = {}
  MaxItems = 1
  Layouts = {"flat2"}
  TableOnly = {"g1212"}
  AttOpts = {"none"}
  OkRecomputed = TRUE
  ParentForcesChildDebug = TRUE
  PreOpts = {}
  AliasedDefaults = FALSE
INVARIANT InvReturnedWellFormed
