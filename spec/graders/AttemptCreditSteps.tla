-------------------------- MODULE AttemptCreditSteps --------------------------
(* C17, implementation-shaped model: the procedure that applies attempt-based credit to a finished result, one action
   per code block (missing-attempt check, clamp, ask the schedule, early exit at full credit, loop over the entries,
   message).  TLC checks that every terminated run returns exactly the documented result AttemptCredit!Canonical --
   hence a result the property-level Judge accepts --, that the loop invariant behind the "was anything reduced" flag
   holds, that the debug-log lines are the expected ones, and that every run terminates.
   Conformance of the code to this module is monitored through the grader's own debug log (drift only). *)
EXTENDS AttemptCredit

E(g, m) == [g |-> g, m |-> m]
StepSchedules == { Linear(1, 4, 2000), Linear(2, 3, 0), Linear(1, 1, 10000), Geometric(50), Geometric(0), Geometric(100),
                   Reciprocal, Author(<<5000>>, "float"), Author(<<10000, 0>>, "int"), Author(<<10000, 3333, 6667, 1>>, "float"),
                   Author(<<9999, 625>>, "float"),
                   Author9(<<999990000, 999949000, 999950000, 49999>>, "float") }   \* 0.99999 rounds to 1, 0.999949 does not
StepAttempts == {-2, 0, 1, 2, 3, 4, 9}
Grades == {0, 1, 3333, 10000}
StepBases == {<<E(g, m)>> : g \in Grades, m \in BOOLEAN}
             \cup {<<E(g1, FALSE), E(g2, TRUE)>> : g1 \in Grades, g2 \in Grades}
             \cup {<<E(0, FALSE), E(0, TRUE), E(0, FALSE)>>, <<E(0, FALSE), E(10000, TRUE), E(3333, FALSE)>>}
Cases == [s : StepSchedules, n : StepAttempts, missing : BOOLEAN, flag : BOOLEAN, base : StepBases]

VARIABLES case,      \* the call being processed (never changes)
          pc,        \* "start", "clamp", "credit", "scale", "message", "done", "config_error"
          att,       \* attempt number after clamping (0 = not yet known)
          cred,      \* credit in 1e-4 units (-1 = not yet known)
          i,         \* next entry to process
          ents,      \* sequence of [g8, ok] being rewritten in place
          changed,   \* the code's changed_result flag
          note,      \* [on, n, p]
          log        \* debug-log lines written by this procedure
vars == <<case, pc, att, cred, i, ents, changed, note, log>>

NoNote == [on |-> FALSE, n |-> 0, p |-> 0]
Init == /\ case \in Cases
        /\ pc = "start" /\ att = 0 /\ cred = -1 /\ i = 1 /\ changed = FALSE /\ note = NoNote /\ log = <<>>
        /\ ents = [k \in DOMAIN case.base |-> [g8 |-> case.base[k].g * Unit, ok |-> OkOf4(case.base[k].g)]]

CheckMissing == /\ pc = "start"
                /\ pc' = IF case.missing THEN "config_error" ELSE "clamp"
                /\ UNCHANGED <<case, att, cred, i, ents, changed, note, log>>
Clamp == /\ pc = "clamp"
         /\ att' = (IF case.n < 1 THEN 1 ELSE case.n)
         /\ log' = Append(log, <<"attempt", att'>>)
         /\ pc' = "credit"
         /\ UNCHANGED <<case, cred, i, ents, changed, note>>
AskSchedule == /\ pc = "credit"
               /\ cred' = Value(case.s, att)
               /\ IF cred' = Unit THEN pc' = "done" /\ log' = log                    \* full credit: nothing is touched
                  ELSE pc' = "scale" /\ log' = Append(log, <<"max", cred'>>)
               /\ UNCHANGED <<case, att, i, ents, changed, note>>
ScaleOne == /\ pc = "scale" /\ i <= Len(ents)
            /\ IF ents[i].g8 > 0
               THEN LET g == case.base[i].g * cred IN
                    /\ ents' = [ents EXCEPT ![i] = [g8 |-> g, ok |-> OkOf8(g)]]
                    /\ changed' = TRUE
               ELSE UNCHANGED <<ents, changed>>
            /\ i' = i + 1
            /\ UNCHANGED <<case, pc, att, cred, note, log>>
ScaleDone == /\ pc = "scale" /\ i > Len(ents)
             /\ pc' = "message"
             /\ UNCHANGED <<case, att, cred, i, ents, changed, note, log>>
Message == /\ pc = "message"
           /\ note' = IF case.flag /\ changed THEN [on |-> TRUE, n |-> att, p |-> Percent(cred)] ELSE NoNote
           /\ pc' = "done"
           /\ UNCHANGED <<case, att, cred, i, ents, changed, log>>
Next == CheckMissing \/ Clamp \/ AskSchedule \/ ScaleOne \/ ScaleDone \/ Message
Spec == Init /\ [][Next]_vars /\ WF_vars(Next)

\* ------------------------------------------------------------------ what TLC checks
TypeOK == /\ pc \in {"start", "clamp", "credit", "scale", "message", "done", "config_error"}
          /\ att >= 0 /\ cred >= -1 /\ cred <= Unit /\ i \in 1..(Len(ents) + 1) /\ changed \in BOOLEAN
          /\ \A k \in DOMAIN ents : ents[k].g8 >= 0 /\ ents[k].g8 <= Unit2 /\ ents[k].ok = OkOf8(ents[k].g8)
\* the documented result for this call, in the shape of this module's variables
Expected == Canonical(case.base, Value(case.s, Eff(case.n)), case.n, case.flag)
Refines == pc = "done" =>
             /\ \A k \in DOMAIN ents : ents[k].g8 = Expected.entries[k].g8 /\ ents[k].ok = Expected.entries[k].ok
             /\ note.on = (Expected.notes = 1)
             /\ note.on => note.n = Expected.noteN /\ note.p = Expected.noteP
\* ... and therefore accepted by the property-level judge
ObsOfState == [raised |-> "none",
               rawall |-> FALSE,
               entries |-> [k \in DOMAIN ents |-> [g8 |-> ents[k].g8, exact |-> TRUE, ok |-> ents[k].ok, kept |-> TRUE,
                                                   lt |-> ents[k].g8 < case.base[k].g * Unit, is0 |-> ents[k].g8 = 0,
                                                   is1 |-> ents[k].g8 = Unit2]],
               notes |-> IF note.on THEN 1 ELSE 0, noteN |-> note.n, noteP |-> note.p, notePexact |-> TRUE]
JudgedOK == pc = "done" => Judge(case.base, [lo |-> Raw9(case.s, Eff(case.n)), hi |-> Raw9(case.s, Eff(case.n))], case.n, case.flag, ObsOfState) = "ok"
MissingIsConfigError == (pc = "config_error" => case.missing) /\ (case.missing => pc \in {"start", "config_error"})
\* loop invariant of the flag: it is set iff a positive grade has been processed; processed entries are final,
\* unprocessed entries are untouched
LoopInvariant == pc \in {"scale", "message"} =>
                   /\ changed = (\E k \in 1..(i - 1) : case.base[k].g > 0)
                   /\ \A k \in 1..(i - 1) : ents[k].g8 = NewGrade8(case.base[k], cred)
                   /\ \A k \in i..Len(ents) : ents[k].g8 = case.base[k].g * Unit
\* below full credit "a positive grade was processed" and "a grade was reduced" are the same thing
FlagMeansReduced == pc = "message" => (changed <=> Reduced(case.base, cred))
LogOK == pc = "done" => log = ExpectedLog(cred, case.n)
NeverAsksBelowOne == pc \notin {"start", "clamp", "config_error"} => att >= 1
Terminates == <>(pc \in {"done", "config_error"})
=============================================================================
