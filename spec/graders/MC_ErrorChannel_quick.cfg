INIT Init
NEXT Next
CONSTANTS
  Kinds <- AllKinds
  CheckFaults <- EveryClass
  InferFaults <- LibInferFaults
  Msgs <- MsgsQuick
  OutsiderMsgs <- MsgsOutsider
  InferMsgs <- MsgsNoNL
  MaxN = 3
  Variants = 2
INVARIANT TypeOK
INVARIANT EscapeFamily
INVARIANT EscapeBranch
INVARIANT ClassKept
INVARIANT MsgBr
INVARIANT GenericNamesInput
INVARIANT GenericOnlyForOutsiders
INVARIANT RefusedNotGraded
INVARIANT DebugTransparent
INVARIANT Refines
INVARIANT InferEscapesAsRaised
INVARIANT FnFaultAnticipated
INVARIANT ArithFaults
INVARIANT TrailShape
INVARIANT PostReturns
INVARIANT PostKeepsMessage
INVARIANT OnlyPostCanFailAfterCheck
