------------------------- MODULE DefaultsRegistryTrace -------------------------
(* Code -> spec binding for DefaultsRegistry (growth beyond the listed properties): every record is one random history
   of register_defaults / clear_registered_defaults calls run on the real classes (1-9 operations), followed by three
   observed constructions (class, explicit options, outcome, the three options of the resulting config).  The registry
   the history leaves is computed by DefaultsRegistry's declarative reading (Replay per class) and each observation
   must equal DefaultsRegistry!Construct.   Clauses: construct (index of the observation).                       *)
EXTENDS Integers, Sequences, FiniteSets, TLC, Json, IOUtils
Trace == ndJsonDeserialize(IOEnv.TRACE_FILE)
VARIABLE l

M == INSTANCE MC_DefaultsRegistry WITH MaxOps <- 0, reg <- 0, h <- <<>>, obs <- {}
Hist(r) == [i \in 1..Len(r.h) |-> IF r.h[i][1] = "clear" THEN [op |-> "clear", c |-> r.h[i][2]]
                                    ELSE [op |-> "register", c |-> r.h[i][2], k |-> r.h[i][3], v |-> r.h[i][4]]]
D(regv, hv) == INSTANCE DefaultsRegistry WITH Class <- M!MClass, Parent <- M!MParent, Opts <- M!MOpts, Vals <- M!MVals,
                                            Schema <- M!MSchema, Default <- M!MDefault, reg <- regv, h <- hv
Nothing == [x \in {} |-> ""]
RegAfter(hv) == [c \in M!MClass |-> D(Nothing, hv)!Replay(D(Nothing, hv)!OpsOn(c), Nothing)]
Pairs(ps) == [k \in {ps[i][1] : i \in DOMAIN ps} |-> LET i == CHOOSE i \in DOMAIN ps : ps[i][1] = k IN ps[i][2]]
Clause(r) ==
  LET hv == Hist(r)
      regv == RegAfter(hv)
      bad == {i \in DOMAIN r.obs :
                LET o == r.obs[i]
                    e == D(regv, hv)!Construct(o.c, Pairs(o.E))
                IN ~(e.k = o.k /\ (e.k = "object" => e.config = Pairs(o.config)))}
  IN IF bad = {} THEN <<>> ELSE <<"construct", CHOOSE i \in bad : \A j \in bad : i <= j>>
Verdict(i) == LET r == Trace[i]
                  cl == Clause(r)
              IN cl = <<>> \/ PrintT(<<"REJECT", r.id, cl>>)
Init == l = 0
Next == /\ l < Len(Trace)
        /\ l' = l + 1
        /\ Verdict(l + 1)
        /\ (l + 1 = Len(Trace)) => PrintT(<<"DONE", Len(Trace)>>)
=============================================================================
