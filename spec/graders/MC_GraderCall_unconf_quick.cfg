SPECIFICATION Spec
CONSTANTS
  Configured = FALSE
  MaxCalls = 3
  CommitAfterValidation = TRUE
  ResetLogAtStart = TRUE
INVARIANT TypeOK
INVARIANT SameAsFresh
INVARIANT NoStaleLog
INVARIANT CleanBetweenCalls
INVARIANT ConfiguredIgnoresExpect
PROPERTY EveryCallEnds
