INIT Init
NEXT Next
CONSTANTS
  Part = "family"
  MaxAlts = 1
  MaxSamples = 1
  MaxCalls = 1
  Correlated = FALSE
  AnsOpts = {"a1"}
  CmpReturns = {"T", "F"}
  LeafAns = {}
  LeafCmp = {}
  TableGrades = {}
  ListAns = {}
  MaxItems = 1
  Layouts = {}
  TableOnly = {"g1212"}
  AttOpts = {"none"}
  OkRecomputed = TRUE
  ParentForcesChildDebug = FALSE
  PreOpts = {"reg", "other", "reg_other"}
  AliasedDefaults = TRUE
INVARIANT InvReturnedWellFormed
