---------------------------- MODULE AttemptCredit ----------------------------
(* C17 -- attempt-based credit scales grades by a bounded, non-increasing schedule.

   Numbers: credits and base grades are 1e-4 fixed point integers (Fixed!Unit = 1), a scaled grade is a product of
   two of them and lives in 1e-8 units (Fixed!Unit2 = 1).

   PROPERTY LEVEL (the only source of verdicts; exactly as loose as the statement)
     ScheduleOK(vals, lo, one)  a sequence of schedule values for attempts 1, 2, ... starts at 1, stays within
                                [lo, 1] and never increases.
     Judge(base, v, n, flag, obs)  obs is what a grader call with attempt n returned, base what the same call
                                returns without the feature, v the schedule's value for the attempt that counts
                                (attempts below 1 count as 1):  every grade is base grade * c, ok is recomputed from
                                the new grade, zero grades stay zero, the original messages survive and the note
                                'Maximum credit for attempt #n is p%.' occurs exactly once iff flag and some grade was
                                reduced, otherwise not at all.  The statement does not say how p is rounded (any p
                                within 0.05 of 100 c is accepted) nor which number is shown for attempts below 1
                                (the supplied one or the one it counts as).
     JudgeMissing(raised)       without an attempt number the call must fail with a ConfigError.

   DESIGN LEVEL (documented formulas; deviations of the code are reported as drift, never as a verdict)
     Cands(s, n) / Value(s, n)  LinearCredit, GeometricCredit, ReciprocalCredit as documented, rounded to 4 decimals.
     Canonical(base, c, n, flag)  the one result the documented implementation returns (note number = counted
                                attempt, p = percentage with one decimal, half even).
   TLC checks that the design level satisfies the property level (laws in MC_AttemptCredit). *)
EXTENDS Fixed, FiniteSets, TLC

Abs(x) == IF x < 0 THEN -x ELSE x

\* ------------------------------------------------------------------ schedules (design level)
Linear(after, steps, min) == [k |-> "linear", after |-> after, steps |-> steps, min |-> min]    \* min in 1e-4 units
Geometric(a) == [k |-> "geometric", a |-> a]                                                     \* factor a / 100
Reciprocal == [k |-> "reciprocal"]
Author(vals, ty) == [k |-> "author", vals |-> vals, ty |-> ty]   \* author-defined callable: attempt n -> vals[min(n, Len(vals))], returning ty ("int" or "float")
Off == [k |-> "off"]                                      \* attempt_based_credit = None
IsBuiltin(s) == s.k \in {"linear", "geometric", "reciprocal"}

\* LinearCredit: full credit up to and including attempt `after`; then `steps` equal decrements down to `min`, which
\* is reached at attempt after + steps and kept from then on.  On the slope the exact value is
\* 1 + (min - 1) * st / steps = (Unit * (steps - st) + min * st) / (Unit * steps),  st = n - after.
LinearNum(s, n) == Unit * (s.steps - (n - s.after)) + s.min * (n - s.after)
LinearCands(s, n) == IF n <= s.after THEN {Unit}
                     ELSE IF n - s.after >= s.steps THEN {s.min}
                     ELSE RoundCands(LinearNum(s, n), s.steps)
LinearValue(s, n) == IF n <= s.after THEN Unit
                     ELSE IF n - s.after >= s.steps THEN s.min
                     ELSE RoundHalfEven(LinearNum(s, n), s.steps)

\* GeometricCredit: factor^(n-1), factor = a / 100, computed exactly with big naturals
GeomScaled(a, e) == PowScaled(BigPowSmall(a, e), e)                                  \* e >= 2
GeomCandsFromPow(pow, a, e) == IF e = 0 THEN {Unit} ELSE IF e = 1 THEN {a * 100}       \* pow = a^e
                               ELSE LET x == PowScaled(pow, e) IN BigRoundCands(x.d, x.k)
GeometricCands(a, n) == GeomCandsFromPow(BigPowSmall(a, n - 1), a, n - 1)
GeometricValue(a, n) == LET e == n - 1 IN
                        IF e = 0 THEN Unit ELSE IF e = 1 THEN a * 100
                        ELSE LET x == GeomScaled(a, e) IN BigRoundHalfEven(x.d, x.k)

\* ReciprocalCredit: 1 / n
ReciprocalCands(n) == RoundCands(Unit, n)
ReciprocalValue(n) == RoundHalfEven(Unit, n)

AuthorValue(s, n) == s.vals[IF n > Len(s.vals) THEN Len(s.vals) ELSE n]
\* an author-defined callable may return ANY number: values with up to 9 decimals, in 1e-9 units (Fine per 1e-4 unit).
\* The documented procedure uses the value rounded to 4 decimals.
Fine == 100000
Author9(vals9, ty) == [k |-> "authorfine", vals9 |-> vals9, ty |-> ty]
Author9Raw(s, n) == s.vals9[IF n > Len(s.vals9) THEN Len(s.vals9) ELSE n]

\* n >= 1 everywhere below (the grader clamps before it asks the schedule)
Cands(s, n) == CASE s.k = "linear" -> LinearCands(s, n)
                 [] s.k = "geometric" -> GeometricCands(s.a, n)
                 [] s.k = "reciprocal" -> ReciprocalCands(n)
                 [] s.k = "author" -> {AuthorValue(s, n)}
                 [] s.k = "authorfine" -> RoundCands(Author9Raw(s, n), Fine)
                 [] s.k = "off" -> {Unit}
Value(s, n) == CASE s.k = "linear" -> LinearValue(s, n)
                 [] s.k = "geometric" -> GeometricValue(s.a, n)
                 [] s.k = "reciprocal" -> ReciprocalValue(n)
                 [] s.k = "author" -> AuthorValue(s, n)
                 [] s.k = "authorfine" -> RoundHalfEven(Author9Raw(s, n), Fine)
                 [] s.k = "off" -> Unit
\* what the schedule returns, in 1e-9 units (built-in schedules and 4-decimal tables return grid values)
Raw9(s, n) == IF s.k = "authorfine" THEN Author9Raw(s, n) ELSE Value(s, n) * Fine
Lo(s) == IF s.k = "linear" THEN s.min ELSE 0

\* first attempt at which a sequence of observed values (attempts 1, 2, ...) leaves the documented candidates, 0 if
\* none.  The geometric case carries the power along instead of recomputing it for every attempt.
FirstOffFormula(s, vals) ==
    IF s.k = "geometric"
    THEN FoldLeft(LAMBDA acc, n : IF acc.bad # 0 THEN acc
                                  ELSE [pow |-> BigMulSmall(acc.pow, s.a),
                                        bad |-> IF vals[n] \in GeomCandsFromPow(acc.pow, s.a, n - 1) THEN 0 ELSE n],
                  [pow |-> BigOne, bad |-> 0], [n \in 1..Len(vals) |-> n]).bad
    ELSE LET bad == {n \in 1..Len(vals) : vals[n] \notin Cands(s, n)}
         IN IF bad = {} THEN 0 ELSE CHOOSE n \in bad : \A m \in bad : n <= m

\* ------------------------------------------------------------------ property level: schedules
FirstIsOne(vals, one) == Len(vals) >= 1 => vals[1] = one
Bounded(vals, lo, one) == \A i \in DOMAIN vals : lo <= vals[i] /\ vals[i] <= one
NonIncreasing(vals) == \A i \in 1..(Len(vals) - 1) : vals[i + 1] <= vals[i]
ScheduleOK(vals, lo, one) == FirstIsOne(vals, one) /\ Bounded(vals, lo, one) /\ NonIncreasing(vals)
\* first broken clause, "ok" if none (for the trace specification)
ScheduleVerdict(vals, lo, one, firstIsExactlyOne) ==
    IF ~(firstIsExactlyOne /\ FirstIsOne(vals, one)) THEN "first_not_one"
    ELSE IF ~Bounded(vals, lo, one) THEN "out_of_bounds"
    ELSE IF ~NonIncreasing(vals) THEN "increasing"
    ELSE "ok"

\* ------------------------------------------------------------------ property level: applying the credit
\* base result: sequence of entries [g |-> grade in 1e-4 units, m |-> has a message]; a single-input result is the
\* one-entry sequence with form = "single"
Eff(n) == IF n < 1 THEN 1 ELSE n                               \* attempts below 1 count as 1
OkOf8(g8) == IF g8 = 0 THEN "false" ELSE IF g8 = Unit2 THEN "true" ELSE "partial"
OkOf4(g) == IF g = 0 THEN "false" ELSE IF g = Unit THEN "true" ELSE "partial"
NewGrade8(e, c) == IF e.g > 0 THEN e.g * c ELSE 0              \* positive grades are multiplied, zero stays zero
Reduced(base, c) == \E i \in DOMAIN base : NewGrade8(base[i], c) < base[i].g * Unit
NoteDue(base, c, flag) == flag /\ Reduced(base, c)

\* The schedule's value v is known as an interval [v.lo, v.hi] in 1e-9 units (lo = hi when the value has at most 9
\* decimals).  The statement says grades are multiplied by "the schedule's value"; the documented procedure multiplies
\* by the value rounded to 4 decimals.  Both readings are accepted: either all grades are base * c for one 4-decimal
\* rounding c of v (both neighbours at a tie), or all grades equal base * v itself (obs.rawall, a fact established by
\* the adapter in floating point).  Whether "some grade was reduced" is decided on what was actually returned:
\* entry.lt says the returned grade is below the base grade.  So a value such as 0.99999, which the procedure rounds
\* to 1, must leave the grades alone AND must not produce the note.
V(c) == [lo |-> c * Fine, hi |-> c * Fine]
CredsOf(v) == RoundCands(v.lo, Fine) \cup RoundCands(v.hi, Fine)
OkObs(e) == IF e.is0 THEN "false" ELSE IF e.is1 THEN "true" ELSE "partial"
FitsCredit(base, c, obs) == \A i \in DOMAIN base : LET e == obs.entries[i] g == NewGrade8(base[i], c) IN
                               e.exact /\ e.g8 = g /\ e.lt = (g < base[i].g * Unit) /\ e.is0 = (g = 0) /\ e.is1 = (g = Unit2)
ObsReduced(obs) == \E i \in DOMAIN obs.entries : obs.entries[i].lt
\* observation: [raised, rawall, entries : Seq([g8, exact, ok, kept, lt, is0, is1]), notes (number of occurrences of the
\* note text in the whole result), noteN, noteP (p in 0.01 percent units = 1e-4 credit units), notePexact]
Judge(base, v, n, flag, obs) ==
    IF obs.raised # "none" THEN "raised"
    ELSE IF Len(obs.entries) # Len(base) THEN "length"
    ELSE IF \E i \in DOMAIN base : base[i].g = 0 /\ ~(obs.entries[i].exact /\ obs.entries[i].g8 = 0 /\ obs.entries[i].is0) THEN "zero_changed"
    ELSE IF ~(obs.rawall \/ \E c \in CredsOf(v) : FitsCredit(base, c, obs)) THEN "grade"
    ELSE IF \E i \in DOMAIN base : obs.entries[i].ok # OkObs(obs.entries[i]) THEN "ok_not_recomputed"
    ELSE IF \E i \in DOMAIN base : ~obs.entries[i].kept THEN "message_lost"
    ELSE IF flag /\ ObsReduced(obs) /\ obs.notes = 0 THEN "note_missing"
    ELSE IF ~(flag /\ ObsReduced(obs)) /\ obs.notes > 0 THEN "note_unexpected"
    ELSE IF obs.notes > 1 THEN "note_repeated"
    ELSE IF obs.notes = 1 /\ obs.noteN \notin {n, Eff(n)} THEN "note_attempt_number"
    ELSE IF obs.notes = 1 /\ ~(obs.notePexact /\ obs.noteP >= 0 /\ obs.noteP <= 2 * Unit
                                /\ (\/ \E c \in CredsOf(v) : Abs(obs.noteP - c) <= 5
                                    \/ Abs(obs.noteP * Fine - v.lo) <= 5 * Fine)) THEN "note_percentage"
    ELSE "ok"
JudgeMissing(raised) == IF raised = "ConfigError" THEN "ok" ELSE "missing_attempt_not_config_error"

\* ------------------------------------------------------------------ design level: the documented result
Percent(c) == 10 * RoundHalfEven(c, 10)                        \* one decimal of a percent, in 0.01 percent units
Canonical(base, c, n, flag) ==
    [raised |-> "none",
     rawall |-> FALSE,                                        \* the documented result stands on the rounded reading
     entries |-> [i \in DOMAIN base |-> LET g == NewGrade8(base[i], c) IN
                                        [g8 |-> g, exact |-> TRUE, ok |-> OkOf8(g), kept |-> TRUE,
                                         lt |-> g < base[i].g * Unit, is0 |-> g = 0, is1 |-> g = Unit2]],
     notes |-> IF NoteDue(base, c, flag) THEN 1 ELSE 0,
     noteN |-> IF NoteDue(base, c, flag) THEN Eff(n) ELSE 0,
     noteP |-> IF NoteDue(base, c, flag) THEN Percent(c) ELSE 0,
     notePexact |-> TRUE]
\* the lines the procedure writes to the grader's debug log: the attempt that counts, then the credit unless it is 1
ExpectedLog(c, n) == <<<<"attempt", Eff(n)>>>> \o (IF c = Unit THEN <<>> ELSE <<<<"max", c>>>>)
Unchanged(base) == Canonical(base, Unit, 1, FALSE)
Grades8(obs) == [i \in DOMAIN obs.entries |-> obs.entries[i].g8]
RECURSIVE SumInts(_)
SumInts(s) == IF s = <<>> THEN 0 ELSE Head(s) + SumInts(Tail(s))
=============================================================================
