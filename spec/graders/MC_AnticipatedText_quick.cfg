INIT Init
NEXT Next
CONSTANTS
  MaxLen = 4
INVARIANT LawInFamily
INVARIANT LawSpelling
INVARIANT LawBracketsFirst
INVARIANT LawSyntaxScopeFree
INVARIANT LawAuthorSeesMore
INVARIANT LawEcho
