--------------------------- MODULE MC_ErrorChannel ---------------------------
(* Model instances for C02.  The machine of ErrorChannel is explored exhaustively; every finished state is one test
   case (case record c, what the environment did, what edX must observe, the blocks executed) that the adapter
   replays through the real __call__ with fault-injecting graders.

   quick / thorough   every class of the tree and every outsider at the grading step; the library's own behaviour at
                      the inference step (family classes, no raw line breaks)
   live               a small instance with fairness: every call ends (<>Finished); liveness checking is kept apart
                      because TLC's liveness pass is single-threaded
   unguarded          the same machine with an environment that may raise ANY class, with any message, while the
                      expect value is inferred.  EscapeFamily is EXPECTED to fail there: the model shows that the
                      region before the try block is not protected (an author-supplied infer_from_expect or
                      attempt_based_credit callable that fails is not wrapped).  Not a verdict: the property
                      quantifies over student submissions, and no student text reaches that region unvalidated. *)
EXTENDS ErrorChannel

AllKinds == DOMAIN Req
QuickKinds == AllKinds
EveryClass == AllClasses                                   \* Errors!MITxFamily \cup Errors!Outsiders
FamilyOnly == MITxFamily
LibInferFaults == {"ConfigError", "UndefinedVariable", "MathArrayShapeError", "InvalidInput"}

MsgsQuick == { <<"w">>, <<"w", "NL", "w">>, <<"NL", "w", "BR", "NL">> }
MsgsThorough == { <<>>, <<"w">>, <<"NL">>, <<"BR">>, <<"w", "NL", "w">>, <<"w", "BR", "w">>, <<"NL", "NL">>,
                  <<"w", "NL", "w", "NL", "w">>, <<"NL", "w", "BR", "NL">>, <<"w", "NL", "NL", "w">>,
                  <<"BR", "NL", "BR">>, <<"w", "NL", "BR", "NL", "w", "NL">> }
MsgsLive == { <<"w", "NL", "w">> }
MsgsOutsider == { <<"w">>, <<"w", "NL", "w">> }
MsgsNoNL == { <<"w">>, <<"w", "BR", "w">> }
MsgsInferAny == { <<"w">>, <<"w", "NL", "w">> }
=============================================================================
