INIT Init
NEXT Next
