SPECIFICATION Spec
CONSTANTS
  MaxAlts = 3
  Cases <- MCCases
INVARIANT TypeOK
INVARIANT HistIsPrefix
INVARIANT Refines
INVARIANT AgreesWithReference
INVARIANT GradedOnlyAfterAll
PROPERTY Terminates
