------------------------- MODULE BestAlternativeLoop -------------------------
(* Implementation-shaped model of ItemGrader.check (one action per code block): the values of all alternatives are
   compared in listing order and their responses collected; the first comparison that raises ends the call; then the
   best score, the responses tied at it and among them the first with a longest message are selected; finally the
   generic wrong_msg is filled in.  TLC checks that every terminating behaviour ends in an outcome the property-level
   specification BestAlternative allows (refinement), that the machine agrees with the functional reference CodeOut,
   and that every behaviour terminates.  Conformance of the code to this module is monitored as drift only. *)
EXTENDS BestAlternative
CONSTANTS Cases            \* set of [alts, wrong] records to explore

VARIABLES case, pc, i, j, results, hist, ret
vars == <<case, pc, i, j, results, hist, ret>>
None == [k |-> "none", grade |-> Zero, msg |-> NoMsg, cls |-> "none", eid |-> 0]

Init == /\ case \in Cases
        /\ pc = "compare" /\ i = 1 /\ j = 1 /\ results = <<>> /\ hist = <<>> /\ ret = None

\* for answer in answers: for entry in answer['expect']: results.append(check_response(...))
Compare == /\ pc = "compare"
           /\ LET a == case.alts[i]
                  v == a.vals[j]
                  last == j = Len(a.vals)
              IN /\ hist' = Append(hist, <<i, j>>)
                 /\ IF v.k = "raise"
                    THEN pc' = "failed" /\ ret' = Err(v) /\ UNCHANGED <<i, j, results>>
                    ELSE /\ results' = Append(results, Response(a, v))
                         /\ ret' = ret
                         /\ i' = IF last THEN i + 1 ELSE i
                         /\ j' = IF last THEN 1 ELSE j + 1
                         /\ pc' = IF last /\ i = Len(case.alts) THEN "select" ELSE "compare"
           /\ UNCHANGED case

\* best_score = max(...); best_results = [...]; max(best_results, key=len(msg)) -- max returns the first maximum
Select == /\ pc = "select"
          /\ LET S == {results[k] : k \in 1..Len(results)}
                 W == Winners(S)
             IN ret' = Res(results[First(results, LAMBDA r : r \in W)])
          /\ pc' = "fill"
          /\ UNCHANGED <<case, i, j, results, hist>>

\* if msg == "" and best_score == 0: msg = wrong_msg
Fill == /\ pc = "fill"
        /\ ret' = Res(Shown([grade |-> ret.grade, msg |-> ret.msg], case.wrong))
        /\ pc' = "done"
        /\ UNCHANGED <<case, i, j, results, hist>>

Next == Compare \/ Select \/ Fill
Spec == Init /\ [][Next]_vars /\ WF_vars(Next)

Terminated == pc \in {"done", "failed"}
TypeOK == /\ pc \in {"compare", "select", "fill", "done", "failed"}
          /\ Len(results) <= Len(hist) /\ Len(hist) <= Cardinality(Positions(case.alts))
\* the comparisons made so far are a prefix of the listing order, and each collected response belongs to its position
HistIsPrefix == LET fl == Flat(case.alts) IN
                  /\ hist = SubSeq(fl, 1, Len(hist))
                  /\ \A k \in 1..Len(results) : results[k] = Response(case.alts[hist[k][1]], ValAt(case.alts, hist[k]))
\* refinement of the property-level specification
Refines == /\ pc = "done" => ret \in StrictOut(case.alts, case.wrong) /\ Raising(case.alts) = {}
           /\ pc = "failed" => ret \in ErrorOut(case.alts)
           /\ Terminated => ret \in AllowedOut(case.alts, case.wrong)
\* the functional reference used by the model instance and the trace specification describes this machine
AgreesWithReference == Terminated => ret = CodeOut(case.alts, case.wrong) /\ hist = CodeCalls(case.alts)
\* a grade is only ever reported after every value of every alternative has been compared
GradedOnlyAfterAll == pc \in {"select", "fill", "done"} => Len(results) = Cardinality(Positions(case.alts))
Terminates == <>Terminated
=============================================================================
