INIT Init
NEXT Next
