SPECIFICATION Spec
CONSTANTS
  MaxOps = 4
INVARIANT TypeOK
INVARIANT InvPerClass
INVARIANT InvExplicitWins
INVARIANT InvDocumentedDefault
INVARIANT InvMostDerivedWins
PROPERTY StepIsolation
PROPERTY StepClear
PROPERTY StepStacks
