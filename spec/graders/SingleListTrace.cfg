INIT Init
NEXT Next
