----------------------- MODULE MC_ErrorChannelShared -----------------------
(* Histories of up to MaxCalls calls on a chain of three shared objects (outer list grader -> inner list grader ->
   item grader), each with its own debug flag; every complete history is replayed call by call on real shared
   objects (ListGrader over ListGrader over a table-driven item grader). *)
EXTENDS ErrorChannelShared
FaultsQuick == { [cls |-> "MissingInput", msg |-> <<"w", "NL", "w">>],
                 [cls |-> "ValueError", msg |-> <<"w">>] }
FaultsThorough == FaultsQuick \cup { [cls |-> "ConfigError", msg |-> <<"NL", "w", "BR", "NL">>],
                                     [cls |-> "MultipleInvalid", msg |-> <<"w", "NL", "w">>] }
=============================================================================
