INIT Init
NEXT Next
CONSTANTS
  MaxLen = 4
  Part = "any"
INVARIANT LawIdempotent
INVARIANT LawKeepsInk
INVARIANT LawShape
INVARIANT LawOutcomeDomain
INVARIANT LawMatchSym
INVARIANT LawAcceptIffEqual
INVARIANT LawStripAllCoarser
