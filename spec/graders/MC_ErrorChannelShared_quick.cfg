INIT Init
NEXT Next
CONSTANTS
  Depth = 3
  MaxCalls = 2
  Faults <- FaultsQuick
  ParentForcesDebug = FALSE
  RestoreAlways = FALSE
INVARIANT TypeOK
INVARIANT SameAsConfigured
INVARIANT ConfigStable
INVARIANT FamilyInEveryCall
INVARIANT Repeatable

