INIT Init
NEXT Next
CONSTANTS
  Part = "item"
  MaxAlts = 2
  MaxSamples = 2
  MaxCalls = 2
  Correlated = FALSE
  AnsOpts = {"a0", "a13", "a12", "a1", "a1f", "a1p", "a1t"}
  CmpReturns = {"T", "F", "P", "d0", "d13", "Et"}
  LeafAns = {}
  LeafCmp = {}
  TableGrades = {}
  ListAns = {}
  MaxItems = 1
  Layouts = {}
  TableOnly = {"g1212"}
  AttOpts = {"none", "c12", "c0", "c1e4"}
  OkRecomputed = TRUE
  ParentForcesChildDebug = FALSE
  PreOpts = {}
  AliasedDefaults = FALSE
INVARIANT InvStage
INVARIANT InvRaisedNoVerdict
INVARIANT InvGradesInUnit
INVARIANT InvStaleOk
INVARIANT InvStripped
INVARIANT InvDebugOnlyAtAppend
INVARIANT InvDebugShown
INVARIANT InvNoLeak
INVARIANT InvVerdictAgrees
INVARIANT InvListOrder
INVARIANT InvAllOrNothing
INVARIANT InvAloneSameAsInList
INVARIANT InvChildDebugAsConfigured
INVARIANT InvFamilyDebugAsConfigured
INVARIANT InvReturnedWellFormed
