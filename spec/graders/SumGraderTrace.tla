--------------------------- MODULE SumGraderTrace ---------------------------
(* Code -> spec binding for C19: every record is one real SumGrader call -- the author's summation, the submitted
   summation, the configuration (all in the record form of SumGrader.tla, rationals as [n, d]), the order of the input
   boxes and the observed outcome class.  A record is accepted iff the observed class is one SumGrader!Allowed permits. *)
EXTENDS SumGrader, Json, IOUtils
Trace == ndJsonDeserialize(IOEnv.TRACE_FILE)
VARIABLE l
ToSet(s) == {s[i] : i \in 1..Len(s)}
CfgOfRec(r) == [evenOdd |-> r.cfg.evenOdd, cut |-> r.cfg.cut, cutFact |-> r.cfg.cutFact, xs |-> r.cfg.xs, cval |-> r.cfg.cval,
                vars |-> ToSet(r.cfg.vars), ivars |-> ToSet(r.cfg.ivars), tol |-> r.cfg.tol, userfuncs |-> ToSet(r.cfg.userfuncs),
                forbidden |-> ToSet(r.cfg.forbidden), required |-> ToSet(r.cfg.required), listing |-> r.cfg.listing, debug |-> r.cfg.debug,
                removed |-> ToSet(r.cfg.removed), userconsts |-> ToSet(r.cfg.userconsts)]
Expected(r) == Allowed(r.aut, r.stu, ToSet(r.pos), CfgOfRec(r))
\* the boxes as laid out by the driver, read back, are the effective summation (same law as in the model)
BoxesOK(r) == Structured(Boxes(r.stu, r.pos), r.pos, r.aut) = Effective(r.aut, r.stu, ToSet(r.pos))
Check(i) == LET r == Trace[i]
                e == Expected(r)
            IN IF ~BoxesOK(r) THEN PrintT(<<"REJECT", r.id, {"boxes"}>>)
               \* e = Classes: the statement is silent on this case, no prediction -- whatever happened is accepted
               ELSE IF e = Classes \/ r.obs \in e THEN TRUE ELSE PrintT(<<"REJECT", r.id, e>>)
Init == l = 0
Next == /\ l < Len(Trace)
        /\ l' = l + 1
        /\ Check(l + 1)
        /\ (l + 1 = Len(Trace)) => PrintT(<<"DONE", Len(Trace)>>)
=============================================================================
