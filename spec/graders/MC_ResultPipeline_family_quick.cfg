INIT Init
NEXT Next
CONSTANTS
  Part = "family"
  MaxAlts = 1
  MaxSamples = 1
  MaxCalls = 1
  Correlated = FALSE
  AnsOpts = {"a0", "a12", "a1", "a1f"}
  CmpReturns = {"T", "F", "P", "d13"}
  LeafAns = {}
  LeafCmp = {}
  TableGrades = {}
  ListAns = {}
  MaxItems = 1
  Layouts = {}
  TableOnly = {"g1212"}
  AttOpts = {"none", "c12", "c1e4"}
  OkRecomputed = TRUE
  ParentForcesChildDebug = FALSE
  PreOpts = {"reg", "other", "reg_other"}
  AliasedDefaults = FALSE
INVARIANT InvStage
INVARIANT InvRaisedNoVerdict
INVARIANT InvGradesInUnit
INVARIANT InvStaleOk
INVARIANT InvStripped
INVARIANT InvDebugOnlyAtAppend
INVARIANT InvDebugShown
INVARIANT InvNoLeak
INVARIANT InvVerdictAgrees
INVARIANT InvListOrder
INVARIANT InvAllOrNothing
INVARIANT InvAloneSameAsInList
INVARIANT InvChildDebugAsConfigured
INVARIANT InvFamilyDebugAsConfigured
INVARIANT InvReturnedWellFormed
