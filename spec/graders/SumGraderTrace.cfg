INIT Init
NEXT Next
