-------------------------- MODULE MC_BestAlternative --------------------------
(* Model instance for C08.  TLC enumerates every listing (= every tuple in every order) of alternatives inside the
   bounds, evaluates the allowed outcomes with and without wrong_msg and checks the laws of BestAlternative on each.
   The dump is replayed into the real graders by engine/adapters/c08.py.

   A case is kept compact: alternative descriptors [credit, len, vals] where vals is a sequence of value-outcome
   names; Concrete() attaches the identities (message id of alternative i = i, message id of a comparer message at
   value j of alternative i = 10*i + j, error identity likewise).  The adapter uses the same convention to render
   marker texts. *)
EXTENDS BestAlternative
CONSTANTS Part,        \* "table": TableGrader space, "real": space rendered into the real graders
          Size         \* "quick" | "thorough"

Half == Q(1, 2)
Credits == {Zero, Half, One}
Lens == {0, 3, 5}               \* lengths of the alternatives' marker messages
PartLen == 4                    \* length of a comparer's marker message (between the two)
WrongMsg == [id |-> 99, len |-> 6]

ValOf(name, i, j) ==
  IF name = "miss" THEN Miss
  ELSE IF name = "hit" THEN Hit
  ELSE IF name = "part0" THEN Partial(Half, NoMsg)
  ELSE IF name = "part4" THEN Partial(Half, Msg(10 * i + j, PartLen))
  ELSE IF name = "lib" THEN Raise("lib", 10 * i + j)
  ELSE Raise("foreign", 10 * i + j)
ConcreteAlt(d, i) == [credit |-> d.credit, msg |-> Msg(i, d.len),
                      vals |-> [j \in 1..Len(d.vals) |-> ValOf(d.vals[j], i, j)]]
Concrete(ds) == [i \in 1..Len(ds) |-> ConcreteAlt(ds[i], i)]

(* ---- value-outcome sequences per alternative *)
Singles == {<<"miss">>, <<"hit">>, <<"part0">>, <<"part4">>, <<"lib">>, <<"foreign">>}
Pairs == {<<"miss", "hit">>, <<"hit", "miss">>, <<"miss", "miss">>, <<"part4", "hit">>, <<"hit", "lib">>,
          <<"foreign", "miss">>, <<"part0", "part4">>}
Triples == {<<"miss", "hit", "part4">>, <<"lib", "miss", "foreign">>}
ValsWide == Singles \cup Pairs \cup Triples
ValsMid == {<<"miss">>, <<"hit">>, <<"part4">>, <<"lib">>, <<"miss", "hit">>, <<"hit", "part0">>}
ValsNarrow == {<<"miss">>, <<"hit">>, <<"part4">>, <<"lib">>}
RealWide == {<<"miss">>, <<"hit">>, <<"part0">>, <<"part4">>, <<"lib">>, <<"foreign">>, <<"miss", "hit">>,
             <<"hit", "miss">>, <<"part4", "hit">>, <<"miss", "lib">>}
RealMid == {<<"miss">>, <<"hit">>, <<"part4">>, <<"lib">>, <<"miss", "hit">>, <<"part0", "miss">>}

Alts(V, L) == [credit : Credits, len : L, vals : V]

\* the alternative space depends on the number of alternatives n (wide spaces for short listings)
Space(n) ==
  IF Part = "table" THEN
       (IF n <= 2 THEN Alts(ValsWide, Lens)
        ELSE IF Size = "quick" THEN Alts(ValsMid \ {<<"hit", "part0">>}, Lens)
        ELSE IF n = 3 THEN Alts(ValsMid \cup {<<"part0">>, <<"foreign">>, <<"hit", "lib">>}, Lens)
        ELSE Alts(ValsNarrow, {0, 3}))
  ELSE (IF n <= 2 THEN (IF Size = "quick" THEN Alts(RealMid, Lens) ELSE Alts(RealWide, Lens))
        ELSE Alts({<<"miss">>, <<"hit">>, <<"part4">>}, {0, 3}))
MaxAlts == IF Part = "table" THEN (IF Size = "quick" THEN 3 ELSE 4) ELSE (IF Size = "quick" THEN 2 ELSE 3)

Rest(S, k) == IF k = 0 THEN {<<>>}
              ELSE IF k = 1 THEN {<<a>> : a \in S}
              ELSE IF k = 2 THEN {<<a, b>> : a \in S, b \in S}
              ELSE {<<a, b, d>> : a \in S, b \in S, d \in S}

\* Two-level enumeration: a seed fixes the number of alternatives and the first one, one Next step per case.
VARIABLES c, out
Seeds == UNION {{[kind |-> "seed", n |-> n, first |-> a] : a \in Space(n)} : n \in 1..MaxAlts}
Init == c \in Seeds /\ out = "seed"
OutOf(alts) == [none |-> AllowedOut(alts, NoMsg), some |-> AllowedOut(alts, WrongMsg),
                code_none |-> CodeOut(alts, NoMsg), code_some |-> CodeOut(alts, WrongMsg),
                calls |-> Len(CodeCalls(alts)),
                hosts |-> IF Part = "table" THEN {"table"} ELSE RealisableHosts(alts)]
Next == /\ c.kind = "seed"
        /\ c' \in {[kind |-> "case", n |-> c.n, alts |-> <<c.first>> \o r] : r \in Rest(Space(c.n), c.n - 1)}
        /\ out' = OutOf(Concrete(c'.alts))

IsCase == c.kind = "case"
A == Concrete(c.alts)
Both(L(_, _)) == IsCase => L(A, NoMsg) /\ L(A, WrongMsg)

LawWellFormed == IsCase => WellFormed(A)
LawNonEmptyI == Both(LawNonEmpty)
LawOrderIndependentI == Both(LawOrderIndependent)
LawValueOrderIndependentI == Both(LawValueOrderIndependent)
LawTupleIsListingI == Both(LawTupleIsListing)
LawGradeIsMaxI == Both(LawGradeIsMax)
LawLongestMessageI == Both(LawLongestMessage)
LawWrongMsgExactlyI == Both(LawWrongMsgExactly)
LawWrongMsgOnlyFillsI == Both(LawWrongMsgOnlyFills)
LawMonotoneI == Both(LawMonotone)
LawDuplicateI == Both(LawDuplicate)
LawSingleI == Both(LawSingle)
LawAlwaysRealisableI == IsCase => LawAlwaysRealisable(A, NoMsg)
LawBoundedI == Both(LawBounded)
LawFullCreditHitI == Both(LawFullCreditHit)
LawCreditMonotoneI == IsCase => LawCreditMonotone(A, NoMsg)
LawNotationI == IsCase /\ c.n <= 2 => LawNotation(A, NoMsg)
LawCodeRefinesI == Both(LawCodeRefines)
LawCodeCallsI == Both(LawCodeCalls)
=============================================================================
