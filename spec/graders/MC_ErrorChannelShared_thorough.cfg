INIT Init
NEXT Next
CONSTANTS
  Depth = 3
  MaxCalls = 3
  Faults <- FaultsThorough
  ParentForcesDebug = FALSE
  RestoreAlways = FALSE
INVARIANT TypeOK
INVARIANT SameAsConfigured
INVARIANT ConfigStable
INVARIANT FamilyInEveryCall
INVARIANT Repeatable

