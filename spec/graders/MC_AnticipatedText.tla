------------------------- MODULE MC_AnticipatedText -------------------------
(* Every token string up to MaxLen over the 16-token alphabet of AnticipatedText, with the class the student must
   see.  The adapter renders each string, submits it to real formula graders (alone, in a delimited list, in a
   list, in a nested list; and, for Echo strings, to a grader whose configured answer is that very string) and
   requires the anticipated class to reach edX. *)
EXTENDS AnticipatedText
CONSTANTS MaxLen
ASSUME MaxLen >= 2

RECURSIVE SeqsOfLen(_)
SeqsOfLen(n) == IF n = 0 THEN {<<>>} ELSE {Append(s, a) : s \in SeqsOfLen(n - 1), a \in Ids}
UpTo(n) == UNION {SeqsOfLen(j) : j \in 0..n}

VARIABLES c, out
Verdict(ids) == [want |-> Anticipated(ids), sees |-> StudentSees(ids), echo |-> Echo(ids)]
Init == \/ /\ c \in {[kind |-> "seed", pre |-> p] : p \in SeqsOfLen(2)} \cup {[kind |-> "short", pre |-> <<>>]}
           /\ out = [want |-> "seed"]
        \/ /\ c \in {[kind |-> "other", sit |-> x, sp |-> p] : x \in DOMAIN Situations, p \in Spellings}
           /\ out = [want |-> Situations[c.sit], sees |-> c.sit, echo |-> FALSE]
Next == \/ /\ c.kind = "seed"
           /\ \E rest \in UpTo(MaxLen - 2) :
                /\ c' = [kind |-> "case", ids |-> c.pre \o rest]
                /\ out' = Verdict(c.pre \o rest)
        \/ /\ c.kind = "short"
           /\ \E s \in SeqsOfLen(1) :
                /\ c' = [kind |-> "case", ids |-> s]
                /\ out' = Verdict(s)
IsCase == c.kind = "case"
LawInFamily == IsCase => AnticipatedInFamily(c.ids)
LawSpelling == IsCase => SpellingIrrelevant(c.ids)
LawBracketsFirst == IsCase => BracketsFirst(c.ids)
LawSyntaxScopeFree == IsCase => SyntaxScopeFree(c.ids)
LawAuthorSeesMore == IsCase => AuthorSeesMore(c.ids)
LawEcho == IsCase => EchoUsesForbiddenName(c.ids)
=============================================================================
