------------------------ MODULE MC_BestAlternativeLoop ------------------------
(* Model instance of the check-loop machine: every listing of up to MaxAlts alternatives over a medium alternative
   space, with and without wrong_msg; TLC explores every behaviour (comparison by comparison) and checks refinement,
   agreement with the functional reference and termination. *)
EXTENDS BestAlternativeLoop
CONSTANTS MaxAlts
Half == Q(1, 2)
WrongMsg == [id |-> 99, len |-> 6]
ValOf(name, a, b) ==
  IF name = "miss" THEN Miss
  ELSE IF name = "hit" THEN Hit
  ELSE IF name = "part0" THEN Partial(Half, NoMsg)
  ELSE IF name = "part4" THEN Partial(Half, Msg(10 * a + b, 4))
  ELSE IF name = "lib" THEN Raise("lib", 10 * a + b)
  ELSE Raise("foreign", 10 * a + b)
Descs == [credit : {Zero, Half, One}, len : {0, 3, 5},
          vals : {<<"miss">>, <<"hit">>, <<"part4">>, <<"lib">>, <<"miss", "hit">>, <<"hit", "part0">>, <<"foreign", "hit">>}]
Narrow == [credit : {Zero, Half, One}, len : {0, 3}, vals : {<<"miss">>, <<"hit">>, <<"part4">>, <<"lib">>, <<"hit", "miss">>}]
ConcreteAlt(d, a) == [credit |-> d.credit, msg |-> Msg(a, d.len), vals |-> [b \in 1..Len(d.vals) |-> ValOf(d.vals[b], a, b)]]
Concrete(ds) == [a \in 1..Len(ds) |-> ConcreteAlt(ds[a], a)]
Listings == {<<a>> : a \in Descs} \cup {<<a, b>> : a \in Descs, b \in Descs}
            \cup (IF MaxAlts >= 3 THEN {<<a, b, d>> : a \in Narrow, b \in Narrow, d \in Narrow} ELSE {})
MCCases == {[alts |-> Concrete(ds), wrong |-> w] : ds \in Listings, w \in {NoMsg, WrongMsg}}
=============================================================================
