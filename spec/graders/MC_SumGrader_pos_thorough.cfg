INIT Init
NEXT Next
CONSTANTS
  Part = "pos"
  L = 6
  Cut = 6
  Stride = 1
INVARIANT LawOutDomain
INVARIANT LawSame
INVARIANT LawPreserving
INVARIANT LawBreaking
INVARIANT LawToleranceMonotone
INVARIANT LawBoxes
INVARIANT LawStudentFault
INVARIANT LawAuthorFault
INVARIANT LawInexactSubmission
INVARIANT LawInexactAuthor
INVARIANT LawNeverBothVerdictAndError
INVARIANT LawIndexSymmetric
INVARIANT LawIndexCount
INVARIANT LawInfinityIsCutoff
INVARIANT LawStride
INVARIANT LawParitySplit
INVARIANT LawRangeSplit
INVARIANT LawLinearInX
INVARIANT LawShiftValue
INVARIANT LawReverseValue
INVARIANT LawCompare
INVARIANT LawConstantNames
