--------------------------- MODULE BestAlternative ---------------------------
(* Property-level specification of ItemGrader answer alternatives (C08): which result a grader configured with
   several alternative answers may return for one submission.  Written from docs/item_grader.md and the property
   statement, not from the code.

   A case is a listing of alternatives and the generic wrong_msg.  The comparison of the submission with one value
   of one alternative is abstracted to its documented effect (the "value outcome"):
       miss   the submission does not match this value                     -> credit 0, no message
       hit    the submission matches this value                            -> the alternative's credit and message
       part   a comparer awards the fraction f of the credit with message m -> f * credit, message m
       raise  the comparison raises an error (class e, identity eid)
   A message is [id, len]: a unique marker text of the given length; NoMsg is the empty text.  All credits are exact
   rationals (Rat.tla).

   Alternative   [credit |-> rational in [0,1], msg |-> message, vals |-> non-empty sequence of value outcomes]
   (an alternative with several vals is an `expect` tuple: same credit and message for every listed value). *)
EXTENDS Integers, Sequences, FiniteSets, TLC, Rat

NoMsg == [id |-> 0, len |-> 0]
Msg(id, len) == IF len = 0 THEN NoMsg ELSE [id |-> id, len |-> len]

Miss == [k |-> "miss", f |-> Zero, m |-> NoMsg, e |-> "none", eid |-> 0]
Hit == [k |-> "hit", f |-> One, m |-> NoMsg, e |-> "none", eid |-> 0]
Partial(f, m) == [k |-> "part", f |-> f, m |-> m, e |-> "none", eid |-> 0]
Raise(e, eid) == [k |-> "raise", f |-> Zero, m |-> NoMsg, e |-> e, eid |-> eid]      \* e \in {"lib", "foreign"}

WellFormedMsg(m) == m.len >= 0 /\ (m.len = 0 <=> m = NoMsg)
WellFormedAlt(a) ==
  /\ Leq(Zero, a.credit) /\ Leq(a.credit, One) /\ a.credit = Norm(a.credit[1], a.credit[2])
  /\ WellFormedMsg(a.msg)
  /\ Len(a.vals) >= 1
  /\ \A j \in 1..Len(a.vals) : LET v == a.vals[j] IN
        /\ v.k \in {"miss", "hit", "part", "raise"}
        /\ v.k = "part" => Lt(Zero, v.f) /\ Lt(v.f, One) /\ WellFormedMsg(v.m)
        /\ v.k = "raise" => v.e \in {"lib", "foreign"}
WellFormed(alts) == Len(alts) >= 1 /\ \A i \in 1..Len(alts) : WellFormedAlt(alts[i])

(* ---- what the submission earns against ONE value of ONE alternative: [grade, msg] *)
Response(a, v) ==
  IF v.k = "hit" THEN [grade |-> a.credit, msg |-> a.msg]
  ELSE IF v.k = "part" THEN [grade |-> Mul(v.f, a.credit), msg |-> v.m]
  ELSE [grade |-> Zero, msg |-> NoMsg]

Positions(alts) == UNION {{<<i, j>> : j \in 1..Len(alts[i].vals)} : i \in 1..Len(alts)}
ValAt(alts, p) == alts[p[1]].vals[p[2]]
Raising(alts) == {p \in Positions(alts) : ValAt(alts, p).k = "raise"}
Graded(alts) == Positions(alts) \ Raising(alts)
Responses(alts) == {Response(alts[p[1]], ValAt(alts, p)) : p \in Graded(alts)}

(* ---- the best response: maximum credit, then longest message *)
MaxGrade(S) == CHOOSE g \in {r.grade : r \in S} : \A r \in S : Leq(r.grade, g)             \* S non-empty
MaxLen(S) == CHOOSE n \in {r.msg.len : r \in S} : \A r \in S : r.msg.len <= n
Winners(S) == LET T == {r \in S : r.grade = MaxGrade(S)} IN {r \in T : r.msg.len = MaxLen(T)}

\* the generic wrong_msg replaces the message exactly when the grade is zero and no message applies
Shown(r, wrong) == IF r.grade = Zero /\ r.msg = NoMsg THEN [grade |-> Zero, msg |-> wrong] ELSE r

(* ---- observable outcomes (uniform record shape so that they can live in one set) *)
Res(r) == [k |-> "res", grade |-> r.grade, msg |-> r.msg, cls |-> "none", eid |-> 0]
\* a library error keeps its identity; any other exception reaches the student as one generic error
Err(v) == IF v.e = "lib" THEN [k |-> "err", grade |-> Zero, msg |-> NoMsg, cls |-> "lib", eid |-> v.eid]
          ELSE [k |-> "err", grade |-> Zero, msg |-> NoMsg, cls |-> "generic", eid |-> 0]

GradedOut(alts, wrong) == LET S == Responses(alts) IN IF S = {} THEN {} ELSE {Res(Shown(r, wrong)) : r \in Winners(S)}
ErrorOut(alts) == {Err(ValAt(alts, p)) : p \in Raising(alts)}

(* The property statement fixes the outcome when every comparison yields a grade: any winner (ties between equally
   long messages are not ordered by the statement).  It is silent about comparisons that raise; both reasonable
   readings are allowed: the call fails with one of the raised errors (StrictOut, what the documentation of the
   error channel suggests), or the raising values are skipped and the rest is graded as stated. *)
StrictOut(alts, wrong) == IF Raising(alts) = {} THEN GradedOut(alts, wrong) ELSE ErrorOut(alts)
AllowedOut(alts, wrong) == IF Raising(alts) = {} THEN GradedOut(alts, wrong)
                           ELSE ErrorOut(alts) \cup GradedOut(alts, wrong)

BestGrade(alts) == MaxGrade(Responses(alts))                                        \* Graded(alts) non-empty

(* ---- implementation-shaped reference (explains, never decides): the values are compared in listing order, the
   first error ends the call, the first response among the best-graded ones with a longest message is returned *)
RECURSIVE FlatFrom(_, _)
FlatFrom(alts, i) == IF i > Len(alts) THEN <<>>
                     ELSE [j \in 1..Len(alts[i].vals) |-> <<i, j>>] \o FlatFrom(alts, i + 1)
Flat(alts) == FlatFrom(alts, 1)
First(s, P(_)) == CHOOSE i \in 1..Len(s) : P(s[i]) /\ \A j \in 1..(i - 1) : ~P(s[j])
CodeCalls(alts) == LET fl == Flat(alts) IN
  IF Raising(alts) = {} THEN fl ELSE SubSeq(fl, 1, First(fl, LAMBDA p : p \in Raising(alts)))
CodeOut(alts, wrong) ==
  LET fl == Flat(alts) IN
  IF Raising(alts) # {} THEN Err(ValAt(alts, fl[First(fl, LAMBDA p : p \in Raising(alts))]))
  ELSE LET rs == [i \in 1..Len(fl) |-> Response(alts[fl[i][1]], ValAt(alts, fl[i]))]
           W == Winners({rs[i] : i \in 1..Len(fl)})
       IN Res(Shown(rs[First(rs, LAMBDA r : r \in W)], wrong))

(* ---- host graders and option contexts.  The allowed outcome of a listing is the same in every item grader and
   under every option of that grader: AllowedOut takes no host argument.  Hosts differ only in which comparison
   outcomes they can produce at all -- a text comparison knows no partial credit, an all-or-nothing list
   (partial_credit = False) awards no fraction, a list of n items awards multiples of 1/n, a host that suppresses
   matrix errors still lets library errors of a comparer through.  The binding replays every listing in every host
   that can realise it.  (Names are the adapter's rendering contexts.) *)
AllKinds == {"miss", "hit", "part", "lib", "foreign"}
NoPart == {"miss", "hit", "lib"}
HostKinds == [table |-> AllKinds,
              string |-> NoPart, string_exact |-> NoPart,
              formula |-> AllKinds, formula_tol |-> AllKinds,
              numerical |-> AllKinds, numerical_tol |-> AllKinds,
              matrix |-> AllKinds, matrix_suppress |-> AllKinds,
              singlelist |-> NoPart \cup {"part"}, singlelist_ordered |-> NoPart \cup {"part"},
              singlelist4 |-> NoPart \cup {"part"}, singlelist4_ordered |-> NoPart \cup {"part"},
              singlelist_aon |-> NoPart, singlelist_aon_ordered |-> NoPart,
              interval |-> NoPart \cup {"part"}, interval_aon |-> NoPart,
              nested |-> NoPart \cup {"part"}, nested_aon |-> NoPart]
HostNames == DOMAIN HostKinds
\* a list host awards multiples of 1/grain of the alternative's credit (0: any fraction)
HostGrain(h) == IF h \in {"singlelist", "singlelist_ordered", "interval"} THEN 2
                ELSE IF h \in {"singlelist4", "singlelist4_ordered", "nested"} THEN 4 ELSE 0
KindOf(v) == IF v.k = "raise" THEN v.e ELSE v.k
KindsIn(alts) == {KindOf(ValAt(alts, p)) : p \in Positions(alts)}
Realisable(h, alts) ==
  /\ h \in HostNames
  /\ KindsIn(alts) \subseteq HostKinds[h]
  /\ HostGrain(h) > 0 => \A p \in Positions(alts) : LET v == ValAt(alts, p) IN
                             v.k = "part" => (v.f[1] * HostGrain(h)) % v.f[2] = 0
RealisableHosts(alts) == {h \in HostNames : Realisable(h, alts)}

(* ---- author notations (docs/item_grader.md, "Specifying Answers").  `answers` is one item or a tuple of items; an
   item is a bare expect value (credit 1, no message) or a dictionary with `expect` and optional `grade_decimal` and
   `msg`; an expect entry is one value or a tuple of values.  Canon gives the alternatives a notation denotes.
     notation  [t |-> "single", item |-> it]  |  [t |-> "tuple", items |-> <<it, ...>>]
     item      [t |-> "bare" | "dict", expect |-> e, hasCredit, credit, hasMsg, msg]   (has* are FALSE for "bare")
     expect    [t |-> "one", vs |-> <<v>>]  |  [t |-> "many", vs |-> <<v, ...>>] *)
CanonItem(it) == [credit |-> IF it.t = "dict" /\ it.hasCredit THEN it.credit ELSE One,
                  msg |-> IF it.t = "dict" /\ it.hasMsg THEN it.msg ELSE NoMsg,
                  vals |-> it.expect.vs]
Canon(n) == IF n.t = "single" THEN <<CanonItem(n.item)>> ELSE [i \in 1..Len(n.items) |-> CanonItem(n.items[i])]
WellFormedItem(it) == /\ it.t \in {"bare", "dict"}
                      /\ it.expect.t \in {"one", "many"} /\ Len(it.expect.vs) >= 1
                      /\ it.expect.t = "one" => Len(it.expect.vs) = 1
                      /\ it.t = "bare" => ~it.hasCredit /\ ~it.hasMsg
\* a bare tuple in the place of `answers` itself is a tuple of alternatives, not one alternative with several values
WellFormedNotation(n) == IF n.t = "single" THEN WellFormedItem(n.item) /\ ~(n.item.t = "bare" /\ n.item.expect.t = "many")
                         ELSE n.t = "tuple" /\ Len(n.items) >= 1 /\ \A i \in 1..Len(n.items) : WellFormedItem(n.items[i])
\* every way of writing one alternative
ExpectNotations(vals) == {[t |-> "many", vs |-> vals]} \cup (IF Len(vals) = 1 THEN {[t |-> "one", vs |-> vals]} ELSE {})
ItemNotations(a) ==
  {[t |-> "dict", expect |-> e, hasCredit |-> hc, credit |-> IF hc THEN a.credit ELSE One, hasMsg |-> hm, msg |-> IF hm THEN a.msg ELSE NoMsg] :
       e \in ExpectNotations(a.vals), hc \in (IF a.credit = One THEN BOOLEAN ELSE {TRUE}), hm \in (IF a.msg = NoMsg THEN BOOLEAN ELSE {TRUE})}
  \cup (IF a.credit = One /\ a.msg = NoMsg
        THEN {[t |-> "bare", expect |-> e, hasCredit |-> FALSE, credit |-> One, hasMsg |-> FALSE, msg |-> NoMsg] : e \in ExpectNotations(a.vals)}
        ELSE {})
RECURSIVE ItemSeqs(_, _)
ItemSeqs(alts, i) == IF i > Len(alts) THEN {<<>>} ELSE {<<x>> \o r : x \in ItemNotations(alts[i]), r \in ItemSeqs(alts, i + 1)}
Notations(alts) == {[t |-> "tuple", items |-> s] : s \in ItemSeqs(alts, 1)}
                   \cup (IF Len(alts) = 1 THEN {n \in {[t |-> "single", item |-> x] : x \in ItemNotations(alts[1])} : WellFormedNotation(n)} ELSE {})

(* ---- transformations used by the laws *)
Permute(alts, p) == [i \in 1..Len(alts) |-> alts[p[i]]]                      \* p: permutation of 1..Len(alts)
Reverse(s) == [i \in 1..Len(s) |-> s[Len(s) + 1 - i]]
ReverseVals(alts) == [i \in 1..Len(alts) |-> [alts[i] EXCEPT !.vals = Reverse(@)]]
\* an `expect` tuple is the same as listing its values as separate alternatives with the same credit and message
RECURSIVE SplitFrom(_, _)
SplitFrom(alts, i) == IF i > Len(alts) THEN <<>>
                      ELSE [j \in 1..Len(alts[i].vals) |-> [alts[i] EXCEPT !.vals = <<alts[i].vals[j]>>]]
                           \o SplitFrom(alts, i + 1)
Split(alts) == SplitFrom(alts, 1)
Without(alts, i) == SubSeq(alts, 1, i - 1) \o SubSeq(alts, i + 1, Len(alts))

(* ---- laws about the specification itself (instantiated on every enumerated case by the model) *)
LawNonEmpty(alts, w) == AllowedOut(alts, w) # {} /\ StrictOut(alts, w) # {} /\ StrictOut(alts, w) \subseteq AllowedOut(alts, w)
LawOrderIndependent(alts, w) == \A p \in Permutations(1..Len(alts)) :
                                  /\ AllowedOut(Permute(alts, p), w) = AllowedOut(alts, w)
                                  /\ StrictOut(Permute(alts, p), w) = StrictOut(alts, w)
LawValueOrderIndependent(alts, w) == AllowedOut(ReverseVals(alts), w) = AllowedOut(alts, w)
LawTupleIsListing(alts, w) == AllowedOut(Split(alts), w) = AllowedOut(alts, w)
\* the grade is a function of the case: every graded outcome carries the maximum over all single responses
LawGradeIsMax(alts, w) == \A o \in GradedOut(alts, w) :
                            /\ \A r \in Responses(alts) : Leq(r.grade, o.grade)
                            /\ \E r \in Responses(alts) : r.grade = o.grade
                            /\ \A o2 \in GradedOut(alts, w) : o2.grade = o.grade
\* no response tied at the maximum has a longer message than the reported one
LawLongestMessage(alts, w) == \A o \in GradedOut(alts, NoMsg) : \A r \in Responses(alts) :
                                r.grade = o.grade => r.msg.len <= o.msg.len
\* wrong_msg is shown exactly when the best grade is zero and no message applies to a zero-credit response
LawWrongMsgExactly(alts, w) == w # NoMsg => \A o \in GradedOut(alts, w) :
                                 (o.msg = w) <=> (o.grade = Zero /\ \A r \in Responses(alts) : r.grade = Zero => r.msg = NoMsg)
\* wrong_msg never changes the grade, and changes the message only through the substitution
LawWrongMsgOnlyFills(alts, w) == GradedOut(alts, w) = {Res(Shown([grade |-> o.grade, msg |-> o.msg], w)) : o \in GradedOut(alts, NoMsg)}
\* one more alternative never lowers the grade; a duplicate changes nothing
LawMonotone(alts, w) == Raising(alts) = {} /\ Len(alts) > 1 =>
                          \A i \in 1..Len(alts) : Leq(BestGrade(Without(alts, i)), BestGrade(alts))
LawDuplicate(alts, w) == \A i \in 1..Len(alts) : AllowedOut(Append(alts, alts[i]), w) = AllowedOut(alts, w)
\* grades stay inside [0, 1]; a matched full-credit alternative always yields full credit
LawBounded(alts, w) == \A o \in GradedOut(alts, w) : Leq(Zero, o.grade) /\ Leq(o.grade, One)
LawFullCreditHit(alts, w) == (\E p \in Graded(alts) : ValAt(alts, p).k = "hit" /\ alts[p[1]].credit = One)
                             => \A o \in GradedOut(alts, w) : o.grade = One
\* raising one alternative's credit never lowers the grade
LawCreditMonotone(alts, w) == Raising(alts) = {} =>
                                \A i \in 1..Len(alts) : Leq(BestGrade(alts), BestGrade([alts EXCEPT ![i].credit = One]))
\* a single alternative with a single value returns its own response
LawSingle(alts, w) == Len(alts) = 1 /\ Len(alts[1].vals) = 1 /\ Raising(alts) = {} =>
                        AllowedOut(alts, w) = {Res(Shown(Response(alts[1], alts[1].vals[1]), w))}
\* every notation of the same alternatives denotes them (so the outcome cannot depend on how the author wrote them)
LawNotation(alts, w) == \A n \in Notations(alts) : WellFormedNotation(n) /\ Canon(n) = alts
\* the table-driven host realises every listing, so no case is ever without a binding
LawAlwaysRealisable(alts, w) == "table" \in RealisableHosts(alts) /\ RealisableHosts(alts) \subseteq HostNames
\* the implementation-shaped reference refines the property-level specification
LawCodeRefines(alts, w) == CodeOut(alts, w) \in StrictOut(alts, w)
LawCodeCalls(alts, w) == LET cc == CodeCalls(alts) IN
                           /\ \A i \in 1..(Len(cc) - 1) : cc[i] \in Graded(alts)
                           /\ (Raising(alts) = {} => {cc[i] : i \in 1..Len(cc)} = Positions(alts))
=============================================================================
