INIT HInit
NEXT HNext
CONSTANTS
  Part = "hist"
  L = 5
  Cut = 6
  Stride = 1
INVARIANT LawHistoryIndependent
INVARIANT LawCallDomain
INVARIANT LawPlainCorrect
INVARIANT LawFunctionUse
INVARIANT LawWrongIsNotCorrect
INVARIANT LawFunctionNameAsVariable
