--------------------------- MODULE SamplerContracts ---------------------------
(* Property-level specification for C12: every random draw satisfies all constraints its sampling set declares.

   A sampling-set configuration is a record `cfg` (field `cls` = class name).  For every class this module says
     Accepts(cfg)   -- whether such a sampling set exists / is supported (SquareMatrices: written from the mathematics
                       of determinants and spectra and from the documented limits, not from the constructor code),
     Required(cfg)  -- the set of abstract features every draw must have,
     Implied(cfg)   -- Required closed under the mathematical implications between features,
     Contract(cfg)  -- Required/Implied plus the numeric part of the declared set (interval bounds after
                       lo = Min(start, stop), norm range, shape, listed members, amplitude), in integer micro-units.
   An observation `o` of one draw is a record [features, coords, shape, vid]; the numeric -> boolean abstraction
   (tolerance 1e-9 relative to the matrix norm) is done by the adapter, interval membership is decided here:
     Observed(cfg, o) = o.features \cup the derived features "inset" "normrange" "shape" "member" "bounded",
     Missing(cfg, o)  = Implied(cfg) \ Observed(cfg, o)          (empty <=> the draw honours the contract).

   Numbers: configuration numbers are integers in HALVES (h stands for h/2), IntegerRange bounds and sector arguments
   (unit pi/12) are plain integers; observed values arrive as brackets <<lo, hi>> of integer micro-units (1e-6).

   Feature vocabulary (computed by the adapter on the drawn value):
     "number" "callable" "matharray"                 kind of value
     "real" "complex" "int"                          realness / genuinely complex entries / integral value
     "upper" "lower"                                 2-axis arrays: zero below / above the diagonal
     "diagonal" "symmetric" "antisymmetric" "hermitian" "antihermitian" "traceless" "det0" "det1" "identmult"
     "arity" "outdim" "fixed"                        random functions
   derived here from coords/shape/vid: "inset" "normrange" "shape" "member" "bounded".                        *)
EXTENDS Integers, Sequences, FiniteSets, TLC

Micro == 1000000
Half == 500000
Min2(a, b) == IF a <= b THEN a ELSE b
Max2(a, b) == IF a >= b THEN a ELSE b
Elems(s) == {s[i] : i \in DOMAIN s}
Odd(n) == n % 2 = 1

\* closed interval in micro-units from two configuration numbers, whatever their order ("start/stop order irrelevant")
Iv(a, b) == [lo |-> Half * Min2(a, b), hi |-> Half * Max2(a, b)]             \* a, b in halves
IvUnits(a, b) == [lo |-> Micro * Min2(a, b), hi |-> Micro * Max2(a, b)]      \* a, b integers
\* a value known to lie in the bracket b = <<lo, hi>> is accepted iff the bracket meets the interval
InIv(b, iv) == b[2] >= iv.lo /\ b[1] <= iv.hi

ScalarClasses == {"RealInterval", "IntegerRange", "ComplexRectangle", "ComplexSector"}
VectorClasses == {"RealVectors", "ComplexVectors"}
MatrixClasses == {"RealMatrices", "ComplexMatrices"}
TensorClasses == {"RealTensors", "ComplexTensors"}
PlainArrayClasses == VectorClasses \cup MatrixClasses \cup TensorClasses
ArrayClasses == PlainArrayClasses \cup {"SquareMatrices", "IdentityMatrixMultiples"}
FunctionClasses == {"SpecificFunctions", "RandomFunction"}
AllClasses == ScalarClasses \cup ArrayClasses \cup FunctionClasses \cup {"DiscreteSet"}

Vocabulary == {"number", "callable", "matharray", "real", "complex", "int", "upper", "lower", "diagonal", "symmetric",
               "antisymmetric", "hermitian", "antihermitian", "traceless", "det0", "det1", "identmult", "arity", "outdim",
               "fixed", "inset", "normrange", "shape", "member", "bounded"}
Symmetries == {"none", "diagonal", "symmetric", "antisymmetric", "hermitian", "antihermitian"}
Determinants == {"none", "zero", "one"}

(* ------------------------------------------------------------------ scalar sets *)
\* coordinates of a scalar observation: <<re, im, modulus, argument>> brackets; argument in micro-(pi/12) in (-12e6, 12e6]
ScalarBounds(s) ==
  CASE s.cls = "RealInterval"     -> << Iv(s.start, s.stop) >>
    [] s.cls = "IntegerRange"     -> << IvUnits(s.start, s.stop) >>
    [] s.cls = "ComplexRectangle" -> << Iv(s.re[1], s.re[2]), Iv(s.im[1], s.im[2]) >>
    [] s.cls = "ComplexSector"    -> << Iv(s.modulus[1], s.modulus[2]), IvUnits(s.argument[1], s.argument[2]) >>

FullTurn == 24 * Micro
\* the argument of a complex number is only known modulo a full turn; at modulus 0 every argument is right
ArgOK(modb, argb, iv) == modb[1] <= 0 \/ \E w \in -4..4 : InIv(<<argb[1] + w * FullTurn, argb[2] + w * FullTurn>>, iv)

ScalarIn(s, coords, feats) ==
  LET b == ScalarBounds(s) IN
  CASE s.cls = "RealInterval"     -> "real" \in feats /\ InIv(coords[1], b[1])
    [] s.cls = "IntegerRange"     -> "real" \in feats /\ "int" \in feats /\ InIv(coords[1], b[1])
    [] s.cls = "ComplexRectangle" -> InIv(coords[1], b[1]) /\ InIv(coords[2], b[2])
    [] s.cls = "ComplexSector"    -> InIv(coords[3], b[1]) /\ ArgOK(coords[3], coords[4], b[2])

ScalarKind(s) == CASE s.cls = "RealInterval" -> {"real"}
                   [] s.cls = "IntegerRange" -> {"real", "int"}
                   [] OTHER -> {}

(* "both endpoints attainable" for integer ranges: decidable by observation only for narrow ranges and many draws --
   a correct sampler over at most 6 values misses a given value in 400 draws with probability (5/6)^400 < 1e-31 *)
DeclaredIntegers(s) == Min2(s.start, s.stop) .. Max2(s.start, s.stop)          \* both ends included
AttainabilityCheckable(s, n) == n >= 400 /\ Cardinality(DeclaredIntegers(s)) <= 6
EndpointsSeen(s, seen, n) ==
  /\ Elems(seen) \subseteq DeclaredIntegers(s)
  /\ AttainabilityCheckable(s, n) => {s.start, s.stop} \subseteq Elems(seen)

(* ------------------------------------------------------------------ arrays *)
ComplexClass(cls) == cls \in {"ComplexVectors", "ComplexMatrices", "ComplexTensors"}
\* hermitian / antihermitian force complex entries whatever the flag says (documented)
Cx(cfg) == cfg.complex \/ cfg.symmetry \in {"hermitian", "antihermitian"}
IsComplex(cfg) == IF cfg.cls = "SquareMatrices" THEN Cx(cfg) ELSE ComplexClass(cfg.cls)

ShapeOf(cfg) == IF cfg.cls \in {"SquareMatrices", "IdentityMatrixMultiples"} THEN <<cfg.dimension, cfg.dimension>>
                ELSE cfg.shape
AxesOK(cfg) == /\ \A i \in DOMAIN cfg.shape : cfg.shape[i] >= 1
               /\ cfg.cls \in VectorClasses => Len(cfg.shape) = 1
               /\ cfg.cls \in MatrixClasses => Len(cfg.shape) = 2
               /\ cfg.cls \in TensorClasses => Len(cfg.shape) >= 3

(* ---- SquareMatrices: which option combinations exist, which are supported
   spectrum of a matrix with the symmetry: real (hermitian; real symmetric; real diagonal), purely imaginary
   (antihermitian; real antisymmetric) or unconstrained *)
RealSpectrum(cfg) == cfg.symmetry = "hermitian" \/ (cfg.symmetry \in {"diagonal", "symmetric"} /\ ~Cx(cfg))
ImagSpectrum(cfg) == cfg.symmetry = "antihermitian" \/ (cfg.symmetry = "antisymmetric" /\ ~Cx(cfg))

DetOneExists(cfg) ==
  /\ ~(cfg.symmetry = "antisymmetric" /\ Odd(cfg.dimension))      \* det A = det A^T = det(-A) = (-1)^n det A
  /\ ~(cfg.symmetry = "antihermitian" /\ Odd(cfg.dimension))      \* det = i^n times a real number
  /\ ~(RealSpectrum(cfg) /\ cfg.traceless /\ cfg.dimension = 2)   \* eigenvalues t, -t with t real: det = -t^2 <= 0
Exists(cfg) == cfg.determinant = "one" => DetOneExists(cfg)
\* documented limits: zero determinant is reached by shifting with an eigenvalue times the identity, which cannot
\* keep tracelessness or antisymmetry; real antisymmetric matrices of odd dimension are singular by themselves
Supported(cfg) == cfg.determinant = "zero" =>
                    /\ ~cfg.traceless
                    /\ cfg.symmetry = "antisymmetric" => (~Cx(cfg) /\ Odd(cfg.dimension))
SquareAccepts(cfg) == Exists(cfg) /\ Supported(cfg)
\* a 2x2 antisymmetric matrix is a*J with J = [[0,1],[-1,0]] and det = a^2: unit determinant leaves only J and -J,
\* which are real whatever the complex flag says -- no realness / complexness claim is made for that combination
ForcedReal(cfg) == cfg.symmetry = "antisymmetric" /\ cfg.dimension = 2 /\ cfg.determinant = "one"

Accepts(cfg) == IF cfg.cls = "SquareMatrices" THEN SquareAccepts(cfg)
                ELSE IF cfg.cls \in PlainArrayClasses THEN AxesOK(cfg)
                ELSE TRUE

(* ------------------------------------------------------------------ contracts *)
SymFeature(sym) == IF sym = "none" THEN {} ELSE {sym}
Required(cfg) ==
  CASE cfg.cls = "RealInterval"       -> {"number", "real", "inset"}
    [] cfg.cls = "IntegerRange"       -> {"number", "real", "int", "inset"}
    [] cfg.cls = "ComplexRectangle"   -> {"number", "inset"}
    [] cfg.cls = "ComplexSector"      -> {"number", "inset"}
    [] cfg.cls = "DiscreteSet"        -> {"member"}
    [] cfg.cls = "SpecificFunctions"  -> {"callable", "member"}
    [] cfg.cls = "RandomFunction"     -> {"callable", "arity", "outdim", "bounded", "fixed"}
    [] cfg.cls \in PlainArrayClasses  ->
         {"matharray", "shape", "normrange"} \cup (IF ComplexClass(cfg.cls) THEN {"complex"} ELSE {"real"})
         \cup (IF cfg.cls \in MatrixClasses /\ cfg.triangular # "none" THEN {cfg.triangular} ELSE {})
    [] cfg.cls = "IdentityMatrixMultiples" ->
         {"matharray", "shape", "identmult", "inset"} \cup ScalarKind(cfg.sampler)
    [] cfg.cls = "SquareMatrices"     ->
         {"matharray", "shape"} \cup (IF ~Cx(cfg) THEN {"real"} ELSE IF ForcedReal(cfg) THEN {} ELSE {"complex"})
         \cup SymFeature(cfg.symmetry)
         \cup (IF cfg.traceless THEN {"traceless"} ELSE {})
         \cup (IF cfg.determinant = "zero" THEN {"det0"} ELSE IF cfg.determinant = "one" THEN {"det1"} ELSE {})
         \cup (IF cfg.determinant = "one" THEN {} ELSE {"normrange"})      \* the norm option is ignored for det 1

(* mathematical implications between features of one (square, when the matrix features occur) array *)
Step(F, odd) ==
  F \cup (IF "identmult" \in F THEN {"diagonal"} ELSE {})
    \cup (IF "diagonal" \in F THEN {"symmetric", "upper", "lower"} ELSE {})
    \cup (IF "antisymmetric" \in F THEN {"traceless"} ELSE {})
    \cup (IF {"real", "symmetric"} \subseteq F THEN {"hermitian"} ELSE {})
    \cup (IF {"real", "hermitian"} \subseteq F THEN {"symmetric"} ELSE {})
    \cup (IF {"real", "antisymmetric"} \subseteq F THEN {"antihermitian"} ELSE {})
    \cup (IF {"real", "antihermitian"} \subseteq F THEN {"antisymmetric"} ELSE {})
    \cup (IF "antisymmetric" \in F /\ odd THEN {"det0"} ELSE {})
Closure(F, odd) == Step(Step(Step(F, odd), odd), odd)
OddDim(cfg) == cfg.cls \in {"SquareMatrices", "IdentityMatrixMultiples"} /\ Odd(cfg.dimension)
Implied(cfg) == Closure(Required(cfg), OddDim(cfg))

\* pairs of features no non-zero array can have together
Contradictory(F) == \/ {"real", "complex"} \subseteq F
                    \/ {"det0", "det1"} \subseteq F
                    \/ {"symmetric", "antisymmetric"} \subseteq F
                    \/ {"hermitian", "antihermitian"} \subseteq F

(* ---- random functions.  The documented construction is a sum over num_terms x input_dim sinusoids with amplitudes
   in [1/2, 1], scaled by amplitude / num_terms: the bound that construction guarantees is amplitude * input_dim
   (halves), which meets the declared bound  |f - center| <= amplitude  only for one-argument functions. *)
ConstructionBound(cfg) == (cfg.numTerms * cfg.inputDim * cfg.amplitude) \div cfg.numTerms
ConstructionMeetsContract(cfg) == ConstructionBound(cfg) <= cfg.amplitude

(* ------------------------------------------------------------------ the contract as data (exported to the adapter) *)
NoIv == [lo |-> 0, hi |-> -1]
Contract(cfg) ==
  [ accepts  |-> Accepts(cfg),
    required |-> Required(cfg),
    implied  |-> Implied(cfg),
    bounds   |-> IF cfg.cls \in ScalarClasses THEN ScalarBounds(cfg)
                 ELSE IF cfg.cls = "IdentityMatrixMultiples" THEN ScalarBounds(cfg.sampler) ELSE <<>>,
    scalar   |-> IF cfg.cls \in ScalarClasses THEN cfg.cls
                 ELSE IF cfg.cls = "IdentityMatrixMultiples" THEN cfg.sampler.cls ELSE "none",
    norm     |-> IF cfg.cls \in PlainArrayClasses \cup {"SquareMatrices"} THEN Iv(cfg.norm[1], cfg.norm[2]) ELSE NoIv,
    shape    |-> IF cfg.cls \in ArrayClasses THEN ShapeOf(cfg) ELSE <<>>,
    members  |-> IF cfg.cls \in {"DiscreteSet", "SpecificFunctions"} THEN Elems(cfg.members) ELSE {},
    ampl     |-> IF cfg.cls = "RandomFunction" THEN Half * cfg.amplitude ELSE 0,
    implBound |-> IF cfg.cls = "RandomFunction" THEN Half * ConstructionBound(cfg) ELSE 0 ]

(* ------------------------------------------------------------------ judging one observation *)
Derived(cfg, o) ==
  LET k == Contract(cfg) IN
  (IF k.scalar # "none" /\ ScalarIn(IF cfg.cls = "IdentityMatrixMultiples" THEN cfg.sampler ELSE cfg, o.coords, Elems(o.features))
     THEN {"inset"} ELSE {})
  \cup (IF k.norm # NoIv /\ Len(o.coords) >= 1 /\ InIv(o.coords[1], k.norm) THEN {"normrange"} ELSE {})
  \cup (IF cfg.cls \in ArrayClasses /\ o.shape = k.shape THEN {"shape"} ELSE {})
  \cup (IF o.vid \in k.members THEN {"member"} ELSE {})
  \cup (IF cfg.cls = "RandomFunction" /\ Len(o.coords) >= 1 /\ o.coords[1][1] <= k.ampl THEN {"bounded"} ELSE {})
Observed(cfg, o) == Elems(o.features) \cup Derived(cfg, o)
Missing(cfg, o) == Implied(cfg) \ Observed(cfg, o)

(* ------------------------------------------------------------------ laws about the specification itself *)
\* swapping every start/stop pair of a configuration
Swap(p) == <<p[2], p[1]>>
Reversed(cfg) ==
  CASE cfg.cls \in {"RealInterval", "IntegerRange"} -> [cfg EXCEPT !.start = cfg.stop, !.stop = cfg.start]
    [] cfg.cls = "ComplexRectangle" -> [cfg EXCEPT !.re = Swap(cfg.re), !.im = Swap(cfg.im)]
    [] cfg.cls = "ComplexSector" -> [cfg EXCEPT !.modulus = Swap(cfg.modulus), !.argument = Swap(cfg.argument)]
    [] cfg.cls \in PlainArrayClasses \cup {"SquareMatrices"} -> [cfg EXCEPT !.norm = Swap(cfg.norm)]
    [] OTHER -> cfg
ReversedDeep(cfg) == IF cfg.cls = "IdentityMatrixMultiples" THEN [cfg EXCEPT !.sampler = Reversed(cfg.sampler)]
                     ELSE Reversed(cfg)
OrderIrrelevant(cfg) == Contract(ReversedDeep(cfg)) = Contract(cfg)

BoundsOrdered(cfg) == LET k == Contract(cfg) IN
  /\ \A i \in DOMAIN k.bounds : k.bounds[i].lo <= k.bounds[i].hi
  /\ k.norm # NoIv => k.norm.lo <= k.norm.hi
\* the end points of every declared interval belong to the set, the points one micro-unit outside do not
EndpointsBelong(cfg) == LET k == Contract(cfg) IN
  \A i \in DOMAIN k.bounds : LET iv == k.bounds[i] IN
     /\ InIv(<<iv.lo, iv.lo>>, iv) /\ InIv(<<iv.hi, iv.hi>>, iv)
     /\ ~InIv(<<iv.lo - 1, iv.lo - 1>>, iv) /\ ~InIv(<<iv.hi + 1, iv.hi + 1>>, iv)

Satisfiable(cfg) == Accepts(cfg) => ~Contradictory(Implied(cfg))
ImpliedClosed(cfg) == Step(Implied(cfg), OddDim(cfg)) = Implied(cfg) /\ Required(cfg) \subseteq Implied(cfg)
WithinVocabulary(cfg) == Implied(cfg) \subseteq Vocabulary

(* ---- SquareMatrices: the existence rules re-derived from small integer spectra.
   Real spectrum t_1..t_n: traceless <=> sum 0; a real rescaling c reaches det 1 iff prod t > 0, or n odd and prod # 0.
   Imaginary spectrum i*a_1..i*a_n: det = i^n prod a; only real rescalings keep the symmetry, so n must be even and
   (-1)^(n/2) prod a > 0; real antisymmetric matrices have spectra symmetric under negation. *)
RECURSIVE SumSeq(_), ProdSeq(_)
SumSeq(s) == IF s = <<>> THEN 0 ELSE Head(s) + SumSeq(Tail(s))
ProdSeq(s) == IF s = <<>> THEN 1 ELSE Head(s) * ProdSeq(Tail(s))
Count(s, v) == Cardinality({i \in DOMAIN s : s[i] = v})
Spectra(n) == [1..n -> -2..2]
SpectrumWitness(cfg) ==
  LET n == cfg.dimension IN
  IF RealSpectrum(cfg) THEN
    \E t \in Spectra(n) : /\ cfg.traceless => SumSeq(t) = 0
                          /\ ProdSeq(t) > 0 \/ (Odd(n) /\ ProdSeq(t) # 0)
  ELSE IF ImagSpectrum(cfg) THEN
    /\ ~Odd(n)
    /\ \E a \in Spectra(n) : /\ cfg.traceless => SumSeq(a) = 0
                             /\ cfg.symmetry = "antisymmetric" => \A v \in -2..2 : Count(a, v) = Count(a, -v)
                             /\ (IF (n \div 2) % 2 = 0 THEN ProdSeq(a) ELSE -ProdSeq(a)) > 0
  ELSE ~(cfg.symmetry = "antisymmetric" /\ Odd(n))
ExistenceHasWitness(cfg) == cfg.cls = "SquareMatrices" /\ cfg.determinant = "one"
                               => (DetOneExists(cfg) <=> SpectrumWitness(cfg))
\* every refusal for non-existence is explained: the implied features clash, or no spectrum fits
RejectionExplained(cfg) == cfg.cls = "SquareMatrices" /\ ~Exists(cfg)
                              => Contradictory(Implied(cfg)) \/ ~SpectrumWitness(cfg)
\* the complex flag is irrelevant for hermitian / antihermitian matrices
ComplexFlagIrrelevant(cfg) == cfg.cls = "SquareMatrices" /\ cfg.symmetry \in {"hermitian", "antihermitian"}
                                 => Contract([cfg EXCEPT !.complex = ~cfg.complex]) = Contract(cfg)
\* dropping an option only drops requirements
Monotone(cfg) == cfg.cls = "SquareMatrices" =>
  /\ Required([cfg EXCEPT !.traceless = FALSE]) \subseteq Required(cfg)
  /\ Required([cfg EXCEPT !.symmetry = "none"]) \subseteq Required(cfg) \cup {"real", "complex"}
  /\ Required([cfg EXCEPT !.determinant = "none"]) \subseteq Required(cfg) \cup {"normrange", "complex"}
IdentityIsDiagonal(cfg) == cfg.cls = "IdentityMatrixMultiples"
                              => {"diagonal", "symmetric", "upper", "lower"} \subseteq Implied(cfg)
\* the documented random-function construction meets the declared bound exactly for one-argument functions
ConstructionLaw(cfg) == cfg.cls = "RandomFunction" => (ConstructionMeetsContract(cfg) <=> cfg.inputDim = 1)

\* the option grid of the property statement
Combos(dims) == [cls : {"SquareMatrices"}, dimension : dims, symmetry : Symmetries, traceless : BOOLEAN,
                 determinant : Determinants, complex : BOOLEAN, norm : {<<2, 10>>}]
AcceptedCount(dims) == Cardinality({x \in Combos(dims) : Accepts(x)})
\* the count of the property statement: 214 of the 288 combinations of dimension 2-5 x 6 symmetries x traceless x
\* determinant {None, 0, 1} x complex are accepted (evaluated at the start of every TLC run that uses this module)
ASSUME Cardinality(Combos(2..5)) = 288
ASSUME AcceptedCount(2..5) = 214
=============================================================================
