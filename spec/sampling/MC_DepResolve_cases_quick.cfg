INIT Init
NEXT Next
CONSTANTS
  MaxN = 3
  NS = 2
  Part = "cases"
  MaxIdx = 2
INVARIANT LawCfgWellFormed
INVARIANT LawWF
INVARIANT LawStuck
INVARIANT LawSol
INVARIANT LawOrder
INVARIANT LawLoop
