INIT Init
NEXT Next
CONSTANT Expand <- TraceExpand
