----------------------------- MODULE DepResolve -----------------------------
(* C13 -- sampled variable sets are complete and dependent values are consistent.

   Part 1 (property level, written from the documentation): what a sample of a configuration must contain
          (Required), which values it may hold (SampleOK), when a configuration has no sample at all
          (WellFounded), and laws relating the different characterisations.
   Part 2 (numbered variables): which names occurring in the expressions are instances of a numbered variable
          and which sampling set they inherit (Effective); the constants of a grader (defaults, added, overridden,
          removed) as a function of its own configuration, whatever was constructed before (EffectiveConsts, History).
   Part 3 (abstract state machine): DrawIndependent, Resolve(sym), Finish, FailUndefined, FailCircular with a
          nondeterministic resolution order -- TLC checks confluence, completeness, consistency, termination.
   Part 4 (implementation-shaped state machine): the pass loop of gen_symbols_samples (scan the still pending
          dependents in declaration order, repeat while a pass made progress) -- TLC checks that it refines the
          abstract machine; its functional twin LoopRun predicts resolution order, pass count and diagnosis
          (monitored as drift only).

   Values are exact integers: an independent symbol draws from a scripted sequence, a dependent symbol's formula
   is  1 + (sum of its dependencies).

   A configuration G is a record
      decl   : sequence (declaration order) of [n |-> name, k |-> "ind" | "dep", deps |-> set of names,
                                                draws |-> sequence of Int]      (deps: dep only; draws: ind only)
      consts : sequence of [n |-> name, v |-> Int]      (a constant is shadowed when a declared symbol has its name)
      ns     : number of samples (>= 1)                                                                        *)
EXTENDS Integers, Sequences, FiniteSets, TLC

Range(s) == {s[i] : i \in DOMAIN s}
RECURSIVE SetSum(_, _)
SetSum(S, v) == IF S = {} THEN 0 ELSE LET x == CHOOSE y \in S : TRUE IN v[x] + SetSum(S \ {x}, v)

(* ------------------------------------------------------------------ 1. property level *)
Declared(G)     == {d.n : d \in Range(G.decl)}
Entry(G, x)     == CHOOSE d \in Range(G.decl) : d.n = x
Independents(G) == {d.n : d \in {e \in Range(G.decl) : e.k = "ind"}}
Dependents(G)   == {d.n : d \in {e \in Range(G.decl) : e.k = "dep"}}
ConstNames(G)   == {q.n : q \in Range(G.consts)}
Unshadowed(G)   == ConstNames(G) \ Declared(G)
ConstVal(G, x)  == (CHOOSE q \in Range(G.consts) : q.n = x).v
DepsOf(G, x)    == Entry(G, x).deps
DrawSet(G, x)   == Range(Entry(G, x).draws)
DrawAt(G, x, j) == LET s == Entry(G, x).draws IN s[((j - 1) % Len(s)) + 1]
NameSeq(G)      == [i \in DOMAIN G.decl |-> G.decl[i].n]

WellFormedCfg(G) == /\ \A i, j \in DOMAIN G.decl : G.decl[i].n = G.decl[j].n => i = j
                    /\ \A i, j \in DOMAIN G.consts : G.consts[i].n = G.consts[j].n => i = j
                    /\ \A d \in Range(G.decl) : d.k \in {"ind", "dep"} /\ (d.k = "ind" => Len(d.draws) >= 1)
                    /\ G.ns >= 1

Base(G)     == Independents(G) \cup Unshadowed(G)       \* names that have a value without any resolution
Required(G) == Declared(G) \cup Unshadowed(G)           \* what every sample must assign           (completeness)
AllDeps(G)  == UNION {DepsOf(G, s) : s \in Dependents(G)}
Dangling(G) == AllDeps(G) \ Required(G)                 \* referenced, but neither declared nor a constant

\* dependents reachable from the frontier through one or more dependency edges
RECURSIVE ReachFrom(_, _, _)
ReachFrom(G, frontier, seen) ==
  LET next == (UNION {DepsOf(G, s) : s \in frontier} \cap Dependents(G)) \ seen
  IN IF next = {} THEN seen ELSE ReachFrom(G, next, seen \cup next)
DepReach(G, s) == ReachFrom(G, {s}, {})
OnCycle(G)     == {s \in Dependents(G) : s \in DepReach(G, s)}

\* least fixed point: everything that can be given a value
RECURSIVE Closure(_, _)
Closure(G, D) == LET new == {s \in Dependents(G) \ D : DepsOf(G, s) \subseteq D}
                 IN IF new = {} THEN D ELSE Closure(G, D \cup new)
Resolvable(G)  == Closure(G, Base(G))
WellFounded(G) == Dependents(G) \subseteq Resolvable(G)
Stuck(G)       == Dependents(G) \ Resolvable(G)
NoDiag         == [d |-> "none", names |-> {}]
\* which of the two diagnoses is given (undefined wins) is implementation detail: drift only
Diagnosis(G)   == IF WellFounded(G) THEN NoDiag
                  ELSE IF Dangling(G) # {} THEN [d |-> "undefined", names |-> Dangling(G)]
                  ELSE [d |-> "circular", names |-> Stuck(G)]

\* THE ORACLE.  v is an observed sample (function name -> Int).
Complete(G, v)   == Required(G) \subseteq DOMAIN v
DrawnOK(G, v)    == \A s \in Independents(G) : v[s] \in DrawSet(G, s)
ConstsOK(G, v)   == \A q \in Unshadowed(G) : v[q] = ConstVal(G, q)
Consistent(G, v) == \A s \in Dependents(G) : DepsOf(G, s) \subseteq DOMAIN v /\ v[s] = 1 + SetSum(DepsOf(G, s), v)
SampleOK(G, v)   == Complete(G, v) /\ DrawnOK(G, v) /\ ConstsOK(G, v) /\ Consistent(G, v)
\* first violated clause, "" if none (for diagnostics)
SampleClause(G, v) == IF ~Complete(G, v) THEN "incomplete" ELSE IF ~DrawnOK(G, v) THEN "not-drawn-from-set"
                      ELSE IF ~ConstsOK(G, v) THEN "constant-changed" ELSE IF ~Consistent(G, v) THEN "inconsistent" ELSE ""

\* exact solution for sample number j (scripted draws)
IndepVals(G, j) == [x \in Base(G) |-> IF x \in Independents(G) THEN DrawAt(G, x, j) ELSE ConstVal(G, x)]
RECURSIVE Extend(_, _)
Extend(G, v) == LET new == {s \in Dependents(G) \ DOMAIN v : DepsOf(G, s) \subseteq DOMAIN v}
                IN IF new = {} THEN v ELSE Extend(G, v @@ [s \in new |-> 1 + SetSum(DepsOf(G, s), v)])
Solution(G, j) == Extend(G, IndepVals(G, j))
OutcomeRec(G)  == IF WellFounded(G) THEN [res |-> "ok", samples |-> [j \in 1..G.ns |-> Solution(G, j)]]
                  ELSE [res |-> "error", diag |-> Diagnosis(G).d, names |-> Diagnosis(G).names]

\* resolution orders: every element is a pending dependent whose dependencies are already defined
ValidOrder(G, o) == \A i \in DOMAIN o : /\ o[i] \in Dependents(G)
                                        /\ \A j \in 1..(i - 1) : o[j] # o[i]
                                        /\ DepsOf(G, o[i]) \subseteq Base(G) \cup {o[j] : j \in 1..(i - 1)}
FullOrder(G, o)  == ValidOrder(G, o) /\ Range(o) = Dependents(G) \cap Resolvable(G)

(* laws about the property-level definitions (checked by TLC on every enumerated configuration) *)
LawWellFoundedChar(G) == WellFounded(G) <=> (Dangling(G) = {} /\ OnCycle(G) = {})
LawStuckChar(G) == Stuck(G) = {s \in Dependents(G) : \E t \in {s} \cup DepReach(G, s) :
                                   t \in OnCycle(G) \/ DepsOf(G, t) \cap Dangling(G) # {}}
LawMissing(G) == ~WellFounded(G) =>
                   {x \in UNION {DepsOf(G, s) : s \in Stuck(G)} : x \notin Stuck(G) /\ x \notin Resolvable(G)} = Dangling(G)
LawSolution(G) == WellFounded(G) => \A j \in 1..G.ns : SampleOK(G, Solution(G, j)) /\ DOMAIN Solution(G, j) = Required(G)
LawShadow(G) == WellFounded(G) => \A j \in 1..G.ns : \A x \in ConstNames(G) \cap Independents(G) :
                                     Solution(G, j)[x] = DrawAt(G, x, j)
\* the solution does not depend on the declaration order
Reversed(G) == [G EXCEPT !.decl = [i \in DOMAIN G.decl |-> G.decl[Len(G.decl) + 1 - i]]]
Rotated(G)  == [G EXCEPT !.decl = IF G.decl = <<>> THEN <<>> ELSE Tail(G.decl) \o <<Head(G.decl)>>]
LawOrderFree(G) == /\ OutcomeRec(Reversed(G)) = OutcomeRec(G)
                   /\ OutcomeRec(Rotated(G)) = OutcomeRec(G)

(* ------------------------------------------------------------------ 2. numbered variables
   A grader-level configuration F is [vars, heads, occ, consts, ns]:
      vars  : declared variables (as decl above)
      heads : sequence of [h |-> head, k, deps, draws] -- the sampling set given for the base name
      occ   : names of the form head_{index} occurring in the expressions: [key |-> name, h |-> head, i |-> index]
              with the index a sequence of characters.
   "students can include a_{0}, a_{5}, a_{-2}, etc, using any integer.  All entries for a numbered variable will
    use the sampling set specified by the base name. ... the specific variable has precedence."
   A head may itself be given a dependent sampling set: every instance is then a dependent with that formula.
   Sibling variables (ordered ListGrader) need no construct of their own: sibling_j is a dependent symbol whose
   formula is the j-th student input, declared after the author's variables.                                *)
Digit == {"0", "1", "2", "3", "4", "5", "6", "7", "8", "9"}
Body(i) == IF i # <<>> /\ i[1] = "-" THEN Tail(i) ELSE i
IsDecimal(i) == Body(i) # <<>> /\ \A j \in DOMAIN Body(i) : Body(i)[j] \in Digit
\* the canonical way of writing an integer: no leading zeros, no sign on zero
IsCanonicalInt(i) == IsDecimal(i) /\ (Body(i)[1] = "0" => i = <<"0">>)
DigitVal(ch) == CHOOSE n \in 0..9 : <<"0", "1", "2", "3", "4", "5", "6", "7", "8", "9">>[n + 1] = ch
RECURSIVE NatVal(_)
NatVal(b) == IF b = <<>> THEN 0 ELSE 10 * NatVal(SubSeq(b, 1, Len(b) - 1)) + DigitVal(b[Len(b)])
IndexValue(i) == IF i[1] = "-" THEN 0 - NatVal(Body(i)) ELSE NatVal(Body(i))
RECURSIVE NatCanon(_)
NatCanon(n) == IF n < 10 THEN <<<<"0", "1", "2", "3", "4", "5", "6", "7", "8", "9">>[n + 1]>>
               ELSE NatCanon(n \div 10) \o NatCanon(n % 10)
Canon(n) == IF n < 0 THEN <<"-">> \o NatCanon(0 - n) ELSE NatCanon(n)
LawCanonRoundTrip(n) == IsCanonicalInt(Canon(n)) /\ IndexValue(Canon(n)) = n
LawCanonUnique(i) == IsDecimal(i) => (IsCanonicalInt(i) <=> Canon(IndexValue(i)) = i)

HeadNames(F) == {x.h : x \in Range(F.heads)}
HeadEntry(F, h) == CHOOSE x \in Range(F.heads) : x.h = h
\* loose = TRUE reads "any integer" as "any decimal numeral" (the documentation does not say which)
IsInstance(F, o, loose) == /\ o.h \in HeadNames(F)
                           /\ IF loose THEN IsDecimal(o.i) ELSE IsCanonicalInt(o.i)
                           /\ o.key \notin {d.n : d \in Range(F.vars)}          \* the specific variable has precedence
InstDecl(F, loose) == LET os == SelectSeq(F.occ, LAMBDA o : IsInstance(F, o, loose))
                      IN [x \in DOMAIN os |-> [n |-> os[x].key, k |-> HeadEntry(F, os[x].h).k,
                                               deps |-> HeadEntry(F, os[x].h).deps, draws |-> HeadEntry(F, os[x].h).draws]]
Effective(F, loose) == [decl |-> F.vars \o InstDecl(F, loose), consts |-> F.consts, ns |-> F.ns]
Alternatives(F) == {Effective(F, FALSE), Effective(F, TRUE)}

(* ------------------------------------------------------------------ 2'. the constants of a grader, construction history
   Every math grader class has default constants (pi, e, i, j; infty as well for SumGrader, IntegralGrader and a
   FormulaGrader with allow_inf).  The author's user_constants are a sequence of [n, op, v]:
      op = "set"     adds a new constant or (with suppress_warnings) overrides a default one: the value is the author's
      op = "remove"  (the value None) removes a default constant from the problem.
   The constants of a grader are a function of ITS OWN class and configuration only -- whatever graders were
   constructed before it in the same process (History).                                                       *)
UserNames(u)  == {x.n : x \in Range(u)}
UserSets(u)   == SelectSeq(u, LAMBDA x : x.op = "set")
WellFormedUser(u) == \A a, b \in DOMAIN u : u[a].n = u[b].n => a = b
EffectiveConsts(defaults, u) ==
  SelectSeq(defaults, LAMBDA d : d.n \notin UserNames(u)) \o [x \in DOMAIN UserSets(u) |-> [n |-> UserSets(u)[x].n, v |-> UserSets(u)[x].v]]
ConstFn(cs) == [x \in {q.n : q \in Range(cs)} |-> (CHOOSE q \in Range(cs) : q.n = x).v]
LawConsts(defaults, u) == LET f == ConstFn(EffectiveConsts(defaults, u)) d == ConstFn(defaults) IN
  /\ \A x \in Range(u) : IF x.op = "set" THEN x.n \in DOMAIN f /\ f[x.n] = x.v ELSE x.n \notin DOMAIN f
  /\ \A n \in DOMAIN d \ UserNames(u) : n \in DOMAIN f /\ f[n] = d[n]
  /\ DOMAIN f \subseteq DOMAIN d \cup UserNames(u)
\* a history is a sequence of constructions [cls, user]; tbl maps a class to its default constants.  Reference
\* semantics of one construction: the instance works on its own copy, the class-level table is left as it was.
Construct(tbl, b) == [tbl |-> tbl, consts |-> EffectiveConsts(tbl[b.cls], b.user)]
RECURSIVE RunHistory(_, _)
RunHistory(tbl, h) == IF Len(h) = 1 THEN Construct(tbl, h[1]) ELSE RunHistory(Construct(tbl, h[1]).tbl, Tail(h))
LawHistoryFree(tbl, h) == LET r == RunHistory(tbl, h) IN
  r.tbl = tbl /\ r.consts = EffectiveConsts(tbl[h[Len(h)].cls], h[Len(h)].user)

(* ------------------------------------------------------------------ 4'. functional twin of the pass loop *)
DeclOrder(G, S) == SelectSeq(NameSeq(G), LAMBDA x : x \in S)
MissingIn(G, pend, v) == {x \in UNION {DepsOf(G, s) : s \in pend} : x \notin pend /\ x \notin DOMAIN v}
RECURSIVE ScanPass(_, _, _, _)
ScanPass(G, sc, i, st) ==
  IF i > Len(sc) THEN st
  ELSE LET s == sc[i] IN
       IF DepsOf(G, s) \subseteq DOMAIN st.v
       THEN ScanPass(G, sc, i + 1, [v |-> st.v @@ (s :> 1 + SetSum(DepsOf(G, s), st.v)), pend |-> st.pend \ {s},
                                    order |-> Append(st.order, s), prog |-> TRUE])
       ELSE ScanPass(G, sc, i + 1, st)
RECURSIVE PassLoop(_, _, _)
PassLoop(G, st, np) ==
  IF st.pend = {} THEN [res |-> "ok", v |-> st.v, order |-> st.order, passes |-> np, diag |-> NoDiag]
  ELSE LET st2 == ScanPass(G, DeclOrder(G, st.pend), 1, [st EXCEPT !.prog = FALSE]) IN
       IF st2.prog THEN PassLoop(G, st2, np + 1)
       ELSE [res |-> "error", v |-> st2.v, order |-> st2.order, passes |-> np + 1,
             diag |-> IF MissingIn(G, st2.pend, st2.v) # {} THEN [d |-> "undefined", names |-> MissingIn(G, st2.pend, st2.v)]
                      ELSE [d |-> "circular", names |-> st2.pend]]
LoopRun(G, j) == PassLoop(G, [v |-> IndepVals(G, j), pend |-> Dependents(G), order |-> <<>>, prog |-> FALSE], 0)

LawLoopAgrees(G) == LET r == LoopRun(G, 1) IN
                    /\ (r.res = "ok") = WellFounded(G)
                    /\ r.res = "ok" => r.v = Solution(G, 1)
                    /\ r.diag = Diagnosis(G)
                    /\ FullOrder(G, r.order)
                    /\ r.passes <= Cardinality(Dependents(G))
LawLoopOrderFree(G) == LET a == LoopRun(G, 1) b == LoopRun(Reversed(G), 1) IN
                       a.res = b.res /\ (a.res = "ok" => a.v = b.v) /\ a.diag = b.diag

(* ------------------------------------------------------------------ 3. abstract state machine *)
VARIABLES c,          \* the case in compact form (model instances enumerate it)
          cfg,          \* the configuration being sampled (set by the model instance when it picks the case)
          out,        \* case-enumeration models: the allowed outcome of c
          val,        \* the sample dictionary being built (function name -> Int)
          pending,    \* dependents without a value yet
          phase,      \* "seed" | "start" | "resolving" | "done" | "failed" | "parked"
          diag,       \* the diagnosis given on failure
          k,          \* number of the sample being generated
          done,       \* finished samples: sequence of [v |-> sample, o |-> resolution order]
          hist,       \* resolution order of the current sample
          scan, pos, progress, passes     \* pass loop only: snapshot being scanned, index into it, flag, pass count
absvars  == <<c, cfg, out, val, pending, phase, diag, k, done, hist>>
loopvars == <<scan, pos, progress, passes>>
vars     == <<c, cfg, out, val, pending, phase, diag, k, done, hist, scan, pos, progress, passes>>
Terminal == {"done", "failed"}

EmptyCfg == [decl |-> <<>>, consts |-> <<>>, ns |-> 1]
\* machine not in use (case-enumeration and trace models)
Parked == /\ cfg = EmptyCfg /\ val = <<>> /\ pending = {} /\ phase = "parked" /\ diag = NoDiag /\ k = 0 /\ done = <<>> /\ hist = <<>>
          /\ scan = <<>> /\ pos = 0 /\ progress = FALSE /\ passes = 0
SeedState == /\ cfg = EmptyCfg /\ val = <<>> /\ pending = {} /\ phase = "seed" /\ diag = NoDiag /\ k = 1 /\ done = <<>> /\ hist = <<>>
             /\ scan = <<>> /\ pos = 1 /\ progress = FALSE /\ passes = 0

DrawIndependent ==
  /\ phase = "start"
  /\ val' = IndepVals(cfg, k)
  /\ pending' = Dependents(cfg)
  /\ phase' = "resolving"
  /\ hist' = <<>>
  /\ UNCHANGED <<c, cfg, out, diag, k, done>>

Ready(s) == DepsOf(cfg, s) \subseteq DOMAIN val
Resolve(s) ==
  /\ phase = "resolving"
  /\ s \in pending
  /\ Ready(s)
  /\ val' = val @@ (s :> 1 + SetSum(DepsOf(cfg, s), val))
  /\ pending' = pending \ {s}
  /\ hist' = Append(hist, s)
  /\ UNCHANGED <<c, cfg, out, phase, diag, k, done>>

Finish ==
  /\ phase = "resolving"
  /\ pending = {}
  /\ done' = Append(done, [v |-> val, o |-> hist])
  /\ IF k < cfg.ns THEN k' = k + 1 /\ phase' = "start" ELSE k' = k /\ phase' = "done"
  /\ val' = <<>>
  /\ hist' = <<>>
  /\ UNCHANGED <<c, cfg, out, pending, diag>>

IsStuck == phase = "resolving" /\ pending # {} /\ \A s \in pending : ~Ready(s)
MissingNow == MissingIn(cfg, pending, val)
FailUndefined ==
  /\ IsStuck
  /\ MissingNow # {}
  /\ phase' = "failed"
  /\ diag' = [d |-> "undefined", names |-> MissingNow]
  /\ UNCHANGED <<c, cfg, out, val, pending, k, done, hist>>
FailCircular ==
  /\ IsStuck
  /\ MissingNow = {}
  /\ phase' = "failed"
  /\ diag' = [d |-> "circular", names |-> pending]
  /\ UNCHANGED <<c, cfg, out, val, pending, k, done, hist>>

Halt == phase \in Terminal /\ UNCHANGED vars
AbsStep == DrawIndependent \/ (\E s \in pending : Resolve(s)) \/ Finish \/ FailUndefined \/ FailCircular
AbsNext == AbsStep /\ UNCHANGED loopvars

(* ------------------------------------------------------------------ 4. pass loop (gen_symbols_samples) *)
LDraw == DrawIndependent /\ scan' = <<>> /\ pos' = 1 /\ progress' = FALSE /\ passes' = 0
LStartPass ==                                   \* "while unevaluated_dependents:" entered, snapshot list(items())
  /\ phase = "resolving" /\ pos > Len(scan) /\ pending # {} /\ (passes = 0 \/ progress)
  /\ scan' = DeclOrder(cfg, pending)
  /\ pos' = 1 /\ progress' = FALSE /\ passes' = passes + 1
  /\ UNCHANGED absvars
LVisit ==                                       \* one iteration of the for loop
  /\ phase = "resolving" /\ pos <= Len(scan)
  /\ pos' = pos + 1
  /\ UNCHANGED <<scan, passes>>
  /\ IF Ready(scan[pos]) THEN Resolve(scan[pos]) /\ progress' = TRUE
     ELSE UNCHANGED absvars /\ UNCHANGED progress
LFinish == pos > Len(scan) /\ Finish /\ UNCHANGED <<scan, progress, passes>> /\ pos' = 1
LFail ==                                        \* "if not progress_made:"
  /\ phase = "resolving" /\ pos > Len(scan) /\ pending # {} /\ passes > 0 /\ ~progress
  /\ phase' = "failed"
  /\ diag' = IF MissingNow # {} THEN [d |-> "undefined", names |-> MissingNow] ELSE [d |-> "circular", names |-> pending]
  /\ UNCHANGED <<c, cfg, out, val, pending, k, done, hist, scan, pos, progress, passes>>
LoopNext == LDraw \/ LStartPass \/ LVisit \/ LFinish \/ LFail

(* ------------------------------------------------------------------ invariants (both machines) *)
Running == phase \in {"start", "resolving", "done", "failed"}
TypeOK == Running =>
  /\ phase = "resolving" => DOMAIN val \cap pending = {} /\ Required(cfg) \subseteq DOMAIN val \cup pending
  /\ pending \subseteq Dependents(cfg)
  /\ k \in 1..cfg.ns
  /\ Len(done) = (IF phase = "done" THEN k ELSE k - 1)
  /\ phase = "failed" <=> diag # NoDiag
\* at every moment every value present is the one the formulas give (partial consistency)
InvPartial == phase = "resolving" =>
  /\ \A s \in DOMAIN val \cap Dependents(cfg) : val[s] = 1 + SetSum(DepsOf(cfg, s), val)
  /\ \A s \in DOMAIN val : val[s] = Solution(cfg, k)[s]
  /\ ValidOrder(cfg, hist) /\ Range(hist) = DOMAIN val \cap Dependents(cfg)
\* confluence: whatever order was taken, the finished samples are THE solution; failures are THE diagnosis
Settled == phase \in {"start", "done", "failed"}        \* the states right after Finish / Fail* (done changes only there)
InvConfluent == /\ Settled => \A j \in DOMAIN done : done[j].v = Solution(cfg, j)
                /\ phase = "failed" => diag = Diagnosis(cfg) /\ pending = Stuck(cfg)
InvComplete == Settled => \A j \in DOMAIN done : DOMAIN done[j].v = Required(cfg)
InvConsistent == Settled => \A j \in DOMAIN done : SampleOK(cfg, done[j].v) /\ FullOrder(cfg, done[j].o)
\* cyclic or dangling <=> failure, and never a value
InvFailIffBad == /\ phase = "done" => WellFounded(cfg)
                 /\ phase = "failed" => ~WellFounded(cfg) /\ k = 1
                 /\ Running /\ ~WellFounded(cfg) => done = <<>>
\* pass loop: bookkeeping
InvLoop == phase = "resolving" =>
  /\ pos \in 1..(Len(scan) + 1)
  /\ \A i \in pos..Len(scan) : scan[i] \in pending
  /\ passes <= Cardinality(Dependents(cfg))
  /\ progress => passes > 0
InvLoopPredicted == /\ Settled => \A j \in DOMAIN done : done[j].o = LoopRun(cfg, j).order
                    /\ phase = "failed" => hist = LoopRun(cfg, 1).order /\ passes = LoopRun(cfg, 1).passes
                                           /\ diag = LoopRun(cfg, 1).diag

\* termination measures (strictly decreasing on every non-stuttering step)
ND == Cardinality(Dependents(cfg))
AbsRank == IF phase = "seed" THEN 1000000 ELSE IF phase \in Terminal THEN 0
           ELSE (cfg.ns - k) * (ND + 2) + (IF phase = "start" THEN ND + 2 ELSE Cardinality(pending) + 1)
LoopRank == IF phase = "seed" THEN 1000000 ELSE IF phase \in Terminal THEN 0
            ELSE LET per == (ND + 3) * (ND + 3) + 2 IN
                 (cfg.ns - k) * per +
                 (IF phase = "start" THEN per
                  ELSE 1 + (Cardinality(pending) + (IF progress \/ passes = 0 THEN 1 ELSE 0)) * (ND + 2) + (Len(scan) + 1 - pos))
AbsDecreases == [][AbsRank' < AbsRank]_vars
LoopDecreases == [][LoopRank' < LoopRank]_vars
LoopRefinesAbs == [][AbsStep \/ (phase = "seed")]_absvars
Terminates == <>(phase \in Terminal)
=============================================================================
