INIT Init
NEXT Next
CONSTANTS
  Big = TRUE
INVARIANT LawBoundsOrdered
INVARIANT LawComplexFlagIrrelevant
INVARIANT LawConservativeExactly
INVARIANT LawConstruction
INVARIANT LawEndpointsBelong
INVARIANT LawExistenceHasWitness
INVARIANT LawFinalConsistent
INVARIANT LawIdentityIsDiagonal
INVARIANT LawImpliedClosed
INVARIANT LawMonotone
INVARIANT LawNonExistentIsInfeasible
INVARIANT LawOrderIrrelevant
INVARIANT LawOutIsContract
INVARIANT LawRejectionExplained
INVARIANT LawSatisfiable
INVARIANT LawSupportedIsEstablished
INVARIANT LawWithinVocabulary
