--------------------------- MODULE MC_DepResolve ---------------------------
(* Model instances for C13.
   Part "abs"   : abstract machine (nondeterministic resolution order) over every dependency graph   -- laws, liveness
   Part "loop"  : pass-loop machine over the same graphs                                             -- refinement, laws
   Part "cases" : one state per graph with the allowed outcome and the predicted loop behaviour      -- dumped, replayed
   Part "num"   : numbered-variable cases (heads, plain/specific variables, one occurrence, a dependent on it)
   Part "hist"  : construction histories: 1-3 math graders constructed one after the other (FormulaGrader, FormulaGrader
                  with allow_inf, NumericalGrader, MatrixGrader, SumGrader; IntegralGrader as a predecessor only), each
                  adding, overriding or removing constants; the LAST grader's samples are judged from its own class and
                  configuration alone

   Graphs: symbols s1..sn in this declaration order (all labelled graphs are enumerated, so every declaration
   order of every graph shape occurs), each independent or dependent.  n <= 3: a dependent's dependencies are any
   subset of the declared symbols (itself included) + the constant "k" + the undefined name "u".  n = 4: any subset of
   the OTHER symbols, and at most one dependent of the graph additionally depends on "k" or on "u" (fields xs, xv).
   Constants: k = 7, s1 = 91, s3 = 93 -- s1 and s3 are shadowed whenever they are declared and must appear as
   constants when they are not.                                                                               *)
EXTENDS DepResolve
CONSTANTS MaxN, NS, Part, MaxIdx

Sym == <<"s1", "s2", "s3", "s4">>
Scale == <<1, 10, 100, 1000>>
GraphConsts == << [n |-> "k", v |-> 7], [n |-> "s1", v |-> 91], [n |-> "s3", v |-> 93] >>
Ks(cs) == <<cs.k1, cs.k2, cs.k3, cs.k4>>
Xd(cs, i) == IF cs.xs = i THEN {cs.xv} ELSE {}
Ds(cs) == <<cs.d1 \cup Xd(cs, 1), cs.d2 \cup Xd(cs, 2), cs.d3 \cup Xd(cs, 3), cs.d4 \cup Xd(cs, 4)>>
ExpandGraph(cs) ==
  [decl |-> [i \in 1..cs.n |-> [n |-> Sym[i], k |-> Ks(cs)[i], deps |-> Ds(cs)[i],
                                draws |-> IF Ks(cs)[i] = "ind" THEN [j \in 1..NS |-> Scale[i] * j] ELSE <<>>]],
   consts |-> GraphConsts, ns |-> NS]

\* ---- numbered-variable cases
RECURSIVE Flat(_)
Flat(i) == IF i = <<>> THEN "" ELSE (IF i[1] = "-" THEN "m" ELSE i[1]) \o Flat(Tail(i))
Key(h, i) == h \o "_" \o Flat(i)
HeadSets == [none |-> {}, a |-> {"a"}, ab |-> {"ab"}, both |-> {"a", "ab"}]
HeadDraw == [a |-> <<5>>, ab |-> <<8>>]
IdxDigits == {"0", "1", "2"}
RECURSIVE DigitSeqs(_)
DigitSeqs(n) == IF n = 0 THEN {<<>>} ELSE {<<x>> \o s : x \in IdxDigits, s \in DigitSeqs(n - 1)}
Indices == LET ds == UNION {DigitSeqs(n) : n \in 1..MaxIdx} IN ds \cup {<<"-">> \o s : s \in ds}
GraderCfg(cs) ==
  [vars |-> (IF cs.pa THEN << [n |-> "a", k |-> "ind", deps |-> {}, draws |-> <<5>>] >> ELSE <<>>)
            \o (IF cs.sp THEN << [n |-> "a_1", k |-> "ind", deps |-> {}, draws |-> <<6>>] >> ELSE <<>>)
            \o (IF cs.dep THEN << [n |-> "d", k |-> "dep", deps |-> {Key(cs.oh, cs.oi)}, draws |-> <<>>] >> ELSE <<>>),
   heads |-> [x \in 1..Cardinality(HeadSets[cs.heads]) |->
                LET h == IF cs.heads = "both" THEN <<"a", "ab">>[x] ELSE cs.heads
                IN [h |-> h, k |-> "ind", deps |-> {}, draws |-> HeadDraw[h]]],
   occ |-> << [key |-> Key(cs.oh, cs.oi), h |-> cs.oh, i |-> cs.oi] >>,
   consts |-> << [n |-> "k", v |-> 7] >>, ns |-> NS]

\* ---- construction histories
\* default constants travel as integer codes (the adapter maps pi, e, i, j, infty to the same codes)
BaseDefaults == << [n |-> "pi", v |-> 500000314], [n |-> "e", v |-> 500000271], [n |-> "i", v |-> 500001001],
                  [n |-> "j", v |-> 500001002] >>
WithInfty == BaseDefaults \o << [n |-> "infty", v |-> 500009999] >>
ClassDefaults == [FG |-> BaseDefaults, NG |-> BaseDefaults, MG |-> BaseDefaults,
                  FGinf |-> WithInfty, SG |-> WithInfty, IG |-> WithInfty]
Set(n, v) == [n |-> n, op |-> "set", v |-> v]
Rem(n) == [n |-> n, op |-> "remove", v |-> 0]
UserOps == [none |-> <<>>,
            add |-> <<Set("kappa", 7)>>,
            ovr_pi |-> <<Set("pi", 3)>>,
            rm_pi |-> <<Rem("pi")>>,
            mixed |-> <<Set("e", 2), Rem("j"), Set("kappa", 7)>>,
            rm_infty |-> <<Rem("infty")>>,
            ovr_infty |-> <<Set("infty", 1000), Set("i", 5)>>,
            rm_all |-> <<Rem("pi"), Rem("e"), Rem("i"), Rem("j"), Rem("infty")>>]
LastClasses == {"FG", "FGinf", "NG", "MG", "SG"}
NoPred == [cls |-> "none", op |-> "none"]
Preds1 == {NoPred} \cup {[cls |-> kc, op |-> o] : kc \in LastClasses \cup {"IG"}, o \in DOMAIN UserOps}
Preds2 == IF MaxN <= 3 THEN {NoPred, [cls |-> "SG", op |-> "rm_all"], [cls |-> "IG", op |-> "rm_pi"]}
          ELSE {NoPred} \cup {[cls |-> kc, op |-> o] : kc \in {"FG", "SG", "IG"}, o \in {"rm_pi", "mixed", "rm_all"}}
HistSeeds == {[kind |-> "seed", cl |-> kc, ol |-> o] : kc \in LastClasses, o \in DOMAIN UserOps}
HistCases(s) == {x \in [kind : {"hist"}, cl : {s.cl}, ol : {s.ol}, p1 : Preds1, p2 : Preds2] :
                   x.p1 = NoPred => x.p2 = NoPred}
HistoryOf(cs) == (IF cs.p2 = NoPred THEN <<>> ELSE << [cls |-> cs.p2.cls, user |-> UserOps[cs.p2.op]] >>)
                 \o (IF cs.p1 = NoPred THEN <<>> ELSE << [cls |-> cs.p1.cls, user |-> UserOps[cs.p1.op]] >>)
                 \o << [cls |-> cs.cl, user |-> UserOps[cs.ol]] >>
HistNS(cs) == IF cs.cl = "NG" THEN 1 ELSE NS
ExpandHist(cs) == [decl |-> <<>>, consts |-> RunHistory(ClassDefaults, HistoryOf(cs)).consts, ns |-> HistNS(cs)]

MCExpand(cs) == IF cs.kind = "case" THEN ExpandGraph(cs)
                ELSE IF cs.kind = "hist" THEN ExpandHist(cs)
                ELSE IF cs.kind = "num" THEN Effective(GraderCfg(cs), FALSE)
                ELSE [decl |-> <<>>, consts |-> <<>>, ns |-> 1]

\* ---- case spaces (two-level: seeds fix n, the kinds and the first dependency set)
Ext == {"k", "u"}
DepChoices(i, n, ki) ==
  IF ki # "dep" THEN {{}}
  ELSE IF n <= 3 THEN SUBSET ({Sym[j] : j \in 1..n} \cup Ext)
  ELSE SUBSET {Sym[j] : j \in (1..n) \ {i}}
ExtChoices(n, kv) == IF n <= 3 THEN {<<0, "k">>}
                     ELSE {<<0, "k">>} \cup {<<i, x>> : i \in {j \in 1..n : kv[j] = "dep"}, x \in Ext}
KindVecs(n) == {kv \in [1..4 -> {"ind", "dep", "none"}] : \A i \in 1..4 : (kv[i] = "none") <=> (i > n)}
GraphSeeds == UNION {UNION {{[kind |-> "seed", n |-> n, k1 |-> kv[1], k2 |-> kv[2], k3 |-> kv[3], k4 |-> kv[4], d1 |-> d1,
                              xs |-> e[1], xv |-> e[2]]
                                 : d1 \in DepChoices(1, n, kv[1]), e \in ExtChoices(n, kv)} : kv \in KindVecs(n)} : n \in 0..MaxN}
GraphCases(s) == [kind : {"case"}, n : {s.n}, k1 : {s.k1}, k2 : {s.k2}, k3 : {s.k3}, k4 : {s.k4}, d1 : {s.d1},
                  xs : {s.xs}, xv : {s.xv},
                  d2 : DepChoices(2, s.n, s.k2), d3 : DepChoices(3, s.n, s.k3), d4 : DepChoices(4, s.n, s.k4)]
NumSeeds == {[kind |-> "seed", heads |-> h, pa |-> pa, sp |-> sp, oh |-> oh]
               : h \in DOMAIN HeadSets, pa \in BOOLEAN, sp \in BOOLEAN, oh \in {"a", "ab", "b", "A"}}
NumCases(s) == [kind : {"num"}, heads : {s.heads}, pa : {s.pa}, sp : {s.sp}, oh : {s.oh}, oi : Indices, dep : BOOLEAN]

Seeds == IF Part = "num" THEN NumSeeds ELSE IF Part = "hist" THEN HistSeeds ELSE GraphSeeds
CasesOf(s) == IF Part = "num" THEN NumCases(s) ELSE IF Part = "hist" THEN HistCases(s) ELSE GraphCases(s)

\* ---- allowed outcome of a case (the dump carries it to the adapter)
CaseOutcome(cs) ==
  IF cs.kind = "hist"
  THEN [alts |-> {OutcomeRec(ExpandHist(cs))}, order |-> <<>>, passes |-> 0, diag |-> "none", names |-> {}]
  ELSE IF cs.kind = "case"
  THEN LET g == ExpandGraph(cs) r == LoopRun(g, 1) IN
       [alts |-> {OutcomeRec(g)}, order |-> r.order, passes |-> r.passes, diag |-> r.diag.d, names |-> r.diag.names]
  ELSE LET f == GraderCfg(cs) r == LoopRun(Effective(f, FALSE), 1) o == f.occ[1] IN
       [alts |-> {OutcomeRec(g) : g \in Alternatives(f)}, order |-> r.order, passes |-> r.passes,
        diag |-> r.diag.d, names |-> r.diag.names,
        inst |-> IF o.key \in {d.n : d \in Range(f.vars)} THEN "specific"
                 ELSE IF IsInstance(f, o, FALSE) THEN "instance"
                 ELSE IF IsInstance(f, o, TRUE) THEN "unspecified" ELSE "no"]

Init == c \in Seeds /\ out = "seed" /\ (IF Part \in {"abs", "loop"} THEN SeedState ELSE Parked)
Choose == /\ phase = "seed"
          /\ c' \in CasesOf(c)
          /\ cfg' = MCExpand(c')
          /\ phase' = "start"
          /\ UNCHANGED <<out, val, pending, diag, k, done, hist, scan, pos, progress, passes>>
Enumerate == /\ c.kind = "seed"
             /\ c' \in CasesOf(c)
             /\ out' = CaseOutcome(c')
             /\ UNCHANGED <<cfg, val, pending, phase, diag, k, done, hist, scan, pos, progress, passes>>
Next == IF Part = "abs" THEN Choose \/ AbsNext \/ Halt
        ELSE IF Part = "loop" THEN Choose \/ LoopNext \/ Halt
        ELSE Enumerate
Spec == Init /\ [][Next]_vars /\ WF_vars(Next)

\* ---- laws on every enumerated configuration (parts "cases" and "num")
IsCase == c.kind # "seed"
CaseCfgs == IF c.kind = "num" THEN Alternatives(GraderCfg(c)) ELSE {MCExpand(c)}
LawCfgWellFormed == IsCase => \A g \in CaseCfgs : WellFormedCfg(g)
LawWF == IsCase => \A g \in CaseCfgs : LawWellFoundedChar(g)
LawStuck == IsCase => \A g \in CaseCfgs : LawStuckChar(g) /\ LawMissing(g)
LawSol == IsCase => \A g \in CaseCfgs : LawSolution(g) /\ LawShadow(g)
LawOrder == IsCase => \A g \in CaseCfgs : LawOrderFree(g) /\ LawLoopOrderFree(g)
LawLoop == IsCase => \A g \in CaseCfgs : LawLoopAgrees(g)
\* numbered variables: an occurrence counts as an instance exactly when the head is a numbered variable, the index a
\* canonical integer and no variable of that very name is declared; then it inherits the head's sampling set
LawInstance == (IsCase /\ c.kind = "num") =>
  LET f == GraderCfg(c) g == Effective(f, FALSE) key == Key(c.oh, c.oi) IN
  /\ (out.inst = "instance") <=> (c.oh \in HeadSets[c.heads] /\ IsCanonicalInt(c.oi) /\ ~(c.sp /\ key = "a_1"))
  /\ out.inst = "instance" => key \in Independents(g) /\ DrawSet(g, key) = Range(HeadDraw[c.oh])
  /\ out.inst = "specific" => key = "a_1" /\ DrawSet(g, key) = {6}
  /\ out.inst \in {"no", "unspecified"} => key \notin Required(g)
  /\ (c.dep /\ out.inst = "no") => \A a \in out.alts : a.res = "error"
  /\ (c.dep /\ out.inst \in {"instance", "specific"}) => \A a \in out.alts : a.res = "ok" /\ a.samples[1]["d"] = 1 + a.samples[1][key]
  /\ IsDecimal(c.oi) /\ LawCanonUnique(c.oi)
LawHistory == (IsCase /\ c.kind = "hist") =>
  /\ LawHistoryFree(ClassDefaults, HistoryOf(c))
  /\ WellFormedUser(UserOps[c.ol]) /\ LawConsts(ClassDefaults[c.cl], UserOps[c.ol])
  /\ \A a \in out.alts : a.res = "ok" /\ \A j \in DOMAIN a.samples :
        a.samples[j] = ConstFn(EffectiveConsts(ClassDefaults[c.cl], UserOps[c.ol]))
ASSUME LawCanon == \A n \in -1200..1200 : LawCanonRoundTrip(n)
=============================================================================
