SPECIFICATION Spec
INVARIANT TypeOK
INVARIANT DoneMeetsContract
INVARIANT RedrawOnlyWhereExpected
INVARIANT NeverStuck
INVARIANT RefusedIffNotAccepted
PROPERTY Delivers
PROPERTY AcceptedDelivers
