-------------------------- MODULE MC_SquarePipeline --------------------------
(* The SquareMatrices draw procedure as a state machine over the 288 option combinations of the property statement:
   constructor check, then the retry loop  raw -> symmetry -> traceless -> determinant -> norm  in which the
   determinant step may ask for a redraw.  TLC checks that the feature set carried through the loop ends as a
   superset of the contract, that redraws happen only where the model says they may, and -- as a liveness property
   under fairness of the random determinant sign -- that every accepted configuration eventually delivers a draw. *)
EXTENDS SquarePipeline
VARIABLES cfg, stage, F, redraws
vars == <<cfg, stage, F, redraws>>

Init == /\ cfg \in Combos(2..5)
        /\ stage = "new" /\ F = {} /\ redraws = 0
Construct == /\ stage = "new"
             /\ stage' = IF Accepts(cfg) THEN "raw" ELSE "refused"
             /\ F' = IF Accepts(cfg) THEN Raw(cfg) ELSE {}
             /\ UNCHANGED <<cfg, redraws>>
ApplySymmetry == /\ stage = "raw" /\ stage' = "symmetric" /\ F' = AfterSymmetry(cfg) /\ UNCHANGED <<cfg, redraws>>
MakeTraceless == /\ stage = "symmetric" /\ stage' = "traceless" /\ F' = AfterTraceless(cfg) /\ UNCHANGED <<cfg, redraws>>
Redraw == /\ stage' = "raw" /\ F' = Raw(cfg)
          /\ redraws' = (IF redraws < 2 THEN redraws + 1 ELSE redraws)
          /\ UNCHANGED cfg
DetGood == /\ stage = "traceless"
           /\ \/ cfg.determinant = "none"
              \/ cfg.determinant = "zero"
              \/ cfg.determinant = "one" /\ \E k \in DetKinds(F, cfg.dimension) : ScaleFeasible(F, cfg.dimension, k)
           /\ stage' = "determinant" /\ F' = AfterDet(cfg) /\ UNCHANGED <<cfg, redraws>>
DetBad == /\ stage = "traceless"
          /\ \/ cfg.determinant = "one" /\ \E k \in DetKinds(F, cfg.dimension) : ~ScaleFeasible(F, cfg.dimension, k)
             \/ DetZeroMayRetry(cfg)                       \* a real matrix of even dimension without real eigenvalue
          /\ Redraw
Normalize == /\ stage = "determinant" /\ stage' = "done" /\ F' = AfterNorm(cfg) /\ UNCHANGED <<cfg, redraws>>
Next == Construct \/ ApplySymmetry \/ MakeTraceless \/ DetGood \/ DetBad \/ Normalize
Spec == Init /\ [][Next]_vars /\ WF_vars(Next) /\ SF_vars(DetGood)

TypeOK == /\ stage \in {"new", "refused", "raw", "symmetric", "traceless", "determinant", "done"}
          /\ F \subseteq MatrixFeatures /\ redraws \in 0..2
DoneMeetsContract == stage = "done" => (Required(cfg) \ {"matharray", "shape"}) \subseteq F /\ ~Contradictory(F)
RedrawOnlyWhereExpected == redraws > 0 => MayRetry(cfg)
NeverStuck == stage = "traceless" => ENABLED DetGood \/ ENABLED DetBad
RefusedIffNotAccepted == stage = "refused" => ~Accepts(cfg)
Delivers == <>(stage \in {"done", "refused"})
AcceptedDelivers == (stage = "raw") ~> (stage = "done")
=============================================================================
