-------------------------- MODULE DepResolveTrace --------------------------
(* Code -> spec binding for C13.  One record = one real call (gen_symbols_samples directly, a FormulaGrader call, or a
   ListGrader call with sibling variables): the configuration as generated, and what was observed -- the samples
   (name/value pairs), or the configuration error with its diagnosis, and the order in which the dependent formulas
   were evaluated.

   Verdict (property level): the record is accepted iff, for one of the readings of "numbered-variable instance"
   (Alternatives), either the configuration is well founded and every observed sample satisfies SampleOK (complete,
   drawn from the sampling sets, constants kept, every dependent = its formula on the same sample), or it is not
   and a configuration error was raised.
   Drift (implementation level, reported with the prefix "drift:"): diagnosis, resolution order (must be a behaviour
   of the abstract machine; should be the one the pass loop predicts), names beyond the required ones.          *)
EXTENDS DepResolve, Json, IOUtils
Trace == ndJsonDeserialize(IOEnv.TRACE_FILE)
VARIABLE l

ConvDecl(s) == [i \in DOMAIN s |-> [n |-> s[i].n, k |-> s[i].k, deps |-> Range(s[i].deps), draws |-> s[i].draws]]
ConvHeads(s) == [i \in DOMAIN s |-> [h |-> s[i].h, k |-> s[i].k, deps |-> Range(s[i].deps), draws |-> s[i].draws]]
\* the constants are decided here: the class defaults with the author's user_constants applied (set / remove)
CfgOfRec(r) == [vars |-> ConvDecl(r.vars), heads |-> ConvHeads(r.heads), occ |-> r.occ,
                consts |-> EffectiveConsts(r.defaults, r.uops), ns |-> r.ns]
Obs(r, j) == LET ps == Range(r.samples[j]) IN [x \in {p.n : p \in ps} |-> (CHOOSE p \in ps : p.n = x).v]

AcceptedBy(r, G) == IF WellFounded(G)
                    THEN r.res = "ok" /\ Len(r.samples) = r.ns /\ \A j \in 1..r.ns : SampleOK(G, Obs(r, j))
                    ELSE r.res = "config_error"
Accepting(r) == {G \in Alternatives(CfgOfRec(r)) : AcceptedBy(r, G)}
\* why the strict reading rejects (for the log)
Clause(r) == LET G == Effective(CfgOfRec(r), FALSE) IN
             IF r.bad # "" THEN r.bad
             ELSE IF ~WellFounded(G) THEN "expected-config-error-" \o Diagnosis(G).d \o "-got-" \o r.res
             ELSE IF r.res # "ok" THEN "expected-samples-got-" \o r.res
             ELSE IF Len(r.samples) # r.ns THEN "wrong-number-of-samples"
             ELSE LET j == CHOOSE i \in 1..r.ns : ~SampleOK(G, Obs(r, i)) IN SampleClause(G, Obs(r, j))
Drift(r, G) == IF ~WellFounded(G)
               THEN (IF r.diag # Diagnosis(G).d \/ (r.cmp_names /\ Range(r.names) # Diagnosis(G).names) THEN "drift:diagnosis" ELSE "")
               ELSE IF \E j \in 1..r.ns : DOMAIN Obs(r, j) # Required(G) THEN "drift:extra-names"
               ELSE IF ~r.has_order THEN ""
               ELSE IF \E j \in 1..r.ns : ~FullOrder(G, r.orders[j]) THEN "drift:order-not-a-behaviour"
               ELSE IF r.loop_order /\ \E j \in 1..r.ns : r.orders[j] # LoopRun(G, j).order THEN "drift:order-differs-from-pass-loop"
               ELSE ""
Verdict(i) == LET r == Trace[i] acc == Accepting(r) IN
              IF r.bad # "" \/ acc = {} THEN PrintT(<<"REJECT", r.id, Clause(r)>>)
              ELSE LET d == Drift(r, CHOOSE G \in acc : TRUE) IN IF d = "" THEN TRUE ELSE PrintT(<<"REJECT", r.id, d>>)
Init == l = 0 /\ c = [kind |-> "none"] /\ out = "none" /\ Parked
Next == /\ l < Len(Trace)
        /\ l' = l + 1
        /\ Verdict(l + 1)
        /\ (l + 1 = Len(Trace)) => PrintT(<<"DONE", Len(Trace)>>)
        /\ UNCHANGED vars
=============================================================================
