INIT Init
NEXT Next
