------------------------- MODULE MC_SamplerContracts -------------------------
(* Model instance for C12: TLC enumerates the whole option grid of every sampler class, evaluates the contract of
   each configuration (exported in `out`, replayed into the real samplers by engine/adapters/c12.py) and checks the
   laws of SamplerContracts / SquarePipeline on every configuration.
   Two-level enumeration: a seed per class, one Next step per configuration.                                      *)
EXTENDS SquarePipeline, SequencesExt
CONSTANTS Big          \* FALSE: quick grid, TRUE: thorough grid

(* ---- scalar sets: degenerate, reversed, negative and mixed-sign intervals (numbers in halves) *)
HalfVals == IF Big THEN {-2001, -7, -4, -1, 0, 1, 3, 10, 400} ELSE {-7, -1, 0, 3, 10}
RealIntervalCfgs == {[cls |-> "RealInterval", start |-> a, stop |-> b] : a \in HalfVals, b \in HalfVals}
IntVals == -3..2                                  \* at most 6 values per range: endpoint attainability is decidable
IntegerRangeCfgs == {[cls |-> "IntegerRange", start |-> a, stop |-> b] : a \in IntVals, b \in IntVals}
                    \cup (IF Big THEN {[cls |-> "IntegerRange", start |-> a, stop |-> b] : a \in {-2000, 7}, b \in {-1, 1999}} ELSE {})
Pairs == {<<2, 6>>, <<6, 2>>, <<-5, 1>>, <<3, 3>>, <<0, 1>>} \cup (IF Big THEN {<<-9, -8>>, <<700, -700>>} ELSE {})
RectangleCfgs == {[cls |-> "ComplexRectangle", re |-> p, im |-> q] : p \in Pairs, q \in Pairs}
ModPairs == {<<2, 6>>, <<6, 2>>, <<0, 2>>, <<4, 4>>} \cup (IF Big THEN {<<0, 0>>, <<1, 900>>} ELSE {})
\* arguments in units of pi/12: default quarter turn, reversed, whole circle, a single ray, beyond -2pi, two turns,
\* a sector across the branch cut of the argument function
ArgPairs == {<<0, 6>>, <<6, 0>>, <<-12, 12>>, <<3, 3>>, <<-30, -20>>, <<0, 48>>, <<10, 14>>}
            \cup (IF Big THEN {<<-12, -12>>, <<12, 12>>, <<23, 25>>, <<-1, 1>>} ELSE {})
SectorCfgs == {[cls |-> "ComplexSector", modulus |-> p, argument |-> q] : p \in ModPairs, q \in ArgPairs}
SomeScalars == { [cls |-> "RealInterval", start |-> 2, stop |-> 10], [cls |-> "RealInterval", start |-> 6, stop |-> -4],
                 [cls |-> "IntegerRange", start |-> -2, stop |-> 2], [cls |-> "IntegerRange", start |-> 3, stop |-> 3],
                 [cls |-> "ComplexRectangle", re |-> <<2, 6>>, im |-> <<1, -5>>],
                 [cls |-> "ComplexSector", modulus |-> <<2, 6>>, argument |-> <<0, 6>>],
                 [cls |-> "ComplexSector", modulus |-> <<0, 2>>, argument |-> <<-12, 12>>] }

(* ---- listed values / functions (ids are resolved by the adapter) *)
ValueIds == {"one", "three", "mhalf5", "cplx", "eye2", "mat2", "vec3"}
FunctionIds == {"sin", "cos", "tan", "square", "step"}
SmallSubsets(S) == {T \in SUBSET S : Cardinality(T) \in 1..3}
DiscreteCfgs == {[cls |-> "DiscreteSet", members |-> SetToSeq(T)] : T \in SmallSubsets(ValueIds)}
                \cup {[cls |-> "DiscreteSet", members |-> <<"three", "one", "three">>]}
FunctionCfgs == {[cls |-> "SpecificFunctions", members |-> SetToSeq(T)] : T \in SmallSubsets(FunctionIds)}
                \cup {[cls |-> "SpecificFunctions", members |-> <<"sin", "sin">>]}

(* ---- arrays *)
NormPairs == {<<2, 10>>, <<4, 4>>, <<12, 6>>, <<0, 2>>}      \* default [1,5]; single norm 2; reversed [6,3]; [0,1]
MaxVec == IF Big THEN 7 ELSE 4
MaxMat == IF Big THEN 5 ELSE 4
VectorCfgs == {[cls |-> k, shape |-> <<n>>, norm |-> p, triangular |-> "none"] :
                 k \in VectorClasses, n \in 1..MaxVec, p \in NormPairs}
MatrixCfgs == {[cls |-> k, shape |-> <<r, s>>, norm |-> p, triangular |-> t] :
                 k \in MatrixClasses, r \in 1..MaxMat, s \in 1..MaxMat, t \in {"none", "upper", "lower"},
                 p \in {<<2, 10>>, <<12, 6>>}}
TensorShapes == [1..3 -> 1..3] \cup [1..4 -> 1..2] \cup (IF Big THEN [1..5 -> 1..2] \cup {<<4, 2, 5>>, <<1, 1, 7>>} ELSE {})
TensorCfgs == {[cls |-> k, shape |-> s, norm |-> p, triangular |-> "none"] :
                 k \in TensorClasses, s \in TensorShapes, p \in {<<2, 10>>, <<4, 4>>}}
\* shapes with the wrong number of axes for the class: the constructor must refuse them (monitored as drift only)
BadShapeCfgs == {[cls |-> "RealVectors", shape |-> <<2, 2>>, norm |-> <<2, 10>>, triangular |-> "none"],
                 [cls |-> "ComplexMatrices", shape |-> <<3>>, norm |-> <<2, 10>>, triangular |-> "none"],
                 [cls |-> "RealMatrices", shape |-> <<2, 2, 2>>, norm |-> <<2, 10>>, triangular |-> "none"],
                 [cls |-> "RealTensors", shape |-> <<2, 2>>, norm |-> <<2, 10>>, triangular |-> "none"]}

Dims == IF Big THEN 2..6 ELSE 2..5
SquareNorms == IF Big THEN {<<2, 10>>, <<4, 4>>, <<12, 6>>} ELSE {<<2, 10>>, <<12, 6>>}
SquareCfgsOf(d, sym) == [cls : {"SquareMatrices"}, dimension : {d}, symmetry : {sym}, traceless : BOOLEAN,
                         determinant : Determinants, complex : BOOLEAN, norm : SquareNorms]
IdentityCfgs == {[cls |-> "IdentityMatrixMultiples", dimension |-> d, sampler |-> s] : d \in Dims, s \in SomeScalars}

(* ---- random functions *)
InDims == IF Big THEN 1..5 ELSE 1..4
Terms == IF Big THEN {1, 2, 3, 5, 8} ELSE {1, 2, 3, 5}
RandomFunctionCfgsOf(i) == [cls : {"RandomFunction"}, inputDim : {i}, outputDim : 1..3, numTerms : Terms,
                            center : {-4, 0, 3}, amplitude : {1, 2, 20}, complex : BOOLEAN]

(* ---- enumeration *)
VARIABLES c, out
Seeds == {[kind |-> "seed", part |-> p, a |-> 0, b |-> "none"] :
             p \in {"RealInterval", "IntegerRange", "ComplexRectangle", "ComplexSector", "DiscreteSet",
                    "SpecificFunctions", "Vectors", "Matrices", "Tensors", "BadShapes", "Identity"}}
         \cup {[kind |-> "seed", part |-> "Square", a |-> d, b |-> s] : d \in Dims, s \in Symmetries}
         \cup {[kind |-> "seed", part |-> "RandomFunction", a |-> i, b |-> "none"] : i \in InDims}
CfgsOf(s) ==
  CASE s.part = "RealInterval" -> RealIntervalCfgs
    [] s.part = "IntegerRange" -> IntegerRangeCfgs
    [] s.part = "ComplexRectangle" -> RectangleCfgs
    [] s.part = "ComplexSector" -> SectorCfgs
    [] s.part = "DiscreteSet" -> DiscreteCfgs
    [] s.part = "SpecificFunctions" -> FunctionCfgs
    [] s.part = "Vectors" -> VectorCfgs
    [] s.part = "Matrices" -> MatrixCfgs
    [] s.part = "Tensors" -> TensorCfgs
    [] s.part = "BadShapes" -> BadShapeCfgs
    [] s.part = "Identity" -> IdentityCfgs
    [] s.part = "Square" -> SquareCfgsOf(s.a, s.b)
    [] s.part = "RandomFunction" -> RandomFunctionCfgsOf(s.a)

Init == c \in Seeds /\ out = "seed"
Next == /\ c.kind = "seed"
        /\ \E x \in CfgsOf(c) : c' = [kind |-> "cfg", cfg |-> x]
        /\ out' = Contract(c'.cfg)
IsCase == c.kind = "cfg"
IsSquare == IsCase /\ c.cfg.cls = "SquareMatrices"

(* the count of the property statement (214 of 288 combinations accepted) is an ASSUME of SamplerContracts *)

(* ---- laws, checked on every enumerated configuration *)
LawWithinVocabulary == IsCase => WithinVocabulary(c.cfg)
LawImpliedClosed == IsCase => ImpliedClosed(c.cfg)
LawSatisfiable == IsCase => Satisfiable(c.cfg)
LawOrderIrrelevant == IsCase => OrderIrrelevant(c.cfg)
LawBoundsOrdered == IsCase => BoundsOrdered(c.cfg)
LawEndpointsBelong == IsCase => EndpointsBelong(c.cfg)
LawExistenceHasWitness == IsCase => ExistenceHasWitness(c.cfg)
LawRejectionExplained == IsCase => RejectionExplained(c.cfg)
LawComplexFlagIrrelevant == IsCase => ComplexFlagIrrelevant(c.cfg)
LawMonotone == IsCase => Monotone(c.cfg)
LawIdentityIsDiagonal == IsCase => IdentityIsDiagonal(c.cfg)
LawConstruction == IsCase => ConstructionLaw(c.cfg)
LawOutIsContract == IsCase => out = Contract(c.cfg) /\ out.accepts = Accepts(c.cfg)
\* the implementation-shaped pipeline against the property-level contract
LawSupportedIsEstablished == IsSquare => SupportedIsEstablished(c.cfg)
LawNonExistentIsInfeasible == IsSquare => NonExistentIsInfeasible(c.cfg)
LawConservativeExactly == IsSquare => ConservativeExactly(c.cfg)
LawFinalConsistent == IsSquare => FinalConsistent(c.cfg)
=============================================================================
