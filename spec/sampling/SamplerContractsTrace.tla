----------------------- MODULE SamplerContractsTrace -----------------------
(* Code -> spec binding for C12.  Every line of the ndjson trace is one observation of the real library:
     ev = "construct"  a sampling set was requested with configuration cfg; accepted = the constructor returned
     ev = "draw"       one gen_sample() of an accepted configuration, abstracted to [features, coords, shape, vid]
     ev = "summary"    the distinct values seen in n draws of one IntegerRange
     ev = "step"       (drift monitor) features of the intermediate matrix of a SquareMatrices draw after a stage
   A record is accepted iff SamplerContracts allows it; otherwise the missing features are printed.            *)
EXTENDS SquarePipeline, Json, IOUtils
Trace == ndJsonDeserialize(IOEnv.TRACE_FILE)
VARIABLE l
Rec(i) == Trace[i]
Clause(r) ==
  CASE r.ev = "construct" -> IF r.accepted = Accepts(r.cfg) THEN {}
                             ELSE IF Accepts(r.cfg) THEN {"must-accept"} ELSE {"must-refuse"}
    [] r.ev = "draw"      -> IF Accepts(r.cfg) THEN Missing(r.cfg, r) ELSE {"must-refuse"}
    [] r.ev = "summary"   -> IF EndpointsSeen(r.cfg, r.seen, r.n) THEN {} ELSE {"endpoints"}
    [] r.ev = "step"      -> (StageFeatures(r.cfg, r.stage) \ Elems(r.features))
                             \cup (IF r.retries > 0 /\ ~MayRetry(r.cfg) THEN {"redraw"} ELSE {})
Verdict(i) == LET r == Rec(i)  cl == Clause(r) IN
              IF cl = {} THEN TRUE ELSE PrintT(<<"REJECT", r.id, cl>>)
Init == l = 0
Next == /\ l < Len(Trace)
        /\ l' = l + 1
        /\ Verdict(l + 1)
        /\ (l + 1 = Len(Trace)) => PrintT(<<"DONE", Len(Trace)>>)
=============================================================================
