SPECIFICATION Spec
CONSTANTS
  MaxN = 4
  NS = 2
  Part = "abs"
  MaxIdx = 3
INVARIANT TypeOK
INVARIANT InvPartial
INVARIANT InvConfluent
INVARIANT InvComplete
INVARIANT InvConsistent
INVARIANT InvFailIffBad
PROPERTY AbsDecreases
PROPERTY Terminates
