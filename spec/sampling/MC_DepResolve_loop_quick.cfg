SPECIFICATION Spec
CONSTANTS
  MaxN = 3
  NS = 2
  Part = "loop"
  MaxIdx = 2
INVARIANT TypeOK
INVARIANT InvPartial
INVARIANT InvConfluent
INVARIANT InvComplete
INVARIANT InvConsistent
INVARIANT InvFailIffBad
INVARIANT InvLoop
INVARIANT InvLoopPredicted
PROPERTY LoopDecreases
PROPERTY LoopRefinesAbs
PROPERTY Terminates
