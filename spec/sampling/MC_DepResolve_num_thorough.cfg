INIT Init
NEXT Next
CONSTANTS
  MaxN = 4
  NS = 2
  Part = "num"
  MaxIdx = 3
INVARIANT LawCfgWellFormed
INVARIANT LawWF
INVARIANT LawStuck
INVARIANT LawSol
INVARIANT LawOrder
INVARIANT LawLoop
INVARIANT LawInstance
