SPECIFICATION Spec
CONSTANTS
  MaxN = 3
  NS = 2
  Part = "abs"
  MaxIdx = 2
INVARIANT TypeOK
INVARIANT InvPartial
INVARIANT InvConfluent
INVARIANT InvComplete
INVARIANT InvConsistent
INVARIANT InvFailIffBad
PROPERTY AbsDecreases
PROPERTY Terminates
