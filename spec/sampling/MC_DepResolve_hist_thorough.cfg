INIT Init
NEXT Next
CONSTANTS
  MaxN = 4
  NS = 2
  Part = "hist"
  MaxIdx = 3
INVARIANT LawCfgWellFormed
INVARIANT LawSol
INVARIANT LawHistory
