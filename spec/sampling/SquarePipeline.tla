--------------------------- MODULE SquarePipeline ---------------------------
(* Implementation-shaped model of how SquareMatrices builds a draw (documented order: random real/complex matrix ->
   symmetry -> tracelessness -> determinant 0 or 1 -> norm), as feature-set transformers.  Each step is one of three
   elementary matrix operations whose effect on the features is a fact of linear algebra:
      project onto a symmetry class,   A - mu*I (shift),   A / c (rescale).
   TLC checks (MC_SquarePipeline) that the pipeline establishes Required(cfg) exactly for the configurations the
   property-level module calls Supported, explains each documented limit, and can always terminate when Accepts.
   Mismatches between this model and the code are DRIFT, never violations (DESIGN 2.3).                       *)
EXTENDS SamplerContracts

MatrixFeatures == {"real", "complex", "diagonal", "symmetric", "antisymmetric", "hermitian", "antihermitian",
                   "traceless", "det0", "det1", "normrange", "upper", "lower"}
Close(F, n) == Closure(F, Odd(n))

\* ---- stage 0: entries uniform in [-1/2, 1/2), plus i times the same when complex
Raw(cfg) == IF Cx(cfg) THEN {"complex"} ELSE {"real"}

\* ---- stage 1: symmetry.  diag(diag A), A + A^T, A - A^T, A + A^H, A - A^H
AfterSymmetry(cfg) == Close(Raw(cfg) \cup SymFeature(cfg.symmetry), cfg.dimension)

\* ---- shift A - mu*I.  kind of mu: "zero" "real" "imag" "complex"
Shift(F, kind) ==
  IF kind = "zero" THEN F
  ELSE (F \ {"traceless", "antisymmetric", "det0", "det1", "normrange"})
         \ ((IF kind # "real" THEN {"hermitian", "real"} ELSE {}) \cup (IF kind # "imag" THEN {"antihermitian"} ELSE {}))
\* after a shift that leaves no real entries guaranteed the matrix is (generically) complex
Recomplex(F) == IF "real" \in F THEN F ELSE F \cup {"complex"}

\* the trace of a matrix with features F
TraceKind(F) == IF "antisymmetric" \in F THEN "zero"
                ELSE IF "real" \in F \/ "hermitian" \in F THEN "real"
                ELSE IF "antihermitian" \in F THEN "imag" ELSE "complex"
\* ---- stage 2: A - (tr A / n) I
AfterTraceless(cfg) ==
  LET F == AfterSymmetry(cfg) IN
  IF cfg.traceless THEN Close(Recomplex(Shift(F, TraceKind(F))) \cup {"traceless"}, cfg.dimension) ELSE F

\* ---- determinant of a generic matrix with features F in dimension n: "zero" "pos" "neg" "imag" "complex"
DetKinds(F, n) ==
  IF "det0" \in F THEN {"zero"}
  ELSE IF "real" \in F \/ "hermitian" \in F THEN
         (IF ("hermitian" \in F \/ "symmetric" \in F) /\ "traceless" \in F /\ n = 2 THEN {"neg"}       \* -t^2
          ELSE IF "antisymmetric" \in F THEN {"pos"}                                                      \* Pfaffian^2
          ELSE {"pos", "neg"})
  ELSE IF "antihermitian" \in F THEN
         (IF Odd(n) THEN {"imag"} ELSE IF "traceless" \in F /\ n = 2 THEN {"pos"} ELSE {"pos", "neg"})
  ELSE {"complex"}
\* rescaling that keeps the features: a real factor when realness / (anti)hermiticity must survive, else any complex one
RealScaleOnly(F) == "real" \in F \/ "hermitian" \in F \/ "antihermitian" \in F
ScaleFeasible(F, n, kind) == IF RealScaleOnly(F) THEN kind = "pos" \/ (kind = "neg" /\ Odd(n))
                             ELSE kind \in {"pos", "neg", "imag", "complex"}
DetOneFeasible(cfg) == \E k \in DetKinds(AfterTraceless(cfg), cfg.dimension) :
                          ScaleFeasible(AfterTraceless(cfg), cfg.dimension, k)
\* a redraw is needed for some raw matrices
DetOneMayRetry(cfg) == \E k \in DetKinds(AfterTraceless(cfg), cfg.dimension) :
                          ~ScaleFeasible(AfterTraceless(cfg), cfg.dimension, k)

\* eigenvalues of a matrix with features F
EigKind(F) == IF "hermitian" \in F THEN "real"                                  \* includes real symmetric / real diagonal
              ELSE IF "antihermitian" \in F THEN "imag"                         \* includes real antisymmetric
              ELSE IF "real" \in F THEN "real"                                  \* a real eigenvalue must be found (redraw if none)
              ELSE "complex"
\* ---- stage 3: determinant
AfterDet(cfg) ==
  LET F == AfterTraceless(cfg)  n == cfg.dimension IN
  IF cfg.determinant = "one" THEN                                              \* A / det^(1/n) with a feature-keeping root
    Close((IF ForcedReal(cfg) THEN F \ {"complex"} ELSE F) \cup {"det1"}, n)    \* (2x2 antisymmetric: the result is J or -J)
  ELSE IF cfg.determinant = "zero" THEN
    (IF "det0" \in F THEN F                                                    \* already singular (odd antisymmetric)
     ELSE IF "diagonal" \in F THEN Close((F \ {"traceless"}) \cup {"det0"}, n) \* one diagonal entry set to 0
     ELSE Close(Recomplex(Shift(F, EigKind(F))) \cup {"det0"}, n))             \* A - lambda*I
  ELSE F
DetZeroMayRetry(cfg) == cfg.determinant = "zero" /\ ~Cx(cfg) /\ cfg.symmetry = "none" /\ ~Odd(cfg.dimension)

\* ---- stage 4: norm (positive real factor; skipped for determinant one, where it would destroy the determinant)
AfterNorm(cfg) == IF cfg.determinant = "one" THEN AfterDet(cfg) ELSE AfterDet(cfg) \cup {"normrange"}

Final(cfg) == AfterNorm(cfg)
MayRetry(cfg) == (cfg.determinant = "one" /\ DetOneMayRetry(cfg)) \/ DetZeroMayRetry(cfg)
PipelineOK(cfg) == /\ (Required(cfg) \ {"matharray", "shape"}) \subseteq Final(cfg)
                   /\ cfg.determinant = "one" => DetOneFeasible(cfg)

\* features guaranteed after a stage (used by the drift monitor on recorded intermediate matrices)
StageFeatures(cfg, stage) == (CASE stage = "symmetry" -> AfterTraceless(cfg)       \* code: apply_symmetry does both
                                [] stage = "final" -> Final(cfg)) \ {"normrange"}

(* ---- laws *)
\* what the documentation calls supported is established by the pipeline ...
SupportedIsEstablished(cfg) == Accepts(cfg) => PipelineOK(cfg)
\* ... every configuration that does not exist makes the determinant step impossible ...
NonExistentIsInfeasible(cfg) == cfg.determinant = "one" => (DetOneFeasible(cfg) <=> DetOneExists(cfg))
\* ... and the documented limits are conservative exactly for odd antisymmetric matrices, which are singular and
\* traceless without any help
ConservativeExactly(cfg) == (PipelineOK(cfg) /\ ~Supported(cfg)) <=>
                               (cfg.determinant = "zero" /\ cfg.symmetry = "antisymmetric" /\ Odd(cfg.dimension)
                                /\ (Cx(cfg) \/ cfg.traceless))
FinalConsistent(cfg) == Accepts(cfg) => ~Contradictory(Final(cfg)) /\ Final(cfg) \subseteq MatrixFeatures
=============================================================================
