INIT Init
NEXT Next
CONSTANTS
  MaxN = 3
  NS = 2
  Part = "hist"
  MaxIdx = 2
INVARIANT LawCfgWellFormed
INVARIANT LawSol
INVARIANT LawHistory
