INIT Init
NEXT Next
CONSTANTS
  MaxN = 4
  NS = 2
  Part = "cases"
  MaxIdx = 3
INVARIANT LawCfgWellFormed
INVARIANT LawWF
INVARIANT LawStuck
INVARIANT LawSol
INVARIANT LawOrder
INVARIANT LawLoop
