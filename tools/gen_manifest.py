#!/venv/bin/python
"""Regenerate /verif/MANIFEST.json from the table below (keeps the manifest valid at all times)."""
import json
import os

HERE = os.path.dirname(os.path.dirname(os.path.abspath(__file__)))
ALL = ['C%02d' % i for i in range(1, 21)]

CLAIMED = {
    'C18': dict(
        text='TLC enumerates every (cleaning flags, expected, submitted) case of MC_StringClean inside the bounds '
             '(all strings <= 3 / <= 4 over a 9-symbol alphabet plus edit variants; accept-any grid; six pattern '
             'languages), evaluates the property-level oracle StringClean!Outcome and seven laws about it in every '
             'state; every state is replayed into the real StringGrader, and random long cases recorded from '
             'StringGrader are validated by the trace specification StringCleanTrace.',
        note='Trusted: TLC, the symbol<->character map of the adapter, Python re for the rendered finite patterns. '
             'Bounded-exhaustive plus sampled, not a proof for all strings.',
        technique='TLA+ oracle + TLC exhaustive case enumeration replayed into the code; TLC trace validation of recorded calls',
        design='3/C18'),
}

CLAIMED['C06'] = dict(
    text='Munkres.tla models compute() step by step (pad, steps 1-6 with the scan orders of the code, collect, reuse); '
         'TLC checks on every matrix <= 3x3 over {0,1,2} (thorough: also every 4xk/kx4 over {0,1}) that the result is a complete '
         'minimum-cost matching (against brute force), the dual-feasibility invariant, the duality certificate, that '
         'the caller matrix is untouched, termination (liveness under weak fairness) and reuse. Every enumerated matrix '
         'is replayed through the real Munkres.compute; results on random matrices up to 10x10 (integer, tie-heavy, '
         'dyadic-float, grade-like, reused solver objects, under a wall-clock alarm) are validated by the TLC trace '
         'spec MunkresResultTrace (brute force up to 4x4, LP-duality certificate above); step states observed through '
         'instance-level wrappers are validated against the step model by MunkresStepTrace (drift only).',
    note='Trusted: TLC; the adapter\'s float->integer scaling (only exactly representable float matrices are generated); '
         'the dual certificate is checked by the spec, its producer is untrusted.',
    technique='TLA+ step model of the Hungarian solver checked by TLC (safety+liveness); TLC trace validation of real compute() results and step states',
    design='3/C06')

CLAIMED['C03'] = dict(
    text='ExprLexer / ExprGrammar / ExprEval specify the formula language from characters to exact rational values. TLC '
         'enumerates every token string up to 4 (thorough 5) tokens over a 20-token alphabet, every character string up to 4 '
         '(thorough 6) characters over two lexer alphabets and every operator chain of up to 3 (thorough 4) operators with optional '
         'negations, checks six laws (canonical round trip, parenthesis / leading-plus transparency, usage consistency) and '
         'that the parser agrees with a second, independent definition of the value taken directly from the precedence '
         'table. Every enumerated string is replayed into the real evaluator(): acceptance class, exact value, '
         'whitespace / number-format / em-dash / space-insertion variants, and agreement of each chain with its '
         'canonical fully parenthesised form under real and complex bindings. Long random derivations and corruptions '
         'recorded from evaluator() are validated by the trace specification ExprTrace.',
    note='Trusted: TLC; float<->rational comparison in the adapter (1e-9 relative, exact values only); numpy/CPython arithmetic. '
         'Irrational / huge values are compared only through canonical-form agreement, not against an exact value.',
    technique='TLA+ grammar+evaluator spec; TLC bounded-exhaustive string enumeration replayed into evaluator(); TLC trace validation',
    design='3/C03')

CLAIMED['C10'] = dict(
    text='ParserCache.tla models the shared parser as a state machine (cache keyed by the space-stripped string, scratch '
         'sets filled by grammar callbacks -- also along failing alternatives --, the finally-reset, hand-over of the '
         'usage sets) with one action per code block; TLC checks HistoryIndependent (every call answers what a fresh parser '
         'would, i.e. ExprEval!Outcome), ScratchEmpty, CacheSound and that every call ends (liveness) for all call '
         'histories of length <= 3 (thorough 4) over 14 strings x {parse, evaluate}, and that the model without the reset '
         'violates the property (vacuity guard). Every TLC history is replayed on the module-level PARSER (never reset '
         'between histories) and on a per-history parser, each call compared with the model, with a fresh MathParser and '
         'for aliasing of returned usage sets. Usage exactness is checked on every accepted string of the C03 token and '
         'character models; long random interleavings with grader calls and sampler construction in between are validated '
         'by the trace spec ExprTrace.',
    note='Trusted: TLC; the rendering of model strings; cache-key / scratch-set state comparison is drift only.',
    technique='TLA+ state machine of the parser cache checked by TLC (safety+liveness); TLC histories replayed on the real shared parser; TLC trace validation',
    design='3/C10')

CLAIMED['C11'] = dict(
    text='GraderCall.tla holds the reference machine of the statement (last successfully supplied expect; what a fresh grader '
         'answers is an uninterpreted term) and the life cycle of ItemGrader.__call__ / AbstractGrader.__call__ with one action '
         'per code block and the object fields (stored answers, inferring_answers, log_created, the debug log). TLC checks '
         'SameAsFresh, NoStaleLog, CleanBetweenCalls and that every call ends, for all call histories of length <= 3 (thorough 4) '
         'over 6 expect kinds x 5 input kinds, configured and unconfigured, and that the two model variants with the original '
         'block order violate SameAsFresh / NoStaleLog (these were genuine defects, repaired by fix: commits). Every TLC history '
         '(length 2 quick / 3 thorough) is replayed on String, Formula, Numerical, Matrix, SingleList and Interval graders with '
         'debug on and off: each call is compared with freshly constructed graders, the object fields with the model state '
         '(drift), and process-wide settings and the author configuration dictionaries with snapshots. Long random sequences '
         'over many grader objects with bystander graders in between are validated by GraderCallTrace, where the TLA+ '
         'reference machine decides which fresh answer each call must equal.',
    note='Trusted: TLC; freshly constructed graders run with the same random seed are the oracle for a single call; '
         'the debug line "Expect value inferred" is ignored in comparisons.',
    technique='TLA+ life-cycle state machine + reference machine checked by TLC; TLC histories replayed against fresh graders; TLC trace validation',
    design='3/C11')

REASON_PENDING = 'check not built yet in this revision; the design (DESIGN.md section 3) covers it and it will be claimed once its spec and binding exist'


def main():
    checks = []
    for pid in ALL:
        if pid not in CLAIMED:
            continue
        c = CLAIMED[pid]
        checks.append({
            'property_id': pid,
            'quick_cmd': './check %s --tier quick' % pid,
            'thorough_cmd': './check %s --tier thorough' % pid,
            'evidence_file': '/verif/evidence/%s.json' % pid,
            'replay_cmd_template': './check %s --replay {path}' % pid,
            'engine': 'tlc-conformance',
            'level_claimed': {'category': c.get('category', 'model_checking'), 'text': c['text'],
                              'design_ref': 'DESIGN.md section ' + c['design']},
            'level_note': c['note'],
            'technique': c['technique'],
        })
    man = {
        'version': 1,
        'setup_cmd': 'sh /verif/tools/setup.sh',
        'hooks': {
            'guard': 'MITX_GRADERS_VERIF',
            'enable': 'no source hooks exist: the checks observe the library through author-level extension classes '
                      '(engine/fixtures.py) and harness-side wrappers; ./check exports MITX_GRADERS_VERIF=1 for any future hook',
            'baseline_off_cmd': 'cd /repo && /venv/bin/python -m pytest -ra -q -p no:cacheprovider --timeout=900 --continue-on-collection-errors',
            'source_commits': [],
            'add_only': True,
        },
        'engines': [{
            'name': 'tlc-conformance', 'path': '/verif/engine',
            'serves_properties': sorted(CLAIMED),
            'kind_free_text': 'explicit TLA+ specifications (spec/) model-checked by TLC; spec->code replay of TLC-enumerated '
                              'cases and behaviours, code->spec validation of recorded ndjson traces by TLC trace specs',
        }],
        'checks': checks,
        'notes': 'All checks import the working tree named by VERIF_REPO (default /repo) in fresh processes; nothing is cached between runs.',
        'not_applicable': [{'property_id': p, 'reason': NA.get(p, REASON_PENDING)} for p in ALL if p not in CLAIMED],
    }
    with open(os.path.join(HERE, 'MANIFEST.json'), 'w') as f:
        json.dump(man, f, indent=1)
    print('MANIFEST.json: %d checks, %d not_applicable' % (len(checks), len(man['not_applicable'])))


NA = {}

if __name__ == '__main__':
    main()
