#!/venv/bin/python
"""Regenerate /verif/MANIFEST.json from the table below (keeps the manifest valid at all times)."""
import json
import os

HERE = os.path.dirname(os.path.dirname(os.path.abspath(__file__)))
ALL = ['C%02d' % i for i in range(1, 21)]

CLAIMED = json.load(open(os.path.join(HERE, 'tools', 'claims.json')))

REASON_PENDING = 'check not built yet in this revision; the design (DESIGN.md section 3) covers it and it will be claimed once its spec and binding exist'


def main():
    checks = []
    for pid in ALL:
        if pid not in CLAIMED:
            continue
        c = CLAIMED[pid]
        checks.append({
            'property_id': pid,
            'quick_cmd': './check %s --tier quick' % pid,
            'thorough_cmd': './check %s --tier thorough' % pid,
            'evidence_file': '/verif/evidence/%s.json' % pid,
            'replay_cmd_template': './check %s --replay {path}' % pid,
            'engine': 'tlc-conformance',
            'level_claimed': {'category': c.get('category', 'model_checking'), 'text': c['text'],
                              'design_ref': 'DESIGN.md section ' + c['design']},
            'level_note': c['note'],
            'technique': c['technique'],
        })
    man = {
        'version': 1,
        'setup_cmd': 'sh /verif/tools/setup.sh',
        'hooks': {
            'guard': 'MITX_GRADERS_VERIF',
            'enable': 'no source hooks exist: the checks observe the library through author-level extension classes '
                      '(engine/fixtures.py) and harness-side wrappers; ./check exports MITX_GRADERS_VERIF=1 for any future hook',
            'baseline_off_cmd': 'cd /repo && /venv/bin/python -m pytest -ra -q -p no:cacheprovider --timeout=900 --continue-on-collection-errors',
            'source_commits': [],
            'add_only': True,
        },
        'engines': [{
            'name': 'tlc-conformance', 'path': '/verif/engine',
            'serves_properties': sorted(CLAIMED),
            'kind_free_text': 'explicit TLA+ specifications (spec/) model-checked by TLC; spec->code replay of TLC-enumerated '
                              'cases and behaviours, code->spec validation of recorded ndjson traces by TLC trace specs',
        }],
        'checks': checks,
        'notes': 'All checks import the working tree named by VERIF_REPO (default /repo) in fresh processes; nothing is cached between runs.',
        'not_applicable': [{'property_id': p, 'reason': NA.get(p, REASON_PENDING)} for p in ALL if p not in CLAIMED],
    }
    with open(os.path.join(HERE, 'MANIFEST.json'), 'w') as f:
        json.dump(man, f, indent=1)
    print('MANIFEST.json: %d checks, %d not_applicable' % (len(checks), len(man['not_applicable'])))


NA = {}

if __name__ == '__main__':
    main()
