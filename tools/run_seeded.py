#!/venv/bin/python
"""Run the registered checks against the seeded defects kept under /verif/seeded/<name>/ (patch.diff, demo.py, meta.json).

usage: tools/run_seeded.py [--tier quick] [--verify] [--checks C01,C02 | --all-checks] [name ...]
  For each seeded change: copy /repo's working tree to a scratch directory outside /repo and /verif, apply patch.diff,
  run the check of the property named in meta.json (or the checks given) with VERIF_REPO=<scratch>, expect exit 1.
  --verify additionally re-confirms the seed itself: demo fails on the changed tree, passes on the clean tree, and the
  repository's own test-suite shows no new failure.  The scratch copy is removed afterwards.  Results: seeded/<name>/result.json (one file per change, so several runs can work on disjoint changes at once)
"""
import argparse
import json
import os
import shutil
import subprocess
import sys
import tempfile
import time

VERIF = os.path.dirname(os.path.dirname(os.path.abspath(__file__)))
SEEDED = os.path.join(VERIF, 'seeded')
ALWAYS_FAIL = None


def sh(cmd, cwd=None, env=None, timeout=3600):
    p = subprocess.run(cmd, cwd=cwd, env=env, stdout=subprocess.PIPE, stderr=subprocess.STDOUT, timeout=timeout)
    return p.returncode, p.stdout.decode('utf-8', 'replace')


def baseline_failures():
    base = json.load(open('/root/.vp/BASELINE.json'))
    return set(base['always_fail'])


def run_tests(tree):
    rc, out = sh(['/venv/bin/python', '-m', 'pytest', '-q', '-p', 'no:cacheprovider', '--timeout=900', '-x', '--co', '-q'], cwd=tree)
    xml = os.path.join(tempfile.gettempdir(), 'seed-junit-%d.xml' % os.getpid())
    rc, out = sh(['/venv/bin/python', '-m', 'pytest', '-q', '-p', 'no:cacheprovider', '--timeout=900',
                  '--continue-on-collection-errors', '--junitxml=' + xml], cwd=tree)
    failed = set()
    try:
        import xml.etree.ElementTree as ET
        for tc in ET.parse(xml).getroot().iter('testcase'):
            if tc.find('failure') is not None or tc.find('error') is not None:
                failed.add('%s::%s' % (tc.get('classname'), tc.get('name')))
        os.remove(xml)
    except Exception as e:  # noqa
        return None, 'cannot parse junit: %s' % e
    return failed, out[-400:]


def main():
    ap = argparse.ArgumentParser()
    ap.add_argument('names', nargs='*')
    ap.add_argument('--tier', default='quick')
    ap.add_argument('--verify', action='store_true')
    ap.add_argument('--checks', default='')
    ap.add_argument('--root', default='seeded', help="'seeded' (property-breaking changes, expect exit 1) or 'benign' (property-preserving changes, expect exit 0)")
    ap.add_argument('--related', action='store_true', help='also run every check whose anchor files include a file the patch touches')
    ap.add_argument('--related-only', default='', help='with --related: restrict the additional checks to this comma-separated list')
    a = ap.parse_args()
    global SEEDED
    SEEDED = os.path.join(VERIF, a.root)
    names = a.names or sorted(d for d in os.listdir(SEEDED) if os.path.isdir(os.path.join(SEEDED, d)))
    results = {}
    for name in names:
        d = os.path.join(SEEDED, name)
        meta = json.load(open(os.path.join(d, 'meta.json')))
        checks = [c for c in a.checks.split(',') if c] or [meta['property']]
        if a.related:
            touched = set(l[6:].strip() for l in open(os.path.join(d, 'patch.diff')) if l.startswith('+++ b/'))
            for l in open(os.path.join(VERIF, 'properties.jsonl')):
                pr = json.loads(l)
                if a.related_only and pr['id'] not in a.related_only.split(','):
                    continue
                if pr['id'] not in checks and touched & set(pr['anchors']['files']):
                    checks.append(pr['id'])
        scratch = tempfile.mkdtemp(prefix='seedrun-')
        tree = os.path.join(scratch, 'repo')
        try:
            sh(['rsync', '-a', '--exclude', '.git', '/repo/', tree + '/'])
            rc, out = sh(['git', 'init', '-q'], cwd=tree)
            rc, out = sh(['git', 'apply', '--whitespace=nowarn', os.path.join(d, 'patch.diff')], cwd=tree)
            rpath = os.path.join(d, 'result.json')
            entry = json.load(open(rpath)) if os.path.exists(rpath) else {}
            entry.update({'property': meta['property']})
            if rc != 0:
                entry['applies'] = False
                entry['apply_output'] = out[-500:]
                results[name] = entry
                print('%s: patch does not apply: %s' % (name, out[-200:]))
                continue
            entry['applies'] = True
            if a.verify and os.path.exists(os.path.join(d, 'demo.py')):
                env = dict(os.environ, PYTHONPATH=tree, PYTHONDONTWRITEBYTECODE='1')
                rc1, o1 = sh(['/venv/bin/python', os.path.join(d, 'demo.py')], cwd=tree, env=env, timeout=900)
                env2 = dict(os.environ, PYTHONPATH='/repo', PYTHONDONTWRITEBYTECODE='1')
                rc0, o0 = sh(['/venv/bin/python', os.path.join(d, 'demo.py')], cwd='/repo', env=env2, timeout=900)
                entry['demo_changed_exit'] = rc1
                entry['demo_clean_exit'] = rc0
                failed, tail = run_tests(tree)
                new = sorted(failed - baseline_failures()) if failed is not None else None
                entry['new_test_failures'] = new
                print('%s: demo changed=%s clean=%s new test failures=%s' % (name, rc1, rc0, new))
            for chk in checks:
                t0 = time.time()
                env = dict(os.environ, VERIF_REPO=tree)
                rc, out = sh([os.path.join(VERIF, 'check'), chk, '--tier', a.tier], cwd=VERIF, env=env, timeout=7200)
                viol = [l for l in out.splitlines() if l.startswith('VIOLATION')]
                cls = [l for l in out.splitlines() if l.startswith('violations by class')]
                first = [l for l in out.splitlines() if l.startswith('  ')][:2]
                entry.setdefault('checks', {})[chk + ':' + a.tier] = {
                    'exit': rc, 'violations': len(viol), 'by_class': cls[0] if cls else '', 'first': first,
                    'wall_s': round(time.time() - t0, 1)}
                print('%s: check %s %s -> exit %s, %d VIOLATION lines %s' % (name, chk, a.tier, rc, len(viol), cls[0] if cls else ''))
                if rc == 2:
                    print(out[-1500:])
            results[name] = entry
        finally:
            shutil.rmtree(scratch, ignore_errors=True)
        if name in results:
            json.dump(results[name], open(os.path.join(d, 'result.json'), 'w'), indent=1, sort_keys=True)


if __name__ == '__main__':
    main()
