#!/bin/sh
# dev helper: tools/mut.sh <scratch-repo> <file-relative> <check-id> <python-old> <python-new>
# applies one textual replacement in a scratch copy, runs the quick check against it, restores the file
R=$1; F=$2; ID=$3
cp "$R/$F" "$R/$F.orig"
/venv/bin/python - "$R/$F" "$4" "$5" <<'PY'
import sys
p, old, new = sys.argv[1:4]
s = open(p).read()
if s.count(old) < 1:
    print('PATTERN MISSING'); sys.exit(3)
open(p, 'w').write(s.replace(old, new, 1))
PY
[ $? -eq 0 ] || { mv "$R/$F.orig" "$R/$F"; exit 3; }
(cd /verif && VERIF_REPO=$R ./check $ID --tier quick > /tmp/mut_$ID.log 2>&1; echo "exit=$?"; grep -cE "^VIOLATION" /tmp/mut_$ID.log; grep -E "^(  |DRIFT|MACHINERY)" /tmp/mut_$ID.log | head -3)
mv "$R/$F.orig" "$R/$F"
