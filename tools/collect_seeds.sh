#!/bin/sh
# tools/collect_seeds.sh <suffix> <root> <ID>...: (only the ids named, i.e. agents that have reported) move finished sub-agent outputs /tmp/seedout_<ID><suffix>/{1,2,3} into /verif/<root>/<ID>-<suffix><k>/,
# remove the scratch worktree and the prompt.  Only complete outputs (3 changes with patch.diff, demo.py, meta.json) are taken.
S=$1; ROOT=$2; shift 2
for i in "$@"; do d=/tmp/seedout_$i$S
  [ -d "$d" ] || continue
  id=$(basename $d | sed "s/seedout_//; s/$S\$//")
  ok=1; for k in 1 2 3; do for f in patch.diff demo.py meta.json; do [ -s $d/$k/$f ] || ok=0; done; done
  [ $ok = 1 ] || continue
  for k in 1 2 3; do mkdir -p /verif/$ROOT/$id-$S$k; cp $d/$k/patch.diff $d/$k/demo.py $d/$k/meta.json /verif/$ROOT/$id-$S$k/; done
  git -C /repo worktree remove --force /tmp/seedwt_$id$S 2>/dev/null
  rm -rf $d /tmp/seedprompt_$id$S.txt
  echo collected $id
done
