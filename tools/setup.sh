#!/bin/sh
# Offline setup: nothing to build; verify that the tools the checks need are present and the specs parse.
set -e
cd /verif
chmod +x check
command -v java >/dev/null
test -f /opt/veriftools/tla/tla2tools.jar
/venv/bin/python -c "import numpy, pyparsing"
mkdir -p evidence replay
echo "setup ok"
