#!/venv/bin/python
"""print the seeded-defect prompt for a property: tools/mkseed.py C18 [suffix]"""
import json, sys, subprocess, os
pid = sys.argv[1]
suf = sys.argv[2] if len(sys.argv) > 2 else 'a'
for l in open('/verif/properties.jsonl'):
    p = json.loads(l)
    if p['id'] == pid:
        break
wt = '/tmp/seedwt_%s%s' % (pid, suf)
out = '/tmp/seedout_%s%s' % (pid, suf)
if not os.path.exists(wt):
    subprocess.check_call(['git', '-C', '/repo', 'worktree', 'add', '-q', '--detach', wt, 'HEAD'])
os.makedirs(out, exist_ok=True)
t = open('/verif/tools/benign_prompt.txt' if suf.startswith('n') else '/verif/tools/seed_prompt_c.txt' if suf.startswith('c') or suf.startswith('e') else '/verif/tools/seed_prompt_d.txt' if suf.startswith('d') else '/verif/tools/seed_prompt.txt').read()
t = t.replace('__WT__', wt).replace('__OUT__', out).replace('__PID__', pid).replace('__TITLE__', p['title'])
t = t.replace('__STATEMENT__', p['statement']).replace('__QUANT__', p['quantifier']['text'])
open('/tmp/seedprompt_%s%s.txt' % (pid, suf), 'w').write(t)
print('/tmp/seedprompt_%s%s.txt' % (pid, suf))
