"""Author-level extension classes used as instruments (DESIGN 2.4).  Nothing here touches the repository:
they are exactly what a course author may write against the public API.  Import only after repo.activate()."""
from voluptuous import Required, Schema, Any

from mitxgraders.baseclasses import ItemGrader
from mitxgraders.sampling import VariableSamplingSet


class TableGrader(ItemGrader):
    """ItemGrader whose comparison is a table lookup.

    config['table']: dict (expect_text, input_text) -> entry, entry one of
        number            -> {'grade_decimal': number, 'msg': ''}
        (number, msg)     -> grade and message
        ('raise', ExceptionInstanceOrClass)
        dict              -> returned as is (a raw check_response result)
    pairs missing from the table grade 0 with empty message.  Every call is appended to self.calls.
    """

    @property
    def schema_config(self):
        schema = super(TableGrader, self).schema_config
        return schema.extend({Required('table', default=dict): dict,
                              Required('scale_by_answer', default=True): bool})

    def __init__(self, config=None, **kwargs):
        super(TableGrader, self).__init__(config, **kwargs)
        self.calls = []

    def check_response(self, answer, student_input, **kwargs):
        self.calls.append((answer['expect'], student_input, sorted(kwargs)))
        entry = self.config['table'].get((answer['expect'], student_input), 0)
        if isinstance(entry, tuple) and entry and entry[0] == 'raise':
            exc = entry[1]
            raise exc
        if isinstance(entry, dict):
            return dict(entry)
        if isinstance(entry, tuple):
            grade, msg = entry
        else:
            grade, msg = entry, ''
        if self.config['scale_by_answer']:
            grade = grade * answer['grade_decimal']
            if not msg:
                msg = answer['msg'] if grade > 0 else ''
        return {'ok': self.grade_decimal_to_ok(grade), 'grade_decimal': grade, 'msg': msg}


class ScriptedSampler(VariableSamplingSet):
    """Sampling set that hands out a scripted sequence of values (cyclically) and records every draw."""
    schema_config = Schema({Required('script'): list})

    def __init__(self, config=None, **kwargs):
        super(ScriptedSampler, self).__init__(config, **kwargs)
        self.draws = []

    def gen_sample(self):
        v = self.config['script'][len(self.draws) % len(self.config['script'])]
        self.draws.append(v)
        return v


def result_key(r):
    """hashable projection of a grader result"""
    if isinstance(r, dict) and 'input_list' in r:
        return ('list', r.get('overall_message', ''), tuple(result_key(x) for x in r['input_list']))
    return (r['ok'], round(float(r['grade_decimal']), 12), r['msg'])
