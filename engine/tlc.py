"""Run TLC from Python: exhaustive checking, dumps, simulation, trace validation."""
import os
import re
import shutil
import subprocess
import tempfile
import time

HERE = os.path.dirname(os.path.abspath(__file__))
VERIF = os.path.dirname(HERE)
SPEC = os.path.join(VERIF, 'spec')
JAR = '/opt/veriftools/tla/tla2tools.jar:/opt/veriftools/tla/CommunityModules-deps.jar'


class TLCError(Exception):
    """machinery failure: TLC could not run / spec is broken"""


class TLCResult(object):
    def __init__(self, out, rc, wall):
        self.out, self.rc, self.wall = out, rc, wall
        m = re.findall(r'(\d+) states generated, (\d+) distinct states found', out)
        self.generated = int(m[-1][0]) if m else 0
        self.distinct = int(m[-1][1]) if m else 0
        self.violated = re.findall(r'Error: Invariant (\S+) is violated', out)
        self.violated += re.findall(r'Error: Action property (\S+) is violated', out)
        if 'Temporal properties were violated' in out:
            self.violated.append('<temporal>')
        if 'Deadlock reached' in out:
            self.violated.append('<deadlock>')
        self.assumption_failed = 'Assumption' in out and 'is false' in out
        self.postcondition_failed = bool(re.search(r'[Pp]ost-?condition.*(false|violated)', out))
        self.completed = ('Model checking completed' in out) or ('Finished in' in out and rc == 0) \
            or ('Finished computing initial states' in out and rc == 0)
        self.ok = (rc == 0 and not self.violated and not self.assumption_failed)
        m = re.search(r'The depth of the complete state graph search is (\d+)', out)
        self.depth = int(m.group(1)) if m else 0

    def printed(self):
        """values printed with PrintT/Print, one per line, as raw text"""
        return [l for l in self.out.splitlines() if l.startswith('<<') or l.startswith('"') or l.startswith('[')]

    def coverage(self):
        """action name -> (distinct, total) from -coverage output"""
        cov = {}
        for m in re.finditer(r'<(\w+) line \d+, col \d+ to line \d+, col \d+ of module (\w+)>: (\d+):(\d+)', self.out):
            cov[m.group(1)] = (int(m.group(3)), int(m.group(4)))
        return cov


def library_path():
    dirs = [os.path.join(SPEC, d) for d in sorted(os.listdir(SPEC)) if os.path.isdir(os.path.join(SPEC, d))]
    return ':'.join(dirs)


def run(module, cfg=None, workers=16, scratch=None, dump=None, simulate=None, depth=None, seed=None,
        env=None, timeout=900, coverage=False, deadlock=False, heap='8g', extra=(), dfs=False):
    """module: path to .tla relative to spec/ (or absolute).  Returns TLCResult.
    deadlock=False adds -deadlock (i.e. do NOT check deadlock), the right default for case-enumeration models."""
    mod = module if os.path.isabs(module) else os.path.join(SPEC, module)
    if cfg is None:
        cfg = mod[:-4] + '.cfg'
    elif not os.path.isabs(cfg):
        cfg = os.path.join(SPEC, cfg)
    own = scratch is None
    if own:
        scratch = tempfile.mkdtemp(prefix='verif-tlc-')
    md = tempfile.mkdtemp(prefix='md-', dir=scratch)
    jopts = '-Djava.io.tmpdir=%s -DTLA-Library=%s' % (scratch, library_path())
    if dfs:
        jopts += ' -Dtlc2.tool.queue.IStateQueue=StateDeque'
    cmd = ['java', '-XX:+UseParallelGC', '-Xmx' + heap, '-cp', JAR, 'tlc2.TLC',
           '-workers', str(workers), '-metadir', md, '-noGenerateSpecTE', '-config', cfg]
    if not deadlock:
        cmd.append('-deadlock')
    if coverage:
        cmd += ['-coverage', '1']
    if dump:
        cmd += ['-dump', dump]
    if simulate:
        cmd += ['-simulate', simulate]
    if depth:
        cmd += ['-depth', str(depth)]
    if seed is not None:
        cmd += ['-seed', str(seed)]
    cmd += list(extra) + [mod]
    e = dict(os.environ)
    e['JAVA_TOOL_OPTIONS'] = jopts
    if env:
        e.update(env)
    t0 = time.time()
    try:
        p = subprocess.run(cmd, stdout=subprocess.PIPE, stderr=subprocess.STDOUT, env=e, timeout=timeout,
                           cwd=os.path.dirname(mod))
        out, rc = p.stdout.decode('utf-8', 'replace'), p.returncode
    except subprocess.TimeoutExpired as ex:
        subprocess.call(['pkill', '-f', md])
        out = (ex.stdout or b'').decode('utf-8', 'replace') + '\nTLC TIMEOUT after %ss' % timeout
        rc = 124
    finally:
        shutil.rmtree(md, ignore_errors=True)
        if own:
            shutil.rmtree(scratch, ignore_errors=True)
    res = TLCResult(out, rc, time.time() - t0)
    if rc == 124:
        raise TLCError('TLC timed out on %s:\n%s' % (module, out[-2000:]))
    if ('Parsing or semantic analysis failed' in out or 'TLC threw an unexpected exception' in out
            or 'Error: ' in out and not res.violated and rc not in (0,) and 'is violated' not in out
            and not res.postcondition_failed and not res.assumption_failed):
        raise TLCError('TLC failed on %s (rc=%s):\n%s' % (module, rc, out[-4000:]))
    return res
