"""Locate and import the repository under verification (current working tree, never a cached copy)."""
import os
import sys

REPO = os.environ.get('VERIF_REPO', '/repo')


def activate():
    if REPO not in sys.path:
        sys.path.insert(0, REPO)
    os.environ.setdefault('PYTHONHASHSEED', '0')
    return REPO
