"""Ordinary grader calls by *other* grader objects, run in the same process between the observed calls of a check.

Nothing they do may influence what a later call on another object returns (C11), yet each one touches state that is
shared process-wide or class-wide: numpy's floating-point error handling, the negative-power switch of MathArray,
default function / suffix tables, the shared expression parser, class-level default results, comparer objects.
Checks that replay many independent cases call `stress()` every few dozen cases (or pick single actions with
`actions()`), so that a change which lets such state leak shows up as a disagreement with the specification in
whatever case comes next.  Every action swallows its own exceptions: raising is part of the exercise.
"""
import random

_CACHE = {}


def _graders():
    if _CACHE:
        return _CACHE
    from mitxgraders import (FormulaGrader, NumericalGrader, MatrixGrader, StringGrader, SingleListGrader, ListGrader,
                             SumGrader, RandomFunction, DependentSampler, RealInterval, LinearComparer, RealMatrices)
    import numpy as np
    from mitxgraders import vector_span_comparer, vector_phase_comparer
    lin = LinearComparer()
    _CACHE.update(
        inf=NumericalGrader(answers='infty', allow_inf=True),
        num=NumericalGrader(answers='1', wrong_msg='BYSTANDER-WRONG'),
        form=FormulaGrader(answers='x^2', variables=['x'], wrong_msg='BYSTANDER-WRONG'),
        metric=FormulaGrader(answers='1k', metric_suffixes=True),
        rf=FormulaGrader(answers='f(x)', variables=['x'], user_functions={'f': RandomFunction()}),
        dep=FormulaGrader(answers='y', variables=['x', 'y'], sample_from={'x': RealInterval([1, 2]),
                                                                           'y': DependentSampler(formula='x+1')}),
        noneg=MatrixGrader(answers='[[1,0],[0,1]]', negative_powers=False, max_array_dim=2),
        nonegdep=MatrixGrader(answers='A', variables=['A', 'x', 'y'], max_array_dim=2, negative_powers=False,
                              identity_dim=2, sample_from={'A': RealMatrices(shape=[2, 2]), 'x': RealInterval([1, 2]),
                                                           'y': DependentSampler(formula='x+1')}),
        mat=MatrixGrader(answers='[[1,0],[0,1]]', max_array_dim=2),
        lin1=FormulaGrader(answers={'comparer': lin, 'comparer_params': ['x^2']}, variables=['x']),
        lin2=FormulaGrader(answers={'comparer': lin, 'comparer_params': ['2*x']}, variables=['x']),
        string=StringGrader(answers='zebra', wrong_msg='BYSTANDER-WRONG'),
        any=StringGrader(accept_any=True, min_length=5, explain_minimums=None, wrong_msg='BYSTANDER-WRONG'),
        single=SingleListGrader(answers=['a', 'b'], subgrader=StringGrader(), wrong_msg='BYSTANDER-WRONG'),
        lst=ListGrader(answers=['1', '2'], subgraders=NumericalGrader(), debug=True),
        supp=MatrixGrader(answers='[1,2]', suppress_matrix_messages=True, wrong_msg='BYSTANDER-WRONG'),
        supp2=MatrixGrader(answers='[1,2]', suppress_matrix_messages=True, wrong_msg='BYSTANDER-OTHER'),
        span=MatrixGrader(answers={'comparer': vector_span_comparer, 'comparer_params': ['[1,1,0]']}),
        phase=MatrixGrader(answers={'comparer': vector_phase_comparer, 'comparer_params': ['[1,1,0]']}),
        vec=FormulaGrader(answers='[1,2]', max_array_dim=1),
        override=FormulaGrader(answers='1', suppress_warnings=True,
                               user_functions={'sin': lambda x: 0.5, 'arctan2': lambda x, y: float(np.arctan2(x, y)),
                                               'abs': lambda x: 7.0}),
        summ=SumGrader(answers={'lower': '1', 'upper': '4', 'summand': 'n', 'summation_variable': 'n'},
                       input_positions={'summand': 1}),
    )
    return _CACHE


def actions():
    """list of zero-argument callables; each performs one bystander call (exceptions swallowed)"""
    g = _graders()

    def call(name, *inputs):
        def run():
            for inp in inputs:
                try:
                    g[name](None, inp)
                except Exception:  # noqa
                    pass
        return run
    return [
        call('inf', 'infty', '-infty', '5', '1/0'),
        call('num', 'ln(0)', '10^400', '2', 'arccosh(0.5)'),
        call('form', 'x', '0', 'x^2+', 'sin(x'),
        call('metric', '1000', '1k', '1M'),
        call('rf', 'f(x)', 'f(x+1)'),
        call('dep', 'x+1', 'y'),
        call('noneg', '[[1,0],[0,1]]^-1', '[[1,0],[0,1]]'),
        call('nonegdep', 'A', 'A^-1'),
        call('mat', '[[1,2],[2,4]]^-1', '[[1,2],[3,4]]^-1*0+[[1,0],[0,1]]', '[0,0]/0', '[[1e200,0],[0,1e200]]^2'),
        call('lin1', '0', '3*x^2', 'x^2+1'),
        call('lin2', '0*x', '6*x'),
        call('string', 'not a zebra'),
        call('any', 'ab'),
        call('single', 'x,y', 'a'),
        call('lst', ['1', '3'], ['x', '2']),
        call('summ', 'n+1', 'n'),
        call('supp', '[1,2,3]', '5', '[[1,2],[3,4]]'),
        call('supp2', '[1,2,3]', '[1,2]'),
        call('span', '[0,0,0]', '[2,2,0]', '[1,0,0]'),
        call('phase', '[0,0,0]', '[i,i,0]'),
        call('vec', '5', '[1,2]', '[1,2,3]'),
        call('override', 'sin(1)', 'arctan2(1,2)', 'abs(-3)', 'sin(1)+arctan2(1, 2)'),
        call('mat', 'abs([3,4])', 'norm([3,4])', 'abs([3, 4])'),
    ]


def stress(rng=None, k=None):
    """run all bystander actions (or k randomly chosen ones)"""
    acts = actions()
    if k is not None:
        rng = rng or random
        acts = [rng.choice(acts) for _ in range(k)]
    for a in acts:
        a()
